(* C18/PProofs.v — the Scheduler plugin never has one user request scheduled twice, across reload and restart
   (the model of plugin.py is PModel.v).  Proof: an invariant of (schedule, counter, dict) that every command, the
   firing of events and -- item by item -- the loop of _restoreEvents preserve. *)
From Coq Require Import List NArith ZArith Bool Lia ZifyBool Permutation.
Import ListNotations.
Require Import Base.Wire Base.PyStr C18.Names C18.PModel C18.Aux.
Require gen.T18.

Definition snames (l : list sent) := map s_name l.
Definition scmds (l : list sent) := map s_cmd l.
Definition keys (d : list (name * pev)) := map fst d.
Definition kcmd (kv : name * pev) : N := pcmd (snd kv).
Definition uniq (d : list (name * pev)) := forall a b, In a d -> In b d -> kcmd a = kcmd b -> fst a = fst b.
Definition typed (d : list (name * pev)) := forall k t c r, In (k, PSingle t c r) d -> exists i, k = Auto i.
Definition typedr (d : list (name * pev)) := forall k p c f, In (k, PRepeat p c f) d -> exists j, k = Named j.
Definition link (S : list sent) (d : list (name * pev)) := forall e kv, In e S -> In kv d -> kcmd kv = s_cmd e -> fst kv = s_name e.

(* S, c: schedule and counter; D: the dict of the loaded instance; R: the pickled items _restoreEvents still has to
   process ([] outside of it); nc: number of requests so far *)
Record LINV (S : list sent) (c : N) (D R : list (name * pev)) (nc : N) : Prop := {
  q_names : NoDup (snames S);
  q_cmds : NoDup (scmds S);                  (* <- the claim: no request has two schedule entries *)
  q_kD : NoDup (keys D);  q_uD : uniq D;  q_tD : typed D;
  q_kR : NoDup (keys R);  q_uR : uniq R;  q_tR : typed R;
  q_x : forall a b, In a D -> In b R -> kcmd a <> kcmd b;
  q_lD : link S D;  q_lR : link S R;
  q_auto : forall e i, In e S -> s_name e = Auto i -> (i < c)%N;
  q_fs : forall e, In e S -> (s_cmd e < nc)%N;
  q_fD : forall kv, In kv D -> (kcmd kv < nc)%N;
  q_fR : forall kv, In kv R -> (kcmd kv < nc)%N;
  q_rD : typedr D;  q_rR : typedr R }.

Definition linv (s : pst) (R : list (name * pev)) : Prop := LINV (p_sched s) (p_counter s) (p_dict s) R (p_ncmd s).
Definition pinv (s : pst) : Prop := linv s [].

Lemma table_passes_id : gen.T18.RESTORE_PASSES_ID = true.
Proof. reflexivity. Qed.
Lemma table_checks_free : gen.T18.RESTORE_CHECKS_FREE = true.
Proof. reflexivity. Qed.
Lemma table_delete_first : gen.T18.DELETE_BEFORE_TOKENIZE = true.
Proof. reflexivity. Qed.

Lemma shas_In n l : shas n l = true <-> In n (snames l).
Proof.
  unfold shas, snames. rewrite existsb_exists. split.
  - intros [e [He E]]. apply name_eqb_eq in E. subst. apply in_map. auto.
  - intros H. apply in_map_iff in H. destruct H as [e [E He]]. exists e. split; auto. apply name_eqb_eq. auto.
Qed.

Lemma dset_in k v d kv : In kv (dset k v d) -> kv = (k, v) \/ In kv d.
Proof.
  induction d as [|[k' v'] d IH]; simpl.
  - intros [H|[]]; auto.
  - destruct (name_eqb k' k); simpl; intros [H|H]; auto; try (destruct (IH H); auto).
Qed.

Lemma dset_keys_in k v d x : In x (keys (dset k v d)) -> x = k \/ In x (keys d).
Proof.
  intros H. apply in_map_iff in H. destruct H as [kv [E Hk]]. destruct (dset_in _ _ _ _ Hk) as [->|Hd]; auto.
  right. rewrite <- E. apply in_map. auto.
Qed.

Lemma dset_keys k v d : NoDup (keys d) -> NoDup (keys (dset k v d)).
Proof.
  induction d as [|[k' v'] d IH]; simpl; intros ND.
  - constructor; [intros []|constructor].
  - inversion ND; subst. destruct (name_eqb k' k) eqn:E; simpl.
    + apply name_eqb_eq in E. subst. constructor; auto.
    + constructor; auto. intro X. destruct (dset_keys_in _ _ _ _ X) as [->|X2]; auto.
      apply name_eqb_neq in E. congruence.
Qed.

(* ---- one scheduling attempt: refused (name taken), or a new entry under a name that was free ---- *)
Lemma s_add_cases t nm cmd rem per s :
  let r := s_add t nm cmd rem per s in
  p_dict (fst r) = p_dict s /\ p_ncmd (fst r) = p_ncmd s /\ (p_counter s <= p_counter (fst r))%N /\
  ((p_sched (fst r) = p_sched s /\ (exists e, snd r = Raise e) /\ (forall n, nm = Some n -> In n (snames (p_sched s))))
   \/ exists n, snd r = Ok n /\ p_sched (fst r) = SE t n (p_gen s) cmd rem per :: p_sched s /\ ~ In n (snames (p_sched s)) /\
        (nm = Some n \/ (nm = None /\ n = Auto (p_counter s) /\ p_counter (fst r) = (p_counter s + 1)%N))).
Proof.
  unfold s_add. destruct nm as [n|]; simpl.
  - destruct (shas n (p_sched s)) eqn:E; simpl; repeat split; auto; try lia.
    + left. repeat split; eauto. intros n0 H. inversion H; subst. apply shas_In; auto.
    + right. exists n. repeat split; auto. intro X. apply shas_In in X. congruence.
  - destruct (shas (Auto (p_counter s)) (p_sched s)) eqn:E; simpl; repeat split; auto; try lia.
    + left. repeat split; eauto. intros n0 H. discriminate.
    + right. exists (Auto (p_counter s)). repeat split; auto. intro X. apply shas_In in X. congruence.
Qed.

(* the common core of _add / _repeat on an item (K, ev) that is the head of the to-do list R, or a brand-new request
   (R untouched, K irrelevant): after the attempt the dict gets ev under the id on success, under K when refused *)
Definition attempt (t : Z) (nm : option name) (K : name) (ev : pev) (rem : bool) (per : option Z) (s : pst) : pst :=
  match s_add t nm (pcmd ev) rem per s with
  | (s1, Ok id) => set_dict (dset id ev (p_dict s1)) s1
  | (s1, Raise _) => set_dict (dset K ev (p_dict s1)) s1
  end.

Lemma linv_attempt t nm K ev rem per s R :
  linv s ((K, ev) :: R) ->
  (nm = Some K \/ (nm = None /\ ~ In (pcmd ev) (scmds (p_sched s)))) ->
  (forall tt c r, ev = PSingle tt c r -> nm = None \/ exists i, K = Auto i) ->
  (forall i, K = Auto i -> nm = Some K -> (i < p_counter s)%N) ->
  (forall p c f, ev = PRepeat p c f -> nm = Some K) ->
  linv (attempt t nm K ev rem per s) R.
Proof.
  intros [Q1 Q2 Q3 Q4 Q5 Q6 Q7 Q8 Q9 Q10 Q11 Q12 Q13 Q14 Q15 Q16 Q17] Hnm Hty Hty_auto0 Hrep. unfold attempt.
  destruct (s_add_cases t nm (pcmd ev) rem per s) as (Ed & En & Ec & Hc).
  assert (HinR : In (K, ev) ((K, ev) :: R)) by (left; auto).
  assert (NotR : forall b, In b R -> kcmd b <> pcmd ev).
  { intros b Hb E. inversion Q6; subst. apply H1. change K with (fst (K, ev)).
    rewrite <- (Q7 b (K, ev) (or_intror Hb) HinR E). apply in_map. exact Hb. }
  assert (NotD : forall a, In a (p_dict s) -> kcmd a <> pcmd ev) by (intros a Ha; apply (Q9 a (K, ev) Ha HinR)).
  destruct (s_add t nm (pcmd ev) rem per s) as [s1 [id|ex]]; simpl in *.
  - (* scheduled under id *)
    destruct Hc as [(_ & [e X] & _)|(n & Eok & ES & Hfree & Hn)]; [discriminate|]. inversion Eok; subst n. clear Eok.
    assert (Cfree : ~ In (pcmd ev) (scmds (p_sched s))).
    { destruct Hnm as [->|[_ H]]; auto. intro X. apply in_map_iff in X. destruct X as [e [Ee He]].
      pose proof (Q11 e (K, ev) He HinR (eq_sym Ee)) as Hk. simpl in Hk.
      destruct Hn as [Hs|[Hs _]]; [|discriminate]. inversion Hs; subst id. apply Hfree. rewrite Hk. apply in_map. exact He. }
    unfold linv. simpl. rewrite ES, Ed, En. constructor; simpl.
    + constructor; auto.
    + constructor; auto.
    + apply dset_keys; auto.
    + intros a b Ha Hb E. destruct (dset_in _ _ _ _ Ha) as [->|Ha']; destruct (dset_in _ _ _ _ Hb) as [->|Hb']; auto.
      * exfalso. apply (NotD b Hb'). symmetry. exact E.
      * exfalso. apply (NotD a Ha'). exact E.
    + intros k tt c r Hin. destruct (dset_in _ _ _ _ Hin) as [X|X]; [|eapply Q5; eauto].
      inversion X; subst. destruct Hn as [Hs|[Hs [-> _]]]; [|eauto].
      destruct (Hty tt c r eq_refl) as [Y|[i Y]]; [congruence|]. destruct Hnm as [Hk|[Hk _]]; [|congruence].
      rewrite Hk in Hs. inversion Hs; subst. eauto.
    + inversion Q6; auto.
    + intros a b Ha Hb. apply Q7; right; auto.
    + intros k tt c r Hin. eapply Q8. right. exact Hin.
    + intros a b Ha Hb. destruct (dset_in _ _ _ _ Ha) as [->|Ha']; [|apply Q9; auto; right; auto].
      intro E. apply (NotR b Hb). symmetry. exact E.
    + intros e kv [<-|He] Hk E; simpl in *.
      * destruct (dset_in _ _ _ _ Hk) as [->|Hk']; auto. exfalso. apply (NotD kv Hk'). exact E.
      * destruct (dset_in _ _ _ _ Hk) as [->|Hk']; [|apply Q10; auto].
        exfalso. apply Cfree. unfold kcmd in E. simpl in E. rewrite E. apply in_map. exact He.
    + intros e kv [<-|He] Hk E; simpl in *.
      * exfalso. apply (NotR kv Hk). exact E.
      * apply Q11; auto. right. exact Hk.
    + intros e i [<-|He] Hi; simpl in *.
      * destruct Hn as [Hs|[_ [-> Hcc]]].
        -- destruct Hnm as [Hk|[Hk _]]; [|congruence]. rewrite Hk in Hs. inversion Hs; subst.
           (* re-scheduling under the old id K = Auto i: only attempted when the counter is past it -- supplied by the caller *)
           specialize (Hty_auto0 i eq_refl eq_refl). lia.
        -- inversion Hi; subst. lia.
      * specialize (Q12 e i He Hi). lia.
    + intros e [<-|He]; simpl; auto. apply (Q15 (K, ev) HinR).
    + intros kv Hk. destruct (dset_in _ _ _ _ Hk) as [->|Hk']; auto. apply (Q15 (K, ev) HinR).
    + intros kv Hk. apply Q15. right. exact Hk.
    + intros k p c f Hin. destruct (dset_in _ _ _ _ Hin) as [X|X]; [|eapply Q16; eauto].
      inversion X; subst. destruct Hn as [Hs|[Hs _]]; [|rewrite (Hrep p c f eq_refl) in Hs; discriminate].
      rewrite (Hrep p c f eq_refl) in Hs. inversion Hs; subst. eapply Q17. left. reflexivity.
    + intros k p c f Hin. eapply Q17. right. exact Hin.
  - (* refused: the name is scheduled; the item goes to the dict under its old key *)
    destruct Hc as [(ES & _ & Hin)|(n & Eok & _)]; [|discriminate].
    unfold linv. simpl. rewrite ES, Ed, En. constructor; simpl.
    + exact Q1.
    + exact Q2.
    + apply dset_keys; auto.
    + intros a b Ha Hb E. destruct (dset_in _ _ _ _ Ha) as [->|Ha']; destruct (dset_in _ _ _ _ Hb) as [->|Hb']; auto.
      * exfalso. apply (NotD b Hb'). symmetry. exact E.
      * exfalso. apply (NotD a Ha'). exact E.
    + intros k tt c r Hin2. destruct (dset_in _ _ _ _ Hin2) as [X|X]; [|eapply Q5; eauto].
      inversion X; subst. eapply Q8. left. reflexivity.
    + inversion Q6; auto.
    + intros a b Ha Hb. apply Q7; right; auto.
    + intros k tt c r Hin2. eapply Q8. right. exact Hin2.
    + intros a b Ha Hb. destruct (dset_in _ _ _ _ Ha) as [->|Ha']; [|apply Q9; auto; right; auto].
      intro E. apply (NotR b Hb). symmetry. exact E.
    + intros e kv He Hk E. destruct (dset_in _ _ _ _ Hk) as [->|Hk']; [|apply Q10; auto].
      apply (Q11 e (K, ev) He HinR E).
    + intros e kv He Hk E. apply Q11; auto. right. exact Hk.
    + intros e i He Hi. specialize (Q12 e i He Hi). lia.
    + exact Q13.
    + intros kv Hk. destruct (dset_in _ _ _ _ Hk) as [->|Hk']; [apply (Q15 (K, ev) HinR)|auto].
    + intros kv Hk. apply Q15. right. exact Hk.
    + intros k p c f Hin2. destruct (dset_in _ _ _ _ Hin2) as [X|X]; [|eapply Q16; eauto].
      inversion X; subst. eapply Q17. left. reflexivity.
    + intros k p c f Hin2. eapply Q17. right. exact Hin2.
Qed.

(* ---- frames: what an attempt leaves alone ---- *)
Lemma s_add_frame t nm cmd rem per s :
  let s1 := fst (s_add t nm cmd rem per s) in
  p_gen s1 = p_gen s /\ p_done s1 = p_done s /\ p_loaded s1 = p_loaded s /\ p_pickle s1 = p_pickle s /\ p_now s1 = p_now s.
Proof.
  unfold s_add. destruct nm as [n|]; simpl.
  - destruct (shas n (p_sched s)); simpl; auto.
  - destruct (shas (Auto (p_counter s)) (p_sched s)); simpl; auto.
Qed.

Lemma attempt_frame t nm K ev rem per s :
  let s1 := attempt t nm K ev rem per s in
  p_gen s1 = p_gen s /\ p_done s1 = p_done s /\ p_loaded s1 = p_loaded s /\ p_pickle s1 = p_pickle s.
Proof.
  unfold attempt. destruct (s_add_frame t nm (pcmd ev) rem per s) as (A & B & C & D & _).
  destruct (s_add t nm (pcmd ev) rem per s) as [s1 [id|e]]; simpl in *; auto.
Qed.

Lemma dset_keys_mono k v d x : In x (keys d) -> In x (keys (dset k v d)).
Proof.
  induction d as [|[k' v'] d IH]; simpl; [intros []|].
  destruct (name_eqb k' k) eqn:E; simpl; intros [H|H]; auto. apply name_eqb_eq in E. subst. auto.
Qed.
Lemma dset_keys_new k v d : In k (keys (dset k v d)).
Proof.
  induction d as [|[k' v'] d IH]; simpl; auto. destruct (name_eqb k' k); simpl; auto.
Qed.
Lemma dhas_In k d : dhas k d = true <-> In k (keys d).
Proof.
  induction d as [|[k' v'] d IH]; simpl; [split; [discriminate|tauto]|].
  rewrite orb_true_iff, IH, name_eqb_eq. tauto.
Qed.
Lemma ddel_keys_other n d x : In x (keys d) -> x <> n -> In x (keys (ddel n d)).
Proof.
  intros H Hn. apply in_map_iff in H. destruct H as [kv [E Hk]]. apply in_map_iff. exists kv. split; auto.
  unfold ddel. apply filter_In. split; auto. rewrite E. apply negb_true_iff. apply name_eqb_neq. exact Hn.
Qed.
Lemma ddel_in k d kv : In kv (ddel k d) -> In kv d /\ fst kv <> k.
Proof.
  unfold ddel. intros H. apply filter_In in H. destruct H as [A B]. split; auto.
  apply negb_true_iff in B. apply name_eqb_neq in B. exact B.
Qed.

(* ---- the second invariant: generations, schedule within the dict, executed one-shots are gone for good ---- *)
Definition dcmds (d : list (name * pev)) := map kcmd d.
Record MLOOP (s : pst) (R : list (name * pev)) : Prop := {
  m_linv : linv s R;
  m_gen : forall e, In e (p_sched s) -> s_gen e = p_gen s;              (* every scheduled function is a closure of the live instance *)
  m_sd : forall e, In e (p_sched s) -> In (s_name e) (keys (p_dict s)); (* and is listed *)
  m_done : forall c, In c (p_done s) -> ~ In c (scmds (p_sched s)) /\ ~ In c (dcmds (p_dict s)) /\ ~ In c (dcmds R);
  m_nd : NoDup (p_done s);                                              (* <- no one-shot request was executed twice *)
  m_lt : forall c, In c (p_done s) -> (c < p_ncmd s)%N;
  m_rs : forall e, In e (p_sched s) -> ~ In (s_cmd e) (dcmds R);       (* what is scheduled is not waiting to be restored *)
  m_kb : forall i, In (Auto i) (keys (p_dict s)) -> (i < p_counter s)%N;                 (* listed ids are below the counter *)
  m_ds : p_loaded s = true -> forall k, In k (keys (p_dict s)) -> In k (snames (p_sched s)) }.  (* listed => scheduled *)
Definition minv (s : pst) : Prop :=
  MLOOP s [] /\ (p_loaded s = false -> p_sched s = [] /\ p_pickle s = p_dict s).

Lemma s_add_auto_ok t cmd rem per s : (forall e i, In e (p_sched s) -> s_name e = Auto i -> (i < p_counter s)%N) ->
  exists s1 id, s_add t None cmd rem per s = (s1, Ok id).
Proof.
  intros H. unfold s_add. simpl. destruct (shas (Auto (p_counter s)) (p_sched s)) eqn:E; eauto.
  apply shas_In in E. apply in_map_iff in E. destruct E as [e [En He]]. specialize (H e _ He En). lia.
Qed.

Lemma mloop_attempt t nm K ev rem per s R :
  MLOOP s ((K, ev) :: R) ->
  (nm = Some K \/ (nm = None /\ ~ In (pcmd ev) (scmds (p_sched s)))) ->
  (forall tt c r, ev = PSingle tt c r -> nm = None \/ exists i, K = Auto i) ->
  (forall i, K = Auto i -> nm = Some K -> (i < p_counter s)%N) ->
  (forall p c f, ev = PRepeat p c f -> nm = Some K) ->
  MLOOP (attempt t nm K ev rem per s) R.
Proof.
  intros [L G SD Dn ND LT RS KB DS] H1 H2 H3 H4.
  pose proof (linv_attempt t nm K ev rem per s R L H1 H2 H3 H4) as L'.
  destruct (attempt_frame t nm K ev rem per s) as (Fg & Fd & _ & _).
  assert (HinR : In (K, ev) ((K, ev) :: R)) by (left; auto).
  assert (Cnot : ~ In (pcmd ev) (p_done s)).
  { intro X. destruct (Dn _ X) as (_ & _ & Y). apply Y. left. reflexivity. }
  assert (NotR : ~ In (pcmd ev) (dcmds R)).
  { intro X. apply in_map_iff in X. destruct X as [b [E Hb]].
    pose proof (q_kR _ _ _ _ _ L) as K6. pose proof (q_uR _ _ _ _ _ L) as K7. inversion K6; subst. apply H5.
    change K with (fst (K, ev)). rewrite <- (K7 b (K, ev) (or_intror Hb) HinR E). apply in_map. exact Hb. }
  assert (RS' : forall e, In e (p_sched s) -> ~ In (s_cmd e) (dcmds R)).
  { intros e He X. apply (RS e He). right. exact X. }
  unfold attempt in *. destruct (s_add_cases t nm (pcmd ev) rem per s) as (Ed & En & Ec & Hc).
  pose proof (s_add_frame t nm (pcmd ev) rem per s) as (_ & _ & Fl & _ & _).
  assert (NoRaiseNone : nm = None -> forall s1 ex, s_add t nm (pcmd ev) rem per s <> (s1, Raise ex)).
  { intros -> s1 ex X. destruct (s_add_auto_ok t (pcmd ev) rem per s (q_auto _ _ _ _ _ L)) as (s2 & id2 & Y). congruence. }
  destruct (s_add t nm (pcmd ev) rem per s) as [s1 [id|ex]] eqn:SA; simpl in *.
  - destruct Hc as [(_ & [e X] & _)|(n & Eok & ES & Hfree & Hn)]; [discriminate|]. inversion Eok; subst n. clear Eok.
    constructor; simpl; auto.
    + rewrite ES, Fg. intros e [<-|He]; simpl; auto.
    + rewrite ES, Ed. intros e [<-|He]; simpl; [apply dset_keys_new|apply dset_keys_mono; auto].
    + rewrite ES, Ed, Fd. intros c Hc. destruct (Dn c Hc) as (A & B & C). split; [|split].
      * intros [X|X]; [simpl in X; subst c; apply Cnot; exact Hc|apply A; exact X].
      * intro X. apply in_map_iff in X. destruct X as [kv [E Hk]]. destruct (dset_in _ _ _ _ Hk) as [->|Hk'].
        -- unfold kcmd in E. simpl in E. subst c. apply Cnot. exact Hc.
        -- apply B. rewrite <- E. apply in_map. exact Hk'.
      * intro X. apply C. right. exact X.
    + rewrite Fd. exact ND.
    + rewrite Fd, En. exact LT.
    + rewrite ES. intros e [<-|He]; simpl; auto.
    + rewrite Ed. intros i Hi. destruct (dset_keys_in _ _ _ _ Hi) as [X|X]; [|specialize (KB i X); lia].
      destruct Hn as [Hs|[_ [Hid Hcc]]].
      * destruct H1 as [Hk|[Hk _]]; [|congruence]. rewrite Hk in Hs. inversion Hs as [HK0].
        assert (HKi : K = Auto i) by congruence. specialize (H3 i HKi Hk). lia.
      * assert (i = p_counter s) by congruence. lia.
    + rewrite ES, Ed, Fl. intros Hl k Hk. destruct (dset_keys_in _ _ _ _ Hk) as [->|X]; [left; reflexivity|right; apply DS; auto].
  - destruct Hc as [(ES & _ & Hin)|(n & Eok & _)]; [|discriminate].
    assert (HK : nm = Some K) by (destruct H1 as [Hk|[Hk _]]; auto; exfalso; exact (NoRaiseNone Hk s1 ex eq_refl)).
    constructor; simpl; auto.
    + rewrite ES, Fg. exact G.
    + rewrite ES, Ed. intros e He. apply dset_keys_mono. auto.
    + rewrite ES, Ed, Fd. intros c Hc. destruct (Dn c Hc) as (A & B & C). split; [exact A|split].
      * intro X. apply in_map_iff in X. destruct X as [kv [E Hk]]. destruct (dset_in _ _ _ _ Hk) as [->|Hk'].
        -- unfold kcmd in E. simpl in E. subst c. apply Cnot. exact Hc.
        -- apply B. rewrite <- E. apply in_map. exact Hk'.
      * intro X. apply C. right. exact X.
    + rewrite Fd. exact ND.
    + rewrite Fd, En. exact LT.
    + rewrite ES. exact RS'.
    + rewrite Ed. intros i Hi. destruct (dset_keys_in _ _ _ _ Hi) as [X|X]; [|specialize (KB i X); lia].
      specialize (H3 i (eq_sym X) HK). lia.
    + rewrite ES, Ed, Fl. intros Hl k Hk. destruct (dset_keys_in _ _ _ _ Hk) as [->|X]; [apply Hin; exact HK|apply DS; auto].
Qed.

(* ---- one iteration of the loop of _restoreEvents ---- *)
Lemma restore_one_m s K ev R : MLOOP s ((K, ev) :: R) -> MLOOP (restore_one s (K, ev)) R.
Proof.
  intros M. pose proof (m_linv _ _ M) as H. pose proof H as [Q1 Q2 Q3 Q4 Q5 Q6 Q7 Q8 Q9 Q10 Q11 Q12 Q13 Q14 Q15 Q16 Q17].
  assert (HinR : In (K, ev) ((K, ev) :: R)) by (left; auto).
  destruct ev as [t cmd rem|period cmd first]; unfold restore_one; rewrite ?table_passes_id.
  - destruct (Q8 K t cmd rem HinR) as [i Ki]. subst K. simpl key_int. cbv beta iota.
    set (cond := ((i <? p_counter s)%N && (negb gen.T18.RESTORE_CHECKS_FREE || negb (shas (Auto i) (p_sched s))))%bool).
    set (n := if cond then Some (Auto i) else None).
    assert (E : (match p_add t cmd rem n s with (s1, Ok _) => s1 | (s1, Raise _) => set_dict (dset (Auto i) (PSingle t cmd rem) (p_dict s1)) s1 end)
                = attempt t n (Auto i) (PSingle t cmd rem) rem None s).
    { unfold p_add, attempt. simpl pcmd. destruct (s_add t n cmd rem None s) as [s1 [id|e]]; reflexivity. }
    rewrite E. apply mloop_attempt; auto.
    + unfold n. destruct cond eqn:L; [left; reflexivity|right]. split; auto.
      intro X. apply in_map_iff in X. destruct X as [e [Ee He]].
      apply (m_rs _ _ M e He). left. unfold kcmd. simpl. auto.
    + intros tt c r _. right. eauto.
    + intros j Ej Hn. inversion Ej; subst j. unfold n in Hn. destruct cond eqn:L; [|discriminate].
      unfold cond in L. apply andb_true_iff in L. destruct L as [L _]. lia.
    + intros p c f X. discriminate.
  - assert (E : (match p_repeat K period cmd first (next_run_in first (p_now s) period) s with
                 | (s1, Ok _) => s1 | (s1, Raise _) => set_dict (dset K (PRepeat period cmd first) (p_dict s1)) s1 end)
                = attempt (p_now s + next_run_in first (p_now s) period) (Some K) K (PRepeat period cmd first) false (Some period) s).
    { unfold p_repeat, attempt, s_add. simpl pcmd. destruct (shas K (p_sched s)); reflexivity. }
    rewrite E. destruct (Q17 K period cmd first HinR) as [j Kj]. subst K.
    apply mloop_attempt; auto.
    + intros tt c r X. discriminate.
    + intros i X. discriminate.
Qed.

Lemma restore_all_m R : forall s, MLOOP s R -> MLOOP (fold_left restore_one R s) [].
Proof.
  induction R as [|[K ev] R IH]; intros s H; simpl; auto. apply IH. apply restore_one_m. exact H.
Qed.

Lemma fold_restore_frame R : forall s,
  p_loaded (fold_left restore_one R s) = p_loaded s /\ p_pickle (fold_left restore_one R s) = p_pickle s.
Proof.
  induction R as [|[K ev] R IH]; intros s; cbn [fold_left]; auto.
  destruct (IH (restore_one s (K, ev))) as [A B]. rewrite A, B. clear IH A B.
  destruct ev as [t cmd rem|period cmd first]; unfold restore_one.
  - match goal with |- context [p_add ?a ?b ?c ?n s] => set (nn := n) end.
    unfold p_add. destruct (s_add_frame t nn cmd rem None s) as (_ & _ & C & D & _).
    destruct (s_add t nn cmd rem None s) as [s1 [id|e]]; simpl in *; auto.
  - unfold p_repeat.
    destruct (s_add_frame (p_now s + next_run_in first (p_now s) period) (Some K) cmd false (Some period) s) as (_ & _ & C & D & _).
    destruct (s_add (p_now s + next_run_in first (p_now s) period) (Some K) cmd false (Some period) s) as [s1 [id|e]]; simpl in *; auto.
Qed.

(* a new instance reads the pickle: on an emptied schedule (after die(), or in a new process) *)
Lemma load_m s c0 : minv s -> p_loaded s = false ->
  minv (p_load (PS (p_sched s) c0 (p_now s) (p_gen s) (p_dict s) (p_pickle s) (p_ncmd s) (p_log s) false (p_done s) (p_ign s) (p_bad s))).
Proof.
  intros [M U] Hl. destruct (U Hl) as [Es Ep]. destruct M as [L G SD Dn ND LT RS KB DS].
  destruct L as [Q1 Q2 Q3 Q4 Q5 _ _ _ _ Q10 _ Q12 Q13 Q14 _ Q16 _].
  unfold p_load. simpl. split.
  - apply restore_all_m. rewrite Es, Ep. constructor; simpl.
    + unfold linv. simpl. constructor; auto; try constructor;
        unfold uniq, typed, typedr, link; intros; repeat match goal with H : In _ [] |- _ => destruct H end.
    + intros e [].
    + intros e [].
    + intros c Hc. destruct (Dn c Hc) as (A & B & _). split; [intros []|split; [intros []|exact B]].
    + exact ND.
    + exact LT.
    + intros e [].
    + intros i [].
    + intros _ k [].
  - destruct (fold_restore_frame (p_pickle s)
      (PS (p_sched s) c0 (p_now s) (p_gen s + 1)%N [] (p_pickle s) (p_ncmd s) (p_log s) true (p_done s) (p_ign s) (p_bad s))) as [A _].
    rewrite A. simpl. discriminate.
Qed.

Lemma sub_inv S c D nc (p : sent -> bool) (q : name * pev -> bool) :
  LINV S c D [] nc -> LINV (filter p S) c (filter q D) [] nc.
Proof.
  intros [Q1 Q2 Q3 Q4 Q5 Q6 Q7 Q8 Q9 Q10 Q11 Q12 Q13 Q14 Q15 Q16 Q17]. constructor.
  - apply NoDup_map_filter; auto.
  - apply NoDup_map_filter; auto.
  - apply NoDup_map_filter; auto.
  - intros a b Ha Hb. apply filter_In in Ha, Hb. apply Q4; tauto.
  - intros k t c0 r Hin. apply filter_In in Hin. eapply Q5; apply Hin.
  - exact Q6.
  - exact Q7.
  - exact Q8.
  - intros a b Ha [].
  - intros e kv He Hk. apply filter_In in He, Hk. apply Q10; tauto.
  - intros e kv He [].
  - intros e i He. apply filter_In in He. apply Q12; tauto.
  - intros e He. apply filter_In in He. apply Q13; tauto.
  - intros kv Hk. apply filter_In in Hk. apply Q14; tauto.
  - exact Q15.
  - intros k p0 c0 f Hin. apply filter_In in Hin. eapply Q16; apply Hin.
  - exact Q17.
Qed.

Lemma filter_false {A} (l : list A) : filter (fun _ => false) l = [].
Proof. induction l; simpl; auto. Qed.

Lemma filter_true {A} (l : list A) : filter (fun _ => true) l = l.
Proof. induction l; simpl; congruence. Qed.

Lemma stake_some p l e r : stake p l = Some (e, r) -> Permutation l (e :: r).
Proof.
  revert e r. induction l as [|x l IH]; simpl; intros e r H; [discriminate|].
  destruct (p x).
  - inversion H; subst. reflexivity.
  - destruct (stake p l) as [[y r']|]; [|discriminate]. inversion H; subst. rewrite (IH _ _ eq_refl). apply perm_swap.
Qed.

(* die() of the repaired plugin: the pickle is the dict, nothing of ours stays scheduled *)
Lemma die_m s : minv s -> minv (p_die_with true s) /\ p_loaded (p_die_with true s) = false.
Proof.
  intros [M U]. split; [|reflexivity]. destruct M as [L G SD Dn ND LT RS KB DS].
  assert (E : filter (fun e => negb (dhas (s_name e) (p_dict s))) (p_sched s) = []).
  { clear - SD. induction (p_sched s) as [|e l IH]; simpl; auto.
    assert (H : dhas (s_name e) (p_dict s) = true) by (apply dhas_In; apply SD; left; auto).
    rewrite H. simpl. apply IH. intros x Hx. apply SD. right. exact Hx. }
  unfold p_die_with. rewrite E. split.
  - constructor; simpl.
    + pose proof (sub_inv _ _ _ _ (fun _ => false) (fun _ => true) L) as X.
      unfold linv. simpl.
      rewrite filter_false, filter_true in X. exact X.
    + intros e [].
    + intros e [].
    + intros c Hc. destruct (Dn c Hc) as (A & B & C). split; [intros []|split; auto].
    + exact ND.
    + exact LT.
    + intros e [].
    + exact KB.
    + intros X. discriminate X.
  - simpl. auto.
Qed.

(* ---- a brand-new request ---- *)
Lemma fresh_mloop s K ev :
  MLOOP s [] -> pcmd ev = p_ncmd s ->
  (forall t c r, ev = PSingle t c r -> exists i, K = Auto i) -> (forall p c f, ev = PRepeat p c f -> exists j, K = Named j) ->
  MLOOP (snd (fresh_cmd s)) [(K, ev)].
Proof.
  intros [L G SD Dn ND LT RS KB DS] Hc T1 T2.
  destruct L as [Q1 Q2 Q3 Q4 Q5 _ _ _ _ Q10 _ Q12 Q13 Q14 _ Q16 _].
  constructor; unfold fresh_cmd; simpl; auto.
  - unfold linv. simpl. constructor; auto.
    + constructor; [intros []|constructor].
    + intros a b [<-|[]] [<-|[]] _. reflexivity.
    + intros k t c r [X|[]]. inversion X; subst. eauto.
    + intros a b Ha [<-|[]]. unfold kcmd at 2. simpl. rewrite Hc. specialize (Q14 a Ha). lia.
    + intros e kv He [<-|[]] E. unfold kcmd in E. simpl in E. rewrite Hc in E. specialize (Q13 e He). lia.
    + intros e He. specialize (Q13 e He). lia.
    + intros kv Hk. specialize (Q14 kv Hk). lia.
    + intros kv [<-|[]]. unfold kcmd. simpl. rewrite Hc. lia.
    + intros k p c f [X|[]]. inversion X; subst. eauto.
  - intros c Hcd. destruct (Dn c Hcd) as (A & B & _). split; [exact A|split; [exact B|]].
    intros [X|[]]. unfold kcmd in X. simpl in X. specialize (LT c Hcd). lia.
  - intros c Hcd. specialize (LT c Hcd). lia.
  - intros e He [X|[]]. unfold kcmd in X. simpl in X. specialize (Q13 e He). lia.
Qed.

Lemma weaken_m s : MLOOP s [] -> MLOOP (snd (fresh_cmd s)) [].
Proof.
  intros [L G SD Dn ND LT RS KB DS]. constructor; unfold fresh_cmd; simpl; auto.
  - destruct L as [Q1 Q2 Q3 Q4 Q5 Q6 Q7 Q8 Q9 Q10 Q11 Q12 Q13 Q14 Q15 Q16 Q17]. unfold linv. simpl. constructor; auto.
    + intros e He. specialize (Q13 e He). lia.
    + intros kv Hk. specialize (Q14 kv Hk). lia.
    + intros kv [].
  - intros c Hc. specialize (LT c Hc). lia.
Qed.

Lemma add_m secs rem s : MLOOP s [] ->
  MLOOP (fst (p_add (p_now s + secs) (p_ncmd s) rem None (snd (fresh_cmd s)))) [].
Proof.
  intros M. set (s1 := snd (fresh_cmd s)). set (ev := PSingle (p_now s + secs) (p_ncmd s) rem).
  assert (L : MLOOP s1 [(Auto 0, ev)]) by (apply fresh_mloop; auto; [intros; eauto|intros; discriminate]).
  assert (E : fst (p_add (p_now s + secs) (p_ncmd s) rem None s1) = attempt (p_now s + secs) None (Auto 0) ev rem None s1).
  { unfold p_add, attempt. simpl pcmd.
    destruct (s_add_auto_ok (p_now s + secs) (p_ncmd s) rem None s1 (q_auto _ _ _ _ _ (m_linv _ _ L))) as (s2 & id & X).
    rewrite X. reflexivity. }
  rewrite E. apply mloop_attempt; auto.
  - right. split; auto. intro X. apply in_map_iff in X. destruct X as [e [Ee He]].
    pose proof (q_fs _ _ _ _ _ (m_linv _ _ M) e He). simpl in Ee. lia.
  - intros i _ X. discriminate.
  - intros p c f X. discriminate.
Qed.

Lemma repeat_m k period delay s : MLOOP s [] ->
  MLOOP (fst (p_repeat (Named k) period (p_ncmd s) (p_now s + delay) delay (snd (fresh_cmd s)))) [].
Proof.
  intros M. set (s1 := snd (fresh_cmd s)). set (ev := PRepeat period (p_ncmd s) (p_now s + delay)).
  assert (W : MLOOP s1 []) by (apply weaken_m; exact M).
  assert (L : MLOOP s1 [(Named k, ev)]) by (apply fresh_mloop; auto; [intros; discriminate|intros; eauto]).
  assert (A : fst (p_repeat (Named k) period (p_ncmd s) (p_now s + delay) delay s1) = s1 \/
              fst (p_repeat (Named k) period (p_ncmd s) (p_now s + delay) delay s1) =
              attempt (p_now s + delay) (Some (Named k)) (Named k) ev false (Some period) s1).
  { unfold p_repeat, attempt, s_add. simpl. destruct (shas (Named k) (p_sched s)); simpl; auto. }
  destruct A as [A|A]; rewrite A; [exact W|].
  apply mloop_attempt; auto.
  - intros t c r X. discriminate.
  - intros i X. discriminate.
Qed.

Lemma remove_m key s : MLOOP s [] ->
  MLOOP (set_sched (filter (fun e => negb (name_eqb (s_name e) key)) (p_sched s)) (set_dict (ddel key (p_dict s)) s)) [].
Proof.
  intros [L G SD Dn ND LT RS KB DS]. constructor; simpl; auto.
  - unfold linv. simpl. apply sub_inv. exact L.
  - intros e He. apply filter_In in He. apply G. tauto.
  - intros e He. apply filter_In in He. destruct He as [He Hn]. apply ddel_keys_other; auto.
    apply negb_true_iff in Hn. apply name_eqb_neq in Hn. exact Hn.
  - intros c Hc. destruct (Dn c Hc) as (A & B & C). split; [|split; auto].
    + intro X. apply A. apply in_map_iff in X. destruct X as [e [E He]]. apply filter_In in He. rewrite <- E. apply in_map. tauto.
    + intro X. apply B. apply in_map_iff in X. destruct X as [kv [E Hk]]. apply ddel_in in Hk. rewrite <- E. apply in_map. tauto.
  - intros i Hi. apply KB. apply in_map_iff in Hi. destruct Hi as [kv [E Hk]]. apply ddel_in in Hk. rewrite <- E. apply in_map. tauto.
  - intros Hl k Hk. apply in_map_iff in Hk. destruct Hk as [kv [E Hk]]. apply ddel_in in Hk. destruct Hk as [Hk Hn].
    assert (Hs : In k (snames (p_sched s))) by (apply DS; auto; rewrite <- E; apply in_map; exact Hk).
    apply in_map_iff in Hs. destruct Hs as [e [En He]]. apply in_map_iff. exists e. split; auto.
    apply filter_In. split; auto. apply negb_true_iff. apply name_eqb_neq. congruence.
Qed.

Lemma perm_names S e rest k : Permutation S (e :: rest) -> In k (snames S) -> k = s_name e \/ In k (snames rest).
Proof.
  intros P H. unfold snames in *. rewrite (Permutation_map s_name P) in H. simpl in H. destruct H; auto.
Qed.

(* ---- an event fires ---- *)
Lemma fire_m e rest s : MLOOP s [] -> Permutation (p_sched s) (e :: rest) -> MLOOP (p_fire e (set_sched rest s)) [].
Proof.
  intros M P. pose proof M as [L G SD Dn ND LT RS KB DS].
  pose proof L as [Q1 Q2 Q3 Q4 Q5 Q6 Q7 Q8 Q9 Q10 Q11 Q12 Q13 Q14 Q15 Q16 Q17].
  assert (Hrest : forall x, In x rest -> In x (p_sched s)) by (intros x Hx; eapply Permutation_in; [apply Permutation_sym; exact P|right; auto]).
  assert (He : In e (p_sched s)) by (eapply Permutation_in; [apply Permutation_sym; exact P|left; auto]).
  assert (N1 : NoDup (snames (e :: rest))) by (unfold snames; rewrite <- P; exact Q1).
  assert (N2 : NoDup (scmds (e :: rest))) by (unfold scmds; rewrite <- P; exact Q2).
  assert (Crest : ~ In (s_cmd e) (scmds rest)) by (inversion N2; auto).
  assert (Nrest : ~ In (s_name e) (snames rest)) by (inversion N1; auto).
  assert (Cdone : ~ In (s_cmd e) (p_done s)).
  { intro X. destruct (Dn _ X) as (A & _). apply A. apply in_map. exact He. }
  (* the schedule shrinks to rest, the dict to a sub-dict D' *)
  assert (R0 : forall D', (forall kv, In kv D' -> In kv (p_dict s)) -> NoDup (keys D') -> LINV rest (p_counter s) D' [] (p_ncmd s)).
  { intros D' Hsub NDk. constructor.
    - inversion N1; auto.
    - inversion N2; auto.
    - exact NDk.
    - intros a b Ha Hb. apply Q4; auto.
    - intros k t c r Hin. eapply Q5; eauto.
    - exact Q6.
    - exact Q7.
    - exact Q8.
    - intros a b _ [].
    - intros x kv Hx Hk. apply Q10; auto.
    - intros x kv _ [].
    - intros x i Hx. apply Q12; auto.
    - intros x Hx. apply Q13; auto.
    - intros kv Hk. apply Q14; auto.
    - exact Q15.
    - intros k p c f Hin. eapply Q16; eauto.
    - exact Q17. }
  assert (Gd : N.eqb (s_gen e) (p_gen s) = true) by (apply N.eqb_eq; apply G; exact He).
  unfold p_fire. simpl. destruct (s_period e) as [period|] eqn:Per.
  - (* a repeat re-adds itself under its name; nothing is marked done *)
    constructor; simpl.
    + unfold linv. simpl. constructor.
      * exact N1.
      * exact N2.
      * exact Q3.
      * exact Q4.
      * exact Q5.
      * exact Q6.
      * exact Q7.
      * exact Q8.
      * exact Q9.
      * intros x kv [<-|Hx] Hk E; simpl in *; [apply (Q10 e kv He Hk E)|apply Q10; auto].
      * intros x kv _ [].
      * intros x i [<-|Hx]; simpl; [apply Q12; auto|apply Q12; auto].
      * intros x [<-|Hx]; simpl; [apply Q13; auto|apply Q13; auto].
      * exact Q14.
      * exact Q15.
      * exact Q16.
      * exact Q17.
    + intros x [<-|Hx]; simpl; auto.
    + intros x [<-|Hx]; simpl; auto.
    + intros c Hc. destruct (Dn c Hc) as (A & B & C). split; [|split; auto].
      intros [X|X]; simpl in X; [subst c; apply Cdone; exact Hc|]. apply A.
      apply in_map_iff in X. destruct X as [y [E Hy]]. rewrite <- E. apply in_map. auto.
    + exact ND.
    + exact LT.
    + intros x _ [].
    + exact KB.
    + intros Hl k Hk. destruct (perm_names _ _ _ k P (DS Hl k Hk)) as [->|X]; [left; reflexivity|right; exact X].
  - (* DELETE_BEFORE_TOKENIZE = true (table): no early exit before the delete *) rewrite andb_false_r.
    rewrite Gd. destruct (dhas (s_name e) (p_dict s)) eqn:DH.
    + (* the closure deletes its entry from the live dict: the request is gone from schedule and dict *)
      constructor; simpl.
      * unfold linv. simpl. apply R0; [intros kv Hk; apply ddel_in in Hk; tauto|apply NoDup_map_filter; auto].
      * intros x Hx. auto.
      * intros x Hx. apply ddel_keys_other; auto. intro X. apply Nrest. rewrite <- X. apply in_map. exact Hx.
      * intros c [<-|Hc].
        -- split; [exact Crest|split; [|intros []]].
           intro X. apply in_map_iff in X. destruct X as [kv [E Hk]]. apply ddel_in in Hk. destruct Hk as [Hk Hn].
           apply Hn. apply (Q10 e kv He Hk E).
        -- destruct (Dn c Hc) as (A & B & C). split; [|split; auto].
           ++ intro X. apply A. apply in_map_iff in X. destruct X as [y [E Hy]]. rewrite <- E. apply in_map. auto.
           ++ intro X. apply B. apply in_map_iff in X. destruct X as [kv [E Hk]]. apply ddel_in in Hk. rewrite <- E. apply in_map. tauto.
      * constructor; auto.
      * intros c [<-|Hc]; auto.
      * intros x _ [].
      * intros i Hi. apply KB. apply in_map_iff in Hi. destruct Hi as [kv [E Hk]]. apply ddel_in in Hk. rewrite <- E. apply in_map. tauto.
      * intros Hl k Hk. apply in_map_iff in Hk. destruct Hk as [kv [E Hk]]. apply ddel_in in Hk. destruct Hk as [Hk Hn].
        assert (Hs : In k (snames (p_sched s))) by (apply DS; auto; rewrite <- E; apply in_map; exact Hk).
        destruct (perm_names _ _ _ k P Hs) as [X|X]; [congruence|exact X].
    + assert (Cdict : ~ In (s_cmd e) (dcmds (p_dict s))).
      { intro X. apply in_map_iff in X. destruct X as [kv [E Hk]]. pose proof (Q10 e kv He Hk E) as Kn.
        assert (dhas (s_name e) (p_dict s) = true) by (apply dhas_In; rewrite <- Kn; apply in_map; exact Hk). congruence. }
      destruct (s_rem e).
      * constructor; simpl.
        -- unfold linv. simpl. apply R0; auto.
        -- intros x Hx. auto.
        -- intros x Hx. auto.
        -- intros c [<-|Hc].
           ++ split; [exact Crest|split; [exact Cdict|intros []]].
           ++ destruct (Dn c Hc) as (A & B & C). split; [|split; auto].
              intro X. apply A. apply in_map_iff in X. destruct X as [y [E Hy]]. rewrite <- E. apply in_map. auto.
        -- constructor; auto.
        -- intros c [<-|Hc]; auto.
        -- intros x _ [].
        -- exact KB.
        -- intros Hl k Hk. destruct (perm_names _ _ _ k P (DS Hl k Hk)) as [X|X]; [|exact X].
           exfalso. subst k. apply dhas_In in Hk. congruence.
      * constructor; simpl.
        -- unfold linv. simpl. apply R0; auto.
        -- intros x Hx. auto.
        -- intros x Hx. auto.
        -- intros c Hc. destruct (Dn c Hc) as (A & B & C). split; [|split; auto].
           intro X. apply A. apply in_map_iff in X. destruct X as [y [E Hy]]. rewrite <- E. apply in_map. auto.
        -- exact ND.
        -- exact LT.
        -- intros x _ [].
        -- exact KB.
        -- intros Hl k Hk. destruct (perm_names _ _ _ k P (DS Hl k Hk)) as [X|X]; [|exact X].
           exfalso. subst k. apply dhas_In in Hk. congruence.
Qed.

Lemma loop_m fuel : forall s, MLOOP s [] -> MLOOP (p_loop fuel s) [].
Proof.
  induction fuel as [|k IH]; intros s H; simpl; auto.
  destruct (stake (is_smin (p_sched s)) (p_sched s)) as [[e rest]|] eqn:T; auto.
  destruct (s_t e <? p_now s)%Z; auto. apply IH. apply fire_m; auto. apply (stake_some _ _ _ _ T).
Qed.

Lemma p_fire_frame e s : p_loaded (p_fire e s) = p_loaded s /\ p_pickle (p_fire e s) = p_pickle s /\ p_dict s = p_dict s.
Proof.
  unfold p_fire. destruct (s_period e); simpl; auto.
  match goal with |- context [if ?c then s else _] => destruct c end; auto.
  destruct (N.eqb (s_gen e) (p_gen s)); simpl; auto.
  destruct (dhas (s_name e) (p_dict s)); simpl; auto. destruct (s_rem e); simpl; auto.
Qed.

(* while the plugin is unloaded nothing of it is scheduled, so run() does nothing to it *)
Lemma loop_unloaded fuel s : p_sched s = [] -> p_loop fuel s = s.
Proof. intros E. destruct fuel; simpl; auto. rewrite E. reflexivity. Qed.

Lemma loop_loaded fuel : forall s, p_loaded (p_loop fuel s) = p_loaded s.
Proof.
  induction fuel as [|k IH]; intros s; simpl; auto.
  destruct (stake (is_smin (p_sched s)) (p_sched s)) as [[e rest]|]; auto.
  destruct (s_t e <? p_now s)%Z; auto. rewrite IH. apply (p_fire_frame e (set_sched rest s)).
Qed.

Lemma eta_unloaded s : p_loaded s = false ->
  PS (p_sched s) (p_counter s) (p_now s) (p_gen s) (p_dict s) (p_pickle s) (p_ncmd s) (p_log s) false (p_done s) (p_ign s) (p_bad s) = s.
Proof. destruct s; simpl. intros ->. reflexivity. Qed.

Lemma p_add_loaded t c rem nm s : p_loaded (fst (p_add t c rem nm s)) = p_loaded s.
Proof.
  unfold p_add. destruct (s_add_frame t nm c rem None s) as (_ & _ & C & _).
  destruct (s_add t nm c rem None s) as [s1 [id|e]]; simpl in *; auto.
Qed.
Lemma p_repeat_loaded n period c first nri s : p_loaded (fst (p_repeat n period c first nri s)) = p_loaded s.
Proof.
  unfold p_repeat. destruct (s_add_frame (p_now s + nri) (Some n) c false (Some period) s) as (_ & _ & C & _).
  destruct (s_add (p_now s + nri) (Some n) c false (Some period) s) as [s1 [id|e]]; simpl in *; auto.
Qed.

Lemma pstep_m o s : minv s -> minv (pstep_with true o s).
Proof.
  intros MU. pose proof MU as [M U]. destruct o; unfold pstep_with.
  - (* add *) destruct (p_loaded s) eqn:Ld.
    + change (minv (fst (p_add (p_now s + secs) (p_ncmd s) false None (snd (fresh_cmd s))))).
      split; [apply (add_m secs false s M)|]. rewrite p_add_loaded. simpl. congruence.
    + split; [apply weaken_m; auto|]. simpl. auto.
  - (* remind *) destruct (p_loaded s) eqn:Ld.
    + change (minv (fst (p_add (p_now s + secs) (p_ncmd s) true None (snd (fresh_cmd s))))).
      split; [apply (add_m secs true s M)|]. rewrite p_add_loaded. simpl. congruence.
    + split; [apply weaken_m; auto|]. simpl. auto.
  - (* repeat *)
    change (minv (if negb (p_loaded s) || dhas (Named k) (p_dict (snd (fresh_cmd s))) then snd (fresh_cmd s)
                  else fst (p_repeat (Named k) period (p_ncmd s) (p_now s + delay) delay (snd (fresh_cmd s))))).
    destruct (p_loaded s) eqn:Ld; simpl negb; simpl orb.
    + change (p_dict (snd (fresh_cmd s))) with (p_dict s). destruct (dhas (Named k) (p_dict s)).
      * split; [apply weaken_m; auto|]. simpl. congruence.
      * split; [apply (repeat_m k period delay s M)|]. rewrite p_repeat_loaded. simpl. congruence.
    + split; [apply weaken_m; auto|]. simpl. auto.
  - (* remove *) destruct (p_loaded s) eqn:Ld; simpl andb; [|exact MU].
    destruct (dhas key (p_dict s)); [|exact MU].
    split; [exact (remove_m key s M)|]. simpl. congruence.
  - (* reload *) destruct (p_loaded s) eqn:Ld; [|exact MU].
    destruct (die_m s MU) as [Md Hd].
    pose proof (load_m (p_die_with true s) (p_counter (p_die_with true s)) Md Hd) as X.
    rewrite (eta_unloaded _ Hd) in X. exact X.
  - (* restart *)
    set (s1 := if p_loaded s then p_die_with true s else s).
    assert (H1 : minv s1 /\ p_loaded s1 = false).
    { unfold s1. destruct (p_loaded s) eqn:Ld; [apply die_m; exact MU|split; [exact MU|auto]]. }
    destruct H1 as [M1 L1]. destruct (proj2 M1 L1) as [Es _].
    pose proof (load_m s1 0%N M1 L1) as X. rewrite Es in X. exact X.
  - (* advance *) split; [|exact U]. destruct M as [L G SD Dn ND LT RS KB DS]. constructor; simpl; auto.
  - (* run *) split; [apply loop_m; auto|]. rewrite loop_loaded. intros Hl. destruct (U Hl) as [Es Ep].
    rewrite (loop_unloaded _ s Es). auto.
  - (* unload *) destruct (p_loaded s) eqn:Ld; [|exact MU]. apply die_m. exact MU.
  - (* load *) destruct (p_loaded s) eqn:Ld; [exact MU|].
    pose proof (load_m s (p_counter s) MU Ld) as X. rewrite (eta_unloaded _ Ld) in X. exact X.
  - (* ignore *) split; [|exact U]. destruct M as [L G SD Dn ND LT RS KB DS]. constructor; simpl; auto.
  - (* add a request whose command does not tokenize: scheduling is the same *)
    set (s0 := PS (p_sched s) (p_counter s) (p_now s) (p_gen s) (p_dict s) (p_pickle s) (p_ncmd s) (p_log s) (p_loaded s) (p_done s) (p_ign s) (p_ncmd s :: p_bad s)).
    assert (M0 : MLOOP s0 []) by (destruct M as [L G SD Dn ND LT RS KB DS]; constructor; simpl; auto).
    change (p_loaded s0) with (p_loaded s). destruct (p_loaded s) eqn:Ld.
    + change (minv (fst (p_add (p_now s0 + secs) (p_ncmd s0) false None (snd (fresh_cmd s0))))).
      split; [apply (add_m secs false s0 M0)|]. rewrite p_add_loaded. simpl. congruence.
    + split; [apply weaken_m; auto|]. simpl. exact U.
Qed.

Lemma pinit_m : minv pinit.
Proof.
  split; [|simpl; discriminate]. constructor; simpl.
  - unfold linv. simpl. constructor; try constructor;
      unfold uniq, typed, typedr, link; intros; repeat match goal with H : In _ [] |- _ => destruct H end.
  - intros e [].
  - intros e [].
  - intros c [].
  - constructor.
  - intros c [].
  - intros e [].
  - intros i [].
  - intros _ k [].
Qed.

Lemma prun_ops_m ops : forall s, minv s -> minv (prun_ops_with true ops s).
Proof. induction ops as [|o ops IH]; intros s H; simpl; auto. apply IH. apply pstep_m; auto. Qed.

Lemma table_die : gen.T18.DIE_UNSCHEDULES = true.
Proof. reflexivity. Qed.

Lemma reach_m ops : minv (prun_ops ops pinit).
Proof. unfold prun_ops. rewrite table_die. apply prun_ops_m. apply pinit_m. Qed.

(* ---- the theorems ---- *)
(* no one-shot request is ever executed twice: across add / remind / repeat / remove, events firing, reload,
   unload ... load, restart *)
Lemma plugin_once ops : NoDup (p_done (prun_ops ops pinit)).
Proof. apply (m_nd _ _ (proj1 (reach_m ops))). Qed.

(* an executed one-shot request is neither scheduled nor listed any more (so nothing can run it again) *)
Lemma plugin_done_gone ops c :
  let s := prun_ops ops pinit in
  In c (p_done s) -> ~ In c (map s_cmd (p_sched s)) /\ ~ In c (map (fun kv => pcmd (snd kv)) (p_dict s)).
Proof. intros s H. destruct (m_done _ _ (proj1 (reach_m ops)) c H) as (A & B & _). split; auto. Qed.

(* no request has two schedule entries; every scheduled function belongs to the live instance and is listed under its id *)
Lemma plugin_scheduled_once ops :
  let s := prun_ops ops pinit in NoDup (map s_cmd (p_sched s)) /\ NoDup (map s_name (p_sched s)).
Proof.
  intros s. pose proof (m_linv _ _ (proj1 (reach_m ops))) as H. split; [apply (q_cmds _ _ _ _ _ H)|apply (q_names _ _ _ _ _ H)].
Qed.

Lemma plugin_live ops e :
  let s := prun_ops ops pinit in In e (p_sched s) -> s_gen e = p_gen s /\ In (s_name e) (map fst (p_dict s)).
Proof. intros s H. destruct (proj1 (reach_m ops)) as [_ G SD _ _ _ _ _ _]. split; [apply G; exact H|apply SD; exact H]. Qed.

Lemma plugin_listed_id ops e kv :
  let s := prun_ops ops pinit in
  In e (p_sched s) -> In kv (p_dict s) -> pcmd (snd kv) = s_cmd e -> fst kv = s_name e.
Proof. intros s. apply (q_lD _ _ _ _ _ (m_linv _ _ (proj1 (reach_m ops)))). Qed.

(* ---- non-vacuity, and the plugin before the repair ---- *)
Example reload_keeps_ids :
  let s := prun_ops [QAdd 5; QAdd 5; QReload; QRemove (Auto 1); QAdvance 6; QRun; QAdvance 6; QRun] pinit in
  map snd (p_log s) = [0%N] /\ p_sched s = [] /\ p_counter s = 2%N /\ p_done s = [0%N].
Proof. vm_compute. repeat split. Qed.

(* the witnesses of finding C18.F24 on the repaired plugin: once *)
Example reload_fire_reload_once :
  p_done (prun_ops [QAdd 2; QReload; QAdvance 3; QRun; QReload; QAdvance 1; QRun] pinit) = [0%N] /\
  p_done (prun_ops [QAdd 2; QRemind 3; QUnload; QAdvance 5; QRun; QLoad; QAdvance 1; QRun; QRestart; QAdvance 9; QRun] pinit) = [1%N; 0%N].
Proof. vm_compute. split; reflexivity. Qed.

(* with the die() of before the repair (no unscheduling) both histories run request 0 twice *)
Lemma plugin_once_refuted_old_die :
  exists ops, ~ NoDup (p_done (prun_ops_with false ops pinit)).
Proof.
  exists [QAdd 2; QReload; QAdvance 3; QRun; QReload; QAdvance 1; QRun]. vm_compute. intro H.
  inversion H as [|? ? N1 _]; subst. apply N1. left. reflexivity.
Qed.
Example unload_load_twice_old_die :
  p_done (prun_ops_with false [QAdd 2; QUnload; QAdvance 5; QRun; QLoad; QAdvance 1; QRun] pinit) = [0%N; 0%N].
Proof. vm_compute. reflexivity. Qed.

(* ---- "fires at least once", the part carried by the invariant ---- *)
(* while the plugin is loaded every listed request has a schedule entry under its id (and, plugin_live, that entry is a
   closure of the live instance): with run()'s liveness (Props.C18_due_executed / C18_run_drains for src/schedule.py)
   a listed request whose time has passed fires in the next run() *)
Lemma plugin_listed_scheduled ops k :
  let s := prun_ops ops pinit in
  p_loaded s = true -> In k (map fst (p_dict s)) -> In k (map s_name (p_sched s)).
Proof. intros s Hl Hk. apply (m_ds _ _ (proj1 (reach_m ops)) Hl k Hk). Qed.

(* while it is unloaded nothing of it is scheduled and the pickle holds exactly what was listed: nothing is lost *)
Lemma plugin_unloaded_pickled ops :
  let s := prun_ops ops pinit in p_loaded s = false -> p_sched s = [] /\ p_pickle s = p_dict s.
Proof. intros s. apply (proj2 (reach_m ops)). Qed.

(* listed ids are below the schedule's counter: a new automatic id never overwrites a listed request *)
Lemma plugin_ids_bounded ops i :
  let s := prun_ops ops pinit in In (Auto i) (map fst (p_dict s)) -> (i < p_counter s)%N.
Proof. intros s. apply (m_kb _ _ (proj1 (reach_m ops))). Qed.

(* C18.F27 repaired: a request whose command does not tokenize fires once, leaves the list, and is not rescheduled *)
Example untokenizable_fires_once :
  let s := prun_ops [QAddBad 2; QAdd 3; QAdvance 4; QRun; QReload; QAdvance 1; QRun; QRestart; QAdvance 1; QRun] pinit in
  p_done s = [1%N; 0%N] /\ map snd (p_log s) = [1%N] /\ p_dict s = [] /\ p_sched s = [].
Proof. vm_compute. repeat split. Qed.
