(* C18/Trace.v — trace-level statement: histories of addEvent / removeEvent / rescheduleEvent / clock advance / run
   over one-shot events whose functions do not touch the scheduler or the clock (they may raise) refine an abstract
   specification: a bag of pending entries, and run() = "move every pending entry that is due to the executed list,
   each once, in non-decreasing order of due time" (order among equal times is left open: heapq is not stable,
   and neither is the spec).  Proved by induction over the history. *)
From Coq Require Import List NArith ZArith Bool Lia ZifyBool Permutation Sorted.
Import ListNotations.
Require Import Base.Wire Base.PyStr C18.Model C18.Aux C18.Lemmas C18.Periodic.

(* ---- the fragment ---- *)
Fixpoint quiet (a : act) : bool :=
  match a with
  | ANop | ARaise => true
  | ASeq a b => quiet a && quiet b
  | ATry a => quiet a
  | _ => false
  end.

Definition simple (o : op) : bool :=
  match o with
  | OAct (AAdd _ _ body _ _ _) => quiet body
  | OAct (ARemove _) | OAct (AResched _ _) => true
  | ORun | OAdvance _ => true
  | _ => false
  end.

(* ---- the abstract specification ---- *)
Record astate := Abs {
  a_pend : list entry;      (* pending, as a bag *)
  a_clock : Z;
  a_done : list entry;      (* executed, newest first *)
  a_counter : N;            (* next automatic name *)
  a_nsched : N }.           (* next scheduling number *)

Definition a_add (dt : Z) (nm : option N) (av : argv) (a : astate) : astate :=
  let '(n, cnt) := match nm with
                   | None => (Auto (a_counter a), (a_counter a + 1)%N)
                   | Some k => (Named k, a_counter a)
                   end in
  if existsb (named n) (a_pend a) then Abs (a_pend a) (a_clock a) (a_done a) cnt (a_nsched a)      (* name taken: refused *)
  else Abs (Ent (a_clock a + dt) n av (a_nsched a) av :: a_pend a) (a_clock a) (a_done a) cnt (a_nsched a + 1)%N.

Definition a_remove (n : name) (a : astate) : astate :=
  Abs (filter (fun e => negb (named n e)) (a_pend a)) (a_clock a) (a_done a) (a_counter a) (a_nsched a).

Definition a_resched (n : name) (dt : Z) (a : astate) : astate :=
  match filter (named n) (a_pend a) with
  | [] => a                                                                                         (* unknown name: refused *)
  | e :: _ => Abs (Ent (a_clock a + dt) n (e_args e) (a_nsched a) (e_gargs e) :: filter (fun x => negb (named n x)) (a_pend a))
                  (a_clock a) (a_done a) (a_counter a) (a_nsched a + 1)%N                           (* same name and arguments, new time *)
  end.

Definition a_advance (d : N) (a : astate) : astate :=
  Abs (a_pend a) (a_clock a + Z.of_N d) (a_done a) (a_counter a) (a_nsched a).

Definition by_time (x y : entry) : Prop := (e_t x <= e_t y)%Z.

(* run(): exactly the due entries are executed, each once, sorted by due time; the others stay *)
Definition a_run (a a' : astate) : Prop :=
  exists fired,
    Permutation (a_pend a) (fired ++ a_pend a') /\
    Forall (fun e => (e_t e < a_clock a)%Z) fired /\
    Forall (fun e => (a_clock a <= e_t e)%Z) (a_pend a') /\
    StronglySorted by_time fired /\
    a_done a' = rev fired ++ a_done a /\
    a_clock a' = a_clock a /\ a_counter a' = a_counter a /\ a_nsched a' = a_nsched a.

Definition astep (o : op) (a a' : astate) : Prop :=
  match o with
  | OAct (AAdd _ _ _ dt nm av) => a' = a_add dt nm av a
  | OAct (ARemove n) => a' = a_remove n a
  | OAct (AResched n dt) => a' = a_resched n dt a
  | OAdvance d => a' = a_advance d a
  | ORun => a_run a a'
  | _ => False
  end.

Fixpoint atrace (ops : list op) (a a' : astate) : Prop :=
  match ops with
  | [] => a' = a
  | o :: ops' => exists a1, astep o a a1 /\ atrace ops' a1 a'
  end.

(* ---- abstraction of a model state ---- *)
Definition abs (s : state) : astate :=
  Abs (heap s) (now s) (map p_e (pops s)) (counter s) (nsched s).

(* every function in self.events is a plain quiet one *)
Definition qfn (f : fn) : Prop := match f with Plain u => quiet (u_body u) = true | Wrap _ _ _ _ _ => False end.
Definition Q (s : state) : Prop := forall k f, In (k, f) (events s) -> qfn f.
(* one invocation per pop, at that clock, with the popped entry's arguments *)
Definition TC (s : state) : Prop :=
  map (fun c => (c_clock c, c_args c)) (calls s) = map (fun p => (p_clock p, e_args (p_e p))) (pops s).

Lemma quiet_exec a : quiet a = true -> forall s, fst (exec a s) = s.
Proof.
  induction a; simpl; intros H s; try discriminate; auto.
  - apply andb_true_iff in H. destruct H as [H1 H2].
    specialize (IHa1 H1 s). destruct (exec a1 s) as [s1 [x|e]]; simpl in *; subst; auto.
Qed.

Lemma call_quiet f av s : qfn f ->
  exists r, fst (call_fn f av s) = log_call (CallRec (now s) r av) s.
Proof.
  destruct f as [u|]; simpl; [|tauto]. intros H. exists (u_reg u). unfold call_user.
  destruct (arity_ok (u_ar u) av); simpl; auto. apply quiet_exec; auto.
Qed.

Lemma has_key_heap n s : INV s -> has_key n (events s) = existsb (named n) (heap s).
Proof.
  intros I. destruct (existsb (named n) (heap s)) eqn:E.
  - apply has_key_In. apply existsb_exists in E. destruct E as [e [He Hn]]. apply name_eqb_eq in Hn.
    eapply Permutation_in; [apply (i_names _ I)|]. rewrite <- Hn. apply in_map; auto.
  - apply has_key_false. intro H. assert (X : In n (names s)) by (eapply Permutation_in; [apply Permutation_sym; apply (i_names _ I)|auto]).
    apply in_map_iff in X. destruct X as [e [Hn He]].
    assert (existsb (named n) (heap s) = true) by (apply existsb_exists; exists e; split; auto; apply name_eqb_eq; auto). congruence.
Qed.

Lemma filter_none n (h : list entry) : filter (named n) h = [] -> filter (fun e => negb (named n e)) h = h.
Proof.
  induction h as [|x h IH]; simpl; auto. destruct (named n x); simpl; [discriminate|]. intros H. f_equal; auto.
Qed.

Lemma filter_named_nil n s : INV s -> take_key n (events s) = None -> filter (named n) (heap s) = [].
Proof.
  intros I T. apply take_key_none in T.
  destruct (filter (named n) (heap s)) as [|e l] eqn:F; auto. exfalso. apply T.
  assert (H : In e (filter (named n) (heap s))) by (rewrite F; left; auto). apply filter_In in H. destruct H as [He Hn].
  apply name_eqb_eq in Hn. eapply Permutation_in; [apply (i_names _ I)|]. rewrite <- Hn. apply in_map; auto.
Qed.

Lemma filter_named_cons n s f ev' : INV s -> take_key n (events s) = Some (f, ev') -> exists e l, filter (named n) (heap s) = e :: l.
Proof.
  intros I T. destruct (take_key_some _ _ _ _ T) as [Hin _].
  assert (X : In n (names s)).
  { eapply Permutation_in; [apply Permutation_sym; apply (i_names _ I)|]. apply in_map_iff. exists (n, f). auto. }
  apply in_map_iff in X. destruct X as [e [Hn He]].
  assert (H : In e (filter (named n) (heap s))) by (apply filter_In; split; auto; apply name_eqb_eq; auto).
  destruct (filter (named n) (heap s)); [contradiction|eauto].
Qed.

(* ---- deterministic steps ---- *)
Lemma refine_add tag ar body dt nm av s :
  INV s -> abs (fst (exec (AAdd tag ar body dt nm av) s)) = a_add dt nm av (abs s).
Proof.
  intros I. simpl. unfold addEvent, a_add. destruct nm as [k|]; simpl.
  - change (events (bump_reg s)) with (events s). rewrite (has_key_heap _ _ I).
    destruct (existsb (named (Named k)) (heap s)); reflexivity.
  - change (events (bump_counter (bump_reg s))) with (events s). rewrite (has_key_heap _ _ I).
    destruct (existsb (named (Auto (counter s))) (heap s)); reflexivity.
Qed.

Lemma refine_remove n s : INV s -> abs (fst (exec (ARemove n) s)) = a_remove n (abs s).
Proof.
  intros I. simpl. unfold removeEvent, a_remove. destruct (take_key n (events s)) as [[f ev']|] eqn:T; simpl.
  - reflexivity.
  - unfold abs. simpl. rewrite (filter_none _ _ (filter_named_nil _ _ I T)). reflexivity.
Qed.

Lemma refine_resched n dt s : INV s -> abs (fst (exec (AResched n dt) s)) = a_resched n dt (abs s).
Proof.
  intros I. simpl. unfold reschedule, removeEvent, a_resched, lookup_args. simpl.
  destruct (take_key n (events s)) as [[f ev']|] eqn:T.
  - destruct (filter_named_cons _ _ _ _ I T) as [e [l F]]. rewrite F. unfold addEvent.
    assert (K : has_key n (events (drop n ev' s)) = false).
    { simpl. apply has_key_false. destruct (take_key_some _ _ _ _ T) as [_ P].
      pose proof (Permutation_NoDup P (i_keys _ I)) as ND. inversion ND; auto. }
    rewrite K. reflexivity.
  - rewrite (filter_named_nil _ _ I T). reflexivity.
Qed.

(* ---- run() ---- *)
Lemma Q_sub s s' : (forall kf, In kf (events s') -> In kf (events s)) -> Q s -> Q s'.
Proof. intros H q k f Hin. apply (q k f). apply H. exact Hin. Qed.

Lemma run_quiet fuel : forall s, INV s -> Q s ->
  let s' := fst (run_loop fuel s) in
  fuelout s' = false ->
  a_run (abs s) (abs s') /\ Q s' /\ (TC s -> TC s') /\ fuelout s = false.
Proof.
  induction fuel as [|k IH]; intros s I q; simpl.
  - discriminate.
  - destruct (pop_min (oracle s) (heap s)) as [[[[e r] o] bad]|] eqn:PM.
    2:{ simpl. intros F. apply pop_min_none in PM. split; [|auto].
        exists []. simpl. rewrite PM. repeat split; auto; constructor. }
    destruct (pop_min_some _ _ _ _ _ _ PM) as [Hmin Hperm].
    destruct (due (e_t e) (now s)) eqn:D.
    2:{ simpl. intros F. split; [|auto]. exists []. simpl. repeat split; auto; try constructor.
        apply Forall_forall. intros e' He'. apply due_false in D; auto using table_strict.
        rewrite is_min_spec in Hmin. specialize (Hmin _ He'). lia. }
    destruct (take_key (e_name e) (events s)) as [[f ev']|] eqn:T.
    2:{ exfalso. apply take_key_none in T. apply T.
        eapply Permutation_in; [exact (i_names _ I)|]. apply in_map.
        eapply Permutation_in; [apply Permutation_sym; exact Hperm|left; auto]. }
    pose proof (popped_inv _ _ _ _ _ _ _ I PM D T) as I1.
    pose proof (call_fn_inv f (e_args e) _ I1) as I2.
    assert (qf : qfn f) by (apply (q (e_name e) f); apply (take_key_some _ _ _ _ T)).
    destruct (call_quiet f (e_args e) (popped e r o bad ev' s) qf) as [rg E].
    destruct (call_fn f (e_args e) (popped e r o bad ev' s)) as [s1 x]. rewrite ?after_call_never. simpl in E, I2. subst s1.
    set (s1 := log_call (CallRec (now (popped e r o bad ev' s)) rg (e_args e)) (popped e r o bad ev' s)) in *.
    assert (q1 : Q s1).
    { eapply Q_sub; [|exact q]. simpl. intros kf Hin.
      eapply Permutation_in; [apply Permutation_sym; apply (take_key_perm _ _ _ _ T)|right; exact Hin]. }
    intros F. destruct (IH s1 I2 q1 F) as (R & q' & tc & F1).
    split; [|split; [exact q'|split; [|exact F1]]].
    + destruct R as (fired & P & Fd & Fn & Ss & Dn & Ck & Cn & Ns). simpl in *.
      exists (e :: fired). simpl. repeat split; auto.
      * rewrite Hperm. constructor. exact P.
      * constructor; auto. apply due_lt; auto using table_strict.
      * constructor; auto. apply Forall_forall. intros y Hy. unfold by_time.
        rewrite is_min_spec in Hmin. apply Hmin.
        eapply Permutation_in; [apply Permutation_sym; exact Hperm|]. right.
        eapply Permutation_in; [apply Permutation_sym; exact P|]. apply in_or_app. left. exact Hy.
      * rewrite <- app_assoc. simpl. exact Dn.
    + intros t0. apply tc. unfold TC in *. simpl. f_equal. exact t0.
Qed.

(* ---- Q, TC, INV along simple steps; fuelout never resets ---- *)
Lemma addEvent_frame f t nm av g s :
  let s' := fst (addEvent f t nm av g s) in
  calls s' = calls s /\ pops s' = pops s /\ fuelout s' = fuelout s /\
  (events s' = events s \/ exists n, events s' = (n, f) :: events s).
Proof.
  unfold addEvent. destruct nm as [n|].
  - destruct (has_key n (events s)); simpl; repeat split; auto. right. eexists; reflexivity.
  - destruct (has_key (Auto (counter s)) (events (bump_counter s))); simpl; repeat split; auto. right. eexists; reflexivity.
Qed.

Lemma removeEvent_frame n s :
  let s' := fst (removeEvent n s) in
  calls s' = calls s /\ pops s' = pops s /\ fuelout s' = fuelout s /\
  (forall kf, In kf (events s') -> In kf (events s)) /\
  (forall f, snd (removeEvent n s) = Ok f -> In (n, f) (events s)).
Proof.
  unfold removeEvent. destruct (take_key n (events s)) as [[f ev']|] eqn:T; simpl; repeat split; auto; try discriminate.
  - intros kf Hin. eapply Permutation_in; [apply Permutation_sym; apply (take_key_perm _ _ _ _ T)|right; exact Hin].
  - intros g E. inversion E; subst. apply (take_key_some _ _ _ _ T).
Qed.

Lemma Q_grow s s' f : qfn f -> (events s' = events s \/ exists n, events s' = (n, f) :: events s) -> Q s -> Q s'.
Proof.
  intros qf [E|[n E]] q k g Hin; rewrite E in Hin; [apply (q k g Hin)|].
  destruct Hin as [X|X]; [inversion X; subst; auto|apply (q k g X)].
Qed.

Lemma exec_simple_frame a s : simple (OAct a) = true -> INV s -> Q s ->
  let s' := fst (exec a s) in
  Q s' /\ calls s' = calls s /\ pops s' = pops s /\ fuelout s' = fuelout s.
Proof.
  intros S I q. destruct a; simpl in S; try discriminate.
  - (* AAdd *) cbn [exec].
    destruct (addEvent_frame (Plain (UF (nreg s) tag ar a)) (now s + dt) (option_map Named nm) av av (bump_reg s)) as (C & P & F & E).
    destruct (addEvent _ _ _ _ _ (bump_reg s)) as [s2 r]. simpl in *. repeat split; auto.
    eapply Q_grow; [|exact E|exact q]. simpl. exact S.
  - (* ARemove *) cbn [exec].
    destruct (removeEvent_frame n s) as (C & P & F & E & _).
    destruct (removeEvent n s) as [s1 r]. simpl in *. repeat split; auto. eapply Q_sub; eauto.
  - (* AResched *) cbn [exec]. unfold reschedule. destruct (lookup_args n (heap s)) as [av g].
    destruct (removeEvent_frame n s) as (C & P & F & E & Hin).
    destruct (removeEvent n s) as [s1 [f|e]]; simpl in *; [|repeat split; auto; eapply Q_sub; eauto].
    assert (qf : qfn f) by (apply (q n f); apply Hin; reflexivity).
    destruct (addEvent_frame f (now s + dt) (Some n) av g s1) as (C2 & P2 & F2 & E2).
    assert (q1 : Q s1) by (eapply Q_sub; eauto).
    destruct (addEvent f (now s + dt) (Some n) av g s1) as [s3 [x|e]]; simpl in *; repeat split; try congruence;
      eapply Q_grow; eauto.
Qed.

Lemma fuelout_sticky fuel : forall s, Q s -> fuelout s = true -> fuelout (fst (run_loop fuel s)) = true.
Proof.
  induction fuel as [|k IH]; intros s q F; simpl; auto.
  destruct (pop_min (oracle s) (heap s)) as [[[[e r] o] bad]|]; auto.
  destruct (due (e_t e) (now s)); auto.
  destruct (take_key (e_name e) (events s)) as [[f ev']|] eqn:T; auto.
  assert (qf : qfn f) by (apply (q (e_name e) f); apply (take_key_some _ _ _ _ T)).
  destruct (call_quiet f (e_args e) (popped e r o bad ev' s) qf) as [rg E].
  destruct (call_fn f (e_args e) (popped e r o bad ev' s)) as [s1 x]. rewrite ?after_call_never. simpl in E. subst s1.
  apply IH; auto. eapply Q_sub; [|exact q]. simpl. intros kf Hin.
  eapply Permutation_in; [apply Permutation_sym; apply (take_key_perm _ _ _ _ T)|right; exact Hin].
Qed.

Lemma refine_step fuel o s : simple o = true -> INV s -> Q s ->
  let s' := fst (step fuel o s) in
  fuelout s' = false -> astep o (abs s) (abs s') /\ Q s' /\ (TC s -> TC s') /\ fuelout s = false.
Proof.
  intros S I q. destruct o as [a| |d]; simpl.
  - destruct (exec_simple_frame a s S I q) as (q' & C & P & F). intros F'. split; [|split; [auto|split]].
    + destruct a; simpl in S; try discriminate.
      * apply refine_add; auto. * apply refine_remove; auto. * apply refine_resched; auto.
    + unfold TC. rewrite C, P. auto.
    + congruence.
  - intros F. destruct (run_quiet fuel s I q F) as (R & q' & tc & F0). auto.
  - intros F. repeat split; auto.
Qed.

Lemma Q_run_loop fuel : forall s, INV s -> Q s -> Q (fst (run_loop fuel s)).
Proof.
  induction fuel as [|k IHk]; intros s I q; simpl; auto.
  destruct (pop_min (oracle s) (heap s)) as [[[[e r] o] bad]|] eqn:PM; auto.
  destruct (due (e_t e) (now s)) eqn:D; auto.
  destruct (take_key (e_name e) (events s)) as [[f ev']|] eqn:T; auto.
  assert (qf : qfn f) by (apply (q (e_name e) f); apply (take_key_some _ _ _ _ T)).
  pose proof (call_fn_inv f (e_args e) _ (popped_inv _ _ _ _ _ _ _ I PM D T)) as I2.
  destruct (call_quiet f (e_args e) (popped e r o bad ev' s) qf) as [rg E].
  destruct (call_fn f (e_args e) (popped e r o bad ev' s)) as [s1 x]. rewrite ?after_call_never. simpl in E, I2. subst s1.
  apply IHk; auto. eapply Q_sub; [|exact q]. simpl. intros kf Hin.
  eapply Permutation_in; [apply Permutation_sym; apply (take_key_perm _ _ _ _ T)|right; exact Hin].
Qed.

Lemma Q_step fuel o s : simple o = true -> INV s -> Q s -> Q (fst (step fuel o s)).
Proof.
  intros S I q. destruct o as [a| |d]; simpl; auto.
  - apply (exec_simple_frame a s S I q).
  - apply Q_run_loop; auto.
Qed.

Lemma fuelout_step fuel o s : simple o = true -> INV s -> Q s -> fuelout s = true -> fuelout (fst (step fuel o s)) = true.
Proof.
  intros S I q F. destruct o as [a| |d]; simpl; auto.
  - destruct (exec_simple_frame a s S I q) as (_ & _ & _ & F2). congruence.
  - apply fuelout_sticky; auto.
Qed.

Lemma fuelout_ops fuel ops : forall s, forallb simple ops = true -> INV s -> Q s -> fuelout s = true ->
  fuelout (run_ops fuel ops s) = true.
Proof.
  induction ops as [|o ops IH]; intros s S I q F; simpl in *; auto.
  apply andb_true_iff in S. destruct S as [So Sops].
  apply IH; auto; [apply step_inv|apply Q_step|apply fuelout_step]; auto.
Qed.

Lemma refine_ops fuel ops : forall s, forallb simple ops = true -> INV s -> Q s ->
  fuelout (run_ops fuel ops s) = false ->
  atrace ops (abs s) (abs (run_ops fuel ops s)) /\ (TC s -> TC (run_ops fuel ops s)).
Proof.
  induction ops as [|o ops IH]; intros s S I q F; simpl in *.
  - auto.
  - apply andb_true_iff in S. destruct S as [So Sops].
    assert (F1 : fuelout (fst (step fuel o s)) = false).
    { destruct (fuelout (fst (step fuel o s))) eqn:X; auto.
      rewrite (fuelout_ops fuel ops _ Sops (step_inv fuel o s I) (Q_step fuel o s So I q) X) in F. discriminate. }
    destruct (refine_step fuel o s So I q F1) as (A & q1 & tc & F0).
    destruct (IH _ Sops (step_inv fuel o s I) q1 F) as (B & tc2).
    split; [exists (abs (fst (step fuel o s))); auto|]. auto.
Qed.

(* ---- the theorem ---- *)
Definition abs0 : astate := Abs [] 0 [] 0%N 0%N.

Lemma trace_refines fuel o ops :
  forallb simple ops = true -> fuelout (reach fuel o ops) = false ->
  atrace ops abs0 (abs (reach fuel o ops)) /\ TC (reach fuel o ops).
Proof.
  intros S F. destruct (refine_ops fuel ops (init o) S (init_inv o)) as [A tc]; auto.
  - intros k f [].
  - split; [exact A|]. apply tc. reflexivity.
Qed.

(* ---- non-vacuity: three one-shot events (one raising, one with arguments, two due at the same time), one removed,
        one rescheduled behind the others; executed: sids 2 (t=1), 0 (t=2), 4 (the rescheduled one, t=3) ---- *)
Definition ex_trace : list op :=
  [OAct (AAdd 1 None ARaise 2 None noargs);
   OAct (AAdd 2 (Some 1%N) ANop 2 (Some 1%N) ([4%N], []));
   OAct (AAdd 3 None ANop 1 (Some 2%N) noargs);
   OAct (AAdd 4 None ANop 1 (Some 3%N) noargs);
   OAct (ARemove (Named 3));
   OAct (AResched (Named 1) 3);
   OAdvance 4; ORun].
Example ex_trace_simple : forallb simple ex_trace = true /\ fuelout (reach 9 [] ex_trace) = false.
Proof. vm_compute. split; reflexivity. Qed.
Example ex_trace_done :
  map (fun e => (e_sid e, e_t e, e_args e)) (a_done (abs (reach 9 [] ex_trace)))
  = [(4%N, 3%Z, ([4%N], [])); (0%N, 2%Z, noargs); (2%N, 1%Z, noargs)] /\
  map c_args (calls (reach 9 [] ex_trace)) = [([4%N], []); noargs; noargs].
Proof. vm_compute. split; reflexivity. Qed.
