(* C18/BagComplete.v — the converse of Bag.bag_refines: every trace of the abstract bag semantics is realised by the
   model of schedule.py for a suitable heap tie-break oracle (and loop bound).  Together: the states (invocation log,
   executed list, pending bag) the model can reach, over all tie-breaks, are exactly those of the bag semantics. *)
From Coq Require Import List NArith ZArith Bool Lia ZifyBool Permutation.
Import ListNotations.
Require Import Base.Wire Base.PyStr C18.Model C18.Aux C18.Lemmas C18.Theorems C18.Periodic C18.Trace C18.Bag.
Require gen.T18.
Open Scope Z_scope.

Definition set_oracle (o : list name) (s : state) : state :=
  St (heap s) (events s) (counter s) (now s) (nreg s) (nsched s) (calls s) (pops s) (removed s) o (obad s) (fuelout s).

(* nothing but heappop looks at the oracle *)
Definition oirr {A} (rb : state -> state * res A) : Prop :=
  forall o s, rb (set_oracle o s) = (set_oracle o (fst (rb s)), snd (rb s)).

Lemma oirr_addEvent f t nm av g : oirr (addEvent f t nm av g).
Proof.
  intros o s. unfold addEvent. destruct nm as [n|]; simpl.
  - destruct (has_key n (events s)); reflexivity.
  - destruct (has_key (Auto (counter s)) (events s)); reflexivity.
Qed.

Lemma oirr_removeEvent n : oirr (removeEvent n).
Proof. intros o s. unfold removeEvent. simpl. destruct (take_key n (events s)) as [[f ev']|]; reflexivity. Qed.

Lemma oirr_reschedule n t : oirr (reschedule n t).
Proof.
  intros o s. unfold reschedule. simpl heap. destruct (lookup_args n (heap s)) as [av g].
  rewrite oirr_removeEvent. destruct (removeEvent n s) as [s1 [f|e]]; [|reflexivity]. cbn [fst snd].
  rewrite oirr_addEvent. destruct (addEvent f t (Some n) av g s1) as [s3 [x|e]]; reflexivity.
Qed.

Lemma oirr_call_user rb u av : oirr rb -> oirr (call_user rb u av).
Proof.
  intros H o s. unfold call_user. simpl now.
  change (log_call (CallRec (now s) (u_reg u) av) (set_oracle o s)) with (set_oracle o (log_call (CallRec (now s) (u_reg u) av) s)).
  destruct (arity_ok (u_ar u) av); auto.
Qed.

Lemma oirr_wrapper rb u p nm av cnt : oirr rb -> oirr (wrapper_call rb u p nm av cnt).
Proof.
  intros H o s. unfold wrapper_call. rewrite (oirr_call_user rb u av H).
  destruct (call_user rb u av s) as [s1 r]. simpl fst. simpl snd.
  destruct (recurs (recur cnt)); auto. simpl now. rewrite oirr_addEvent.
  destruct (addEvent _ _ _ _ _ s1) as [s2 [x|e]]; reflexivity.
Qed.

Lemma oirr_exec a : oirr (exec a).
Proof.
  induction a; intros o s; simpl; auto.
  - change (bump_reg (set_oracle o s)) with (set_oracle o (bump_reg s)). rewrite oirr_addEvent.
    destruct (addEvent _ _ _ _ _ (bump_reg s)) as [s2 r]; reflexivity.
  - change (bump_reg (set_oracle o s)) with (set_oracle o (bump_reg s)). destruct nowf.
    + apply oirr_wrapper; auto.
    + rewrite oirr_addEvent. destruct (addEvent _ _ _ _ _ (bump_reg s)) as [s2 r]; reflexivity.
  - rewrite oirr_removeEvent. destruct (removeEvent n s) as [s1 r]; reflexivity.
  - apply oirr_reschedule.
  - rewrite IHa1. destruct (exec a1 s) as [s1 [x|e]]; simpl; auto.
  - rewrite IHa. reflexivity.
Qed.

Lemma oirr_call_fn f av : oirr (call_fn f av).
Proof.
  destruct f as [u|u p nm uav cnt]; intros o s; simpl.
  - apply oirr_call_user. apply oirr_exec.
  - destruct (argv_empty av); auto. apply oirr_wrapper. apply oirr_exec.
Qed.

Lemma absb_oracle o s : absb (set_oracle o s) = absb s.
Proof. reflexivity. Qed.
Lemma INV_oracle o s : INV s -> INV (set_oracle o s).
Proof. apply frame_inv. unfold same_core; simpl. repeat split; auto. lia. Qed.

Lemma run_loop_S k s :
  run_loop (S k) s =
  match pop_min (oracle s) (heap s) with
  | None => (s, Ok tt)
  | Some (e, r, o, bad) =>
      if due (e_t e) (now s) then
        match take_key (e_name e) (events s) with
        | None => (popped e r o bad (events s) s, Raise KeyError)
        | Some (f, ev') => let '(s1, _) := call_fn f (e_args e) (popped e r o bad ev' s) in run_loop k s1
        end
      else (s, Ok tt)
  end.
Proof.
  simpl. destruct (pop_min (oracle s) (heap s)) as [[[[e r] o] bad]|]; auto.
  destruct (due (e_t e) (now s)); auto. destruct (take_key (e_name e) (events s)) as [[f ev']|]; auto.
  destruct (call_fn f (e_args e) (popped e r o bad ev' s)) as [s1 x]. rewrite after_call_never. reflexivity.
Qed.

Lemma due_no t c : c <= t -> due t c = false.
Proof. intros H. unfold due. rewrite table_strict. lia. Qed.
Lemma due_yes t c : t < c -> due t c = true.
Proof. intros H. unfold due. rewrite table_strict. lia. Qed.

Lemma take_first_exists p (h : list entry) e : In e h -> p e = true -> exists e2 r, take_first p h = Some (e2, r).
Proof.
  induction h as [|x h IH]; simpl; intros [] Hp.
  - subst. rewrite Hp. eauto.
  - destruct (p x); eauto. destruct (IH H Hp) as [e2 [r E]]. rewrite E. eauto.
Qed.

Lemma NoDup_map_inj {A B} (f : A -> B) (l : list A) a b :
  NoDup (map f l) -> In a l -> In b l -> f a = f b -> a = b.
Proof.
  induction l as [|x l IH]; simpl; intros ND Ha Hb E; [contradiction|]. inversion ND as [|? ? N1 N2]; subst.
  destruct Ha as [Ha|Ha]; destruct Hb as [Hb|Hb]; subst; auto.
  - exfalso. apply N1. rewrite E. apply in_map. auto.
  - exfalso. apply N1. rewrite <- E. apply in_map. auto.
Qed.

(* heappop told to return the entry named n, which is minimal, returns it *)
Lemma pop_named s e rest :
  INV s -> In e (heap s) -> (forall y, In y (heap s) -> e_t e <= e_t y) ->
  exists r, pop_min (e_name e :: rest) (heap s) = Some (e, r, rest, false).
Proof.
  intros I Hin Hmin. unfold pop_min.
  assert (P : (fun e0 => named (e_name e) e0 && is_min (heap s) e0) e = true).
  { apply andb_true_iff. split; [apply name_eqb_eq; auto|apply is_min_spec; auto]. }
  destruct (take_first_exists _ _ _ Hin P) as [e2 [r E]]. rewrite E.
  destruct (take_first_some _ _ _ _ E) as [P2 Perm]. apply andb_true_iff in P2. destruct P2 as [N2 _].
  apply name_eqb_eq in N2.
  assert (e2 = e).
  { apply (NoDup_map_inj e_name (heap s)); auto.
    - eapply Permutation_NoDup; [apply Permutation_sym; apply (i_names _ I)|apply (i_keys _ I)].
    - eapply Permutation_in; [apply Permutation_sym; exact Perm|left; auto]. }
  subst. eauto.
Qed.

Lemma run_complete b b' : brun b b' -> forall s, INV s -> absb s = b ->
  exists o fuel s_end, absb s_end = b' /\ INV s_end /\ fuelout s_end = fuelout s /\
    forall osuf, fst (run_loop fuel (set_oracle (o ++ osuf) s)) = set_oracle osuf s_end.
Proof.
  induction 1 as [b Hstop|b x b' Hin Hmin Hdue Hrun IH]; intros s I E; subst b.
  - exists [], 1%nat, s. split; [reflexivity|]. split; [exact I|]. split; [reflexivity|]. intros osuf. rewrite run_loop_S. simpl oracle. simpl heap. simpl app.
    destruct (pop_min osuf (heap s)) as [[[[e r] o] bad]|] eqn:PM; auto.
    destruct (pop_min_some _ _ _ _ _ _ PM) as [_ Perm].
    assert (He : In e (heap s)) by (eapply Permutation_in; [apply Permutation_sym; exact Perm|left; auto]).
    simpl now. rewrite due_no; auto.
    apply (Hstop (pair_fn (events s) e)). simpl. apply in_map. exact He.
  - simpl in Hin. apply in_map_iff in Hin. destruct Hin as [e [Ex He]]. subst x. simpl in Hmin, Hdue.
    assert (Hm : forall y, In y (heap s) -> e_t e <= e_t y).
    { intros y Hy. apply (Hmin (pair_fn (events s) y)). apply in_map. exact Hy. }
    set (S0 := set_oracle [e_name e] s).
    assert (I0 : INV S0) by (apply INV_oracle; auto).
    destruct (pop_named s e [] I He Hm) as [r PM0].
    assert (K : has_key (e_name e) (events s) = true).
    { apply has_key_In. eapply Permutation_in; [apply (i_names _ I)|]. apply in_map. exact He. }
    destruct (take_key (e_name e) (events s)) as [[f ev']|] eqn:T.
    2:{ apply take_key_none in T. apply has_key_In in K. contradiction. }
    assert (D : due (e_t e) (now s) = true) by (apply due_yes; auto).
    destruct (fire_refines S0 e r [] false f ev' I0 PM0 D T) as [_ Hf].
    change (events S0) with (events s) in Hf. change (absb S0) with (absb s) in Hf.
    change (popped e r [] false ev' S0) with (popped e r [] false ev' s) in Hf.
    set (s1 := fst (call_fn f (e_args e) (popped e r [] false ev' s))) in *.
    assert (I1 : INV s1) by (apply call_fn_inv; apply (popped_inv e r [] false f ev' S0 I0 PM0 D T)).
    destruct (IH s1 I1 (eq_sym Hf)) as (o' & fuel' & s_end & A1 & A2 & A3 & A4).
    exists (e_name e :: o'), (S fuel'), s_end. split; [exact A1|]. split; [exact A2|]. split.
    + rewrite A3. unfold s1. rewrite call_fn_fuelout. reflexivity.
    + intros osuf. rewrite run_loop_S. simpl oracle. simpl heap. simpl now. simpl events.
      destruct (pop_named s e (o' ++ osuf) I He Hm) as [r2 PM2]. simpl app. rewrite PM2.
      assert (r2 = r).
      { rewrite (pop_min_filter _ _ _ _ _ _ PM2 (heap_sids_nodup s I)).
        rewrite (pop_min_filter _ _ _ _ _ _ PM0 (heap_sids_nodup s I)). reflexivity. }
      subst r2. rewrite D, T.
      change (popped e r (o' ++ osuf) false ev' (set_oracle (e_name e :: o' ++ osuf) s))
        with (set_oracle (o' ++ osuf) (popped e r [] false ev' s)).
      rewrite oirr_call_fn. fold s1. apply A4.
Qed.

(* ---- a loop that ended by itself is not changed by a larger bound ---- *)
Lemma fuel_mono fuel : forall s, fuelout s = false -> fuelout (fst (run_loop fuel s)) = false ->
  forall k, run_loop (fuel + k) s = run_loop fuel s.
Proof.
  induction fuel as [|n IH]; intros s F0 F k.
  - simpl in F. discriminate.
  - change (S n + k)%nat with (S (n + k)). rewrite !run_loop_S. rewrite run_loop_S in F.
    destruct (pop_min (oracle s) (heap s)) as [[[[e r] o] bad]|]; auto.
    destruct (due (e_t e) (now s)); auto.
    destruct (take_key (e_name e) (events s)) as [[f ev']|]; auto.
    pose proof (call_fn_fuelout f (e_args e) (popped e r o bad ev' s)) as F2.
    destruct (call_fn f (e_args e) (popped e r o bad ev' s)) as [s1 x]. rewrite ?after_call_never. simpl in F2. apply IH; auto. congruence.
Qed.

Lemma run_ops_more f k ops : forall s, fuelout s = false -> fuelout (run_ops f ops s) = false ->
  run_ops (f + k) ops s = run_ops f ops s.
Proof.
  induction ops as [|o ops IH]; intros s F0 F; simpl in *; auto.
  assert (F1 : fuelout (fst (step f o s)) = false).
  { destruct (fuelout (fst (step f o s))) eqn:X; auto. rewrite (run_ops_sticky f ops _ X) in F. discriminate. }
  assert (E : step (f + k) o s = step f o s).
  { destruct o; simpl in *; auto. apply fuel_mono; auto. }
  rewrite E. apply IH; auto.
Qed.

Lemma ops_complete ops : forall s b', INV s -> fuelout s = false -> btrace ops (absb s) b' ->
  exists o fuel, absb (run_ops fuel ops (set_oracle o s)) = b' /\ fuelout (run_ops fuel ops (set_oracle o s)) = false.
Proof.
  induction ops as [|op ops IH]; intros s b' I F0 T; simpl in T.
  - subst. exists [], 0%nat. simpl. auto.
  - destruct T as [b1 [St T]]. destruct op as [a| |d]; simpl in St.
    + (* OAct *)
      destruct (sim_exec a s I) as [A _]. rewrite <- A in St. subst b1.
      destruct (IH (fst (exec a s)) b' (exec_inv a s I)) as (o & fuel & R1 & R2); auto.
      { rewrite exec_fuelout. exact F0. }
      exists o, fuel. simpl. rewrite oirr_exec. simpl. auto.
    + (* ORun *)
      destruct (run_complete _ _ St s I eq_refl) as (o1 & f1 & s_end & A1 & A2 & A3 & A4).
      rewrite <- A1 in T.
      destruct (IH s_end b' A2) as (o2 & f2 & R1 & R2); auto; [congruence|].
      exists (o1 ++ o2), (f1 + f2)%nat. simpl.
      assert (E1 : run_loop (f1 + f2) (set_oracle (o1 ++ o2) s) = run_loop f1 (set_oracle (o1 ++ o2) s)).
      { apply fuel_mono; auto. rewrite A4. simpl. congruence. }
      rewrite E1, A4. rewrite (Nat.add_comm f1 f2). rewrite run_ops_more; auto. simpl. congruence.
    + (* OAdvance *)
      subst b1. destruct (IH (tick d s) b' (tick_inv d s I)) as (o & fuel & R1 & R2); auto.
      exists o, fuel. simpl. change (tick d (set_oracle o s)) with (set_oracle o (tick d s)). auto.
Qed.

(* every abstract trace is realised by the model under some tie-break oracle and loop bound *)
Lemma bag_complete ops b' :
  btrace ops b0 b' -> exists fuel o, fuelout (reach fuel o ops) = false /\ absb (reach fuel o ops) = b'.
Proof.
  intros T. destruct (ops_complete ops (init []) b' (init_inv []) eq_refl T) as (o & fuel & R1 & R2).
  exists fuel, o. change (reach fuel o ops) with (run_ops fuel ops (set_oracle o (init []))). auto.
Qed.

(* both directions *)
Lemma bag_exact ops b' :
  btrace ops b0 b' <-> exists fuel o, fuelout (reach fuel o ops) = false /\ absb (reach fuel o ops) = b'.
Proof.
  split; [apply bag_complete|]. intros (fuel & o & F & E). subst b'. apply bag_refines; auto.
Qed.

(* =====================  the periodic count law for every abstract trace  ===================== *)
Lemma btrace_app l1 l2 : forall b b', btrace (l1 ++ l2) b b' <-> exists b1, btrace l1 b b1 /\ btrace l2 b1 b'.
Proof.
  induction l1 as [|o l1 IH]; intros b b'; simpl.
  - split; [intros H; exists b; auto|intros [b1 [-> H]]; auto].
  - split.
    + intros [b1 [S T]]. apply IH in T. destruct T as [b2 [T1 T2]]. exists b2. split; auto. exists b1. auto.
    + intros [b2 [[b1 [S T1]] T2]]. exists b1. split; auto. apply IH. exists b2. auto.
Qed.

Lemma periodic_count_gen s tag ar body p nm nowf av n fuel2 ops2 :
  Rinv s ->
  let r := nreg s in
  let s2 := run_ops fuel2 ops2 (fst (exec (APer tag ar body p nm nowf av (Some n)) s)) in
  (nc r s2 <= cap n)%Z /\
  forall k f, In (k, f) (events s2) -> reg_of f = r ->
    exists u p' nm' av' c, f = Wrap u p' nm' av' (Some c) /\ (nc r s2 + cap c = cap n)%Z.
Proof.
  intros R r s2.
  pose proof (PB_register tag ar body p nm nowf av n s R) as H1.
  pose proof (PB_run_ops _ fuel2 ops2 _ H1) as [_ (A & Bq & D)]. fold r s2 in A, Bq, D. split; auto.
Qed.

(* in EVERY trace of the bag semantics: a periodic event registered with count n (registration number = b_nreg of the
   abstract state at that moment) is invoked at most cap n times, and a pending bag entry holding it carries the
   remaining count c with invocations + cap c = cap n *)
Lemma bag_periodic_count_trace ops1 ops2 tag ar body p nm nowf av n b1 b' :
  btrace ops1 b0 b1 -> btrace (OAct (APer tag ar body p nm nowf av (Some n)) :: ops2) b1 b' ->
  let r := b_nreg b1 in
  bnc r b' <= cap n /\
  forall x, In x (b_pend b') -> reg_of (snd x) = r ->
    exists u p' nm' av' c, snd x = Wrap u p' nm' av' (Some c) /\ bnc r b' + cap c = cap n.
Proof.
  intros T1 T2 r.
  destruct (bag_complete ops1 b1 T1) as (f1 & o1 & F1 & E1).
  set (s1 := reach f1 o1 ops1) in *.
  assert (I1 : INV s1) by apply reach_inv.
  rewrite <- E1 in T2.
  destruct (ops_complete _ s1 b' I1 F1 T2) as (o & fuel & R1 & R2).
  assert (Rs : Rinv (set_oracle o s1)) by apply (Rinv_reach f1 o1 ops1).
  destruct (periodic_count_gen (set_oracle o s1) tag ar body p nm nowf av n fuel ops2 Rs) as [A Bq].
  set (s2 := run_ops fuel ops2 (fst (exec (APer tag ar body p nm nowf av (Some n)) (set_oracle o s1)))) in *.
  change (absb s2 = b') in R1.
  assert (Er : r = nreg (set_oracle o s1)) by (unfold r; rewrite <- E1; reflexivity).
  rewrite Er. subst b'. split; [exact A|].
  intros x Hx Hr. apply (Bq (e_name (fst x)) (snd x)); auto. apply pend_in_events; auto.
  unfold s2. apply run_ops_inv. apply exec_inv. apply INV_oracle. exact I1.
Qed.
