(* C18/Bag.v — the abstract bag semantics of the scheduler, for the WHOLE action language (one-shot and periodic
   events, bodies that add / remove / reschedule events re-entrantly, raise, or take time), and the proof that the
   model of schedule.py (Model.v) refines it, by induction over event bodies, over the run loop and over histories.

   Abstract state: ONE bag of pending entries, each carrying the function registered under its name (the code keeps a
   heap and a dict); a clock; the counters; the invocation log; the list of executed entries.  No heap, no dict, no
   tie-break oracle, no loop bound.  run() is a small-step relation: while some pending entry is due, take ONE of the
   entries of minimal due time (any of them: heapq is not stable), drop it from the bag, call its function -- whose
   body is interpreted as abstract operations on the same bag, and whose exception is discarded -- and continue with
   the bag and the clock as they are then.  A periodic wrapper calls f and then (count permitting) inserts its
   successor at clock+period with count-1. *)
From Coq Require Import List NArith ZArith Bool Lia ZifyBool Permutation.
Import ListNotations.
Require Import Base.Wire Base.PyStr C18.Model C18.Aux C18.Lemmas C18.Theorems C18.Periodic C18.Trace.
Require gen.T18.
Open Scope Z_scope.

Definition bent : Type := (entry * fn)%type.

Record bstate := B {
  b_pend : list bent;         (* pending entries with their functions, as a bag *)
  b_clock : Z;
  b_counter : N;              (* next automatic name *)
  b_nreg : N;                 (* next registration number *)
  b_nsched : N;               (* next scheduling number *)
  b_calls : list callrec;     (* invocation log, newest first *)
  b_done : list entry }.      (* executed entries, newest first *)

Definition b0 : bstate := B [] 0 0%N 0%N 0%N [] [].

Definition set_pend p b := B p (b_clock b) (b_counter b) (b_nreg b) (b_nsched b) (b_calls b) (b_done b).
Definition bnamed (n : name) (x : bent) : bool := named n (fst x).

(* addEvent: refused when the name is pending *)
Definition b_add (f : fn) (t : Z) (nm : option name) (av g : argv) (b : bstate) : bstate * res name :=
  let '(n, b1) := match nm with
                  | None => (Auto (b_counter b), B (b_pend b) (b_clock b) (b_counter b + 1)%N (b_nreg b) (b_nsched b) (b_calls b) (b_done b))
                  | Some n => (n, b)
                  end in
  if existsb (bnamed n) (b_pend b1) then (b1, Raise AssertionError)
  else (B ((Ent t n av (b_nsched b1) g, f) :: b_pend b1) (b_clock b1) (b_counter b1) (b_nreg b1) (b_nsched b1 + 1)%N
          (b_calls b1) (b_done b1), Ok n).

(* removeEvent: the entry of that name leaves the bag *)
Definition b_remove (n : name) (b : bstate) : bstate * res fn :=
  match filter (bnamed n) (b_pend b) with
  | [] => (b, Raise KeyError)
  | x :: _ => (set_pend (filter (fun y => negb (bnamed n y)) (b_pend b)) b, Ok (snd x))
  end.

(* rescheduleEvent: same name, function and arguments, new time *)
Definition b_resched (n : name) (t : Z) (b : bstate) : bstate * res unit :=
  let '(av, g) := lookup_args n (map fst (b_pend b)) in
  match b_remove n b with
  | (b1, Raise e) => (b1, Raise e)
  | (b1, Ok f) =>
      match b_add f t (Some n) av g b1 with
      | (b3, Ok _) => (b3, Ok tt)
      | (b3, Raise e) => (b3, Raise e)
      end
  end.

Definition b_log c b := B (b_pend b) (b_clock b) (b_counter b) (b_nreg b) (b_nsched b) (c :: b_calls b) (b_done b).
Definition b_bump_reg b := B (b_pend b) (b_clock b) (b_counter b) (b_nreg b + 1)%N (b_nsched b) (b_calls b) (b_done b).
Definition b_tick d b := B (b_pend b) (b_clock b + Z.of_N d) (b_counter b) (b_nreg b) (b_nsched b) (b_calls b) (b_done b).

Definition b_call_user (rb : bstate -> bstate * res unit) (u : ufn) (av : argv) (b : bstate) : bstate * res unit :=
  let b1 := b_log (CallRec (b_clock b) (u_reg u) av) b in
  if arity_ok (u_ar u) av then rb b1 else (b1, Raise TypeError).

(* the periodic wrapper: call f; then, count permitting, insert the successor at clock+period with count-1 *)
Definition b_wrapper (rb : bstate -> bstate * res unit) (u : ufn) (period : Z) (nm : option N) (av : argv)
           (count : option Z) (b : bstate) : bstate * res unit :=
  let '(b1, r) := b_call_user rb u av b in
  let c' := recur count in
  if recurs c' then
    match b_add (Wrap u period nm av c') (b_clock b1 + period) (option_map Named nm) noargs noargs b1 with
    | (b2, Ok _) => (b2, if gen.T18.WRAPPER_RETURNS_IN_FINALLY then Ok tt else r)
    | (b2, Raise e) => (b2, Raise e)
    end
  else (b1, r).

(* event bodies as abstract operations *)
Fixpoint bexec (a : act) (b : bstate) : bstate * res unit :=
  match a with
  | ANop => (b, Ok tt)
  | ARaise => (b, Raise OtherError)
  | ATick d => (b_tick d b, Ok tt)
  | AAdd tag ar body dt nm av =>
      let u := UF (b_nreg b) tag ar body in
      let '(b2, r) := b_add (Plain u) (b_clock b + dt) (option_map Named nm) av av (b_bump_reg b) in (b2, discard r)
  | APer tag ar body period nm nowf av count =>
      let u := UF (b_nreg b) tag ar body in
      if nowf then b_wrapper (bexec body) u period nm av count (b_bump_reg b)
      else let '(b2, r) := b_add (Wrap u period nm av count) (b_clock b + period) (option_map Named nm) noargs noargs (b_bump_reg b) in
           (b2, discard r)
  | ARemove n => let '(b1, r) := b_remove n b in (b1, discard r)
  | AResched n dt => b_resched n (b_clock b + dt) b
  | ASeq a1 a2 =>
      match bexec a1 b with
      | (b1, Ok _) => bexec a2 b1
      | (b1, Raise e) => (b1, Raise e)
      end
  | ATry a1 => (fst (bexec a1 b), Ok tt)
  end.

Definition b_call (f : fn) (av : argv) (b : bstate) : bstate * res unit :=
  match f with
  | Plain u => b_call_user (bexec (u_body u)) u av b
  | Wrap u period nm uav count =>
      if argv_empty av then b_wrapper (bexec (u_body u)) u period nm uav count b else (b, Raise TypeError)
  end.

(* one iteration of run(): entry x leaves the bag, is recorded as executed, its function is called; exception discarded *)
Definition b_fire (x : bent) (b : bstate) : bstate :=
  fst (b_call (snd x) (e_args (fst x))
         (B (filter (fun y => negb (N.eqb (e_sid (fst y)) (e_sid (fst x)))) (b_pend b))
            (b_clock b) (b_counter b) (b_nreg b) (b_nsched b) (b_calls b) (fst x :: b_done b))).

Inductive brun : bstate -> bstate -> Prop :=
| brun_stop b :
    (forall x, In x (b_pend b) -> b_clock b <= e_t (fst x)) -> brun b b
| brun_fire b x b' :
    In x (b_pend b) ->
    (forall y, In y (b_pend b) -> e_t (fst x) <= e_t (fst y)) ->     (* earliest *)
    e_t (fst x) < b_clock b ->                                       (* due *)
    brun (b_fire x b) b' -> brun b b'.

Definition bstep (o : op) (b b' : bstate) : Prop :=
  match o with
  | OAct a => b' = fst (bexec a b)
  | ORun => brun b b'
  | OAdvance d => b' = b_tick d b
  end.

Fixpoint btrace (ops : list op) (b b' : bstate) : Prop :=
  match ops with
  | [] => b' = b
  | o :: ops' => exists b1, bstep o b b1 /\ btrace ops' b1 b'
  end.

(* =====================  abstraction function  ===================== *)
Fixpoint lookup (n : name) (ev : list (name * fn)) : option fn :=
  match ev with [] => None | (k, f) :: ev' => if name_eqb k n then Some f else lookup n ev' end.
Definition dfn : fn := Plain (UF 0 0 None ANop).
Definition pair_fn (ev : list (name * fn)) (e : entry) : bent :=
  (e, match lookup (e_name e) ev with Some f => f | None => dfn end).

Definition absb (s : state) : bstate :=
  B (map (pair_fn (events s)) (heap s)) (now s) (counter s) (nreg s) (nsched s) (calls s) (map p_e (pops s)).

Lemma take_key_lookup n ev f ev' :
  take_key n ev = Some (f, ev') -> lookup n ev = Some f /\ forall m, m <> n -> lookup m ev' = lookup m ev.
Proof.
  revert f ev'. induction ev as [|[k g] ev IH]; simpl; intros f ev' H; [discriminate|].
  destruct (name_eqb k n) eqn:E.
  - inversion H; subst. split; auto. intros m Hm. apply name_eqb_eq in E. subst k.
    destruct (name_eqb n m) eqn:E2; auto. apply name_eqb_eq in E2. congruence.
  - destruct (take_key n ev) as [[g' r]|]; [|discriminate]. inversion H; subst.
    destruct (IH _ _ eq_refl) as [A Bq]. split; auto. intros m Hm. simpl. rewrite (Bq m Hm). reflexivity.
Qed.

Lemma existsb_pair n ev h : existsb (bnamed n) (map (pair_fn ev) h) = existsb (named n) h.
Proof. induction h as [|e h IH]; simpl; auto. rewrite IH. reflexivity. Qed.

Lemma filter_pair (p : entry -> bool) ev h :
  filter (fun y => p (fst y)) (map (pair_fn ev) h) = map (pair_fn ev) (filter p h).
Proof. induction h as [|e h IH]; simpl; auto. destruct (p e); simpl; rewrite IH; reflexivity. Qed.

Lemma map_fst_pair ev h : map fst (map (pair_fn ev) h) = h.
Proof. induction h as [|e h IH]; simpl; auto. rewrite IH. reflexivity. Qed.

Lemma pair_fn_ext ev ev' (h : list entry) :
  (forall e, In e h -> lookup (e_name e) ev' = lookup (e_name e) ev) -> map (pair_fn ev') h = map (pair_fn ev) h.
Proof. intros H. apply map_ext_in. intros e He. unfold pair_fn. rewrite (H e He). reflexivity. Qed.

(* =====================  simulation of the primitives  ===================== *)
Definition sim {A} (rm : state -> state * res A) (rbb : bstate -> bstate * res A) : Prop :=
  forall s, INV s -> absb (fst (rm s)) = fst (rbb (absb s)) /\ snd (rm s) = snd (rbb (absb s)).

Lemma sim_addEvent f t nm av g : sim (addEvent f t nm av g) (b_add f t nm av g).
Proof.
  intros s I. unfold addEvent, b_add.
  assert (K : forall n s1, INV s1 -> has_key n (events s1) = false ->
              absb (push f t n av g s1) =
              B ((Ent t n av (nsched s1) g, f) :: b_pend (absb s1)) (now s1) (counter s1) (nreg s1) (nsched s1 + 1)%N (calls s1) (map p_e (pops s1))).
  { intros n s1 I1 Hk. unfold absb. simpl. f_equal. f_equal.
    - unfold pair_fn. simpl. assert (name_eqb n n = true) by (apply name_eqb_eq; auto). rewrite H. reflexivity.
    - apply pair_fn_ext. intros e He. simpl. destruct (name_eqb n (e_name e)) eqn:E; auto.
      apply name_eqb_eq in E. exfalso. apply has_key_false in Hk. apply Hk.
      eapply Permutation_in; [apply (i_names _ I1)|]. rewrite E. apply in_map. exact He. }
  destruct nm as [n|].
  - simpl. rewrite existsb_pair, <- (has_key_heap _ _ I).
    destruct (has_key n (events s)) eqn:Hk; simpl; auto. split; auto. apply K; auto.
  - pose proof (bump_counter_inv s I) as I1.
    change (b_pend (B (b_pend (absb s)) (b_clock (absb s)) (b_counter (absb s) + 1)%N (b_nreg (absb s)) (b_nsched (absb s)) (b_calls (absb s)) (b_done (absb s))))
      with (b_pend (absb (bump_counter s))).
    simpl b_pend. rewrite existsb_pair. change (heap s) with (heap (bump_counter s)). rewrite <- (has_key_heap _ _ I1).
    change (b_counter (absb s)) with (counter s).
    destruct (has_key (Auto (counter s)) (events (bump_counter s))) eqn:Hk; simpl; auto. split; auto.
    apply (K (Auto (counter s)) (bump_counter s) I1 Hk).
Qed.

Lemma sim_removeEvent n : sim (removeEvent n) (b_remove n).
Proof.
  intros s I. unfold removeEvent, b_remove.
  assert (FP : filter (bnamed n) (b_pend (absb s)) = map (pair_fn (events s)) (filter (named n) (heap s))).
  { simpl. apply (filter_pair (named n)). }
  rewrite FP.
  destruct (take_key n (events s)) as [[f ev']|] eqn:T.
  - destruct (filter_named_cons _ _ _ _ I T) as [e [l F]]. rewrite F. simpl.
    assert (He : In e (filter (named n) (heap s))) by (rewrite F; left; auto).
    apply filter_In in He. destruct He as [_ Hn]. apply name_eqb_eq in Hn.
    destruct (take_key_lookup _ _ _ _ T) as [L1 L2]. rewrite Hn, L1. split; auto.
    unfold absb, set_pend. simpl. f_equal.
    rewrite (filter_pair (fun y => negb (named n y))).
    apply pair_fn_ext. intros y Hy. apply filter_In in Hy. destruct Hy as [_ Hy].
    apply L2. intro X. unfold named in Hy. rewrite X in Hy.
    assert (name_eqb n n = true) by (apply name_eqb_eq; auto). rewrite H in Hy. discriminate.
  - rewrite (filter_named_nil _ _ I T). simpl. auto.
Qed.

Lemma sim_reschedule n t : sim (reschedule n t) (b_resched n t).
Proof.
  intros s I. unfold reschedule, b_resched.
  assert (E : map fst (b_pend (absb s)) = heap s) by (simpl; apply map_fst_pair). rewrite E.
  destruct (lookup_args n (heap s)) as [av g].
  destruct (sim_removeEvent n s I) as [A Bq]. pose proof (removeEvent_inv n s I) as I1.
  destruct (removeEvent n s) as [s1 [f|e]]; destruct (b_remove n (absb s)) as [b1 [f'|e']]; simpl in *; try discriminate.
  - inversion Bq; subst f'. subst b1.
    destruct (sim_addEvent f t (Some n) av g s1 I1) as [A2 B2].
    destruct (addEvent f t (Some n) av g s1) as [s3 [x|e]]; destruct (b_add f t (Some n) av g (absb s1)) as [b3 [x'|e']];
      simpl in *; try discriminate; subst; try (inversion B2; subst); auto.
  - subst. inversion Bq; subst. auto.
Qed.

Definition simu (rm : state -> state * res unit) (rbb : bstate -> bstate * res unit) : Prop := sim rm rbb.

Lemma sim_call_user rb brb u av : simu rb brb -> simu (call_user rb u av) (b_call_user brb u av).
Proof.
  intros H s I. unfold call_user, b_call_user.
  change (b_log (CallRec (b_clock (absb s)) (u_reg u) av) (absb s)) with (absb (log_call (CallRec (now s) (u_reg u) av) s)).
  destruct (arity_ok (u_ar u) av); simpl; auto. apply H. apply log_call_inv; auto.
Qed.

Lemma sim_wrapper rb brb u p nm av cnt :
  simu rb brb -> preserves rb -> simu (wrapper_call rb u p nm av cnt) (b_wrapper brb u p nm av cnt).
Proof.
  intros H P s I. unfold wrapper_call, b_wrapper.
  destruct (sim_call_user rb brb u av H s I) as [A Bq]. pose proof (call_user_inv rb u av s P I) as I1.
  destruct (call_user rb u av s) as [s1 r]; destruct (b_call_user brb u av (absb s)) as [b1 r']; simpl in *. subst b1 r'.
  destruct (recurs (recur cnt)); simpl; auto.
  destruct (sim_addEvent (Wrap u p nm av (recur cnt)) (now s1 + p) (option_map Named nm) noargs noargs s1 I1) as [A2 B2].
  change (b_clock (absb s1)) with (now s1).
  destruct (addEvent _ _ _ _ _ s1) as [s2 [x|e]]; destruct (b_add _ _ _ _ _ (absb s1)) as [b2 [x'|e']];
    simpl in *; try discriminate; subst; try (inversion B2; subst); auto.
Qed.

Lemma sim_exec a : simu (exec a) (bexec a).
Proof.
  induction a; intros s I; simpl; auto.
  - (* AAdd *)
    change (b_bump_reg (absb s)) with (absb (bump_reg s)). change (b_nreg (absb s)) with (nreg s). change (b_clock (absb s)) with (now s).
    destruct (sim_addEvent (Plain (UF (nreg s) tag ar a)) (now s + dt) (option_map Named nm) av av (bump_reg s) (bump_reg_inv s I)) as [A Bq].
    destruct (addEvent _ _ _ _ _ (bump_reg s)) as [s2 r]; destruct (b_add _ _ _ _ _ (absb (bump_reg s))) as [b2 r']; simpl in *. subst. auto.
  - (* APer *)
    change (b_bump_reg (absb s)) with (absb (bump_reg s)). change (b_nreg (absb s)) with (nreg s). change (b_clock (absb s)) with (now s).
    destruct nowf.
    + apply sim_wrapper; auto. apply exec_inv. apply bump_reg_inv; auto.
    + destruct (sim_addEvent (Wrap (UF (nreg s) tag ar a) period nm av count) (now s + period) (option_map Named nm) noargs noargs
                  (bump_reg s) (bump_reg_inv s I)) as [A Bq].
      destruct (addEvent _ _ _ _ _ (bump_reg s)) as [s2 r]; destruct (b_add _ _ _ _ _ (absb (bump_reg s))) as [b2 r']; simpl in *. subst. auto.
  - (* ARemove *)
    destruct (sim_removeEvent n s I) as [A Bq].
    destruct (removeEvent n s) as [s1 r]; destruct (b_remove n (absb s)) as [b1 r']; simpl in *. subst. auto.
  - (* AResched *) change (b_clock (absb s)) with (now s). apply sim_reschedule; auto.
  - (* ASeq *)
    destruct (IHa1 s I) as [A Bq]. pose proof (exec_inv a1 s I) as I1.
    destruct (exec a1 s) as [s1 [x|e]]; destruct (bexec a1 (absb s)) as [b1 [x'|e']]; simpl in *; try discriminate; subst; auto.
  - (* ATry *) destruct (IHa s I) as [A _]. rewrite A. auto.
Qed.

Lemma sim_call_fn f av : simu (call_fn f av) (b_call f av).
Proof.
  destruct f as [u|u p nm uav cnt]; simpl.
  - apply sim_call_user. apply sim_exec.
  - intros s I. unfold call_fn, b_call. destruct (argv_empty av); [|simpl; auto].
    apply (sim_wrapper (exec (u_body u)) (bexec (u_body u)) u p nm uav cnt (sim_exec (u_body u)) (exec_inv (u_body u)) s I).
Qed.

(* =====================  run()  ===================== *)
Lemma filter_sid_out (h : list entry) i : ~ In i (map e_sid h) -> filter (fun y => negb (N.eqb (e_sid y) i)) h = h.
Proof.
  induction h as [|x h IH]; simpl; auto. intros H.
  destruct (N.eqb (e_sid x) i) eqn:E; simpl.
  - apply N.eqb_eq in E. exfalso. apply H. auto.
  - f_equal. apply IH. tauto.
Qed.

Lemma take_first_filter p h e r :
  take_first p h = Some (e, r) -> NoDup (map e_sid h) -> r = filter (fun y => negb (N.eqb (e_sid y) (e_sid e))) h.
Proof.
  revert e r. induction h as [|x h IH]; simpl; intros e r H ND; [discriminate|]. inversion ND; subst.
  destruct (p x) eqn:E.
  - inversion H; subst. rewrite N.eqb_refl. simpl. symmetry. apply filter_sid_out; auto.
  - destruct (take_first p h) as [[y r']|] eqn:T; [|discriminate]. inversion H; subst.
    destruct (take_first_some _ _ _ _ T) as [_ P].
    assert (Hin : In (e_sid e) (map e_sid h)) by (apply in_map; eapply Permutation_in; [apply Permutation_sym; exact P|left; auto]).
    destruct (N.eqb (e_sid x) (e_sid e)) eqn:E2; simpl.
    + apply N.eqb_eq in E2. exfalso. apply H2. rewrite E2. exact Hin.
    + f_equal. apply IH; auto.
Qed.

Lemma pop_min_filter o h e r o' bad :
  pop_min o h = Some (e, r, o', bad) -> NoDup (map e_sid h) -> r = filter (fun y => negb (N.eqb (e_sid y) (e_sid e))) h.
Proof.
  unfold pop_min. intros H ND. destruct o as [|n o].
  - destruct (take_first (is_min h) h) as [[x y]|] eqn:E; [|discriminate]. inversion H; subst. eapply take_first_filter; eauto.
  - destruct (take_first (fun e0 => named n e0 && is_min h e0) h) as [[x y]|] eqn:E.
    + inversion H; subst. eapply take_first_filter; eauto.
    + destruct (take_first (is_min h) h) as [[x y]|] eqn:E2; [|discriminate]. inversion H; subst. eapply take_first_filter; eauto.
Qed.

Lemma heap_sids_nodup s : INV s -> NoDup (map e_sid (heap s)).
Proof. intros I. pose proof (i_sids _ I) as ND. unfold all_sids in ND. apply NoDup_app_inv in ND. apply ND. Qed.

(* one iteration of the loop is one abstract firing *)
Lemma fire_refines s e r o bad f ev' :
  INV s -> pop_min (oracle s) (heap s) = Some (e, r, o, bad) -> due (e_t e) (now s) = true ->
  take_key (e_name e) (events s) = Some (f, ev') ->
  In (pair_fn (events s) e) (b_pend (absb s)) /\
  b_fire (pair_fn (events s) e) (absb s) = absb (fst (call_fn f (e_args e) (popped e r o bad ev' s))).
Proof.
  intros I PM D T. destruct (pop_min_some _ _ _ _ _ _ PM) as [Hmin Hperm].
  assert (Hin : In e (heap s)) by (eapply Permutation_in; [apply Permutation_sym; exact Hperm|left; auto]).
  split; [simpl; apply in_map; exact Hin|].
  destruct (take_key_lookup _ _ _ _ T) as [L1 L2].
  pose proof (popped_inv _ _ _ _ _ _ _ I PM D T) as I1.
  destruct (sim_call_fn f (e_args e) _ I1) as [A _]. rewrite A. unfold b_fire.
  assert (Ex : pair_fn (events s) e = (e, f)) by (unfold pair_fn; rewrite L1; reflexivity). rewrite Ex. simpl fst. simpl snd.
  f_equal. f_equal. unfold absb. simpl. f_equal.
  rewrite (filter_pair (fun y => negb (N.eqb (e_sid y) (e_sid e)))).
  rewrite <- (pop_min_filter _ _ _ _ _ _ PM (heap_sids_nodup s I)).
  symmetry. apply pair_fn_ext. intros y Hy. apply L2. intro X.
  assert (ND : NoDup (map e_name (heap s))) by (eapply Permutation_NoDup; [apply Permutation_sym; apply (i_names _ I)|apply (i_keys _ I)]).
  rewrite (Permutation_map e_name Hperm) in ND. simpl in ND. inversion ND; subst. apply H1. rewrite <- X. apply in_map. exact Hy.
Qed.

Lemma run_refines fuel : forall s, INV s ->
  fuelout (fst (run_loop fuel s)) = false -> brun (absb s) (absb (fst (run_loop fuel s))).
Proof.
  induction fuel as [|k IH]; intros s I; simpl.
  - discriminate.
  - destruct (pop_min (oracle s) (heap s)) as [[[[e r] o] bad]|] eqn:PM.
    2:{ simpl. intros _. apply pop_min_none in PM. apply brun_stop. simpl. rewrite PM. intros x []. }
    destruct (pop_min_some _ _ _ _ _ _ PM) as [Hmin Hperm]. rewrite is_min_spec in Hmin.
    destruct (due (e_t e) (now s)) eqn:D.
    2:{ simpl. intros _. apply brun_stop. simpl. intros x Hx. apply in_map_iff in Hx. destruct Hx as [y [<- Hy]]. simpl.
        apply due_false in D; auto using table_strict. specialize (Hmin _ Hy). lia. }
    destruct (take_key (e_name e) (events s)) as [[f ev']|] eqn:T.
    2:{ exfalso. apply take_key_none in T. apply T.
        eapply Permutation_in; [exact (i_names _ I)|]. apply in_map.
        eapply Permutation_in; [apply Permutation_sym; exact Hperm|left; auto]. }
    destruct (fire_refines s e r o bad f ev' I PM D T) as [Hin Hf].
    pose proof (call_fn_inv f (e_args e) _ (popped_inv _ _ _ _ _ _ _ I PM D T)) as I2.
    destruct (call_fn f (e_args e) (popped e r o bad ev' s)) as [s1 x]. rewrite ?after_call_never. simpl in *.
    intros F. eapply brun_fire; [exact Hin| | |rewrite Hf; apply IH; auto].
    + intros y Hy. apply in_map_iff in Hy. destruct Hy as [z [<- Hz]]. simpl. apply Hmin; auto.
    + simpl. apply due_lt; auto using table_strict.
Qed.

(* ---- the fuel flag is never reset ---- *)
Definition keepsf (rb : state -> state * res unit) : Prop := forall s, fuelout (fst (rb s)) = fuelout s.

Lemma reschedule_fuelout n t s : fuelout (fst (reschedule n t s)) = fuelout s.
Proof.
  unfold reschedule. destruct (lookup_args n (heap s)) as [av g].
  destruct (removeEvent_frame n s) as (_ & _ & F & _).
  destruct (removeEvent n s) as [s1 [f|e]]; simpl in *; auto.
  destruct (addEvent_frame f t (Some n) av g s1) as (_ & _ & F2 & _).
  destruct (addEvent f t (Some n) av g s1) as [s3 [x|e]]; simpl in *; congruence.
Qed.

Lemma call_user_fuelout rb u av : keepsf rb -> keepsf (call_user rb u av).
Proof. intros H s. unfold call_user. destruct (arity_ok (u_ar u) av); simpl; auto. rewrite H. reflexivity. Qed.

Lemma wrapper_fuelout rb u p nm av cnt : keepsf rb -> keepsf (wrapper_call rb u p nm av cnt).
Proof.
  intros H s. unfold wrapper_call. pose proof (call_user_fuelout rb u av H s) as F1.
  destruct (call_user rb u av s) as [s1 r]. simpl in F1. destruct (recurs (recur cnt)); simpl; auto.
  destruct (addEvent_frame (Wrap u p nm av (recur cnt)) (now s1 + p) (option_map Named nm) noargs noargs s1) as (_ & _ & F2 & _).
  destruct (addEvent _ _ _ _ _ s1) as [s2 [x|e]]; simpl in *; congruence.
Qed.

Lemma exec_fuelout a : keepsf (exec a).
Proof.
  induction a; intros s; simpl; auto.
  - destruct (addEvent_frame (Plain (UF (nreg s) tag ar a)) (now s + dt) (option_map Named nm) av av (bump_reg s)) as (_ & _ & F & _).
    destruct (addEvent _ _ _ _ _ (bump_reg s)) as [s2 r]. simpl in *. exact F.
  - destruct nowf.
    + rewrite (wrapper_fuelout (exec a) _ period nm av count IHa). reflexivity.
    + destruct (addEvent_frame (Wrap (UF (nreg s) tag ar a) period nm av count) (now s + period) (option_map Named nm) noargs noargs (bump_reg s)) as (_ & _ & F & _).
      destruct (addEvent _ _ _ _ _ (bump_reg s)) as [s2 r]. simpl in *. exact F.
  - destruct (removeEvent_frame n s) as (_ & _ & F & _). destruct (removeEvent n s) as [s1 r]. exact F.
  - apply reschedule_fuelout.
  - specialize (IHa1 s). destruct (exec a1 s) as [s1 [x|e]]; simpl in *; auto. rewrite IHa2. exact IHa1.
Qed.

Lemma call_fn_fuelout f av : keepsf (call_fn f av).
Proof.
  destruct f as [u|u p nm uav cnt]; intros s; simpl.
  - apply call_user_fuelout. apply exec_fuelout.
  - destruct (argv_empty av); simpl; auto. apply wrapper_fuelout. apply exec_fuelout.
Qed.

Lemma run_loop_sticky fuel : forall s, fuelout s = true -> fuelout (fst (run_loop fuel s)) = true.
Proof.
  induction fuel as [|k IH]; intros s F; simpl; auto.
  destruct (pop_min (oracle s) (heap s)) as [[[[e r] o] bad]|]; auto.
  destruct (due (e_t e) (now s)); auto.
  destruct (take_key (e_name e) (events s)) as [[f ev']|]; auto.
  pose proof (call_fn_fuelout f (e_args e) (popped e r o bad ev' s)) as F2.
  destruct (call_fn f (e_args e) (popped e r o bad ev' s)) as [s1 x]. rewrite ?after_call_never. simpl in *. apply IH. congruence.
Qed.

Lemma run_ops_sticky fuel ops : forall s, fuelout s = true -> fuelout (run_ops fuel ops s) = true.
Proof.
  induction ops as [|o ops IH]; intros s F; simpl; auto. apply IH. destruct o; simpl; auto.
  - rewrite exec_fuelout. exact F.
  - apply run_loop_sticky; auto.
Qed.

(* =====================  histories  ===================== *)
Lemma step_refines fuel o s : INV s -> fuelout (fst (step fuel o s)) = false -> bstep o (absb s) (absb (fst (step fuel o s))).
Proof.
  intros I F. destruct o as [a| |d]; simpl in *.
  - apply (sim_exec a s I).
  - apply run_refines; auto.
  - reflexivity.
Qed.

Lemma ops_refine fuel ops : forall s, INV s -> fuelout (run_ops fuel ops s) = false ->
  btrace ops (absb s) (absb (run_ops fuel ops s)).
Proof.
  induction ops as [|o ops IH]; intros s I F; simpl in *; auto.
  assert (F1 : fuelout (fst (step fuel o s)) = false).
  { destruct (fuelout (fst (step fuel o s))) eqn:X; auto. rewrite (run_ops_sticky fuel ops _ X) in F. discriminate. }
  exists (absb (fst (step fuel o s))). split; [apply step_refines; auto|apply IH; auto; apply step_inv; auto].
Qed.

(* every history whose run() loops ended by themselves refines the bag semantics; in particular the invocation log
   (b_calls) and the executed list (b_done) are those of the abstract machine *)
Lemma bag_refines fuel o ops :
  fuelout (reach fuel o ops) = false -> btrace ops b0 (absb (reach fuel o ops)).
Proof. intros F. apply (ops_refine fuel ops (init o) (init_inv o) F). Qed.

(* =====================  facts about the specification itself  ===================== *)
(* a completed abstract run leaves nothing due *)
Lemma brun_drains b b' : brun b b' -> forall x, In x (b_pend b') -> b_clock b' <= e_t (fst x).
Proof. induction 1; auto. Qed.

(* =====================  the periodic count law, at trace level  ===================== *)
Definition bnc (r : N) (b : bstate) : Z := Z.of_nat (count_occ N.eq_dec (map c_reg (b_calls b)) r).

Lemma lookup_in n ev f : lookup n ev = Some f -> In (n, f) ev.
Proof.
  induction ev as [|[k g] ev IH]; simpl; [discriminate|]. destruct (name_eqb k n) eqn:E.
  - apply name_eqb_eq in E. intros H. inversion H; subst. auto.
  - auto.
Qed.

Lemma has_key_lookup n ev : has_key n ev = true -> exists f, lookup n ev = Some f.
Proof.
  induction ev as [|[k g] ev IH]; simpl; [discriminate|]. destruct (name_eqb k n); simpl; eauto.
Qed.

(* the function attached to a pending abstract entry is the one self.events holds under that name *)
Lemma pend_in_events s x : INV s -> In x (b_pend (absb s)) -> In (e_name (fst x), snd x) (events s).
Proof.
  intros I H. simpl in H. apply in_map_iff in H. destruct H as [e [<- He]]. unfold pair_fn. simpl.
  assert (K : has_key (e_name e) (events s) = true).
  { apply has_key_In. eapply Permutation_in; [apply (i_names _ I)|]. apply in_map. exact He. }
  destruct (has_key_lookup _ _ K) as [f L]. rewrite L. apply lookup_in. exact L.
Qed.

Lemma bag_periodic_count fuel o ops tag ar body p nm nowf av n fuel2 ops2 :
  let s := reach fuel o ops in
  let r := nreg s in
  let b2 := absb (run_ops fuel2 ops2 (fst (exec (APer tag ar body p nm nowf av (Some n)) s))) in
  bnc r b2 <= cap n /\
  forall x, In x (b_pend b2) -> reg_of (snd x) = r ->
    exists u p' nm' av' c, snd x = Wrap u p' nm' av' (Some c) /\ bnc r b2 + cap c = cap n.
Proof.
  intros s r b2. destruct (periodic_count fuel o ops tag ar body p nm nowf av n fuel2 ops2) as [A Bq].
  fold s r in A, Bq. split; [exact A|]. intros x Hx Hr.
  apply (Bq (e_name (fst x)) (snd x)); auto. apply pend_in_events; auto.
  apply run_ops_inv. apply exec_inv. apply reach_inv.
Qed.

(* =====================  non-vacuity  ===================== *)
(* a periodic event with count 3 (raising callback, args [5]) among two one-shots, one of which is removed *)
Definition ex_mixed : list op :=
  [OAct (AAdd 1 None ANop 4 (Some 1%N) ([1%N], []));
   OAct (APer 2 (Some 1%N) ARaise 2 (Some 0%N) false ([5%N], []) (Some 3));
   OAct (AAdd 3 None ANop 5 (Some 2%N) noargs);
   OAct (ARemove (Named 2));
   OAdvance 3; ORun; OAdvance 3; ORun; OAdvance 3; ORun; OAdvance 3; ORun].
Example ex_mixed_ok :
  let s := reach 9 [] ex_mixed in
  fuelout s = false /\
  map (fun c => (c_clock c, c_reg c, c_args c)) (calls s)
    = [(9, 1%N, ([5%N], [])); (6, 1%N, ([5%N], [])); (6, 0%N, ([1%N], [])); (3, 1%N, ([5%N], []))] /\
  map e_t (b_done (absb s)) = [8; 5; 4; 2] /\ b_pend (absb s) = [].
Proof. vm_compute. repeat split. Qed.
Example ex_mixed_refines : btrace ex_mixed b0 (absb (reach 9 [] ex_mixed)).
Proof. apply bag_refines. vm_compute. reflexivity. Qed.

(* a callback reschedules a later event (due in 50) to BEFORE the current time: the loop re-reads the schedule, so that
   event fires in the same run(), with its arguments; a callback that adds an event in the past likewise *)
Definition ex_pull : list op :=
  [OAct (AAdd 1 None (AResched (Named 1) (-5)) 1 (Some 0%N) noargs);
   OAct (AAdd 2 None (AAdd 3 None ANop (-1) (Some 2%N) ([8%N], [])) 50 (Some 1%N) ([9%N], []));
   OAdvance 2; ORun].
Example ex_pull_same_run :
  let s := reach 9 [] ex_pull in
  fuelout s = false /\
  map (fun c => (c_clock c, c_reg c, c_args c)) (calls s) = [(2, 2%N, ([8%N], [])); (2, 1%N, ([9%N], [])); (2, 0%N, noargs)] /\
  map (fun e => (e_t e, e_sid e)) (b_done (absb s)) = [(1, 3%N); (-3, 2%N); (1, 0%N)] /\ b_pend (absb s) = [].
Proof. vm_compute. repeat split. Qed.
Example ex_pull_refines : btrace ex_pull b0 (absb (reach 9 [] ex_pull)).
Proof. apply bag_refines. vm_compute. reflexivity. Qed.

(* the specification by itself: two entries due, the earlier fires first, then the other, then nothing is due *)
Definition bx (t : Z) (k sid : N) : bent := (Ent t (Named k) noargs sid noargs, Plain (UF sid 0 None ANop)).
Example brun_two :
  brun (B [bx 2 0 0; bx 1 1 1] 5 0%N 2%N 2%N [] [])
       (B [] 5 0%N 2%N 2%N [CallRec 5 0 noargs; CallRec 5 1 noargs] [fst (bx 2 0 0); fst (bx 1 1 1)]).
Proof.
  eapply brun_fire with (x := bx 1 1 1); [right; left; reflexivity| | |].
  - intros y [<-|[<-|[]]]; simpl; lia.
  - simpl; lia.
  - eapply brun_fire with (x := bx 2 0 0); [left; reflexivity| | |].
    + intros y [<-|[]]; simpl; lia.
    + simpl; lia.
    + apply brun_stop. intros x [].
Qed.
