(* C18/Theorems.v — the property clauses, derived from the invariant (Lemmas.v). *)
From Coq Require Import List NArith ZArith Bool Lia ZifyBool Permutation.
Import ListNotations.
Require Import Base.Wire Base.PyStr C18.Model C18.Aux C18.Lemmas.
Require gen.T18.

(* every scheduling (successful addEvent, numbered by nsched) is, at any point of any history, in exactly one
   of: still pending in the heap / popped and called by run() / dropped by removeEvent *)
Lemma exactly_once fuel o ops i :
  let s := reach fuel o ops in
  (i < nsched s)%N -> count_occ N.eq_dec (hsids s ++ psids s ++ removed s) i = 1%nat.
Proof.
  intros s H. pose proof (reach_inv fuel o ops) as I. fold s in I.
  apply NoDup_count_1. - exact (i_sids _ I). - apply (i_lt _ I). exact H.
Qed.

Lemma NoDup_app_inv {A} (a b : list A) :
  NoDup (a ++ b) -> NoDup a /\ NoDup b /\ forall i, In i a -> ~ In i b.
Proof.
  induction a as [|x a IH]; simpl; intros ND.
  - split; [constructor|]. split; auto.
  - inversion ND; subst. destruct (IH H2) as (Na & Nb & D). split; [|split; auto].
    + constructor; auto. intro H. apply H1. apply in_or_app. auto.
    + intros i [->|H]; auto. intro Y. apply H1. apply in_or_app. auto.
Qed.

Lemma NoDup_app3 {A} (a b c : list A) :
  NoDup (a ++ b ++ c) ->
  NoDup b /\ (forall i, In i a -> ~ In i b /\ ~ In i c) /\ (forall i, In i b -> ~ In i c).
Proof.
  intros ND. destruct (NoDup_app_inv _ _ ND) as (Na & Nbc & D1).
  destruct (NoDup_app_inv _ _ Nbc) as (Nb & Nc & D2).
  split; auto. split; auto. intros i H. specialize (D1 i H). split; intro Y; apply D1; apply in_or_app; auto.
Qed.

Lemma NoDup_app_last {A} (a b c : list A) i : NoDup (a ++ b ++ c) -> In i c -> ~ In i a /\ ~ In i b.
Proof.
  intros ND Hc. destruct (NoDup_app3 _ _ _ ND) as (_ & D1 & D2). split; intro H.
  - apply (D1 i H); auto. - apply (D2 i H); auto.
Qed.

Lemma removed_never fuel o ops i :
  let s := reach fuel o ops in
  In i (removed s) -> ~ In i (psids s) /\ ~ In i (hsids s).
Proof.
  intros s H. pose proof (i_sids _ (reach_inv fuel o ops)) as ND. fold s in ND.
  destruct (NoDup_app_last _ _ _ i ND H). tauto.
Qed.

(* removeEvent(name) that does not raise drops every pending entry of that name and frees the name *)
Lemma remove_effective n s s' x :
  removeEvent n s = (s', Ok x) -> INV s ->
  (forall e, In e (heap s) -> e_name e = n -> In (e_sid e) (removed s')) /\
  ~ In n (names s') /\ ~ In n (keys s').
Proof.
  unfold removeEvent. destruct (take_key n (events s)) as [[f ev']|] eqn:T; [|discriminate].
  intros E I. inversion E; subst. clear E. split; [|split].
  - intros e He Hn. simpl. apply in_or_app. left. apply in_map. apply filter_In. split; auto.
    unfold named. apply name_eqb_eq. exact Hn.
  - unfold names. simpl. intro H. apply in_map_iff in H. destruct H as [e [E H]]. apply filter_In in H.
    destruct H as [_ H]. unfold named in H. rewrite <- E in H.
    assert (name_eqb (e_name e) (e_name e) = true) by (apply name_eqb_eq; reflexivity). rewrite H0 in H. discriminate.
  - unfold keys. simpl. destruct (take_key_some _ _ _ _ T) as [_ P].
    pose proof (Permutation_NoDup P (i_keys _ I)) as ND. inversion ND; auto.
Qed.

Lemma pops_ok fuel o ops p : In p (pops (reach fuel o ops)) -> pop_ok p.
Proof.
  intros H. pose proof (i_pops _ (reach_inv fuel o ops)) as F. rewrite Forall_forall in F. auto.
Qed.

Lemma consistent fuel o ops :
  let s := reach fuel o ops in NoDup (keys s) /\ Permutation (names s) (keys s).
Proof. intros s. pose proof (reach_inv fuel o ops) as I. split; [apply (i_keys _ I)|apply (i_names _ I)]. Qed.

(* called with the arguments it was registered with: every entry popped by run() still carries them *)
Lemma args_kept fuel o ops p :
  let s := reach fuel o ops in
  In p (pops s) -> e_args (p_e p) = e_gargs (p_e p).
Proof.
  intros s H. destruct (i_args _ (reach_inv fuel o ops)) as [_ F]. rewrite Forall_forall in F. apply (F p H).
Qed.

(* ... and every pending entry does *)
Lemma args_kept_pending fuel o ops e :
  In e (heap (reach fuel o ops)) -> e_args e = e_gargs e.
Proof.
  intros H. destruct (i_args _ (reach_inv fuel o ops)) as [F _]. rewrite Forall_forall in F. apply (F e H).
Qed.

(* the old witness of C18.F17: add with args [7], reschedule, run: now called with [7] *)
Definition witness_resched : list op :=
  [OAct (AAdd 1 (Some 1%N) ANop 1 (Some 0%N) ([7%N], [])); OAct (AResched (Named 0) 2); OAdvance 5; ORun].

Example resched_keeps_args :
  let s := reach 5 [] witness_resched in
  map c_args (calls s) = [([7%N], [])] /\ map (fun p => e_t (p_e p)) (pops s) = [2%Z] /\ removed s = [0%N].
Proof. vm_compute. repeat split. Qed.

Lemma run_never_raises fuel o ops k : snd (run_loop k (reach fuel o ops)) = Ok tt.
Proof. apply run_loop_inv. apply reach_inv. Qed.

Lemma run_drains fuel o ops k :
  let s' := fst (run_loop k (reach fuel o ops)) in
  fuelout s' = false -> forall e, In e (heap s') -> (now s' <= e_t e)%Z.
Proof. intros s'. apply run_loop_drains. apply reach_inv. Qed.

(* headline: after a completed run(), every scheduling so far has been executed once, or was removed, or is not yet due *)
Lemma due_executed fuel o ops k i :
  let s' := fst (run_loop k (reach fuel o ops)) in
  fuelout s' = false -> (i < nsched s')%N ->
  count_occ N.eq_dec (psids s') i = 1%nat /\ ~ In i (removed s') /\ ~ In i (hsids s')
  \/ In i (removed s') /\ ~ In i (psids s')
  \/ exists e, In e (heap s') /\ e_sid e = i /\ (now s' <= e_t e)%Z /\ ~ In i (psids s').
Proof.
  intros s' F H.
  assert (I : INV s') by (apply run_loop_inv; apply reach_inv).
  pose proof (i_sids _ I) as ND. pose proof (proj2 (i_lt _ I i) H) as Hin.
  unfold all_sids in *. destruct (NoDup_app3 _ _ _ ND) as (Np & D1 & D2).
  apply in_app_or in Hin. destruct Hin as [Hh|Hin].
  - right. right. destruct (D1 i Hh) as [X1 X2].
    unfold hsids in Hh. apply in_map_iff in Hh. destruct Hh as [e [E He]].
    exists e. split; auto. split; auto. split; auto. apply (run_drains fuel o ops k F e He).
  - apply in_app_or in Hin. destruct Hin as [Hp|Hr].
    + left. split; [apply NoDup_count_1; auto|]. split; [apply (D2 i Hp)|].
      intro Y. destruct (D1 i Y) as [Z _]. apply Z. exact Hp.
    + right. left. split; auto. destruct (NoDup_app_last _ _ _ i ND Hr). auto.
Qed.

(* ---- periodic events: wrapper() re-adds itself whatever f did (returned or raised) ---- *)
Lemma wrapper_recurs rb u p nm av cnt s :
  preserves rb -> INV s -> recurs (recur cnt) = true ->
  let s1 := fst (call_user rb u av s) in
  (forall k, nm = Some k -> ~ In (Named k) (keys s1)) ->
  let s' := fst (wrapper_call rb u p nm av cnt s) in
  exists e, heap s' = e :: heap s1 /\ events s' = (e_name e, Wrap u p nm av (recur cnt)) :: events s1 /\
            e_t e = (now s1 + p)%Z /\ e_args e = noargs /\
            e_name e = match nm with Some k => Named k | None => Auto (counter s1) end.
Proof.
  intros P I R s1 Hfree s'. unfold s', wrapper_call.
  pose proof (call_user_inv rb u av s P I) as I1. fold s1 in I1.
  unfold s1 in *. destruct (call_user rb u av s) as [s1' r]. simpl in *.
  rewrite R. destruct nm as [k|]; simpl.
  - unfold addEvent. assert (F : has_key (Named k) (events s1') = false) by (apply has_key_false; apply Hfree; auto).
    rewrite F. simpl. eexists. repeat split.
  - unfold addEvent.
    assert (F : has_key (Auto (counter s1')) (events (bump_counter s1')) = false).
    { apply has_key_false. simpl. intro H. apply (i_auto _ I1) in H. lia. }
    rewrite F. simpl. eexists. repeat split.
Qed.

(* ... and stops when its count is used up: the heap is what f left *)
Lemma wrapper_stops rb u p nm av cnt s :
  recurs (recur cnt) = false ->
  wrapper_call rb u p nm av cnt s = call_user rb u av s.
Proof.
  intros R. unfold wrapper_call. destruct (call_user rb u av s) as [s1 r]. rewrite R. reflexivity.
Qed.

(* count bookkeeping: a periodic event with count = Some c (c >= 1) is re-added with c-1 while c-1 > 0 *)
Lemma recurs_count c : recurs (recur (Some c)) = (1 <? c)%Z.
Proof. unfold recurs, recur. simpl. lia. Qed.
Lemma recurs_forever : recurs (recur None) = true.
Proof. reflexivity. Qed.

(* ---- rescheduleEvent: same name, same function, new time; the old scheduling is dropped ---- *)
Lemma take_key_in_rest n ev f ev' : take_key n ev = Some (f, ev') -> forall m g, m <> n -> In (m, g) ev -> In (m, g) ev'.
Proof.
  revert f ev'. induction ev as [|[k h] ev IH]; simpl; intros f ev' H m g Hm Hin; [contradiction|].
  destruct (name_eqb k n) eqn:E.
  - apply name_eqb_eq in E. inversion H; subst. destruct Hin as [X|X]; auto. inversion X; subst. contradiction.
  - destruct (take_key n ev) as [[g' r]|]; [|discriminate]. inversion H; subst.
    destruct Hin as [X|X]; [left; auto|right; eapply IH; eauto].
Qed.

Lemma reschedule_ok n t s s' :
  INV s -> reschedule n t s = (s', Ok tt) ->
  exists f e, In (n, f) (events s) /\ In (n, f) (events s') /\
    (forall m g, m <> n -> In (m, g) (events s) -> In (m, g) (events s')) /\
    heap s' = e :: filter (fun x => negb (named n x)) (heap s) /\
    e_name e = n /\ e_t e = t /\
    (forall e0, In e0 (heap s) -> e_name e0 = n ->
       In (e_sid e0) (removed s') /\ e_args e = e_args e0 /\ e_gargs e = e_gargs e0).
Proof.
  intros I. unfold reschedule, removeEvent.
  destruct (lookup_args n (heap s)) as [av gg] eqn:G.
  destruct (take_key n (events s)) as [[f ev']|] eqn:T; [|discriminate].
  destruct (take_key_some _ _ _ _ T) as [Hin Hperm].
  unfold addEvent.
  assert (F : has_key n (events (drop n ev' s)) = false).
  { simpl. apply has_key_false. pose proof (Permutation_NoDup Hperm (i_keys _ I)) as ND. inversion ND; auto. }
  rewrite F. intros E. inversion E; subst. clear E.
  exists f. eexists. split; [exact Hin|]. simpl. split; [left; reflexivity|].
  split; [intros m g0 Hm Hg; right; eapply take_key_in_rest; eauto|]. split; [reflexivity|].
  split; [reflexivity|]. split; [reflexivity|].
  intros e0 He0 Hn. split.
  - apply in_or_app. left. apply in_map. apply filter_In. split; auto. apply name_eqb_eq. exact Hn.
  - simpl.
    assert (ND : NoDup (map e_name (heap s))) by (eapply Permutation_NoDup; [apply Permutation_sym; apply (i_names _ I)|apply (i_keys _ I)]).
    assert (In1 : In n (map e_name (heap s))) by (rewrite <- Hn; apply in_map; auto).
    pose proof (filter_named_one n (heap s) ND In1) as One.
    assert (He0f : In e0 (filter (named n) (heap s))) by (apply filter_In; split; auto; apply name_eqb_eq; auto).
    unfold lookup_args in G. destruct (filter (named n) (heap s)) as [|x [|y l]]; simpl in One; try discriminate.
    destruct He0f as [->|[]]. inversion G; subst. split; reflexivity.
Qed.

(* ---- non-vacuity: concrete histories exercising the hypotheses ---- *)
(* three events due together, the middle one raises: all three are called, run() returns normally *)
Definition ex_raise : list op :=
  [OAct (AAdd 1 None ANop 2 None noargs); OAct (AAdd 2 None ARaise 2 None noargs);
   OAct (AAdd 3 None ANop 2 (Some 1%N) ([4%N], [(1%N, 2%N)])); OAdvance 3; ORun].
Example ex_raise_runs_all :
  let s := reach 9 [] ex_raise in
  map c_reg (calls s) = [0; 1; 2]%N /\ heap s = [] /\ fuelout s = false /\ nsched s = 3%N.
Proof. vm_compute. repeat split. Qed.

(* a periodic event with count 3 whose function raises runs three times *)
Definition ex_periodic : list op :=
  [OAct (APer 1 (Some 1%N) ARaise 2 (Some 0%N) true ([5%N], []) (Some 3)); OAdvance 3; ORun; OAdvance 3; ORun; OAdvance 3; ORun].
Example ex_periodic_three :
  let s := reach 9 [] ex_periodic in
  map c_clock (calls s) = [6; 3; 0]%Z /\ heap s = [] /\ events s = [] /\ fuelout s = false.
Proof. vm_compute. repeat split. Qed.

(* an event removes a tie-mate and adds an event in the past, which runs in the same run() *)
Definition ex_reentrant : list op :=
  [OAct (AAdd 1 None (ASeq (ARemove (Named 1)) (AAdd 3 None ANop (-5) (Some 2%N) noargs)) 1 (Some 0%N) noargs);
   OAct (AAdd 2 None ANop 1 (Some 1%N) noargs); OAdvance 2; ORun].
Example ex_reentrant_ok :
  let s := reach 9 [Named 0; Named 2] ex_reentrant in
  map c_reg (calls s) = [2; 0]%N /\ removed s = [1%N] /\ heap s = [] /\ fuelout s = false.
Proof. vm_compute. repeat split. Qed.

Example ex_resched_noargs :
  let s := reach 9 [] [OAct (AAdd 1 (Some 0%N) ANop 1 (Some 0%N) noargs); OAct (AResched (Named 0) 4); OAdvance 2; ORun; OAdvance 3; ORun] in
  map c_clock (calls s) = [5]%Z /\ removed s = [0%N].
Proof. vm_compute. repeat split. Qed.

(* ---- run()'s except handler: names of every shape, raising callbacks ---- *)
(* a raising event registered under a tuple of two strs (Named 10), one under the empty tuple (Named 8) and one under a
   str with a % directive (Named 3), then a well-behaved one: all four are called, run() returns normally *)
Definition ex_names : list op :=
  [OAct (AAdd 1 None ARaise 1 (Some 10%N) noargs); OAct (AAdd 2 None ARaise 1 (Some 8%N) noargs);
   OAct (AAdd 3 None ARaise 1 (Some 3%N) noargs); OAct (AAdd 4 None ANop 2 (Some 0%N) noargs); OAdvance 5].
Example ex_names_run_ok :
  let s := reach 9 [] ex_names in
  map fmt_args (map e_name (heap s)) = [1; 1; 0; 2]%N /\
  snd (run_loop 9 s) = Ok tt /\ length (calls (fst (run_loop 9 s))) = 4%nat /\ heap (fst (run_loop 9 s)) = [].
Proof. vm_compute. repeat split. Qed.

(* what the handler model says about an eagerly interpolated one-directive template: it raises exactly for names that
   do not supply one value (tuples of length <> 1) -- the shape the table extractor reports if such a line appears *)
Example interpolation_would_raise :
  map (fun n => negb (N.eqb 1 (fmt_args n))) [Auto 0; Named 0; Named 3; Named 8; Named 9; Named 10; Named 11]
  = [false; false; false; true; false; true; true].
Proof. reflexivity. Qed.
