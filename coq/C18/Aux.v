(* C18/Aux.v — list facts used by the invariant proofs (no model content) *)
From Coq Require Import List NArith ZArith Bool Lia Permutation.
Import ListNotations.
Require Import Base.Wire Base.PyStr C18.Model.

Lemma name_eqb_eq a b : name_eqb a b = true <-> a = b.
Proof.
  destruct a, b; simpl; split; intro H; try discriminate; try (apply N.eqb_eq in H; subst; reflexivity);
    try (inversion H; apply N.eqb_refl).
Qed.

Lemma name_eqb_neq a b : name_eqb a b = false <-> a <> b.
Proof.
  split; intros H.
  - intro E. apply name_eqb_eq in E. congruence.
  - destruct (name_eqb a b) eqn:E; auto. apply name_eqb_eq in E. contradiction.
Qed.

Lemma has_key_In n ev : has_key n ev = true <-> In n (map fst ev).
Proof.
  induction ev as [|[k f] ev IH]; simpl.
  - split; [discriminate | tauto].
  - rewrite orb_true_iff, IH, name_eqb_eq. tauto.
Qed.

Lemma has_key_false n ev : has_key n ev = false <-> ~ In n (map fst ev).
Proof.
  rewrite <- has_key_In. destruct (has_key n ev); split; intros H; try discriminate; try reflexivity.
  exfalso; apply H; reflexivity.
Qed.

Lemma take_key_none n ev : take_key n ev = None <-> ~ In n (map fst ev).
Proof.
  rewrite <- has_key_false.
  induction ev as [|[k f] ev IH]; simpl.
  - tauto.
  - destruct (name_eqb k n); simpl.
    + split; discriminate.
    + destruct (take_key n ev) as [[g r]|]; split; intros H; try discriminate; try tauto.
      apply IH in H. discriminate.
Qed.

(* dict.pop on an association list with distinct keys *)
Lemma take_key_some n ev f ev' :
  take_key n ev = Some (f, ev') ->
  In (n, f) ev /\ Permutation (map fst ev) (n :: map fst ev').
Proof.
  revert f ev'. induction ev as [|[k g] ev IH]; simpl; intros f ev' H; [discriminate|].
  destruct (name_eqb k n) eqn:E.
  - apply name_eqb_eq in E. inversion H; subst. split; auto.
  - destruct (take_key n ev) as [[g' r]|]; [|discriminate]. inversion H; subst.
    destruct (IH _ _ eq_refl) as [A B]. split; auto. simpl.
    rewrite B. apply perm_swap.
Qed.

Lemma take_first_some p h e r :
  take_first p h = Some (e, r) -> p e = true /\ Permutation h (e :: r).
Proof.
  revert e r. induction h as [|x h IH]; simpl; intros e r H; [discriminate|].
  destruct (p x) eqn:E.
  - inversion H; subst. auto.
  - destruct (take_first p h) as [[y r']|]; [|discriminate]. inversion H; subst.
    destruct (IH _ _ eq_refl) as [A B]. split; auto. rewrite B. apply perm_swap.
Qed.

Lemma take_first_none p h : take_first p h = None -> forall e, In e h -> p e = false.
Proof.
  induction h as [|x h IH]; simpl; intros H e [].
  - subst. destruct (p e); [discriminate|reflexivity].
  - destruct (p x); [discriminate|]. destruct (take_first p h) as [[? ?]|]; [discriminate|]. auto.
Qed.

Lemma pop_min_some o h e r o' bad :
  pop_min o h = Some (e, r, o', bad) -> is_min h e = true /\ Permutation h (e :: r).
Proof.
  unfold pop_min. intros H. destruct o as [|n o].
  - destruct (take_first (is_min h) h) as [[x y]|] eqn:E; [|discriminate]. inversion H; subst.
    apply take_first_some in E. exact E.
  - destruct (take_first (fun e0 => named n e0 && is_min h e0) h) as [[x y]|] eqn:E.
    + inversion H; subst. apply take_first_some in E. destruct E as [A B].
      apply andb_true_iff in A. tauto.
    + destruct (take_first (is_min h) h) as [[x y]|] eqn:E2; [|discriminate]. inversion H; subst.
      apply take_first_some in E2. exact E2.
Qed.

Lemma is_min_spec h e : is_min h e = true <-> forall e', In e' h -> (e_t e <= e_t e')%Z.
Proof.
  unfold is_min. rewrite forallb_forall. split; intros H x Hx; specialize (H x Hx).
  - apply Z.leb_le. exact H.
  - apply Z.leb_le. exact H.
Qed.

(* a non-empty heap has a minimal entry, so heappop succeeds *)
Lemma exists_min h : h <> [] -> exists e, In e h /\ is_min h e = true.
Proof.
  induction h as [|x h IH]; [congruence|]. intros _.
  destruct h as [|y h].
  - exists x. split; [left; auto|]. apply is_min_spec. intros e' [<-|[]]. lia.
  - destruct IH as [m [Hm Hmin]]; [discriminate|].
    rewrite is_min_spec in Hmin.
    destruct (Z_le_gt_dec (e_t x) (e_t m)).
    + exists x. split; [left; auto|]. apply is_min_spec. intros e' [<-|H]; [lia|]. specialize (Hmin _ H). lia.
    + exists m. split; [right; auto|]. apply is_min_spec. intros e' [<-|H]; [lia|]. auto.
Qed.

Lemma pop_min_none o h : pop_min o h = None -> h = [].
Proof.
  intros H. destruct h as [|x h]; auto. exfalso.
  destruct (exists_min (x :: h)) as [m [Hm Hmin]]; [discriminate|].
  assert (T : take_first (is_min (x :: h)) (x :: h) = None).
  { unfold pop_min in H. destruct o.
    - destruct (take_first (is_min (x :: h)) (x :: h)) as [[? ?]|]; [discriminate|reflexivity].
    - destruct (take_first (fun e0 => named n e0 && is_min (x :: h) e0) (x :: h)) as [[? ?]|]; [discriminate|].
      destruct (take_first (is_min (x :: h)) (x :: h)) as [[? ?]|]; [discriminate|reflexivity]. }
  pose proof (take_first_none _ _ T _ Hm). congruence.
Qed.

Lemma filter_split {A} (p : A -> bool) (l : list A) :
  Permutation l (filter p l ++ filter (fun x => negb (p x)) l).
Proof.
  induction l as [|x l IH]; simpl; auto.
  destruct (p x); simpl.
  - constructor. exact IH.
  - apply Permutation_cons_app. exact IH.
Qed.

Lemma NoDup_map_filter {A B} (f : A -> B) p (l : list A) :
  NoDup (map f l) -> NoDup (map f (filter p l)).
Proof.
  induction l as [|x l IH]; simpl; intros H; auto.
  inversion H; subst. destruct (p x); simpl; auto.
  constructor; auto. intro X. apply H2. apply in_map_iff in X. destruct X as [y [E Hy]].
  apply filter_In in Hy. apply in_map_iff. exists y. tauto.
Qed.

Lemma NoDup_count_1 (l : list N) i : NoDup l -> In i l -> count_occ N.eq_dec l i = 1%nat.
Proof.
  intros H1 H2. rewrite (NoDup_count_occ' N.eq_dec) in H1. auto.
Qed.
