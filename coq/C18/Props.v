(* C18/Props.v — the property theorems, nothing else.
   Model: C18/Model.v (mirrors src/schedule.py).  Invariant: Lemmas.v.  Proofs: Theorems.v.
   [reach fuel o ops] is the state after the history [ops] (addEvent / addPeriodicEvent / removeEvent /
   rescheduleEvent / run / clock advances, with event bodies that do the same re-entrantly, raise or take time),
   started from an empty Schedule, with heappop tie-break oracle [o] and loop bound [fuel].  All are universally quantified.
   A "scheduling" is a successful addEvent; schedulings are numbered 0 .. nsched-1 (ghost e_sid).
   hsids = schedulings pending in the heap, psids = popped and called by run(), removed = dropped by removeEvent. *)
From Coq Require Import List NArith ZArith Permutation.
Import ListNotations.
Require Import Base.Wire Base.PyStr C18.Model C18.Lemmas C18.Theorems C18.Periodic C18.Trace C18.Bag C18.BagComplete C18.PModel.
Require C18.PProofs.

(* exactly once / removed never run: at every point of every history each scheduling is in exactly one of
   pending, executed, removed (so: never executed twice, never executed after removal, never lost). *)
Theorem C18_exactly_once :
  forall fuel o ops i, let s := reach fuel o ops in
  (i < nsched s)%N -> count_occ N.eq_dec (hsids s ++ psids s ++ removed s) i = 1%nat.
Proof. exact exactly_once. Qed.
Print Assumptions C18_exactly_once.

Theorem C18_removed_never :
  forall fuel o ops i, let s := reach fuel o ops in
  In i (removed s) -> ~ In i (psids s) /\ ~ In i (hsids s).
Proof. exact removed_never. Qed.
Print Assumptions C18_removed_never.

(* removeEvent(name) that returns drops every pending entry of that name and frees the name *)
Theorem C18_remove_effective :
  forall n s s' x, removeEvent n s = (s', Ok x) -> INV s ->
  (forall e, In e (heap s) -> e_name e = n -> In (e_sid e) (removed s')) /\ ~ In n (names s') /\ ~ In n (keys s').
Proof. exact remove_effective. Qed.
Print Assumptions C18_remove_effective.

(* liveness: when run() returns (its loop ended by itself), every scheduling made so far has been executed exactly
   once, or was removed, or is pending and not yet due -- whatever the event functions did (raise, mutate, take time). *)
Theorem C18_due_executed :
  forall fuel o ops k i, let s' := fst (run_loop k (reach fuel o ops)) in
  fuelout s' = false -> (i < nsched s')%N ->
  count_occ N.eq_dec (psids s') i = 1%nat /\ ~ In i (removed s') /\ ~ In i (hsids s')
  \/ In i (removed s') /\ ~ In i (psids s')
  \/ exists e, In e (heap s') /\ e_sid e = i /\ (now s' <= e_t e)%Z /\ ~ In i (psids s').
Proof. exact due_executed. Qed.
Print Assumptions C18_due_executed.

(* not before its due time: every heappop of run() took an entry with t < clock *)
Theorem C18_not_early :
  forall fuel o ops p, In p (pops (reach fuel o ops)) -> (e_t (p_e p) < p_clock p)%Z.
Proof. intros fuel o ops p H. exact (proj1 (pops_ok fuel o ops p H)). Qed.
Print Assumptions C18_not_early.

(* time order: the executed entry was pending and had the smallest due time of everything pending at that moment *)
Theorem C18_order :
  forall fuel o ops p, In p (pops (reach fuel o ops)) ->
  In (p_e p) (p_before p) /\ forall e', In e' (p_before p) -> (e_t (p_e p) <= e_t e')%Z.
Proof. intros fuel o ops p H. exact (proj2 (pops_ok fuel o ops p H)). Qed.
Print Assumptions C18_order.

(* run()'s own except handler cannot raise, whatever the event is called (a str, with or without % directives, a tuple of
   any length, a counter id): the log call there has a constant template (regenerated table T18 pins its shape; an
   eagerly interpolated `template % name` is modelled and would falsify this and C18_raise_isolated for tuple names) *)
Theorem C18_handler_safe : forall n r, handler_raises n = false /\ after_call n r = false.
Proof. intros n r. split; [apply handler_never|apply after_call_never]. Qed.
Print Assumptions C18_handler_safe.

(* an event that raises does not stop the loop nor escape run(): run() never raises, and (C18_due_executed) drains *)
Theorem C18_raise_isolated :
  forall fuel o ops k, snd (run_loop k (reach fuel o ops)) = Ok tt.
Proof. exact run_never_raises. Qed.
Print Assumptions C18_raise_isolated.

Theorem C18_run_drains :
  forall fuel o ops k, let s' := fst (run_loop k (reach fuel o ops)) in
  fuelout s' = false -> forall e, In e (heap s') -> (now s' <= e_t e)%Z.
Proof. exact run_drains. Qed.
Print Assumptions C18_run_drains.

(* re-entrancy: self.events and the heap name the same events, without duplicates, after any history *)
Theorem C18_reentrant :
  forall fuel o ops, let s := reach fuel o ops in NoDup (keys s) /\ Permutation (names s) (keys s).
Proof. exact consistent. Qed.
Print Assumptions C18_reentrant.

(* arguments: every entry run() pops -- after any history, including reschedules -- is called with the arguments
   the event was registered with (e_gargs: set by addEvent, carried over by rescheduleEvent).  This is the full
   statement; it was C18_args_on_domain / C18_args_refuted before the repair of C18.F17. *)
Theorem C18_args :
  forall fuel o ops p, let s := reach fuel o ops in
  In p (pops s) -> e_args (p_e p) = e_gargs (p_e p).
Proof. exact args_kept. Qed.
Print Assumptions C18_args.

Theorem C18_args_pending :
  forall fuel o ops e, In e (heap (reach fuel o ops)) -> e_args e = e_gargs e.
Proof. exact args_kept_pending. Qed.
Print Assumptions C18_args_pending.

(* rescheduled events: same name, function and arguments, new time; the old scheduling is removed *)
Theorem C18_reschedule :
  forall n t s s', INV s -> reschedule n t s = (s', Ok tt) ->
  exists f e, In (n, f) (events s) /\ In (n, f) (events s') /\
    (forall m g, m <> n -> In (m, g) (events s) -> In (m, g) (events s')) /\
    heap s' = e :: filter (fun x => negb (named n x)) (heap s) /\
    e_name e = n /\ e_t e = t /\
    (forall e0, In e0 (heap s) -> e_name e0 = n ->
       In (e_sid e0) (removed s') /\ e_args e = e_args e0 /\ e_gargs e = e_gargs e0).
Proof. exact reschedule_ok. Qed.
Print Assumptions C18_reschedule.

(* periodic: whatever f does (return or raise: no hypothesis on the result of [rb]), wrapper() re-adds itself at
   clock+period with count-1 while the count allows (None = forever), provided its name is free *)
Theorem C18_periodic_step :
  forall rb u p nm av cnt s, preserves rb -> INV s -> recurs (recur cnt) = true ->
  let s1 := fst (call_user rb u av s) in
  (forall k, nm = Some k -> ~ In (Named k) (keys s1)) ->
  let s' := fst (wrapper_call rb u p nm av cnt s) in
  exists e, heap s' = e :: heap s1 /\ events s' = (e_name e, Wrap u p nm av (recur cnt)) :: events s1 /\
            e_t e = (now s1 + p)%Z /\ e_args e = noargs /\
            e_name e = match nm with Some k => Named k | None => Auto (counter s1) end.
Proof. exact wrapper_recurs. Qed.
Print Assumptions C18_periodic_step.

Theorem C18_periodic_stops :
  forall rb u p nm av cnt s, recurs (recur cnt) = false ->
  wrapper_call rb u p nm av cnt s = call_user rb u av s.
Proof. exact wrapper_stops. Qed.
Print Assumptions C18_periodic_stops.

(* ===== periodic events over whole histories (Periodic.v).  nc r s = number of invocations of the user function
   registered as number r (u_reg; numbers are handed out by nreg at every addEvent/addPeriodicEvent call);
   cap n = max n 1: the code decrements the count before testing count > 0, so count <= 0 behaves like 1. ===== *)

(* a periodic event registered with count n at any reachable state, followed by ANY continuation (runs, removals,
   reschedules, re-entrant events, raising callbacks): it has fired at most cap n times; and as long as it is held in
   self.events it is the wrapper with some remaining count c, and fired + cap c = cap n (so it fires exactly cap n
   times unless it is removed or its name is taken while it runs). *)
Theorem C18_periodic_count :
  forall fuel o ops tag ar body p nm nowf av n fuel2 ops2,
  let s := reach fuel o ops in
  let r := nreg s in
  let s2 := run_ops fuel2 ops2 (fst (exec (APer tag ar body p nm nowf av (Some n)) s)) in
  (nc r s2 <= cap n)%Z /\
  forall k f, In (k, f) (events s2) -> reg_of f = r ->
    exists u p' nm' av' c, f = Wrap u p' nm' av' (Some c) /\ (nc r s2 + cap c = cap n)%Z.
Proof. exact periodic_count. Qed.
Print Assumptions C18_periodic_count.

(* exactly one successor: at any time at most one binding of self.events holds a given registration *)
Theorem C18_one_holder :
  forall fuel o ops, NoDup (eregs (reach fuel o ops)).
Proof. intros fuel o ops. exact (proj1 (proj2 (Rinv_reach fuel o ops))). Qed.
Print Assumptions C18_one_holder.

(* a registration that nobody holds (it finished, or it was removed) is never invoked again *)
Theorem C18_absent_never_again :
  forall r s fuel ops, absent r s -> absent r (run_ops fuel ops s) /\ nc r (run_ops fuel ops s) = nc r s.
Proof. exact absent_forever. Qed.
Print Assumptions C18_absent_never_again.

(* removal by name stops an event (periodic or one-shot) for good *)
Theorem C18_remove_stops :
  forall fuel o ops n f fuel2 ops2, let s := reach fuel o ops in
  snd (removeEvent n s) = Ok f ->
  let s' := fst (removeEvent n s) in
  nc (reg_of f) (run_ops fuel2 ops2 s') = nc (reg_of f) s' /\ ~ In (reg_of f) (eregs (run_ops fuel2 ops2 s')).
Proof. intros fuel o ops n f fuel2 ops2 s. apply remove_stops. apply Rinv_reach. Qed.
Print Assumptions C18_remove_stops.

(* ===== trace level (Trace.v): every history of addEvent / removeEvent / rescheduleEvent / clock advance / run over
   one-shot events whose functions leave the scheduler and the clock alone (they may raise) refines the abstract
   specification [atrace]: a bag of pending entries; add = insert unless the name is pending; remove = delete by name;
   reschedule = same name and arguments at the new time; run = exactly the due entries are executed, each once, in
   non-decreasing order of due time, the others stay ([a_run]; order among equal times is open, as in heapq).
   TC: the invocation log is the executed list: one call per executed entry, at that clock, with its arguments. ===== *)
Theorem C18_trace_refines :
  forall fuel o ops, forallb simple ops = true -> fuelout (reach fuel o ops) = false ->
  atrace ops abs0 (abs (reach fuel o ops)) /\ TC (reach fuel o ops).
Proof. exact trace_refines. Qed.
Print Assumptions C18_trace_refines.

(* ===== the bag semantics for the whole action language (Bag.v).  [btrace ops b b']: the abstract machine -- ONE bag of
   pending (entry, function) pairs, a clock, counters, the invocation log b_calls and the executed list b_done; no heap,
   no dict, no tie-break oracle, no loop bound -- can go from b to b' along the history ops, where
     OAct a   interprets a (add / addPeriodic / remove / reschedule / tick / raise / seq / try) on the bag,
     ORun     is the small-step relation [brun]: while some pending entry is due, ONE entry of minimal due time leaves
              the bag, is recorded, and its function is called: the body is interpreted on the same bag (so it may add,
              remove or reschedule entries, which the following iterations see; it may move the clock), its exception
              is discarded; a periodic wrapper calls f and then, count permitting (None, or count-1 > 0), inserts its
              successor at clock+period with count-1 -- also when f raised,
     OAdvance moves the clock.
   Theorem: for EVERY history (one-shot and periodic events, re-entrant bodies, raising and clock-ticking callbacks,
   any heap tie-break o) in which no run() loop was cut by the bound, the state of the model of schedule.py -- with its
   invocation log and executed list -- is a state the bag semantics reaches.  Induction over bodies, loop, history. ===== *)
Theorem C18_bag_refines :
  forall fuel o ops, fuelout (reach fuel o ops) = false -> btrace ops b0 (absb (reach fuel o ops)).
Proof. exact bag_refines. Qed.
Print Assumptions C18_bag_refines.

(* the specification is what one expects of run(): a completed abstract run leaves nothing due *)
Theorem C18_bag_run_drains :
  forall b b', brun b b' -> forall x, In x (b_pend b') -> (b_clock b' <= e_t (fst x))%Z.
Proof. exact brun_drains. Qed.
Print Assumptions C18_bag_run_drains.

(* conversely, every trace of the bag semantics is realised by the model for a suitable heap tie-break oracle and loop
   bound: over all tie-breaks the model reaches exactly the states (pending bag, invocation log, executed list) of the
   bag semantics -- the specification is neither looser nor tighter than the code's model *)
Theorem C18_bag_exact :
  forall ops b', btrace ops b0 b' <-> exists fuel o, fuelout (reach fuel o ops) = false /\ absb (reach fuel o ops) = b'.
Proof. exact bag_exact. Qed.
Print Assumptions C18_bag_exact.

(* the periodic count law as a corollary at trace level, for EVERY trace of the bag semantics: a periodic event
   registered with count n (its registration number is b_nreg of the abstract state at that moment) is invoked at most
   cap n times in b_calls, and a pending bag entry holding it carries the remaining count c with invocations + cap c = cap n *)
Theorem C18_bag_periodic_count :
  forall ops1 ops2 tag ar body p nm nowf av n b1 b',
  btrace ops1 b0 b1 -> btrace (OAct (APer tag ar body p nm nowf av (Some n)) :: ops2) b1 b' ->
  let r := b_nreg b1 in
  (bnc r b' <= cap n)%Z /\
  forall x, In x (b_pend b') -> reg_of (snd x) = r ->
    exists u p' nm' av' c, snd x = Wrap u p' nm' av' (Some c) /\ (bnc r b' + cap c = cap n)%Z.
Proof. exact bag_periodic_count_trace. Qed.
Print Assumptions C18_bag_periodic_count.

(* ===== the Scheduler plugin on top (PModel.v mirrors plugins/Scheduler/plugin.py: _add, _repeat, remove, die/pickle,
   _restoreEvents with its `except AssertionError`, the closures' `del self.events[...]`; PProofs.v).
   [prun_ops ops pinit]: the state after a history of scheduler add / remind / repeat / remove commands, clock advances,
   run(), in-process reloads of the plugin and restarts of the bot. ===== *)

(* no user request ever has two schedule entries (so one firing of the schedule runs it once), and no name is scheduled
   twice -- in particular a reload with pending events does not schedule them again: _restoreEvents passes the old id and
   addEvent refuses it (regenerated table: RESTORE_PASSES_ID) *)
Theorem C18_plugin_scheduled_once :
  forall ops, let s := prun_ops ops pinit in NoDup (map s_cmd (p_sched s)) /\ NoDup (map s_name (p_sched s)).
Proof. exact C18.PProofs.plugin_scheduled_once. Qed.
Print Assumptions C18_plugin_scheduled_once.

(* the id under which `scheduler list` shows a request is the name of its schedule entry: `scheduler remove <id>` removes it *)
Theorem C18_plugin_listed_id :
  forall ops e kv, let s := prun_ops ops pinit in
  In e (p_sched s) -> In kv (p_dict s) -> pcmd (snd kv) = s_cmd e -> fst kv = s_name e.
Proof. exact C18.PProofs.plugin_listed_id. Qed.
Print Assumptions C18_plugin_listed_id.

(* every function the plugin has in the schedule is a closure of the LIVE instance and is listed under its name
   (die() unschedules, the next instance re-schedules from the pickle: regenerated table DIE_UNSCHEDULES) *)
Theorem C18_plugin_live :
  forall ops e, let s := prun_ops ops pinit in
  In e (p_sched s) -> s_gen e = p_gen s /\ In (s_name e) (map fst (p_dict s)).
Proof. exact C18.PProofs.plugin_live. Qed.
Print Assumptions C18_plugin_live.

(* no one-shot request is ever executed twice, in any history of add / remind / repeat / remove, clock advances, run(),
   reload, unload ... load and restart (p_done = the one-shot requests executed so far).  This was refuted for the plugin
   before the repair of C18.F24 (C18_plugin_once_refuted_old_die). *)
Theorem C18_plugin_once :
  forall ops, NoDup (p_done (prun_ops ops pinit)).
Proof. exact C18.PProofs.plugin_once. Qed.
Print Assumptions C18_plugin_once.

(* ... because an executed one-shot request is neither scheduled nor listed any more *)
Theorem C18_plugin_done_gone :
  forall ops c, let s := prun_ops ops pinit in
  In c (p_done s) -> ~ In c (map s_cmd (p_sched s)) /\ ~ In c (map (fun kv => pcmd (snd kv)) (p_dict s)).
Proof. exact C18.PProofs.plugin_done_gone. Qed.
Print Assumptions C18_plugin_done_gone.

(* the same model with the die() of before the repair (it left the events scheduled): a request runs twice *)
Theorem C18_plugin_once_refuted_old_die :
  exists ops, ~ NoDup (p_done (prun_ops_with false ops pinit)).
Proof. exact C18.PProofs.plugin_once_refuted_old_die. Qed.
Print Assumptions C18_plugin_once_refuted_old_die.

(* ===== "fires at least once" at plugin level -- the part the invariant carries.
   Loaded: every listed request has a schedule entry under its id (C18_plugin_listed_scheduled), which is a closure of
   the live instance (C18_plugin_live); run() of src/schedule.py executes every due entry (C18_due_executed,
   C18_run_drains); that closure deletes the request from the live dict and it is recorded in p_done (C18_plugin_done_gone).
   Unloaded: nothing of the plugin is scheduled and the pickle is exactly the list (C18_plugin_unloaded_pickled).
   NOT proved (checked by the direct oracle on every generated history): that a request stays listed from its acceptance
   until it fires or is removed, step by step through the loop of _restoreEvents, and the drain of PModel's own loop. ===== *)
Theorem C18_plugin_listed_scheduled :
  forall ops k, let s := prun_ops ops pinit in
  p_loaded s = true -> In k (map fst (p_dict s)) -> In k (map s_name (p_sched s)).
Proof. exact C18.PProofs.plugin_listed_scheduled. Qed.
Print Assumptions C18_plugin_listed_scheduled.

Theorem C18_plugin_unloaded_pickled :
  forall ops, let s := prun_ops ops pinit in p_loaded s = false -> p_sched s = [] /\ p_pickle s = p_dict s.
Proof. exact C18.PProofs.plugin_unloaded_pickled. Qed.
Print Assumptions C18_plugin_unloaded_pickled.

Theorem C18_plugin_ids_bounded :
  forall ops i, let s := prun_ops ops pinit in In (Auto i) (map fst (p_dict s)) -> (i < p_counter s)%N.
Proof. exact C18.PProofs.plugin_ids_bounded. Qed.
Print Assumptions C18_plugin_ids_bounded.
