(* C07/Model.v — exception-flow model of the connection loop:
     drivers.run                      src/drivers/__init__.py:144-172
     SocketDriver.run/_select/_read/_sendIfMsgs   src/drivers/Socket.py:122-230
     drivers.parseMsg                 src/drivers/__init__.py:242-248   (parser = C05.Model.parse)
     log.firewall                     src/log.py:357-380
     Irc.feedMsg / takeMsg / doPing   src/irclib.py:1354-1420, 1257-1327, 2024
   Handlers (Irc.doXXX, IrcState.addMsg) and plugin callbacks (inFilter, __call__,
   outFilter) are arbitrary functions: they mutate an abstract state, may ask the
   driver to reconnect, and may raise any exception class, *after* mutating.
   The except-clause lists and __firewalled__ dictionaries come from gen/T07.v.
   No proofs in this file. *)
From Coq Require Import List NArith ZArith Bool.
Import ListNotations.
Require Import Base.Wire Base.PyStr.
Require C05.Model.
Require gen.T07.
Import C05.Model.
Open Scope N_scope.

(* ---- exception classes that the except clauses of this code distinguish ---- *)
Inductive xc : Type :=
| XE (e : exn)      (* a subclass of Exception that is not an OSError: the Wire enum *)
| XOSError          (* socket.error = OSError *)
| XTimeout          (* socket.timeout *)
| XSSLTimeout       (* ssl.SSLError('The read operation timed out') *)
| XSSLOther         (* any other ssl.SSLError *)
| XBase             (* BaseException but not Exception: SystemExit, KeyboardInterrupt, ... *)
| XP (e p : exn).   (* like XE e, and the traceback passes through a frame whose `self`/`cls` object has an attribute
                       whose getter raises p when inspected (a property of the faulty plugin) *)

(* the class of an exception, for isinstance *)
Definition class_of (x : xc) : xc := match x with XP e _ => XE e | _ => x end.

Definition cls := gen.T07.cls.

(* issubclass among the Wire exceptions: MalformedIrcMsg and UnicodeError derive from ValueError *)
Definition exn_sub (e' e : exn) : bool :=
  exn_eqb e' e || (exn_eqb e ValueError && (exn_eqb e' MalformedIrcMsg || exn_eqb e' UnicodeError)).

(* isinstance(x, c) for an except clause c *)
Definition matches (c : cls) (x0 : xc) : bool :=
  let x := class_of x0 in
  match c with
  | gen.T07.CBare => true
  | gen.T07.CException => match x with XBase => false | _ => true end
  | gen.T07.CSocketError => match x with XOSError | XTimeout | XSSLTimeout | XSSLOther => true | _ => false end
  | gen.T07.CSocketTimeout => match x with XTimeout => true | _ => false end
  | gen.T07.CSSLError => match x with XSSLTimeout | XSSLOther => true | _ => false end
  | gen.T07.CExn e => match x with XE e' => exn_sub e' e | _ => false end
  end.

Definition caught (cs : list cls) (x : xc) : bool := existsb (fun c => matches c x) cs.

Fixpoint first_match (cs : list cls) (x : xc) : option cls :=
  match cs with
  | [] => None
  | c :: cs' => if matches c x then Some c else first_match cs' x
  end.

(* ---- the log call of an except handler is code that can raise ----
   supybot.log.Logger._log runs every message through utils.str.format(template, *args): a directive without an
   argument raises ValueError('Extra format chars').  gen.T07.HANDLER_LOGS records, for each log call found in the
   handlers on the read path, (site, (template is a string constant, (directives in the constant part, arguments))).
   Sites: 0 = per-line guard of _read around parseMsg, 1 = drivers.run, 2 = log.firewall (logException),
   3/4/5 = the addMsg / inFilter / callback handlers of Irc.feedMsg, 6 = a per-line guard around feedMsg,
   7 = the guard of callback.reset() in Irc.reset (reconnect path: inventoried and checked by handler_logs_ok, not run by the model). *)
Definition log_entry : Type := (N * (bool * (N * N)))%type.
Definition site_entries (site : N) : list log_entry :=
  filter (fun e => N.eqb (fst e) site) gen.T07.HANDLER_LOGS.
(* a constant template raises iff it has more argument-consuming directives than arguments; a template that is
   not a constant is taken to raise (the extractor accepts that shape at site 0 only, modelled below) *)
Definition entry_raises (e : log_entry) : bool :=
  let '(_, (c, (nd, na))) := e in negb c || N.ltb na nd.
Definition site_raises (site : N) : bool := existsb entry_raises (site_entries site).

(* utils.str._formatRe = '%((?:\d+)?\.\d+f|[bfhiLnpqrsStTuv%])' scanned by re.sub: the number of directives that
   pop an argument ('%%' pops none) *)
Fixpoint drop_digits (s : str) : str :=
  match s with
  | c :: s' => if mem c gen.T07.FORMAT_DIGITS then drop_digits s' else s
  | [] => []
  end.
(* after '%': (?:\d+)?\.\d+f *)
Definition float_match (s : str) : option str :=
  match drop_digits s with
  | 46 :: r' =>
      let r'' := drop_digits r' in
      if Nat.ltb (length r'') (length r') then
        match r'' with 102 :: rest => Some rest | _ => None end
      else None
  | _ => None
  end.
Fixpoint consuming_f (fuel : nat) (s : str) : N :=
  match fuel with
  | O => 0
  | S f =>
      match s with
      | [] => 0
      | c :: s' =>
          if N.eqb c 37 then
            match float_match s' with
            | Some rest => 1 + consuming_f f rest
            | None =>
                match s' with
                | d :: s'' =>
                    if mem d gen.T07.FORMAT_CHARS
                    then (if N.eqb d 37 then 0 else 1) + consuming_f f s''
                    else consuming_f f s'
                | [] => 0
                end
            end
          else consuming_f f s'
      end
  end.
Definition consuming (s : str) : N := consuming_f (length s) s.

(* site 0 logs the rejected line: in argument position it cannot raise; in template position (string built with
   %, + or .format: repr/str keep every directive of the line) each directive of the line wants an argument *)
Definition guard_log_raises (line : str) : bool :=
  existsb (fun e : log_entry =>
             let '(_, (c, (nd, na))) := e in
             if c then N.ltb na nd else N.ltb na (nd + consuming line))
          (site_entries 0).

(* a try/except that goes on without logging: the exception that still propagates *)
Definition through_try (cs : list cls) (x : option xc) : option xc :=
  match x with
  | None => None
  | Some e => if caught cs e then None else Some e
  end.

(* log.Logger.exception calls utils.python.collect_extra_debug_data() (eagerly, as an argument of self.debug): it
   walks the frames of the traceback being handled and getattr()s every dir() name of their `self`/`cls` objects, under
   the except clauses gen.T07.HELPER_GETATTR_CATCHES.  A getter exception those do not catch leaves the helper, hence
   the handler; its own traceback again passes through that object. *)
Definition helper_raises (x : xc) : option xc :=
  match x with
  | XP _ p => if caught gen.T07.HELPER_GETATTR_CATCHES (XE p) then None else Some (XP p p)
  | _ => None
  end.

(* what the log call of the handler at [site] does while handling x: None = returns *)
Definition handler_outcome (site : N) (x : xc) : option xc :=
  if site_raises site then Some (XE ValueError)
  else if mem site gen.T07.EXCEPTION_SITES then helper_raises x else None.

(* a try/except whose handler logs (site) and goes on: the handler itself may raise *)
Definition through_try_at (site : N) (cs : list cls) (x : option xc) : option xc :=
  match x with
  | None => None
  | Some e => if caught cs e then handler_outcome site e else Some e
  end.

(* log.firewall(f) with log.testing = False: `except Exception` (the table) logs (site 2) and swallows *)
Definition through_fw (is_fw : bool) (x : option xc) : option xc :=
  if is_fw then through_try_at 2 gen.T07.FIREWALL_CATCHES x else x.

Definition s_feedMsg : str := [102; 101; 101; 100; 77; 115; 103].
Definition s_takeMsg : str := [116; 97; 107; 101; 77; 115; 103].
Definition s_addMsg : str := [97; 100; 100; 77; 115; 103].
Definition s_call : str := [95; 95; 99; 97; 108; 108; 95; 95].
Definition s_inFilter : str := [105; 110; 70; 105; 108; 116; 101; 114].
Definition s_outFilter : str := [111; 117; 116; 70; 105; 108; 116; 101; 114].

Definition fw_irc (name : str) : bool := existsb (seq_eqb name) gen.T07.IRC_FIREWALLED.
Definition fw_state (name : str) : bool := existsb (seq_eqb name) gen.T07.STATE_FIREWALLED.

(* ---- which methods of a callback class get the firewall: log.MetaFirewall.__new__ over the class hierarchy ----
   gen.T07.PYCLASSES: (class, (bases, (MRO, own __firewalled__ keys))) for object, Firewalled, SynchronizedAndFirewalled,
   IrcCommandDispatcher, IrcCallback, BasePlugin, Commands, PluginMixin, Plugin, PluginRegexp. *)
Inductive cbkind : Type :=
| KCallback        (* class X(irclib.IrcCallback) *)
| KPlugin          (* class X(callbacks.Plugin): what every plugin is *)
| KPluginRegexp.   (* class X(callbacks.PluginRegexp) *)
Definition kind_base (k : cbkind) : str :=
  match k with
  | KCallback => [73; 114; 99; 67; 97; 108; 108; 98; 97; 99; 107]
  | KPlugin => [80; 108; 117; 103; 105; 110]
  | KPluginRegexp => [80; 108; 117; 103; 105; 110; 82; 101; 103; 101; 120; 112]
  end.
Fixpoint class_row (n : str) (l : list (str * (list str * (list str * option (list str)))))
  : option (list str * (list str * option (list str))) :=
  match l with
  | [] => None
  | (c, r) :: l' => if seq_eqb n c then Some r else class_row n l'
  end.
Definition class_mro (n : str) : list str :=
  match class_row n gen.T07.PYCLASSES with Some (_, (m, _)) => m | None => [] end.
Definition class_own_fw (n : str) : option (list str) :=
  match class_row n gen.T07.PYCLASSES with Some (_, (_, o)) => o | None => None end.
(* `hasattr(base, '__firewalled__')` / `base.__firewalled__`: attribute lookup = the first class of the MRO whose
   body has one *)
Fixpoint first_fw (mro : list str) : list str :=
  match mro with
  | [] => []
  | c :: r => match class_own_fw c with Some d => d | None => first_fw r end
  end.
(* `for klass in reversed(base.__mro__): update(klass.__dict__.get('__firewalled__', []))` *)
Definition all_fw (mro : list str) : list str :=
  flat_map (fun c => match class_own_fw c with Some d => d | None => [] end) (rev mro).
(* the keys of `firewalled` in MetaFirewall.__new__(cls, name, bases, classdict) for a class body without its own
   __firewalled__ *)
Definition merged_fw (bases : list str) : list str :=
  flat_map (fun b => if gen.T07.METAFIREWALL_MERGES_MRO then all_fw (class_mro b) else first_fw (class_mro b)) bases.
(* `if attr in classdict: classdict[attr] = firewall(...)`: a method that a callback class of this kind defines *)
Definition fw_cb (k : cbkind) (name : str) : bool := existsb (seq_eqb name) (merged_fw [kind_base k]).

(* ---- what a handler does: new state, "asked driver.reconnect()", exception raised afterwards ---- *)
Record hres (St : Type) : Type := HR { h_st : St; h_reconn : bool; h_exc : option xc }.
Arguments HR {St}. Arguments h_st {St}. Arguments h_reconn {St}. Arguments h_exc {St}.

(* a plugin callback: inFilter (bool = returned a true value), __call__, outFilter (on a PONG payload).
   The first argument of the incoming hooks is the index of the feedMsg call. *)
Record cb (St : Type) : Type := CB {
  cb_kind : cbkind;
  cb_in : N -> msg -> St -> hres St * bool;
  cb_call : N -> msg -> St -> hres St;
  cb_out : str -> St -> hres St }.
Arguments CB {St}. Arguments cb_kind {St}. Arguments cb_in {St}. Arguments cb_call {St}. Arguments cb_out {St}.

(* ---- driver + Irc core state ---- *)
(* the entries of irc.state.supported (ISUPPORT, numeric 005) that the per-message path reads BEFORE dispatch:
   Irc._tagMsg -> _setMsgChannel -> stripChannelPrefix / isChannel.  None = key absent. *)
Record isup : Type := IS {
  i_chantypes : option (option str);     (* Some None: the key is there with the value None (token without '=') *)
  i_chanlen_none : option bool;          (* Some true: supported['channellen'] is None; Some false: an int *)
  i_statusmsg : option (option str) }.
Definition isup0 : isup := IS None None None.

Record dstate : Type := DS {
  sup : isup;                (* irc.state.supported, the three entries above *)
  connected : bool;          (* SocketDriver.connected *)
  outq : list str;           (* Irc.fastqueue, PONG payloads only *)
  outbuf : list str;         (* SocketDriver.outbuffer (bytes): PONG payloads encoded but not yet written *)
  sent : list str;           (* PONG payloads handed to conn.send, oldest first *)
  nfed : N;                  (* number of feedMsg calls so far *)
  fedl : list str }.         (* the lines given to feedMsg, newest first *)

Definition set_conn (c : bool) (d : dstate) := DS (sup d) c (outq d) (outbuf d) (sent d) (nfed d) (fedl d).
Definition set_outq (q : list str) (d : dstate) := DS (sup d) (connected d) q (outbuf d) (sent d) (nfed d) (fedl d).
Definition set_outbuf (q : list str) (d : dstate) := DS (sup d) (connected d) (outq d) q (sent d) (nfed d) (fedl d).
Definition set_sent (q : list str) (d : dstate) := DS (sup d) (connected d) (outq d) (outbuf d) q (nfed d) (fedl d).
Definition note_fed (l : str) (d : dstate) := DS (sup d) (connected d) (outq d) (outbuf d) (sent d) (nfed d + 1) (l :: fedl d).

Definition set_sup (i : isup) (d : dstate) := DS i (connected d) (outq d) (outbuf d) (sent d) (nfed d) (fedl d).

(* ---- ISUPPORT: IrcState.do005 ---- *)
Definition s_005 : str := [48; 48; 53].
Definition s_chantypes : str := [99; 104; 97; 110; 116; 121; 112; 101; 115].
Definition s_channellen : str := [99; 104; 97; 110; 110; 101; 108; 108; 101; 110].
Definition s_statusmsg : str := [115; 116; 97; 116; 117; 115; 109; 115; 103].
Definition s_NOTICE : str := [78; 79; 84; 73; 67; 69].
Definition s_PRIVMSG : str := [80; 82; 73; 86; 77; 83; 71].
Definition default_chantypes : str := [35; 38; 33].        (* ircutils.isChannel(chantypes='#&!') *)
(* InsensitivePreservingDict key: s.lower(); only ASCII matters for the three names (checked by the extractor) *)
Definition lower_ascii (s : str) : str := map (fun c => if N.leb 65 c && N.leb c 90 then c + 32 else c) s.

(* int(v) succeeds: whitespace stripped, optional sign, decimal digits (any Unicode Nd) with single '_' between *)
Fixpoint digits_us (s : str) (prev_digit : bool) : bool :=
  match s with
  | [] => prev_digit
  | c :: s' =>
      if mem c gen.T07.FORMAT_DIGITS then digits_us s' true
      else if N.eqb c 95 then prev_digit && digits_us s' false
      else false
  end.
Definition int_ok (v : str) : bool :=
  let s := strip gen.T07.PY_WS v in
  let s' := match s with c :: r => if N.eqb c 43 || N.eqb c 45 then r else s | [] => [] end in
  match s' with c :: _ => mem c gen.T07.FORMAT_DIGITS && digits_us s' false | [] => false end.

(* one token of `for arg in msg.args[1:-1]` *)
Definition apply_token (i : isup) (arg : str) : isup :=
  match split1 [61] arg with
  | Some (name, value) =>
      let k := lower_ascii name in
      if seq_eqb k s_chantypes then IS (Some (Some value)) (i_chanlen_none i) (i_statusmsg i)
      else if seq_eqb k s_channellen then
        (* converter int: `except Exception: log.exception(...)` leaves the entry as it was *)
        if int_ok value then IS (i_chantypes i) (Some false) (i_statusmsg i) else i
      else if seq_eqb k s_statusmsg then IS (i_chantypes i) (i_chanlen_none i) (Some (Some value))
      else i
  | None =>
      (* self.supported[arg] = None *)
      let k := lower_ascii arg in
      if seq_eqb k s_chantypes then IS (Some None) (i_chanlen_none i) (i_statusmsg i)
      else if seq_eqb k s_channellen then IS (i_chantypes i) (Some true) (i_statusmsg i)
      else if seq_eqb k s_statusmsg then IS (i_chantypes i) (i_chanlen_none i) (Some None)
      else i
  end.
Definition apply_005 (args : list str) (i : isup) : isup := fold_left apply_token (removelast (tl args)) i.

(* Irc.isChannel(s) raises TypeError: ircutils.isChannel evaluates `s[0] in chantypes` / `len(s) <= channellen`
   with None.  gen.T07.ISCHANNEL_NONE_SAFE: Irc.isChannel passes an entry on only when it is not None. *)
Definition is_channel_raises (i : isup) (s : str) : bool :=
  if gen.T07.ISCHANNEL_NONE_SAFE then false
  else
    match s with
    | [] => false
    | c :: _ =>
        if mem 44 s || mem 7 s then false
        else
          match i_chantypes i with
          | Some None => true
          | ct =>
              let types := match ct with Some (Some v) => v | _ => default_chantypes end in
              mem c types && match i_chanlen_none i with Some true => true | _ => false end
          end
    end.
(* _setMsgChannel(msg) raises *)
Definition tag_raises (i : isup) (command : str) (args : list str) : bool :=
  match args with
  | [] => false
  | a :: _ =>
      let ch :=
        if seq_eqb command s_NOTICE || seq_eqb command s_PRIVMSG then
          (* stripChannelPrefix: channel.lstrip(supported.get('statusmsg', '')) ; lstrip(None) strips whitespace *)
          match i_statusmsg i with
          | None => a
          | Some None => lstrip gen.T07.PY_WS a
          | Some (Some chars) => lstrip chars a
          end
        else a in
      is_channel_raises i ch
  end.

(* driver.reconnect() as far as this model goes: the connection is dropped *)
Definition apply_reconn (r : bool) (d : dstate) : dstate := if r then set_conn false d else d.

(* command.upper().capitalize() == 'Ping'  (getattr(self, 'doPing')) *)
Definition is_ping (c : str) : bool :=
  match c with
  | [p; i; n; g] => (N.eqb p 80 || N.eqb p 112) && (N.eqb i 73 || N.eqb i 105) &&
                    (N.eqb n 78 || N.eqb n 110) && (N.eqb g 71 || N.eqb g 103)
  | _ => false
  end.

Definition LFb : N := 10.

(* str.encode() (utf-8, strict) succeeds: no surrogate code point U+D800..U+DFFF *)
Definition enc_char (c : N) : bool := N.ltb c 55296 || N.ltb 57343 c.
Definition encodable (s : str) : bool := forallb enc_char s.
Definition is_nil {A} (l : list A) : bool := match l with [] => true | _ => false end.

(* inbuffer.split(b'\n'); inbuffer = lines.pop() *)
Definition split_lines (buf : bytes) : list bytes * bytes :=
  let ps := split_char LFb buf in (removelast ps, last ps []).

(* what conn.recv does: an explicit input *)
Inductive recv : Type :=
| RData (b : bytes)      (* non-empty data *)
| RClosed                (* b'' *)
| RRaise (x : xc).

Section Flow.
Variable St : Type.
Variable vt : str -> bool.                  (* datetime.strptime succeeds *)
Variable decode : bytes -> str.             (* utils.str.decode_raw_line: total *)
Variable dispatch : N -> msg -> St -> hres St.   (* Irc.doXXX for any command but PING *)
Variable addmsg : N -> msg -> St -> hres St.     (* IrcState.addMsg *)
Variable cbs : list (cb St).                     (* irc.callbacks *)

(* drivers.parseMsg *)
Definition parse_msg (s0 : str) : res (option msg) :=
  let s := strip gen.T07.PY_WS s0 in
  match s with
  | [] => Ok None
  | _ => match parse vt s with Ok m => Ok (Some m) | Raise e => Raise e end
  end.

Definition pstate : Type := (dstate * St)%type.

(* the in-filter loop of feedMsg: (state, exception leaving the loop, go on to the callbacks?) *)
Fixpoint run_infilters (n : N) (m : msg) (l : list (cb St)) (p : pstate) : pstate * option xc * bool :=
  match l with
  | [] => (p, None, true)
  | c :: l' =>
      let '(r, keep) := cb_in c n m (snd p) in
      let p' := (apply_reconn (h_reconn r) (fst p), h_st r) in
      match h_exc r with
      | Some e =>
          (* firewall(inFilter) has the error handler `lambda self, irc, msg: msg`; then feedMsg's own try *)
          match through_try_at 4 gen.T07.FEED_INFILTER_CATCHES (through_fw (fw_cb (cb_kind c) s_inFilter) (Some e)) with
          | Some e' => (p', Some e', false)
          | None => run_infilters n m l' p'
          end
      | None => if keep then run_infilters n m l' p' else (p', None, false)
      end
  end.

Fixpoint run_calls (n : N) (m : msg) (l : list (cb St)) (p : pstate) : pstate * option xc :=
  match l with
  | [] => (p, None)
  | c :: l' =>
      let r := cb_call c n m (snd p) in
      let p' := (apply_reconn (h_reconn r) (fst p), h_st r) in
      match through_try_at 5 gen.T07.FEED_CALLBACK_CATCHES (through_fw (fw_cb (cb_kind c) s_call) (h_exc r)) with
      | Some e => (p', Some e)
      | None => run_calls n m l' p'
      end
  end.

(* Irc.feedMsg from `self.state.addMsg(self, msg)` on *)
Definition feed_rest (n : N) (m : msg) (d : dstate) (s : St) : pstate * option xc :=
  let r := addmsg n m s in
  let d1 := apply_reconn (h_reconn r) d in
  (* IrcState.addMsg dispatches to do005, which rewrites state.supported (if addMsg got that far) *)
  let d2 := match h_exc r with
            | None => if seq_eqb (m_command m) s_005 then set_sup (apply_005 (m_args m) (sup d1)) d1 else d1
            | Some _ => d1
            end in
  let p2 := (d2, h_st r) in
  match through_try_at 3 gen.T07.FEED_ADDMSG_CATCHES (through_fw (fw_state s_addMsg) (h_exc r)) with
  | Some e => (p2, Some e)
  | None =>
      match run_infilters n m cbs p2 with
      | (p3, Some e, _) => (p3, Some e)
      | (p3, None, false) => (p3, None)
      | (p3, None, true) => run_calls n m cbs p3
      end
  end.

(* the body of Irc.feedMsg *)
Definition feed_body (n : N) (m : msg) (p : pstate) : pstate * option xc :=
  let '(d, s) := p in
  (* self._tagMsg(msg) -> _setMsgChannel -> self.isChannel(channel) *)
  if tag_raises (sup d) (m_command m) (m_args m) then (p, Some (XE TypeError))
  else
  (* `if msg.command in self._nickSetters: if msg.args[0] != self.nick` *)
  if existsb (seq_eqb (m_command m)) gen.T07.NICK_SETTERS && is_nil (m_args m)
  then (p, Some (XE IndexError))
  else
    let '(p1, x1) :=
      if is_ping (m_command m) then
        (* doPing: self.sendMsg(ircmsgs.pong(msg.args[0])) *)
        match m_args m with
        | [] => (p, Some (XE IndexError))
        | a :: _ =>
            (* IrcMsg(command='PONG', args=(a,)) asserts isValidArgument *)
            if valid_arg a then ((set_outq (outq d ++ [a]) d, s), None)
            else (p, Some (XE AssertionError))
        end
      else
        let r := dispatch n m s in ((apply_reconn (h_reconn r) d, h_st r), h_exc r) in
    match x1 with
    | Some e => (p1, Some e)
    | None => feed_rest n m (fst p1) (snd p1)
    end.

(* Irc.feedMsg = firewall(body) *)
Definition feed_msg (line : str) (m : msg) (p : pstate) : pstate * option xc :=
  let n := nfed (fst p) in
  let '(p', x) := feed_body n m (note_fed line (fst p), snd p) in
  (p', through_fw (fw_irc s_feedMsg) x).

(* the `for line in lines` loop of _read *)
Fixpoint feed_lines (ls : list bytes) (p : pstate) : pstate * option xc :=
  match ls with
  | [] => (p, None)
  | l :: ls' =>
      let line := decode l in
      match parse_msg line with
      | Raise e =>
          if caught gen.T07.LOOP_GUARD_PARSE (XE e) then
            (* drivers.log.warning('Ignoring malformed message: %r', line); continue *)
            if guard_log_raises line then (p, Some (XE ValueError)) else feed_lines ls' p
          else (p, Some (XE e))
      | Ok None => feed_lines ls' p
      | Ok (Some m) =>
          let '(p', x) := feed_msg (strip gen.T07.PY_WS line) m p in
          match through_try_at 6 gen.T07.LOOP_GUARD_FEED x with
          | Some e => (p', Some e)
          | None => feed_lines ls' p'
          end
      end
  end.

(* the out-filter loop of takeMsg (callbacks reversed by the caller) *)
Fixpoint run_outfilters (a : str) (l : list (cb St)) (p : pstate) : pstate * option xc :=
  match l with
  | [] => (p, None)
  | c :: l' =>
      let r := cb_out c a (snd p) in
      let p' := (apply_reconn (h_reconn r) (fst p), h_st r) in
      match through_fw (fw_cb (cb_kind c) s_outFilter) (h_exc r) with
      | Some e => (p', Some e)
      | None => run_outfilters a l' p'       (* error handler returns msg *)
      end
  end.

(* the takeMsg loop of _sendIfMsgs: [acc] = msgs collected so far (a local variable:
   lost when an exception leaves).  Returns (state, collected, exception leaving _sendIfMsgs). *)
Fixpoint take_all (fuel : nat) (acc : list str) (p : pstate) : pstate * list str * option xc :=
  match fuel with
  | O => (p, acc, None)
  | S fuel' =>
      match outq (fst p) with
      | [] => (p, acc, None)                           (* takeMsg returns None *)
      | a :: q =>
          let p0 := (set_outq q (fst p), snd p) in     (* fastqueue.dequeue() *)
          (* `for callback in reversed(self.callbacks): self._setMsgChannel(msg); msg = callback.outFilter(...)`:
             with at least one callback the PONG is tagged first; a TypeError there is under the takeMsg firewall *)
          if negb (is_nil cbs) && tag_raises (sup (fst p)) [80; 79; 78; 71] [a] then
            match through_fw (fw_irc s_takeMsg) (Some (XE TypeError)) with
            | None => (p0, acc, None)
            | Some e' => (p0, acc, Some e')
            end
          else
          let '(p1, x) := run_outfilters a (rev cbs) p0 in
          match x with
          | None =>
              (* self._truncateMsg(msg): msg_rest_str.encode('utf-8') inside takeMsg, under no try but the firewall *)
              if negb gen.T07.TRUNCATE_ENCODES || encodable a then take_all fuel' (acc ++ [a]) p1
              else
                match through_fw (fw_irc s_takeMsg) (Some (XE UnicodeError)) with
                | None => (p1, acc, None)              (* logged; takeMsg returns None: loop stops, [a] is dropped *)
                | Some e' => (p1, acc, Some e')
                end
          | Some e =>
              match through_fw (fw_irc s_takeMsg) (Some e) with
              | None => (p1, acc, None)                (* firewall makes takeMsg return None: loop stops, [a] is lost *)
              | Some e' => (p1, acc, Some e')
              end
          end
      end
  end.

(* SocketDriver._sendIfMsgs with a conn.send that accepts everything:
     data = ''.join(map(str, msgs)).encode(); self.outbuffer += data; sent = self.conn.send(self.outbuffer)
   outbuffer holds bytes; the encode of the messages just taken is outside every try: a lone surrogate would raise
   UnicodeEncodeError there (the messages taken are lost, the outbuffer is untouched) *)
Definition send_if_msgs (p : pstate) : pstate * option xc :=
  if connected (fst p) then
    let '(p', acc, x) := take_all (S (length (outq (fst p)))) [] p in
    match x with
    | Some e => (p', Some e)
    | None =>
        if forallb encodable acc
        then ((set_sent (sent (fst p') ++ outbuf (fst p') ++ acc) (set_outbuf [] (fst p')), snd p'), None)
        else (p', Some (XE UnicodeError))
    end
  else (p, None).

(* _handleSocketError(e) for e None or errno <> EAGAIN: close, connected = False, scheduleReconnect *)
Definition disconnect (p : pstate) : pstate := (set_conn false (fst p), snd p).

(* the try body of SocketDriver._read; [buf] = self.inbuffer (only this function touches it).
   Returns (inbuffer, state, exception, returned early) *)
Definition read_body (rv : recv) (buf : bytes) (p : pstate) : bytes * pstate * option xc * bool :=
  match rv with
  | RRaise e => (buf, p, Some e, false)
  | RClosed => (buf, disconnect p, None, true)
  | RData b =>
      let '(ls, rest) := split_lines (buf ++ b) in
      let '(p', x) := feed_lines ls p in
      (rest, p', x, false)
  end.

(* the except clauses of _read and the trailing _sendIfMsgs *)
Definition read_tail (p1 : pstate) (x : option xc) (returned : bool) : pstate * option xc :=
  if returned then (p1, None)
  else
    match x with
    | None => send_if_msgs p1
    | Some e =>
        match first_match gen.T07.READ_CATCHES e with
        | None => (p1, Some e)                                  (* leaves _read *)
        | Some gen.T07.CSocketTimeout => send_if_msgs p1        (* pass *)
        | Some gen.T07.CSSLError =>
            match e with XSSLTimeout => send_if_msgs p1 | _ => (disconnect p1, None) end
        | Some _ => (disconnect p1, None)                       (* socket.error *)
        end
    end.

(* SocketDriver._read *)
Definition read (rv : recv) (buf : bytes) (p : pstate) : bytes * (pstate * option xc) :=
  let '(buf', p1, x, returned) := read_body rv buf p in (buf', read_tail p1 x returned).

(* SocketDriver.run: _sendIfMsgs(); _select() -> _read(); _sendIfMsgs().
   _select's `except select.error` is transparent for what leaves _read (checked by the extractor). *)
Definition driver_run (rv : recv) (buf : bytes) (p : pstate) : bytes * (pstate * option xc) :=
  if connected (fst p) then
    let '(p1, x1) := send_if_msgs p in
    match x1 with
    | Some e => (buf, (p1, Some e))
    | None =>
        let '(buf', (p2, x2)) := read rv buf p1 in
        match x2 with
        | Some e => (buf', (p2, Some e))
        | None => (buf', send_if_msgs p2)
        end
    end
  else (buf, (p, None)).

(* the registry drivers._drivers as far as one driver goes *)
Record mstate : Type := MS {
  m_buf : bytes;                  (* SocketDriver.inbuffer *)
  m_p : pstate;
  alive : bool;                   (* name in drivers._drivers *)
  crashed : bool;                 (* an exception left drivers.run() itself *)
  escapes : list (option xc) }.   (* per drivers.run(): what left driver.run(), newest first *)

(* drivers.run() with this one driver; consumes one recv outcome per call *)
Definition drivers_run (ms : mstate) (rv : recv) : mstate :=
  if alive ms && negb (crashed ms) then
    let '(b', (p', x)) := driver_run rv (m_buf ms) (m_p ms) in
    match x with
    | None => MS b' p' true false (None :: escapes ms)
    | Some e =>
        if caught gen.T07.RUN_CATCHES e
        then
          (* log.exception('Uncaught exception in in drivers.run:') comes first in the handler *)
          match handler_outcome 1 e with
          | Some _ => MS b' p' true true (Some e :: escapes ms)
          | None => MS b' p' false false (Some e :: escapes ms)  (* _deadDrivers.add(name); del _drivers[name] *)
          end
        else MS b' p' true true (Some e :: escapes ms)
    end
  else ms.

Definition run_reads (rvs : list recv) (ms : mstate) : mstate := fold_left drivers_run rvs ms.

(* ---- the domain of the survival theorem: a line the parser rejects is skipped by the per-line guard of _read,
   and what it makes the bot echo can be encoded ---- *)
(* what the bot echoes for this message is encodable: the PONG payload of a PING that doPing accepts *)
Definition echo_ok (m : msg) : bool :=
  if is_ping (m_command m) then
    match m_args m with a :: _ => negb (valid_arg a) || encodable a | [] => true end
  else true.

Definition line_ok (l : bytes) : bool :=
  match parse_msg (decode l) with
  | Ok None => true
  | Ok (Some m) => echo_ok m
  | Raise e => caught gen.T07.LOOP_GUARD_PARSE (XE e) && negb (guard_log_raises (decode l))   (* logged and skipped *)
  end.

(* ... and conn.recv raises nothing but what _read's except clauses name *)
Fixpoint dom (rvs : list recv) (buf : bytes) : bool :=
  match rvs with
  | [] => true
  | RData b :: rvs' =>
      let '(ls, rest) := split_lines (buf ++ b) in forallb line_ok ls && dom rvs' rest
  | RClosed :: rvs' => dom rvs' buf
  | RRaise x :: rvs' => caught gen.T07.READ_CATCHES x && dom rvs' buf
  end.

(* the exceptions parseMsg raises over the stream (classifier of findings F3/F4) *)
Fixpoint parse_excs (rvs : list recv) (buf : bytes) : list exn :=
  match rvs with
  | [] => []
  | RData b :: rvs' =>
      let '(ls, rest) := split_lines (buf ++ b) in
      flat_map (fun l => match parse_msg (decode l) with Ok _ => [] | Raise e => [e] end) ls ++ parse_excs rvs' rest
  | _ :: rvs' => parse_excs rvs' buf
  end.
End Flow.

Arguments MS {St}. Arguments m_buf {St}. Arguments m_p {St}. Arguments alive {St}. Arguments crashed {St}. Arguments escapes {St}.

Definition ds0 : dstate := DS isup0 true [] [] [] 0 [].
Definition init {St} (s : St) : mstate St := MS [] (ds0, s) true false [].

(* ================= concrete instance for the extracted binary ================= *)
Definition exn_of_code (c : N) : exn :=
  match c with
  | 1 => IndexError | 2 => ValueError | 3 => KeyError | 4 => TypeError | 5 => AssertionError
  | 6 => AttributeError | 7 => UnicodeError | 8 => MalformedIrcMsg | 9 => SyntaxError
  | 10 => InvalidRegistryValue | 11 => DuplicateHostmask | _ => OtherError
  end.
Definition xc_of_code (c : N) : option xc :=
  match c with
  | 0 => None | 20 => Some XOSError | 21 => Some XTimeout | 22 => Some XSSLTimeout
  | 23 => Some XSSLOther | 24 => Some XBase | _ => Some (XE (exn_of_code c))
  end.
Definition code_of_xc (x : option xc) : N :=
  match x with
  | None => 0 | Some (XE e) => Z.to_N (exn_code e) | Some XOSError => 20 | Some XTimeout => 21
  | Some XSSLTimeout => 22 | Some XSSLOther => 23 | Some XBase => 24 | Some (XP e _) => Z.to_N (exn_code e)
  end.

Definition clog : Type := list (list N).     (* the test plugin's log, newest first *)

(* script rows: (n reconn code [keep]) *)
Fixpoint find_row (n : N) (rows : list (list N)) : list N :=
  match rows with
  | [] => []
  | r :: rows' => if N.eqb (nth 0 r 0) n then r else find_row n rows'
  end.
Definition row_res (r : list N) (s : clog) : hres clog :=
  HR s (negb (N.eqb (nth 1 r 0) 0)) (xc_of_code (nth 2 r 0)).

(* Irc's own handlers do not write to the plugin log *)
Definition c_handler (rows : list (list N)) (n : N) (_ : msg) (s : clog) : hres clog :=
  row_res (find_row n rows) s.

(* a callback object with a poisoned attribute (poison <> 0): whatever it raises carries it in its traceback *)
Definition poisoned (poison : N) (r : hres clog) : hres clog :=
  match h_exc r with
  | Some (XE e) => if N.eqb poison 0 then r else HR (h_st r) (h_reconn r) (Some (XP e (exn_of_code poison)))
  | _ => r
  end.
Definition kind_of_code (k : N) : cbkind := match k with 1 => KPlugin | 2 => KPluginRegexp | _ => KCallback end.
Definition c_cb (i : N) (in_rows call_rows : list (list N)) (trig code poison kind : N) : cb clog :=
  CB (kind_of_code kind) (fun n _ s => let r := find_row n in_rows in
                   (poisoned poison (row_res r ([1; n; i] :: s)), match r with [_; _; _; k] => negb (N.eqb k 0) | _ => true end))
     (fun n _ s => poisoned poison (row_res (find_row n call_rows) ([2; n; i] :: s)))
     (fun a s => let hit := negb (N.eqb code 0) &&
                            (N.eqb trig 0 || match a with c :: _ => N.eqb c trig | [] => false end) in
                 poisoned poison (HR ((3 :: i :: a) :: s) false (if hit then xc_of_code code else None))).

Fixpoint c_cbs (i : N) (l : list value) : list (cb clog) :=
  match l with
  | [] => []
  | v :: l' =>
      c_cb i (map (map gN) (map gL (gL (nth_v 0 v)))) (map (map gN) (map gL (gL (nth_v 1 v))))
           (gN (nth_v 0 (nth_v 2 v))) (gN (nth_v 1 (nth_v 2 v))) (gN (nth_v 3 v)) (gN (nth_v 4 v)) :: c_cbs (i + 1) l'
  end.

Definition g_recv (v : value) : recv :=
  match gN (nth_v 0 v) with
  | 0 => RData (gS (nth_v 1 v))
  | 1 => RClosed
  | _ => match xc_of_code (gN (nth_v 1 v)) with Some x => RRaise x | None => RClosed end
  end.

Fixpoint lookup_b (k : bytes) (t : list (bytes * str)) : option str :=
  match t with
  | [] => None
  | (k', v) :: t' => if seq_eqb k k' then Some v else lookup_b k t'
  end.
(* decode_raw_line: the graph supplied by the harness, identity on what it does not list *)
Definition c_decode (t : list (bytes * str)) (b : bytes) : str :=
  match lookup_b b t with Some s => s | None => b end.
Definition c_vt (ok : list str) (v : str) : bool := existsb (seq_eqb v) ok.

Definition g_rows (v : value) : list (list N) := map (map gN) (map gL (gL v)).
Definition g_dtab (v : value) : list (bytes * str) := map (fun p => (gS (nth_v 0 p), gS (nth_v 1 p))) (gL v).

Definition vX (x : option xc) : value := vN (code_of_xc x).

(* run: (op payload)
   op 0: payload = (chunks decode_table valid_times dispatch_rows addmsg_rows callbacks)
         -> (alive crashed (escape codes, oldest first) (PONG payloads sent) (plugin log, oldest first)
             (lines fed, oldest first) connected inbuf (PONG payloads stuck in outbuffer))
   op 1: payload = (chunks decode_table valid_times) -> dom
   op 2: same payload -> codes of the exceptions parseMsg raises
   op 3: payload = str -> number of argument-consuming utils.str.format directives *)
Definition run (v : value) : value :=
  let pl := nth_v 1 v in
  let rvs := map g_recv (gL (nth_v 0 pl)) in
  let dec := c_decode (g_dtab (nth_v 1 pl)) in
  let vt := c_vt (gLS (nth_v 2 pl)) in
  match gN (nth_v 0 v) with
  | 0 =>
      let ms := run_reads clog vt dec (c_handler (g_rows (nth_v 3 pl))) (c_handler (g_rows (nth_v 4 pl)))
                          (c_cbs 0 (gL (nth_v 5 pl))) rvs (init []) in
      let d := fst (m_p ms) in
      L [vB (alive ms); vB (crashed ms); L (map vX (rev (escapes ms))); vLS (sent d);
         L (map (fun e => L (map vN e)) (rev (snd (m_p ms)))); vLS (rev (fedl d)); vB (connected d); vS (m_buf ms); vLS (outbuf d);
         L [vO (vO vS) (i_chantypes (sup d)); vO vB (i_chanlen_none (sup d)); vO (vO vS) (i_statusmsg (sup d))]]
  | 1 => vB (dom vt dec rvs [])
  | 2 => L (map (fun e => I (exn_code e)) (parse_excs vt dec rvs []))
  | 3 => vN (consuming (gS pl))
  | 4 => vB (int_ok (gS pl))
  | 5 => L [vLS (class_mro (gS pl)); vLS (merged_fw [gS pl])]
  | _ => L []
  end.
