(* C07/Lemmas.v — the firewall lets nothing out; loop survival on the domain "every line parses" *)
From Coq Require Import List NArith ZArith Bool Lia.
Import ListNotations.
Require Import Base.Wire Base.PyStr C05.Model C07.Model.
Require gen.T05 gen.T07.
Open Scope N_scope.

(* ---------------- the finite universe of exception classes ---------------- *)
Definition all_exn : list exn :=
  [IndexError; ValueError; KeyError; TypeError; AssertionError; AttributeError; UnicodeError;
   MalformedIrcMsg; SyntaxError; InvalidRegistryValue; DuplicateHostmask; OtherError].
Definition all_xc : list xc := map XE all_exn ++ [XOSError; XTimeout; XSSLTimeout; XSSLOther; XBase].

(* every exception has its class in the universe (XP e p has the class of XE e) *)
Lemma all_xc_complete x : In (class_of x) all_xc.
Proof. destruct x as [e| | | | | |e p]; [destruct e|..|destruct e]; cbn; tauto. Qed.

Lemma caught_class cs x : caught cs x = caught cs (class_of x).
Proof.
  unfold caught. induction cs as [|c cs IH]; [reflexivity|]. cbn [existsb]. rewrite IH. f_equal.
  unfold matches. destruct x; reflexivity.
Qed.

Definition is_base (x : xc) : bool := match x with XBase => true | _ => false end.

(* ---------------- decidable sanity conditions on the regenerated tables ---------------- *)
Definition swallows_all (cs : list cls) : bool := forallb (caught cs) all_xc.
Definition fw_total : bool :=
  forallb (fun x => is_base x || caught gen.T07.FIREWALL_CATCHES x) all_xc.

(* IrcMsg.__init__ turns everything its string branch can raise into MalformedIrcMsg (repair of C05.F3) *)
Definition parse_catches_ok : bool :=
  forallb (fun e => existsb (exn_eqb e) gen.T05.PARSE_CATCHES) [IndexError; ValueError; TypeError].
(* SocketDriver._read logs and skips a line the parser rejects (repair of C07.F4) *)
Definition parse_guard_ok : bool := caught gen.T07.LOOP_GUARD_PARSE (XE MalformedIrcMsg).

(* every log call in a handler on the read path has a constant template with enough arguments: server-controlled
   text only ever sits in ARGUMENT position, so utils.str.format cannot raise inside a handler *)
Definition entry_safe (e : log_entry) : bool :=
  let '(_, (c, (nd, na))) := e in c && N.leb nd na.
Definition handler_logs_ok : bool := forallb entry_safe gen.T07.HANDLER_LOGS.

(* utils.python.collect_extra_debug_data (run by Logger.exception inside every swallowing handler) inspects foreign
   objects: its getattr must be under a guard that catches every Exception class, else a property of a faulty plugin
   that raises makes the handler itself raise *)
Definition helper_ok : bool := forallb (fun p => caught gen.T07.HELPER_GETATTR_CATCHES (XE p)) all_exn.

Definition all_kinds : list cbkind := [KCallback; KPlugin; KPluginRegexp].
Definition callback_fw_ok : bool :=
  forallb (fun k => fw_cb k s_outFilter && fw_cb k s_inFilter && fw_cb k s_call) all_kinds.

Definition tables_ok : bool :=
  handler_logs_ok && helper_ok &&
  (* Irc.isChannel hands an ISUPPORT entry to ircutils.isChannel only when it is not None (repair of C07.F45): a 005
     token without value cannot make _tagMsg / takeMsg raise for every later message *)
  gen.T07.ISCHANNEL_NONE_SAFE &&
  parse_catches_ok && parse_guard_ok &&
  (* Irc.takeMsg is firewalled and its _truncateMsg encodes the message: an unencodable one is logged and dropped
     there, so that data.encode() in _sendIfMsgs (outside every try) only ever sees encodable text *)
  fw_irc s_takeMsg && gen.T07.TRUNCATE_ENCODES &&
  (* every kind of callback class — derived from irclib.IrcCallback, callbacks.Plugin or callbacks.PluginRegexp — gets the
     firewall around the inFilter / __call__ / outFilter it defines: MetaFirewall's merge, computed over the class table *)
  callback_fw_ok &&
  fw_irc s_feedMsg && fw_total &&
  swallows_all gen.T07.FEED_ADDMSG_CATCHES && swallows_all gen.T07.FEED_INFILTER_CATCHES &&
  swallows_all gen.T07.FEED_CALLBACK_CATCHES &&
  forallb (fun s => Nat.eqb (length s) 3) gen.T07.NICK_SETTERS &&
  (* utils.str.decode_raw_line decodes with 'strict' or 'replace' only: it cannot produce lone surrogates,
     which is what the send side (outbuffer.encode()) relies on; see [echo_ok] in the domain *)
  forallb (fun h => seq_eqb h [115; 116; 114; 105; 99; 116] || seq_eqb h [114; 101; 112; 108; 97; 99; 101])
          gen.T07.DECODE_HANDLERS.

Lemma tables_ok_current : tables_ok = true.
Proof. vm_compute. reflexivity. Qed.

Lemma T_catches : parse_catches_ok = true.
Proof. vm_compute. reflexivity. Qed.
Lemma T_guard : parse_guard_ok = true.
Proof. vm_compute. reflexivity. Qed.
Lemma T_safe : gen.T07.ISCHANNEL_NONE_SAFE = true.
Proof. vm_compute. reflexivity. Qed.
Lemma chan_safe i s : is_channel_raises i s = false.
Proof. unfold is_channel_raises. rewrite T_safe. reflexivity. Qed.
Lemma tag_safe i c args : tag_raises i c args = false.
Proof. unfold tag_raises. destruct args; [reflexivity|apply chan_safe]. Qed.
Lemma T_helper : helper_ok = true.
Proof. vm_compute. reflexivity. Qed.
Lemma T_logs : handler_logs_ok = true.
Proof. vm_compute. reflexivity. Qed.
Lemma T_take : fw_irc s_takeMsg = true.
Proof. vm_compute. reflexivity. Qed.
Lemma T_trunc : gen.T07.TRUNCATE_ENCODES = true.
Proof. vm_compute. reflexivity. Qed.
Lemma T_feed : fw_irc s_feedMsg = true.
Proof. vm_compute. reflexivity. Qed.
Lemma T_cbfw : callback_fw_ok = true.
Proof. vm_compute. reflexivity. Qed.
Lemma T_out k : fw_cb k s_outFilter = true.
Proof.
  pose proof T_cbfw as H. unfold callback_fw_ok in H. rewrite forallb_forall in H.
  assert (Hk : In k all_kinds) by (destruct k; cbn; tauto).
  specialize (H k Hk). apply andb_true_iff in H as [H _]. apply andb_true_iff in H as [H _]. exact H.
Qed.
Lemma T_fw : fw_total = true.
Proof. vm_compute. reflexivity. Qed.
Lemma T_add : swallows_all gen.T07.FEED_ADDMSG_CATCHES = true.
Proof. vm_compute. reflexivity. Qed.
Lemma T_inf : swallows_all gen.T07.FEED_INFILTER_CATCHES = true.
Proof. vm_compute. reflexivity. Qed.
Lemma T_call : swallows_all gen.T07.FEED_CALLBACK_CATCHES = true.
Proof. vm_compute. reflexivity. Qed.
Lemma T_nick : forallb (fun s => Nat.eqb (length s) 3) gen.T07.NICK_SETTERS = true.
Proof. vm_compute. reflexivity. Qed.

(* generic consequences *)
Lemma entries_safe site : forallb entry_safe (site_entries site) = true.
Proof.
  pose proof T_logs as H. unfold handler_logs_ok in H. rewrite forallb_forall in H.
  apply forallb_forall. intros e He. apply H. unfold site_entries in He. apply filter_In in He. tauto.
Qed.

(* no handler on the read path raises *)
Lemma site_quiet site : site_raises site = false.
Proof.
  unfold site_raises. pose proof (entries_safe site) as H.
  induction (site_entries site) as [|e l IH]; [reflexivity|].
  cbn [forallb existsb] in *. apply andb_true_iff in H as [He Hl]. rewrite (IH Hl), orb_false_r.
  destruct e as [s [c [nd na]]]. cbn in *. apply andb_true_iff in He as [Hc Hn]. rewrite Hc. cbn.
  apply N.ltb_ge. apply N.leb_le. exact Hn.
Qed.

Lemma guard_quiet line : guard_log_raises line = false.
Proof.
  unfold guard_log_raises. pose proof (entries_safe 0) as H.
  induction (site_entries 0) as [|e l IH]; [reflexivity|].
  cbn [forallb existsb] in *. apply andb_true_iff in H as [He Hl]. rewrite (IH Hl), orb_false_r.
  destruct e as [s [c [nd na]]]. cbn in *. apply andb_true_iff in He as [Hc Hn]. rewrite Hc.
  apply N.ltb_ge. apply N.leb_le. exact Hn.
Qed.

(* the debug helper of Logger.exception never raises: whatever a getter of an inspected object raises is caught *)
Lemma helper_quiet x : helper_raises x = None.
Proof.
  pose proof T_helper as H. unfold helper_ok in H. rewrite forallb_forall in H.
  destruct x as [e| | | | | |e p]; [reflexivity..|]. unfold helper_raises.
  rewrite H; [reflexivity|]. destruct p; cbn; tauto.
Qed.

(* no handler on the read path raises while handling x *)
Lemma handler_quiet site x : handler_outcome site x = None.
Proof. unfold handler_outcome. rewrite site_quiet, helper_quiet. destruct (mem site _); reflexivity. Qed.

Lemma through_try_all site cs y : swallows_all cs = true -> through_try_at site cs y = None.
Proof.
  intro H. destruct y as [e|]; [|reflexivity]. cbn [through_try_at].
  unfold swallows_all in H. rewrite forallb_forall in H.
  rewrite caught_class, (H _ (all_xc_complete e)), handler_quiet. reflexivity.
Qed.

Lemma fw_catches_nonbase x : fw_total = true -> is_base x = false -> caught gen.T07.FIREWALL_CATCHES x = true.
Proof.
  intros H Hb. unfold fw_total in H. rewrite forallb_forall in H.
  specialize (H _ (all_xc_complete x)). rewrite caught_class.
  destruct x; cbn [class_of is_base] in *; try discriminate; exact H.
Qed.

Definition exc_ok (y : option xc) : Prop := y <> Some XBase.

Lemma through_fw_ok y : exc_ok y -> through_fw true y = None.
Proof.
  intro H. destruct y as [e|]; [|reflexivity]. cbn [through_fw through_try_at].
  rewrite fw_catches_nonbase; [rewrite handler_quiet; reflexivity|exact T_fw|].
  destruct e; try reflexivity. exfalso. apply H. reflexivity.
Qed.

Lemma first_match_caught cs x : caught cs x = true -> exists c, first_match cs x = Some c.
Proof.
  induction cs as [|c cs IH]; cbn; [discriminate|].
  destruct (matches c x); [eauto|]. exact IH.
Qed.

(* ---------------- parsing raises MalformedIrcMsg and nothing else ---------------- *)
Lemma parse_head_exn vt tg args e :
  parse_head vt tg args = Raise e -> e = IndexError \/ e = ValueError \/ e = TypeError.
Proof.
  unfold parse_head.
  destruct args as [|a0 rest]; [intro H; inversion H; auto|].
  destruct a0 as [|c a0']; [intro H; inversion H; auto|].
  destruct (N.eqb c COLON).
  - destruct rest as [|cmd rest']; cbn [bind]; [intro H; inversion H; auto|].
    destruct (dict_get time_key tg) as [[v|]|]; [destruct (vt v)| |]; intro H; inversion H; auto.
  - cbn [bind].
    destruct (dict_get time_key tg) as [[v|]|]; [destruct (vt v)| |]; intro H; inversion H; auto.
Qed.

Lemma split_tags_exn s e : split_tags s = Raise e -> e = IndexError \/ e = ValueError.
Proof.
  unfold split_tags. destruct s as [|c s']; [intro H; inversion H; auto|].
  destruct (N.eqb c AT); [|discriminate].
  destruct (split1 [SP] (c :: s')) as [[st rest]|]; [discriminate|]. intro H; inversion H; auto.
Qed.

Lemma parse_inner_exn vt s e :
  parse_inner vt s = Raise e -> e = IndexError \/ e = ValueError \/ e = TypeError.
Proof.
  unfold parse_inner.
  destruct (split_tags (if endswith1 LF s then s else s ++ [LF])) as [[tg rest]|e'] eqn:Es.
  - cbn [bind fst snd]. apply parse_head_exn.
  - cbn [bind]. intro H. inversion H; subst. apply split_tags_exn in Es. tauto.
Qed.

Lemma parse_only_malformed vt s e : parse vt s = Raise e -> e = MalformedIrcMsg.
Proof.
  pose proof T_catches as Hc. unfold parse_catches_ok in Hc. cbn [forallb] in Hc.
  apply andb_true_iff in Hc as [Hi Hc]. apply andb_true_iff in Hc as [Hv Hc]. apply andb_true_iff in Hc as [Ht _].
  unfold parse. destruct s as [|c0 s0]; [intro H; inversion H; reflexivity|].
  destruct (parse_inner vt (c0 :: s0)) as [m|e'] eqn:Ep; [discriminate|].
  apply parse_inner_exn in Ep. destruct Ep as [E|[E|E]]; subst e'; [rewrite Hi|rewrite Hv|rewrite Ht];
    intro H; inversion H; reflexivity.
Qed.

Lemma parse_msg_guarded vt s e : parse_msg vt s = Raise e -> caught gen.T07.LOOP_GUARD_PARSE (XE e) = true.
Proof.
  unfold parse_msg. destruct (strip gen.T07.PY_WS s) as [|c s']; [discriminate|].
  destruct (parse vt (c :: s')) as [m|e'] eqn:Ep; [discriminate|]. intro H. inversion H; subst e'.
  apply parse_only_malformed in Ep. subst e. exact T_guard.
Qed.

(* ---------------- the flow ---------------- *)
Section Proofs.
Variable St : Type.
Variable vt : str -> bool.
Variable decode : bytes -> str.
Variable dispatch addmsg : N -> msg -> St -> hres St.
Variable cbs : list (cb St).

Notation pstate := (pstate St).
Notation run_infilters := (run_infilters St).
Notation run_calls := (run_calls St).
Notation feed_body := (feed_body St dispatch addmsg cbs).
Notation feed_rest := (feed_rest St addmsg cbs).
Notation feed_msg := (feed_msg St dispatch addmsg cbs).
Notation feed_lines := (feed_lines St vt decode dispatch addmsg cbs).
Notation run_outfilters := (run_outfilters St).
Notation take_all := (take_all St cbs).
Notation send_if_msgs := (send_if_msgs St cbs).
Notation read_body := (read_body St vt decode dispatch addmsg cbs).
Notation read_tail := (read_tail St cbs).
Notation read := (read St vt decode dispatch addmsg cbs).
Notation driver_run := (driver_run St vt decode dispatch addmsg cbs).
Notation drivers_run := (drivers_run St vt decode dispatch addmsg cbs).
Notation run_reads := (run_reads St vt decode dispatch addmsg cbs).
Notation dom := (dom vt decode).
Notation line_ok := (line_ok vt decode).

(* Irc handlers and out-filters raise subclasses of Exception (anything but a bare BaseException);
   addMsg, in-filters and callbacks may raise anything at all *)
Definition dispatch_ok : Prop := forall n m s, exc_ok (h_exc (dispatch n m s)).
Definition out_ok : Prop := Forall (fun c => forall a s, exc_ok (h_exc (cb_out c a s))) cbs.

Lemma run_infilters_none n m l : forall p, snd (fst (run_infilters n m l p)) = None.
Proof.
  induction l as [|c l IH]; intro p; cbn [Model.run_infilters]; [reflexivity|].
  destruct (cb_in c n m (snd p)) as [r keep]. destruct (h_exc r) as [e|].
  - rewrite through_try_all by exact T_inf. apply IH.
  - destruct keep; [apply IH|reflexivity].
Qed.

Lemma run_calls_none n m l : forall p, snd (run_calls n m l p) = None.
Proof.
  induction l as [|c l IH]; intro p; cbn [Model.run_calls]; [reflexivity|].
  rewrite through_try_all by exact T_call. apply IH.
Qed.

Lemma feed_rest_none n m d s : snd (feed_rest n m d s) = None.
Proof.
  unfold Model.feed_rest. cbn zeta. rewrite through_try_all by exact T_add.
  destruct (run_infilters n m cbs _) as [[p3 x] go] eqn:E.
  match type of E with run_infilters _ _ _ ?P = _ => pose proof (run_infilters_none n m cbs P) as Hn end.
  rewrite E in Hn. cbn in Hn. subst x. destruct go; [|reflexivity]. apply run_calls_none.
Qed.

Lemma feed_body_exc n m p : dispatch_ok -> exc_ok (snd (feed_body n m p)).
Proof.
  intro Hd. unfold Model.feed_body. destruct p as [d s]. rewrite tag_safe.
  destruct (existsb (seq_eqb (m_command m)) gen.T07.NICK_SETTERS && is_nil (m_args m)); [cbn; discriminate|].
  destruct (is_ping (m_command m)).
  - destruct (m_args m) as [|a rest]; [cbn; discriminate|].
    destruct (valid_arg a); [|cbn; discriminate].
    cbn [snd fst]. rewrite feed_rest_none. discriminate.
  - specialize (Hd n m s). destruct (h_exc (dispatch n m s)) as [e|] eqn:Ex; [cbn; exact Hd|].
    cbn [snd fst]. rewrite feed_rest_none. discriminate.
Qed.

(* C07_firewall_total: whatever the handlers and callbacks do, feedMsg returns normally *)
Lemma feed_msg_none line m p : dispatch_ok -> snd (feed_msg line m p) = None.
Proof.
  intro Hd. unfold Model.feed_msg.
  pose proof (feed_body_exc (nfed (fst p)) m (note_fed line (fst p), snd p) Hd) as H.
  destruct (feed_body _ m _) as [p' x]. cbn [snd] in *. rewrite T_feed. apply through_fw_ok. exact H.
Qed.

(* no line can make the `for line in lines` loop raise: a rejected line is skipped by the per-line guard *)
Lemma feed_lines_none ls : dispatch_ok -> forall p, snd (feed_lines ls p) = None.
Proof.
  intro Hd. induction ls as [|l ls IH]; intros p; [reflexivity|].
  cbn [Model.feed_lines].
  destruct (parse_msg vt (decode l)) as [[m|]|e] eqn:E; [| apply IH | rewrite (parse_msg_guarded vt _ e E), guard_quiet; apply IH].
  pose proof (feed_msg_none (strip gen.T07.PY_WS (decode l)) m p Hd) as Hf.
  destruct (feed_msg _ m p) as [p' x]. cbn [snd] in Hf. subst x. cbn [through_try_at]. apply IH.
Qed.

Lemma run_outfilters_none a l : Forall (fun c => forall a s, exc_ok (h_exc (cb_out c a s))) l ->
  forall p, snd (run_outfilters a l p) = None.
Proof.
  induction 1 as [|c l Hc Hl IH]; intro p; cbn [Model.run_outfilters]; [reflexivity|].
  rewrite T_out. rewrite through_fw_ok by apply Hc. apply IH.
Qed.

Lemma out_ok_rev : out_ok -> Forall (fun c => forall a s, exc_ok (h_exc (cb_out c a s))) (rev cbs).
Proof. intro H. apply Forall_rev. exact H. Qed.

Lemma take_all_none fuel : out_ok -> forall acc p, snd (take_all fuel acc p) = None.
Proof.
  intro Ho. induction fuel as [|f IH]; intros acc p; cbn [Model.take_all]; [reflexivity|].
  destruct (outq (fst p)) as [|a q]; [reflexivity|]. rewrite tag_safe, andb_false_r.
  pose proof (run_outfilters_none a (rev cbs) (out_ok_rev Ho) (set_outq q (fst p), snd p)) as Hr.
  destruct (run_outfilters a (rev cbs) _) as [p1 x]. cbn [snd] in Hr. subst x.
  destruct (negb gen.T07.TRUNCATE_ENCODES || encodable a); [apply IH|].
  rewrite T_take. rewrite through_fw_ok by discriminate. reflexivity.
Qed.

(* what takeMsg hands over is encodable: _truncateMsg has encoded it *)
Lemma take_all_acc fuel : forall acc p, forallb encodable acc = true ->
  forallb encodable (snd (fst (take_all fuel acc p))) = true.
Proof.
  induction fuel as [|f IH]; intros acc p Ha; cbn [Model.take_all]; [exact Ha|].
  destruct (outq (fst p)) as [|a q]; [exact Ha|]. rewrite tag_safe, andb_false_r.
  destruct (run_outfilters a (rev cbs) _) as [p1 x].
  destruct x as [e|]; [destruct (through_fw _ _); exact Ha|].
  rewrite T_trunc. cbn [negb orb]. destruct (encodable a) eqn:Ea.
  - apply IH. rewrite forallb_app, Ha. cbn. rewrite Ea. reflexivity.
  - destruct (through_fw _ _); exact Ha.
Qed.

Lemma send_if_msgs_none p : out_ok -> snd (send_if_msgs p) = None.
Proof.
  intro Ho. unfold Model.send_if_msgs. destruct (connected (fst p)); [|reflexivity].
  pose proof (take_all_none (S (length (outq (fst p)))) Ho [] p) as H.
  pose proof (take_all_acc (S (length (outq (fst p)))) [] p eq_refl) as Ha.
  destruct (take_all _ [] p) as [[p' acc] x]. cbn [fst snd] in *. subst x. rewrite Ha. reflexivity.
Qed.

Lemma read_tail_none p x r : out_ok ->
  (forall e, x = Some e -> caught gen.T07.READ_CATCHES e = true) -> snd (read_tail p x r) = None.
Proof.
  intros Ho Hx. unfold Model.read_tail. destruct r; [reflexivity|].
  destruct x as [e|]; [|apply send_if_msgs_none; exact Ho].
  destruct (first_match_caught _ _ (Hx e eq_refl)) as [c Hc]. rewrite Hc.
  destruct c; try reflexivity; try (apply send_if_msgs_none; exact Ho).
  destruct e; try reflexivity; apply send_if_msgs_none; exact Ho.
Qed.

(* conn.recv raises nothing but what _read's except clauses name *)
Definition rv_ok (rv : recv) : bool :=
  match rv with RRaise x => caught gen.T07.READ_CATCHES x | _ => true end.
Definition step_buf (rv : recv) (buf : bytes) : bytes :=
  match rv with RData b => snd (split_lines (buf ++ b)) | _ => buf end.

Lemma read_none rv buf p : dispatch_ok -> out_ok -> rv_ok rv = true ->
  snd (snd (read rv buf p)) = None /\ fst (read rv buf p) = step_buf rv buf.
Proof.
  intros Hd Ho Hs. unfold Model.read, Model.read_body. destruct rv as [b| |x]; cbn [rv_ok step_buf] in *.
  - destruct (split_lines (buf ++ b)) as [ls rest]. cbn [fst snd] in *.
    pose proof (feed_lines_none ls Hd p) as Hf. destruct (feed_lines ls p) as [p' x]. cbn [snd] in Hf. subst x.
    cbn [fst snd]. split; [|reflexivity]. apply read_tail_none; [exact Ho|discriminate].
  - cbn. auto.
  - cbn [fst snd]. split; [|reflexivity]. apply read_tail_none; [exact Ho|]. intros e He. inversion He; subst. exact Hs.
Qed.

Lemma driver_run_none rv buf p : dispatch_ok -> out_ok -> rv_ok rv = true ->
  snd (snd (driver_run rv buf p)) = None /\
  (connected (fst p) = true -> fst (driver_run rv buf p) = step_buf rv buf).
Proof.
  intros Hd Ho Hs. unfold Model.driver_run. destruct (connected (fst p)); [|split; [reflexivity|discriminate]].
  pose proof (send_if_msgs_none p Ho) as H1. destruct (send_if_msgs p) as [p1 x1]. cbn [snd] in H1. subst x1.
  destruct (read_none rv buf p1 Hd Ho Hs) as [H2 H3].
  destruct (read rv buf p1) as [buf' [p2 x2]]. cbn [fst snd] in *. subst x2 buf'.
  cbn [fst snd]. split; [apply send_if_msgs_none; exact Ho|reflexivity].
Qed.

(* the invariant of the run of drivers.run() calls *)
Definition inv (ms : mstate St) : Prop :=
  alive ms = true /\ crashed ms = false /\ Forall (fun x => x = None) (escapes ms).

Lemma drivers_run_inv ms rv : dispatch_ok -> out_ok -> inv ms -> rv_ok rv = true -> inv (drivers_run ms rv).
Proof.
  intros Hd Ho (Ha & Hc & He) Hs. unfold Model.drivers_run. rewrite Ha, Hc. cbn [andb negb].
  destruct (driver_run_none rv (m_buf ms) (m_p ms) Hd Ho Hs) as [H1 _].
  destruct (driver_run rv (m_buf ms) (m_p ms)) as [b' [p' x]]. cbn [fst snd] in *. subst x.
  repeat split; cbn; auto.
Qed.

Lemma run_reads_inv rvs : dispatch_ok -> out_ok ->
  forall ms, inv ms -> forallb rv_ok rvs = true -> inv (run_reads rvs ms).
Proof.
  intros Hd Ho. induction rvs as [|rv rvs IH]; intros ms Hi Hr; [exact Hi|].
  cbn [forallb] in Hr. apply andb_true_iff in Hr as [Hs Hr].
  unfold Model.run_reads. cbn [fold_left]. apply IH; [|exact Hr]. apply drivers_run_inv; assumption.
Qed.

(* THE FULL STATEMENT: for every byte stream and every decode function *)
Lemma loop_survives rvs s :
  dispatch_ok -> out_ok -> forallb rv_ok rvs = true ->
  let ms := run_reads rvs (init s) in
  alive ms = true /\ crashed ms = false /\ Forall (fun x => x = None) (escapes ms).
Proof.
  intros Hd Ho Hr. apply (run_reads_inv rvs Hd Ho (init s)); [|exact Hr]. repeat split; cbn; auto.
Qed.

(* ---- the send side: outbuffer.encode() ---- *)
Definition qb (d : dstate) : list str * list str := (outq d, outbuf d).
Definition enc_qb (q : list str * list str) : bool := forallb encodable (fst q) && is_nil (snd q).
(* everything queued for sending is encodable and the outbuffer is not poisoned *)
Definition enc_ok (d : dstate) : bool := enc_qb (qb d).

Lemma qb_reconn b d : qb (apply_reconn b d) = qb d.
Proof. destruct b; reflexivity. Qed.

Lemma run_infilters_qb n m l : forall p, qb (fst (fst (fst (run_infilters n m l p)))) = qb (fst p).
Proof.
  induction l as [|c l IH]; intro p; cbn [Model.run_infilters]; [reflexivity|].
  destruct (cb_in c n m (snd p)) as [r keep]. destruct (h_exc r) as [e|].
  - destruct (through_try_at _ _ _); [cbn [fst]; apply qb_reconn|]. rewrite IH. cbn [fst]. apply qb_reconn.
  - destruct keep; [rewrite IH|]; cbn [fst]; apply qb_reconn.
Qed.

Lemma run_calls_qb n m l : forall p, qb (fst (fst (run_calls n m l p))) = qb (fst p).
Proof.
  induction l as [|c l IH]; intro p; cbn [Model.run_calls]; [reflexivity|].
  destruct (through_try_at _ _ _); [cbn [fst]; apply qb_reconn|]. rewrite IH. cbn [fst]. apply qb_reconn.
Qed.

Lemma run_outfilters_qb a l : forall p, qb (fst (fst (run_outfilters a l p))) = qb (fst p).
Proof.
  induction l as [|c l IH]; intro p; cbn [Model.run_outfilters]; [reflexivity|].
  destruct (through_fw _ _); [cbn [fst]; apply qb_reconn|]. rewrite IH. cbn [fst]. apply qb_reconn.
Qed.

(* after the handler stage, the rest of feedMsg leaves queue and outbuffer alone (do005 only touches state.supported) *)
Lemma feed_rest_qb n m d s : qb (fst (fst (feed_rest n m d s))) = qb d.
Proof.
  unfold Model.feed_rest. cbn zeta.
  set (d2 := match h_exc (addmsg n m s) with None => _ | Some _ => _ end).
  assert (H2 : qb d2 = qb d).
  { unfold d2. destruct (h_exc (addmsg n m s)); [apply qb_reconn|].
    destruct (seq_eqb (m_command m) s_005); [|apply qb_reconn].
    transitivity (qb (apply_reconn (h_reconn (addmsg n m s)) d)); [reflexivity|apply qb_reconn]. }
  destruct (through_try_at _ _ _); [exact H2|].
  pose proof (run_infilters_qb n m cbs (d2, h_st (addmsg n m s))) as H1.
  destruct (run_infilters n m cbs _) as [[p3 x] go]. cbn [fst] in H1. rewrite H2 in H1.
  destruct x; [exact H1|]. destruct go; [|exact H1]. rewrite run_calls_qb. exact H1.
Qed.

Lemma feed_body_enc n m p : echo_ok m = true -> enc_ok (fst p) = true -> enc_ok (fst (fst (feed_body n m p))) = true.
Proof.
  intros He Hp. unfold Model.feed_body. destruct p as [d s]. cbn [fst] in Hp. rewrite tag_safe.
  destruct (existsb _ _ && _); [exact Hp|].
  unfold echo_ok in He. destruct (is_ping (m_command m)).
  - destruct (m_args m) as [|a rest]; [exact Hp|].
    destruct (valid_arg a); [|exact Hp]. cbn [negb orb] in He.
    cbn [snd fst]. unfold enc_ok. rewrite feed_rest_qb.
    unfold enc_ok, enc_qb, qb in *. cbn [fst snd set_outq outq outbuf] in *.
    apply andb_true_iff in Hp as [H1 H2]. rewrite forallb_app, H1, H2. cbn. rewrite He. reflexivity.
  - destruct (h_exc (dispatch n m s)); [cbn [fst]; unfold enc_ok; rewrite qb_reconn; exact Hp|].
    cbn [snd fst]. unfold enc_ok. rewrite feed_rest_qb, qb_reconn. exact Hp.
Qed.

Lemma feed_msg_enc line m p : echo_ok m = true -> enc_ok (fst p) = true -> enc_ok (fst (fst (feed_msg line m p))) = true.
Proof.
  intros He Hp. unfold Model.feed_msg.
  pose proof (feed_body_enc (nfed (fst p)) m (note_fed line (fst p), snd p) He Hp) as H.
  destruct (feed_body _ m _) as [p' x]. exact H.
Qed.

Lemma feed_lines_enc ls : forall p, forallb line_ok ls = true -> enc_ok (fst p) = true ->
  enc_ok (fst (fst (feed_lines ls p))) = true.
Proof.
  induction ls as [|l ls IH]; intros p Hall Hp; [exact Hp|].
  cbn [forallb] in Hall. apply andb_true_iff in Hall as [Hl Hall].
  cbn [Model.feed_lines]. unfold Model.line_ok in Hl.
  destruct (parse_msg vt (decode l)) as [[m|]|e]; [| apply IH; assumption | apply andb_true_iff in Hl as [Hl1 Hl2]; rewrite Hl1, guard_quiet; apply IH; assumption].
  pose proof (feed_msg_enc (strip gen.T07.PY_WS (decode l)) m p Hl Hp) as Hf.
  destruct (feed_msg _ m p) as [p' x]. cbn [fst] in Hf.
  destruct (through_try_at _ _ x); [exact Hf|]. apply IH; assumption.
Qed.

(* the clean-echo domain (used by the PING theorem): every echoed payload is encodable *)
Definition step_ok (rv : recv) (buf : bytes) : bool :=
  match rv with
  | RData b => forallb line_ok (fst (split_lines (buf ++ b)))
  | RClosed => true
  | RRaise x => caught gen.T07.READ_CATCHES x
  end.

Lemma dom_cons rv rvs buf : dom (rv :: rvs) buf = step_ok rv buf && dom rvs (step_buf rv buf).
Proof.
  destruct rv as [b| |x]; cbn [Model.dom step_ok step_buf]; try reflexivity.
Qed.

Lemma step_ok_rv rv buf : step_ok rv buf = true -> rv_ok rv = true.
Proof. destruct rv; cbn; auto. Qed.
End Proofs.
