(* C07/Lemmas.v — the firewall lets nothing out; loop survival on the domain "every line parses" *)
From Coq Require Import List NArith ZArith Bool Lia.
Import ListNotations.
Require Import Base.Wire Base.PyStr C05.Model C07.Model.
Require gen.T07.
Open Scope N_scope.

(* ---------------- the finite universe of exception classes ---------------- *)
Definition all_exn : list exn :=
  [IndexError; ValueError; KeyError; TypeError; AssertionError; AttributeError; UnicodeError;
   MalformedIrcMsg; SyntaxError; InvalidRegistryValue; DuplicateHostmask; OtherError].
Definition all_xc : list xc := map XE all_exn ++ [XOSError; XTimeout; XSSLTimeout; XSSLOther; XBase].

Lemma all_xc_complete x : In x all_xc.
Proof. destruct x as [e| | | | |]; [destruct e|..]; cbn; tauto. Qed.

Definition is_base (x : xc) : bool := match x with XBase => true | _ => false end.

(* ---------------- decidable sanity conditions on the regenerated tables ---------------- *)
Definition swallows_all (cs : list cls) : bool := forallb (caught cs) all_xc.
Definition fw_total : bool :=
  forallb (fun x => is_base x || caught gen.T07.FIREWALL_CATCHES x) all_xc.

Definition tables_ok : bool :=
  fw_irc s_feedMsg && fw_cb s_outFilter && fw_total &&
  swallows_all gen.T07.FEED_ADDMSG_CATCHES && swallows_all gen.T07.FEED_INFILTER_CATCHES &&
  swallows_all gen.T07.FEED_CALLBACK_CATCHES &&
  forallb (fun s => Nat.eqb (length s) 3) gen.T07.NICK_SETTERS &&
  (* utils.str.decode_raw_line decodes with 'strict' or 'replace' only: it cannot produce lone surrogates,
     which is what the send side (outbuffer.encode()) relies on; see [echo_ok] in the domain *)
  forallb (fun h => seq_eqb h [115; 116; 114; 105; 99; 116] || seq_eqb h [114; 101; 112; 108; 97; 99; 101])
          gen.T07.DECODE_HANDLERS.

Lemma tables_ok_current : tables_ok = true.
Proof. vm_compute. reflexivity. Qed.

Lemma T_feed : fw_irc s_feedMsg = true.
Proof. vm_compute. reflexivity. Qed.
Lemma T_out : fw_cb s_outFilter = true.
Proof. vm_compute. reflexivity. Qed.
Lemma T_fw : fw_total = true.
Proof. vm_compute. reflexivity. Qed.
Lemma T_add : swallows_all gen.T07.FEED_ADDMSG_CATCHES = true.
Proof. vm_compute. reflexivity. Qed.
Lemma T_inf : swallows_all gen.T07.FEED_INFILTER_CATCHES = true.
Proof. vm_compute. reflexivity. Qed.
Lemma T_call : swallows_all gen.T07.FEED_CALLBACK_CATCHES = true.
Proof. vm_compute. reflexivity. Qed.
Lemma T_nick : forallb (fun s => Nat.eqb (length s) 3) gen.T07.NICK_SETTERS = true.
Proof. vm_compute. reflexivity. Qed.

(* generic consequences *)
Lemma through_try_all cs y : swallows_all cs = true -> through_try cs y = None.
Proof.
  intro H. destruct y as [e|]; [|reflexivity]. cbn [through_try].
  unfold swallows_all in H. rewrite forallb_forall in H. rewrite (H e (all_xc_complete e)). reflexivity.
Qed.

Lemma fw_catches_nonbase x : fw_total = true -> is_base x = false -> caught gen.T07.FIREWALL_CATCHES x = true.
Proof.
  intros H Hb. unfold fw_total in H. rewrite forallb_forall in H.
  specialize (H x (all_xc_complete x)). rewrite Hb in H. exact H.
Qed.

Definition exc_ok (y : option xc) : Prop := y <> Some XBase.

Lemma through_fw_ok y : exc_ok y -> through_fw true y = None.
Proof.
  intro H. destruct y as [e|]; [|reflexivity]. cbn [through_fw through_try].
  rewrite fw_catches_nonbase; [reflexivity|exact T_fw|].
  destruct e; try reflexivity. exfalso. apply H. reflexivity.
Qed.

Lemma first_match_caught cs x : caught cs x = true -> exists c, first_match cs x = Some c.
Proof.
  induction cs as [|c cs IH]; cbn; [discriminate|].
  destruct (matches c x); [eauto|]. exact IH.
Qed.

(* ---------------- the flow ---------------- *)
Section Proofs.
Variable St : Type.
Variable vt : str -> bool.
Variable decode : bytes -> str.
Variable dispatch addmsg : N -> msg -> St -> hres St.
Variable cbs : list (cb St).

Notation pstate := (pstate St).
Notation run_infilters := (run_infilters St).
Notation run_calls := (run_calls St).
Notation feed_body := (feed_body St dispatch addmsg cbs).
Notation feed_msg := (feed_msg St dispatch addmsg cbs).
Notation feed_lines := (feed_lines St vt decode dispatch addmsg cbs).
Notation run_outfilters := (run_outfilters St).
Notation take_all := (take_all St cbs).
Notation send_if_msgs := (send_if_msgs St cbs).
Notation read_body := (read_body St vt decode dispatch addmsg cbs).
Notation read_tail := (read_tail St cbs).
Notation read := (read St vt decode dispatch addmsg cbs).
Notation driver_run := (driver_run St vt decode dispatch addmsg cbs).
Notation drivers_run := (drivers_run St vt decode dispatch addmsg cbs).
Notation run_reads := (run_reads St vt decode dispatch addmsg cbs).
Notation dom := (dom vt decode).
Notation line_ok := (line_ok vt decode).

(* Irc handlers and out-filters raise subclasses of Exception (anything but a bare BaseException);
   addMsg, in-filters and callbacks may raise anything at all *)
Definition dispatch_ok : Prop := forall n m s, exc_ok (h_exc (dispatch n m s)).
Definition out_ok : Prop := Forall (fun c => forall a s, exc_ok (h_exc (cb_out c a s))) cbs.

Lemma run_infilters_none n m l : forall p, snd (fst (run_infilters n m l p)) = None.
Proof.
  induction l as [|c l IH]; intro p; cbn [Model.run_infilters]; [reflexivity|].
  destruct (cb_in c n m (snd p)) as [r keep]. destruct (h_exc r) as [e|].
  - rewrite through_try_all by exact T_inf. apply IH.
  - destruct keep; [apply IH|reflexivity].
Qed.

Lemma run_calls_none n m l : forall p, snd (run_calls n m l p) = None.
Proof.
  induction l as [|c l IH]; intro p; cbn [Model.run_calls]; [reflexivity|].
  rewrite through_try_all by exact T_call. apply IH.
Qed.

Lemma feed_body_exc n m p : dispatch_ok -> exc_ok (snd (feed_body n m p)).
Proof.
  intro Hd. unfold Model.feed_body. destruct p as [d s].
  destruct (existsb (seq_eqb (m_command m)) gen.T07.NICK_SETTERS && is_nil (m_args m)); [cbn; discriminate|].
  destruct (is_ping (m_command m)).
  - destruct (m_args m) as [|a rest]; [cbn; discriminate|].
    destruct (valid_arg a); [|cbn; discriminate].
    cbn [snd fst]. rewrite through_try_all by exact T_add.
    destruct (run_infilters n m cbs _) as [[p3 x] go] eqn:E.
    pose proof (run_infilters_none n m cbs (apply_reconn (h_reconn (addmsg n m s)) (set_outq (outq d ++ [a]) d), h_st (addmsg n m s))) as Hn.
    rewrite E in Hn. cbn in Hn. subst x. destruct go; [|cbn; discriminate].
    rewrite run_calls_none. discriminate.
  - specialize (Hd n m s). destruct (h_exc (dispatch n m s)) as [e|] eqn:Ex; [cbn; exact Hd|].
    cbn [snd fst]. rewrite through_try_all by exact T_add.
    destruct (run_infilters n m cbs _) as [[p3 x] go] eqn:E.
    match type of E with run_infilters _ _ _ ?P = _ => pose proof (run_infilters_none n m cbs P) as Hn end.
    rewrite E in Hn. cbn in Hn. subst x. destruct go; [|cbn; discriminate].
    rewrite run_calls_none. discriminate.
Qed.

(* C07_firewall_total: whatever the handlers and callbacks do, feedMsg returns normally *)
Lemma feed_msg_none line m p : dispatch_ok -> snd (feed_msg line m p) = None.
Proof.
  intro Hd. unfold Model.feed_msg.
  pose proof (feed_body_exc (nfed (fst p)) m (note_fed line (fst p), snd p) Hd) as H.
  destruct (feed_body _ m _) as [p' x]. cbn [snd] in *. rewrite T_feed. apply through_fw_ok. exact H.
Qed.

Lemma feed_lines_none ls : dispatch_ok -> forall p, forallb line_ok ls = true -> snd (feed_lines ls p) = None.
Proof.
  intro Hd. induction ls as [|l ls IH]; intros p Hall; [reflexivity|].
  cbn [forallb] in Hall. apply andb_true_iff in Hall as [Hl Hall].
  cbn [Model.feed_lines]. unfold Model.line_ok in Hl.
  destruct (parse_msg vt (decode l)) as [[m|]|e]; [| apply IH; exact Hall | discriminate].
  pose proof (feed_msg_none (strip gen.T07.PY_WS (decode l)) m p Hd) as Hf.
  destruct (feed_msg _ m p) as [p' x]. cbn [snd] in Hf. subst x. cbn [through_try]. apply IH. exact Hall.
Qed.

Lemma run_outfilters_none a l : Forall (fun c => forall a s, exc_ok (h_exc (cb_out c a s))) l ->
  forall p, snd (run_outfilters a l p) = None.
Proof.
  induction 1 as [|c l Hc Hl IH]; intro p; cbn [Model.run_outfilters]; [reflexivity|].
  rewrite T_out. rewrite through_fw_ok by apply Hc. apply IH.
Qed.

Lemma out_ok_rev : out_ok -> Forall (fun c => forall a s, exc_ok (h_exc (cb_out c a s))) (rev cbs).
Proof. intro H. apply Forall_rev. exact H. Qed.

Lemma take_all_none fuel : out_ok -> forall acc p, snd (take_all fuel acc p) = None.
Proof.
  intro Ho. induction fuel as [|f IH]; intros acc p; cbn [Model.take_all]; [reflexivity|].
  destruct (outq (fst p)) as [|a q]; [reflexivity|].
  pose proof (run_outfilters_none a (rev cbs) (out_ok_rev Ho) (set_outq q (fst p), snd p)) as Hr.
  destruct (run_outfilters a (rev cbs) _) as [p1 x]. cbn [snd] in Hr. subst x. apply IH.
Qed.

(* ---- the send side: outbuffer.encode() ---- *)
Definition qb (d : dstate) : list str * list str := (outq d, outbuf d).
Definition enc_qb (q : list str * list str) : bool := forallb encodable (fst q) && is_nil (snd q).
(* everything queued for sending is encodable and the outbuffer is not poisoned *)
Definition enc_ok (d : dstate) : bool := enc_qb (qb d).

Lemma qb_reconn b d : qb (apply_reconn b d) = qb d.
Proof. destruct b; reflexivity. Qed.

Lemma run_infilters_qb n m l : forall p, qb (fst (fst (fst (run_infilters n m l p)))) = qb (fst p).
Proof.
  induction l as [|c l IH]; intro p; cbn [Model.run_infilters]; [reflexivity|].
  destruct (cb_in c n m (snd p)) as [r keep]. destruct (h_exc r) as [e|].
  - destruct (through_try _ _); [cbn [fst]; apply qb_reconn|]. rewrite IH. cbn [fst]. apply qb_reconn.
  - destruct keep; [rewrite IH|]; cbn [fst]; apply qb_reconn.
Qed.

Lemma run_calls_qb n m l : forall p, qb (fst (fst (run_calls n m l p))) = qb (fst p).
Proof.
  induction l as [|c l IH]; intro p; cbn [Model.run_calls]; [reflexivity|].
  destruct (through_try _ _); [cbn [fst]; apply qb_reconn|]. rewrite IH. cbn [fst]. apply qb_reconn.
Qed.

Lemma run_outfilters_qb a l : forall p, qb (fst (fst (run_outfilters a l p))) = qb (fst p).
Proof.
  induction l as [|c l IH]; intro p; cbn [Model.run_outfilters]; [reflexivity|].
  destruct (through_fw _ _); [cbn [fst]; apply qb_reconn|]. rewrite IH. cbn [fst]. apply qb_reconn.
Qed.

(* after the handler stage, the rest of feedMsg leaves queue and outbuffer alone *)
Lemma feed_rest_qb n m d s :
  qb (fst (fst (let r := addmsg n m s in
            let p2 := (apply_reconn (h_reconn r) d, h_st r) in
            match through_try gen.T07.FEED_ADDMSG_CATCHES (through_fw (fw_state s_addMsg) (h_exc r)) with
            | Some e => (p2, Some e)
            | None =>
                match run_infilters n m cbs p2 with
                | (p3, Some e, _) => (p3, Some e)
                | (p3, None, false) => (p3, None)
                | (p3, None, true) => run_calls n m cbs p3
                end
            end))) = qb d.
Proof.
  cbn zeta. destruct (through_try _ _); [cbn [fst]; apply qb_reconn|].
  pose proof (run_infilters_qb n m cbs (apply_reconn (h_reconn (addmsg n m s)) d, h_st (addmsg n m s))) as H1.
  destruct (run_infilters n m cbs _) as [[p3 x] go]. cbn [fst] in H1. rewrite qb_reconn in H1.
  destruct x; [exact H1|]. destruct go; [|exact H1]. rewrite run_calls_qb. exact H1.
Qed.

Lemma feed_body_enc n m p : echo_ok m = true -> enc_ok (fst p) = true -> enc_ok (fst (fst (feed_body n m p))) = true.
Proof.
  intros He Hp. unfold Model.feed_body. destruct p as [d s]. cbn [fst] in Hp.
  destruct (existsb _ _ && _); [exact Hp|].
  unfold echo_ok in He. destruct (is_ping (m_command m)).
  - destruct (m_args m) as [|a rest]; [exact Hp|].
    destruct (valid_arg a); [|exact Hp]. cbn [negb orb] in He.
    cbn [snd fst]. unfold enc_ok.
    etransitivity; [exact (f_equal enc_qb (feed_rest_qb n m (set_outq (outq d ++ [a]) d) s))|].
    unfold enc_ok, enc_qb, qb in *. cbn [fst snd set_outq outq outbuf] in *.
    apply andb_true_iff in Hp as [H1 H2]. rewrite forallb_app, H1, H2. cbn. rewrite He. reflexivity.
  - destruct (h_exc (dispatch n m s)); [cbn [fst]; unfold enc_ok; rewrite qb_reconn; exact Hp|].
    cbn [snd fst]. unfold enc_ok.
    etransitivity; [exact (f_equal enc_qb (feed_rest_qb n m (apply_reconn (h_reconn (dispatch n m s)) d) (h_st (dispatch n m s))))|].
    rewrite qb_reconn. exact Hp.
Qed.

Lemma feed_msg_enc line m p : echo_ok m = true -> enc_ok (fst p) = true -> enc_ok (fst (fst (feed_msg line m p))) = true.
Proof.
  intros He Hp. unfold Model.feed_msg.
  pose proof (feed_body_enc (nfed (fst p)) m (note_fed line (fst p), snd p) He Hp) as H.
  destruct (feed_body _ m _) as [p' x]. exact H.
Qed.

Lemma feed_lines_enc ls : forall p, forallb line_ok ls = true -> enc_ok (fst p) = true ->
  enc_ok (fst (fst (feed_lines ls p))) = true.
Proof.
  induction ls as [|l ls IH]; intros p Hall Hp; [exact Hp|].
  cbn [forallb] in Hall. apply andb_true_iff in Hall as [Hl Hall].
  cbn [Model.feed_lines]. unfold Model.line_ok in Hl.
  destruct (parse_msg vt (decode l)) as [[m|]|e]; [| apply IH; assumption | discriminate].
  pose proof (feed_msg_enc (strip gen.T07.PY_WS (decode l)) m p Hl Hp) as Hf.
  destruct (feed_msg _ m p) as [p' x]. cbn [fst] in Hf.
  destruct (through_try _ x); [exact Hf|]. apply IH; assumption.
Qed.

Lemma take_all_enc fuel : forall acc p,
  forallb encodable (outq (fst p)) = true -> forallb encodable acc = true ->
  forallb encodable (outq (fst (fst (fst (take_all fuel acc p))))) = true /\
  forallb encodable (snd (fst (take_all fuel acc p))) = true /\
  outbuf (fst (fst (fst (take_all fuel acc p)))) = outbuf (fst p).
Proof.
  induction fuel as [|f IH]; intros acc p Hq Ha; cbn [Model.take_all]; [auto|].
  destruct (outq (fst p)) as [|a q] eqn:Eq; [cbn [fst snd]; rewrite Eq; auto|].
  cbn [forallb] in Hq. apply andb_true_iff in Hq as [Hqa Hqq].
  pose proof (run_outfilters_qb a (rev cbs) (set_outq q (fst p), snd p)) as Hb.
  destruct (run_outfilters a (rev cbs) _) as [p1 x]. cbn [fst] in Hb. unfold qb in Hb. cbn in Hb. injection Hb as Ho Hu.
  destruct x as [e|].
  - destruct (through_fw _ _); cbn [fst snd]; rewrite Ho, Hu; auto.
  - destruct (IH (acc ++ [a]) p1) as (H1 & H2 & H3).
    + rewrite Ho. exact Hqq.
    + rewrite forallb_app, Ha. cbn. rewrite Hqa. reflexivity.
    + rewrite H3, Hu. auto.
Qed.

Lemma send_if_msgs_none p : out_ok -> enc_ok (fst p) = true ->
  snd (send_if_msgs p) = None /\ enc_ok (fst (fst (send_if_msgs p))) = true.
Proof.
  intros Ho He. unfold Model.send_if_msgs. destruct (connected (fst p)); [|auto].
  unfold enc_ok, enc_qb, qb in He. cbn [fst snd] in He. apply andb_true_iff in He as [Hq Hb].
  pose proof (take_all_none (S (length (outq (fst p)))) Ho [] p) as H.
  destruct (take_all_enc (S (length (outq (fst p)))) [] p Hq eq_refl) as (H1 & H2 & H3).
  destruct (take_all _ [] p) as [[p' acc] x]. cbn [fst snd] in *. subst x.
  destruct (outbuf (fst p)) eqn:Eb; [|discriminate]. rewrite H3. cbn [app]. rewrite H2.
  split; [reflexivity|]. unfold enc_ok, enc_qb, qb. cbn. rewrite H1. reflexivity.
Qed.

Lemma enc_disconnect p : enc_ok (fst (disconnect St p)) = enc_ok (fst p).
Proof. reflexivity. Qed.

Lemma read_tail_none p x r : out_ok -> enc_ok (fst p) = true ->
  (forall e, x = Some e -> caught gen.T07.READ_CATCHES e = true) ->
  snd (read_tail p x r) = None /\ enc_ok (fst (fst (read_tail p x r))) = true.
Proof.
  intros Ho He Hx. unfold Model.read_tail. destruct r; [auto|].
  destruct x as [e|]; [|apply send_if_msgs_none; assumption].
  destruct (first_match_caught _ _ (Hx e eq_refl)) as [c Hc]. rewrite Hc.
  destruct c; try (split; [reflexivity|exact He]); try (apply send_if_msgs_none; assumption).
  destruct e; try (split; [reflexivity|exact He]); apply send_if_msgs_none; assumption.
Qed.

(* one recv outcome is harmless for buffer [buf] *)
Definition step_ok (rv : recv) (buf : bytes) : bool :=
  match rv with
  | RData b => forallb line_ok (fst (split_lines (buf ++ b)))
  | RClosed => true
  | RRaise x => caught gen.T07.READ_CATCHES x
  end.
Definition step_buf (rv : recv) (buf : bytes) : bytes :=
  match rv with RData b => snd (split_lines (buf ++ b)) | _ => buf end.

Lemma dom_cons rv rvs buf : dom (rv :: rvs) buf = step_ok rv buf && dom rvs (step_buf rv buf).
Proof.
  destruct rv as [b| |x]; cbn [Model.dom step_ok step_buf]; try reflexivity.
Qed.

Lemma read_none rv buf p : dispatch_ok -> out_ok -> step_ok rv buf = true -> enc_ok (fst p) = true ->
  snd (snd (read rv buf p)) = None /\ fst (read rv buf p) = step_buf rv buf /\
  enc_ok (fst (fst (snd (read rv buf p)))) = true.
Proof.
  intros Hd Ho Hs He. unfold Model.read, Model.read_body. destruct rv as [b| |x]; cbn [step_ok step_buf] in *.
  - destruct (split_lines (buf ++ b)) as [ls rest]. cbn [fst snd] in *.
    pose proof (feed_lines_none ls Hd p Hs) as Hf. pose proof (feed_lines_enc ls p Hs He) as He'.
    destruct (feed_lines ls p) as [p' x]. cbn [fst snd] in *. subst x.
    destruct (read_tail_none p' None false Ho He') as [H1 H2]; [discriminate|]. auto.
  - cbn. auto.
  - cbn [fst snd]. destruct (read_tail_none p (Some x) false Ho He) as [H1 H2]; [|auto].
    intros e Hx. inversion Hx; subst. exact Hs.
Qed.

Lemma driver_run_none rv buf p : dispatch_ok -> out_ok -> step_ok rv buf = true -> enc_ok (fst p) = true ->
  snd (snd (driver_run rv buf p)) = None /\
  (connected (fst p) = true -> fst (driver_run rv buf p) = step_buf rv buf) /\
  enc_ok (fst (fst (snd (driver_run rv buf p)))) = true.
Proof.
  intros Hd Ho Hs He. unfold Model.driver_run. destruct (connected (fst p)); [|repeat split; [discriminate|exact He]].
  destruct (send_if_msgs_none p Ho He) as [H1 He1]. destruct (send_if_msgs p) as [p1 x1]. cbn [fst snd] in *. subst x1.
  destruct (read_none rv buf p1 Hd Ho Hs He1) as (H2 & H3 & He2).
  destruct (read rv buf p1) as [buf' [p2 x2]]. cbn [fst snd] in *. subst x2 buf'.
  cbn [fst snd]. destruct (send_if_msgs_none p2 Ho He2) as [H4 He4]. auto.
Qed.

(* the invariant of the run of drivers.run() calls *)
Definition inv (ms : mstate St) (buf : bytes) : Prop :=
  alive ms = true /\ crashed ms = false /\ Forall (fun x => x = None) (escapes ms) /\
  (connected (fst (m_p ms)) = true -> m_buf ms = buf) /\ enc_ok (fst (m_p ms)) = true.

Lemma drivers_run_inv ms rv buf : dispatch_ok -> out_ok ->
  inv ms buf -> step_ok rv buf = true -> inv (drivers_run ms rv) (step_buf rv buf).
Proof.
  intros Hd Ho (Ha & Hc & He & Hb & Hen) Hs. unfold Model.drivers_run. rewrite Ha, Hc. cbn [andb negb].
  destruct (connected (fst (m_p ms))) eqn:Ec.
  - rewrite (Hb eq_refl) in *.
    destruct (driver_run_none rv buf (m_p ms) Hd Ho Hs Hen) as (H1 & H2 & H3). specialize (H2 Ec).
    destruct (driver_run rv buf (m_p ms)) as [b' [p' x]]. cbn [fst snd] in *. subst x b'.
    repeat split; cbn; auto.
  - (* not connected: SocketDriver.run sleeps and returns; nothing is read any more *)
    unfold Model.driver_run. rewrite Ec. repeat split; cbn; auto. rewrite Ec. discriminate.
Qed.

Lemma run_reads_inv rvs : dispatch_ok -> out_ok ->
  forall ms buf, inv ms buf -> dom rvs buf = true -> exists buf', inv (run_reads rvs ms) buf'.
Proof.
  intros Hd Ho. induction rvs as [|rv rvs IH]; intros ms buf Hi Hdom; [exists buf; exact Hi|].
  rewrite dom_cons in Hdom. apply andb_true_iff in Hdom as [Hs Hr].
  unfold Model.run_reads. cbn [fold_left]. eapply IH; [|exact Hr].
  apply drivers_run_inv; assumption.
Qed.

Lemma inv_init s : inv (init s) [].
Proof. repeat split; cbn; auto. Qed.

(* loop survival on the domain *)
Lemma loop_survives_on_domain rvs s :
  dispatch_ok -> out_ok -> dom rvs [] = true ->
  let ms := run_reads rvs (init s) in
  alive ms = true /\ crashed ms = false /\ Forall (fun x => x = None) (escapes ms).
Proof.
  intros Hd Ho Hdom. destruct (run_reads_inv rvs Hd Ho (init s) [] (inv_init s) Hdom) as [b (Ha & Hc & He & _)].
  auto.
Qed.
End Proofs.
