(* C07/Lemmas.v — the firewall lets nothing out; loop survival on the domain "every line parses" *)
From Coq Require Import List NArith ZArith Bool Lia.
Import ListNotations.
Require Import Base.Wire Base.PyStr C05.Model C07.Model.
Require gen.T07.
Open Scope N_scope.

(* ---------------- the finite universe of exception classes ---------------- *)
Definition all_exn : list exn :=
  [IndexError; ValueError; KeyError; TypeError; AssertionError; AttributeError; UnicodeError;
   MalformedIrcMsg; SyntaxError; InvalidRegistryValue; DuplicateHostmask; OtherError].
Definition all_xc : list xc := map XE all_exn ++ [XOSError; XTimeout; XSSLTimeout; XSSLOther; XBase].

Lemma all_xc_complete x : In x all_xc.
Proof. destruct x as [e| | | | |]; [destruct e|..]; cbn; tauto. Qed.

Definition is_base (x : xc) : bool := match x with XBase => true | _ => false end.

(* ---------------- decidable sanity conditions on the regenerated tables ---------------- *)
Definition swallows_all (cs : list cls) : bool := forallb (caught cs) all_xc.
Definition fw_total : bool :=
  forallb (fun x => is_base x || caught gen.T07.FIREWALL_CATCHES x) all_xc.

Definition tables_ok : bool :=
  fw_irc s_feedMsg && fw_cb s_outFilter && fw_total &&
  swallows_all gen.T07.FEED_ADDMSG_CATCHES && swallows_all gen.T07.FEED_INFILTER_CATCHES &&
  swallows_all gen.T07.FEED_CALLBACK_CATCHES &&
  forallb (fun s => Nat.eqb (length s) 3) gen.T07.NICK_SETTERS.

Lemma tables_ok_current : tables_ok = true.
Proof. vm_compute. reflexivity. Qed.

Lemma T_feed : fw_irc s_feedMsg = true.
Proof. vm_compute. reflexivity. Qed.
Lemma T_out : fw_cb s_outFilter = true.
Proof. vm_compute. reflexivity. Qed.
Lemma T_fw : fw_total = true.
Proof. vm_compute. reflexivity. Qed.
Lemma T_add : swallows_all gen.T07.FEED_ADDMSG_CATCHES = true.
Proof. vm_compute. reflexivity. Qed.
Lemma T_inf : swallows_all gen.T07.FEED_INFILTER_CATCHES = true.
Proof. vm_compute. reflexivity. Qed.
Lemma T_call : swallows_all gen.T07.FEED_CALLBACK_CATCHES = true.
Proof. vm_compute. reflexivity. Qed.
Lemma T_nick : forallb (fun s => Nat.eqb (length s) 3) gen.T07.NICK_SETTERS = true.
Proof. vm_compute. reflexivity. Qed.

(* generic consequences *)
Lemma through_try_all cs y : swallows_all cs = true -> through_try cs y = None.
Proof.
  intro H. destruct y as [e|]; [|reflexivity]. cbn [through_try].
  unfold swallows_all in H. rewrite forallb_forall in H. rewrite (H e (all_xc_complete e)). reflexivity.
Qed.

Lemma fw_catches_nonbase x : fw_total = true -> is_base x = false -> caught gen.T07.FIREWALL_CATCHES x = true.
Proof.
  intros H Hb. unfold fw_total in H. rewrite forallb_forall in H.
  specialize (H x (all_xc_complete x)). rewrite Hb in H. exact H.
Qed.

Definition exc_ok (y : option xc) : Prop := y <> Some XBase.

Lemma through_fw_ok y : exc_ok y -> through_fw true y = None.
Proof.
  intro H. destruct y as [e|]; [|reflexivity]. cbn [through_fw through_try].
  rewrite fw_catches_nonbase; [reflexivity|exact T_fw|].
  destruct e; try reflexivity. exfalso. apply H. reflexivity.
Qed.

Lemma first_match_caught cs x : caught cs x = true -> exists c, first_match cs x = Some c.
Proof.
  induction cs as [|c cs IH]; cbn; [discriminate|].
  destruct (matches c x); [eauto|]. exact IH.
Qed.

(* ---------------- the flow ---------------- *)
Section Proofs.
Variable St : Type.
Variable vt : str -> bool.
Variable decode : bytes -> str.
Variable dispatch addmsg : N -> msg -> St -> hres St.
Variable cbs : list (cb St).

Notation pstate := (pstate St).
Notation run_infilters := (run_infilters St).
Notation run_calls := (run_calls St).
Notation feed_body := (feed_body St dispatch addmsg cbs).
Notation feed_msg := (feed_msg St dispatch addmsg cbs).
Notation feed_lines := (feed_lines St vt decode dispatch addmsg cbs).
Notation run_outfilters := (run_outfilters St).
Notation take_all := (take_all St cbs).
Notation send_if_msgs := (send_if_msgs St cbs).
Notation read_body := (read_body St vt decode dispatch addmsg cbs).
Notation read_tail := (read_tail St cbs).
Notation read := (read St vt decode dispatch addmsg cbs).
Notation driver_run := (driver_run St vt decode dispatch addmsg cbs).
Notation drivers_run := (drivers_run St vt decode dispatch addmsg cbs).
Notation run_reads := (run_reads St vt decode dispatch addmsg cbs).
Notation dom := (dom vt decode).
Notation line_ok := (line_ok vt decode).

(* Irc handlers and out-filters raise subclasses of Exception (anything but a bare BaseException);
   addMsg, in-filters and callbacks may raise anything at all *)
Definition dispatch_ok : Prop := forall n m s, exc_ok (h_exc (dispatch n m s)).
Definition out_ok : Prop := Forall (fun c => forall a s, exc_ok (h_exc (cb_out c a s))) cbs.

Lemma run_infilters_none n m l : forall p, snd (fst (run_infilters n m l p)) = None.
Proof.
  induction l as [|c l IH]; intro p; cbn [Model.run_infilters]; [reflexivity|].
  destruct (cb_in c n m (snd p)) as [r keep]. destruct (h_exc r) as [e|].
  - rewrite through_try_all by exact T_inf. apply IH.
  - destruct keep; [apply IH|reflexivity].
Qed.

Lemma run_calls_none n m l : forall p, snd (run_calls n m l p) = None.
Proof.
  induction l as [|c l IH]; intro p; cbn [Model.run_calls]; [reflexivity|].
  rewrite through_try_all by exact T_call. apply IH.
Qed.

Lemma feed_body_exc n m p : dispatch_ok -> exc_ok (snd (feed_body n m p)).
Proof.
  intro Hd. unfold Model.feed_body. destruct p as [d s].
  destruct (existsb (seq_eqb (m_command m)) gen.T07.NICK_SETTERS && is_nil (m_args m)); [cbn; discriminate|].
  destruct (is_ping (m_command m)).
  - destruct (m_args m) as [|a rest]; [cbn; discriminate|].
    destruct (valid_arg a); [|cbn; discriminate].
    cbn [snd fst]. rewrite through_try_all by exact T_add.
    destruct (run_infilters n m cbs _) as [[p3 x] go] eqn:E.
    pose proof (run_infilters_none n m cbs (apply_reconn (h_reconn (addmsg n m s)) (set_outq (outq d ++ [a]) d), h_st (addmsg n m s))) as Hn.
    rewrite E in Hn. cbn in Hn. subst x. destruct go; [|cbn; discriminate].
    rewrite run_calls_none. discriminate.
  - specialize (Hd n m s). destruct (h_exc (dispatch n m s)) as [e|] eqn:Ex; [cbn; exact Hd|].
    cbn [snd fst]. rewrite through_try_all by exact T_add.
    destruct (run_infilters n m cbs _) as [[p3 x] go] eqn:E.
    match type of E with run_infilters _ _ _ ?P = _ => pose proof (run_infilters_none n m cbs P) as Hn end.
    rewrite E in Hn. cbn in Hn. subst x. destruct go; [|cbn; discriminate].
    rewrite run_calls_none. discriminate.
Qed.

(* C07_firewall_total: whatever the handlers and callbacks do, feedMsg returns normally *)
Lemma feed_msg_none line m p : dispatch_ok -> snd (feed_msg line m p) = None.
Proof.
  intro Hd. unfold Model.feed_msg.
  pose proof (feed_body_exc (nfed (fst p)) m (note_fed line (fst p), snd p) Hd) as H.
  destruct (feed_body _ m _) as [p' x]. cbn [snd] in *. rewrite T_feed. apply through_fw_ok. exact H.
Qed.

Lemma feed_lines_none ls : dispatch_ok -> forall p, forallb line_ok ls = true -> snd (feed_lines ls p) = None.
Proof.
  intro Hd. induction ls as [|l ls IH]; intros p Hall; [reflexivity|].
  cbn [forallb] in Hall. apply andb_true_iff in Hall as [Hl Hall].
  cbn [Model.feed_lines]. unfold Model.line_ok in Hl.
  destruct (parse_msg vt (decode l)) as [[m|]|e]; [| apply IH; exact Hall | discriminate].
  pose proof (feed_msg_none (strip gen.T07.PY_WS (decode l)) m p Hd) as Hf.
  destruct (feed_msg _ m p) as [p' x]. cbn [snd] in Hf. subst x. cbn [through_try]. apply IH. exact Hall.
Qed.

Lemma run_outfilters_none a l : Forall (fun c => forall a s, exc_ok (h_exc (cb_out c a s))) l ->
  forall p, snd (run_outfilters a l p) = None.
Proof.
  induction 1 as [|c l Hc Hl IH]; intro p; cbn [Model.run_outfilters]; [reflexivity|].
  rewrite T_out. rewrite through_fw_ok by apply Hc. apply IH.
Qed.

Lemma out_ok_rev : out_ok -> Forall (fun c => forall a s, exc_ok (h_exc (cb_out c a s))) (rev cbs).
Proof. intro H. apply Forall_rev. exact H. Qed.

Lemma take_all_none fuel : out_ok -> forall acc p, snd (take_all fuel acc p) = None.
Proof.
  intro Ho. induction fuel as [|f IH]; intros acc p; cbn [Model.take_all]; [reflexivity|].
  destruct (outq (fst p)) as [|a q]; [reflexivity|].
  pose proof (run_outfilters_none a (rev cbs) (out_ok_rev Ho) (set_outq q (fst p), snd p)) as Hr.
  destruct (run_outfilters a (rev cbs) _) as [p1 x]. cbn [snd] in Hr. subst x. apply IH.
Qed.

Lemma send_if_msgs_none p : out_ok -> snd (send_if_msgs p) = None.
Proof.
  intro Ho. unfold Model.send_if_msgs. destruct (connected (fst p)); [|reflexivity].
  pose proof (take_all_none (S (length (outq (fst p)))) Ho [] p) as H.
  destruct (take_all _ [] p) as [[p' acc] x]. cbn [snd] in H. subst x. reflexivity.
Qed.

Lemma read_tail_none p x r : out_ok ->
  (forall e, x = Some e -> caught gen.T07.READ_CATCHES e = true) -> snd (read_tail p x r) = None.
Proof.
  intros Ho Hx. unfold Model.read_tail. destruct r; [reflexivity|].
  destruct x as [e|]; [|apply send_if_msgs_none; exact Ho].
  destruct (first_match_caught _ _ (Hx e eq_refl)) as [c Hc]. rewrite Hc.
  destruct c; try reflexivity; try (apply send_if_msgs_none; exact Ho).
  destruct e; try reflexivity; apply send_if_msgs_none; exact Ho.
Qed.

(* one recv outcome is harmless for buffer [buf] *)
Definition step_ok (rv : recv) (buf : bytes) : bool :=
  match rv with
  | RData b => forallb line_ok (fst (split_lines (buf ++ b)))
  | RClosed => true
  | RRaise x => caught gen.T07.READ_CATCHES x
  end.
Definition step_buf (rv : recv) (buf : bytes) : bytes :=
  match rv with RData b => snd (split_lines (buf ++ b)) | _ => buf end.

Lemma dom_cons rv rvs buf : dom (rv :: rvs) buf = step_ok rv buf && dom rvs (step_buf rv buf).
Proof.
  destruct rv as [b| |x]; cbn [Model.dom step_ok step_buf]; try reflexivity.
Qed.

Lemma read_none rv buf p : dispatch_ok -> out_ok -> step_ok rv buf = true ->
  snd (snd (read rv buf p)) = None /\ fst (read rv buf p) = step_buf rv buf.
Proof.
  intros Hd Ho Hs. unfold Model.read, Model.read_body. destruct rv as [b| |x]; cbn [step_ok step_buf] in *.
  - destruct (split_lines (buf ++ b)) as [ls rest]. cbn [fst snd] in *.
    pose proof (feed_lines_none ls Hd p Hs) as Hf. destruct (feed_lines ls p) as [p' x]. cbn [snd] in Hf. subst x.
    cbn [fst snd]. split; [|reflexivity]. apply read_tail_none; [exact Ho|discriminate].
  - cbn. auto.
  - cbn [fst snd]. split; [|reflexivity]. apply read_tail_none; [exact Ho|]. intros e He. inversion He; subst. exact Hs.
Qed.

Lemma driver_run_none rv buf p : dispatch_ok -> out_ok -> step_ok rv buf = true ->
  snd (snd (driver_run rv buf p)) = None /\
  (connected (fst p) = true -> fst (driver_run rv buf p) = step_buf rv buf).
Proof.
  intros Hd Ho Hs. unfold Model.driver_run. destruct (connected (fst p)); [|split; [reflexivity|discriminate]].
  pose proof (send_if_msgs_none p Ho) as H1. destruct (send_if_msgs p) as [p1 x1]. cbn [snd] in H1. subst x1.
  destruct (read_none rv buf p1 Hd Ho Hs) as [H2 H3].
  destruct (read rv buf p1) as [buf' [p2 x2]]. cbn [fst snd] in *. subst x2 buf'.
  cbn [fst snd]. split; [apply send_if_msgs_none; exact Ho|reflexivity].
Qed.

(* the invariant of the run of drivers.run() calls *)
Definition inv (ms : mstate St) (buf : bytes) : Prop :=
  alive ms = true /\ crashed ms = false /\ Forall (fun x => x = None) (escapes ms) /\
  (connected (fst (m_p ms)) = true -> m_buf ms = buf).

Lemma drivers_run_inv ms rv buf : dispatch_ok -> out_ok ->
  inv ms buf -> step_ok rv buf = true -> inv (drivers_run ms rv) (step_buf rv buf).
Proof.
  intros Hd Ho (Ha & Hc & He & Hb) Hs. unfold Model.drivers_run. rewrite Ha, Hc. cbn [andb negb].
  destruct (connected (fst (m_p ms))) eqn:Ec.
  - rewrite (Hb eq_refl) in *.
    destruct (driver_run_none rv buf (m_p ms) Hd Ho Hs) as [H1 H2]. specialize (H2 Ec).
    destruct (driver_run rv buf (m_p ms)) as [b' [p' x]]. cbn [fst snd] in *. subst x b'.
    repeat split; cbn; auto.
  - (* not connected: SocketDriver.run sleeps and returns; nothing is read any more *)
    unfold Model.driver_run. rewrite Ec. repeat split; cbn; auto. rewrite Ec. discriminate.
Qed.

Lemma run_reads_inv rvs : dispatch_ok -> out_ok ->
  forall ms buf, inv ms buf -> dom rvs buf = true -> exists buf', inv (run_reads rvs ms) buf'.
Proof.
  intros Hd Ho. induction rvs as [|rv rvs IH]; intros ms buf Hi Hdom; [exists buf; exact Hi|].
  rewrite dom_cons in Hdom. apply andb_true_iff in Hdom as [Hs Hr].
  unfold Model.run_reads. cbn [fold_left]. eapply IH; [|exact Hr].
  apply drivers_run_inv; assumption.
Qed.

Lemma inv_init s : inv (init s) [].
Proof. repeat split; cbn; auto. Qed.

(* loop survival on the domain *)
Lemma loop_survives_on_domain rvs s :
  dispatch_ok -> out_ok -> dom rvs [] = true ->
  let ms := run_reads rvs (init s) in
  alive ms = true /\ crashed ms = false /\ Forall (fun x => x = None) (escapes ms).
Proof.
  intros Hd Ho Hdom. destruct (run_reads_inv rvs Hd Ho (init s) [] (inv_init s) Hdom) as [b (Ha & Hc & He & _)].
  auto.
Qed.
End Proofs.
