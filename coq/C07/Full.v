(* C07/Full.v — PING answered after ANY prefix of bytes, for a decode_raw_line that yields no lone surrogate
   (the survival theorem itself needs no such hypothesis: Lemmas.loop_survives) *)
From Coq Require Import List NArith ZArith Bool Lia.
Import ListNotations.
Require Import Base.Wire Base.PyStr C05.Model C07.Model C07.Lemmas C07.Ping C07.Echo.
Require gen.T07.
Open Scope N_scope.

Lemma T_calm_timeout : caught gen.T07.READ_CATCHES XTimeout = true.
Proof. vm_compute. reflexivity. Qed.
Lemma T_calm_ssl : caught gen.T07.READ_CATCHES XSSLTimeout = true.
Proof. vm_compute. reflexivity. Qed.

(* conn.recv raises nothing but what _read's except clauses name (socket.timeout, SSLError, socket.error) *)
Definition recv_ok (rvs : list recv) : bool := forallb rv_ok rvs.

Section Full.
Variable St : Type.
Variable vt : str -> bool.
Variable decode : bytes -> str.
Variable dispatch addmsg : N -> msg -> St -> hres St.
Variable cbs : list (cb St).

(* the contract of utils.str.decode_raw_line that the send side relies on: no lone surrogate
   (codec error handlers strict/replace only: inventory DECODE_HANDLERS in tables_ok) *)
Definition decode_clean : Prop := forall b, encodable (decode b) = true.

Lemma line_ok_all : decode_clean -> forall l, line_ok vt decode l = true.
Proof.
  intros Hc l. unfold line_ok. destruct (parse_msg vt (decode l)) as [[m|]|e] eqn:E; [|reflexivity|].
  - exact (echo_ok_of_encodable vt (decode l) m (Hc l) E).
  - rewrite (parse_msg_guarded vt (decode l) e E), guard_quiet. reflexivity.
Qed.

Lemma dom_all : decode_clean -> forall rvs buf, recv_ok rvs = true -> dom vt decode rvs buf = true.
Proof.
  intros Hc. induction rvs as [|rv rvs IH]; intros buf Hr; [reflexivity|].
  unfold recv_ok in Hr. cbn [forallb] in Hr. apply andb_true_iff in Hr as [H1 H2]. fold (recv_ok rvs) in H2.
  rewrite (dom_cons vt decode). apply andb_true_iff. split; [|apply IH; exact H2].
  destruct rv as [b| |x]; cbn [step_ok]; [|reflexivity|exact H1].
  apply forallb_forall. intros l _. apply line_ok_all. exact Hc.
Qed.

Lemma calm_recv_ok rvs : forallb calm rvs = true -> recv_ok rvs = true.
Proof.
  induction rvs as [|rv rvs IH]; intro H; [reflexivity|]. cbn [forallb] in H. apply andb_true_iff in H as [H1 H2].
  unfold recv_ok in *. cbn [forallb]. rewrite (IH H2), andb_true_r.
  destruct rv as [b| |x]; [reflexivity|discriminate|]. destruct x; try discriminate; [exact T_calm_timeout|exact T_calm_ssl].
Qed.

Lemma ping_after_full rvs s l m a rest :
  quiet St dispatch addmsg cbs -> dispatch_ok St dispatch -> out_ok St cbs -> decode_clean ->
  forallb calm rvs = true -> final_buf rvs = [] ->
  mem LFb l = false -> parse_msg vt (decode l) = Ok (Some m) ->
  is_ping (m_command m) = true -> m_args m = a :: rest -> valid_arg a = true ->
  let ms := run_reads St vt decode dispatch addmsg cbs (rvs ++ [RData (l ++ [LFb])]) (init s) in
  alive ms = true /\ crashed ms = false /\ In a (sent (fst (m_p ms))).
Proof.
  intros Hq Hd Ho Hc Hcalm Hfb Hmem Hp Hping Hargs Hv.
  assert (Henc : encodable a = true).
  { pose proof (echo_ok_of_encodable vt (decode l) m (Hc l) Hp) as He. unfold echo_ok in He.
    rewrite Hping, Hargs, Hv in He. exact He. }
  eapply ping_after; eauto. apply dom_all; [exact Hc|]. apply calm_recv_ok. exact Hcalm.
Qed.
End Full.
