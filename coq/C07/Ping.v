(* C07/Ping.v — a PING after any parse-clean prefix is answered; partial effects of raising handlers *)
From Coq Require Import List NArith ZArith Bool Lia.
Import ListNotations.
Require Import Base.Wire Base.PyStr C05.Model C07.Model C07.Lemmas.
Require gen.T07.
Open Scope N_scope.

Lemma T_timeout : first_match gen.T07.READ_CATCHES XTimeout = Some gen.T07.CSocketTimeout.
Proof. vm_compute. reflexivity. Qed.
Lemma T_ssltimeout : first_match gen.T07.READ_CATCHES XSSLTimeout = Some gen.T07.CSSLError.
Proof. vm_compute. reflexivity. Qed.

(* b'...'.split(b'\n') of one complete line *)
Lemma split_char_line c l : mem c l = false -> split_char c (l ++ [c]) = [l; []].
Proof.
  induction l as [|x l IH]; intro H.
  - cbn. rewrite N.eqb_refl. reflexivity.
  - cbn [mem existsb] in H. apply orb_false_iff in H as [Hx Hl].
    cbn [app split_char]. rewrite N.eqb_sym in Hx. rewrite Hx. rewrite (IH Hl). reflexivity.
Qed.

Lemma split_lines_line l : mem LFb l = false -> split_lines (l ++ [LFb]) = ([l], []).
Proof. intro H. unfold split_lines. rewrite (split_char_line _ _ H). reflexivity. Qed.

Section Ping.
Variable St : Type.
Variable vt : str -> bool.
Variable decode : bytes -> str.
Variable dispatch addmsg : N -> msg -> St -> hres St.
Variable cbs : list (cb St).

Notation pstate := (pstate St).
Notation run_infilters := (run_infilters St).
Notation run_calls := (run_calls St).
Notation feed_body := (feed_body St dispatch addmsg cbs).
Notation feed_msg := (feed_msg St dispatch addmsg cbs).
Notation feed_lines := (feed_lines St vt decode dispatch addmsg cbs).
Notation run_outfilters := (run_outfilters St).
Notation take_all := (take_all St cbs).
Notation send_if_msgs := (send_if_msgs St cbs).
Notation read_body := (read_body St vt decode dispatch addmsg cbs).
Notation read_tail := (read_tail St cbs).
Notation read := (read St vt decode dispatch addmsg cbs).
Notation driver_run := (driver_run St vt decode dispatch addmsg cbs).
Notation drivers_run := (drivers_run St vt decode dispatch addmsg cbs).
Notation run_reads := (run_reads St vt decode dispatch addmsg cbs).
Notation dom := (dom vt decode).
Notation dispatch_ok := (dispatch_ok St dispatch).
Notation out_ok := (out_ok St cbs).

(* nobody asks the driver to reconnect *)
Definition quiet_cb (c : cb St) : Prop :=
  (forall n m s, h_reconn (fst (cb_in c n m s)) = false) /\
  (forall n m s, h_reconn (cb_call c n m s) = false) /\
  (forall a s, h_reconn (cb_out c a s) = false).
Definition quiet : Prop :=
  (forall n m s, h_reconn (dispatch n m s) = false) /\
  (forall n m s, h_reconn (addmsg n m s) = false) /\ Forall quiet_cb cbs.

Lemma infilters_d n m l : Forall quiet_cb l -> forall p, fst (fst (fst (run_infilters n m l p))) = fst p.
Proof.
  induction 1 as [|c l Hc Hl IH]; intro p; cbn [Model.run_infilters]; [reflexivity|].
  destruct Hc as (Hi & _ & _). specialize (Hi n m (snd p)).
  destruct (cb_in c n m (snd p)) as [r keep]. cbn [fst] in Hi. rewrite Hi. cbn [apply_reconn].
  destruct (h_exc r) as [e|].
  - rewrite through_try_all by exact T_inf. rewrite IH. reflexivity.
  - destruct keep; [rewrite IH|]; reflexivity.
Qed.

Lemma calls_d n m l : Forall quiet_cb l -> forall p, fst (fst (run_calls n m l p)) = fst p.
Proof.
  induction 1 as [|c l Hc Hl IH]; intro p; cbn [Model.run_calls]; [reflexivity|].
  destruct Hc as (_ & Hi & _). rewrite Hi. cbn [apply_reconn].
  rewrite through_try_all by exact T_call. rewrite IH. reflexivity.
Qed.

Lemma outfilters_d a l : Forall quiet_cb l -> forall p, fst (fst (run_outfilters a l p)) = fst p.
Proof.
  induction 1 as [|c l Hc Hl IH]; intro p; cbn [Model.run_outfilters]; [reflexivity|].
  destruct Hc as (_ & _ & Hi). rewrite Hi. cbn [apply_reconn].
  destruct (through_fw _ _); [reflexivity|]. rewrite IH. reflexivity.
Qed.

(* a PING is not a 005 *)
Lemma is_ping_not_005 c : is_ping c = true -> seq_eqb c s_005 = false.
Proof.
  destruct c as [|a [|b [|c [|d [|e r]]]]]; try discriminate. intros _.
  cbn. rewrite !andb_false_r. reflexivity.
Qed.

(* after addMsg: the rest of feedMsg leaves the driver/queue state alone, but for do005 rewriting state.supported *)
Lemma feed_rest_d n m d s :
  quiet -> seq_eqb (m_command m) s_005 = false -> fst (fst (feed_rest St addmsg cbs n m d s)) = d.
Proof.
  intros (Hqd & Hqa & Hqc) H5. unfold Model.feed_rest. cbn zeta. rewrite Hqa, H5. cbn [apply_reconn].
  replace (match h_exc (addmsg n m s) with Some _ => d | None => d end) with d by (destruct (h_exc (addmsg n m s)); reflexivity).
  destruct (through_try_at _ _ _); [reflexivity|].
  pose proof (infilters_d n m cbs Hqc (d, h_st (addmsg n m s))) as H1.
  destruct (run_infilters n m cbs _) as [[p3 x] go]. cbn [fst] in H1.
  destruct x; [exact H1|]. destruct go; [|exact H1]. rewrite (calls_d n m cbs Hqc). exact H1.
Qed.

Lemma feed_rest_conn n m d s :
  quiet -> connected (fst (fst (feed_rest St addmsg cbs n m d s))) = connected d.
Proof.
  intros (Hqd & Hqa & Hqc). unfold Model.feed_rest. cbn zeta. rewrite Hqa. cbn [apply_reconn].
  set (d2 := match h_exc (addmsg n m s) with None => _ | Some _ => _ end).
  assert (H2 : connected d2 = connected d).
  { unfold d2. destruct (h_exc (addmsg n m s)); [reflexivity|]. destruct (seq_eqb _ _); reflexivity. }
  destruct (through_try_at _ _ _); [exact H2|].
  pose proof (infilters_d n m cbs Hqc (d2, h_st (addmsg n m s))) as H1.
  destruct (run_infilters n m cbs _) as [[p3 x] go]. cbn [fst] in H1.
  destruct x; cbn [fst]; [rewrite H1; exact H2|]. destruct go; cbn [fst]; [|rewrite H1; exact H2].
  rewrite (calls_d n m cbs Hqc), H1. exact H2.
Qed.

Lemma feed_body_conn n m d s : quiet -> connected (fst (fst (feed_body n m (d, s)))) = connected d.
Proof.
  intros Hq. pose proof Hq as (Hqd & Hqa & Hqc). unfold Model.feed_body. rewrite tag_safe.
  destruct (existsb _ _ && _); [reflexivity|].
  destruct (is_ping (m_command m)).
  - destruct (m_args m) as [|a rest]; [reflexivity|].
    destruct (valid_arg a); [|reflexivity].
    cbn [snd fst]. rewrite (feed_rest_conn n m _ s Hq). reflexivity.
  - rewrite Hqd. cbn [apply_reconn]. destruct (h_exc (dispatch n m s)); [reflexivity|].
    cbn [snd fst]. apply (feed_rest_conn n m d _ Hq).
Qed.

Lemma feed_body_ping n m d s a rest : quiet ->
  is_ping (m_command m) = true -> m_args m = a :: rest -> valid_arg a = true ->
  fst (fst (feed_body n m (d, s))) = set_outq (outq d ++ [a]) d.
Proof.
  intros Hq Hp Ha Hv. unfold Model.feed_body. rewrite tag_safe, Ha, Hp, Hv. cbn [is_nil]. rewrite andb_false_r.
  cbn [snd fst]. apply (feed_rest_d n m (set_outq (outq d ++ [a]) d) s Hq). apply is_ping_not_005. exact Hp.
Qed.

Lemma feed_msg_conn line m p : quiet -> connected (fst (fst (feed_msg line m p))) = connected (fst p).
Proof.
  intro Hq. unfold Model.feed_msg. destruct p as [d s]. cbn [fst snd].
  pose proof (feed_body_conn (nfed d) m (note_fed line d) s Hq) as H.
  destruct (feed_body _ m _) as [[d' s'] x]. cbn [fst] in *. exact H.
Qed.

Lemma feed_msg_ping line m p a rest : quiet ->
  is_ping (m_command m) = true -> m_args m = a :: rest -> valid_arg a = true ->
  outq (fst (fst (feed_msg line m p))) = outq (fst p) ++ [a] /\
  connected (fst (fst (feed_msg line m p))) = connected (fst p).
Proof.
  intros Hq Hp Ha Hv. unfold Model.feed_msg. destruct p as [d s]. cbn [fst snd].
  pose proof (feed_body_ping (nfed d) m (note_fed line d) s a rest Hq Hp Ha Hv) as H.
  destruct (feed_body _ m _) as [[d' s'] x]. cbn [fst] in *. subst d'. split; reflexivity.
Qed.

Lemma feed_lines_conn ls : quiet -> dispatch_ok ->
  forall p, connected (fst (fst (feed_lines ls p))) = connected (fst p).
Proof.
  intros Hq Hd. induction ls as [|l ls IH]; intro p; [reflexivity|].
  cbn [Model.feed_lines].
  destruct (parse_msg vt (decode l)) as [[m|]|e].
  - pose proof (feed_msg_conn (strip gen.T07.PY_WS (decode l)) m p Hq) as Hc.
    pose proof (feed_msg_none St dispatch addmsg cbs (strip gen.T07.PY_WS (decode l)) m p Hd) as Hn.
    destruct (feed_msg _ m p) as [p' x]. cbn [fst snd] in *. subst x. cbn [through_try_at]. rewrite IH. exact Hc.
  - apply IH.
  - destruct (caught _ _); [apply IH|reflexivity].
Qed.

(* the takeMsg loop hands over the whole queue when everything queued is encodable *)
Lemma take_all_drain fuel : quiet -> out_ok ->
  forall acc p, (length (outq (fst p)) < fuel)%nat -> forallb encodable (outq (fst p)) = true ->
  exists s', take_all fuel acc p = ((set_outq [] (fst p), s'), acc ++ outq (fst p), None).
Proof.
  intros Hq Ho. pose proof Hq as (_ & _ & Hqc).
  induction fuel as [|f IH]; intros acc p Hlen Henc; [lia|].
  cbn [Model.take_all]. destruct p as [d s]. cbn [fst snd] in *.
  destruct (outq d) as [|a q] eqn:Eq.
  - exists s. rewrite app_nil_r. destruct d; cbn in *; subst; reflexivity.
  - cbn [forallb] in Henc. apply andb_true_iff in Henc as [Ha Hqe].
    rewrite tag_safe, andb_false_r.
    pose proof (run_outfilters_none St a (rev cbs) (out_ok_rev St cbs Ho) (set_outq q d, s)) as Hn.
    pose proof (outfilters_d a (rev cbs) (Forall_rev Hqc) (set_outq q d, s)) as Hd'.
    destruct (run_outfilters a (rev cbs) _) as [[d1 s1] x]. cbn [fst snd] in *. subst x d1.
    rewrite Ha, orb_true_r.
    destruct (IH (acc ++ [a]) (set_outq q d, s1)) as [s' Hs']; [cbn in *; lia|exact Hqe|].
    exists s'. rewrite Hs'. cbn. rewrite <- app_assoc. reflexivity.
Qed.

Definition flushed (d : dstate) : dstate :=
  set_sent (sent d ++ outq d) (set_outbuf [] (set_outq [] d)).

Lemma send_if_msgs_eff p : quiet -> out_ok -> connected (fst p) = true -> enc_ok (fst p) = true ->
  exists s', send_if_msgs p = ((flushed (fst p), s'), None).
Proof.
  intros Hq Ho Hc He. unfold Model.send_if_msgs. rewrite Hc.
  unfold enc_ok, enc_qb, qb in He. cbn [fst snd] in He. apply andb_true_iff in He as [H1 H2].
  destruct (take_all_drain (S (length (outq (fst p)))) Hq Ho [] p) as [s' Hs']; [lia|exact H1|].
  rewrite Hs'. exists s'. cbn [fst snd app]. rewrite H1.
  destruct (outbuf (fst p)) eqn:Eb; [|discriminate].
  unfold flushed. cbn [set_outq outbuf sent]. rewrite Eb. reflexivity.
Qed.

Lemma flushed_ok d : connected (flushed d) = connected d /\ enc_ok (flushed d) = true.
Proof. split; reflexivity. Qed.

(* a recv outcome that neither closes nor breaks the connection *)
Definition calm (rv : recv) : bool :=
  match rv with RData _ => true | RRaise XTimeout => true | RRaise XSSLTimeout => true | _ => false end.

(* one drivers.run() on a calm outcome: still connected, PONGs only accumulate, and a PING line
   completed by this chunk is answered *)
Lemma driver_run_calm rv buf p : quiet -> dispatch_ok -> out_ok -> calm rv = true -> step_ok vt decode rv buf = true ->
  connected (fst p) = true -> enc_ok (fst p) = true ->
  let r := driver_run rv buf p in
  snd (snd r) = None /\ connected (fst (fst (snd r))) = true /\ enc_ok (fst (fst (snd r))) = true /\
  (forall l m a rest, rv = RData (l ++ [LFb]) -> buf = [] -> mem LFb l = false ->
     parse_msg vt (decode l) = Ok (Some m) -> is_ping (m_command m) = true -> m_args m = a :: rest ->
     valid_arg a = true -> In a (sent (fst (fst (snd r))))).
Proof.
  intros Hq Hd Ho Hcalm Hs Hc He. cbn zeta. unfold Model.driver_run. rewrite Hc.
  destruct (send_if_msgs_eff p Hq Ho Hc He) as [s1 H1]. rewrite H1.
  set (d1 := flushed (fst p)).
  assert (Hc1 : connected d1 = true) by exact Hc.
  assert (He1 : enc_ok d1 = true) by reflexivity.
  unfold Model.read, Model.read_body.
  destruct rv as [b| |x]; [| discriminate |].
  - cbn [step_ok] in Hs.
    destruct (split_lines (buf ++ b)) as [ls rest0] eqn:Esp. cbn [fst] in Hs.
    pose proof (feed_lines_none St vt decode dispatch addmsg cbs ls Hd (d1, s1)) as Hn.
    pose proof (feed_lines_conn ls Hq Hd (d1, s1)) as Hcc.
    pose proof (feed_lines_enc St vt decode dispatch addmsg cbs ls (d1, s1) Hs He1) as He2.
    destruct (feed_lines ls (d1, s1)) as [p2 x2] eqn:Ef. cbn [fst snd] in *. subst x2.
    unfold Model.read_tail.
    assert (Hc2 : connected (fst p2) = true) by (rewrite Hcc; exact Hc1).
    destruct (send_if_msgs_eff p2 Hq Ho Hc2 He2) as [s3 H3]. rewrite H3. cbn [fst snd].
    set (d3 := flushed (fst p2)).
    assert (Hc3 : connected d3 = true) by exact Hc2.
    assert (He3 : enc_ok d3 = true) by reflexivity.
    destruct (send_if_msgs_eff (d3, s3) Hq Ho Hc3 He3) as [s4 H4]. rewrite H4. cbn [fst snd].
    split; [reflexivity|]. split; [exact Hc3|]. split; [reflexivity|].
    intros l m a rest Hrv Hbuf Hmem Hp Hping Hargs Hv. inversion Hrv; subst b buf. clear Hrv.
    cbn [app] in Esp. rewrite (split_lines_line l Hmem) in Esp. inversion Esp; subst ls rest0. clear Esp.
    cbn [Model.feed_lines] in Ef. rewrite Hp in Ef.
    destruct (feed_msg_ping (strip gen.T07.PY_WS (decode l)) m (d1, s1) a rest Hq Hping Hargs Hv) as [Hq1 _].
    pose proof (feed_msg_none St dispatch addmsg cbs (strip gen.T07.PY_WS (decode l)) m (d1, s1) Hd) as Hn1.
    destruct (feed_msg _ m (d1, s1)) as [p' x']. cbn [fst snd] in *. subst x'. cbn [through_try_at] in Ef.
    inversion Ef; subst p2. clear Ef.
    cbn. apply in_or_app. left. apply in_or_app. right. rewrite Hq1. apply in_or_app. right. left. reflexivity.
  - assert (Hx : first_match gen.T07.READ_CATCHES x = Some gen.T07.CSocketTimeout /\ x = XTimeout \/
                 first_match gen.T07.READ_CATCHES x = Some gen.T07.CSSLError /\ x = XSSLTimeout).
    { destruct x; try discriminate; [left; split; [exact T_timeout|reflexivity] | right; split; [exact T_ssltimeout|reflexivity]]. }
    unfold Model.read_tail.
    destruct (send_if_msgs_eff (d1, s1) Hq Ho Hc1 He1) as [s3 H3]. cbn [fst] in H3.
    set (d3 := flushed d1) in *.
    assert (Hc3 : connected d3 = true) by exact Hc1.
    assert (He3 : enc_ok d3 = true) by reflexivity.
    destruct (send_if_msgs_eff (d3, s3) Hq Ho Hc3 He3) as [s4 H4].
    destruct Hx as [[Hx Hx']|[Hx Hx']]; rewrite Hx; subst x; cbn [fst snd] in *; rewrite H3; cbn [fst snd]; rewrite H4; cbn [fst snd];
      (split; [reflexivity|]; split; [exact Hc3|]; split; [reflexivity|]; intros; discriminate).
Qed.

(* the prefix keeps the connection *)
Definition inv2 (ms : mstate St) (buf : bytes) : Prop :=
  alive ms = true /\ crashed ms = false /\ m_buf ms = buf /\ connected (fst (m_p ms)) = true /\
  enc_ok (fst (m_p ms)) = true.

Lemma drivers_run_inv2 ms rv buf : quiet -> dispatch_ok -> out_ok ->
  inv2 ms buf -> calm rv = true -> step_ok vt decode rv buf = true ->
  inv2 (drivers_run ms rv) (step_buf rv buf).
Proof.
  intros Hq Hd Ho (Ha & Hcr & Hb & Hc & He) Hcalm Hs. unfold Model.drivers_run. rewrite Ha, Hcr. cbn [andb negb].
  destruct (driver_run_calm rv buf (m_p ms) Hq Hd Ho Hcalm Hs Hc He) as (H1 & H2 & H2e & _).
  destruct (driver_run_none St vt decode dispatch addmsg cbs rv buf (m_p ms) Hd Ho (step_ok_rv vt decode rv buf Hs)) as (_ & H3).
  specialize (H3 Hc). rewrite Hb.
  destruct (driver_run rv buf (m_p ms)) as [b' [p' x]]. cbn [fst snd] in *. subst x b'.
  repeat split; cbn; auto.
Qed.

Lemma run_reads_inv2 rvs : quiet -> dispatch_ok -> out_ok ->
  forall ms buf, inv2 ms buf -> forallb calm rvs = true -> dom rvs buf = true ->
  inv2 (run_reads rvs ms) (fold_left (fun b rv => step_buf rv b) rvs buf).
Proof.
  intros Hq Hd Ho. induction rvs as [|rv rvs IH]; intros ms buf Hi Hcalm Hdom; [exact Hi|].
  rewrite (dom_cons vt decode) in Hdom. apply andb_true_iff in Hdom as [Hs Hr].
  cbn [forallb] in Hcalm. apply andb_true_iff in Hcalm as [Hc1 Hc2].
  unfold Model.run_reads. cbn [fold_left]. apply IH; [|exact Hc2|exact Hr].
  apply drivers_run_inv2; assumption.
Qed.

Definition final_buf (rvs : list recv) : bytes := fold_left (fun b rv => step_buf rv b) rvs [].

Lemma run_reads_app rvs1 rvs2 ms : run_reads (rvs1 ++ rvs2) ms = run_reads rvs2 (run_reads rvs1 ms).
Proof. unfold Model.run_reads. apply fold_left_app. Qed.

(* PING after a parse-clean prefix *)
Lemma ping_after rvs s l m a rest :
  quiet -> dispatch_ok -> out_ok ->
  forallb calm rvs = true -> dom rvs [] = true -> final_buf rvs = [] ->
  mem LFb l = false -> parse_msg vt (decode l) = Ok (Some m) ->
  is_ping (m_command m) = true -> m_args m = a :: rest -> valid_arg a = true -> encodable a = true ->
  let ms := run_reads (rvs ++ [RData (l ++ [LFb])]) (init s) in
  alive ms = true /\ crashed ms = false /\ In a (sent (fst (m_p ms))).
Proof.
  intros Hq Hd Ho Hcalm Hdom Hfb Hmem Hp Hping Hargs Hv Henc. cbn zeta. rewrite run_reads_app.
  assert (Hi0 : inv2 (init s) []) by (repeat split; reflexivity).
  pose proof (run_reads_inv2 rvs Hq Hd Ho (init s) [] Hi0 Hcalm Hdom) as (Ha & Hcr & Hb & Hc & He).
  fold (final_buf rvs) in Hb. rewrite Hfb in Hb.
  set (ms := run_reads rvs (init s)) in *.
  unfold Model.run_reads. cbn [fold_left]. unfold Model.drivers_run. rewrite Ha, Hcr. cbn [andb negb]. rewrite Hb.
  assert (Hs : step_ok vt decode (RData (l ++ [LFb])) [] = true).
  { cbn [step_ok app]. rewrite (split_lines_line l Hmem). cbn. unfold Model.line_ok. rewrite Hp.
    unfold echo_ok. rewrite Hping, Hargs, Hv, Henc. reflexivity. }
  destruct (driver_run_calm (RData (l ++ [LFb])) [] (m_p ms) Hq Hd Ho eq_refl Hs Hc He) as (H1 & H2 & _ & H3).
  specialize (H3 l m a rest eq_refl eq_refl Hmem Hp Hping Hargs Hv).
  destruct (driver_run _ [] (m_p ms)) as [b' [p' x]]. cbn [fst snd] in *. subst x.
  repeat split; cbn; auto.
Qed.

(* a handler that raises after mutating leaves the mutation: state-then-raise *)
Lemma partial_effects n m d s e :
  is_ping (m_command m) = false ->
  (existsb (seq_eqb (m_command m)) gen.T07.NICK_SETTERS && is_nil (m_args m)) = false ->
  h_exc (dispatch n m s) = Some e ->
  feed_body n m (d, s) = ((apply_reconn (h_reconn (dispatch n m s)) d, h_st (dispatch n m s)), Some e).
Proof.
  intros Hp Hn He. unfold Model.feed_body. rewrite tag_safe, Hn, Hp, He. reflexivity.
Qed.
End Ping.
