(* C07/Echo.v — every argument of a parsed message is cut out of the line: if the decoded line carries no
   lone surrogate, neither does anything the bot echoes from it *)
From Coq Require Import List NArith ZArith Bool Lia.
Import ListNotations.
Require Import Base.Wire Base.PyStr C05.Model C07.Model.
Require gen.T07.
Open Scope N_scope.

Section Sub.
Variable P : N -> bool.
Notation fa := (forallb P).

Lemma fa_lstrip chars s : fa s = true -> fa (lstrip chars s) = true.
Proof.
  induction s as [|c s IH]; cbn [lstrip]; [auto|]. intro H.
  destruct (mem c chars); [|exact H]. apply IH. cbn in H. apply andb_true_iff in H. tauto.
Qed.

Lemma fa_rev s : fa (rev s) = fa s.
Proof.
  induction s as [|c s IH]; [reflexivity|]. cbn [rev]. rewrite forallb_app, IH. cbn. rewrite andb_true_r. apply andb_comm.
Qed.

Lemma fa_rstrip chars s : fa s = true -> fa (rstrip chars s) = true.
Proof.
  intro H. unfold rstrip. rewrite fa_rev. rewrite <- fa_rev in H. revert H.
  induction (rev s) as [|c r IH]; [auto|]. intro H. destruct (mem c chars); [|exact H].
  apply IH. cbn in H. apply andb_true_iff in H. tauto.
Qed.

Lemma fa_strip chars s : fa s = true -> fa (strip chars s) = true.
Proof. intro H. unfold strip. apply fa_rstrip, fa_lstrip, H. Qed.

Lemma fa_skipn n s : fa s = true -> fa (skipn n s) = true.
Proof.
  revert s. induction n as [|n IH]; intros s H; [exact H|]. destruct s as [|c s]; [exact H|].
  cbn [skipn]. apply IH. cbn in H. apply andb_true_iff in H. tauto.
Qed.

Lemma fa_split1 sep s a b : split1 sep s = Some (a, b) -> fa s = true -> fa a = true /\ fa b = true.
Proof.
  revert a b. induction s as [|c s IH]; intros a b Hs H; [discriminate|]. cbn [split1] in Hs.
  destruct (startswith sep (c :: s)).
  - inversion Hs; subst. split; [reflexivity|]. apply fa_skipn. exact H.
  - destruct (split1 sep s) as [[a' b']|]; [|discriminate]. inversion Hs; subst.
    cbn in H. apply andb_true_iff in H as [Hc Hr]. destruct (IH a' b eq_refl Hr) as [Ha Hb].
    split; [cbn; rewrite Hc, Ha; reflexivity|exact Hb].
Qed.

Lemma fa_split_char c s : fa s = true -> forallb fa (split_char c s) = true.
Proof.
  induction s as [|x s IH]; intro H; [reflexivity|]. cbn in H. apply andb_true_iff in H as [Hx Hs].
  specialize (IH Hs). cbn [split_char]. destruct (N.eqb x c); [cbn; exact IH|].
  destruct (split_char c s) as [|p ps]; [cbn; rewrite Hx; reflexivity|].
  cbn in *. apply andb_true_iff in IH as [Hp Hps]. rewrite Hx, Hp, Hps. reflexivity.
Qed.

Lemma fa_filter {A} (Q f : A -> bool) l : forallb Q l = true -> forallb Q (filter f l) = true.
Proof.
  induction l as [|x l IH]; intro H; [reflexivity|]. cbn in H. apply andb_true_iff in H as [Hx Hl].
  cbn [filter]. destruct (f x); [cbn; rewrite Hx; auto|auto].
Qed.

Lemma fa_parse_args s : fa s = true -> forallb fa (parse_args s) = true.
Proof.
  intro H. unfold parse_args, split_args.
  destruct (split1 [SP; COLON] s) as [[a last]|] eqn:E.
  - destruct (fa_split1 _ _ _ _ E H) as [Ha Hl]. rewrite forallb_app. apply andb_true_iff. split.
    + apply fa_filter, fa_split_char, Ha.
    + cbn [forallb]. rewrite (fa_rstrip crlf last Hl). reflexivity.
  - apply fa_filter, fa_split_char, fa_rstrip, H.
Qed.

Lemma fa_split_tags s tg rest : split_tags s = Ok (tg, rest) -> fa s = true -> fa rest = true.
Proof.
  unfold split_tags. destruct s as [|c s']; [discriminate|]. destruct (N.eqb c AT).
  - destruct (split1 [SP] (c :: s')) as [[st r]|] eqn:E; [|discriminate].
    intros Hs H. inversion Hs; subst. apply (fa_split1 _ _ _ _ E H).
  - intros Hs H. inversion Hs; subst. exact H.
Qed.

Lemma fa_parse_head vt tg args m :
  parse_head vt tg args = Ok m -> forallb fa args = true -> forallb fa (m_args m) = true.
Proof.
  unfold parse_head. destruct args as [|a0 rest]; [discriminate|]. destruct a0 as [|c a0']; [discriminate|].
  intros Hm H. cbn in H. apply andb_true_iff in H as [_ Hr].
  destruct (N.eqb c COLON).
  - destruct rest as [|cmd rest']; cbn [bind] in Hm; [discriminate|].
    cbn in Hr. apply andb_true_iff in Hr as [_ Hr'].
    destruct (dict_get time_key tg) as [[v|]|]; [destruct (vt v)| |]; cbn in Hm; inversion Hm; subst; exact Hr'.
  - cbn [bind] in Hm.
    destruct (dict_get time_key tg) as [[v|]|]; [destruct (vt v)| |]; cbn in Hm; inversion Hm; subst; exact Hr.
Qed.

Lemma fa_parse vt s m : P LF = true -> parse vt s = Ok m -> fa s = true -> forallb fa (m_args m) = true.
Proof.
  intros HLF Hp H. unfold parse in Hp. destruct s as [|c0 s0]; [discriminate|].
  destruct (parse_inner vt (c0 :: s0)) as [m'|e] eqn:Ep; [|destruct (existsb _ _); discriminate].
  inversion Hp; subst m'. unfold parse_inner in Ep.
  match type of Ep with context [split_tags ?X] => set (s' := X) in * end.
  assert (Hs' : fa s' = true).
  { unfold s'. destruct (endswith1 LF (c0 :: s0)); [exact H|]. rewrite forallb_app, H. cbn. rewrite HLF. reflexivity. }
  destruct (split_tags s') as [[tg rest]|e] eqn:Es; [|discriminate]. cbn [bind fst snd] in Ep.
  eapply fa_parse_head; [exact Ep|]. apply fa_parse_args. eapply fa_split_tags; eauto.
Qed.
End Sub.

Lemma echo_ok_of_encodable vt s m :
  encodable s = true -> parse_msg vt s = Ok (Some m) -> echo_ok m = true.
Proof.
  intros He Hp. unfold parse_msg in Hp.
  destruct (strip gen.T07.PY_WS s) as [|c s'] eqn:Es; [discriminate|].
  destruct (parse vt (c :: s')) as [m'|e] eqn:Ep; [|discriminate]. inversion Hp; subst m'.
  assert (Ha : forallb encodable (m_args m) = true).
  { apply (fa_parse enc_char vt (c :: s') m eq_refl Ep). rewrite <- Es. apply fa_strip. exact He. }
  unfold echo_ok. destruct (is_ping (m_command m)); [|reflexivity].
  destruct (m_args m) as [|a rest]; [reflexivity|]. cbn in Ha. apply andb_true_iff in Ha as [Ha _].
  rewrite Ha. apply orb_true_r.
Qed.
