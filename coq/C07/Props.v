(* C07/Props.v — the property theorems, nothing else.
   Model: C07/Model.v (exception flow of drivers.run / SocketDriver._read / parseMsg / log.firewall / Irc.feedMsg /
   _sendIfMsgs).  Proofs: Lemmas.v (parser raises only MalformedIrcMsg, firewall, survival invariant), Echo.v (arguments
   are cut out of the line), Ping.v (PING answered, partial effects), Full.v (full statements), Witness.v (examples).
   Handlers (dispatch, addmsg) and plugin callbacks (cbs) are arbitrary functions over an arbitrary state type St:
   they mutate, may raise any exception class, and keep their mutation when they raise.
   State of the repairs: C07.F4 (per-line try/except in SocketDriver._read) and C05.F3 (TypeError in the except clause
   of IrcMsg.__init__) are in the tree; the tables LOOP_GUARD_PARSE and PARSE_CATCHES follow the source and
   tables_ok pins them, so the former _on_domain/_refuted pair is now the full statement C07_loop_survives. *)
From Coq Require Import List NArith.
Import ListNotations.
Require Import Base.Wire Base.PyStr C05.Model C07.Model C07.Lemmas C07.Ping C07.Echo C07.Full C07.Witness.

(* Whatever the Irc handler (any Exception subclass), IrcState.addMsg, the in-filters and the callbacks
   (anything, BaseException included) do, Irc.feedMsg returns normally. *)
Theorem C07_firewall_total :
  forall St dispatch addmsg cbs line m (p : pstate St),
  dispatch_ok St dispatch -> snd (feed_msg St dispatch addmsg cbs line m p) = None.
Proof. exact feed_msg_none. Qed.
Print Assumptions C07_firewall_total.

(* drivers.parseMsg raises nothing that the per-line guard of _read does not catch. *)
Theorem C07_parse_guarded :
  forall vt s e, parse_msg vt s = Raise e -> caught gen.T07.LOOP_GUARD_PARSE (XE e) = true.
Proof. exact parse_msg_guarded. Qed.
Print Assumptions C07_parse_guarded.

(* No except handler on the read path can raise: every log call found in the handlers of SocketDriver._read,
   drivers.run, log.firewall and Irc.feedMsg (regenerated inventory HANDLER_LOGS, sanity predicate handler_logs_ok)
   has a constant template with an argument for each utils.str.format directive, so server-controlled text is only
   ever in ARGUMENT position.  (A handler that puts the rejected line into the template — '...%r' % line — makes
   handler_logs_ok false, and the model then raises ValueError out of the handler for a line such as ":%s".)
   Nor can the debug helper that Logger.exception runs inside those handlers (utils.python.collect_extra_debug_data:
   getattr of every attribute of the `self`/`cls` objects of the traceback): its guard catches every Exception class
   (inventory HELPER_GETATTR_CATCHES, sanity predicate helper_ok), so a plugin object with a property that raises is
   harmless; the example is a callback raising everywhere with such an object in its traceback. *)
Theorem C07_handlers_do_not_raise :
  handler_logs_ok = true /\ helper_ok = true /\
  (forall site x, handler_outcome site x = None) /\ (forall line, guard_log_raises line = false) /\
  consuming [58; 37; 115] = 1%N /\
  (let ms := run_reads unit (fun _ => true) dec0 h0 h0 [cb_poison]
               [RData [70; 79; 79; 10; 80; 73; 78; 71; 32; 58; 97; 10]] (init tt) in
   alive ms = true /\ crashed ms = false /\ escapes ms = [None] /\ sent (fst (m_p ms)) = [[97]]).
Proof.
  split; [exact T_logs|]. split; [exact T_helper|]. split; [exact handler_quiet|]. split; [exact guard_quiet|].
  split; [exact (proj1 consuming_examples)|exact poisoned_survives].
Qed.
Print Assumptions C07_handlers_do_not_raise.

(* The ISUPPORT entries that the per-message path reads before dispatch (_tagMsg -> _setMsgChannel -> isChannel, and
   the same tagging of every outgoing message in takeMsg) cannot make it raise, whatever do005 stored: a token without
   value (None) is not handed to ircutils.isChannel (repair of C07.F45; table pin ISCHANNEL_NONE_SAFE).  The former
   witness — ":srv 005 test CHANTYPES :are supported" then "PING :abc" — records None and answers the PING. *)
Theorem C07_isupport_cannot_stall :
  (forall i command args, tag_raises i command args = false) /\
  (forall vt, let ms := run_reads unit vt dec0 h0 h0 [] w_isupport (init tt) in
     i_chantypes (sup (fst (m_p ms))) = Some None /\ alive ms = true /\ escapes ms = [None; None] /\
     sent (fst (m_p ms)) = [[97; 98; 99]]).
Proof. split; [exact tag_safe|exact isupport_valueless_harmless]. Qed.
Print Assumptions C07_isupport_cannot_stall.

(* Which methods of a callback class get log.firewall is COMPUTED: a Gallina model of MetaFirewall.__new__ (merge of
   the __firewalled__ dictionaries over the bases; table pin METAFIREWALL_MERGES_MRO for its shape) over the regenerated
   class table PYCLASSES (bases, MRO and own __firewalled__ of IrcCallback, BasePlugin, Commands, PluginMixin, Plugin,
   PluginRegexp, ...).  For every kind of callback — derived from irclib.IrcCallback, from callbacks.Plugin (every real
   plugin) or from callbacks.PluginRegexp — the inFilter, __call__ and outFilter it defines are firewalled, and a callback
   of that kind raising from all three cannot stop the PONG.  (Repair of C07.F46: with the per-base attribute lookup
   Plugin-derived classes only inherited Commands' dictionary; fw_cb KPlugin outFilter computed to false and a raising
   outFilter made the firewalled takeMsg drop every outgoing message.)  C07_loop_survives and C07_ping_after quantify
   over callbacks of all kinds. *)
Theorem C07_raising_callback_cannot_stop_pong :
  forall k : cbkind,
  (fw_cb k s_outFilter = true /\ fw_cb k s_inFilter = true /\ fw_cb k s_call = true) /\
  (let ms := run_reads unit (fun _ => true) dec0 h0 h0 [cb_raising k]
               [RData [70; 79; 79; 10; 80; 73; 78; 71; 32; 58; 97; 10]] (init tt) in
   alive ms = true /\ escapes ms = [None] /\ sent (fst (m_p ms)) = [[97]]).
Proof.
  intro k. split; [|exact (raising_kind_answered k)].
  pose proof T_cbfw as H. unfold callback_fw_ok in H. rewrite forallb_forall in H.
  assert (Hk : In k all_kinds) by (destruct k; cbn; tauto). specialize (H k Hk).
  apply Bool.andb_true_iff in H as [H H3]. apply Bool.andb_true_iff in H as [H1 H2]. auto.
Qed.
Print Assumptions C07_raising_callback_cannot_stop_pong.

(* THE FULL STATEMENT.  For every byte stream, every decode function, every chunking, every sequence of recv faults
   that _read's except clauses name (socket.timeout, SSLError, socket.error, close), every handler raising Exception
   subclasses and every callback raising anything: the driver stays registered, drivers.run() does not crash and nothing
   leaves driver.run().  (No hypothesis on decode_raw_line any more: since Irc._truncateMsg encodes inside the
   firewalled takeMsg, a message that cannot be encoded is dropped there and never reaches data.encode() in
   _sendIfMsgs.) *)
Theorem C07_loop_survives :
  forall St vt decode dispatch addmsg cbs rvs (s : St),
  dispatch_ok St dispatch -> out_ok St cbs -> recv_ok rvs = true ->
  let ms := run_reads St vt decode dispatch addmsg cbs rvs (init s) in
  alive ms = true /\ crashed ms = false /\ Forall (fun x => x = None) (escapes ms).
Proof. exact loop_survives. Qed.
Print Assumptions C07_loop_survives.

(* The former refutation witnesses (":" then PING; "@time :x PING y" then PING): the rejected line is skipped, the
   driver stays registered and the PING after it is answered. *)
Theorem C07_rejected_lines_skipped :
  forall vt,
  (let ms := run_reads unit vt dec0 h0 h0 [] w_malformed (init tt) in
   dom vt dec0 w_malformed [] = true /\ alive ms = true /\ escapes ms = [None; None] /\ sent (fst (m_p ms)) = [[120]]) /\
  (let ms := run_reads unit vt dec0 h0 h0 [] w_time_ping (init tt) in
   dom vt dec0 w_time_ping [] = true /\ alive ms = true /\ escapes ms = [None; None] /\ sent (fst (m_p ms)) = [[120]]).
Proof. intro vt. split; [exact (malformed_skipped vt)|exact (time_skipped vt)]. Qed.
Print Assumptions C07_rejected_lines_skipped.

(* After ANY prefix of bytes that ends on a line boundary, decoded by a function that yields no lone surrogate
   (otherwise an unencodable PONG ahead in the queue is dropped first and delays the others), over a connection that is neither closed nor asked to
   reconnect, a PING line with a valid argument is answered: its payload is written to the socket, and the driver
   is still registered — for arbitrary raising handlers and callbacks. *)
Theorem C07_ping_after :
  forall St vt decode dispatch addmsg cbs rvs (s : St) l m a rest,
  quiet St dispatch addmsg cbs -> dispatch_ok St dispatch -> out_ok St cbs -> decode_clean decode ->
  forallb calm rvs = true -> final_buf rvs = [] ->
  mem LFb l = false -> parse_msg vt (decode l) = Ok (Some m) ->
  is_ping (m_command m) = true -> m_args m = a :: rest -> valid_arg a = true ->
  let ms := run_reads St vt decode dispatch addmsg cbs (rvs ++ [RData (l ++ [LFb])]) (init s) in
  alive ms = true /\ crashed ms = false /\ In a (sent (fst (m_p ms))).
Proof. exact ping_after_full. Qed.
Print Assumptions C07_ping_after.

(* A handler that raises after mutating leaves its mutation (state-then-raise). *)
Theorem C07_partial_effects :
  forall St dispatch addmsg cbs n m d (s : St) e,
  is_ping (m_command m) = false ->
  (existsb (seq_eqb (m_command m)) gen.T07.NICK_SETTERS && is_nil (m_args m))%bool = false ->
  h_exc (dispatch n m s) = Some e ->
  feed_body St dispatch addmsg cbs n m (d, s) =
    ((apply_reconn (h_reconn (dispatch n m s)) d, h_st (dispatch n m s)), Some e).
Proof. exact partial_effects. Qed.
Print Assumptions C07_partial_effects.

(* Non-vacuity: a 'replace' decoder, always-raising handlers, a callback raising BaseException everywhere, a stream
   with a split PING and a recv timeout meet every hypothesis of C07_loop_survives and C07_ping_after. *)
Theorem C07_hypotheses_inhabited :
  decode_clean dec_rep /\
  dispatch_ok unit h_raise /\ out_ok unit [cb_bad] /\ quiet unit h_raise h_raise [cb_bad] /\
  recv_ok ex_rvs = true /\ forallb calm ex_rvs = true /\ final_buf ex_rvs = [] /\
  sent (fst (m_p (run_reads unit (fun _ => true) dec_rep h_raise h_raise [cb_bad] ex_rvs (init tt)))) = [[97]] /\
  (mem LFb ex_ping = false /\
   exists m, parse_msg (fun _ => true) (dec_rep ex_ping) = Ok (Some m) /\ is_ping (m_command m) = true /\
             m_args m = [[98]] /\ valid_arg [98] = true).
Proof.
  destruct ex_domain as (H1 & H2 & H3 & H4). destruct ex_domain_rep as (H5 & H6). destruct ex_ping_hyp as (H7 & _).
  repeat split; auto using h_raise_ok, cb_bad_ok, dec_rep_clean; try apply ex_quiet; try apply ex_ping_hyp_rep.
Qed.
Print Assumptions C07_hypotheses_inhabited.

(* The hypothesis dispatch_ok is sharp: a BaseException raised by an Irc handler does kill the driver. *)
Theorem C07_base_exception_escapes :
  alive (run_reads unit (fun _ => true) dec0 h_base h0 [] [RData [70; 79; 79; 10]] (init tt)) = false.
Proof. exact base_escapes. Qed.
Print Assumptions C07_base_exception_escapes.

(* What happens to an echo that cannot be encoded (a decode_raw_line yielding lone surrogates, line "PING :caf\xe9"):
   outside the clean-echo domain, yet the driver survives; the PONG is dropped under the takeMsg firewall and the
   PING after it is answered.  (Before C06.F19/C11.F11 this input killed the driver in _sendIfMsgs.) *)
Theorem C07_unencodable_echo_dropped :
  forall vt,
  let ms := run_reads unit vt dec_se h0 h0 [] w_surrogate_ping (init tt) in
  dom vt dec_se w_surrogate_ping [] = false /\ alive ms = true /\ crashed ms = false /\
  escapes ms = [None; None] /\ sent (fst (m_p ms)) = [[120]] /\ outq (fst (m_p ms)) = [].
Proof. exact surrogate_dropped. Qed.
Print Assumptions C07_unencodable_echo_dropped.
