(* C07/Props.v — the property theorems, nothing else.
   Model: C07/Model.v (exception flow of drivers.run / SocketDriver._read / parseMsg / log.firewall / Irc.feedMsg).
   Proofs: Lemmas.v (firewall, survival), Ping.v (PING answered, partial effects), Witness.v (witnesses, examples).
   Handlers (dispatch, addmsg) and plugin callbacks (cbs) are arbitrary functions over an arbitrary state type St:
   they mutate, may raise any exception class, and keep their mutation when they raise. *)
From Coq Require Import List NArith.
Import ListNotations.
Require Import Base.Wire Base.PyStr C05.Model C07.Model C07.Lemmas C07.Ping C07.Witness.

(* Whatever the Irc handler (any Exception subclass), IrcState.addMsg, the in-filters and the callbacks
   (anything, BaseException included) do, Irc.feedMsg returns normally. *)
Theorem C07_firewall_total :
  forall St dispatch addmsg cbs line m (p : pstate St),
  dispatch_ok St dispatch -> snd (feed_msg St dispatch addmsg cbs line m p) = None.
Proof. exact feed_msg_none. Qed.
Print Assumptions C07_firewall_total.

(* Full statement:  forall rvs, alive (run_reads rvs init) = true /\ nothing escapes.
   The pinned code violates it (findings F4, F3).  Proved: it holds for every chunking and every recv fault
   sequence on the decidable domain [dom]: every complete line of the stream is blank or parses, what it makes the bot
   echo (the PONG payload) is encodable — no lone surrogate, which a decode_raw_line restricted to strict/replace
   guarantees (inventory DECODE_HANDLERS, checked in tables_ok) — and recv raises only what _read's except clauses name;
   for arbitrary raising handlers/callbacks. *)
Theorem C07_loop_survives_on_domain :
  forall St vt decode dispatch addmsg cbs rvs (s : St),
  dispatch_ok St dispatch -> out_ok St cbs -> dom vt decode rvs [] = true ->
  let ms := run_reads St vt decode dispatch addmsg cbs rvs (init s) in
  alive ms = true /\ crashed ms = false /\ Forall (fun x => x = None) (escapes ms).
Proof. exact loop_survives_on_domain. Qed.
Print Assumptions C07_loop_survives_on_domain.

(* ... and fails outside: the stream ":\n" "PING :x\n" with handlers that never raise kills the driver with
   MalformedIrcMsg, and the PING is never answered (finding F4). *)
Theorem C07_loop_survives_refuted :
  forall vt, exists rvs,
  let ms := run_reads unit vt dec0 h0 h0 [] rvs (init tt) in
  dom vt dec0 rvs [] = false /\ dispatch_ok unit h0 /\ out_ok unit [] /\
  alive ms = false /\ escapes ms = [Some (XE MalformedIrcMsg)] /\ sent (fst (m_p ms)) = [].
Proof.
  intro vt. exists w_malformed. destruct (malformed_refutes vt) as (H1 & H2 & H3 & H4).
  repeat split; auto using h0_ok, nil_ok.
Qed.
Print Assumptions C07_loop_survives_refuted.

(* the valueless time tag leaves as TypeError (finding F3) *)
Theorem C07_time_tag_refuted :
  forall vt, exists rvs,
  let ms := run_reads unit vt dec0 h0 h0 [] rvs (init tt) in
  dom vt dec0 rvs [] = false /\ alive ms = false /\ escapes ms = [Some (XE TypeError)].
Proof. intro vt. exists w_time. exact (time_refutes vt). Qed.
Print Assumptions C07_time_tag_refuted.

(* After any parse-clean prefix that ends on a line boundary, over a connection that is neither closed nor asked to
   reconnect, a PING line with a valid argument is answered: its payload is written to the socket, and the driver
   is still registered — for arbitrary raising handlers and callbacks. *)
Theorem C07_ping_after :
  forall St vt decode dispatch addmsg cbs rvs (s : St) l m a rest,
  quiet St dispatch addmsg cbs -> dispatch_ok St dispatch -> out_ok St cbs ->
  forallb calm rvs = true -> dom vt decode rvs [] = true -> final_buf rvs = [] ->
  mem LFb l = false -> parse_msg vt (decode l) = Ok (Some m) ->
  is_ping (m_command m) = true -> m_args m = a :: rest -> valid_arg a = true -> encodable a = true ->
  let ms := run_reads St vt decode dispatch addmsg cbs (rvs ++ [RData (l ++ [LFb])]) (init s) in
  alive ms = true /\ crashed ms = false /\ In a (sent (fst (m_p ms))).
Proof. exact ping_after. Qed.
Print Assumptions C07_ping_after.

(* A handler that raises after mutating leaves its mutation (state-then-raise). *)
Theorem C07_partial_effects :
  forall St dispatch addmsg cbs n m d (s : St) e,
  is_ping (m_command m) = false ->
  (existsb (seq_eqb (m_command m)) gen.T07.NICK_SETTERS && is_nil (m_args m))%bool = false ->
  h_exc (dispatch n m s) = Some e ->
  feed_body St dispatch addmsg cbs n m (d, s) =
    ((apply_reconn (h_reconn (dispatch n m s)) d, h_st (dispatch n m s)), Some e).
Proof. exact partial_effects. Qed.
Print Assumptions C07_partial_effects.

(* Non-vacuity: always-raising handlers, a callback raising BaseException everywhere, a stream with a split PING and
   a recv timeout meet every hypothesis of C07_loop_survives_on_domain and C07_ping_after. *)
Theorem C07_hypotheses_inhabited :
  dispatch_ok unit h_raise /\ out_ok unit [cb_bad] /\ quiet unit h_raise h_raise [cb_bad] /\
  dom (fun _ => true) dec0 ex_rvs [] = true /\ forallb calm ex_rvs = true /\ final_buf ex_rvs = [] /\
  sent (fst (m_p (run_reads unit (fun _ => true) dec0 h_raise h_raise [cb_bad] ex_rvs (init tt)))) = [[97]] /\
  (mem LFb ex_ping = false /\
   exists m, parse_msg (fun _ => true) (dec0 ex_ping) = Ok (Some m) /\ is_ping (m_command m) = true /\
             m_args m = [[98]] /\ valid_arg [98] = true /\ encodable [98] = true).
Proof.
  destruct ex_domain as (H1 & H2 & H3 & H4).
  repeat split; auto using h_raise_ok, cb_bad_ok; try apply ex_quiet; try apply ex_ping_hyp.
Qed.
Print Assumptions C07_hypotheses_inhabited.

(* The hypothesis dispatch_ok is sharp: a BaseException raised by an Irc handler does kill the driver. *)
Theorem C07_base_exception_escapes :
  alive (run_reads unit (fun _ => true) dec0 h_base h0 [] [RData [70; 79; 79; 10]] (init tt)) = false.
Proof. exact base_escapes. Qed.
Print Assumptions C07_base_exception_escapes.

(* The echo clause of the domain is sharp: outbuffer.encode() in _sendIfMsgs is outside every try.  With a
   decode_raw_line that yields lone surrogates, the parse-clean line "PING :caf\xe9" kills the driver with
   UnicodeEncodeError; through a 'replace' decoder the same bytes are answered. *)
Theorem C07_surrogate_echo_escapes :
  forall vt,
  (let ms := run_reads unit vt dec_se h0 h0 [] w_surrogate (init tt) in
   parse_excs vt dec_se w_surrogate [] = [] /\ dom vt dec_se w_surrogate [] = false /\
   alive ms = false /\ escapes ms = [Some (XE UnicodeError)] /\ sent (fst (m_p ms)) = []) /\
  (let ms := run_reads unit vt dec_rep h0 h0 [] w_surrogate (init tt) in
   dom vt dec_rep w_surrogate [] = true /\ alive ms = true /\ sent (fst (m_p ms)) = [[99; 97; 102; 65533]]).
Proof. intro vt. split; [exact (surrogate_escapes vt)|exact (replace_survives vt)]. Qed.
Print Assumptions C07_surrogate_echo_escapes.
