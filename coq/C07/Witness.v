(* C07/Witness.v — concrete instances: refutation witnesses (findings F4, F3) and
   non-vacuity examples for the hypotheses of the theorems in Props.v *)
From Coq Require Import List NArith ZArith Bool Lia.
Import ListNotations.
Require Import Base.Wire Base.PyStr C05.Model C07.Model C07.Lemmas C07.Ping C07.Echo C07.Full.
Open Scope N_scope.

Definition h0 : N -> msg -> unit -> hres unit := fun _ _ s => HR s false None.
Definition dec0 (b : bytes) : str := b.          (* decode_raw_line on ASCII *)

(* ":\n" then "PING :x\n" *)
Definition w_malformed : list recv := [RData [58; 10]; RData [80; 73; 78; 71; 32; 58; 120; 10]].
(* "@time :x PING y\n" *)
Definition w_time : list recv := [RData [64; 116; 105; 109; 101; 32; 58; 120; 32; 80; 73; 78; 71; 32; 121; 10]].

Lemma h0_ok : dispatch_ok unit h0.
Proof. intros n m s. discriminate. Qed.
Lemma nil_ok : out_ok unit [].
Proof. constructor. Qed.

(* the old witnesses of C07.F4 / C07.F3: the rejected line is skipped, the driver stays, the PING after it is answered *)
Lemma malformed_skipped vt :
  let ms := run_reads unit vt dec0 h0 h0 [] w_malformed (init tt) in
  dom vt dec0 w_malformed [] = true /\ alive ms = true /\
  escapes ms = [None; None] /\ sent (fst (m_p ms)) = [[120]].
Proof. cbv zeta. repeat split; vm_compute; reflexivity. Qed.

Definition w_time_ping : list recv := w_time ++ [RData [80; 73; 78; 71; 32; 58; 120; 10]].
Lemma time_skipped vt :
  let ms := run_reads unit vt dec0 h0 h0 [] w_time_ping (init tt) in
  dom vt dec0 w_time_ping [] = true /\ alive ms = true /\ escapes ms = [None; None] /\ sent (fst (m_p ms)) = [[120]].
Proof. cbv zeta. repeat split; vm_compute; reflexivity. Qed.

(* ---- non-vacuity: handlers that always raise, callbacks that raise BaseException ---- *)
Definition h_raise : N -> msg -> unit -> hres unit := fun _ _ s => HR s false (Some (XE ValueError)).
Definition cb_bad : cb unit :=
  CB KPlugin (fun _ _ s => (HR s false (Some XBase), true)) (fun _ _ s => HR s false (Some XBase))
     (fun _ s => HR s false (Some XOSError)).
(* "001\nFOO bar\nPIN" , timeout, "G :a\n:x\n"?? no: stays parse-clean: "G :a\n" ; then "PING :b\n" *)
Definition ex_rvs : list recv :=
  [RData [48; 48; 49; 10; 70; 79; 79; 32; 98; 97; 114; 10; 80; 73; 78]; RRaise XTimeout;
   RData [71; 32; 58; 97; 10]].
Definition ex_ping : bytes := [80; 73; 78; 71; 32; 58; 98].      (* "PING :b" *)

Lemma h_raise_ok : dispatch_ok unit h_raise.
Proof. intros n m s. discriminate. Qed.
Lemma cb_bad_ok : out_ok unit [cb_bad].
Proof. constructor; [intros a s; discriminate|constructor]. Qed.
Lemma ex_quiet : quiet unit h_raise h_raise [cb_bad].
Proof. repeat split; try reflexivity. constructor; [repeat split|constructor]. Qed.

Lemma ex_domain :
  dom (fun _ => true) dec0 ex_rvs [] = true /\ forallb calm ex_rvs = true /\
  final_buf ex_rvs = [] /\
  sent (fst (m_p (run_reads unit (fun _ => true) dec0 h_raise h_raise [cb_bad] ex_rvs (init tt)))) = [[97]].
Proof. repeat split; vm_compute; reflexivity. Qed.

Lemma ex_ping_hyp :
  mem LFb ex_ping = false /\
  exists m, parse_msg (fun _ => true) (dec0 ex_ping) = Ok (Some m) /\ is_ping (m_command m) = true /\
            m_args m = [[98]] /\ valid_arg [98] = true /\ encodable [98] = true.
Proof. split; [vm_compute; reflexivity|]. eexists. repeat split; vm_compute; reflexivity. Qed.

(* the firewall is exactly `except Exception`: a BaseException from an Irc handler does get out *)
Definition h_base : N -> msg -> unit -> hres unit := fun _ _ s => HR s false (Some XBase).
Lemma base_escapes :
  alive (run_reads unit (fun _ => true) dec0 h_base h0 [] [RData [70; 79; 79; 10]] (init tt)) = false.
Proof. vm_compute. reflexivity. Qed.

(* partial effects: a handler that counts, then raises *)
Definition h_count : N -> msg -> N -> hres N := fun _ _ s => HR (s + 1) false (Some (XE KeyError)).
Lemma ex_partial :
  snd (m_p (run_reads N (fun _ => true) dec0 h_count (fun _ _ s => HR s false None) []
                      [RData [70; 79; 79; 10; 66; 65; 82; 10]] (init 0))) = 2.
Proof. vm_compute. reflexivity. Qed.

(* the send side: with a decode_raw_line that maps undecodable bytes to lone surrogates ('surrogateescape'),
   the parse-clean line "PING :caf\xe9" queues a PONG that cannot be encoded: Irc._truncateMsg raises inside the
   firewalled takeMsg, the message is logged and dropped, the loop goes on and the next PING is answered *)
Definition dec_se (b : bytes) : str := map (fun c => if N.ltb c 128 then c else c + 56320) b.
Definition w_surrogate : list recv := [RData [80; 73; 78; 71; 32; 58; 99; 97; 102; 233; 10]].
Definition w_surrogate_ping : list recv := w_surrogate ++ [RData [80; 73; 78; 71; 32; 58; 120; 10]].
Lemma surrogate_dropped vt :
  let ms := run_reads unit vt dec_se h0 h0 [] w_surrogate_ping (init tt) in
  dom vt dec_se w_surrogate_ping [] = false /\ alive ms = true /\ crashed ms = false /\
  escapes ms = [None; None] /\ sent (fst (m_p ms)) = [[120]] /\ outq (fst (m_p ms)) = [].
Proof. cbv zeta. repeat split; vm_compute; reflexivity. Qed.
(* the same bytes through a 'replace' decoder (U+FFFD) are inside the domain and answered *)
Definition dec_rep (b : bytes) : str := map (fun c => if N.ltb c 128 then c else 65533) b.
Lemma replace_survives vt :
  let ms := run_reads unit vt dec_rep h0 h0 [] w_surrogate (init tt) in
  dom vt dec_rep w_surrogate [] = true /\ alive ms = true /\ sent (fst (m_p ms)) = [[99; 97; 102; 65533]].
Proof. cbv zeta. repeat split; vm_compute; reflexivity. Qed.

Lemma dec_rep_clean : decode_clean dec_rep.
Proof.
  intro b. unfold dec_rep, encodable. induction b as [|c b IH]; [reflexivity|].
  cbn [map forallb]. rewrite IH, andb_true_r. destruct (N.ltb c 128) eqn:E; [|reflexivity].
  unfold enc_char. apply N.ltb_lt in E. apply orb_true_iff. left. apply N.ltb_lt. lia.
Qed.
Lemma ex_domain_rep :
  recv_ok ex_rvs = true /\
  sent (fst (m_p (run_reads unit (fun _ => true) dec_rep h_raise h_raise [cb_bad] ex_rvs (init tt)))) = [[97]].
Proof. split; vm_compute; reflexivity. Qed.
Lemma ex_ping_hyp_rep :
  exists m, parse_msg (fun _ => true) (dec_rep ex_ping) = Ok (Some m) /\ is_ping (m_command m) = true /\
            m_args m = [[98]] /\ valid_arg [98] = true.
Proof. eexists. repeat split; vm_compute; reflexivity. Qed.

(* utils.str.format directives: what the scanner of the model counts (":%s" "@%r%%" "%5.1f%d" "%.f %") *)
Lemma consuming_examples :
  consuming [58; 37; 115] = 1 /\ consuming [64; 37; 114; 37; 37] = 1 /\
  consuming [37; 53; 46; 49; 102; 37; 100] = 1 /\ consuming [37; 46; 102; 32; 37] = 0 /\ consuming [58] = 0.
Proof. repeat split; vm_compute; reflexivity. Qed.

(* the witness of C07.F45: ":srv 005 test CHANTYPES :are supported" then "PING :abc".  do005 stores None for the
   token without value; the message path goes on and the PING is answered *)
Definition w_isupport : list recv :=
  [RData [58; 115; 114; 118; 32; 48; 48; 53; 32; 116; 101; 115; 116; 32; 67; 72; 65; 78; 84; 89; 80; 69; 83; 32; 58; 97; 114;
          101; 32; 115; 117; 112; 112; 111; 114; 116; 101; 100; 10];
   RData [80; 73; 78; 71; 32; 58; 97; 98; 99; 10]].
Lemma isupport_valueless_harmless vt :
  let ms := run_reads unit vt dec0 h0 h0 [] w_isupport (init tt) in
  i_chantypes (sup (fst (m_p ms))) = Some None /\ alive ms = true /\ escapes ms = [None; None] /\
  sent (fst (m_p ms)) = [[97; 98; 99]].
Proof. cbv zeta. repeat split; vm_compute; reflexivity. Qed.

(* a faulty plugin whose object has a property that raises when inspected: its in-filter, its __call__ and its
   out-filter raise KeyError with a traceback through that object (getter raises ValueError).  Every handler that
   swallows them runs Logger.exception -> collect_extra_debug_data over that object; the loop goes on *)
Definition cb_poison : cb unit :=
  CB KPlugin (fun _ _ s => (HR s false (Some (XP KeyError ValueError)), true)) (fun _ _ s => HR s false (Some (XP KeyError ValueError)))
     (fun _ s => HR s false (Some (XP KeyError ValueError))).
Lemma poisoned_survives :
  let ms := run_reads unit (fun _ => true) dec0 h0 h0 [cb_poison]
              [RData [70; 79; 79; 10; 80; 73; 78; 71; 32; 58; 97; 10]] (init tt) in
  alive ms = true /\ crashed ms = false /\ escapes ms = [None] /\ sent (fst (m_p ms)) = [[97]].
Proof. cbv zeta. repeat split; vm_compute; reflexivity. Qed.

(* a faulty callback of each kind (IrcCallback-, Plugin-, PluginRegexp-derived) raising from inFilter, __call__ and
   outFilter: "FOO\nPING :a\n" is still answered *)
Definition cb_raising (k : cbkind) : cb unit :=
  CB k (fun _ _ s => (HR s false (Some (XE OtherError)), true)) (fun _ _ s => HR s false (Some (XE OtherError)))
     (fun _ s => HR s false (Some (XE OtherError))).
Lemma raising_kind_answered k :
  let ms := run_reads unit (fun _ => true) dec0 h0 h0 [cb_raising k]
              [RData [70; 79; 79; 10; 80; 73; 78; 71; 32; 58; 97; 10]] (init tt) in
  alive ms = true /\ escapes ms = [None] /\ sent (fst (m_p ms)) = [[97]].
Proof. destruct k; cbv zeta; repeat split; vm_compute; reflexivity. Qed.
