(* C14/Trace.v — the evaluation trace: which bracket (identified by its path in the command tree)
   reaches finalEval when.  The trace is a prefix of the post-order enumeration of the brackets, the whole
   of it when nothing stops the evaluation; the post-order enumeration lists every bracket exactly once,
   sub-commands before the command containing them, siblings left to right. *)
From Coq Require Import List NArith ZArith Bool Arith Lia Sorting.Sorted.
Import ListNotations.
Require Import Base.Wire Base.PyStr C14.Model C14.Lemmas.
Local Open Scope nat_scope.

(* ---- induction over command trees ---- *)
Section ArgInd.
Variable P : arg -> Prop.
Hypothesis HS : forall s, P (AStr s).
Hypothesis HL : forall l, Forall P l -> P (ASub l).
Fixpoint arg_ind2 (a : arg) : P a :=
  match a with
  | AStr s => HS s
  | ASub l => HL l ((fix go (l : list arg) : Forall P l :=
                       match l with
                       | [] => Forall_nil P
                       | x :: r => Forall_cons x (arg_ind2 x) (go r)
                       end) l)
  end.
End ArgInd.

Definition path := list nat.          (* positions in the argument lists, from the root bracket [] *)

(* ---- post-order enumeration of the brackets ---- *)
Definition po_with (f : nat -> arg -> list path) : nat -> list arg -> list path :=
  fix go (i : nat) (l : list arg) : list path :=
  match l with
  | [] => []
  | a :: r => f i a ++ go (S i) r
  end.
Fixpoint po_arg (p : path) (i : nat) (a : arg) {struct a} : list path :=
  match a with
  | AStr _ => []
  | ASub sub => po_with (fun j x => po_arg (p ++ [i]) j x) 0 sub ++ [p ++ [i]]
  end.
Definition po_list (p : path) (i : nat) (l : list arg) : list path := po_with (fun j x => po_arg p j x) i l.
Definition postorder (tokens : list arg) : list path := po_list [] 0 tokens ++ [[]].

(* q runs before q': q is inside q', or q is in a bracket to the left of the one holding q' *)
Definition before (q q' : path) : Prop :=
  (exists t, t <> [] /\ q = q' ++ t) \/
  (exists r i j t t', i < j /\ q = r ++ i :: t /\ q' = r ++ j :: t').

Lemma before_irrefl q : ~ before q q.
Proof.
  intros [(t & Ht & H)|(r & i & j & t & t' & Hij & H1 & H2)].
  - apply (f_equal (@length nat)) in H. rewrite app_length in H. destruct t; [congruence|simpl in H; lia].
  - rewrite H1 in H2. apply app_inv_head in H2. inversion H2. lia.
Qed.

Lemma SS_app {A} (R : A -> A -> Prop) l1 l2 :
  StronglySorted R l1 -> StronglySorted R l2 -> (forall x y, In x l1 -> In y l2 -> R x y) ->
  StronglySorted R (l1 ++ l2).
Proof.
  intros H1 H2 Hc. induction l1 as [|a l1 IH]; simpl; [exact H2|].
  inversion H1; subst. constructor.
  - apply IH; [assumption|]. intros x y Hx Hy. apply Hc; [right; exact Hx|exact Hy].
  - apply Forall_forall. intros y Hy. apply in_app_or in Hy as [Hy|Hy].
    + rewrite Forall_forall in H4. apply H4. exact Hy.
    + apply Hc; [left; reflexivity|exact Hy].
Qed.

Definition po_ok (a : arg) : Prop :=
  forall p i, StronglySorted before (po_arg p i a) /\
              forall q, In q (po_arg p i a) -> exists t, q = (p ++ [i]) ++ t.

Lemma po_with_ok l : Forall po_ok l ->
  forall p i, StronglySorted before (po_list p i l) /\
              forall q, In q (po_list p i l) -> exists j t, i <= j /\ q = p ++ j :: t.
Proof.
  unfold po_list. induction 1 as [|a r Ha Hr IH]; intros p i; simpl.
  - split; [constructor|intros q []].
  - destruct (Ha p i) as [Sa Ma]. destruct (IH p (S i)) as [Sr Mr]. split.
    + apply SS_app; [exact Sa|exact Sr|].
      intros x y Hx Hy. destruct (Ma x Hx) as [t Hxt]. destruct (Mr y Hy) as (j & t' & Hj & Hyt).
      right. exists p, i, j, t, t'. rewrite <- app_assoc in Hxt. simpl in Hxt. repeat split; [lia|exact Hxt|exact Hyt].
    + intros q Hq. apply in_app_or in Hq as [Hq|Hq].
      * destruct (Ma q Hq) as [t Hqt]. exists i, t. rewrite <- app_assoc in Hqt. split; [lia|exact Hqt].
      * destruct (Mr q Hq) as (j & t & Hj & Hqt). exists j, t. split; [lia|exact Hqt].
Qed.

Lemma po_arg_ok a : po_ok a.
Proof.
  induction a as [s|l IH] using arg_ind2; intros p i; simpl.
  - split; [constructor|intros q []].
  - destruct (po_with_ok l IH (p ++ [i]) 0) as [Sl Ml]. unfold po_list in *. split.
    + apply SS_app; [exact Sl|repeat constructor|].
      intros x y Hx [Hy|[]]. subst y. destruct (Ml x Hx) as (j & t & _ & Hxt).
      left. exists (j :: t). split; [discriminate|exact Hxt].
    + intros q Hq. apply in_app_or in Hq as [Hq|[Hq|[]]].
      * destruct (Ml q Hq) as (j & t & _ & Hqt). exists (j :: t). exact Hqt.
      * exists []. rewrite app_nil_r. symmetry. exact Hq.
Qed.

Lemma Forall_po_ok l : Forall po_ok l.
Proof. apply Forall_forall. intros a _. apply po_arg_ok. Qed.

(* every bracket exactly once, sub-commands before the command containing them, siblings left to right *)
Theorem postorder_sorted tokens : StronglySorted before (postorder tokens).
Proof.
  unfold postorder. destruct (po_with_ok tokens (Forall_po_ok tokens) [] 0) as [S M].
  apply SS_app; [exact S|repeat constructor|].
  intros x y Hx [Hy|[]]. subst y. destruct (M x Hx) as (j & t & _ & Hxt).
  left. exists (j :: t). split; [discriminate|exact Hxt].
Qed.

Lemma po_with_length l : forall p i, length (po_list p i l) = subs l.
Proof.
  unfold po_list.
  assert (H : Forall (fun a => forall p i, length (po_arg p i a) = asubs a) l).
  { apply Forall_forall. intros a _. induction a as [s|l0 IH] using arg_ind2; intros p i; simpl; [reflexivity|].
    rewrite app_length. simpl. rewrite Nat.add_1_r. f_equal.
    generalize 0 as k. induction IH as [|x r Hx Hr IHr]; intro k; simpl; [reflexivity|].
    rewrite app_length, Hx, IHr. reflexivity. }
  induction H as [|x r Hx Hr IHr]; intros p i; simpl; [reflexivity|].
  rewrite app_length, Hx, IHr. reflexivity.
Qed.

Theorem postorder_length tokens : length (postorder tokens) = S (subs tokens).
Proof. unfold postorder. rewrite app_length, po_with_length. simpl. lia. Qed.

Lemma SS_NoDup l : StronglySorted before l -> NoDup l.
Proof.
  induction 1 as [|a l Hs IH Hf]; constructor; [|exact IH].
  intro Hin. rewrite Forall_forall in Hf. apply (before_irrefl a). apply Hf. exact Hin.
Qed.

(* ---- the evaluation trace of the specification ---- *)
Section Tr.
Variable final : list str -> finalres.
Variable K : config.

Definition event := (path * list str)%type.   (* the bracket, and the strings its proxy holds at finalEval *)

Definition tfinish (child : bool) (d : nat) (sub : list arg) (p : path) (r : list event * (outcome + list str)) : list event * sres :=
  if too_deep K d then ([], SStop OTooDeep)
  else match sub with
       | [] => ([], SStop (OInvalid []))
       | _ =>
           match r with
           | (tr, inl o) => (tr, SStop o)
           | (tr, inr strs) => (tr ++ [(p, strs)], snd (fin_spec final K child strs))
           end
       end.

Definition tlist_with (f : nat -> arg -> list event * sres) : nat -> list arg -> list event * (outcome + list str) :=
  fix go (i : nat) (l : list arg) : list event * (outcome + list str) :=
  match l with
  | [] => ([], inr [])
  | a :: r =>
      match f i a with
      | (t1, SStop o) => (t1, inl o)
      | (t1, SVal v) =>
          match go (S i) r with
          | (t2, inl o) => (t1 ++ t2, inl o)
          | (t2, inr strs) => (t1 ++ t2, inr (opt_list v ++ strs))
          end
      end
  end.

Fixpoint targ (d : nat) (p : path) (i : nat) (a : arg) {struct a} : list event * sres :=
  match a with
  | AStr s => ([], SVal (Some s))
  | ASub sub => tfinish true (S d) sub (p ++ [i]) (tlist_with (fun j x => targ (S d) (p ++ [i]) j x) 0 sub)
  end.
Definition tlist (d : nat) (p : path) (i : nat) (l : list arg) := tlist_with (fun j x => targ d p j x) i l.

Definition trace_res (tokens : list arg) : list event * sres := tfinish false 0 tokens [] (tlist 0 [] 0 tokens).
Definition trace (tokens : list arg) : list event := fst (trace_res tokens).

(* the calls an event list stands for *)
Definition calls_of (tr : list event) : list entry := flat_map (fun ev => fst (fin_spec final K false (snd ev))) tr.

Lemma calls_of_app a b : calls_of (a ++ b) = calls_of a ++ calls_of b.
Proof. apply flat_map_app. Qed.

(* the labelled evaluator is the specification with labels *)
Definition link_arg (a : arg) : Prop :=
  forall d p i, fst (spec_arg final K d a) = calls_of (fst (targ d p i a)) /\
                snd (spec_arg final K d a) = snd (targ d p i a).

Lemma link_list l : Forall link_arg l ->
  forall d p i, fst (spec_list final K d l) = calls_of (fst (tlist d p i l)) /\
                snd (spec_list final K d l) = snd (tlist d p i l).
Proof.
  unfold Model.spec_list, tlist. induction 1 as [|a r Ha Hr IH]; intros d p i; simpl; [split; reflexivity|].
  destruct (Ha d p i) as [H1 H2]. destruct (IH d p (S i)) as [H3 H4].
  destruct (spec_arg final K d a) as [lg1 s1]. destruct (targ d p i a) as [t1 s1']. simpl in H1, H2. subst lg1 s1'.
  destruct s1 as [v|o]; [|split; reflexivity].
  destruct (spec_list_with (fun x => spec_arg final K d x) r) as [lg2 r2].
  destruct (tlist_with (fun j x => targ d p j x) (S i) r) as [t2 r2']. simpl in H3, H4. subst lg2 r2'.
  destruct r2 as [o|strs]; simpl; rewrite calls_of_app; split; reflexivity.
Qed.

Lemma finish_link child d sub p lg tr r :
  lg = calls_of tr ->
  fst (finish final K child d sub (lg, r)) = calls_of (fst (tfinish child d sub p (tr, r))) /\
  snd (finish final K child d sub (lg, r)) = snd (tfinish child d sub p (tr, r)).
Proof.
  intro H. subst lg. unfold finish, tfinish. destruct (too_deep K d); [split; reflexivity|].
  destruct sub as [|a sub]; [split; reflexivity|].
  destruct r as [o|strs]; [split; reflexivity|].
  destruct strs as [|s strs]; cbn [fst snd]; rewrite calls_of_app; (split; [|reflexivity]);
    unfold calls_of; simpl; rewrite ?app_nil_r; reflexivity.
Qed.

Lemma link_arg_all a : link_arg a.
Proof.
  induction a as [s|l IH] using arg_ind2; intros d p i; simpl; [split; reflexivity|].
  destruct (link_list l IH (S d) (p ++ [i]) 0) as [H1 H2]. unfold Model.spec_list, tlist in H1, H2.
  destruct (spec_list_with (fun x => spec_arg final K (S d) x) l) as [lg r].
  destruct (tlist_with (fun j x => targ (S d) (p ++ [i]) j x) 0 l) as [tr r']. simpl in H1, H2. subst r'.
  apply finish_link. exact H1.
Qed.

Theorem trace_calls tokens :
  fst (eval_spec final K tokens) = calls_of (trace tokens) /\
  (forall v, snd (trace_res tokens) = SVal v ->
             snd (eval_spec final K tokens) = match v with Some s => OReply s | None => ONone end) /\
  (forall o, snd (trace_res tokens) = SStop o -> snd (eval_spec final K tokens) = o).
Proof.
  unfold eval_spec, trace, trace_res.
  destruct (link_list tokens (proj2 (Forall_forall _ _) (fun a _ => link_arg_all a)) 0 [] 0) as [H1 H2].
  destruct (spec_list final K 0 tokens) as [lg r]. destruct (tlist 0 [] 0 tokens) as [tr r']. simpl in H1, H2. subst r'.
  destruct (finish_link false 0 tokens [] lg tr r H1) as [H3 H4].
  destruct (finish final K false 0 tokens (lg, r)) as [lg' s]. simpl in H3, H4.
  split; [destruct s as [[?|]|?]; exact H3|].
  clear H3. split; [intros v Hv; rewrite <- H4 in Hv; rewrite Hv; destruct v; reflexivity
         |intros o Ho; rewrite <- H4 in Ho; rewrite Ho; reflexivity].
Qed.

(* the trace is a prefix of the post-order enumeration; all of it when the evaluation yields a value *)
Definition pre_arg (a : arg) : Prop :=
  forall d p i, exists rest, po_arg p i a = map fst (fst (targ d p i a)) ++ rest /\
                             (forall v, snd (targ d p i a) = SVal v -> rest = []).

Lemma pre_list l : Forall pre_arg l ->
  forall d p i, exists rest, po_list p i l = map fst (fst (tlist d p i l)) ++ rest /\
                             (forall strs, snd (tlist d p i l) = inr strs -> rest = []).
Proof.
  unfold po_list, tlist. induction 1 as [|a r Ha Hr IH]; intros d p i; simpl.
  - exists []. split; [reflexivity|reflexivity].
  - destruct (Ha d p i) as (rest1 & E1 & V1). destruct (IH d p (S i)) as (rest2 & E2 & V2).
    rewrite E1, E2.
    destruct (targ d p i a) as [t1 s1]. simpl in *. destruct s1 as [v|o].
    + rewrite (V1 v eq_refl). rewrite app_nil_r.
      destruct (tlist_with (fun j x => targ d p j x) (S i) r) as [t2 [o|strs]]; simpl in *;
        exists rest2; rewrite map_app, <- app_assoc; (split; [reflexivity|]).
      * intros strs H. discriminate.
      * intros strs' _. apply (V2 strs). reflexivity.
    + eexists. rewrite <- app_assoc. split; [reflexivity|]. intros strs H. discriminate.
Qed.

Lemma pre_arg_all a : pre_arg a.
Proof.
  induction a as [s|l IH] using arg_ind2; intros d p i; simpl.
  - exists []. split; [reflexivity|reflexivity].
  - destruct (pre_list l IH (S d) (p ++ [i]) 0) as (rest & E & V). unfold po_list, tlist in E, V. rewrite E.
    unfold tfinish. destruct (too_deep K (S d)).
    { eexists. split; [reflexivity|]. intros v H. discriminate. }
    destruct l as [|a0 l0].
    { eexists. split; [reflexivity|]. intros v H. discriminate. }
    destruct (tlist_with (fun j x => targ (S d) (p ++ [i]) j x) 0 (a0 :: l0)) as [tr [o|strs]]; simpl in *.
    + eexists. rewrite <- app_assoc. split; [reflexivity|]. intros v H. discriminate.
    + rewrite (V strs eq_refl). rewrite app_nil_r. exists []. rewrite map_app, app_nil_r. split; reflexivity.
Qed.

Theorem trace_prefix tokens :
  exists rest, postorder tokens = map fst (trace tokens) ++ rest /\
               (forall v, snd (trace_res tokens) = SVal v -> rest = []).
Proof.
  unfold postorder, trace, trace_res.
  destruct (pre_list tokens (proj2 (Forall_forall _ _) (fun a _ => pre_arg_all a)) 0 [] 0) as (rest & E & V).
  rewrite E. unfold tfinish. destruct (too_deep K 0).
  { eexists. split; [reflexivity|]. intros v H. discriminate. }
  destruct tokens as [|a0 l0].
  { eexists. split; [reflexivity|]. intros v H. discriminate. }
  destruct (tlist 0 [] 0 (a0 :: l0)) as [tr [o|strs]]; simpl in *.
  - eexists. rewrite <- app_assoc. split; [reflexivity|]. intros v H. discriminate.
  - rewrite (V strs eq_refl). rewrite app_nil_r. exists []. rewrite map_app, app_nil_r. split; reflexivity.
Qed.

Lemma SS_prefix {A} (R : A -> A -> Prop) l1 l2 : StronglySorted R (l1 ++ l2) -> StronglySorted R l1.
Proof.
  induction l1 as [|a l1 IH]; simpl; intro H; [constructor|].
  inversion H; subst. constructor; [apply IH; assumption|].
  rewrite Forall_forall in *. intros x Hx. apply H3. apply in_or_app. left. exact Hx.
Qed.

(* exactly once, inner first, left to right *)
Theorem trace_exactly_once tokens :
  StronglySorted before (map fst (trace tokens)) /\
  NoDup (map fst (trace tokens)) /\
  (forall q, In q (map fst (trace tokens)) -> In q (postorder tokens)) /\
  (forall v, snd (trace_res tokens) = SVal v ->
     map fst (trace tokens) = postorder tokens /\ length (trace tokens) = S (subs tokens)).
Proof.
  destruct (trace_prefix tokens) as (rest & E & V).
  assert (S1 : StronglySorted before (map fst (trace tokens))).
  { apply (SS_prefix _ _ rest). rewrite <- E. apply postorder_sorted. }
  split; [exact S1|]. split; [apply SS_NoDup; exact S1|]. split.
  - intros q Hq. rewrite E. apply in_or_app. left. exact Hq.
  - intros v Hv. rewrite (V v Hv), app_nil_r in E. split; [symmetry; exact E|].
    rewrite <- postorder_length, E. symmetry. apply map_length.
Qed.
End Tr.

(* ---- what a command is called with: the values of its children, in order ---- *)
Section Values.
Variable final : list str -> finalres.
Variable K : config.

(* the strings one argument contributes to its proxy's final argument list *)
Definition contributes (d : nat) (a : arg) : list str :=
  match snd (spec_arg final K d a) with
  | SVal v => opt_list v
  | SStop _ => []
  end.

Theorem args_are_children_values d l lg strs :
  spec_list final K d l = (lg, inr strs) -> strs = flat_map (contributes d) l.
Proof.
  unfold Model.spec_list. revert lg strs. induction l as [|a r IH]; intros lg strs H; simpl in H.
  - inversion H. reflexivity.
  - simpl. unfold contributes at 1.
    destruct (spec_arg final K d a) as [lg1 [v|o]]; [|discriminate]. simpl.
    destruct (spec_list_with (fun x => spec_arg final K d x) r) as [lg2 [o|strs2]] eqn:Hr; [discriminate|].
    inversion H; subst. f_equal. apply (IH lg2). reflexivity.
Qed.

(* a string contributes itself; a bracket whose command tagged the message 'ignored' contributes nothing (whether it
   then called noReply, like Utilities.ignore, or replied); any other bracket contributes exactly its reply
   (nothing for noReply) *)
Theorem bracket_contributes d sub lg strs :
  too_deep K (S d) = false -> sub <> [] -> strs <> [] ->
  spec_list final K (S d) sub = (lg, inr strs) ->
  forall v, fr_res (final strs) = SVal v ->
  contributes d (ASub sub) = if fr_tag (final strs) then [] else opt_list v.
Proof.
  intros Hd Hs Hn Hsp v Hv. unfold contributes. simpl.
  unfold Model.spec_list in Hsp. rewrite Hsp. rewrite (finish_inr final K true (S d) sub lg strs Hd Hs).
  unfold fin_spec. destruct strs as [|s strs]; [congruence|]. simpl. unfold res_of. rewrite Hv. simpl.
  destruct (fr_tag (final (s :: strs))); reflexivity.
Qed.

Lemma string_contributes d s : contributes d (AStr s) = [s].
Proof. reflexivity. Qed.
End Values.

(* ---- the reply kind (action, noLengthCheck, notice, private, to=) never matters for what runs and with what ---- *)
Section Kinds.
Variables f1 f2 : list str -> finalres.
Variable K : config.
Hypothesis same : forall strs,
  fr_call (f1 strs) = fr_call (f2 strs) /\ fr_tag (f1 strs) = fr_tag (f2 strs) /\ fr_res (f1 strs) = fr_res (f2 strs).

Lemma finish_ext child d sub r : finish f1 K child d sub r = finish f2 K child d sub r.
Proof.
  unfold finish. destruct (too_deep K d); [reflexivity|]. destruct sub; [reflexivity|].
  destruct r as [lg [o|[|s strs]]]; try reflexivity.
  destruct (same (s :: strs)) as (H1 & H2 & H3). unfold res_of. rewrite H1, H2, H3. reflexivity.
Qed.

Lemma spec_list_with_ext (g1 g2 : arg -> list entry * sres) l :
  Forall (fun a => g1 a = g2 a) l -> spec_list_with g1 l = spec_list_with g2 l.
Proof. induction 1 as [|a r Ha Hr IH]; simpl; [reflexivity|]. rewrite Ha, IH. reflexivity. Qed.

Lemma spec_arg_ext a : forall d, spec_arg f1 K d a = spec_arg f2 K d a.
Proof.
  induction a as [s|l IH] using arg_ind2; intro d; simpl; [reflexivity|].
  rewrite finish_ext. f_equal. apply spec_list_with_ext.
  apply Forall_forall. intros x Hx. rewrite Forall_forall in IH. apply IH. exact Hx.
Qed.

Theorem eval_spec_ext tokens : eval_spec f1 K tokens = eval_spec f2 K tokens.
Proof.
  unfold eval_spec, Model.spec_list. rewrite finish_ext.
  rewrite (spec_list_with_ext (fun x => spec_arg f1 K 0 x) (fun x => spec_arg f2 K 0 x) tokens); [reflexivity|].
  apply Forall_forall. intros x _. apply spec_arg_ext.
Qed.
End Kinds.
