(* C14/History.v — after any history of Owner.disable / Owner.enable operations inside hist_dom, the
   in-memory table Commands._disabled answers exactly like the documented semantics. *)
From Coq Require Import List NArith ZArith Bool Arith Lia.
Import ListNotations.
Require Import Base.Wire Base.PyStr C14.Model C14.Lemmas C14.Dispatch.
Local Open Scope nat_scope.

(* ---- association lists ---- *)
Lemma seq_eqb_sym a b : seq_eqb a b = seq_eqb b a.
Proof.
  destruct (seq_eqb a b) eqn:E1, (seq_eqb b a) eqn:E2; try reflexivity.
  - apply seq_eqb_eq in E1. subst. rewrite seq_eqb_refl in E2. discriminate.
  - apply seq_eqb_eq in E2. subst. rewrite seq_eqb_refl in E1. discriminate.
Qed.

Lemma get_set {A} k' k (v : A) d :
  dict_get k' (dict_set k v d) = if seq_eqb k' k then Some v else dict_get k' d.
Proof.
  induction d as [|[k0 v0] d IH]; simpl.
  - reflexivity.
  - destruct (seq_eqb k k0) eqn:E; simpl.
    + apply seq_eqb_eq in E. subst k0. destruct (seq_eqb k' k); reflexivity.
    + destruct (seq_eqb k' k0) eqn:E0.
      * apply seq_eqb_eq in E0. subst k0. rewrite seq_eqb_sym, E. reflexivity.
      * exact IH.
Qed.

Lemma get_del {A} k' k (d : list (str * A)) :
  dict_get k' (dict_del k d) = if seq_eqb k' k then None else dict_get k' d.
Proof.
  unfold dict_del. induction d as [|[k0 v0] d IH]; simpl.
  - destruct (seq_eqb k' k); reflexivity.
  - destruct (seq_eqb k k0) eqn:E; simpl.
    + apply seq_eqb_eq in E. subst k0. rewrite IH. destruct (seq_eqb k' k); reflexivity.
    + rewrite IH. destruct (seq_eqb k' k0) eqn:E0; [|reflexivity].
      apply seq_eqb_eq in E0. subst k0. rewrite seq_eqb_sym, E. reflexivity.
Qed.

Lemma existsb_ext' {A} (f g : A -> bool) l : (forall x, f x = g x) -> existsb f l = existsb g l.
Proof. intro H. induction l; simpl; [reflexivity|]. rewrite H, IHl. reflexivity. Qed.

Lemma existsb_filter {A} (f g : A -> bool) l : existsb f (filter g l) = existsb (fun x => f x && g x) l.
Proof.
  induction l as [|x l IH]; simpl; [reflexivity|].
  destruct (g x) eqn:E; simpl; rewrite IH.
  - rewrite andb_true_r. reflexivity.
  - rewrite andb_false_r. reflexivity.
Qed.

Lemma existsb_false {A} (f : A -> bool) l : (forall x, f x = false) -> existsb f l = false.
Proof. intro H. induction l; simpl; [reflexivity|]. rewrite H, IHl. reflexivity. Qed.

(* removing q from a set: membership of q' *)
Lemma mem_remove q q' (set : list str) :
  existsb (seq_eqb q') (filter (fun x => negb (seq_eqb q x)) set) =
  if seq_eqb q' q then false else existsb (seq_eqb q') set.
Proof.
  rewrite existsb_filter. destruct (seq_eqb q' q) eqn:E.
  - apply seq_eqb_eq in E. subst q'. apply existsb_false. intro x. destruct (seq_eqb q x); reflexivity.
  - apply existsb_ext'. intro x. destruct (seq_eqb q' x) eqn:E1; [|reflexivity].
    apply seq_eqb_eq in E1. subst x. rewrite seq_eqb_sym, E. reflexivity.
Qed.

Lemma memG_remove k k' G :
  memG k' (filter (fun x => negb (seq_eqb k x)) G) = if seq_eqb k' k then false else memG k' G.
Proof. apply mem_remove. Qed.

Lemma memP_remove q k q' k' P :
  memP q' k' (filter (fun e => negb (seq_eqb q (fst e) && seq_eqb k (snd e))) P) =
  if seq_eqb q' q && seq_eqb k' k then false else memP q' k' P.
Proof.
  unfold memP. rewrite existsb_filter.
  destruct (seq_eqb q' q) eqn:E1; destruct (seq_eqb k' k) eqn:E2; simpl;
    try (apply seq_eqb_eq in E1; subst q'); try (apply seq_eqb_eq in E2; subst k').
  - apply existsb_false. intros [a b]. simpl. destruct (seq_eqb q a && seq_eqb k b); reflexivity.
  - apply existsb_ext'. intros [a b]. simpl.
    destruct (seq_eqb q a) eqn:Ea; simpl; [|reflexivity].
    destruct (seq_eqb k' b) eqn:Eb; simpl; [|reflexivity].
    apply seq_eqb_eq in Eb. subst b. rewrite (seq_eqb_sym k k'), E2. reflexivity.
  - apply existsb_ext'. intros [a b]. simpl.
    destruct (seq_eqb q' a) eqn:Ea; simpl; [|reflexivity].
    apply seq_eqb_eq in Ea. subst a. rewrite (seq_eqb_sym q q'), E1. simpl. rewrite andb_true_r. reflexivity.
  - apply existsb_ext'. intros [a b]. simpl.
    destruct (seq_eqb q' a) eqn:Ea; simpl; [|reflexivity].
    apply seq_eqb_eq in Ea. subst a. rewrite (seq_eqb_sym q q'), E1. simpl. rewrite andb_true_r. reflexivity.
Qed.

Lemma anyP_false k P : anyP k P = false -> forall q, memP q k P = false.
Proof.
  unfold anyP, memP. induction P as [|[a b] P IH]; simpl; intros H q; [reflexivity|].
  apply orb_false_iff in H as [H1 H2]. rewrite H1, andb_false_r. simpl. apply IH. exact H2.
Qed.

Section H.
Variable has_cmd : str -> str -> bool.

(* the in-memory table represents the documented state *)
Definition Rel (d : dis) (S : sstate) : Prop :=
  forall k, match dict_get k d with
            | Some None => memG k (s_G S) = true /\ forall q, memP q k (s_P S) = false
            | Some (Some set) => memG k (s_G S) = false /\ forall q, existsb (seq_eqb q) set = memP q k (s_P S)
            | None => memG k (s_G S) = false /\ forall q, memP q k (s_P S) = false
            end.

Lemma Rel_disabled d S c p : Rel d S -> dis_disabled d c p = spec_disabled S c p.
Proof.
  intro R. unfold dis_disabled, spec_disabled. specialize (R (canon c)).
  destruct (dict_get (canon c) d) as [[set|]|]; destruct R as [R1 R2]; rewrite R1; simpl.
  - apply R2.
  - reflexivity.
  - symmetry. apply R2.
Qed.

Lemma Rel_global d S k : Rel d S -> memG k (s_G S) = true -> dict_get k d = Some None.
Proof.
  intros R H. specialize (R k). destruct (dict_get k d) as [[set|]|]; destruct R as [R1 _]; congruence.
Qed.

Lemma memP_cons q k q0 k0 P : memP q k ((q0, k0) :: P) = (seq_eqb q q0 && seq_eqb k k0) || memP q k P.
Proof. reflexivity. Qed.
Lemma memG_cons k k0 G : memG k (k0 :: G) = seq_eqb k k0 || memG k G.
Proof. reflexivity. Qed.

(* the in-memory component of owner_step, which does not depend on the registry list *)
Definition d_step (d : dis) (o : op) : dis :=
  match o with
  | ODisable (Some p) c =>
      if forbidden c then d
      else if negb (dis_disabled d c p) && has_cmd p c then dis_add d c (Some p) else d
  | ODisable None c => if forbidden c then d else dis_add d c None
  | OEnable pl c => match dis_remove d c pl with Ok d' => d' | Raise _ => d end
  end.

Lemma owner_step_d st o : o_d (fst (owner_step has_cmd st o)) = d_step (o_d st) o.
Proof.
  destruct st as [d conf]. destruct o as [[p|] c | pl c]; simpl.
  - destruct (forbidden c); simpl; [reflexivity|].
    destruct (negb (dis_disabled d c p) && has_cmd p c); reflexivity.
  - destruct (forbidden c); reflexivity.
  - destruct (dis_remove d c pl); simpl; [|reflexivity].
    destruct (conf_has _ conf); reflexivity.
Qed.

Lemma Rel_other d S k : Rel d S ->
  match dict_get k d with
  | Some None => memG k (s_G S) = true /\ forall q, memP q k (s_P S) = false
  | Some (Some set) => memG k (s_G S) = false /\ forall q, existsb (seq_eqb q) set = memP q k (s_P S)
  | None => memG k (s_G S) = false /\ forall q, memP q k (s_P S) = false
  end.
Proof. intro R. apply R. Qed.

Lemma Rel_disable_plugin d S p c :
  Rel d S -> spec_disabled S c p = false ->
  Rel (dis_add d c (Some p)) (SState (s_G S) ((canon p, canon c) :: s_P S)).
Proof.
  intros R Hc. unfold spec_disabled in Hc. apply orb_false_iff in Hc as [HG HP].
  pose proof (R (canon c)) as Rc.
  assert (Hother : forall k, seq_eqb k (canon c) = false -> forall q,
            memP q k ((canon p, canon c) :: s_P S) = memP q k (s_P S)).
  { intros k Ek q. rewrite memP_cons, Ek, andb_false_r. reflexivity. }
  intro k. cbn [s_G s_P]. pose proof (R k) as Rk. unfold dis_add.
  destruct (dict_get (canon c) d) as [[set|]|] eqn:Hget.
  - destruct Rc as [Rc1 Rc2].
    assert (Hq : existsb (seq_eqb (canon p)) set = false) by (rewrite Rc2; exact HP).
    rewrite Hq, get_set.
    destruct (seq_eqb k (canon c)) eqn:Ek.
    + apply seq_eqb_eq in Ek. subst k. split; [exact Rc1|]. intro q.
      rewrite existsb_app, memP_cons, seq_eqb_refl, andb_true_r. simpl. rewrite orb_false_r, Rc2. apply orb_comm.
    + destruct (dict_get k d) as [[s1|]|]; destruct Rk as [Rk1 Rk2]; (split; [exact Rk1|]); intro q;
        rewrite (Hother k Ek); apply Rk2.
  - destruct Rc as [Rc1 _]. congruence.
  - destruct Rc as [Rc1 Rc2]. rewrite get_set.
    destruct (seq_eqb k (canon c)) eqn:Ek.
    + apply seq_eqb_eq in Ek. subst k. split; [exact Rc1|]. intro q.
      rewrite memP_cons, seq_eqb_refl, andb_true_r, Rc2. simpl. reflexivity.
    + destruct (dict_get k d) as [[s1|]|]; destruct Rk as [Rk1 Rk2]; (split; [exact Rk1|]); intro q;
        rewrite (Hother k Ek); apply Rk2.
Qed.

Lemma Rel_disable_all d S c :
  Rel d S -> anyP (canon c) (s_P S) = false ->
  Rel (dis_add d c None) (SState (canon c :: s_G S) (s_P S)).
Proof.
  intros R Hany. pose proof (anyP_false _ _ Hany) as HP.
  intro k. cbn [s_G s_P]. pose proof (R k) as Rk. unfold dis_add. rewrite get_set, memG_cons.
  destruct (seq_eqb k (canon c)) eqn:Ek.
  - apply seq_eqb_eq in Ek. subst k. split; [reflexivity|exact HP].
  - simpl. exact Rk.
Qed.

Lemma Rel_enable_plugin d S p c :
  Rel d S ->
  Rel (match dis_remove d c (Some p) with Ok d' => d' | Raise _ => d end)
      (fst (spec_step has_cmd S (OEnable (Some p) c))).
Proof.
  intro R. cbn [spec_step]. unfold dis_remove. pose proof (R (canon c)) as Rc.
  destruct (dict_get (canon c) d) as [[set|]|] eqn:Hget.
  - destruct Rc as [Rc1 Rc2]. rewrite <- (Rc2 (canon p)).
    destruct (existsb (seq_eqb (canon p)) set) eqn:Hq; [|exact R].
    cbn [fst]. intro k. cbn [s_G s_P]. rewrite get_set. pose proof (R k) as Rk.
    destruct (seq_eqb k (canon c)) eqn:Ek.
    + apply seq_eqb_eq in Ek. subst k. split; [exact Rc1|]. intro q.
      rewrite mem_remove, memP_remove, seq_eqb_refl, andb_true_r.
      destruct (seq_eqb q (canon p)); [reflexivity|apply Rc2].
    + assert (Hk : forall q, memP q k (filter (fun e => negb (seq_eqb (canon p) (fst e) && seq_eqb (canon c) (snd e))) (s_P S))
                             = memP q k (s_P S)).
      { intro q. rewrite memP_remove, Ek, andb_false_r. reflexivity. }
      destruct (dict_get k d) as [[s1|]|]; destruct Rk as [Rk1 Rk2]; (split; [exact Rk1|]); intro q; rewrite Hk; apply Rk2.
  - destruct Rc as [_ Rc2]. rewrite (Rc2 (canon p)). exact R.
  - destruct Rc as [_ Rc2]. rewrite (Rc2 (canon p)). exact R.
Qed.

Lemma Rel_enable_all d S c :
  Rel d S -> negb (memG (canon c) (s_G S)) && anyP (canon c) (s_P S) = false ->
  Rel (match dis_remove d c None with Ok d' => d' | Raise _ => d end)
      (fst (spec_step has_cmd S (OEnable None c))).
Proof.
  intros R Hbad. cbn [spec_step]. unfold dis_remove. pose proof (R (canon c)) as Rc.
  destruct (dict_get (canon c) d) as [[set|]|] eqn:Hget.
  - (* only per-plugin entries: the operation is refused, yet the entry is deleted *)
    destruct Rc as [Rc1 Rc2]. rewrite Rc1 in *. simpl in Hbad. cbn [fst].
    pose proof (anyP_false _ _ Hbad) as HP.
    intro k. rewrite get_del. pose proof (R k) as Rk.
    destruct (seq_eqb k (canon c)) eqn:Ek; [|exact Rk].
    apply seq_eqb_eq in Ek. subst k. split; [exact Rc1|exact HP].
  - destruct Rc as [Rc1 Rc2]. rewrite Rc1. cbn [fst].
    intro k. rewrite get_del. cbn [s_G s_P]. pose proof (R k) as Rk. rewrite memG_remove.
    destruct (seq_eqb k (canon c)) eqn:Ek; [|exact Rk].
    apply seq_eqb_eq in Ek. subst k. split; [reflexivity|exact Rc2].
  - destruct Rc as [Rc1 _]. rewrite Rc1. exact R.
Qed.

Lemma Rel_step d S o :
  Rel d S -> bad_op S o = false -> Rel (d_step d o) (fst (spec_step has_cmd S o)).
Proof.
  intros R Hbad. destruct o as [[p|] c | [p|] c].
  - cbn [d_step spec_step]. destruct (forbidden c); [exact R|].
    rewrite (Rel_disabled d S c p R).
    destruct (negb (spec_disabled S c p) && has_cmd p c) eqn:Hc; [|exact R].
    cbn [fst]. apply andb_true_iff in Hc as [Hc _]. apply negb_true_iff in Hc.
    apply Rel_disable_plugin; assumption.
  - cbn [d_step spec_step bad_op] in *. destruct (forbidden c); [exact R|].
    cbn [fst]. apply Rel_disable_all; assumption.
  - cbn [d_step]. apply Rel_enable_plugin. exact R.
  - cbn [d_step]. apply Rel_enable_all; assumption.
Qed.

Lemma Rel_run ops : forall st S,
  Rel (o_d st) S -> hist_dom has_cmd S ops = true ->
  Rel (o_d (owner_run has_cmd st ops)) (spec_run has_cmd S ops).
Proof.
  induction ops as [|o ops IH]; intros st S R Hdom; [exact R|].
  cbn [hist_dom] in Hdom. apply andb_true_iff in Hdom as [Hb Hdom]. apply negb_true_iff in Hb.
  unfold owner_run, spec_run. cbn [fold_left].
  apply IH; [|exact Hdom]. rewrite owner_step_d. apply Rel_step; assumption.
Qed.

Definition S0 := SState [] [].

Lemma Rel_init : Rel [] S0.
Proof. intro k. simpl. split; reflexivity. Qed.

Theorem history_disabled_on_domain ops :
  hist_dom has_cmd S0 ops = true ->
  forall c p, dis_disabled (o_d (owner_run has_cmd (OState [] []) ops)) c p =
              spec_disabled (spec_run has_cmd S0 ops) c p.
Proof.
  intros Hdom c p. apply Rel_disabled. apply Rel_run; [apply Rel_init|exact Hdom].
Qed.

(* ... and a command the history left disabled everywhere is never selected by findCallbacksForArgs *)
Theorem history_never_selected ops cbs defaults important strs x cb :
  hist_dom has_cmd S0 ops = true ->
  memG (canon x) (s_G (spec_run has_cmd S0 ops)) = true ->
  let E := Env cbs (o_d (owner_run has_cmd (OState [] []) ops)) defaults important in
  In cb (snd (findCallbacksForArgs E strs)) -> last (fst (findCallbacksForArgs E strs)) [] <> x.
Proof.
  intros Hdom HG E. apply (disabled_never_selected E strs x cb).
  simpl. apply (Rel_global _ (spec_run has_cmd S0 ops)); [|exact HG].
  apply Rel_run; [apply Rel_init|exact Hdom].
Qed.
End H.

(* ---- witnesses ---- *)
Definition hc_all : str -> str -> bool := fun _ _ => true.
Definition s_al : str := [65%N; 108%N].   (* "Al" *)
Definition s_a : str := [97%N].            (* "a" *)
(* disable Al a ; enable a *)
Definition h_refused_enable : list op := [ODisable (Some s_al) s_a; OEnable None s_a].
(* disable Al a ; disable a ; enable a *)
Definition h_overwrite : list op := [ODisable (Some s_al) s_a; ODisable None s_a; OEnable None s_a].
(* disable a ; enable Al a ; disable Al a (refused) ; enable a ; disable Al a ; enable Al a *)
Definition h_ok : list op :=
  [ODisable None s_a; OEnable (Some s_al) s_a; ODisable (Some s_al) s_a; OEnable None s_a;
   ODisable (Some s_al) s_a].

Lemma history_refuted1 :
  hist_dom hc_all S0 h_refused_enable = false /\
  snd (owner_step hc_all (owner_run hc_all (OState [] []) [ODisable (Some s_al) s_a]) (OEnable None s_a)) = false /\
  spec_disabled (spec_run hc_all S0 h_refused_enable) s_a s_al = true /\
  dis_disabled (o_d (owner_run hc_all (OState [] []) h_refused_enable)) s_a s_al = false.
Proof. repeat split; vm_compute; reflexivity. Qed.

Lemma history_refuted2 :
  hist_dom hc_all S0 h_overwrite = false /\
  spec_disabled (spec_run hc_all S0 h_overwrite) s_a s_al = true /\
  dis_disabled (o_d (owner_run hc_all (OState [] []) h_overwrite)) s_a s_al = false.
Proof. repeat split; vm_compute; reflexivity. Qed.

Example history_ok :
  hist_dom hc_all S0 h_ok = true /\
  spec_disabled (spec_run hc_all S0 h_ok) s_a s_al = true /\
  spec_disabled (spec_run hc_all S0 h_ok) s_a [66%N] = false /\
  hist_dom hc_all S0 [ODisable None s_a; OEnable (Some s_al) s_a] = true /\
  memG (canon s_a) (s_G (spec_run hc_all S0 [ODisable None s_a; OEnable (Some s_al) s_a])) = true.
Proof. repeat split; vm_compute; reflexivity. Qed.
