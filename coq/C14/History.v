(* C14/History.v — after any history of Owner.disable / Owner.enable operations the in-memory table
   Commands._disabled answers exactly like the documented semantics. *)
From Coq Require Import List NArith ZArith Bool Arith Lia.
Import ListNotations.
Require Import Base.Wire Base.PyStr C14.Model C14.Lemmas C14.Dispatch.
Local Open Scope nat_scope.

(* ---- association lists ---- *)
Lemma seq_eqb_sym a b : seq_eqb a b = seq_eqb b a.
Proof.
  destruct (seq_eqb a b) eqn:E1, (seq_eqb b a) eqn:E2; try reflexivity.
  - apply seq_eqb_eq in E1. subst. rewrite seq_eqb_refl in E2. discriminate.
  - apply seq_eqb_eq in E2. subst. rewrite seq_eqb_refl in E1. discriminate.
Qed.

Lemma get_set {A} k' k (v : A) d :
  dict_get k' (dict_set k v d) = if seq_eqb k' k then Some v else dict_get k' d.
Proof.
  induction d as [|[k0 v0] d IH]; simpl.
  - reflexivity.
  - destruct (seq_eqb k k0) eqn:E; simpl.
    + apply seq_eqb_eq in E. subst k0. destruct (seq_eqb k' k); reflexivity.
    + destruct (seq_eqb k' k0) eqn:E0.
      * apply seq_eqb_eq in E0. subst k0. rewrite seq_eqb_sym, E. reflexivity.
      * exact IH.
Qed.

Lemma existsb_ext' {A} (f g : A -> bool) l : (forall x, f x = g x) -> existsb f l = existsb g l.
Proof. intro H. induction l; simpl; [reflexivity|]. rewrite H, IHl. reflexivity. Qed.

Lemma existsb_filter {A} (f g : A -> bool) l : existsb f (filter g l) = existsb (fun x => f x && g x) l.
Proof.
  induction l as [|x l IH]; simpl; [reflexivity|].
  destruct (g x) eqn:E; simpl; rewrite IH.
  - rewrite andb_true_r. reflexivity.
  - rewrite andb_false_r. reflexivity.
Qed.

Lemma existsb_false {A} (f : A -> bool) l : (forall x, f x = false) -> existsb f l = false.
Proof. intro H. induction l; simpl; [reflexivity|]. rewrite H, IHl. reflexivity. Qed.

(* removing q from a set: membership of q' *)
Lemma mem_remove q q' (set : list str) :
  existsb (seq_eqb q') (filter (fun x => negb (seq_eqb q x)) set) =
  if seq_eqb q' q then false else existsb (seq_eqb q') set.
Proof.
  rewrite existsb_filter. destruct (seq_eqb q' q) eqn:E.
  - apply seq_eqb_eq in E. subst q'. apply existsb_false. intro x. destruct (seq_eqb q x); reflexivity.
  - apply existsb_ext'. intro x. destruct (seq_eqb q' x) eqn:E1; [|reflexivity].
    apply seq_eqb_eq in E1. subst x. rewrite seq_eqb_sym, E. reflexivity.
Qed.

Lemma memG_remove k k' G :
  memG k' (filter (fun x => negb (seq_eqb k x)) G) = if seq_eqb k' k then false else memG k' G.
Proof. apply mem_remove. Qed.

Lemma memP_remove q k q' k' P :
  memP q' k' (filter (fun e => negb (seq_eqb q (fst e) && seq_eqb k (snd e))) P) =
  if seq_eqb q' q && seq_eqb k' k then false else memP q' k' P.
Proof.
  unfold memP. rewrite existsb_filter.
  destruct (seq_eqb q' q) eqn:E1; destruct (seq_eqb k' k) eqn:E2; simpl;
    try (apply seq_eqb_eq in E1; subst q'); try (apply seq_eqb_eq in E2; subst k').
  - apply existsb_false. intros [a b]. simpl. destruct (seq_eqb q a && seq_eqb k b); reflexivity.
  - apply existsb_ext'. intros [a b]. simpl.
    destruct (seq_eqb q a) eqn:Ea; simpl; [|reflexivity].
    destruct (seq_eqb k' b) eqn:Eb; simpl; [|reflexivity].
    apply seq_eqb_eq in Eb. subst b. rewrite (seq_eqb_sym k k'), E2. reflexivity.
  - apply existsb_ext'. intros [a b]. simpl.
    destruct (seq_eqb q' a) eqn:Ea; simpl; [|reflexivity].
    apply seq_eqb_eq in Ea. subst a. rewrite (seq_eqb_sym q q'), E1. simpl. rewrite andb_true_r. reflexivity.
  - apply existsb_ext'. intros [a b]. simpl.
    destruct (seq_eqb q' a) eqn:Ea; simpl; [|reflexivity].
    apply seq_eqb_eq in Ea. subst a. rewrite (seq_eqb_sym q q'), E1. simpl. rewrite andb_true_r. reflexivity.
Qed.

Lemma set_add_mem k' k l : existsb (seq_eqb k') (set_add k l) = seq_eqb k' k || existsb (seq_eqb k') l.
Proof.
  unfold set_add. destruct (existsb (seq_eqb k) l) eqn:E.
  - destruct (seq_eqb k' k) eqn:Ek; [|reflexivity]. apply seq_eqb_eq in Ek. subst k'. rewrite E. reflexivity.
  - rewrite existsb_app. simpl. rewrite orb_false_r. apply orb_comm.
Qed.

Lemma per_has_set q' k' k set per :
  per_has q' k' (dict_set k set per) = if seq_eqb k' k then existsb (seq_eqb q') set else per_has q' k' per.
Proof. unfold per_has. rewrite get_set. destruct (seq_eqb k' k); reflexivity. Qed.

Lemma memP_cons q k q0 k0 P : memP q k ((q0, k0) :: P) = (seq_eqb q q0 && seq_eqb k k0) || memP q k P.
Proof. reflexivity. Qed.
Lemma memG_cons k k0 G : memG k (k0 :: G) = seq_eqb k k0 || memG k G.
Proof. reflexivity. Qed.

Section H.
Variable has_cmd : str -> str -> bool.

(* the in-memory table represents the documented state *)
Definition Rel (d : dis) (S : sstate) : Prop :=
  (forall k, memG k (d_all d) = memG k (s_G S)) /\
  (forall q k, per_has q k (d_per d) = memP q k (s_P S)).

Lemma Rel_disabled d S c p : Rel d S -> dis_disabled d c p = spec_disabled S c p.
Proof. intros [R1 R2]. unfold dis_disabled, spec_disabled. rewrite R1, R2. reflexivity. Qed.

(* the in-memory component of owner_step, which does not depend on the registry list *)
Definition d_step (d : dis) (o : op) : dis :=
  match o with
  | ODisable (Some p) c =>
      if forbidden c then d
      else if negb (dis_disabled d c p) && has_cmd p c then dis_add d c (Some p) else d
  | ODisable None c => if forbidden c then d else dis_add d c None
  | OEnable pl c => match dis_remove d c pl with Ok d' => d' | Raise _ => d end
  end.

Lemma owner_step_d st o : o_d (fst (owner_step has_cmd st o)) = d_step (o_d st) o.
Proof.
  destruct st as [d conf]. destruct o as [[p|] c | pl c]; simpl.
  - destruct (forbidden c); simpl; [reflexivity|].
    destruct (negb (dis_disabled d c p) && has_cmd p c); reflexivity.
  - destruct (forbidden c); reflexivity.
  - destruct (dis_remove d c pl); simpl; [|reflexivity].
    destruct (conf_has _ conf); reflexivity.
Qed.

Lemma Rel_step d S o : Rel d S -> Rel (d_step d o) (fst (spec_step has_cmd S o)).
Proof.
  intro R. pose proof R as [R1 R2]. destruct o as [[p|] c | [p|] c]; cbn [d_step spec_step].
  - (* disable <plugin> <command> *)
    destruct (forbidden c); [exact R|].
    rewrite (Rel_disabled d S c p R).
    destruct (negb (spec_disabled S c p) && has_cmd p c); [|exact R].
    cbn [fst]. split; cbn [s_G s_P dis_add d_all d_per]; [exact R1|].
    intros q k. rewrite memP_cons, <- R2.
    destruct (dict_get (canon c) (d_per d)) as [set|] eqn:Hget; rewrite per_has_set;
      (destruct (seq_eqb k (canon c)) eqn:Ek; [|rewrite andb_false_r; reflexivity]);
      apply seq_eqb_eq in Ek; subst k; rewrite andb_true_r; unfold per_has; rewrite Hget.
    + apply set_add_mem.
    + simpl. reflexivity.
  - (* disable <command> everywhere *)
    destruct (forbidden c); [exact R|].
    cbn [fst]. split; cbn [s_G s_P dis_add d_all d_per]; [|exact R2].
    intro k. unfold memG at 1. rewrite set_add_mem, memG_cons. fold (memG k (d_all d)). rewrite R1. reflexivity.
  - (* enable <plugin> <command> *)
    unfold dis_remove. rewrite <- (R2 (canon p) (canon c)). unfold per_has.
    destruct (dict_get (canon c) (d_per d)) as [set|] eqn:Hget; [|exact R].
    destruct (existsb (seq_eqb (canon p)) set) eqn:Hq; [|exact R].
    cbn [fst]. split; cbn [s_G s_P d_all d_per]; [exact R1|].
    intros q k. rewrite per_has_set, memP_remove, <- R2.
    destruct (seq_eqb k (canon c)) eqn:Ek; [|rewrite andb_false_r; reflexivity].
    apply seq_eqb_eq in Ek. subst k. rewrite andb_true_r. unfold set_remove. rewrite mem_remove.
    unfold per_has. rewrite Hget. reflexivity.
  - (* enable <command> everywhere *)
    unfold dis_remove. rewrite (R1 (canon c)).
    destruct (memG (canon c) (s_G S)); [|exact R].
    cbn [fst]. split; cbn [s_G s_P d_all d_per]; [|exact R2].
    intro k. unfold set_remove. rewrite !memG_remove, R1. reflexivity.
Qed.

Lemma Rel_run ops : forall st S,
  Rel (o_d st) S -> Rel (o_d (owner_run has_cmd st ops)) (spec_run has_cmd S ops).
Proof.
  induction ops as [|o ops IH]; intros st S R; [exact R|].
  unfold owner_run, spec_run. cbn [fold_left].
  apply IH. rewrite owner_step_d. apply Rel_step. exact R.
Qed.

Definition S0 := SState [] [].

Lemma Rel_init : Rel dis_empty S0.
Proof. split; reflexivity. Qed.

Theorem history_disabled ops c p :
  dis_disabled (o_d (owner_run has_cmd (OState dis_empty []) ops)) c p =
  spec_disabled (spec_run has_cmd S0 ops) c p.
Proof. apply Rel_disabled. apply Rel_run. apply Rel_init. Qed.

(* ... and a command the history left disabled everywhere is never selected by findCallbacksForArgs *)
Theorem history_never_selected ops cbs defaults important strs x cb :
  memG (canon x) (s_G (spec_run has_cmd S0 ops)) = true ->
  let E := Env cbs (o_d (owner_run has_cmd (OState dis_empty []) ops)) defaults important in
  In cb (snd (findCallbacksForArgs E strs)) -> last (fst (findCallbacksForArgs E strs)) [] <> x.
Proof.
  intros HG E. apply (disabled_never_selected E strs x cb).
  simpl. destruct (Rel_run ops (OState dis_empty []) S0 Rel_init) as [R1 _]. rewrite R1. exact HG.
Qed.
End H.

(* ---- examples: the histories on which the code before the repair of C14.F24 went wrong ---- *)
Definition hc_all : str -> str -> bool := fun _ _ => true.
Definition s_al : str := [65%N; 108%N].   (* "Al" *)
Definition s_a : str := [97%N].            (* "a" *)
(* disable Al a ; enable a (refused) *)
Definition h_refused_enable : list op := [ODisable (Some s_al) s_a; OEnable None s_a].
(* disable Al a ; disable a ; enable a *)
Definition h_overwrite : list op := [ODisable (Some s_al) s_a; ODisable None s_a; OEnable None s_a].
(* disable a ; enable Al a (refused) *)
Definition h_refused_plugin : list op := [ODisable None s_a; OEnable (Some s_al) s_a].

Example history_examples :
  snd (owner_step hc_all (owner_run hc_all (OState dis_empty []) [ODisable (Some s_al) s_a]) (OEnable None s_a)) = false /\
  dis_disabled (o_d (owner_run hc_all (OState dis_empty []) h_refused_enable)) s_a s_al = true /\
  dis_disabled (o_d (owner_run hc_all (OState dis_empty []) h_overwrite)) s_a s_al = true /\
  dis_disabled (o_d (owner_run hc_all (OState dis_empty []) h_overwrite)) s_a [66%N] = false /\
  dis_disabled (o_d (owner_run hc_all (OState dis_empty []) h_refused_plugin)) s_a [66%N] = true /\
  memG (canon s_a) (s_G (spec_run hc_all S0 h_refused_plugin)) = true.
Proof. repeat split; vm_compute; reflexivity. Qed.

(* ---- the table built when the bot starts (DisabledCommands.__init__ from supybot.commands.disabled) ---- *)
Lemma dis_add_all d c' c p :
  dis_disabled (dis_add d c' None) c p = seq_eqb (canon c) (canon c') || dis_disabled d c p.
Proof.
  unfold dis_disabled, dis_add. cbn [d_all d_per]. unfold memG at 1. rewrite set_add_mem.
  fold (memG (canon c) (d_all d)). rewrite orb_assoc. reflexivity.
Qed.

Lemma dis_add_plugin d c' p' c p :
  dis_disabled (dis_add d c' (Some p')) c p =
  (seq_eqb (canon c) (canon c') && seq_eqb (canon p) (canon p')) || dis_disabled d c p.
Proof.
  unfold dis_disabled, dis_add. cbn [d_all d_per].
  destruct (dict_get (canon c') (d_per d)) as [set|] eqn:Hget; rewrite per_has_set;
    destruct (seq_eqb (canon c) (canon c')) eqn:Ec; cbn [andb orb].
  - apply seq_eqb_eq in Ec. rewrite set_add_mem. unfold per_has. rewrite Ec, Hget.
    destruct (memG (canon c') (d_all d)), (seq_eqb (canon p) (canon p')), (existsb (seq_eqb (canon p)) set); reflexivity.
  - reflexivity.
  - apply seq_eqb_eq in Ec. unfold per_has. rewrite Ec, Hget. simpl. rewrite !orb_false_r.
    destruct (memG (canon c') (d_all d)), (seq_eqb (canon p) (canon p')); reflexivity.
  - reflexivity.
Qed.

(* one entry of the registry list disables (c, p) iff it names the command, and the plugin if it has one --
   both compared after canonicalName, so 'misc.ping' disables Misc's ping *)
Definition entry_disables (name c p : str) : bool :=
  match split1 [46%N] name with
  | Some (plugin, command) => seq_eqb (canon c) (canon command) && seq_eqb (canon p) (canon plugin)
  | None => seq_eqb (canon c) (canon name)
  end.

Definition conf_step (d : dis) (name : str) : dis :=
  match split1 [46%N] name with
  | Some (plugin, command) => dis_add d command (Some plugin)
  | None => dis_add d name None
  end.

Lemma conf_step_disabled d name c p :
  dis_disabled (conf_step d name) c p = dis_disabled d c p || entry_disables name c p.
Proof.
  unfold conf_step, entry_disables. destruct (split1 [46%N] name) as [[plugin command]|].
  - rewrite dis_add_plugin. apply orb_comm.
  - rewrite dis_add_all. apply orb_comm.
Qed.

Theorem startup_table conf c p :
  dis_disabled (dis_of_conf conf) c p = existsb (fun name => entry_disables name c p) conf.
Proof.
  unfold dis_of_conf. change (fun d name => match split1 [46%N] name with
                                            | Some (plugin, command) => dis_add d command (Some plugin)
                                            | None => dis_add d name None end) with conf_step.
  assert (H : forall d0, dis_disabled (fold_left conf_step conf d0) c p =
                         dis_disabled d0 c p || existsb (fun name => entry_disables name c p) conf).
  { induction conf as [|name conf IH]; intro d0; simpl; [rewrite orb_false_r; reflexivity|].
    rewrite IH, conf_step_disabled, orb_assoc. reflexivity. }
  rewrite H. reflexivity.
Qed.

(* the per-plugin entries are insensitive to how the plugin name was spelt when it was stored *)
Theorem plugin_name_canonical d c p p' :
  canon p = canon p' -> dis_disabled (dis_add d c (Some p)) c p' = true.
Proof. intro H. rewrite dis_add_plugin, H, !seq_eqb_refl. reflexivity. Qed.

(* `disable Misc ping`, restart: the registry holds 'misc.ping', the plugin asks with 'Misc' *)
Definition s_misc : str := [77; 105; 115; 99]%N.  Definition s_ping : str := [112; 105; 110; 103]%N.
Example restart_keeps_disabled :
  let st := owner_run hc_all (OState dis_empty []) [ODisable (Some s_misc) s_ping] in
  o_conf st = [[109; 105; 115; 99; 46; 112; 105; 110; 103]%N] /\
  dis_disabled (o_d (restart st)) s_ping s_misc = true /\
  dis_disabled (o_d (restart st)) s_ping [65; 108]%N = false /\
  o_d (restart (restart st)) = o_d (restart st).
Proof. repeat split; vm_compute; reflexivity. Qed.

(* ---- the registry key Owner.disable writes, read back by DisabledCommands.__init__ ---- *)
Definition nospecial (s : str) : bool := forallb (fun ch => negb (mem ch special)) s.
Definition nodot (s : str) : bool := negb (mem 46%N s).
(* names made of letters, digits, ...: no character canonicalName drops, no '.' *)
Definition simple (s : str) : bool := nospecial s && nodot s.
(* what the proofs need of the regenerated table of special characters: none is '.', none is a letter *)
Definition special_sane : bool :=
  forallb (fun sp => negb (N.eqb sp 46) && ((sp <? 65) || (90 <? sp))%N && ((sp <? 97) || (122 <? sp))%N) special.
Lemma special_sane_ok : special_sane = true.
Proof. vm_compute. reflexivity. Qed.

Lemma last_char_In s c : last_char s = Some c -> In c s.
Proof.
  unfold last_char. destruct (rev s) as [|x r] eqn:E; [discriminate|]. intro H. inversion H; subst.
  apply in_rev. rewrite E. left. reflexivity.
Qed.

Lemma filter_all {A} (f : A -> bool) l : forallb f l = true -> filter f l = l.
Proof.
  induction l as [|x l IH]; simpl; [reflexivity|]. intro H. apply andb_true_iff in H as [H1 H2].
  rewrite H1, (IH H2). reflexivity.
Qed.

Lemma canon_nospecial s : nospecial s = true -> canon s = map lower1 s.
Proof.
  intro H. unfold canon.
  assert (Hr : rstrip special s = s).
  { apply rstrip_id. destruct (last_char s) as [c|] eqn:E; [|exact Logic.I].
    apply last_char_In in E. unfold nospecial in H. rewrite forallb_forall in H.
    apply negb_true_iff. apply H. exact E. }
  rewrite Hr, skipn_all, app_nil_r. rewrite (filter_all _ _ H). reflexivity.
Qed.

Lemma lower1_letter ch : lower1 ch = ch \/ ((97 <=? lower1 ch) && (lower1 ch <=? 122))%N = true.
Proof.
  unfold lower1. destruct ((65 <=? ch) && (ch <=? 90))%N eqn:E; [right|left; reflexivity].
  apply andb_true_iff in E as [E1 E2]. apply N.leb_le in E1, E2.
  apply andb_true_iff. split; apply N.leb_le; lia.
Qed.

Lemma lower1_not_special ch : mem ch special = false -> mem (lower1 ch) special = false.
Proof.
  intro H. destruct (lower1_letter ch) as [E|E]; [rewrite E; exact H|].
  apply andb_true_iff in E as [E1 E2]. apply N.leb_le in E1, E2.
  apply mem_false. intro Hin. pose proof special_sane_ok as Hs. unfold special_sane in Hs.
  rewrite forallb_forall in Hs. specialize (Hs _ Hin).
  apply andb_true_iff in Hs as [_ Hs]. apply orb_true_iff in Hs as [Hs|Hs]; apply N.ltb_lt in Hs; lia.
Qed.

Lemma lower1_dot ch : N.eqb (lower1 ch) 46 = N.eqb ch 46.
Proof.
  unfold lower1. destruct ((65 <=? ch) && (ch <=? 90))%N eqn:E; [|reflexivity].
  apply andb_true_iff in E as [E1 E2]. apply N.leb_le in E1, E2.
  transitivity false; [apply N.eqb_neq; lia|symmetry; apply N.eqb_neq; lia].
Qed.

Lemma lower_nospecial s : nospecial s = true -> nospecial (map lower1 s) = true.
Proof.
  unfold nospecial. induction s as [|c s IH]; cbn [map forallb]; [reflexivity|]. intro H.
  apply andb_true_iff in H as [H1 H2]. apply negb_true_iff in H1.
  rewrite (lower1_not_special _ H1), (IH H2). reflexivity.
Qed.

Lemma lower_nodot s : nodot s = true -> mem 46%N (map lower1 s) = false.
Proof.
  unfold nodot, mem. intro H. apply negb_true_iff in H.
  induction s as [|c s IH]; cbn [map existsb] in *; [reflexivity|].
  apply orb_false_iff in H as [H1 H2]. rewrite (N.eqb_sym 46 (lower1 c)), lower1_dot, (N.eqb_sym c 46), H1. cbn [orb]. apply IH. exact H2.
Qed.

Lemma lower1_idem ch : lower1 (lower1 ch) = lower1 ch.
Proof.
  destruct (lower1_letter ch) as [E|E]; [rewrite E; exact E|].
  unfold lower1 at 1. apply andb_true_iff in E as [E1 E2]. apply N.leb_le in E1, E2.
  destruct ((65 <=? lower1 ch) && (lower1 ch <=? 90))%N eqn:E; [|reflexivity].
  apply andb_true_iff in E as [_ E]. apply N.leb_le in E. lia.
Qed.

Lemma canon_lower s : nospecial s = true -> canon (map lower1 s) = canon s.
Proof.
  intro H. rewrite (canon_nospecial _ (lower_nospecial _ H)), (canon_nospecial _ H), map_map.
  apply map_ext. apply lower1_idem.
Qed.

Lemma dot_not_special : mem 46%N special = false.
Proof. vm_compute. reflexivity. Qed.

Lemma key_plugin p c : simple p = true -> simple c = true ->
  conf_key (Some p) c = map lower1 p ++ 46%N :: map lower1 c.
Proof.
  intros Hp Hc. unfold simple in *. apply andb_true_iff in Hp as [Hp _]. apply andb_true_iff in Hc as [Hc _].
  unfold conf_key. rewrite canon_nospecial.
  - rewrite map_app. cbn [app map]. unfold lower1 at 2. reflexivity.
  - unfold nospecial in *. rewrite forallb_app. cbn [app forallb]. rewrite Hp, Hc, dot_not_special. reflexivity.
Qed.

(* the entry `disable <plugin> <command>` leaves in the registry, read back at start-up, disables exactly that
   command in exactly that plugin (names compared canonically) *)
Theorem restart_entry_plugin p c c' p' : simple p = true -> simple c = true ->
  entry_disables (conf_key (Some p) c) c' p' = seq_eqb (canon c') (canon c) && seq_eqb (canon p') (canon p).
Proof.
  intros Hp Hc. rewrite (key_plugin p c Hp Hc). unfold entry_disables.
  unfold simple in *. apply andb_true_iff in Hp as [Hp1 Hp2]. apply andb_true_iff in Hc as [Hc1 Hc2].
  rewrite (split1_char 46%N _ _ (lower_nodot _ Hp2)).
  rewrite (canon_lower _ Hc1), (canon_lower _ Hp1). reflexivity.
Qed.

Theorem restart_entry_all c c' p' : simple c = true ->
  entry_disables (conf_key None c) c' p' = seq_eqb (canon c') (canon c).
Proof.
  intro Hc. unfold simple in Hc. apply andb_true_iff in Hc as [Hc1 Hc2].
  unfold conf_key, entry_disables. rewrite (canon_nospecial _ Hc1).
  rewrite (split1_char_none 46%N _ (lower_nodot _ Hc2)). rewrite (canon_lower _ Hc1), (canon_nospecial _ Hc1). reflexivity.
Qed.
