(* C14/Lemmas.v — the evaluation machine refines the functional specification. *)
From Coq Require Import List NArith ZArith Bool Arith Lia.
Import ListNotations.
Require Import Base.Wire Base.PyStr C14.Model.
Local Open Scope nat_scope.

Definition erase (log : list call) : list entry :=
  map (fun c => (c_plugin c, c_cmd c, c_args c)) log.

Lemma erase_app a b : erase (a ++ b) = erase a ++ erase b.
Proof. apply map_app. Qed.

Section Refine.
Variable final : list str -> finalres.
Variable K : config.

Notation runm := (runm final K).
Notation eval_args := (eval_args final K).
Notation final_eval := (final_eval final K).
Notation spec_list := (spec_list final K).
Notation finish := (finish final K).

Lemma runm_add a b s : runm (a + b) s = runm b (runm a s).
Proof.
  revert s. induction a as [|a IH]; intro s; simpl; [reflexivity|].
  destruct s as [st|l o]; [apply IH|].
  clear IH. induction b; simpl; auto.
Qed.

Lemma runm_done k l o : runm k (Done l o) = Done l o.
Proof. destruct k; reflexivity. Qed.

Lemma subs_str s r : subs (AStr s :: r) = subs r.
Proof. reflexivity. Qed.
Lemma subs_sub sub r : subs (ASub sub :: r) = S (subs sub + subs r).
Proof. reflexivity. Qed.

Definition pend (stack : list frame) : nat :=
  list_sum (map (fun f => subs (tl (f_rest f))) stack).

(* the command of a proxy whose strings are [strs]: spec side *)
Definition fin_spec (child : bool) (strs : list str) : list entry * sres :=
  match strs with
  | [] => ([], k_on_empty K)
  | _ => (match fr_call (final strs) with Some e => [e] | None => [] end, res_of child (final strs))
  end.

Lemma fin_spec_calls c1 c2 strs : fst (fin_spec c1 strs) = fst (fin_spec c2 strs).
Proof. destruct strs; reflexivity. Qed.

Lemma finish_inr child d sub lg strs :
  too_deep K d = false -> sub <> [] ->
  finish child d sub (lg, inr strs) = (lg ++ fst (fin_spec child strs), snd (fin_spec child strs)).
Proof.
  intros Hd Hs. unfold finish. rewrite Hd. destruct sub as [|a sub]; [congruence|].
  destruct strs as [|s strs]; simpl; [rewrite app_nil_r|]; reflexivity.
Qed.

Lemma finish_inl child d sub lg o :
  too_deep K d = false -> sub <> [] -> finish child d sub (lg, inl o) = (lg, SStop o).
Proof.
  intros Hd Hs. unfold finish. rewrite Hd. destruct sub; [congruence|reflexivity].
Qed.

(* finalEval of a proxy that has a parent, entered with the tag clear: the parent resumes with what res_of true says
   (whatever the reply attributes), or the evaluation is over *)
Lemma final_eval_spec strs at_ p stack log thr room :
  room <= k_budget K ->
  exists log' thr' room' at',
    final_eval strs at_ (p :: stack) log thr room false =
      match snd (fin_spec true strs) with
      | SStop o => Done log' o
      | SVal v =>
          Running (MState (Frame (f_done p)
                                 (match v with Some s => AStr s :: tl (f_rest p) | None => tl (f_rest p) end)
                                 (f_nested p) at' :: stack) log' thr' room' false)
      end /\
    erase log' = erase log ++ fst (fin_spec true strs) /\
    room <= room' /\ room' <= k_budget K.
Proof.
  intro Hr. unfold final_eval, fin_spec. destruct strs as [|s strs].
  - cbn [snd fst]. unfold apply_res, deliver. destruct (k_on_empty K) as [[v|]|o];
      try solve [exists log, thr, room, at_; (split; [reflexivity|]); rewrite app_nil_r; auto];
      eexists log, thr, room, _; (split; [reflexivity|]); rewrite app_nil_r; auto.
  - set (fr := final (s :: strs)). cbn [snd fst]. unfold res_of, apply_res, deliver.
    assert (Hlog : erase (match fr_call fr with
                          | Some (pl, c, a) => log ++ [Call pl c a (thr || fr_threaded fr) (fst at_) (merge_attrs (fst at_) (fr_flags fr))]
                          | None => log end) =
                   erase log ++ match fr_call fr with Some e => [e] | None => [] end).
    { destruct (fr_call fr) as [[[pl c] a]|]; simpl; [rewrite erase_app; reflexivity|rewrite app_nil_r; reflexivity]. }
    assert (Hroom : room <= (if negb thr && fr_threaded fr then k_budget K else room) /\
                    (if negb thr && fr_threaded fr then k_budget K else room) <= k_budget K)
      by (destruct (negb thr && fr_threaded fr); lia).
    destruct (fr_res fr) as [[v|]|o]; cbn [orb andb]; try destruct (fr_tag fr);
      try solve [eexists _, thr, _, at_; (split; [reflexivity|]); (split; [exact Hlog|exact Hroom])];
      eexists _, _, _, _; (split; [reflexivity|]); (split; [exact Hlog|exact Hroom]).
Qed.

(* finalEval of the root proxy: the reply goes to the real Irc whatever the tag and the attributes *)
Lemma final_eval_root strs at_ log thr room ign :
  exists log' thr' room' ign' ra,
    final_eval strs at_ [] log thr room ign = apply_res (snd (fin_spec false strs)) ra [] log' thr' room' ign' /\
    erase log' = erase log ++ fst (fin_spec false strs).
Proof.
  unfold final_eval, fin_spec. destruct strs as [|s strs].
  - eexists log, thr, room, ign, _. simpl. rewrite app_nil_r. auto.
  - set (fr := final (s :: strs)).
    eexists _, _, _, _, _. split.
    + unfold res_of. cbn [snd andb]. destruct (fr_res fr) as [v|o]; reflexivity.
    + destruct (fr_call fr) as [[[pl c] a]|]; simpl.
      * rewrite erase_app. reflexivity.
      * rewrite app_nil_r. reflexivity.
Qed.

Lemma spec_list_str d s r :
  spec_list d (AStr s :: r) =
  (fst (spec_list d r), match snd (spec_list d r) with inl o => inl o | inr strs => inr (s :: strs) end).
Proof.
  unfold Model.spec_list. simpl.
  destruct (spec_list_with _ r) as [lg [o|strs]]; reflexivity.
Qed.

Lemma spec_list_sub d sub r :
  spec_list d (ASub sub :: r) =
  match finish true (S d) sub (spec_list (S d) sub) with
  | (lg1, SStop o) => (lg1, inl o)
  | (lg1, SVal v) =>
      (lg1 ++ fst (spec_list d r),
       match snd (spec_list d r) with inl o => inl o | inr strs => inr (opt_list v ++ strs) end)
  end.
Proof.
  unfold Model.spec_list. simpl.
  match goal with |- context [Model.finish final K true (S d) sub ?x] => destruct (Model.finish final K true (S d) sub x) as [lg1 [v|o]] end;
    [|reflexivity].
  destruct (spec_list_with _ r) as [lg [o|strs]]; reflexivity.
Qed.

Lemma eval_args_skip done s r d at_ stack log thr room :
  eval_args (MState (Frame done (AStr s :: r) d at_ :: stack) log thr room false) =
  eval_args (MState (Frame (done ++ [s]) r d at_ :: stack) log thr room false).
Proof. reflexivity. Qed.

Lemma frame_run n :
  forall rest, subs rest < n ->
  forall done d at_ stack log thr room,
    subs rest + pend stack <= room -> room <= k_budget K ->
    exists k log' thr' room' at',
      1 <= k /\ k <= 2 * subs rest + 1 /\
      erase log' = erase log ++ fst (spec_list d rest) /\
      room - subs rest <= room' /\ room' <= k_budget K /\
      runm k (Running (MState (Frame done rest d at_ :: stack) log thr room false)) =
        match snd (spec_list d rest) with
        | inl o => Done log' o
        | inr strs => final_eval (done ++ strs) at' stack log' thr' room' false
        end.
Proof.
  induction n as [|n IHn]; [intros rest H; lia|].
  induction rest as [|a r IHr]; intros Hlt done d at_ stack log thr room Hroom Hb.
  - (* no argument left: finalEval *)
    exists 1, log, thr, room, at_. simpl. rewrite !app_nil_r.
    repeat split; try lia.
  - destruct a as [s|sub].
    + (* a string: counter += 1 *)
      rewrite subs_str in *.
      destruct (IHr Hlt (done ++ [s]) d at_ stack log thr room Hroom Hb)
        as (k & log' & thr' & room' & at' & Hk1 & Hk2 & Hlog & Hr1 & Hr2 & Hrun).
      exists k, log', thr', room', at'. rewrite spec_list_str. simpl fst; simpl snd.
      repeat split; try assumption.
      destruct k as [|k]; [lia|]. simpl. rewrite eval_args_skip.
      simpl in Hrun. rewrite Hrun.
      destruct (snd (spec_list d r)); [reflexivity|]. rewrite <- app_assoc. reflexivity.
    + (* a bracket: spawn a child proxy *)
      rewrite subs_sub in *.
      rewrite spec_list_sub.
      assert (Hstep : forall k, runm (S k) (Running (MState (Frame done (ASub sub :: r) d at_ :: stack) log thr room false)) =
                     runm k (construct K (Frame done (ASub sub :: r) d at_ :: stack) log thr room false sub (S d))) by reflexivity.
      unfold construct in Hstep.
      destruct (too_deep K (S d)) eqn:Hdeep.
      { exists 1, log, thr, room, at_. unfold Model.finish. rewrite Hdeep. simpl fst; simpl snd.
        rewrite app_nil_r. repeat split; try lia. rewrite Hstep. reflexivity. }
      destruct room as [|room0]; [lia|].
      destruct sub as [|a0 sub0].
      { exists 1, log, thr, (S room0), at_. unfold Model.finish. rewrite Hdeep. simpl fst; simpl snd.
        rewrite app_nil_r. repeat split; try lia. rewrite Hstep. reflexivity. }
      set (sub := a0 :: sub0) in *.
      assert (Hne : sub <> []) by (unfold sub; discriminate).
      set (parent := Frame done (ASub sub :: r) d at_) in *.
      assert (Hpend : pend (parent :: stack) = subs r + pend stack) by reflexivity.
      destruct (IHn sub ltac:(lia) [] (S d) (no_flags, no_flags) (parent :: stack) log thr room0 ltac:(rewrite Hpend; lia) ltac:(lia))
        as (k1 & log1 & thr1 & room1 & at1 & Hk1a & Hk1b & Hlog1 & Hr1a & Hr1b & Hrun1).
      destruct (spec_list (S d) sub) as [lg [o|strs]] eqn:Hsp; simpl fst in *; simpl snd in *.
      * (* the child's evaluation stopped *)
        rewrite (finish_inl _ _ _ _ _ Hdeep Hne).
        exists (S k1), log1, thr1, room1, at_. simpl fst; simpl snd.
        repeat split; try lia; try assumption.
        rewrite Hstep. exact Hrun1.
      * (* the child's arguments are all strings: its finalEval *)
        rewrite (finish_inr _ _ _ _ _ Hdeep Hne).
        simpl app in Hrun1. cbv iota beta in Hrun1.
        destruct (final_eval_spec strs at1 parent stack log1 thr1 room1 Hr1b)
          as (log2 & thr2 & room2 & at2 & Hfe & Hlog2 & Hr2a & Hr2b).
        rewrite Hfe in Hrun1.
        destruct (snd (fin_spec true strs)) as [v|o] eqn:Hres.
        -- (* reply / noReply: the parent resumes *)
           simpl in Hrun1.
           set (rest' := match v with Some s => AStr s :: r | None => r end).
           assert (Hsr : subs rest' = subs r) by (unfold rest'; destruct v; reflexivity).
           assert (Hrun1' : runm k1 (Running (MState (Frame [] sub (S d) (no_flags, no_flags) :: parent :: stack) log thr room0 false)) =
                            Running (MState (Frame done rest' d at2 :: stack) log2 thr2 room2 false)).
           { rewrite Hrun1. unfold rest'. destruct v; reflexivity. }
           destruct (IHn rest' ltac:(lia) done d at2 stack log2 thr2 room2 ltac:(lia) Hr2b)
             as (k2 & log3 & thr3 & room3 & at3 & Hk2a & Hk2b & Hlog3 & Hr3a & Hr3b & Hrun2).
           exists (S (k1 + k2)), log3, thr3, room3, at3.
           assert (Hspec' : spec_list d rest' =
                            (fst (spec_list d r),
                             match snd (spec_list d r) with inl o => inl o | inr strs0 => inr (opt_list v ++ strs0) end)).
           { unfold rest'. destruct v; [apply spec_list_str|]. simpl. destruct (spec_list d r) as [x [y|z]]; reflexivity. }
           rewrite Hspec' in *. simpl fst in *; simpl snd in *.
           repeat split; try lia.
           ++ rewrite Hlog3, Hlog2, Hlog1. rewrite <- !app_assoc. reflexivity.
           ++ rewrite Hstep. rewrite runm_add. rewrite Hrun1'. rewrite Hrun2.
              destruct (snd (spec_list d r)); reflexivity.
        -- (* error / ambiguity / invalid / mute: evaluation ends *)
           simpl in Hrun1.
           exists (S k1), log2, thr2, room2, at_. simpl fst; simpl snd.
           repeat split; try lia.
           ++ rewrite Hlog2, Hlog1. rewrite <- app_assoc. reflexivity.
           ++ rewrite Hstep. exact Hrun1.
Qed.

(* the root proxy *)
Theorem machine_refines tokens :
  subs tokens < k_budget K ->
  exists log, machine final K tokens = Done log (snd (eval_spec final K tokens)) /\
              erase log = fst (eval_spec final K tokens).
Proof.
  intro Hb. unfold machine, eval_spec.
  unfold construct at 1.
  assert (Hd0 : too_deep K 0 = false).
  { unfold too_deep. destruct (Nat.eqb (k_maxnest K) 0); simpl; [reflexivity|]. apply Nat.ltb_ge. lia. }
  rewrite Hd0.
  destruct (k_budget K) as [|room] eqn:Hbud; [lia|].
  destruct tokens as [|a toks].
  { exists []. unfold Model.finish. rewrite Hd0. rewrite runm_done. split; reflexivity. }
  set (tokens := a :: toks) in *.
  assert (Hne : tokens <> []) by (unfold tokens; discriminate).
  destruct (frame_run (S (subs tokens)) tokens ltac:(lia) [] 0 (no_flags, no_flags) [] [] false room)
    as (k & log1 & thr1 & room1 & at1 & Hk1 & Hk2 & Hlog1 & Hr1 & Hr2 & Hrun).
  { unfold pend. simpl. lia. }
  { lia. }
  replace (2 * subs tokens + 2) with (k + (2 * subs tokens + 2 - k)) by lia.
  rewrite runm_add. rewrite Hrun. clear Hrun.
  change (erase [] ++ fst (spec_list 0 tokens)) with (fst (spec_list 0 tokens)) in Hlog1.
  destruct (spec_list 0 tokens) as [lg [o|strs]] eqn:Hsp; cbv beta iota; simpl fst in *; simpl snd in *.
  - rewrite (finish_inl _ _ _ _ _ Hd0 Hne). rewrite runm_done. exists log1. split; [reflexivity|exact Hlog1].
  - rewrite (finish_inr _ _ _ _ _ Hd0 Hne).
    destruct (final_eval_root strs at1 log1 thr1 room1 false) as (log2 & thr2 & room2 & ign2 & ra2 & Hfe & Hlog2).
    change ([] ++ strs) with strs. rewrite Hfe. exists log2.
    destruct (snd (fin_spec false strs)) as [[s|]|o]; simpl; rewrite runm_done; (split; [reflexivity|]);
      rewrite Hlog2, Hlog1; reflexivity.
Qed.
End Refine.
