(* C14/Model.v — executable model of nested-command evaluation and command
   dispatch: src/callbacks.py NestedCommandsIrcProxy (__init__, evalArgs,
   finalEval, findCallbacksForArgs, reply/noReply/error on a non-final proxy),
   Commands.getCommand / getCommandMethod / isCommandMethod / isDisabled,
   DisabledCommands, canonicalName, and the defaultPlugins table registered by
   plugins/Owner/plugin.py.  No proofs in this file.

   The evaluation machine keeps the chain of proxy objects as a stack of
   frames (innermost first).  A proxy's (args, counter) pair is kept as a
   cursor: [f_done] = args[:counter], [f_rest] = args[counter:];
   `args[counter] = s` is "replace the head of f_rest", `args.pop(counter)` is
   "drop the head of f_rest", `counter += 1` moves the head over.
   One machine step = one call of evalArgs (scan, then spawn a child proxy or
   finalEval + the command + the reply/noReply/error it performs, which ends in
   the parent's next evalArgs call).  The Python call stack only ever unwinds
   without effect after such a step (every evalArgs returns right after
   spawning), EXCEPT that it is finite: [budget] is the oracle "how many
   proxies (the root one included) the Python stack has room for in one thread"; when it is
   exhausted the RecursionError is swallowed by the _callCommand firewall and
   the evaluation is silently abandoned (outcome OAbandoned). *)
From Coq Require Import List NArith ZArith Bool Arith.
Import ListNotations.
Require Import Base.Wire Base.PyStr.
Require gen.T14.
Open Scope N_scope.

(* ---- tokens: callbacks.tokenize output ---- *)
Inductive arg : Type :=
| AStr (s : str)
| ASub (l : list arg).

(* ---- canonicalName ---- *)
Definition special : list N := gen.T14.CANON_SPECIAL ++ [32].
Definition lower1 (c : N) : N := if (65 <=? c) && (c <=? 90) then c + 32 else c.
Definition canon (s : str) : str :=
  let body := rstrip special s in
  let reAppend := skipn (length body) s in
  map lower1 (filter (fun c => negb (mem c special)) body) ++ reAppend.
(* str.lower() for plugin-name lookup in irc.getCallback *)
Definition lower (s : str) : str := map lower1 s.

(* ---- plugins as dispatch sees them ---- *)
Record group := Group { g_name : str; g_meths : list str }.
Record plug := Plug { p_name : str; p_meths : list str; p_groups : list group; p_threaded : bool }.

(* DisabledCommands: self.everywhere (canonical command names disabled in every plugin) and
   self.d (canonical command -> set of canonical plugin names); the two are independent *)
Record dis := Dis { d_all : list str; d_per : list (str * list str) }.
Definition dis_empty : dis := Dis [] [].
Definition memG (k : str) (G : list str) : bool := existsb (seq_eqb k) G.
Definition per_has (q k : str) (per : list (str * list str)) : bool :=
  match dict_get k per with
  | Some set => existsb (seq_eqb q) set
  | None => false
  end.

Definition dis_disabled (d : dis) (command plugin : str) : bool :=
  memG (canon command) (d_all d) || per_has (canon plugin) (canon command) (d_per d).

Definition set_add (q : str) (set : list str) : list str := if existsb (seq_eqb q) set then set else set ++ [q].
Definition set_remove (q : str) (set : list str) : list str := filter (fun x => negb (seq_eqb q x)) set.

Definition dis_add (d : dis) (command : str) (plugin : option str) : dis :=
  match plugin with
  | None => Dis (set_add (canon command) (d_all d)) (d_per d)
  | Some p =>
      Dis (d_all d)
          (match dict_get (canon command) (d_per d) with
           | Some set => dict_set (canon command) (set_add (canon p) set) (d_per d)
           | None => dict_set (canon command) [canon p] (d_per d)
           end)
  end.

(* DisabledCommands.remove: set.remove / dict lookup raise KeyError when the entry is missing *)
Definition dis_remove (d : dis) (command : str) (plugin : option str) : res dis :=
  match plugin with
  | None =>
      if memG (canon command) (d_all d) then Ok (Dis (set_remove (canon command) (d_all d)) (d_per d))
      else Raise KeyError
  | Some p =>
      match dict_get (canon command) (d_per d) with
      | None => Raise KeyError
      | Some set =>
          if existsb (seq_eqb (canon p)) set
          then Ok (Dis (d_all d) (dict_set (canon command) (set_remove (canon p) set) (d_per d)))
          else Raise KeyError
      end
  end.

(* ---- Owner.disable / Owner.enable as operations on (Commands._disabled, supybot.commands.disabled) ----
   [plugin] is cb.name() of the plugin the `plugin` converter found, [c] the canonical command name
   produced by the `commandName` converter. *)
Inductive op : Type :=
| ODisable (plugin : option str) (c : str)
| OEnable (plugin : option str) (c : str).

Definition forbidden (c : str) : bool := existsb (seq_eqb c) gen.T14.UNDISABLABLE.

Record ostate := OState { o_d : dis; o_conf : list str }.   (* conf: the CanonicalNameSet behind supybot.commands.disabled *)

Definition conf_key (plugin : option str) (c : str) : str :=
  canon (match plugin with Some p => p ++ [46] ++ c | None => c end).   (* '%s.%s' % (plugin.name(), command) *)
Definition conf_has (k : str) (conf : list str) : bool := existsb (seq_eqb k) conf.
Definition conf_add (k : str) (conf : list str) : list str := if conf_has k conf then conf else conf ++ [k].
Definition conf_remove (k : str) (conf : list str) : list str := filter (fun x => negb (seq_eqb k x)) conf.

(* DisabledCommands.__init__: the table built from supybot.commands.disabled when the bot starts
     for name in conf.supybot.commands.disabled():
         if '.' in name: (plugin, command) = name.split('.', 1); self.add(command, plugin)
         else: self.add(name)
   The registry keeps CanonicalString values, so the plugin part arrives canonical ('misc'), whereas isDisabled asks
   with the class name ('Misc'): the per-command sets must compare canonically (CanonicalNameSet). *)
Definition dis_of_conf (conf : list str) : dis :=
  fold_left (fun d name => match split1 [46] name with
                           | Some (plugin, command) => dis_add d command (Some plugin)
                           | None => dis_add d name None
                           end) conf dis_empty.
(* restart: registry value written and read back (canonical strings), a fresh DisabledCommands *)
Definition restart (st : ostate) : ostate := OState (dis_of_conf (o_conf st)) (o_conf st).

Section OwnerOps.
Variable has_cmd : str -> str -> bool.   (* plugin name, command: a canonical command method of that plugin exists *)

(* returns the new state and whether replySuccess (true) or irc.error (false) was sent *)
Definition owner_step (st : ostate) (o : op) : ostate * bool :=
  match o with
  | ODisable plugin c =>
      if forbidden c then (st, false)
      else match plugin with
           | Some p =>
               if negb (dis_disabled (o_d st) c p) && has_cmd p c            (* plugin.isCommand(command) *)
               then (OState (dis_add (o_d st) c (Some p)) (conf_add (conf_key plugin c) (o_conf st)), true)
               else (st, false)
           | None => (OState (dis_add (o_d st) c None) (conf_add (conf_key None c) (o_conf st)), true)
           end
  | OEnable plugin c =>
      match dis_remove (o_d st) c plugin with                                (* in-memory table first ... *)
      | Raise _ => (st, false)
      | Ok d' =>
          if conf_has (conf_key plugin c) (o_conf st)                        (* ... then the registry value *)
          then (OState d' (conf_remove (conf_key plugin c) (o_conf st)), true)
          else (OState d' (o_conf st), false)                               (* KeyError: reported as refused, d' stays (unreachable while table and registry agree) *)
      end
  end.

Definition owner_run (st : ostate) (ops : list op) : ostate :=
  fold_left (fun s o => fst (owner_step s o)) ops st.

(* ---- documented semantics: disabled everywhere until enabled everywhere, disabled in a plugin until
   enabled in that plugin, a refused operation changes nothing ---- *)
Record sstate := SState { s_G : list str; s_P : list (str * str) }.   (* canonical names *)
Definition memP (q k : str) (P : list (str * str)) : bool :=
  existsb (fun e => seq_eqb q (fst e) && seq_eqb k (snd e)) P.
Definition anyP (k : str) (P : list (str * str)) : bool := existsb (fun e => seq_eqb k (snd e)) P.
Definition spec_disabled (S : sstate) (c p : str) : bool :=
  memG (canon c) (s_G S) || memP (canon p) (canon c) (s_P S).

Definition spec_step (S : sstate) (o : op) : sstate * bool :=
  match o with
  | ODisable None c =>
      if forbidden c then (S, false) else (SState (canon c :: s_G S) (s_P S), true)
  | ODisable (Some p) c =>
      if forbidden c then (S, false)
      else if negb (spec_disabled S c p) && has_cmd p c
           then (SState (s_G S) ((canon p, canon c) :: s_P S), true) else (S, false)
  | OEnable None c =>
      if memG (canon c) (s_G S)
      then (SState (filter (fun x => negb (seq_eqb (canon c) x)) (s_G S)) (s_P S), true) else (S, false)
  | OEnable (Some p) c =>
      if memP (canon p) (canon c) (s_P S)
      then (SState (s_G S) (filter (fun e => negb (seq_eqb (canon p) (fst e) && seq_eqb (canon c) (snd e))) (s_P S)), true)
      else (S, false)
  end.
Definition spec_run (S : sstate) (ops : list op) : sstate := fold_left (fun s o => fst (spec_step s o)) ops S.

End OwnerOps.

Record env := Env {
  e_cbs : list plug;                 (* irc.callbacks, in order *)
  e_dis : dis;                       (* Commands._disabled *)
  e_defaults : list (str * str);     (* supybot.commands.defaultPlugins.<command> *)
  e_important : list str             (* defaultPlugins.importantPlugins *)
}.

Section Dispatch.
Variable E : env.

(* Commands.isCommandMethod for a Commands object called [owner] with command methods [meths] *)
Definition is_cmd (owner : str) (meths : list str) (name : str) : bool :=
  negb (dis_disabled (e_dis E) name owner) && seq_eqb name (canon name) && existsb (seq_eqb name) meths.

Definition nonnil {A} (l : list A) : bool := match l with [] => false | _ => true end.

(* Commands.getCommand of a sub-callback (a Commands object without sub-callbacks) *)
Definition g_getCommand (g : group) (args : list str) : list str :=
  match args with
  | [] => []                                   (* args[0] on an empty list is guarded by the caller *)
  | first :: rest =>
      let ret :=
        if seq_eqb first (canon (g_name g)) && nonnil rest then
          match rest with
          | r1 :: _ => if is_cmd (g_name g) (g_meths g) r1 then [r1] else []
          | [] => []
          end
        else [] in
      match ret with
      | _ :: _ => first :: ret
      | [] => if is_cmd (g_name g) (g_meths g) first then [first] else []
      end
  end.

Definition find_group (p : plug) (first : str) : option group :=
  find (fun g => seq_eqb first (canon (g_name g))) (p_groups p).

(* plugin.getCommand(args, stripOwnName=False) *)
Definition p_getCommand_ns (p : plug) (args : list str) : list str :=
  match args with
  | [] => []
  | first :: _ =>
      match find_group p first with
      | Some g => g_getCommand g args
      | None => if is_cmd (p_name p) (p_meths p) first then [first] else []
      end
  end.

(* plugin.getCommand(args) *)
Definition p_getCommand (p : plug) (args : list str) : list str :=
  match args with
  | [] => []
  | first :: rest =>
      match find_group p first with
      | Some g => g_getCommand g args
      | None =>
          let ret := if seq_eqb first (canon (p_name p)) && nonnil rest
                     then p_getCommand_ns p rest else [] in
          match ret with
          | _ :: _ => first :: ret
          | [] => if is_cmd (p_name p) (p_meths p) first then [first] else []
          end
      end
  end.

Fixpoint lseq_eqb (a b : list str) : bool :=
  match a, b with
  | [], [] => true
  | x :: a', y :: b' => seq_eqb x y && lseq_eqb a' b'
  | _, _ => false
  end.

(* the loop of findCallbacksForArgs.  `L >= maxL` compares two prefixes of the
   same list, i.e. their lengths (as the source comment says) *)
Fixpoint fc_loop (cbs : list plug) (cargs : list str) (maxL : list str) (acc : list (plug * list str))
  : list str * list (plug * list str) :=
  match cbs with
  | [] => (maxL, acc)
  | cb :: cbs' =>
      let L := p_getCommand cb cargs in
      if nonnil L && (length maxL <=? length L)%nat
      then fc_loop cbs' cargs L (acc ++ [(cb, L)])
      else fc_loop cbs' cargs maxL acc
  end.

Definition name_eq_canon (c : str) (p : plug) : bool := seq_eqb (canon (p_name p)) c.

(* irc.getCallback(name): first callback whose lower-cased name matches *)
Definition get_callback (name : str) : option plug :=
  find (fun p => seq_eqb (lower (p_name p)) (lower name)) (e_cbs E).

Definition findCallbacksForArgs (args : list str) : list str * list plug :=
  let cargs := map canon args in
  let '(maxL, acc) := fc_loop (e_cbs E) cargs [] [] in
  let cbs := map fst (filter (fun cl => lseq_eqb (snd cl) maxL) acc) in
  match maxL with
  | [c] =>
      match find (name_eq_canon c) cbs with
      | Some cb => (maxL, [cb])                                  (* 1. plugin named like the command *)
      | None =>
          let by_default :=
            match dict_get c (e_defaults E) with                 (* 2. defaultPlugins.<command> *)
            | Some ((_ :: _) as dp) =>
                match get_callback dp with
                | Some cb => find (fun q => seq_eqb (p_name q) (p_name cb)) cbs   (* `if cb in cbs` *)
                | None => None
                end
            | _ => None
            end in
          match by_default with
          | Some cb => (maxL, [cb])
          | None =>
              let important := map canon (e_important E) in      (* 3. exactly one important plugin *)
              let importants := filter (fun cb => existsb (seq_eqb (canon (p_name cb))) important) cbs in
              match importants with
              | [_] => (maxL, importants)
              | _ => (maxL, cbs)
              end
          end
      end
  | _ => (maxL, cbs)
  end.

(* Commands.getCommandMethod: which method object runs: (sub-callback name or [], method name) *)
Definition g_resolve (g : group) (command : list str) : option (str * str) :=
  match command with
  | [c] => Some (g_name g, c)
  | [_; c] => Some (g_name g, c)
  | _ => None
  end.
Definition p_resolve (p : plug) (command : list str) : option (str * str) :=
  match command with
  | [] => None
  | c0 :: rest =>
      match find_group p c0 with
      | Some g => g_resolve g command
      | None =>
          match rest with
          | [] => Some ([], c0)
          | c1 :: rest' =>
              match find_group p c1 with
              | Some g => g_resolve g rest
              | None => match rest' with [] => Some ([], c1) | _ => None end
              end
          end
      end
  end.
End Dispatch.

(* ---- what running a command does ---- *)
Inductive outcome : Type :=
| OReply (s : str)                 (* the root command replied s *)
| OError (s : str)                 (* irc.error(s) reached the real Irc (nothing is sent when s = '') *)
| ONone                            (* the root command called noReply *)
| OStall                           (* a command returned without reply/noReply/error: nobody continues *)
| OAmbiguous (cmd : list str) (names : list str)
| OInvalid (toks : list str)       (* _callInvalidCommands *)
| OTooDeep                         (* nesting refusal *)
| OAbandoned                       (* Python stack exhausted, exception swallowed *)
| OForeign.                        (* a command of a real (non-synthetic) plugin was selected: not followed *)

Inductive sres : Type :=
| SVal (v : option str)            (* reply s  /  noReply *)
| SStop (o : outcome).

(* the keyword arguments of irc.reply that stick to a proxy: self.action, self.noLengthCheck, self.notice,
   self.private, self.to ([] = None).  (prefixNick is not modelled: the test traffic is a private query.) *)
Record rflags := RFlags { rf_action : bool; rf_nolen : bool; rf_notice : bool; rf_private : bool; rf_to : str }.
Definition no_flags : rflags := RFlags false false false false [].

(* NestedCommandsIrcProxy.reply(s, noLengthCheck=, action=, notice=, private=, to=): the updates made before
   anything else, on a proxy whose attributes are [a]:
     if action is not None: self.action = self.action or action
     if notice is not None: self.notice = self.notice or notice
     if private is not None: self.private = self.private or private
     self._getTarget(to): if to is not None: self.to = self.to or to
     self.noLengthCheck = noLengthCheck or self.noLengthCheck or self.action *)
Definition merge_attrs (a f : rflags) : rflags :=
  let action := rf_action a || rf_action f in
  RFlags action (rf_nolen f || rf_nolen a || action) (rf_notice a || rf_notice f) (rf_private a || rf_private f)
         (match rf_to a with [] => rf_to f | t => t end).

(* one executed command: who, with what, in which thread; the proxy's sticky reply attributes when the command
   starts (inherited from its sub-commands' replies) and those its own reply is made with *)
Record call := Call { c_plugin : str; c_cmd : list str; c_args : list str; c_thr : bool; c_attrs : rflags; c_rattrs : rflags }.

(* finalEval of a proxy whose args are the strings [strs] (non-empty):
   the call that is logged (if a command method runs), whether the selected
   plugin is threaded, and the effect on the proxy chain *)
Record finalres := FinalRes {
  fr_call : option (str * list str * list str);
  fr_threaded : bool;
  fr_tag : bool;                   (* the command does msg.tag('ignored') before replying / noReply (Utilities.ignore) *)
  fr_flags : rflags;               (* keyword arguments of its irc.reply call *)
  fr_res : sres }.

Record config := Config {
  k_maxnest : nat;                 (* supybot.commands.nested.maximum *)
  k_budget : nat;                  (* oracle: proxies (root included) the Python stack can hold *)
  k_on_empty : sres                (* getCommand([]) raises IndexError inside the running command:
                                      _callCommand turns it into replyError (a reply!) or, with
                                      reply.error.detailed, into irc.error *)
}.

Section Machine.
Variable final : list str -> finalres.
Variable K : config.

(* f_attrs: (the proxy's sticky reply attributes, those of the sub-command proxy that last called noReply on it) *)
Record frame := Frame { f_done : list str; f_rest : list arg; f_nested : nat; f_attrs : rflags * rflags }.

Record mstate := MState {
  m_stack : list frame;            (* innermost proxy first *)
  m_log : list call;
  m_thr : bool;                    (* running in a CommandThread *)
  m_room : nat;                    (* budget left on the current Python stack *)
  m_ign : bool                     (* msg.tags['ignored'] (one IrcMsg per command line, shared by all proxies) *)
}.

Inductive status : Type :=
| Running (st : mstate)
| Done (log : list call) (o : outcome).

Definition too_deep (nested : nat) : bool :=
  negb (Nat.eqb (k_maxnest K) 0) && (k_maxnest K <? nested)%nat.

(* NestedCommandsIrcProxy.__init__(irc=parent chain, args, nested) *)
Definition construct (stack : list frame) (log : list call) (thr : bool) (room : nat) (ign : bool)
           (args : list arg) (nested : nat) : status :=
  if too_deep nested then Done log OTooDeep
  else match room with
       | O => Done log OAbandoned
       | S room' =>
           match args with
           | [] => Done log (OInvalid [])
           | _ => Running (MState (Frame [] args nested (no_flags, no_flags) :: stack) log thr room' ign)   (* _resetReplyAttributes *)
           end
       end.

(* parent.reply(s) / parent.noReply() on a non-final proxy; at the root: the real Irc.
   reply:   if msg.ignored: self.args.pop(self.counter); msg.tag('ignored', False)
            else:           self.args[self.counter] = s
            self.evalArgs()
   noReply: self.args.pop(self.counter); msg.tag('ignored', False); self.evalArgs()
   so the tag is clear again whenever the parent's evalArgs starts. *)
Definition deliver (v : option str) (ra : rflags) (stack : list frame) (log : list call) (thr : bool) (room : nat) (ign : bool) : status :=
  match stack with
  | [] => Done log (match v with Some s => OReply s | None => ONone end)
  | p :: stack' =>
      let rest' := match v with
                   | Some s => if ign then tl (f_rest p)     (* msg.ignored: the reply is dropped, the bracket popped *)
                               else AStr s :: tl (f_rest p)  (* self.args[self.counter] = s *)
                   | None => tl (f_rest p)                   (* self.args.pop(self.counter) *)
                   end in
      let attrs' := match v with
                    | Some _ => (merge_attrs (fst (f_attrs p)) ra, snd (f_attrs p))   (* reply(s, noLengthCheck=, **replyArgs) *)
                    | None => (fst (f_attrs p), ra)
                    end in
      Running (MState (Frame (f_done p) rest' (f_nested p) attrs' :: stack') log thr room false)
  end.

Definition apply_res (r : sres) (ra : rflags) (stack : list frame) (log : list call) (thr : bool) (room : nat) (ign : bool) : status :=
  match r with
  | SStop o => Done log o
  | SVal v => deliver v ra stack log thr room ign
  end.

(* finalEval of the top proxy, its strings being [strs], its attributes [at]; [stack] = the proxies above it.
   The command's irc.reply(s, **flags) on this (finalEvaled) proxy first updates the sticky attributes, then
     if isinstance(self.irc, self.__class__): return self.irc.reply(s, noLengthCheck=self.noLengthCheck, **replyArgs)
     elif self.noLengthCheck: send directly         (root proxy only)
     else: length-checked send                      (root proxy only)
   i.e. a proxy with a parent ALWAYS hands the text to the parent, whatever the reply kind: that is [deliver]'s
   match on the stack; both root branches send one message carrying the attributes. *)
Definition final_eval (strs : list str) (at_ : rflags * rflags) (stack : list frame) (log : list call) (thr : bool) (room : nat) (ign : bool) : status :=
  match strs with
  | [] =>
      (* IndexError inside the sub-command that called noReply: its proxy replies the error text (replyError) with its
         own attributes, through this proxy *)
      apply_res (k_on_empty K) (merge_attrs (fst at_) (snd at_)) stack log thr room ign
  | _ =>
      let fr := final strs in
      let spawn := negb thr && fr_threaded fr in           (* world.isMainThread() and cb.threaded *)
      let thr' := thr || fr_threaded fr in
      let room' := if spawn then k_budget K else room in   (* a CommandThread starts on a fresh stack *)
      let ra := merge_attrs (fst at_) (fr_flags fr) in     (* the sticky updates at the top of reply() *)
      let log' := match fr_call fr with
                  | Some (p, c, a) => log ++ [Call p c a thr' (fst at_) ra]
                  | None => log
                  end in
      apply_res (fr_res fr) ra stack log' thr' room' (ign || fr_tag fr)   (* msg.tag('ignored') *)
  end.

(* the while loop of evalArgs over args[counter:] *)
Fixpoint scan (done : list str) (rest : list arg) : list str * list arg :=
  match rest with
  | AStr s :: rest' => scan (done ++ [s]) rest'
  | _ => (done, rest)
  end.

(* evalArgs of the innermost proxy *)
Definition eval_args (st : mstate) : status :=
  match m_stack st with
  | [] => Done (m_log st) OStall                             (* unreachable *)
  | f :: stack =>
      let '(done, rest) := scan (f_done f) (f_rest f) in
      match rest with
      | ASub sub :: _ =>
          construct (Frame done rest (f_nested f) (f_attrs f) :: stack) (m_log st) (m_thr st) (m_room st) (m_ign st)
                    sub (S (f_nested f))
      | _ => final_eval done (f_attrs f) stack (m_log st) (m_thr st) (m_room st) (m_ign st)
      end
  end.

Fixpoint runm (fuel : nat) (s : status) : status :=
  match fuel with
  | O => s
  | S fuel' => match s with
               | Done _ _ => s
               | Running st => runm fuel' (eval_args st)
               end
  end.

(* number of bracketed sub-commands *)
Fixpoint asubs (a : arg) : nat :=
  match a with
  | AStr _ => O
  | ASub l => S (list_sum (map asubs l))
  end.
Definition subs (l : list arg) : nat := list_sum (map asubs l).

(* the command trees outside finding C14.F22: at most STACK_SAFE_SUBS bracketed sub-commands, the number the
   Python stack is guaranteed to hold (recursion limit, frames per sub-command: table T14) *)
Definition in_domain (tokens : list arg) : bool := (subs tokens <=? gen.T14.STACK_SAFE_SUBS)%nat.
Definition stack_holds_domain : Prop := (gen.T14.STACK_SAFE_SUBS < k_budget K)%nat.

(* Owner.doPrivmsg: self.Proxy(irc, msg, tokens) *)
Definition machine (tokens : list arg) : status :=
  runm (2 * subs tokens + 2) (construct [] [] false (k_budget K) false tokens O).

(* ---- the functional specification: post-order, left to right, stop at the first stop ---- *)
Definition opt_list (v : option str) : list str := match v with Some s => [s] | None => [] end.

Definition entry := (str * list str * list str)%type.

(* what the proxy chain above gets from a command: a sub-command that tagged the message 'ignored'
   contributes nothing, whether it then replied or not; at the root the reply is sent as it is *)
Definition res_of (child : bool) (fr : finalres) : sres :=
  match fr_res fr with
  | SVal v => SVal (if child && fr_tag fr then None else v)
  | SStop o => SStop o
  end.

Definition finish (child : bool) (d : nat) (sub : list arg) (r : list entry * (outcome + list str)) : list entry * sres :=
  if too_deep d then ([], SStop OTooDeep)
  else match sub with
       | [] => ([], SStop (OInvalid []))
       | _ =>
           match r with
           | (lg, inl o) => (lg, SStop o)
           | (lg, inr []) => (lg, k_on_empty K)
           | (lg, inr strs) =>
               let fr := final strs in
               (lg ++ match fr_call fr with Some e => [e] | None => [] end, res_of child fr)
           end
       end.

(* evaluate the arguments left to right with [f], stop at the first stop *)
Definition spec_list_with (f : arg -> list entry * sres) : list arg -> list entry * (outcome + list str) :=
  fix go (l : list arg) : list entry * (outcome + list str) :=
  match l with
  | [] => ([], inr [])
  | a :: r =>
      match f a with
      | (lg1, SStop o) => (lg1, inl o)
      | (lg1, SVal v) =>
          match go r with
          | (lg2, inl o) => (lg1 ++ lg2, inl o)
          | (lg2, inr strs) => (lg1 ++ lg2, inr (opt_list v ++ strs))
          end
      end
  end.

(* one argument of a proxy whose nesting level is d: a string is its own value,
   a bracketed sub-command is evaluated (at level d+1) before anything to its right *)
Fixpoint spec_arg (d : nat) (a : arg) {struct a} : list entry * sres :=
  match a with
  | AStr s => ([], SVal (Some s))
  | ASub sub => finish true (S d) sub (spec_list_with (fun x => spec_arg (S d) x) sub)
  end.

Definition spec_list (d : nat) (l : list arg) := spec_list_with (fun x => spec_arg d x) l.

Definition eval_spec (tokens : list arg) : list entry * outcome :=
  match finish false O tokens (spec_list O tokens) with
  | (lg, SStop o) => (lg, o)
  | (lg, SVal (Some s)) => (lg, OReply s)
  | (lg, SVal None) => (lg, ONone)
  end.
End Machine.

(* ---- synthetic command behaviours (the harness generates plugins from the same description) ---- *)
Inductive kind := KReply | KEcho | KSilent | KMute | KErr | KCrash | KForeign | KIgnore.

Record behs := Behs {
  b_table : list (str * str * str * kind * rflags);   (* plugin name, sub-callback name or [], method -> kind, reply keywords *)
  b_detailed : bool;                         (* supybot.reply.error.detailed *)
  b_crash_text : str;                        (* supybot.replies.error *)
  b_indexerr : str                           (* utils.exnToString(IndexError) of args[0] on [] *)
}.

Definition kind_of (B : behs) (p g m : str) : kind :=
  match find (fun e => let '(p', g', m', _, _) := e in seq_eqb p p' && seq_eqb g g' && seq_eqb m m') (b_table B) with
  | Some (_, _, _, k, _) => k
  | None => KForeign
  end.
Definition flags_of (B : behs) (p g m : str) : rflags :=
  match find (fun e => let '(p', g', m', _, _) := e in seq_eqb p p' && seq_eqb g g' && seq_eqb m m') (b_table B) with
  | Some (_, _, _, _, f) => f
  | None => no_flags
  end.

Definition DOT : N := 46. Definition LPAR : N := 40. Definition RPAR : N := 41. Definition COMMA : N := 44.
Definition E_DASH : str := [69; 45].                 (* "E-" *)
Definition VALUEERROR : str := [86; 97; 108; 117; 101; 69; 114; 114; 111; 114; 58; 32; 98; 111; 111; 109; 45]. (* "ValueError: boom-" *)

Definition crash_res (B : behs) (exn_text : str) : sres :=
  if b_detailed B then SStop (OError exn_text) else SVal (Some (b_crash_text B)).

Definition final_of (E : env) (B : behs) (strs : list str) : finalres :=
  let '(command, cbs) := findCallbacksForArgs E strs in
  match cbs with
  | [] => FinalRes None false false no_flags (SStop (OInvalid strs))
  | [cb] =>
      let args := skipn (length command) strs in
      match p_resolve cb command with
      | None => FinalRes None false false no_flags (SStop OForeign)
      | Some (g, m) =>
          let owner := match g with [] => p_name cb | _ => p_name cb ++ [DOT] ++ g end in
          let r := match kind_of B (p_name cb) g m with
                   | KReply => SVal (Some (owner ++ [DOT] ++ m ++ [LPAR] ++ join [COMMA] args ++ [RPAR]))
                   | KEcho => SVal (Some (join [32] args))
                   | KSilent => SVal None
                   | KMute => SStop OStall
                   | KErr => SStop (OError (E_DASH ++ m))
                   | KCrash => crash_res B (VALUEERROR ++ m)
                   | KForeign => SStop OForeign
                   | KIgnore => SVal None                                  (* msg.tag('ignored'); irc.noReply() *)
                   end in
          FinalRes (Some (p_name cb, command, args)) (p_threaded cb)
                   (match kind_of B (p_name cb) g m with KIgnore => true | _ => false end)
                   (match kind_of B (p_name cb) g m with KReply | KEcho => flags_of B (p_name cb) g m | _ => no_flags end) r
      end
  | _ => FinalRes None false false no_flags (SStop (OAmbiguous command (map p_name cbs)))
  end.

(* ---- wire ---- *)
Fixpoint gArg (fuel : nat) (v : value) : arg :=
  match fuel with
  | O => AStr []
  | S fuel' =>
      match gN (nth_v 0 v) with
      | 0 => AStr (gS (nth_v 1 v))
      | _ => ASub (map (gArg fuel') (gL (nth_v 1 v)))
      end
  end.
Fixpoint vdepth (v : value) : nat :=
  match v with
  | I _ => O
  | L l => S (fold_right (fun x acc => Nat.max (vdepth x) acc) O l)
  end.
Definition gArgs (v : value) : list arg := map (gArg (vdepth v)) (gL v).

Definition gGroup (v : value) : group := Group (gS (nth_v 0 v)) (gLS (nth_v 1 v)).
Definition gPlug (v : value) : plug :=
  Plug (gS (nth_v 0 v)) (gLS (nth_v 1 v)) (map gGroup (gL (nth_v 2 v))) (gB (nth_v 3 v)).
Definition gKind (v : value) : kind :=
  match gN v with 0 => KReply | 1 => KEcho | 2 => KSilent | 3 => KMute | 4 => KErr | 5 => KCrash | 7 => KIgnore | _ => KForeign end.

(* env: (plugins, disable-ops [(command, () | (plugin))], extra defaults [(command, plugin)], important) *)
Definition gEnv (v : value) : env :=
  Env (map gPlug (gL (nth_v 0 v)))
      (* entries of supybot.commands.disabled in the configuration file, read when the bot starts *)
      (dis_of_conf (fold_left (fun conf op => conf_add (conf_key (gO gS (nth_v 1 op)) (gS (nth_v 0 op))) conf) (gL (nth_v 1 v)) []))
      (fold_left (fun d kv => dict_set (gS (nth_v 0 kv)) (gS (nth_v 1 kv)) d) (gL (nth_v 2 v)) gen.T14.OWNER_DEFAULTS)
      (gLS (nth_v 3 v)).
Definition gFlags (v : value) : rflags :=
  RFlags (gB (nth_v 0 v)) (gB (nth_v 1 v)) (gB (nth_v 2 v)) (gB (nth_v 3 v)) (gS (nth_v 4 v)).
Definition vFlags (f : rflags) : value :=
  L [vB (rf_action f); vB (rf_nolen f); vB (rf_notice f); vB (rf_private f); vS (rf_to f)].
Definition gBehs (v : value) : behs :=
  Behs (map (fun e => (gS (nth_v 0 e), gS (nth_v 1 e), gS (nth_v 2 e), gKind (nth_v 3 e), gFlags (nth_v 4 e))) (gL (nth_v 0 v)))
       (gB (nth_v 1 v)) (gS (nth_v 2 v)) (gS (nth_v 3 v)).

Definition nat_of (v : value) : nat := N.to_nat (gN v).
Definition vNat (n : nat) : value := vN (N.of_nat n).

Definition vOutcome (o : outcome) : value :=
  match o with
  | OReply s => L [vN 0; vS s]      (* the harness applies _makeReply's empty-text rule, which depends on the reply kind *)
  | OError s => L [vN 1; vS (match s with [] => [] | _ => gen.T14.ERROR_PREFIX ++ s end)]
  | ONone => L [vN 2]
  | OStall => L [vN 3]
  | OAmbiguous cmd names => L [vN 4; vLS cmd; vLS names]
  | OInvalid toks => L [vN 5; vLS toks]
  | OTooDeep => L [vN 1; vS (gen.T14.ERROR_PREFIX ++ gen.T14.TOO_DEEP_MSG)]
  | OAbandoned => L [vN 7]
  | OForeign => L [vN 8]
  end.
Definition vCall (c : call) : value := L [vS (c_plugin c); vLS (c_cmd c); vLS (c_args c); vB (c_thr c); vFlags (c_attrs c); vFlags (c_rattrs c)].
Definition vEntry (e : entry) : value := let '(p, c, a) := e in L [vS p; vLS c; vLS a].
Definition vStatus (s : status) : value :=
  match s with
  | Done log o => L [vN 0; L (map vCall log); vOutcome o;
                     vFlags (match rev log with c :: _ => c_rattrs c | [] => no_flags end)]   (* the root command's reply attributes *)
  | Running st => L [vN 1; L (map vCall (m_log st))]            (* fuel exhausted: never for machine *)
  end.

(* history steps: (0 plugin? cmd) disable, (1 plugin? cmd) enable, (2 strs) a flat command line, (3) restart, (4 names) config *)
Definition has_cmd_of (cbs : list plug) (p c : str) : bool :=
  match find (fun q => seq_eqb (p_name q) p) cbs with
  | Some q => seq_eqb c (canon c) && existsb (seq_eqb c) (p_meths q)
  | None => false
  end.
Definition vDis (d : dis) : value := L [vLS (d_all d); L (map (fun kv => L [vS (fst kv); vLS (snd kv)]) (d_per d))].

Definition S_DISABLE : str := [100; 105; 115; 97; 98; 108; 101].   (* "disable" *)
Definition S_ENABLE : str := [101; 110; 97; 98; 108; 101].           (* "enable" *)
Definition S_OWNER : str := [79; 119; 110; 101; 114].                (* "Owner" *)
Fixpoint hist_run (E : env) (B : behs) (K : config) (st : ostate) (steps : list value) : list value :=
  match steps with
  | [] => []
  | s :: steps' =>
      match gN (nth_v 0 s) with
      | 2 =>
          let E' := Env (e_cbs E) (o_d st) (e_defaults E) (e_important E) in
          vStatus (machine (final_of E' B) K (map AStr (gLS (nth_v 1 s)))) :: hist_run E B K st steps'
      | 3 =>
          let st' := restart st in
          L [vB true; vDis (o_d st'); vLS (o_conf st')] :: hist_run E B K st' steps'
      | 4 =>
          (* `config supybot.commands.disabled <names>`: the registry value (a set of canonical strings) is replaced and
             its callback builds a fresh DisabledCommands from it *)
          let conf := fold_left (fun cf n => conf_add (canon n) cf) (gLS (nth_v 1 s)) [] in
          let st' := OState (dis_of_conf conf) conf in
          L [vB true; vDis (o_d st'); vLS (o_conf st')] :: hist_run E B K st' steps'
      | tag =>
          (* Owner's own `disable` / `enable` are commands like any other: when the table disables them (possible through
             `config supybot.commands.disabled enable`, or `disable disable`) the line is an invalid command *)
          let own := match tag with 0 => S_DISABLE | _ => S_ENABLE end in
          if dis_disabled (o_d st) own S_OWNER
          then L [vB false; vDis (o_d st); vLS (o_conf st)] :: hist_run E B K st steps'
          else
          let o := (match tag with 0 => ODisable | _ => OEnable end) (gO gS (nth_v 1 s)) (gS (nth_v 2 s)) in
          let '(st', ok) := owner_step (has_cmd_of (e_cbs E)) st o in
          L [vB ok; vDis (o_d st'); vLS (o_conf st')] :: hist_run E B K st' steps'
      end
  end.

(* run: (op payload)
   op 0: evaluate  payload = (env behs maxnest budget tokens) -> (machine status, spec log, spec outcome)
   op 1: dispatch  payload = (env strs) -> (maxL, names of cbs)
   op 2: canonicalName payload = str -> str
   op 3: history   payload = (env behs steps) -> per step: (ok, _disabled.d, conf list) | machine status *)
Definition run (v : value) : value :=
  let payload := nth_v 1 v in
  match gN (nth_v 0 v) with
  | 0 =>
      let E := gEnv (nth_v 0 payload) in
      let B := gBehs (nth_v 1 payload) in
      let K := Config (nat_of (nth_v 2 payload)) (nat_of (nth_v 3 payload)) (crash_res B (b_indexerr B)) in
      let toks := gArgs (nth_v 4 payload) in
      let sp := eval_spec (final_of E B) K toks in
      L [vStatus (machine (final_of E B) K toks); L (map vEntry (fst sp)); vOutcome (snd sp)]
  | 1 =>
      let E := gEnv (nth_v 0 payload) in
      let r := findCallbacksForArgs E (gLS (nth_v 1 payload)) in
      L [vLS (fst r); vLS (map p_name (snd r))]
  | 2 => vS (canon (gS payload))
  | 3 =>
      let E := gEnv (nth_v 0 payload) in
      let B := gBehs (nth_v 1 payload) in
      let K := Config gen.T14.NESTED_MAX_DEFAULT 50 (crash_res B (b_indexerr B)) in
      L (hist_run E B K (OState (e_dis E) []) (gL (nth_v 2 payload)))
  | _ => L []
  end.
