(* C14/Props.v — the property theorems, nothing else.
   Model: C14/Model.v (mirrors src/callbacks.py NestedCommandsIrcProxy + Commands dispatch).
   Proofs: Lemmas.v (refinement), Dispatch.v (dispatch, nesting limit), Witness.v (witnesses),
   History.v (disable/enable histories). *)
From Coq Require Import List NArith Arith.
Import ListNotations.
Require Import Base.Wire Base.PyStr C14.Model C14.Lemmas C14.Dispatch C14.Trace C14.Witness C14.History C14.Restart.
From Coq Require Import Sorting.Sorted.

(* Full statement: for every dispatch/behaviour function [final], configuration and command tree, the proxy
   machine ends, its call log (thread flags erased) and outcome are those of the post-order, left-to-right,
   stop-at-the-first-stop evaluator eval_spec.
   The pinned code violates it only through finding C14.F22: evalArgs re-enters itself once per evaluated
   sub-command and the Python stack is finite.  The domain excludes nothing else: in_domain tokens means at most
   T14.STACK_SAFE_SUBS (= (sys.getrecursionlimit() - 200) / 13 = 61) bracketed sub-commands, the number of proxies
   the stack is guaranteed to hold (stack_holds_domain K: the environment assumption, re-measured by the harness on
   every run); any nesting limit, any on-empty behaviour, any [final].  *)
Theorem C14_eval_refines_on_domain :
  forall final K tokens, stack_holds_domain K -> in_domain tokens = true ->
  exists log, machine final K tokens = Done log (snd (eval_spec final K tokens)) /\
              erase log = fst (eval_spec final K tokens).
Proof.
  intros final K tokens HK Hd. apply machine_refines.
  unfold stack_holds_domain in HK. unfold in_domain in Hd. apply Nat.leb_le in Hd. apply Nat.le_lt_trans with (1 := Hd). exact HK.
Qed.
Print Assumptions C14_eval_refines_on_domain.

(* ... more generally whenever the stack budget exceeds the number of sub-commands (the budget is an oracle) *)
Theorem C14_eval_refines_budget :
  forall final K tokens, (subs tokens < k_budget K)%nat ->
  exists log, machine final K tokens = Done log (snd (eval_spec final K tokens)) /\
              erase log = fst (eval_spec final K tokens).
Proof. exact machine_refines. Qed.
Print Assumptions C14_eval_refines_budget.

(* the first tree outside the domain, on a stack that just satisfies stack_holds_domain: STACK_SAFE_SUBS + 1 sibling
   sub-commands; the machine abandons the evaluation after STACK_SAFE_SUBS of them, the specification replies *)
Theorem C14_eval_refines_refuted :
  exists final K tokens, stack_holds_domain K /\ in_domain tokens = false /\
    forall log, machine final K tokens <> Done log (snd (eval_spec final K tokens)).
Proof.
  exists final0, K_edge, t_edge.
  destruct eval_refuted_edge as (H1 & H2 & _). split; [exact H1|]. split; [exact H2|].
  exact eval_refuted_edge_neq.
Qed.
Print Assumptions C14_eval_refines_refuted.

(* Exactly once, inner first, left to right -- at trace level.  [trace] lists, for the specification evaluator, the
   brackets (paths in the command tree, [] = the whole line) in the order in which their proxies reach finalEval,
   with the strings they hold then.  For every tree:
   - the paths are strictly increasing for [before] (q before q' iff q is inside q' or in a bracket to the left of
     the one holding q'): every sub-command body at most once, before the command containing it, siblings left to
     right; no path twice; only brackets of the tree;
   - if the evaluation yields a value (no error/ambiguity/invalid/mute/nesting stop), the trace IS the post-order
     enumeration: every one of the subs+1 brackets exactly once;
   - the call log of eval_spec is the projection of the trace (one call per event whose dispatch found a command),
     hence by C14_eval_refines_on_domain so is the machine's log. *)
Theorem C14_trace_exactly_once :
  forall final K tokens,
  StronglySorted before (map fst (trace final K tokens)) /\
  NoDup (map fst (trace final K tokens)) /\
  (forall q, In q (map fst (trace final K tokens)) -> In q (postorder tokens)) /\
  (forall v, snd (trace_res final K tokens) = SVal v ->
     map fst (trace final K tokens) = postorder tokens /\ length (trace final K tokens) = S (subs tokens)).
Proof. exact trace_exactly_once. Qed.
Print Assumptions C14_trace_exactly_once.

Theorem C14_trace_is_the_log :
  forall final K tokens, stack_holds_domain K -> in_domain tokens = true ->
  exists log, machine final K tokens = Done log (snd (eval_spec final K tokens)) /\
              erase log = calls_of final K (trace final K tokens) /\
              (forall v, snd (trace_res final K tokens) = SVal v ->
                 snd (eval_spec final K tokens) = match v with Some s => OReply s | None => ONone end).
Proof.
  intros final K tokens HK Hd. destruct (C14_eval_refines_on_domain final K tokens HK Hd) as (log & H1 & H2).
  destruct (trace_calls final K tokens) as (H3 & H4 & _).
  exists log. split; [exact H1|]. split; [rewrite H2; exact H3|exact H4].
Qed.
Print Assumptions C14_trace_is_the_log.

(* What a command is called with.  The final argument list of every proxy is the concatenation, in order, of what its
   arguments contribute (strings: themselves) ... *)
Theorem C14_args_are_children_values :
  forall final K d l lg strs, spec_list final K d l = (lg, inr strs) -> strs = flat_map (contributes final K d) l.
Proof. exact args_are_children_values. Qed.
Print Assumptions C14_args_are_children_values.

(* ... and a bracketed sub-command contributes exactly its reply (nothing for noReply), unless its command tagged the
   message 'ignored' (Utilities.ignore: msg.tag('ignored'); irc.noReply()), in which case it contributes nothing: the
   tag never outlives the sub-command, so every replying sibling's value reaches the parent.  Together with
   C14_eval_refines_on_domain / C14_trace_is_the_log (which hold for every [final], tagging ones included) the machine
   calls each command with exactly the values of its replying children, in order. *)
Theorem C14_bracket_contributes :
  forall final K d sub lg strs, too_deep K (S d) = false -> sub <> [] -> strs <> [] ->
  spec_list final K (S d) sub = (lg, inr strs) ->
  forall v, fr_res (final strs) = SVal v ->
  contributes final K d (ASub sub) = if fr_tag (final strs) then [] else opt_list v.
Proof. exact bracket_contributes. Qed.
Print Assumptions C14_bracket_contributes.

(* The reply kind is irrelevant: two behaviour functions that agree on what is called, on the 'ignored' tag and on the
   replied value -- and differ only in the keyword arguments of irc.reply (action, noLengthCheck, notice, private, to) --
   give the same specification result and, on the domain, the same machine outcome and the same calls with the same
   arguments: a sub-command's value reaches its parent whatever reply kind it used (a proxy with a parent always
   hands the text to the parent; the noLengthCheck test comes second and only concerns the root). *)
Theorem C14_reply_kind_irrelevant :
  forall f1 f2 K tokens,
  (forall strs, fr_call (f1 strs) = fr_call (f2 strs) /\ fr_tag (f1 strs) = fr_tag (f2 strs) /\ fr_res (f1 strs) = fr_res (f2 strs)) ->
  stack_holds_domain K -> in_domain tokens = true ->
  eval_spec f1 K tokens = eval_spec f2 K tokens /\
  exists log1 log2 o, machine f1 K tokens = Done log1 o /\ machine f2 K tokens = Done log2 o /\ erase log1 = erase log2.
Proof.
  intros f1 f2 K tokens Hs HK Hd. pose proof (eval_spec_ext f1 f2 K Hs tokens) as He. split; [exact He|].
  destruct (C14_eval_refines_on_domain f1 K tokens HK Hd) as (l1 & H1 & H2).
  destruct (C14_eval_refines_on_domain f2 K tokens HK Hd) as (l2 & H3 & H4).
  exists l1, l2, (snd (eval_spec f1 K tokens)). split; [exact H1|]. split; [rewrite He; exact H3|].
  rewrite H2, H4, He. reflexivity.
Qed.
Print Assumptions C14_reply_kind_irrelevant.

(* the post-order enumeration itself: sorted for [before] (so duplicate-free) and of length subs + 1 *)
Theorem C14_postorder :
  forall tokens, StronglySorted before (postorder tokens) /\ length (postorder tokens) = S (subs tokens) /\
                 forall q, ~ before q q.
Proof. intro tokens. split; [apply postorder_sorted|]. split; [apply postorder_length|apply before_irrefl]. Qed.
Print Assumptions C14_postorder.

(* A bracket nested deeper than nested.maximum stops the evaluation: neither it nor any command containing it runs
   (the specification never reaches the root command's finalEval). *)
Theorem C14_nesting_limit :
  forall final K tokens, ldeep K 0 tokens = true ->
  exists lg o, spec_list final K 0 tokens = (lg, inl o) /\ eval_spec final K tokens = (lg, o).
Proof. exact nesting_limit. Qed.
Print Assumptions C14_nesting_limit.

(* Each finalEval calls into at most one plugin, the single one findCallbacksForArgs selected,
   with the arguments left after the matched command. *)
Theorem C14_dispatch_unique :
  forall E B strs p c a, fr_call (final_of E B strs) = Some (p, c, a) ->
  exists cb, findCallbacksForArgs E strs = (c, [cb]) /\ p = p_name cb /\ a = skipn (length c) strs.
Proof. exact dispatch_unique. Qed.
Print Assumptions C14_dispatch_unique.

(* When two or more plugins remain, nothing runs and the ambiguity is reported with their names. *)
Theorem C14_ambiguous :
  forall E B strs command cb1 cb2 cbs, findCallbacksForArgs E strs = (command, cb1 :: cb2 :: cbs) ->
  fr_call (final_of E B strs) = None /\
  fr_res (final_of E B strs) = SStop (OAmbiguous command (map p_name (cb1 :: cb2 :: cbs))).
Proof. exact ambiguous_runs_nothing. Qed.
Print Assumptions C14_ambiguous.

(* Every selected plugin really answers getCommand with the selected command. *)
Theorem C14_selected_has_command :
  forall E strs cb, In cb (snd (findCallbacksForArgs E strs)) ->
  p_getCommand E cb (map canon strs) = fst (findCallbacksForArgs E strs) /\ fst (findCallbacksForArgs E strs) <> [].
Proof. exact selected_has_command. Qed.
Print Assumptions C14_selected_has_command.

(* A command disabled everywhere is never the command selected to run, whatever the plugins, defaults, arguments. *)
Theorem C14_disabled :
  forall E strs x cb, memG (canon x) (d_all (e_dis E)) = true ->
  In cb (snd (findCallbacksForArgs E strs)) -> last (fst (findCallbacksForArgs E strs)) [] <> x.
Proof. exact disabled_never_selected. Qed.
Print Assumptions C14_disabled.

(* `<plugin> <command> ...` selects exactly that plugin -- whatever other plugins, commands, defaults, important
   plugins, disabled lists and further arguments -- whenever the plugin has the (enabled, canonical) command, is loaded
   once, and no sub-callback of any loaded plugin carries the plugin's name (nor one of its own the command's name,
   which Python excludes: one attribute cannot be both).  The name clash is finding C14.F23 and the refuting witness. *)
Theorem C14_qualified_on_domain :
  forall E p l1 l2 a0 a1 rest pn c,
  e_cbs E = l1 ++ p :: l2 ->
  canon a0 = pn -> canon a1 = c -> canon (p_name p) = pn ->
  find_group p pn = None -> find_group p c = None ->
  is_cmd E (p_name p) (p_meths p) c = true ->
  (forall q, In q (l1 ++ l2) -> canon (p_name q) <> pn /\ find_group q pn = None) ->
  findCallbacksForArgs E (a0 :: a1 :: rest) = ([pn; c], [p]).
Proof. exact qualified_reaches. Qed.
Print Assumptions C14_qualified_on_domain.

Theorem C14_qualified_refuted :
  exists E p q pn c, e_cbs E = [p; q] /\ canon (p_name p) = pn /\ find_group p pn = None /\ find_group p c = None /\
    is_cmd E (p_name p) (p_meths p) c = true /\ canon (p_name q) <> pn /\ find_group q pn <> None /\
    findCallbacksForArgs E [pn; c] = ([pn; c], [p; q]).
Proof.
  exists E_shadow, Al, Ga, [97%N; 108%N], [97%N].
  repeat split; try (vm_compute; reflexivity); vm_compute; discriminate.
Qed.
Print Assumptions C14_qualified_refuted.

(* After ANY history of Owner.disable / Owner.enable operations (starting from nothing disabled) the table behind
   Commands.isDisabled answers like the documented semantics spec_run: a command is disabled everywhere from a
   successful `disable c` until a successful `enable c`, in one plugin from a successful `disable P c` until a
   successful `enable P c`, and a refused operation changes nothing.  (Full statement since the repair of C14.F24:
   DisabledCommands keeps the everywhere-entries and the per-plugin entries apart.) *)
Theorem C14_history_disabled :
  forall has_cmd ops c p,
  dis_disabled (o_d (owner_run has_cmd (OState dis_empty []) ops)) c p =
  spec_disabled (spec_run has_cmd S0 ops) c p.
Proof. exact history_disabled. Qed.
Print Assumptions C14_history_disabled.

(* A command the history left disabled everywhere is never the command selected to run,
   whatever the plugins, defaults, important plugins and arguments. *)
Theorem C14_history_never_selected :
  forall has_cmd ops cbs defaults important strs x cb,
  memG (canon x) (s_G (spec_run has_cmd S0 ops)) = true ->
  let E := Env cbs (o_d (owner_run has_cmd (OState dis_empty []) ops)) defaults important in
  In cb (snd (findCallbacksForArgs E strs)) -> last (fst (findCallbacksForArgs E strs)) [] <> x.
Proof. exact history_never_selected. Qed.
Print Assumptions C14_history_never_selected.

(* The table built when the bot starts (DisabledCommands.__init__ over supybot.commands.disabled, whose entries the
   registry keeps canonical: 'misc.ping') disables (c, p) iff some entry names the command and, if it has a plugin part,
   the plugin -- both compared after canonicalName.  So a per-plugin entry written as 'misc.ping' disables the ping of
   the plugin whose class name is 'Misc', which is how Commands.isDisabled asks. *)
Theorem C14_startup_table :
  forall conf c p, dis_disabled (dis_of_conf conf) c p = existsb (fun name => entry_disables name c p) conf.
Proof. exact startup_table. Qed.
Print Assumptions C14_startup_table.

(* A per-plugin entry answers for every spelling of the plugin name with the same canonical form, whichever spelling
   was stored (live `disable Misc ping` stores the class name, a restart stores 'misc'). *)
Theorem C14_plugin_name_canonical :
  forall d c p p', canon p = canon p' -> dis_disabled (dis_add d c (Some p)) c p' = true.
Proof. exact plugin_name_canonical. Qed.
Print Assumptions C14_plugin_name_canonical.

(* What `disable <plugin> <command>` / `disable <command>` leave in supybot.commands.disabled is, read back at the next
   start, an entry that disables exactly that command in exactly that plugin / everywhere (names compared after
   canonicalName) -- for every name made of characters canonicalName keeps and without '.', i.e. any Python
   identifier without '_'.  (One entry; the statement for the whole list after an arbitrary history is not proved.) *)
Theorem C14_restart_entry_plugin :
  forall p c c' p', simple p = true -> simple c = true ->
  entry_disables (conf_key (Some p) c) c' p' = andb (seq_eqb (canon c') (canon c)) (seq_eqb (canon p') (canon p)).
Proof. exact restart_entry_plugin. Qed.
Print Assumptions C14_restart_entry_plugin.

Theorem C14_restart_entry_all :
  forall c c' p', simple c = true -> entry_disables (conf_key None c) c' p' = seq_eqb (canon c') (canon c).
Proof. exact restart_entry_all. Qed.
Print Assumptions C14_restart_entry_all.

(* A restart preserves the answers.  For every history -- from nothing disabled, or from any start-up list -- of
   `disable [plugin] cmd` / `enable [plugin] cmd` through Owner, run-time settings of supybot.commands.disabled (repair
   C14.F28: the registry callback rebuilds the table from the new value) and restarts, with names made of characters
   canonicalName keeps and without '.': the table DisabledCommands.__init__ rebuilds from the registry list answers
   disabled(c, p) exactly as the live table does, for every command and plugin name asked. *)
Theorem C14_restart_preserves :
  forall has_cmd hs c p, Forall hop_ok hs ->
  let st := hrun has_cmd (OState dis_empty []) hs in
  dis_disabled (o_d (restart st)) c p = dis_disabled (o_d st) c p.
Proof. exact restart_preserves. Qed.
Print Assumptions C14_restart_preserves.

Theorem C14_restart_preserves_from :
  forall conf has_cmd hs c p, Forall keyform conf -> Forall hop_ok hs ->
  let st := hrun has_cmd (OState (dis_of_conf conf) conf) hs in
  dis_disabled (o_d (restart st)) c p = dis_disabled (o_d st) c p.
Proof. exact restart_preserves_from. Qed.
Print Assumptions C14_restart_preserves_from.
