(* C14/Props.v — the property theorems, nothing else.
   Model: C14/Model.v (mirrors src/callbacks.py NestedCommandsIrcProxy + Commands dispatch).
   Proofs: Lemmas.v (refinement), Dispatch.v (dispatch, nesting limit), Witness.v (witnesses),
   History.v (disable/enable histories). *)
From Coq Require Import List NArith Arith.
Import ListNotations.
Require Import Base.Wire Base.PyStr C14.Model C14.Lemmas C14.Dispatch C14.Witness C14.History.

(* Full statement: for every dispatch/behaviour function [final], configuration and command tree, the proxy
   machine ends, its call log (thread flags erased) and outcome are those of the post-order, left-to-right,
   stop-at-the-first-stop evaluator eval_spec: every sub-command runs at most once, before the command containing
   it and after everything to its left, and its reply is substituted as one argument.
   The pinned code violates it when the Python stack cannot hold one proxy per sub-command (finding F22); proved:
   it holds whenever the stack budget exceeds the number of sub-commands, and fails on a witness beyond. *)
Theorem C14_eval_refines_on_domain :
  forall final K tokens, (subs tokens < k_budget K)%nat ->
  exists log, machine final K tokens = Done log (snd (eval_spec final K tokens)) /\
              erase log = fst (eval_spec final K tokens).
Proof. exact machine_refines. Qed.
Print Assumptions C14_eval_refines_on_domain.

Theorem C14_eval_refines_refuted :
  exists final K tokens, (k_budget K <= subs tokens)%nat /\
    forall log, machine final K tokens <> Done log (snd (eval_spec final K tokens)).
Proof.
  exists final0, K_small, t1. destruct eval_refuted as (H1 & H2 & H3). split; [exact H1|].
  intros log H. rewrite H2, H3 in H. discriminate.
Qed.
Print Assumptions C14_eval_refines_refuted.

(* A bracket nested deeper than nested.maximum stops the evaluation: neither it nor any command containing it runs
   (the specification never reaches the root command's finalEval). *)
Theorem C14_nesting_limit :
  forall final K tokens, ldeep K 0 tokens = true ->
  exists lg o, spec_list final K 0 tokens = (lg, inl o) /\ eval_spec final K tokens = (lg, o).
Proof. exact nesting_limit. Qed.
Print Assumptions C14_nesting_limit.

(* Each finalEval calls into at most one plugin, the single one findCallbacksForArgs selected,
   with the arguments left after the matched command. *)
Theorem C14_dispatch_unique :
  forall E B strs p c a, fr_call (final_of E B strs) = Some (p, c, a) ->
  exists cb, findCallbacksForArgs E strs = (c, [cb]) /\ p = p_name cb /\ a = skipn (length c) strs.
Proof. exact dispatch_unique. Qed.
Print Assumptions C14_dispatch_unique.

(* When two or more plugins remain, nothing runs and the ambiguity is reported with their names. *)
Theorem C14_ambiguous :
  forall E B strs command cb1 cb2 cbs, findCallbacksForArgs E strs = (command, cb1 :: cb2 :: cbs) ->
  fr_call (final_of E B strs) = None /\
  fr_res (final_of E B strs) = SStop (OAmbiguous command (map p_name (cb1 :: cb2 :: cbs))).
Proof. exact ambiguous_runs_nothing. Qed.
Print Assumptions C14_ambiguous.

(* Every selected plugin really answers getCommand with the selected command. *)
Theorem C14_selected_has_command :
  forall E strs cb, In cb (snd (findCallbacksForArgs E strs)) ->
  p_getCommand E cb (map canon strs) = fst (findCallbacksForArgs E strs) /\ fst (findCallbacksForArgs E strs) <> [].
Proof. exact selected_has_command. Qed.
Print Assumptions C14_selected_has_command.

(* A command disabled everywhere is never the command selected to run, whatever the plugins, defaults, arguments. *)
Theorem C14_disabled :
  forall E strs x cb, memG (canon x) (d_all (e_dis E)) = true ->
  In cb (snd (findCallbacksForArgs E strs)) -> last (fst (findCallbacksForArgs E strs)) [] <> x.
Proof. exact disabled_never_selected. Qed.
Print Assumptions C14_disabled.

(* Full statement: `<plugin> <command> ...` selects exactly that plugin whenever it has the (enabled) command.
   Violated on the pinned tree when some plugin carries a sub-callback named like the plugin (finding F23).
   Proved (partial: the per-plugin answers, not yet the fold over irc.callbacks): the named plugin answers
   [plugin; command]; any other plugin without such a sub-callback answers at most one word, hence loses. *)
Theorem C14_qualified_partial :
  forall E p pn c rest,
  canon (p_name p) = pn -> find_group p pn = None -> find_group p c = None ->
  is_cmd E (p_name p) (p_meths p) c = true ->
  p_getCommand E p (pn :: c :: rest) = [pn; c] /\
  forall q, canon (p_name q) <> pn -> find_group q pn = None -> (length (p_getCommand E q (pn :: c :: rest)) <= 1)%nat.
Proof.
  intros E p pn c rest H1 H2 H3 H4. split; [apply qualified_own; assumption|].
  intros q H5 H6. apply qualified_other; assumption.
Qed.
Print Assumptions C14_qualified_partial.

Theorem C14_qualified_refuted :
  exists E p pn c, In p (e_cbs E) /\ canon (p_name p) = pn /\ find_group p pn = None /\ find_group p c = None /\
    is_cmd E (p_name p) (p_meths p) c = true /\ length (snd (findCallbacksForArgs E [pn; c])) = 2%nat.
Proof.
  exists E_shadow, Al, [97%N; 108%N], [97%N].
  destruct qualified_refuted as (H1 & H2 & H3 & H4 & H5 & H6). repeat split; try assumption; vm_compute; reflexivity.
Qed.
Print Assumptions C14_qualified_refuted.

(* After ANY history of Owner.disable / Owner.enable operations (starting from nothing disabled) the table behind
   Commands.isDisabled answers like the documented semantics spec_run: a command is disabled everywhere from a
   successful `disable c` until a successful `enable c`, in one plugin from a successful `disable P c` until a
   successful `enable P c`, and a refused operation changes nothing.  (Full statement since the repair of C14.F24:
   DisabledCommands keeps the everywhere-entries and the per-plugin entries apart.) *)
Theorem C14_history_disabled :
  forall has_cmd ops c p,
  dis_disabled (o_d (owner_run has_cmd (OState dis_empty []) ops)) c p =
  spec_disabled (spec_run has_cmd S0 ops) c p.
Proof. exact history_disabled. Qed.
Print Assumptions C14_history_disabled.

(* A command the history left disabled everywhere is never the command selected to run,
   whatever the plugins, defaults, important plugins and arguments. *)
Theorem C14_history_never_selected :
  forall has_cmd ops cbs defaults important strs x cb,
  memG (canon x) (s_G (spec_run has_cmd S0 ops)) = true ->
  let E := Env cbs (o_d (owner_run has_cmd (OState dis_empty []) ops)) defaults important in
  In cb (snd (findCallbacksForArgs E strs)) -> last (fst (findCallbacksForArgs E strs)) [] <> x.
Proof. exact history_never_selected. Qed.
Print Assumptions C14_history_never_selected.
