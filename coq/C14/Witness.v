(* C14/Witness.v — concrete witnesses (non-vacuity examples and refutations), closed by vm_compute. *)
From Coq Require Import List NArith ZArith Bool Arith Lia.
Import ListNotations.
Require Import Base.Wire Base.PyStr C14.Model C14.Lemmas C14.Dispatch.
Local Open Scope N_scope.

(* every command replies the empty string and is logged *)
Definition final0 : list str -> finalres := fun _ => FinalRes (Some ([], [], [])) false (SVal (Some [])).
Definition K_small := Config 10 1 (SStop OStall).       (* stack room for the root proxy only *)
Definition K_ok := Config 10 5 (SStop OStall).
Definition t1 : list arg := [AStr [97]; ASub [AStr [97]]].            (* a [a] *)

Lemma eval_refuted :
  (k_budget K_small <= subs t1)%nat /\
  machine final0 K_small t1 = Done [] OAbandoned /\
  eval_spec final0 K_small t1 = ([([], [], []); ([], [], [])], OReply []).
Proof. repeat split; try (vm_compute; reflexivity); try (vm_compute; lia); try (vm_compute; auto). Qed.

Example eval_ok :
  (subs t1 < k_budget K_ok)%nat /\
  machine final0 K_ok t1 = Done [Call [] [] [] false; Call [] [] [] false] (OReply []).
Proof. repeat split; try (vm_compute; reflexivity); try (vm_compute; lia); try (vm_compute; auto). Qed.

(* nesting limit 1:  a [a [a]] *)
Definition K_n1 := Config 1 9 (SStop OStall).
Definition t2 : list arg := [AStr [97]; ASub [AStr [97]; ASub [AStr [97]]]].
Example nesting_example :
  ldeep K_n1 0 t2 = true /\ eval_spec final0 K_n1 t2 = ([], OTooDeep) /\
  machine final0 K_n1 t2 = Done [] OTooDeep.
Proof. repeat split; try (vm_compute; reflexivity); try (vm_compute; lia); try (vm_compute; auto). Qed.
(* a [a] [a [a]]: the sub-command to the left of the too-deep bracket has already run when the line is refused *)
Definition t3 : list arg := [AStr [97]; ASub [AStr [97]]; ASub [AStr [97]; ASub [AStr [97]]]].
Example nesting_example_partial_run :
  ldeep K_n1 0 t3 = true /\ machine final0 K_n1 t3 = Done [Call [] [] [] false] OTooDeep.
Proof. repeat split; try (vm_compute; reflexivity); try (vm_compute; lia); try (vm_compute; auto). Qed.

(* plugin Al with command a; plugin Ga with a sub-callback `al` holding a command a *)
Definition Al := Plug [65; 108] [[97]] [] false.
Definition Ga := Plug [71; 97] [[103]] [Group [97; 108] [[97]]] false.
Definition E_shadow := Env [Al; Ga] dis_empty [] [].
Definition E_plain := Env [Al; Plug [71; 97] [[103]; [97]] [] false] dis_empty [] [].

Lemma qualified_refuted :
  In Al (e_cbs E_shadow) /\ canon (p_name Al) = [97; 108] /\
  find_group Al [97; 108] = None /\ find_group Al [97] = None /\
  is_cmd E_shadow (p_name Al) (p_meths Al) [97] = true /\
  findCallbacksForArgs E_shadow [[97; 108]; [97]] = ([[97; 108]; [97]], [Al; Ga]).
Proof. repeat split; try (vm_compute; reflexivity); try (vm_compute; lia); try (vm_compute; auto). Qed.

Example qualified_ok :
  findCallbacksForArgs E_plain [[97; 108]; [97]] = ([[97; 108]; [97]], [Al]) /\
  (exists cb2, findCallbacksForArgs E_plain [[97]] = ([[97]], [Al; cb2])).
Proof. vm_compute. split; [reflexivity|eexists; reflexivity]. Qed.

(* `disable a` (everywhere): a is no longer selected, even qualified *)
Definition E_dis := Env [Al] (dis_add dis_empty [65] None) [] [].
Example disabled_example :
  memG (canon [97]) (d_all (e_dis E_dis)) = true /\
  findCallbacksForArgs E_dis [[97]] = ([], []) /\ findCallbacksForArgs E_dis [[97; 108]; [97]] = ([], []).
Proof. repeat split; try (vm_compute; reflexivity); try (vm_compute; lia); try (vm_compute; auto). Qed.
