(* C14/Witness.v — concrete witnesses (non-vacuity examples and refutations), closed by vm_compute. *)
From Coq Require Import List NArith ZArith Bool Arith Lia.
Import ListNotations.
Require Import Base.Wire Base.PyStr C14.Model C14.Lemmas C14.Dispatch C14.Trace.
Local Open Scope N_scope.

(* every command replies the empty string and is logged *)
Definition final0 : list str -> finalres := fun _ => FinalRes (Some ([], [], [])) false false no_flags (SVal (Some [])).
Definition K_small := Config 10 1 (SStop OStall).       (* stack room for the root proxy only *)
Definition K_ok := Config 10 5 (SStop OStall).
Definition t1 : list arg := [AStr [97]; ASub [AStr [97]]].            (* a [a] *)

Lemma eval_refuted :
  (k_budget K_small <= subs t1)%nat /\
  machine final0 K_small t1 = Done [] OAbandoned /\
  eval_spec final0 K_small t1 = ([([], [], []); ([], [], [])], OReply []).
Proof. repeat split; try (vm_compute; reflexivity); try (vm_compute; lia); try (vm_compute; auto). Qed.

Example eval_ok :
  (subs t1 < k_budget K_ok)%nat /\
  machine final0 K_ok t1 = Done [Call [] [] [] false no_flags no_flags; Call [] [] [] false no_flags no_flags] (OReply []).
Proof. repeat split; try (vm_compute; reflexivity); try (vm_compute; lia); try (vm_compute; auto). Qed.

(* nesting limit 1:  a [a [a]] *)
Definition K_n1 := Config 1 9 (SStop OStall).
Definition t2 : list arg := [AStr [97]; ASub [AStr [97]; ASub [AStr [97]]]].
Example nesting_example :
  ldeep K_n1 0 t2 = true /\ eval_spec final0 K_n1 t2 = ([], OTooDeep) /\
  machine final0 K_n1 t2 = Done [] OTooDeep.
Proof. repeat split; try (vm_compute; reflexivity); try (vm_compute; lia); try (vm_compute; auto). Qed.
(* a [a] [a [a]]: the sub-command to the left of the too-deep bracket has already run when the line is refused *)
Definition t3 : list arg := [AStr [97]; ASub [AStr [97]]; ASub [AStr [97]; ASub [AStr [97]]]].
Example nesting_example_partial_run :
  ldeep K_n1 0 t3 = true /\ machine final0 K_n1 t3 = Done [Call [] [] [] false no_flags no_flags] OTooDeep.
Proof. repeat split; try (vm_compute; reflexivity); try (vm_compute; lia); try (vm_compute; auto). Qed.

(* plugin Al with command a; plugin Ga with a sub-callback `al` holding a command a *)
Definition Al := Plug [65; 108] [[97]] [] false.
Definition Ga := Plug [71; 97] [[103]] [Group [97; 108] [[97]]] false.
Definition E_shadow := Env [Al; Ga] dis_empty [] [].
Definition E_plain := Env [Al; Plug [71; 97] [[103]; [97]] [] false] dis_empty [] [].

Lemma qualified_refuted :
  In Al (e_cbs E_shadow) /\ canon (p_name Al) = [97; 108] /\
  find_group Al [97; 108] = None /\ find_group Al [97] = None /\
  is_cmd E_shadow (p_name Al) (p_meths Al) [97] = true /\
  findCallbacksForArgs E_shadow [[97; 108]; [97]] = ([[97; 108]; [97]], [Al; Ga]).
Proof. repeat split; try (vm_compute; reflexivity); try (vm_compute; lia); try (vm_compute; auto). Qed.

Example qualified_ok :
  findCallbacksForArgs E_plain [[97; 108]; [97]] = ([[97; 108]; [97]], [Al]) /\
  (exists cb2, findCallbacksForArgs E_plain [[97]] = ([[97]], [Al; cb2])).
Proof. vm_compute. split; [reflexivity|eexists; reflexivity]. Qed.

(* `disable a` (everywhere): a is no longer selected, even qualified *)
Definition E_dis := Env [Al] (dis_add dis_empty [65] None) [] [].
Example disabled_example :
  memG (canon [97]) (d_all (e_dis E_dis)) = true /\
  findCallbacksForArgs E_dis [[97]] = ([], []) /\ findCallbacksForArgs E_dis [[97; 108]; [97]] = ([], []).
Proof. repeat split; try (vm_compute; reflexivity); try (vm_compute; lia); try (vm_compute; auto). Qed.

(* ---- the boundary of the domain: STACK_SAFE_SUBS + 1 sibling sub-commands on a stack that holds exactly
   STACK_SAFE_SUBS + 1 proxies (finding C14.F22) ---- *)
Definition K_edge := Config 10 (S gen.T14.STACK_SAFE_SUBS) (SStop OStall).
Definition t_wide (n : nat) : list arg := AStr [97] :: repeat (ASub [AStr [97]]) n.       (* a [a] [a] ... *)

Definition done_with (s : status) (n : nat) (o : outcome) : bool :=
  match s, o with
  | Done l OAbandoned, OAbandoned => Nat.eqb (length l) n
  | Done l (OReply []), OReply [] => Nat.eqb (length l) n
  | _, _ => false
  end.

Lemma eval_refuted_edge :
  stack_holds_domain K_edge /\
  in_domain (t_wide (S gen.T14.STACK_SAFE_SUBS)) = false /\
  done_with (machine final0 K_edge (t_wide (S gen.T14.STACK_SAFE_SUBS))) gen.T14.STACK_SAFE_SUBS OAbandoned = true /\
  snd (eval_spec final0 K_edge (t_wide (S gen.T14.STACK_SAFE_SUBS))) = OReply [].
Proof.
  split; [unfold stack_holds_domain; vm_compute; lia|].
  repeat split; vm_compute; reflexivity.
Qed.

Definition outcome_of (s : status) : outcome := match s with Done _ o => o | Running _ => OStall end.
Definition t_edge : list arg := t_wide (S gen.T14.STACK_SAFE_SUBS).

Lemma eval_refuted_edge_neq :
  forall log, machine final0 K_edge t_edge <> Done log (snd (eval_spec final0 K_edge t_edge)).
Proof.
  intros log H.
  assert (E1 : outcome_of (machine final0 K_edge t_edge) = OAbandoned) by (vm_compute; reflexivity).
  assert (E2 : snd (eval_spec final0 K_edge t_edge) = OReply []) by (vm_compute; reflexivity).
  remember (machine final0 K_edge t_edge) as m eqn:Hm. clear Hm.
  remember (snd (eval_spec final0 K_edge t_edge)) as o eqn:Ho. clear Ho.
  subst m o. discriminate E1.
Qed.

Example eval_edge_ok :
  in_domain (t_wide gen.T14.STACK_SAFE_SUBS) = true /\
  done_with (machine final0 K_edge (t_wide gen.T14.STACK_SAFE_SUBS)) (S gen.T14.STACK_SAFE_SUBS) (OReply []) = true.
Proof. split; vm_compute; reflexivity. Qed.

(* ---- a 3-level tree:  a [b [c 1] [d]] [e]  ; every command replies its own name followed by "!" ---- *)
Definition final_name : list str -> finalres :=
  fun strs => FinalRes (Some ([], [hd [] strs], tl strs)) false false no_flags (SVal (Some (hd [] strs ++ [33]))).
Definition t_three : list arg :=
  [AStr [97]; ASub [AStr [98]; ASub [AStr [99]; AStr [49]]; ASub [AStr [100]]]; ASub [AStr [101]]].

Example trace_three_levels :
  map fst (trace final_name K_ok t_three) = [[1; 1]; [1; 2]; [1]; [2]; []]%nat /\
  postorder t_three = [[1; 1]; [1; 2]; [1]; [2]; []]%nat /\
  map (fun e => snd (fst e)) (calls_of final_name K_ok (trace final_name K_ok t_three)) = [[[99]]; [[100]]; [[98]]; [[101]]; [[97]]] /\
  snd (trace_res final_name K_ok t_three) = SVal (Some [97; 33]) /\
  machine final_name K_ok t_three =
    Done [Call [] [[99]] [[49]] false no_flags no_flags; Call [] [[100]] [] false no_flags no_flags; Call [] [[98]] [[99; 33]; [100; 33]] false no_flags no_flags;
          Call [] [[101]] [] false no_flags no_flags; Call [] [[97]] [[98; 33]; [101; 33]] false no_flags no_flags] (OReply [97; 33]).
Proof. repeat split; vm_compute; reflexivity. Qed.

(* a stop in the middle: d calls irc.error; the trace is the post-order prefix up to d *)
Definition final_err_d : list str -> finalres :=
  fun strs => if seq_eqb (hd [] strs) [100] then FinalRes (Some ([], [[100]], [])) false false no_flags (SStop (OError [100]))
              else final_name strs.
Example trace_stops :
  map fst (trace final_err_d K_ok t_three) = [[1; 1]; [1; 2]]%nat /\
  snd (trace_res final_err_d K_ok t_three) = SStop (OError [100]).
Proof. split; vm_compute; reflexivity. Qed.

(* ---- `e [i] [e foo] bar`: i tags the message 'ignored' and calls noReply (Utilities.ignore); e echoes.
   tr = a command that tags AND replies: its reply is dropped as well ---- *)
Definition s_foo : str := [102; 111; 111].  Definition s_bar : str := [98; 97; 114].
Definition final_ign : list str -> finalres :=
  fun strs =>
    if seq_eqb (hd [] strs) [105] then FinalRes (Some ([], [[105]], tl strs)) false true no_flags (SVal None)
    else if seq_eqb (hd [] strs) [116] then FinalRes (Some ([], [[116]], tl strs)) false true no_flags (SVal (Some [120]))
    else FinalRes (Some ([], [[101]], tl strs)) false false no_flags (SVal (Some (join [32] (tl strs)))).
Definition t_ign : list arg := [AStr [101]; ASub [AStr [105]]; ASub [AStr [101]; AStr s_foo]; AStr s_bar].
Definition t_ign_mid : list arg :=
  [AStr [101]; ASub [AStr [101]; AStr s_foo]; ASub [AStr [105]]; ASub [AStr [116]]; ASub [AStr [101]; AStr s_bar; ASub [AStr [105]]]].

Example ignore_then_reply :
  machine final_ign K_ok t_ign =
    Done [Call [] [[105]] [] false no_flags no_flags; Call [] [[101]] [s_foo] false no_flags no_flags; Call [] [[101]] [s_foo; s_bar] false no_flags no_flags]
         (OReply (s_foo ++ [32] ++ s_bar)) /\
  map (contributes final_ign K_ok 0) t_ign = [[[101]]; []; [s_foo]; [s_bar]].
Proof. split; vm_compute; reflexivity. Qed.

Definition K_big := Config 10 20 (SStop OStall).
Example ignore_between_and_nested :
  machine final_ign K_big t_ign_mid =
    Done [Call [] [[101]] [s_foo] false no_flags no_flags; Call [] [[105]] [] false no_flags no_flags; Call [] [[116]] [] false no_flags no_flags; Call [] [[105]] [] false no_flags no_flags;
          Call [] [[101]] [s_bar] false no_flags no_flags; Call [] [[101]] [s_foo; s_bar] false no_flags no_flags]
         (OReply (s_foo ++ [32] ++ s_bar)).
Proof. vm_compute; reflexivity. Qed.

(* ---- `e x [c hello] y`: c replies with action=True (Reply.action); the text still becomes e's argument and the
   attribute sticks to the parent proxy, whose own reply is made as an action ---- *)
Definition act_flags : rflags := RFlags true false false false [].
Definition final_act : list str -> finalres :=
  fun strs =>
    if seq_eqb (hd [] strs) [99] then FinalRes (Some ([], [[99]], tl strs)) false false act_flags (SVal (Some (join [32] (tl strs))))
    else FinalRes (Some ([], [[101]], tl strs)) false false no_flags (SVal (Some (join [32] (tl strs)))).
Definition s_hello : str := [104; 101; 108; 108; 111].
Definition t_act : list arg := [AStr [101]; AStr [120]; ASub [AStr [99]; AStr s_hello]; AStr [121]].
Definition acted : rflags := RFlags true true false false [].       (* action implies noLengthCheck *)

Example action_subcommand :
  machine final_act K_ok t_act =
    Done [Call [] [[99]] [s_hello] false no_flags acted; Call [] [[101]] [[120]; s_hello; [121]] false acted acted]
         (OReply ([120; 32] ++ s_hello ++ [32; 121])).
Proof. vm_compute. reflexivity. Qed.
