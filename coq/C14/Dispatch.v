(* C14/Dispatch.v — properties of command dispatch (findCallbacksForArgs, getCommand, isDisabled)
   and of the nesting limit on the specification side. *)
From Coq Require Import List NArith ZArith Bool Arith Lia.
Import ListNotations.
Require Import Base.Wire Base.PyStr C14.Model C14.Lemmas.
Local Open Scope nat_scope.

Lemma lseq_eqb_eq a b : lseq_eqb a b = true -> a = b.
Proof.
  revert b. induction a as [|x a IH]; intros [|y b] H; simpl in H; try discriminate; [reflexivity|].
  apply andb_true_iff in H as [H1 H2]. apply seq_eqb_eq in H1. rewrite H1, (IH _ H2). reflexivity.
Qed.

Section D.
Variable E : env.

(* ---- every selected plugin really has the selected command ---- *)
Lemma fc_loop_inv cbs cargs : forall maxL acc maxL' acc',
  fc_loop E cbs cargs maxL acc = (maxL', acc') ->
  (forall cb L, In (cb, L) acc -> p_getCommand E cb cargs = L /\ L <> []) ->
  (forall cb L, In (cb, L) acc' -> p_getCommand E cb cargs = L /\ L <> []).
Proof.
  induction cbs as [|c cbs IH]; intros maxL acc maxL' acc' H Hacc; simpl in H.
  - inversion H; subst. exact Hacc.
  - destruct (nonnil (p_getCommand E c cargs) && (length maxL <=? length (p_getCommand E c cargs))) eqn:Hc.
    + eapply IH; [exact H|]. intros cb L Hin. apply in_app_or in Hin as [Hin|[Hin|[]]]; [auto|].
      inversion Hin; subst. split; [reflexivity|].
      apply andb_true_iff in Hc as [Hc _]. destruct (p_getCommand E cb cargs); [discriminate|discriminate].
    + eapply IH; eauto.
Qed.

Theorem selected_has_command strs cb :
  In cb (snd (findCallbacksForArgs E strs)) ->
  p_getCommand E cb (map canon strs) = fst (findCallbacksForArgs E strs) /\
  fst (findCallbacksForArgs E strs) <> [].
Proof.
  unfold findCallbacksForArgs.
  destruct (fc_loop E (e_cbs E) (map canon strs) [] []) as [maxL acc] eqn:Hloop.
  assert (Hinv := fc_loop_inv _ _ _ _ _ _ Hloop ltac:(intros ? ? [])).
  set (cbs := map fst (filter (fun cl => lseq_eqb (snd cl) maxL) acc)).
  assert (Hcbs : forall q, In q cbs -> p_getCommand E q (map canon strs) = maxL /\ maxL <> []).
  { intros q Hq. unfold cbs in Hq. apply in_map_iff in Hq as [[q' L] [Hq1 Hq2]]. simpl in Hq1. subst q'.
    apply filter_In in Hq2 as [Hq2 Hq3]. simpl in Hq3. apply lseq_eqb_eq in Hq3. subst L. apply Hinv. exact Hq2. }
  assert (Hfind : forall f q, find f cbs = Some q -> In q cbs) by (intros f q Hf; apply find_some in Hf; tauto).
  destruct maxL as [|c [|c2 maxL2]]; simpl fst; simpl snd; try (intro Hin; apply Hcbs; exact Hin).
  destruct (find (name_eq_canon c) cbs) as [q|] eqn:Hf1.
  { simpl. intros [Hq|[]]. subst. apply Hcbs. eapply Hfind; eauto. }
  match goal with |- context [match ?bd with Some cb0 => _ | None => _ end] =>
    destruct bd as [q|] eqn:Hbd end.
  { simpl. intros [Hq|[]]. subst q0 || subst. apply Hcbs.
    destruct (dict_get c (e_defaults E)) as [[|x dp]|]; try discriminate.
    destruct (get_callback E (x :: dp)); try discriminate. eapply Hfind; eauto. }
  match goal with |- context [match ?imp with [] => _ | _ :: _ => _ end] => remember imp as importants eqn:Himp end.
  assert (Hsub : forall q, In q importants -> In q cbs).
  { intros q Hq. subst importants. apply filter_In in Hq. tauto. }
  destruct importants as [|i1 [|i2 rest]]; simpl; intro Hin; apply Hcbs; auto.
Qed.

(* ---- a command that is disabled everywhere is never selected ---- *)
Lemma is_cmd_disabled owner meths x :
  memG (canon x) (d_all (e_dis E)) = true -> is_cmd E owner meths x = false.
Proof. intro H. unfold is_cmd, dis_disabled. rewrite H. reflexivity. Qed.

Definition enabled_somewhere (x : str) : Prop := exists owner meths, is_cmd E owner meths x = true.

Lemma g_getCommand_last g args :
  g_getCommand E g args <> [] -> enabled_somewhere (last (g_getCommand E g args) []).
Proof.
  unfold g_getCommand. destruct args as [|first rest]; [congruence|].
  destruct (seq_eqb first (canon (g_name g)) && nonnil rest).
  - destruct rest as [|r1 rest'].
    + destruct (is_cmd E (g_name g) (g_meths g) first) eqn:H1; [|congruence]. intros _. simpl. eexists _, _; eauto.
    + destruct (is_cmd E (g_name g) (g_meths g) r1) eqn:H2.
      * intros _. simpl. eexists _, _; eauto.
      * destruct (is_cmd E (g_name g) (g_meths g) first) eqn:H1; [|congruence]. intros _. simpl. eexists _, _; eauto.
  - destruct (is_cmd E (g_name g) (g_meths g) first) eqn:H1; [|congruence]. intros _. simpl. eexists _, _; eauto.
Qed.

Lemma last_cons_nonnil (x : str) l : l <> [] -> last (x :: l) [] = last l [].
Proof. destruct l; [congruence|reflexivity]. Qed.

Lemma p_getCommand_ns_last p args :
  p_getCommand_ns E p args <> [] -> enabled_somewhere (last (p_getCommand_ns E p args) []).
Proof.
  unfold p_getCommand_ns. destruct args as [|first rest]; [congruence|].
  destruct (find_group p first) as [g|]; [apply g_getCommand_last|].
  destruct (is_cmd E (p_name p) (p_meths p) first) eqn:H1; [|congruence]. intros _. simpl. eexists _, _; eauto.
Qed.

Lemma p_getCommand_last p args :
  p_getCommand E p args <> [] -> enabled_somewhere (last (p_getCommand E p args) []).
Proof.
  unfold p_getCommand. destruct args as [|first rest]; [congruence|].
  destruct (find_group p first) as [g|]; [apply g_getCommand_last|].
  destruct (seq_eqb first (canon (p_name p)) && nonnil rest).
  - destruct (p_getCommand_ns E p rest) as [|y ys] eqn:Hns.
    + destruct (is_cmd E (p_name p) (p_meths p) first) eqn:H1; [|congruence]. intros _. simpl. eexists _, _; eauto.
    + intros _. rewrite last_cons_nonnil by discriminate. rewrite <- Hns. apply p_getCommand_ns_last. rewrite Hns. discriminate.
  - destruct (is_cmd E (p_name p) (p_meths p) first) eqn:H1; [|congruence]. intros _. simpl. eexists _, _; eauto.
Qed.

Theorem disabled_never_selected strs x cb :
  memG (canon x) (d_all (e_dis E)) = true ->
  In cb (snd (findCallbacksForArgs E strs)) ->
  last (fst (findCallbacksForArgs E strs)) [] <> x.
Proof.
  intros Hdis Hin Heq. destruct (selected_has_command _ _ Hin) as [Hc Hne].
  rewrite <- Hc in Hne. apply p_getCommand_last in Hne. rewrite Hc, Heq in Hne.
  destruct Hne as (owner & meths & H). rewrite (is_cmd_disabled _ _ _ Hdis) in H. discriminate.
Qed.

(* ---- plugin-qualified names: what each plugin answers ---- *)
Lemma qualified_own p pn c rest :
  canon (p_name p) = pn -> find_group p pn = None -> find_group p c = None ->
  is_cmd E (p_name p) (p_meths p) c = true ->
  p_getCommand E p (pn :: c :: rest) = [pn; c].
Proof.
  intros Hn Hg1 Hg2 Hc. unfold p_getCommand. rewrite Hg1. rewrite Hn, seq_eqb_refl. simpl.
  rewrite Hg2, Hc. reflexivity.
Qed.

Lemma qualified_other q pn c rest :
  canon (p_name q) <> pn -> find_group q pn = None ->
  length (p_getCommand E q (pn :: c :: rest)) <= 1.
Proof.
  intros Hn Hg. unfold p_getCommand. rewrite Hg.
  assert (H : seq_eqb pn (canon (p_name q)) = false) by (apply seq_eqb_neq; congruence).
  rewrite H. simpl. destruct (is_cmd E (p_name q) (p_meths q) pn); simpl; lia.
Qed.

(* ---- plugin-qualified names: the fold over irc.callbacks ---- *)
Lemma lseq_eqb_len a b : lseq_eqb a b = true -> length a = length b.
Proof. intro H. apply lseq_eqb_eq in H. subst. reflexivity. Qed.

Lemma lseq_eqb_refl a : lseq_eqb a a = true.
Proof. induction a; simpl; [reflexivity|]. rewrite seq_eqb_refl. exact IHa. Qed.

Lemma fc_loop_app l1 l2 cargs : forall m a,
  fc_loop E (l1 ++ l2) cargs m a = let '(m1, a1) := fc_loop E l1 cargs m a in fc_loop E l2 cargs m1 a1.
Proof.
  induction l1 as [|q l1 IH]; intros m a; simpl; [reflexivity|].
  destruct (nonnil (p_getCommand E q cargs) && (length m <=? length (p_getCommand E q cargs))); apply IH.
Qed.

Definition short (cl : plug * list str) : Prop := length (snd cl) <= 1.

Lemma fc_loop_short l cargs :
  (forall q, In q l -> length (p_getCommand E q cargs) <= 1) ->
  forall m a, length m <= 1 -> Forall short a ->
  length (fst (fc_loop E l cargs m a)) <= 1 /\ Forall short (snd (fc_loop E l cargs m a)).
Proof.
  induction l as [|q l IH]; intros Hl m a Hm Ha; simpl; [split; assumption|].
  assert (Hq := Hl q (or_introl eq_refl)).
  destruct (nonnil (p_getCommand E q cargs) && (length m <=? length (p_getCommand E q cargs))).
  - apply IH; [intros; apply Hl; right; assumption|exact Hq|].
    apply Forall_app. split; [exact Ha|]. constructor; [exact Hq|constructor].
  - apply IH; [intros; apply Hl; right; assumption|exact Hm|exact Ha].
Qed.

Lemma fc_loop_skip l cargs m a :
  length m = 2 -> (forall q, In q l -> length (p_getCommand E q cargs) <= 1) ->
  fc_loop E l cargs m a = (m, a).
Proof.
  intros Hm. induction l as [|q l IH]; intro Hl; simpl; [reflexivity|].
  assert (Hq := Hl q (or_introl eq_refl)).
  assert (Hle : (length m <=? length (p_getCommand E q cargs)) = false) by (apply Nat.leb_gt; lia).
  rewrite Hle, andb_false_r. apply IH. intros; apply Hl; right; assumption.
Qed.

Lemma filter_short_none maxL a :
  length maxL = 2 -> Forall short a -> filter (fun cl => lseq_eqb (snd cl) maxL) a = [].
Proof.
  intros Hm Ha. induction Ha as [|cl a Hcl Ha IH]; simpl; [reflexivity|].
  destruct (lseq_eqb (snd cl) maxL) eqn:He; [|exact IH].
  apply lseq_eqb_len in He. unfold short in Hcl. lia.
Qed.

(* `<plugin> <command> ...` selects exactly that plugin, whatever else is loaded, as long as no
   sub-callback of any plugin carries the plugin's name (finding C14.F23 is that clash) *)
Theorem qualified_reaches p l1 l2 a0 a1 rest pn c :
  e_cbs E = l1 ++ p :: l2 ->
  canon a0 = pn -> canon a1 = c -> canon (p_name p) = pn ->
  find_group p pn = None -> find_group p c = None ->
  is_cmd E (p_name p) (p_meths p) c = true ->
  (forall q, In q (l1 ++ l2) -> canon (p_name q) <> pn /\ find_group q pn = None) ->
  findCallbacksForArgs E (a0 :: a1 :: rest) = ([pn; c], [p]).
Proof.
  intros Hcbs H0 H1 Hn Hg1 Hg2 Hc Hoth.
  unfold findCallbacksForArgs. rewrite Hcbs. cbn [map]. rewrite H0, H1.
  set (cargs := pn :: c :: map canon rest).
  assert (Hshort : forall q, In q (l1 ++ l2) -> length (p_getCommand E q cargs) <= 1).
  { intros q Hq. destruct (Hoth q Hq). apply qualified_other; assumption. }
  rewrite fc_loop_app.
  destruct (fc_loop_short l1 cargs (fun q Hq => Hshort q (in_or_app _ _ _ (or_introl Hq))) [] []
              ltac:(simpl; lia) ltac:(constructor)) as [Hm1 Ha1].
  destruct (fc_loop E l1 cargs [] []) as [m1 a1']. cbn [fst snd] in Hm1, Ha1.
  assert (Hown : p_getCommand E p cargs = [pn; c]) by (apply qualified_own; assumption).
  cbn [fc_loop]. rewrite !Hown.
  assert (Hle : (length m1 <=? length [pn; c]) = true) by (apply Nat.leb_le; simpl; lia).
  rewrite Hle. cbn [nonnil andb].
  rewrite (fc_loop_skip l2 cargs [pn; c] (a1' ++ [(p, [pn; c])]) eq_refl
             (fun q Hq => Hshort q (in_or_app _ _ _ (or_intror Hq)))).
  rewrite filter_app, (filter_short_none [pn; c] a1' eq_refl Ha1). cbn [filter snd app].
  rewrite lseq_eqb_refl. reflexivity.
Qed.
End D.

(* ---- exactly one plugin per finalEval ---- *)
Theorem dispatch_unique E B strs p c a :
  fr_call (final_of E B strs) = Some (p, c, a) ->
  exists cb, findCallbacksForArgs E strs = (c, [cb]) /\ p = p_name cb /\ a = skipn (length c) strs.
Proof.
  unfold final_of. destruct (findCallbacksForArgs E strs) as [command cbs].
  destruct cbs as [|cb [|cb2 cbs]]; simpl; try discriminate.
  destruct (p_resolve cb command) as [[g m]|]; simpl; [|discriminate].
  intro H. inversion H; subst. exists cb. auto.
Qed.

Theorem ambiguous_runs_nothing E B strs command cb1 cb2 cbs :
  findCallbacksForArgs E strs = (command, cb1 :: cb2 :: cbs) ->
  fr_call (final_of E B strs) = None /\
  fr_res (final_of E B strs) = SStop (OAmbiguous command (map p_name (cb1 :: cb2 :: cbs))).
Proof. intro H. unfold final_of. rewrite H. split; reflexivity. Qed.

(* ---- nesting limit, on the specification ---- *)
Section Deep.
Variable final : list str -> finalres.
Variable K : config.

Fixpoint adeep (d : nat) (a : arg) : bool :=
  match a with
  | AStr _ => false
  | ASub l => too_deep K (S d) || existsb (adeep (S d)) l
  end.
Definition ldeep (d : nat) (l : list arg) : bool := existsb (adeep d) l.

Lemma deep_stops n : forall l, subs l < n -> forall d, ldeep d l = true ->
  exists lg o, spec_list final K d l = (lg, inl o).
Proof.
  induction n as [|n IHn]; [intros; lia|].
  induction l as [|a r IHr]; intros Hlt d Hd; [discriminate|].
  unfold ldeep in Hd. simpl existsb in Hd.
  destruct a as [s|sub].
  - rewrite subs_str in Hlt. simpl in Hd. destruct (IHr Hlt d Hd) as (lg & o & H).
    rewrite spec_list_str, H. simpl. eauto.
  - rewrite subs_sub in Hlt. rewrite spec_list_sub.
    destruct (adeep d (ASub sub)) eqn:Ha.
    + simpl in Ha. unfold finish. destruct (too_deep K (S d)) eqn:Htd; [eauto|].
      simpl in Ha. destruct (IHn sub ltac:(lia) (S d) Ha) as (lg & o & H). rewrite H.
      destruct sub; eauto.
    + simpl in Hd. destruct (IHr ltac:(lia) d Hd) as (lg & o & H). rewrite H.
      destruct (finish final K true (S d) sub (spec_list final K (S d) sub)) as [lg1 [v|o1]]; simpl; eauto.
Qed.

Theorem nesting_limit tokens :
  ldeep 0 tokens = true ->
  exists lg o, spec_list final K 0 tokens = (lg, inl o) /\ eval_spec final K tokens = (lg, o).
Proof.
  intro H. destruct (deep_stops (S (subs tokens)) tokens ltac:(lia) 0 H) as (lg & o & Hs).
  exists lg, o. split; [exact Hs|]. unfold eval_spec. rewrite Hs.
  unfold finish. assert (Hd0 : too_deep K 0 = false).
  { unfold too_deep. destruct (Nat.eqb (k_maxnest K) 0); simpl; [reflexivity|]. apply Nat.ltb_ge. lia. }
  rewrite Hd0. destruct tokens; [discriminate|reflexivity].
Qed.
End Deep.
