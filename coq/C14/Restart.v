(* C14/Restart.v — a restart preserves the answers: after any history of Owner.disable / Owner.enable, run-time
   settings of supybot.commands.disabled and restarts, the table rebuilt from the registry list answers exactly as the
   live table. *)
From Coq Require Import List NArith ZArith Bool Arith Lia Btauto.
Import ListNotations.
Require Import Base.Wire Base.PyStr C14.Model C14.Lemmas C14.Dispatch C14.History.
Local Open Scope nat_scope.

Definition DOT : N := 46%N.
Definition decode (n : str) : option (str * str) := split1 [DOT] n.

(* what one registry entry contributes to the everywhere-set / to the per-plugin sets *)
Definition gterm (n c' : str) : bool :=
  match decode n with None => seq_eqb (canon c') (canon n) | Some _ => false end.
Definition pterm (n c' p' : str) : bool :=
  match decode n with
  | Some (pl, cm) => seq_eqb (canon c') (canon cm) && seq_eqb (canon p') (canon pl)
  | None => false
  end.
Definition gpart (conf : list str) (c' : str) : bool := existsb (fun n => gterm n c') conf.
Definition ppart (conf : list str) (c' p' : str) : bool := existsb (fun n => pterm n c' p') conf.

(* ---- the two components of the table built at start-up ---- *)
Lemma per_has_add d c p q k :
  per_has q k (d_per (dis_add d c (Some p))) =
  (seq_eqb k (canon c) && seq_eqb q (canon p)) || per_has q k (d_per d).
Proof.
  unfold dis_add. cbn [d_per].
  destruct (dict_get (canon c) (d_per d)) as [set|] eqn:Hget; rewrite per_has_set;
    destruct (seq_eqb k (canon c)) eqn:Ek; cbn [andb orb]; try reflexivity;
    apply seq_eqb_eq in Ek; subst k; unfold per_has; rewrite Hget.
  - apply set_add_mem.
  - simpl. rewrite orb_false_r. reflexivity.
Qed.

Lemma conf_step_all d n k :
  memG k (d_all (conf_step d n)) = (match decode n with None => seq_eqb k (canon n) | Some _ => false end) || memG k (d_all d).
Proof.
  unfold conf_step, decode, DOT. destruct (split1 [46%N] n) as [[pl cm]|]; unfold dis_add; cbn [d_all].
  - reflexivity.
  - unfold memG at 1. rewrite set_add_mem. reflexivity.
Qed.

Lemma conf_step_per d n q k :
  per_has q k (d_per (conf_step d n)) =
  (match decode n with Some (pl, cm) => seq_eqb k (canon cm) && seq_eqb q (canon pl) | None => false end) || per_has q k (d_per d).
Proof.
  unfold conf_step, decode, DOT. destruct (split1 [46%N] n) as [[pl cm]|].
  - apply per_has_add.
  - unfold dis_add. cbn [d_per]. reflexivity.
Qed.

Lemma startup_components conf : forall d0 c' p',
  memG (canon c') (d_all (fold_left conf_step conf d0)) = memG (canon c') (d_all d0) || gpart conf c' /\
  per_has (canon p') (canon c') (d_per (fold_left conf_step conf d0)) =
    per_has (canon p') (canon c') (d_per d0) || ppart conf c' p'.
Proof.
  induction conf as [|n conf IH]; intros d0 c' p'; cbn [fold_left].
  - unfold gpart, ppart. cbn [existsb]. rewrite !orb_false_r. split; reflexivity.
  - destruct (IH (conf_step d0 n) c' p') as [H1 H2]. rewrite H1, H2, conf_step_all, conf_step_per.
    change (match decode n with None => seq_eqb (canon c') (canon n) | Some _ => false end) with (gterm n c').
    change (match decode n with
            | Some (pl, cm) => seq_eqb (canon c') (canon cm) && seq_eqb (canon p') (canon pl)
            | None => false end) with (pterm n c' p').
    unfold gpart, ppart. cbn [existsb]. split; btauto.
Qed.

Lemma dis_of_conf_fold conf : dis_of_conf conf = fold_left conf_step conf dis_empty.
Proof. reflexivity. Qed.

(* ---- the invariant: the live table is what the registry list says, component by component ---- *)
Definition keyform (n : str) : Prop :=
  (exists c, simple c = true /\ n = conf_key None c) \/
  (exists p c, simple p = true /\ simple c = true /\ n = conf_key (Some p) c).

Definition Inv (st : ostate) : Prop :=
  (forall c', gpart (o_conf st) c' = memG (canon c') (d_all (o_d st))) /\
  (forall c' p', ppart (o_conf st) c' p' = per_has (canon p') (canon c') (d_per (o_d st))) /\
  Forall keyform (o_conf st).

Lemma Inv_startup conf : Forall keyform conf -> Inv (OState (dis_of_conf conf) conf).
Proof.
  intro Hk. unfold Inv. cbn [o_conf o_d]. rewrite dis_of_conf_fold.
  split; [|split; [|exact Hk]]; intros; destruct (startup_components conf dis_empty c' ltac:(first [exact p'|exact []])) as [H1 H2].
  - rewrite H1. reflexivity.
  - destruct (startup_components conf dis_empty c' p') as [_ H3]. rewrite H3. reflexivity.
Qed.

(* ---- keys of simple names ---- *)
Lemma simple_parts s : simple s = true -> nospecial s = true /\ nodot s = true.
Proof. unfold simple. intro H. apply andb_true_iff in H. exact H. Qed.

Lemma key_all c : simple c = true -> conf_key None c = map lower1 c.
Proof. intro H. apply simple_parts in H as [H _]. unfold conf_key. apply canon_nospecial. exact H. Qed.

Lemma decode_key_all c : simple c = true -> decode (conf_key None c) = None.
Proof.
  intro H. rewrite (key_all c H). apply simple_parts in H as [_ H]. unfold decode, DOT.
  apply split1_char_none. apply lower_nodot. exact H.
Qed.

Lemma decode_key_plugin p c : simple p = true -> simple c = true ->
  decode (conf_key (Some p) c) = Some (map lower1 p, map lower1 c).
Proof.
  intros Hp Hc. rewrite (key_plugin p c Hp Hc). apply simple_parts in Hp as [_ Hp]. unfold decode, DOT.
  apply split1_char. apply lower_nodot. exact Hp.
Qed.

Lemma canon_key_all c : simple c = true -> canon (conf_key None c) = canon c.
Proof. intro H. rewrite (key_all c H). apply canon_lower. apply simple_parts in H. tauto. Qed.

Lemma canon_simple c : simple c = true -> canon c = map lower1 c.
Proof. intro H. apply canon_nospecial. apply simple_parts in H. tauto. Qed.

Lemma gterm_key_all c c' : simple c = true -> gterm (conf_key None c) c' = seq_eqb (canon c') (canon c).
Proof. intro H. unfold gterm. rewrite (decode_key_all c H), (canon_key_all c H). reflexivity. Qed.
Lemma pterm_key_all c c' p' : simple c = true -> pterm (conf_key None c) c' p' = false.
Proof. intro H. unfold pterm. rewrite (decode_key_all c H). reflexivity. Qed.
Lemma gterm_key_plugin p c c' : simple p = true -> simple c = true -> gterm (conf_key (Some p) c) c' = false.
Proof. intros Hp Hc. unfold gterm. rewrite (decode_key_plugin p c Hp Hc). reflexivity. Qed.
Lemma pterm_key_plugin p c c' p' : simple p = true -> simple c = true ->
  pterm (conf_key (Some p) c) c' p' = seq_eqb (canon c') (canon c) && seq_eqb (canon p') (canon p).
Proof.
  intros Hp Hc. unfold pterm. rewrite (decode_key_plugin p c Hp Hc).
  rewrite (canon_lower c), (canon_lower p); [reflexivity| |]; apply simple_parts; assumption.
Qed.

(* equal keys: same strings, hence same decoding *)
Lemma seq_eqb_decode a b : seq_eqb a b = true -> decode a = decode b.
Proof. intro H. apply seq_eqb_eq in H. subst. reflexivity. Qed.

(* membership test of a key against a registry entry, entry by entry *)
Lemma pw_all c n : simple c = true -> keyform n -> seq_eqb (conf_key None c) n = gterm n c.
Proof.
  intros Hc [(c2 & H2 & ->)|(p2 & c2 & Hp2 & Hc2 & ->)].
  - rewrite (gterm_key_all c2 c H2). rewrite (key_all c Hc), (key_all c2 H2), (canon_simple c Hc), (canon_simple c2 H2). reflexivity.
  - rewrite (gterm_key_plugin p2 c2 c Hp2 Hc2).
    destruct (seq_eqb (conf_key None c) (conf_key (Some p2) c2)) eqn:E; [|reflexivity].
    apply seq_eqb_decode in E. rewrite (decode_key_all c Hc), (decode_key_plugin p2 c2 Hp2 Hc2) in E. discriminate.
Qed.

Lemma pw_plugin p c n : simple p = true -> simple c = true -> keyform n ->
  seq_eqb (conf_key (Some p) c) n = pterm n c p.
Proof.
  intros Hp Hc [(c2 & H2 & ->)|(p2 & c2 & Hp2 & Hc2 & ->)].
  - rewrite (pterm_key_all c2 c p H2).
    destruct (seq_eqb (conf_key (Some p) c) (conf_key None c2)) eqn:E; [|reflexivity].
    apply seq_eqb_decode in E. rewrite (decode_key_all c2 H2), (decode_key_plugin p c Hp Hc) in E. discriminate.
  - rewrite (pterm_key_plugin p2 c2 c p Hp2 Hc2).
    rewrite (canon_simple c Hc), (canon_simple c2 Hc2), (canon_simple p Hp), (canon_simple p2 Hp2).
    destruct (seq_eqb (conf_key (Some p) c) (conf_key (Some p2) c2)) eqn:E.
    + apply seq_eqb_decode in E. rewrite (decode_key_plugin p c Hp Hc), (decode_key_plugin p2 c2 Hp2 Hc2) in E.
      inversion E. rewrite !seq_eqb_refl. reflexivity.
    + destruct (seq_eqb (map lower1 c) (map lower1 c2)) eqn:E1; [|reflexivity].
      destruct (seq_eqb (map lower1 p) (map lower1 p2)) eqn:E2; [|reflexivity].
      apply seq_eqb_eq in E1, E2. rewrite (key_plugin p c Hp Hc), (key_plugin p2 c2 Hp2 Hc2), E1, E2, seq_eqb_refl in E. discriminate.
Qed.

Lemma existsb_orb_comm {A} (f g : A -> bool) l : existsb (fun x => f x || g x) l = existsb f l || existsb g l.
Proof.
  induction l as [|x l IH]; simpl; [reflexivity|]. rewrite IH.
  destruct (f x), (g x), (existsb f l), (existsb g l); reflexivity.
Qed.

Lemma existsb_pw {A} (f g : A -> bool) (P : A -> Prop) l :
  Forall P l -> (forall x, P x -> f x = g x) -> existsb f l = existsb g l.
Proof. induction 1 as [|x l Hx Hl IH]; intro H; simpl; [reflexivity|]. rewrite (H x Hx), (IH H). reflexivity. Qed.

Lemma conf_has_all conf c : Forall keyform conf -> simple c = true -> conf_has (conf_key None c) conf = gpart conf c.
Proof. intros Hk Hc. unfold conf_has, gpart. apply (existsb_pw _ _ keyform); [exact Hk|]. intros n Hn. apply pw_all; assumption. Qed.
Lemma conf_has_plugin conf p c : Forall keyform conf -> simple p = true -> simple c = true ->
  conf_has (conf_key (Some p) c) conf = ppart conf c p.
Proof. intros Hk Hp Hc. unfold conf_has, ppart. apply (existsb_pw _ _ keyform); [exact Hk|]. intros n Hn. apply pw_plugin; assumption. Qed.

(* list operations *)
Lemma existsb_conf_add (f : str -> bool) k conf : existsb f (conf_add k conf) = f k || existsb f conf.
Proof.
  unfold conf_add. destruct (conf_has k conf) eqn:E.
  - destruct (f k) eqn:Ef; [|reflexivity]. unfold conf_has in E. apply existsb_exists in E as (x & Hx & Ex).
    apply seq_eqb_eq in Ex. subst x. cbn [orb]. apply existsb_exists. exists k. auto.
  - rewrite existsb_app. simpl. rewrite orb_false_r. apply orb_comm.
Qed.

Lemma Forall_conf_add k conf : keyform k -> Forall keyform conf -> Forall keyform (conf_add k conf).
Proof.
  intros Hk Hc. unfold conf_add. destruct (conf_has k conf); [exact Hc|].
  apply Forall_app. split; [exact Hc|constructor; [exact Hk|constructor]].
Qed.

Lemma Forall_conf_remove k conf : Forall keyform conf -> Forall keyform (conf_remove k conf).
Proof.
  intro H. unfold conf_remove. induction H as [|x l Hx Hl IH]; simpl; [constructor|].
  destruct (negb (seq_eqb k x)); [constructor; assumption|assumption].
Qed.

Lemma gterm_agree n c' c : gterm n c' = true -> gterm n c = true -> seq_eqb (canon c') (canon c) = true.
Proof.
  unfold gterm. destruct (decode n); [discriminate|]. intros H1 H2.
  apply seq_eqb_eq in H1, H2. rewrite H1, H2. apply seq_eqb_refl.
Qed.
Lemma pterm_agree n c' p' c p : pterm n c' p' = true -> pterm n c p = true ->
  seq_eqb (canon c') (canon c) = true /\ seq_eqb (canon p') (canon p) = true.
Proof.
  unfold pterm. destruct (decode n) as [[pl cm]|]; [|discriminate]. intros H1 H2.
  apply andb_true_iff in H1 as [A1 A2]. apply andb_true_iff in H2 as [B1 B2].
  apply seq_eqb_eq in A1, A2, B1, B2. rewrite A1, A2, B1, B2, !seq_eqb_refl. auto.
Qed.
Lemma gterm_pterm n c' c p : gterm n c' = true -> pterm n c p = false.
Proof. unfold gterm, pterm. destruct (decode n) as [[pl cm]|]; [discriminate|reflexivity]. Qed.
Lemma pterm_gterm n c' p' c : pterm n c' p' = true -> gterm n c = false.
Proof. unfold gterm, pterm. destruct (decode n) as [[pl cm]|]; [reflexivity|discriminate]. Qed.
Lemma gterm_same n c' c : canon c' = canon c -> gterm n c' = gterm n c.
Proof. intro H. unfold gterm. rewrite H. reflexivity. Qed.
Lemma pterm_same n c' p' c p : canon c' = canon c -> canon p' = canon p -> pterm n c' p' = pterm n c p.
Proof. intros H1 H2. unfold pterm. rewrite H1, H2. reflexivity. Qed.

Section Step.
Variable has_cmd : str -> str -> bool.

Definition op_simple (o : op) : bool :=
  match o with
  | ODisable pl c | OEnable pl c => simple c && match pl with Some p => simple p | None => true end
  end.

Lemma Inv_step st o : op_simple o = true -> Inv st -> Inv (fst (owner_step has_cmd st o)).
Proof.
  intros Hs (Ig & Ip & Hk). destruct st as [d conf]. cbn [o_conf o_d] in *.
  destruct o as [[p|] c | [p|] c]; cbn [op_simple] in Hs; cbn [owner_step o_d o_conf].
  - (* disable <plugin> <command> *)
    apply andb_true_iff in Hs as [Hc Hp].
    destruct (forbidden c); [repeat split; assumption|].
    destruct (negb (dis_disabled d c p) && has_cmd p c); [|repeat split; assumption].
    unfold Inv. cbn [fst o_conf o_d]. split; [|split].
    + intro c'. unfold gpart. rewrite existsb_conf_add, (gterm_key_plugin p c c' Hp Hc). cbn [orb].
      unfold dis_add. cbn [d_all]. apply Ig.
    + intros c' p'. unfold ppart. rewrite existsb_conf_add, (pterm_key_plugin p c c' p' Hp Hc), per_has_add.
      f_equal. apply Ip.
    + apply Forall_conf_add; [right; exists p, c; auto|exact Hk].
  - (* disable <command> everywhere *)
    rewrite andb_true_r in Hs.
    destruct (forbidden c); [repeat split; assumption|].
    unfold Inv. cbn [fst o_conf o_d]. split; [|split].
    + intro c'. unfold gpart. rewrite existsb_conf_add, (gterm_key_all c c' Hs).
      unfold dis_add. cbn [d_all]. unfold memG at 1. rewrite set_add_mem. f_equal. apply Ig.
    + intros c' p'. unfold ppart. rewrite existsb_conf_add, (pterm_key_all c c' p' Hs). cbn [orb].
      unfold dis_add. cbn [d_per]. apply Ip.
    + apply Forall_conf_add; [left; exists c; auto|exact Hk].
  - (* enable <plugin> <command> *)
    apply andb_true_iff in Hs as [Hc Hp]. unfold dis_remove.
    destruct (dict_get (canon c) (d_per d)) as [set|] eqn:Hget; [|repeat split; assumption].
    destruct (existsb (seq_eqb (canon p)) set) eqn:Hmem; [|repeat split; assumption].
    assert (Hhas : conf_has (conf_key (Some p) c) conf = true).
    { rewrite (conf_has_plugin conf p c Hk Hp Hc), Ip. unfold per_has. rewrite Hget. exact Hmem. }
    rewrite Hhas. unfold Inv. cbn [fst o_conf o_d]. split; [|split].
    + intro c'. cbn [d_all]. rewrite <- Ig. unfold gpart, conf_remove. rewrite existsb_filter.
      apply (existsb_pw _ _ keyform); [exact Hk|]. intros n Hn. rewrite (pw_plugin p c n Hp Hc Hn).
      destruct (gterm n c') eqn:Eg; [|reflexivity]. rewrite (gterm_pterm n c' c p Eg). reflexivity.
    + intros c' p'. cbn [d_per]. rewrite per_has_set. unfold ppart, conf_remove. rewrite existsb_filter.
      rewrite (existsb_pw _ (fun n => pterm n c' p' && negb (pterm n c p)) keyform conf Hk);
        [|intros n Hn; rewrite (pw_plugin p c n Hp Hc Hn); reflexivity].
      destruct (seq_eqb (canon c') (canon c)) eqn:Ec.
      * apply seq_eqb_eq in Ec. unfold set_remove. rewrite mem_remove.
        destruct (seq_eqb (canon p') (canon p)) eqn:Ep.
        -- apply seq_eqb_eq in Ep. apply existsb_false. intro n. rewrite (pterm_same n c' p' c p Ec Ep).
           destruct (pterm n c p); reflexivity.
        -- transitivity (ppart conf c' p').
           ++ apply existsb_ext'. intro n. destruct (pterm n c' p') eqn:E1; [|reflexivity].
              destruct (pterm n c p) eqn:E2; [|reflexivity].
              destruct (pterm_agree n c' p' c p E1 E2) as [_ H]. congruence.
           ++ rewrite Ip. unfold per_has. rewrite Ec, Hget. reflexivity.
      * transitivity (ppart conf c' p').
        -- apply existsb_ext'. intro n. destruct (pterm n c' p') eqn:E1; [|reflexivity].
           destruct (pterm n c p) eqn:E2; [|reflexivity].
           destruct (pterm_agree n c' p' c p E1 E2) as [H _]. congruence.
        -- apply Ip.
    + apply Forall_conf_remove. exact Hk.
  - (* enable <command> everywhere *)
    rewrite andb_true_r in Hs. unfold dis_remove.
    destruct (memG (canon c) (d_all d)) eqn:Hmem; [|repeat split; assumption].
    assert (Hhas : conf_has (conf_key None c) conf = true).
    { rewrite (conf_has_all conf c Hk Hs), Ig. exact Hmem. }
    rewrite Hhas. unfold Inv. cbn [fst o_conf o_d]. split; [|split].
    + intro c'. cbn [d_all]. unfold set_remove. rewrite memG_remove. unfold gpart, conf_remove. rewrite existsb_filter.
      rewrite (existsb_pw _ (fun n => gterm n c' && negb (gterm n c)) keyform conf Hk);
        [|intros n Hn; rewrite (pw_all c n Hs Hn); reflexivity].
      destruct (seq_eqb (canon c') (canon c)) eqn:Ec.
      * apply seq_eqb_eq in Ec. apply existsb_false. intro n. rewrite (gterm_same n c' c Ec). destruct (gterm n c); reflexivity.
      * transitivity (gpart conf c'); [|apply Ig].
        apply existsb_ext'. intro n. destruct (gterm n c') eqn:E1; [|reflexivity].
        destruct (gterm n c) eqn:E2; [|reflexivity]. pose proof (gterm_agree n c' c E1 E2). congruence.
    + intros c' p'. cbn [d_per]. rewrite <- Ip. unfold ppart, conf_remove. rewrite existsb_filter.
      apply (existsb_pw _ _ keyform); [exact Hk|]. intros n Hn. rewrite (pw_all c n Hs Hn).
      destruct (pterm n c' p') eqn:Ep; [|reflexivity]. rewrite (pterm_gterm n c' p' c Ep). reflexivity.
    + apply Forall_conf_remove. exact Hk.
Qed.
End Step.

(* ---- histories: Owner.disable / Owner.enable, `config supybot.commands.disabled ...`, restarts ---- *)
Inductive hop : Type :=
| HOp (o : op)                       (* disable / enable through Owner *)
| HConfig (names : list str)         (* the registry value set at run time: the callback rebuilds the table (repair C14.F28) *)
| HRestart.                          (* registry written out and read back, DisabledCommands() built from it *)

Definition hstep (has_cmd : str -> str -> bool) (st : ostate) (h : hop) : ostate :=
  match h with
  | HOp o => fst (owner_step has_cmd st o)
  | HConfig names => OState (dis_of_conf names) names
  | HRestart => restart st
  end.
Definition hrun (has_cmd : str -> str -> bool) (st : ostate) (hs : list hop) : ostate := fold_left (hstep has_cmd) hs st.

(* names the theorem covers: characters canonicalName keeps, no '.'; a configured list holds keys of such names *)
Definition hop_ok (h : hop) : Prop :=
  match h with
  | HOp o => op_simple o = true
  | HConfig names => Forall keyform names
  | HRestart => True
  end.

Lemma Inv_hstep has_cmd st h : hop_ok h -> Inv st -> Inv (hstep has_cmd st h).
Proof.
  destruct h as [o|names|]; cbn [hop_ok hstep]; intros Hok HI.
  - apply Inv_step; assumption.
  - apply Inv_startup. exact Hok.
  - unfold restart. apply Inv_startup. destruct HI as (_ & _ & Hk). exact Hk.
Qed.

Lemma Inv_hrun has_cmd hs : forall st, Forall hop_ok hs -> Inv st -> Inv (hrun has_cmd st hs).
Proof.
  induction hs as [|h hs IH]; intros st Hok HI; [exact HI|].
  inversion Hok; subst. unfold hrun. cbn [fold_left]. apply IH; [assumption|]. apply Inv_hstep; assumption.
Qed.

Lemma entry_split n c' p' : entry_disables n c' p' = gterm n c' || pterm n c' p'.
Proof.
  unfold entry_disables, gterm, pterm, decode, DOT. destruct (split1 [46%N] n) as [[pl cm]|]; [reflexivity|].
  rewrite orb_false_r. reflexivity.
Qed.

Lemma Inv_answers st c p : Inv st -> dis_disabled (dis_of_conf (o_conf st)) c p = dis_disabled (o_d st) c p.
Proof.
  intros (Ig & Ip & _). rewrite startup_table. unfold dis_disabled. rewrite <- Ig, <- Ip. unfold gpart, ppart.
  rewrite <- (existsb_orb_comm (fun n => gterm n c) (fun n => pterm n c p)).
  apply existsb_ext'. intro n. apply entry_split.
Qed.

Lemma Inv_empty : Inv (OState dis_empty []).
Proof. repeat split; constructor. Qed.

(* a restart preserves the answers *)
Theorem restart_preserves has_cmd hs c p :
  Forall hop_ok hs ->
  let st := hrun has_cmd (OState dis_empty []) hs in
  dis_disabled (o_d (restart st)) c p = dis_disabled (o_d st) c p.
Proof. intros Hok st. unfold restart. cbn [o_d]. apply Inv_answers. apply Inv_hrun; [exact Hok|apply Inv_empty]. Qed.

(* ... from any start-up state too: the configuration file's list, whatever it holds of such keys *)
Theorem restart_preserves_from conf has_cmd hs c p :
  Forall keyform conf -> Forall hop_ok hs ->
  let st := hrun has_cmd (OState (dis_of_conf conf) conf) hs in
  dis_disabled (o_d (restart st)) c p = dis_disabled (o_d st) c p.
Proof. intros Hc Hok st. unfold restart. cbn [o_d]. apply Inv_answers. apply Inv_hrun; [exact Hok|apply Inv_startup; exact Hc]. Qed.

(* non-vacuity: disable Misc ping; disable ping... a mixed history of simple names, a configured list, restarts *)
Example restart_history_ok :
  Forall hop_ok [HOp (ODisable (Some s_misc) s_ping); HOp (ODisable None s_a); HRestart; HOp (OEnable (Some s_misc) s_ping);
                 HConfig [conf_key (Some s_al) s_a]; HOp (OEnable None s_a)] /\
  op_simple (ODisable (Some s_misc) s_ping) = true.
Proof.
  split; [|vm_compute; reflexivity].
  apply Forall_cons; [vm_compute; reflexivity|].
  apply Forall_cons; [vm_compute; reflexivity|].
  apply Forall_cons; [exact Logic.I|].
  apply Forall_cons; [vm_compute; reflexivity|].
  apply Forall_cons.
  { cbn [hop_ok]. apply Forall_cons; [|apply Forall_nil]. right. exists s_al, s_a. repeat split; vm_compute; reflexivity. }
  apply Forall_cons; [vm_compute; reflexivity|apply Forall_nil].
Qed.
