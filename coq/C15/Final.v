(* C15/Final.v — assembly: the file layer, the codec and the class-level round trips
   combined into the save/reload statements; instantiation of the tree theorems. *)
From Coq Require Import List NArith ZArith Bool Lia ZifyBool Arith.
Import ListNotations.
Require Import Base.Wire Base.PyStr C15.Model C15.Lemmas C15.Names C15.Codec C15.Split C15.File C15.Tree.
Open Scope N_scope.

Lemma codec_v : forall s, vstr s = true -> udec (uesc s) = Ok s.
Proof. exact udec_uesc. Qed.
Lemma evalrepr_v : forall s, vstr s = true -> py_eval (py_repr s) = Ok s.
Proof. exact py_eval_repr. Qed.

Lemma name_roundtrip : forall ns, ns <> [] -> Forall (fun n => vstr n = true) ns -> split (join_names ns) = Ok ns.
Proof. exact (split_join codec_v). Qed.

(* the empty list is not a name: join gives the empty text, which splits into one empty name *)
Example name_roundtrip_empty : split (join_names []) = Ok [[]].
Proof. vm_compute. reflexivity. Qed.

Definition reload_ok := reload_transparent codec_v uesc_no_crlf uesc_trailing_bsl_even.

(* a text py_eval accepts has only valid code points *)
Lemma py_eval_ok_vstr t x : py_eval t = Ok x -> vstr t = true.
Proof.
  unfold py_eval. destruct (mem 0 t || existsb is_surrogate t) eqn:E1; [discriminate|]. cbn [orb].
  destruct (existsb (fun c => MAXCP <=? c) t) eqn:E2; [discriminate|]. intros _.
  unfold vstr. apply forallb_forall. intros c Hc.
  destruct (c <? MAXCP) eqn:E3; [reflexivity|].
  assert (existsb (fun c => MAXCP <=? c) t = true).
  { apply existsb_exists. exists c. split; [exact Hc|]. lia. }
  congruence.
Qed.

Lemma vstr_string_str v : vstr v = true -> vstr (string_str v) = true.
Proof.
  intro H. unfold string_str. destruct (needs_quoting v); [|exact H].
  apply (py_eval_ok_vstr _ v). apply evalrepr_v. exact H.
Qed.

Lemma string_reload : forall name fresh oks v,
  name_ok name = true -> vstr v = true -> hd_ok oks = true ->
  reload name KString fresh oks (PS v) = Ok (PS v).
Proof.
  intros name fresh oks v Hn Hv Ho.
  rewrite reload_ok; [|exact Hn|cbn [str_of]; apply vstr_string_str; exact Hv].
  apply (string_set_roundtrip evalrepr_v); assumption.
Qed.

(* the old witnesses of F16 *)
Example string_reload_quotes :
  reload [118] KString (PS []) [] (PS [DQ]) = Ok (PS [DQ]) /\
  reload [118] KString (PS []) [] (PS [DQ; 97; DQ]) = Ok (PS [DQ; 97; DQ]).
Proof. vm_compute. split; reflexivity. Qed.

(* names as the registry builds them: join_names of blank-free components, not a comment line *)
Lemma joined_name_ok ns :
  nows (join_names ns) = true -> startswith [HASH] (join_names ns) = false -> name_ok (join_names ns) = true.
Proof. intros H1 H2. unfold name_ok. rewrite H1, H2, join_names_escpar. reflexivity. Qed.

Lemma boolean_reload : forall name fresh oks b,
  name_ok name = true -> hd_ok oks = true -> reload name KBoolean fresh oks (PB b) = Ok (PB b).
Proof.
  intros name fresh oks b Hn Ho. rewrite reload_ok; [|exact Hn|destruct b; vm_compute; reflexivity].
  apply bool_roundtrip. exact Ho.
Qed.

Lemma vstr_digits s : forallb isdig s = true -> vstr s = true.
Proof.
  unfold vstr. intro H. rewrite forallb_forall in *. intros c Hc. specialize (H c Hc).
  unfold isdig in H. unfold MAXCP. lia.
Qed.

Lemma vstr_Z_str z : vstr (Z_str z) = true.
Proof.
  unfold Z_str. destruct (Z.to_int z) as [u|u].
  - apply vstr_digits. apply uint_str_digits.
  - unfold vstr. cbn [forallb]. fold (vstr (uint_str u)). rewrite (vstr_digits _ (uint_str_digits u)). reflexivity.
Qed.

Lemma integer_reload : forall name lo fresh oks z,
  name_ok name = true -> hd_ok oks = true -> int_accepts lo z = true ->
  reload name (KInteger lo) fresh oks (PI z) = Ok (PI z).
Proof.
  intros name lo fresh oks z Hn Ho Ha. rewrite reload_ok; [|exact Hn|cbn [str_of]; apply vstr_Z_str].
  apply int_roundtrip; assumption.
Qed.

(* space separated lists of strings: the lists of non-empty blank-free elements survive save/reload,
   and that is everything .set() can store *)
Lemma spacelist_reload : forall name fresh oks l,
  name_ok name = true -> forallb (fun b : bool => b) oks = true ->
  forallb tok_ok l = true -> forallb vstr l = true ->
  reload name (KSpaceList false) fresh oks (PL l) = Ok (PL l).
Proof.
  intros name fresh oks l Hn Ho Hl Hv. rewrite reload_ok; [|exact Hn|].
  - apply spacelist_roundtrip_iff; assumption.
  - cbn [str_of]. destruct l; [reflexivity|]. apply vstr_join_sp. exact Hv.
Qed.

Lemma spacelist_set_reload : forall name fresh cur oks s,
  name_ok name = true -> forallb (fun b : bool => b) oks = true -> vstr s = true ->
  exists l, set_text (KSpaceList false) cur oks s = Ok (PL l) /\
            reload name (KSpaceList false) fresh oks (PL l) = Ok (PL l).
Proof.
  intros name fresh cur oks s Hn Ho Hs. exists (split_ws s). split; [apply spacelist_set; exact Ho|].
  apply spacelist_reload; [exact Hn|exact Ho|apply split_ws_tokens_ok|apply split_ws_vstr; exact Hs].
Qed.

Lemma spacelist_value_safe_iff : forall dflt l,
  safe pv (k_reparse (KSpaceList false) dflt) (PL l) <-> forallb tok_ok l = true.
Proof.
  intros dflt l. unfold safe, k_reparse. apply spacelist_roundtrip_iff. vm_compute. reflexivity.
Qed.

(* the hypothesis of the tree theorems is exact: a general value that str()/set() does not reproduce
   already breaks getSpecific for a channel never seen before *)
Lemma specific_safe_necessary :
  forall (V : Type) (reparse : V -> res V) (settext : V -> str -> res V) (v : V) (c : str),
  reparse v <> Ok v ->
  snd (step V reparse settext (mktree V v [] []) (OGet (AC c))) <> Ok (resolve V (mkspec V v [] [] []) (AC c)).
Proof.
  intros V reparse settext v c H. cbn. destruct (reparse v) as [w|e] eqn:E; cbn.
  - intro K. inversion K. subst w. apply H. reflexivity.
  - discriminate.
Qed.

(* round-trip safe values never disturb the tree: String values of the domain, booleans, integers *)
Lemma string_value_safe : forall dflt v, vstr v = true -> safe pv (k_reparse KString dflt) (PS v).
Proof.
  intros dflt v Hv. unfold safe, k_reparse.
  apply (string_set_roundtrip evalrepr_v); [exact Hv|reflexivity].
Qed.
Lemma boolean_value_safe : forall dflt b, safe pv (k_reparse KBoolean dflt) (PB b).
Proof. intros dflt b. unfold safe, k_reparse. apply bool_roundtrip. reflexivity. Qed.
Lemma integer_value_safe : forall lo dflt z, int_accepts lo z = true -> safe pv (k_reparse (KInteger lo) dflt) (PI z).
Proof. intros lo dflt z H. unfold safe, k_reparse. apply int_roundtrip; [reflexivity|exact H]. Qed.

(* the old witness of F16 in the tree: the general value DQ resolves for a channel *)
Example specific_quote :
  snd (step pv (k_reparse KString (PS [])) (k_settext KString) (mktree pv (PS [DQ]) [] []) (OGet (AC [35; 97])))
  = Ok (PS [DQ]).
Proof. vm_compute. reflexivity. Qed.
