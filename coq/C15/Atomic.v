(* C15/Atomic.v — a rejected set leaves the stored value untouched, for every class of the
   regenerated inventory: soundness of the outcome sets w.r.t. runs + reflection over the table. *)
From Coq Require Import List NArith Bool.
Import ListNotations.
Require Import Base.Wire Base.PyStr C15.Model.
Require Import gen.T15.

(* every run is one of the outcomes *)
Lemma exec_in_outs p : forall o d, In (fst (exec p o d)) (outs p d).
Proof.
  induction p; intros o d; cbn [exec outs].
  - left. reflexivity.
  - destruct o as [|b o']; [left; reflexivity|]. destruct b; cbn [fst]; [right; left|left]; reflexivity.
  - left. reflexivity.
  - left. reflexivity.
  - specialize (IHp1 o d). destruct (exec p1 o d) as [x o1]. cbn [fst] in IHp1.
    apply in_flat_map. exists x. split; [exact IHp1|].
    destruct x as [d1 r]. cbn [fst snd]. destruct r; [left; reflexivity|apply IHp2].
  - apply in_or_app. destruct o as [|c o'].
    + right. apply IHp2.
    + destruct c; [left; apply IHp1|right; apply IHp2].
  - specialize (IHp1 o d). destruct (exec p1 o d) as [x o1]. cbn [fst] in IHp1.
    apply in_flat_map. exists x. split; [exact IHp1|].
    destruct x as [d1 r]. cbn [fst snd]. destruct r.
    + destruct o1 as [|c o2]; [left; reflexivity|]. destruct c; [right; apply IHp2|left; reflexivity].
    + left. reflexivity.
Qed.

(* an atomic program, however its checks, side effects and branches behave: raised -> nothing assigned *)
Lemma atomic_sound p : atomic p = true ->
  forall o, let r := fst (exec p o false) in snd r = true -> fst r = false.
Proof.
  intros H o r Hr. unfold atomic in H. rewrite forallb_forall in H.
  specialize (H r (exec_in_outs p o false)). rewrite Hr in H. cbn [andb] in H.
  destruct (fst r); [discriminate|reflexivity].
Qed.

Lemma table_atomic_sound t : table_atomic t = true ->
  forall name pset psetvalue, In (name, pset, psetvalue) t ->
  forall o,
    (snd (fst (exec pset o false)) = true -> fst (fst (exec pset o false)) = false) /\
    (snd (fst (exec psetvalue o false)) = true -> fst (fst (exec psetvalue o false)) = false).
Proof.
  intros H name ps pv Hin o. unfold table_atomic in H. rewrite forallb_forall in H.
  specialize (H _ Hin). cbn [fst snd] in H. apply andb_true_iff in H as [H1 H2].
  split; [apply (atomic_sound ps H1 o)|apply (atomic_sound pv H2 o)].
Qed.

(* the regenerated table: every class of the inventory (every registry value class defined anywhere in src/ and
   plugins/) is there; every program is atomic except those of the classes listed in ATOMIC_EXCEPTIONS (recorded
   findings), and these really are not *)
Definition excepted (name : list N) : bool := existsb (seq_eqb name) ATOMIC_EXCEPTIONS.
Definition checked_table : list (list N * stm * stm) :=
  filter (fun e : list N * stm * stm => negb (excepted (fst (fst e)))) ATOMIC_TABLE.

Lemma table_covers_inventory : map (fun e => fst (fst e)) ATOMIC_TABLE = INVENTORY.
Proof. vm_compute. reflexivity. Qed.

Lemma inventory_table_atomic : table_atomic checked_table = true.
Proof. vm_compute. reflexivity. Qed.

Lemma exceptions_are_not_atomic :
  forallb (fun e : list N * stm * stm => negb (excepted (fst (fst e))) || negb (atomic (snd (fst e)) && atomic (snd e))) ATOMIC_TABLE = true.
Proof. vm_compute. reflexivity. Qed.

Lemma reject_atomic_all_classes :
  forall name, In name INVENTORY -> excepted name = false ->
  exists pset psetvalue, In (name, pset, psetvalue) ATOMIC_TABLE /\
  forall o,
    (snd (fst (exec pset o false)) = true -> fst (fst (exec pset o false)) = false) /\
    (snd (fst (exec psetvalue o false)) = true -> fst (fst (exec psetvalue o false)) = false).
Proof.
  intros name Hin Hex. rewrite <- table_covers_inventory in Hin. apply in_map_iff in Hin as [[[n ps] pv] [E Hin]].
  cbn [fst] in E. subst n. exists ps, pv. split; [exact Hin|].
  apply (table_atomic_sound checked_table inventory_table_atomic name ps pv).
  unfold checked_table. apply filter_In. split; [exact Hin|]. cbn [fst]. rewrite Hex. reflexivity.
Qed.

(* no exception is left in the regenerated table: EVERY class of the inventory *)
Lemma no_exception name : excepted name = false.
Proof. reflexivity. Qed.

Lemma reject_atomic_every_class :
  forall name, In name INVENTORY ->
  exists pset psetvalue, In (name, pset, psetvalue) ATOMIC_TABLE /\
  forall o,
    (snd (fst (exec pset o false)) = true -> fst (fst (exec pset o false)) = false) /\
    (snd (fst (exec psetvalue o false)) = true -> fst (fst (exec psetvalue o false)) = false).
Proof. intros name Hin. apply reject_atomic_all_classes; [exact Hin|apply no_exception]. Qed.

(* the shape log.BooleanRequiredFalseOnWindows.set had before the repair of C15.F33: Boolean.set (which stores), then
   the Windows test and self.error() *)
Example store_then_reject_old_shape :
  let old := SSeq (SSeq (STry SCheck (SSeq SCheck (SIf SSkip SError))) (SSeq SCheck SAssign)) (SSeq SCheck (SIf SError SSkip)) in
  atomic old = false /\ exists o, fst (exec old o false) = (true, true).
Proof. split; [vm_compute; reflexivity|]. exists [false; false; false; true]. vm_compute. reflexivity. Qed.

(* the ordering the table must exclude (C15.F25 before its repair): check; store; side effect that may raise *)
Example store_then_effect_not_atomic :
  atomic (SSeq (SSeq SCheck (SIf SError SSkip)) (SSeq SAssign SCheck)) = false /\
  exists o, fst (exec (SSeq (SSeq SCheck (SIf SError SSkip)) (SSeq SAssign SCheck)) o false) = (true, true).
Proof. split; [vm_compute; reflexivity|]. exists [false; false; true]. vm_compute. reflexivity. Qed.

(* non-vacuity: programs do raise, and do assign *)
Example integer_set_runs :
  fst (exec (STry (SSeq SCheck SAssign) SError) [true; true] false) = (false, true) /\
  fst (exec (STry (SSeq SCheck SAssign) SError) [false] false) = (true, false).
Proof. vm_compute. split; reflexivity. Qed.
