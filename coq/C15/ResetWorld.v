(* C15/ResetWorld.v — `config reset channel #c var`, then flush, then `config reload`, then a read:
   the reset does not come back.  The reset drops the node's entry from registry._cache (repair of
   C15.F29); the flush writes no line for the unset node (and the lazy reloads it performs while
   serializing never touch that node); the reload re-reads the file WITHOUT clearing the cache, so the
   node's name stays absent from the cache; the read then finds nothing to re-apply. *)
From Coq Require Import List NArith ZArith Bool Arith Lia.
Import ListNotations.
Require Import Base.Wire Base.PyStr C15.Model C15.Lemmas C15.File C15.FileMulti C15.Gen C15.Reset.

(* ------------------------------------------------------------------ *)
(* path_eqb is an equivalence *)
Lemma path_eqb_map a b : path_eqb a b = true <-> map lower a = map lower b.
Proof.
  revert b. induction a as [|x a IH]; intros [|y b]; cbn [path_eqb map]; split; intro H;
    try reflexivity; try discriminate.
  - apply andb_true_iff in H. destruct H as [H1 H2]. apply seq_eqb_eq in H1. apply IH in H2. congruence.
  - injection H as H1 H2. apply andb_true_iff. split; [apply seq_eqb_eq; exact H1 | apply IH; exact H2].
Qed.
Lemma path_eqb_trans a b c : path_eqb a b = true -> path_eqb b c = true -> path_eqb a c = true.
Proof. rewrite !path_eqb_map. congruence. Qed.

(* ------------------------------------------------------------------ *)
(* (3) the cache: a name is absent iff no key equals it after lower() *)
Lemma cache_get_none_iff k c : cache_get k c = None <-> ~ In (lower k) (map lkey c).
Proof.
  split; [|apply cache_get_absent].
  induction c as [|[k' v'] c IH]; cbn [cache_get map In]; [tauto|].
  destruct (cache_get k c) eqn:E; [discriminate|].
  destruct (seq_eqb (lower k') (lower k)) eqn:E2; [discriminate|].
  intros _. apply seq_eqb_neq in E2. unfold lkey at 1. cbn [fst].
  intros [K|K]; [congruence | exact (IH eq_refl K)].
Qed.

Lemma cache_del_absent k c : ~ In (lower k) (map lkey (cache_del k c)).
Proof.
  unfold cache_del. intro H. apply in_map_iff in H. destruct H as [kv [E H]].
  apply filter_In in H. destruct H as [_ H].
  apply negb_true_iff in H. apply seq_eqb_neq in H. unfold lkey in E. congruence.
Qed.
Lemma cache_get_del k c : cache_get k (cache_del k c) = None.
Proof. apply cache_get_none_iff, cache_del_absent. Qed.

Lemma cache_put_absent n k v c :
  lower n <> lower k -> ~ In (lower n) (map lkey c) -> ~ In (lower n) (map lkey (cache_put k v c)).
Proof.
  intros Hk. induction c as [|[k' v'] c IH]; cbn [cache_put]; intro H.
  - cbn [map In]. unfold lkey; cbn [fst]. intros [K|[]]. congruence.
  - destruct (seq_eqb (lower k) (lower k')) eqn:E; cbn [map In]; unfold lkey at 1; cbn [fst].
    + intros [K|K]; [congruence | apply H; right; exact K].
    + intros [K|K]; [apply H; left; exact K |].
      revert K. apply IH. intro K. apply H. right. exact K.
Qed.
Lemma cache_get_put_other n k v c :
  seq_eqb (lower n) (lower k) = false -> cache_get n c = None -> cache_get n (cache_put k v c) = None.
Proof.
  intros Hk H. apply cache_get_none_iff. apply cache_put_absent.
  - apply seq_eqb_neq. exact Hk.
  - apply cache_get_none_iff. exact H.
Qed.
Lemma cache_fold_absent n kvs : forall c,
  (forall kv, In kv kvs -> seq_eqb (lower n) (lower (fst kv)) = false) ->
  cache_get n c = None ->
  cache_get n (fold_left (fun c kv => cache_put (fst kv) (snd kv) c) kvs c) = None.
Proof.
  induction kvs as [|kv kvs IH]; intros c Hk H; [exact H|]. cbn [fold_left].
  apply IH; [intros kv' K; apply Hk; right; exact K|].
  apply cache_get_put_other; [apply Hk; left; reflexivity | exact H].
Qed.
(* reset, then any reload of a file without the name: the name is still absent *)
Lemma cache_reload_none n kvs c :
  (forall kv, In kv kvs -> seq_eqb (lower n) (lower (fst kv)) = false) ->
  cache_get n (fold_left (fun c kv => cache_put (fst kv) (snd kv) c) kvs (cache_del n c)) = None.
Proof. intro H. apply cache_fold_absent; [exact H | apply cache_get_del]. Qed.

(* ------------------------------------------------------------------ *)
(* (2) the node list: "node q exists and every entry answering to q is unset" *)
Definition has (q : path) (l : list (path * tnode)) : Prop :=
  exists e, In e l /\ path_eqb q (fst e) = true.
Definition all_unset (q : path) (l : list (path * tnode)) : Prop :=
  forall e, In e l -> path_eqb q (fst e) = true -> tn_set (snd e) = false.
Definition J (q : path) (l : list (path * tnode)) : Prop := has q l /\ all_unset q l.
(* no two entries of a node list answer to the same path *)
Fixpoint nodup_keys (l : list (path * tnode)) : Prop :=
  match l with
  | [] => True
  | e :: l' => (forall e', In e' l' -> path_eqb (fst e) (fst e') = false) /\ nodup_keys l'
  end.

Lemma tn_get_in q l x : tn_get q l = Some x -> exists k, In (k, x) l /\ path_eqb q k = true.
Proof.
  induction l as [|[q1 y] l IH]; cbn [tn_get]; [discriminate|].
  destruct (path_eqb q q1) eqn:E.
  - intro H. inversion H. subst y. exists q1. split; [left; reflexivity | exact E].
  - intro H. destruct (IH H) as [k [Hi Hk]]. exists k. split; [right; exact Hi | exact Hk].
Qed.
Lemma tn_get_none_in q l : tn_get q l = None -> forall e, In e l -> path_eqb q (fst e) = false.
Proof.
  induction l as [|[q1 y] l IH]; cbn [tn_get]; [intros _ e []|].
  destruct (path_eqb q q1) eqn:E; [discriminate|].
  intros H e [K|K]; [subst e; exact E | exact (IH H e K)].
Qed.
Lemma has_get q l : has q l -> exists x, tn_get q l = Some x.
Proof.
  intros [e [Hi He]]. destruct (tn_get q l) as [x|] eqn:E; [exists x; reflexivity|].
  rewrite (tn_get_none_in q l E e Hi) in He. discriminate.
Qed.
Lemma J_get q l : J q l -> exists x, tn_get q l = Some x /\ tn_set x = false.
Proof.
  intros [Hh Hu]. destruct (has_get q l Hh) as [x Hx]. exists x. split; [exact Hx|].
  destruct (tn_get_in q l x Hx) as [k [Hi Hk]]. exact (Hu (k, x) Hi Hk).
Qed.
Lemma J_flag q tv : J q (tv_nodes tv) -> t_flag tv q = false.
Proof. intro H. destruct (J_get _ _ H) as [x [Hx Hs]]. unfold t_flag. rewrite Hx. exact Hs. Qed.

Lemma J_map q (g : path * tnode -> path * tnode) l :
  (forall e, fst (g e) = fst e) -> (forall e, g e = e \/ tn_set (snd (g e)) = false) ->
  J q l -> J q (map g l).
Proof.
  intros Hk Hg [[e [Hi He]] Hu]. split.
  - exists (g e). split; [apply in_map; exact Hi | rewrite Hk; exact He].
  - intros e' Hi' He'. apply in_map_iff in Hi'. destruct Hi' as [e0 [E Hi0]]. subst e'.
    destruct (Hg e0) as [K|K]; [|exact K]. rewrite K in *. exact (Hu e0 Hi0 He').
Qed.
Lemma J_push q tv p v now l :
  J q l -> J q (map (fun e : path * tnode => if follows tv p (fst e) then (fst e, mktn v false now) else e) l).
Proof.
  apply J_map; intro e; destruct (follows tv p (fst e)); cbn [fst snd tn_set]; auto.
Qed.

Lemma tn_put_in p x l e : In e (tn_put p x l) -> In e l \/ (path_eqb p (fst e) = true /\ snd e = x).
Proof.
  induction l as [|[q1 y] l IH]; cbn [tn_put].
  - intros [K|[]]. subst e. right. cbn [fst snd]. split; [apply path_eqb_refl | reflexivity].
  - destruct (path_eqb p q1) eqn:E.
    + intros [K|K]; [subst e; right; cbn [fst snd]; split; [exact E | reflexivity] | left; right; exact K].
    + intros [K|K]; [left; left; exact K|]. destruct (IH K) as [K'|K']; [left; right; exact K' | right; exact K'].
Qed.
Lemma tn_put_keep p x l e : In e l -> path_eqb p (fst e) = false -> In e (tn_put p x l).
Proof.
  induction l as [|[q1 y] l IH]; cbn [tn_put]; [intros []|].
  intros [K|K] He.
  - subst e. cbn [fst] in He. rewrite He. left. reflexivity.
  - destruct (path_eqb p q1); [right; exact K | right; exact (IH K He)].
Qed.
Lemma J_put_other q p x l : path_eqb q p = false -> J q l -> J q (tn_put p x l).
Proof.
  intros Hqp [[e [Hi He]] Hu].
  assert (Hno : forall e' : path * tnode, path_eqb q (fst e') = true -> path_eqb p (fst e') = false).
  { intros e' H. destruct (path_eqb p (fst e')) eqn:E; [|reflexivity].
    rewrite path_eqb_sym in E. rewrite (path_eqb_trans _ _ _ H E) in Hqp. discriminate. }
  split.
  - exists e. split; [apply tn_put_keep; [exact Hi | exact (Hno e He)] | exact He].
  - intros e' Hi' He'. destruct (tn_put_in _ _ _ _ Hi') as [K|[K _]]; [exact (Hu e' K He')|].
    rewrite (Hno e' He') in K. discriminate.
Qed.
Lemma J_put_self q x l : nodup_keys l -> tn_set x = false -> J q (tn_put q x l).
Proof.
  intros Hnd Hx. split.
  - destruct (tn_get_in q _ x (tn_get_put_same q x l)) as [k [Hi Hk]]. exists (k, x). split; assumption.
  - induction l as [|[q1 y] l IH]; cbn [tn_put].
    + intros e [K|[]] _. subst e. exact Hx.
    + destruct Hnd as [Hh Hnd]. cbn [fst] in Hh. destruct (path_eqb q q1) eqn:E.
      * intros e [K|K] He; [subst e; exact Hx|].
        rewrite path_eqb_sym in E. pose proof (Hh e K) as F. rewrite (path_eqb_trans _ _ _ E He) in F. discriminate.
      * intros e [K|K] He; [subst e; cbn [fst] in He; congruence | exact (IH Hnd e K He)].
Qed.

(* _setValue on another node leaves the invariant alone; the reset establishes it *)
Lemma J_setvalue_other q tv p v now :
  path_eqb q p = false -> J q (tv_nodes tv) -> J q (tv_nodes (t_setvalue tv p v false now)).
Proof.
  intros Hqp HJ. unfold t_setvalue. destruct p as [|a p']; cbn [tv_nodes]; apply J_push; [exact HJ|].
  apply J_put_other; assumption.
Qed.
Lemma J_setvalue_self q tv v now :
  q <> [] -> nodup_keys (tv_nodes tv) -> J q (tv_nodes (t_setvalue tv q v true now)).
Proof.
  intros Hq Hnd. unfold t_setvalue. destruct q as [|a q']; [congruence|]. cbn [tv_nodes negb].
  apply J_push. apply J_put_self; [exact Hnd | reflexivity].
Qed.

Lemma nodup_keys_snoc l q y : nodup_keys l -> tn_get q l = None -> nodup_keys (l ++ [(q, y)]).
Proof.
  induction l as [|[q1 y1] l IH]; cbn [app nodup_keys tn_get].
  - intros _ _. split; [intros e' []|exact Logic.I].
  - intros [Hh Hnd]. cbn [fst] in *. destruct (path_eqb q q1) eqn:E; [discriminate|]. intro Hg. split.
    + intros e' K. apply in_app_or in K. destruct K as [K|[K|[]]]; [exact (Hh e' K)|].
      subst e'. cbn [fst]. rewrite path_eqb_sym. exact E.
    + exact (IH Hnd Hg).
Qed.
Lemma tensure_nodup d C now tv p tv1 :
  tensure d C now tv p = Ok tv1 -> nodup_keys (tv_nodes tv) -> nodup_keys (tv_nodes tv1).
Proof.
  unfold tensure. destruct (tn_get p (tv_nodes tv)) eqn:E.
  - intro H. inversion H. subst tv1. trivial.
  - destruct (k_reparse (d_kind d) (d_dflt d) (t_parent_val tv p)) as [v0|]; cbn [bind]; [|discriminate].
    destruct (cache_get (join_names (d_ns d ++ p)) C) as [x|].
    + destruct (k_settext (d_kind d) v0 x) as [v|]; cbn [bind]; [|discriminate].
      intro H. inversion H. subst tv1. cbn [tv_nodes]. intro Hnd. apply nodup_keys_snoc; assumption.
    + intro H. inversion H. subst tv1. cbn [tv_nodes]. intro Hnd. apply nodup_keys_snoc; assumption.
Qed.
(* the body of treset for `reset channel c` / `reset network n` *)
Lemma reset_body_J d C now tv q tv' :
  q <> [] -> nodup_keys (tv_nodes tv) ->
  (do tv1 <- tensure d C now tv q; Ok (t_setvalue tv1 q (tv_v tv1) true now)) = Ok tv' ->
  J q (tv_nodes tv').
Proof.
  intros Hq Hnd. destruct (tensure d C now tv q) as [tv1|] eqn:E; cbn [bind]; [|discriminate].
  intro H. inversion H. subst tv'. apply J_setvalue_self; [exact Hq|].
  exact (tensure_nodup _ _ _ _ _ _ E Hnd).
Qed.

(* the lazy reload on another node, and the whole flush *)
Lemma tcall_J q d C glm now tv p r :
  path_eqb q p = false -> tcall d C glm now tv p = Ok r -> J q (tv_nodes tv) -> J q (tv_nodes (fst r)).
Proof.
  intros Hqp. unfold tcall. destruct (Nat.ltb (t_lm tv p) glm).
  - destruct (cache_get (join_names (d_ns d ++ p)) C) as [x|].
    + destruct (k_settext (d_kind d) (t_val tv p) x) as [v|]; cbn [bind]; [|discriminate].
      intro H. inversion H. subst r. cbn [fst]. apply J_setvalue_other. exact Hqp.
    + intro H. inversion H. subst r. trivial.
  - intro H. inversion H. subst r. trivial.
Qed.
Lemma tsave_nodes_J q d C glm now ps : forall tv r,
  (forall p, In p ps -> path_eqb q p = false) ->
  tsave_nodes d C glm now tv ps = Ok r -> J q (tv_nodes tv) -> J q (tv_nodes (fst r)).
Proof.
  induction ps as [|p ps IH]; intros tv r Hps; cbn [tsave_nodes].
  - intro H. inversion H. subst r. trivial.
  - destruct (if str_calls (d_kind d) then tcall d C glm now tv p else Ok (tv, t_val tv p)) as [r1|] eqn:E1;
      cbn [bind]; [|discriminate].
    destruct (tsave_nodes d C glm now (fst r1) ps) as [r2|] eqn:E2; cbn [bind]; [|discriminate].
    intro H. inversion H. subst r. cbn [fst]. intro HJ.
    apply (IH (fst r1) r2); [intros p' K; apply Hps; right; exact K | exact E2 |].
    destruct (str_calls (d_kind d)).
    + apply (tcall_J q d C glm now tv p r1); [apply Hps; left; reflexivity | exact E1 | exact HJ].
    + inversion E1. subst r1. exact HJ.
Qed.
Lemma tsave_var_J q d C glm now tv r :
  q <> [] -> tsave_var d C glm now tv = Ok r -> J q (tv_nodes tv) -> J q (tv_nodes (fst r)).
Proof.
  intros Hq H HJ. unfold tsave_var in H. refine (tsave_nodes_J q d C glm now _ tv r _ H HJ).
  intros p [K|K].
  - subst p. destruct q; [congruence|reflexivity].
  - apply in_flat_map in K. destruct K as [e [Hi He]]. destruct (tn_set (snd e)) eqn:Es; [|destruct He].
    destruct He as [He|[]]. subst p. destruct (path_eqb q (fst e)) eqn:E; [|reflexivity].
    destruct HJ as [_ Hu]. rewrite (Hu e Hi E) in Es. discriminate.
Qed.
Lemma tsave_all_J q C glm now : forall D vs r i,
  q <> [] -> tsave_all D C glm now vs = Ok r ->
  J q (tv_nodes (nth i vs tv_dflt)) -> J q (tv_nodes (nth i (fst r) tv_dflt)).
Proof.
  induction D as [|d D IH]; intros vs r i Hq; cbn [tsave_all].
  - intro H. inversion H. subst r. trivial.
  - destruct vs as [|tv vs]; [intro H; inversion H; subst r; trivial|].
    destruct (tsave_var d C glm now tv) as [r1|] eqn:E1; cbn [bind]; [|discriminate].
    destruct (tsave_all D C glm now vs) as [r2|] eqn:E2; cbn [bind]; [|discriminate].
    intro H. inversion H. subst r. cbn [fst]. destruct i as [|i]; cbn [nth].
    + exact (tsave_var_J q d C glm now tv r1 Hq E1).
    + exact (IH vs r2 i Hq E2).
Qed.

(* ------------------------------------------------------------------ *)
(* nth_upd *)
Lemma nth_upd_nth {A} (f : A -> res A) (dflt : A) : forall l i l',
  nth_upd i f l = Ok l' -> (i < length l)%nat -> f (nth i l dflt) = Ok (nth i l' dflt).
Proof.
  induction l as [|x l IH]; intros i l' H Hi; [cbn [length] in Hi; lia|].
  destruct i as [|i]; cbn [nth_upd] in H.
  - destruct (f x) as [y|] eqn:E; cbn [bind] in H; [|discriminate]. inversion H. subst l'. cbn [nth]. exact E.
  - destruct (nth_upd i f l) as [r|] eqn:E; cbn [bind] in H; [|discriminate]. inversion H. subst l'. cbn [nth].
    apply IH; [exact E | cbn [length] in Hi; lia].
Qed.
Lemma nth_upd_same {A} (dflt : A) : forall l i, nth_upd i (fun _ => Ok (nth i l dflt)) l = Ok l.
Proof.
  induction l as [|x l IH]; intros i; [destruct i; reflexivity|].
  destruct i as [|i]; cbn [nth_upd nth bind]; [reflexivity|]. rewrite IH. reflexivity.
Qed.

(* ------------------------------------------------------------------ *)
(* (4) the read of an unset node whose name is absent from the cache *)
Lemma tread_body_unset d C glm now tv q :
  J q (tv_nodes tv) -> cache_get (join_names (d_ns d ++ q)) C = None ->
  (do tv1 <- tensure d C now tv q; tcall d C glm now tv1 q) = Ok (tv, t_val tv q).
Proof.
  intros HJ Hc. destruct (J_get _ _ HJ) as [x [Hx _]]. unfold tensure. rewrite Hx. cbn [bind].
  unfold tcall. rewrite Hc. destruct (Nat.ltb (t_lm tv q) glm); reflexivity.
Qed.

(* ------------------------------------------------------------------ *)
(* one operation of trun *)
Lemma trun_one_reset D w i a w1 out :
  trun D w [TReset i a] = Ok (w1, out) ->
  exists vs, nth_upd i (fun tv => treset (nth i D dflt_decl) (w_cache w) (S (w_clk w)) tv a) (w_vars w) = Ok vs /\
    w1 = mktw (S (w_clk w)) (w_glm w) (reset_forget (nth i D dflt_decl) a (w_cache w)) (w_file w) vs /\ out = [].
Proof.
  cbn [trun].
  destruct (nth_upd i (fun tv => treset (nth i D dflt_decl) (w_cache w) (S (w_clk w)) tv a) (w_vars w)) as [vs|];
    cbn [bind fst snd app]; [|discriminate].
  intro H. inversion H. exists vs. repeat split.
Qed.
Lemma trun_one_save D w w2 out :
  trun D w [TSave] = Ok (w2, out) ->
  exists r, tsave_all D (w_cache w) (w_glm w) (S (w_clk w)) (w_vars w) = Ok r /\
    w2 = mktw (S (w_clk w)) (w_glm w) (w_cache w) (snd r) (fst r) /\ out = [].
Proof.
  cbn [trun].
  destruct (tsave_all D (w_cache w) (w_glm w) (S (w_clk w)) (w_vars w)) as [r|]; cbn [bind fst snd app]; [|discriminate].
  intro H. inversion H. exists r. repeat split.
Qed.
Lemma trun_one_reload D w w3 out :
  trun D w [TReload] = Ok (w3, out) ->
  exists kvs, open_registry (file_text (w_file w)) = Ok kvs /\
    w3 = mktw (S (w_clk w)) (S (w_clk w)) (fold_left (fun c kv => cache_put (fst kv) (snd kv) c) kvs (w_cache w))
              (w_file w) (w_vars w) /\ out = [].
Proof.
  cbn [trun].
  destruct (open_registry (file_text (w_file w))) as [kvs|]; cbn [bind fst snd app]; [|discriminate].
  intro H. inversion H. exists kvs. repeat split.
Qed.
Lemma trun_one_read D w i a v :
  tread (nth i D dflt_decl) (w_cache w) (w_glm w) (S (w_clk w)) (nth i (w_vars w) tv_dflt) a
    = Ok (nth i (w_vars w) tv_dflt, v) ->
  trun D w [TRead i a] = Ok (mktw (S (w_clk w)) (w_glm w) (w_cache w) (w_file w) (w_vars w), [v]).
Proof.
  intros H. cbn [trun]. rewrite H. cbn [bind fst snd]. rewrite nth_upd_same. reflexivity.
Qed.

(* ------------------------------------------------------------------ *)
(* the assembled statement, for `reset channel c` (a = AC c) and `reset network c` (a = AN c) *)
Lemma reset_survives_gen D w i a c w1 w2 w3 :
  a = AC c \/ a = AN c ->
  (i < length (w_vars w))%nat ->
  nodup_keys (tv_nodes (nth i (w_vars w) tv_dflt)) ->
  trun D w [TReset i a] = Ok (w1, []) ->
  trun D w1 [TSave] = Ok (w2, []) ->
  forallb line_ok (w_file w2) = true ->
  (forall kv, In kv (w_file w2) ->
     seq_eqb (lower (join_names (d_ns (nth i D dflt_decl) ++ [c]))) (lower (fst kv)) = false) ->
  trun D w2 [TReload] = Ok (w3, []) ->
  let d := nth i D dflt_decl in
  let tv := nth i (w_vars w3) tv_dflt in
  t_flag tv [c] = false /\
  (forall now, tread d (w_cache w3) (w_glm w3) now tv a = Ok (tv, t_val tv [c])) /\
  trun D w3 [TRead i a] =
    Ok (mktw (S (w_clk w3)) (w_glm w3) (w_cache w3) (w_file w3) (w_vars w3), [t_val tv [c]]).
Proof.
  intros Ha Hi Hnd H1 H2 Hok Hno H3 d tv.
  assert (Hq : [c] <> ([] : path)) by discriminate.
  (* reset *)
  apply trun_one_reset in H1. destruct H1 as [vs1 [E1 [W1 _]]].
  pose proof (nth_upd_nth _ tv_dflt _ _ _ E1 Hi) as R1. cbv beta in R1. fold d in R1.
  assert (J1 : J [c] (tv_nodes (nth i vs1 tv_dflt))).
  { destruct Ha; subst a; cbn [treset] in R1; exact (reset_body_J _ _ _ _ _ _ Hq Hnd R1). }
  assert (C1 : w_cache w1 = cache_del (join_names (d_ns d ++ [c])) (w_cache w)).
  { subst w1. cbn [w_cache]. destruct Ha; subst a; reflexivity. }
  (* save *)
  apply trun_one_save in H2. destruct H2 as [r2 [E2 [W2 _]]].
  assert (J2 : J [c] (tv_nodes (nth i (w_vars w2) tv_dflt))).
  { subst w2. cbn [w_vars]. apply (tsave_all_J [c] _ _ _ _ _ _ i Hq E2). subst w1. exact J1. }
  assert (C2 : w_cache w2 = w_cache w1) by (subst w2; reflexivity).
  (* reload *)
  apply trun_one_reload in H3. destruct H3 as [kvs [E3 [W3 _]]].
  rewrite (open_file_text _ Hok) in E3. inversion E3. subst kvs. clear E3.
  assert (V3 : w_vars w3 = w_vars w2) by (subst w3; reflexivity).
  assert (C3 : cache_get (join_names (d_ns d ++ [c])) (w_cache w3) = None).
  { rewrite W3. cbn [w_cache]. rewrite C2, C1. apply cache_reload_none. exact Hno. }
  assert (J3 : J [c] (tv_nodes tv)) by (unfold tv; rewrite V3; exact J2).
  (* read *)
  assert (R : forall now, tread d (w_cache w3) (w_glm w3) now tv a = Ok (tv, t_val tv [c])).
  { intro now. destruct Ha; subst a; cbn [tread]; apply tread_body_unset; assumption. }
  split; [exact (J_flag _ _ J3)|]. split; [exact R|].
  apply trun_one_read. exact (R _).
Qed.

(* THE THEOREM: `config reset channel c var`, flush, `config reload`, read: the channel value is still
   unset, and the read returns its current value and changes nothing.
   Hypotheses beyond the three runs: the saved file is well formed and no saved line bears the node's
   name; the node list of variable i has no two entries answering to the same path. *)
Theorem reset_survives_reload : forall D w i c w1 w2 w3,
  (i < length D)%nat -> (i < length (w_vars w))%nat ->
  nodup_keys (tv_nodes (nth i (w_vars w) tv_dflt)) ->
  trun D w [TReset i (AC c)] = Ok (w1, []) ->
  trun D w1 [TSave] = Ok (w2, []) ->
  forallb line_ok (w_file w2) = true ->
  (forall kv, In kv (w_file w2) ->
     seq_eqb (lower (join_names (d_ns (nth i D dflt_decl) ++ [c]))) (lower (fst kv)) = false) ->
  trun D w2 [TReload] = Ok (w3, []) ->
  let d := nth i D dflt_decl in
  let tv := nth i (w_vars w3) tv_dflt in
  t_flag tv [c] = false /\
  (forall now, tread d (w_cache w3) (w_glm w3) now tv (AC c) = Ok (tv, t_val tv [c])) /\
  trun D w3 [TRead i (AC c)] =
    Ok (mktw (S (w_clk w3)) (w_glm w3) (w_cache w3) (w_file w3) (w_vars w3), [t_val tv [c]]).
Proof.
  intros D w i c w1 w2 w3 _. apply reset_survives_gen. left. reflexivity.
Qed.

(* the same for `config reset network n var` *)
Theorem reset_survives_reload_net : forall D w i n w1 w2 w3,
  (i < length D)%nat -> (i < length (w_vars w))%nat ->
  nodup_keys (tv_nodes (nth i (w_vars w) tv_dflt)) ->
  trun D w [TReset i (AN n)] = Ok (w1, []) ->
  trun D w1 [TSave] = Ok (w2, []) ->
  forallb line_ok (w_file w2) = true ->
  (forall kv, In kv (w_file w2) ->
     seq_eqb (lower (join_names (d_ns (nth i D dflt_decl) ++ [n]))) (lower (fst kv)) = false) ->
  trun D w2 [TReload] = Ok (w3, []) ->
  let d := nth i D dflt_decl in
  let tv := nth i (w_vars w3) tv_dflt in
  t_flag tv [n] = false /\
  (forall now, tread d (w_cache w3) (w_glm w3) now tv (AN n) = Ok (tv, t_val tv [n])) /\
  trun D w3 [TRead i (AN n)] =
    Ok (mktw (S (w_clk w3)) (w_glm w3) (w_cache w3) (w_file w3) (w_vars w3), [t_val tv [n]]).
Proof.
  intros D w i n w1 w2 w3 _. apply reset_survives_gen. right. reflexivity.
Qed.

(* ------------------------------------------------------------------ *)
(* a closed run: v = 20, v.#a = 33 saved and re-read (the cache now holds v.#a: 33); then reset #a,
   flush, reload, read #a: 20, and the file has lost the #a line *)
Definition ex_wD : list decl := [mkdecl [[118]] FChannel (KInteger None) (PI Z0)].
Definition ex_w0 : tworld := mktw 2 1 [] [] [mktv (PI Z0) 2 []].
Example reset_flush_reload_read :
  match trun ex_wD ex_w0 [TSet 0 AG [50; 48]; TSet 0 (AC [35; 97]) [51; 51]; TSave; TReload] with
  | Ok (w, _) =>
      w_file w = [([118], [50; 48]); (join_names [[118]; [35; 97]], [51; 51])] /\
      cache_get (join_names [[118]; [35; 97]]) (w_cache w) = Some [51; 51] /\
      match trun ex_wD w [TReset 0 (AC [35; 97]); TSave; TReload; TRead 0 (AC [35; 97])] with
      | Ok (w', out) => out = [PI (Zpos 20)] /\ w_file w' = [([118], [50; 48])] /\
                        t_flag (nth 0 (w_vars w') tv_dflt) [[35; 97]] = false
      | Raise _ => False
      end
  | Raise _ => False
  end.
Proof. vm_compute. repeat split; reflexivity. Qed.
