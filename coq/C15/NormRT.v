(* C15/NormRT.v — NormalizedString: whatever way the escaped text is cut into lines AT blanks,
   the value that was saved is the value that is loaded again. *)
From Coq Require Import List NArith ZArith Bool Lia ZifyBool Arith.
Import ListNotations.
Require Import Base.Wire Base.PyStr C15.Model C15.Lemmas C15.Names C15.Codec C15.Split C15.File
  C15.FileMulti C15.Wrapped C15.Final.
Open Scope N_scope.

(* a word: not empty, none of the four separators normalizeWhitespace cuts at *)
Definition word_ok (w : str) : bool := nonempty w && forallb (fun c => negb (is_nsep c)) w.
(* a text made of words separated by single blanks whose first and last characters are not whitespace *)
Definition words_ok (W : list str) : Prop :=
  W <> [] /\ forallb word_ok W = true /\
  (match W with w :: _ => match w with c :: _ => isspace c = false | [] => False end | [] => False end) /\
  (match last_char (join [SP] W) with Some c => isspace c = false | None => False end).
(* a chunking: the words regrouped into non-empty groups, in order *)
Definition chunking (W : list str) (ws : list (list str)) : Prop :=
  concat ws = W /\ Forall (fun g : list str => g <> []) ws.
Definition chunks_of (ws : list (list str)) : list str := map (fun g => uesc (join [SP] g)) ws.

(* ------------------------------------------------------------------ *)
(* join *)
Lemma join_cons2 sep x y l : join sep (x :: y :: l) = x ++ sep ++ join sep (y :: l).
Proof. reflexivity. Qed.

Lemma join_app sep a b : a <> [] -> b <> [] -> join sep (a ++ b) = join sep a ++ sep ++ join sep b.
Proof.
  induction a as [|x a IH]; [congruence|]. intros _ Hb. destruct a as [|y a'].
  - cbn [app]. destruct b as [|z b']; [congruence|]. reflexivity.
  - cbn [app]. rewrite join_cons2. change (y :: a' ++ b) with ((y :: a') ++ b).
    rewrite IH by (try discriminate; exact Hb). rewrite join_cons2, <- !app_assoc. reflexivity.
Qed.

Lemma join_hd_P (P : N -> Prop) (Q : Prop) (sep : str) (c : N) (x : str) (l : list str) : P c ->
  match join sep ((c :: x) :: l) with [] => Q | c0 :: _ => P c0 end.
Proof. intro H. destruct l; cbn [join app]; exact H. Qed.

Lemma join_nonempty sep x l : x <> [] -> join sep (x :: l) <> [].
Proof. intro Hx. destruct x as [|c x']; [congruence|]. destruct l; cbn [join app]; discriminate. Qed.

Lemma groups_hd_P (P : N -> Prop) (Q : Prop) (ind : str) (c : N) (w0 : str) (g' : list str) (ws' : list (list str)) :
  P c -> match join ind (map (join [SP]) (((c :: w0) :: g') :: ws')) with [] => Q | c0 :: _ => P c0 end.
Proof. intro H. destruct g'; destruct ws'; cbn [map join app]; exact H. Qed.

Lemma last_char_app_r a b : b <> [] -> last_char (a ++ b) = last_char b.
Proof.
  intro Hb. unfold last_char. rewrite rev_app_distr. destruct (rev b) as [|c r] eqn:E; [|reflexivity].
  exfalso. apply Hb. apply (f_equal (@rev N)) in E. rewrite rev_involutive in E. exact E.
Qed.

(* ------------------------------------------------------------------ *)
(* normalizeWhitespace: the tokens of words separated by runs of blanks *)
Lemma swc_word w rest : forallb (fun c => negb (is_nsep c)) w = true ->
  swc (w ++ rest) = (let '(t, ts) := swc rest in (w ++ t, ts)).
Proof.
  induction w as [|c w IH]; intro H.
  - cbn [app]. destruct (swc rest); reflexivity.
  - cbn [forallb] in H. apply andb_true_iff in H as [Hc Hw]. cbn [app swc]. rewrite (IH Hw).
    destruct (swc rest) as [t ts]. destruct (is_nsep c); [discriminate|reflexivity].
Qed.

Lemma is_nsep_SP : is_nsep SP = true.
Proof. reflexivity. Qed.

Lemma split_nsep_sp rest : split_nsep (SP :: rest) = split_nsep rest.
Proof. unfold split_nsep. cbn [swc]. destruct (swc rest) as [t ts]. rewrite is_nsep_SP. reflexivity. Qed.

Lemma split_nsep_blanks j rest : split_nsep (repeat SP j ++ rest) = split_nsep rest.
Proof. induction j; [reflexivity|]. cbn [repeat app]. rewrite split_nsep_sp. exact IHj. Qed.

Lemma split_nsep_word w rest : word_ok w = true -> split_nsep (w ++ SP :: rest) = w :: split_nsep rest.
Proof.
  intro H. unfold word_ok in H. apply andb_true_iff in H as [Hn Hw].
  unfold split_nsep. rewrite (swc_word w _ Hw). cbn [swc]. rewrite is_nsep_SP.
  destruct (swc rest) as [t ts]. rewrite app_nil_r. destruct w; [discriminate|reflexivity].
Qed.

Lemma split_nsep_single w : word_ok w = true -> split_nsep w = [w].
Proof.
  intro H. unfold word_ok in H. apply andb_true_iff in H as [Hn Hw].
  unfold split_nsep. rewrite <- (app_nil_r w) at 1. rewrite (swc_word w _ Hw). cbn [swc].
  rewrite app_nil_r. destruct w; [discriminate|reflexivity].
Qed.

Lemma split_nsep_group g k rest : g <> [] -> forallb word_ok g = true ->
  split_nsep (join [SP] g ++ repeat SP (S k) ++ rest) = g ++ split_nsep rest.
Proof.
  induction g as [|w g IH]; [congruence|]. intros _ H. cbn [forallb] in H. apply andb_true_iff in H as [Hw Hg].
  destruct g as [|w2 g'].
  - cbn [join repeat app]. rewrite (split_nsep_word w _ Hw), split_nsep_blanks. reflexivity.
  - rewrite join_cons2, <- !app_assoc. cbn [app]. rewrite (split_nsep_word w _ Hw).
    rewrite IH by (try discriminate; exact Hg). reflexivity.
Qed.

Lemma split_nsep_group_last g : g <> [] -> forallb word_ok g = true -> split_nsep (join [SP] g) = g.
Proof.
  induction g as [|w g IH]; [congruence|]. intros _ H. cbn [forallb] in H. apply andb_true_iff in H as [Hw Hg].
  destruct g as [|w2 g'].
  - cbn [join]. apply split_nsep_single. exact Hw.
  - rewrite join_cons2. cbn [app]. rewrite (split_nsep_word w _ Hw).
    rewrite IH by (try discriminate; exact Hg). reflexivity.
Qed.

Lemma split_nsep_groups k ws : ws <> [] -> Forall (fun g : list str => g <> []) ws ->
  forallb word_ok (concat ws) = true ->
  split_nsep (join (repeat SP (S k)) (map (join [SP]) ws)) = concat ws.
Proof.
  induction ws as [|g ws IH]; [congruence|]. intros _ Hf Hw.
  inversion Hf as [|? ? Hg Hf']; subst. cbn [concat] in Hw. rewrite forallb_app in Hw.
  apply andb_true_iff in Hw as [Hwg Hws].
  destruct ws as [|g2 ws'].
  - cbn [map join concat]. rewrite app_nil_r. apply split_nsep_group_last; assumption.
  - cbn [map]. rewrite join_cons2. rewrite (split_nsep_group g k _ Hg Hwg).
    change (join [SP] g2 :: map (join [SP]) ws') with (map (join [SP]) (g2 :: ws')).
    rewrite IH by (try discriminate; assumption). reflexivity.
Qed.

(* ------------------------------------------------------------------ *)
(* first and last character of the glued text *)
Lemma group_nonempty g : g <> [] -> forallb word_ok g = true -> join [SP] g <> [].
Proof.
  intros Hg H. destruct g as [|w g']; [congruence|]. cbn [forallb] in H. apply andb_true_iff in H as [Hw _].
  apply join_nonempty. unfold word_ok in Hw. destruct w; [discriminate|discriminate].
Qed.

Lemma groups_nonempty ind g ws : g <> [] -> forallb word_ok g = true ->
  join ind (map (join [SP]) (g :: ws)) <> [].
Proof. intros Hg H. cbn [map]. apply join_nonempty. apply group_nonempty; assumption. Qed.

Lemma last_char_groups ind ws : ws <> [] -> Forall (fun g : list str => g <> []) ws ->
  forallb word_ok (concat ws) = true ->
  last_char (join ind (map (join [SP]) ws)) = last_char (join [SP] (concat ws)).
Proof.
  induction ws as [|g ws IH]; [congruence|]. intros _ Hf Hw.
  inversion Hf as [|? ? Hg Hf']; subst. cbn [concat] in Hw. rewrite forallb_app in Hw.
  apply andb_true_iff in Hw as [Hwg Hws].
  destruct ws as [|g2 ws'].
  - cbn [map join concat]. rewrite app_nil_r. reflexivity.
  - inversion Hf' as [|? ? Hg2 Hf'']; subst.
    assert (Hws2 := Hws). cbn [concat] in Hws2. rewrite forallb_app in Hws2. apply andb_true_iff in Hws2 as [Hwg2 _].
    assert (Hc2 : concat (g2 :: ws') <> []).
    { cbn [concat]. destruct g2; [congruence|discriminate]. }
    cbn [map]. rewrite join_cons2.
    change (concat (g :: g2 :: ws')) with (g ++ concat (g2 :: ws')).
    rewrite (join_app [SP] g _ Hg Hc2).
    rewrite (app_assoc (join [SP] g) ind), (app_assoc (join [SP] g) [SP]).
    change (join [SP] g2 :: map (join [SP]) ws') with (map (join [SP]) (g2 :: ws')).
    rewrite last_char_app_r by (apply groups_nonempty; assumption).
    rewrite (last_char_app_r _ (join [SP] (concat (g2 :: ws')))) by (apply group_nonempty; assumption).
    apply IH; [discriminate|exact Hf'|exact Hws].
Qed.

Lemma strip_groups ind W ws : words_ok W -> chunking W ws ->
  strip_ws (join ind (map (join [SP]) ws)) = join ind (map (join [SP]) ws).
Proof.
  intros (Hne & Hall & Hfirst & Hlast) [Hcat Hf]. subst W.
  destruct ws as [|g ws']; [cbn [concat] in Hne; congruence|].
  apply strip_ws_id.
  - inversion Hf as [|? ? Hg Hf']; subst. destruct g as [|w g']; [congruence|].
    cbn [concat app] in Hfirst. destruct w as [|c w0]; [contradiction|].
    apply (groups_hd_P (fun c0 => isspace c0 = false)). exact Hfirst.
  - rewrite last_char_groups; [|discriminate|exact Hf|exact Hall].
    destruct (last_char (join [SP] (concat (g :: ws')))); [exact Hlast|exact Logic.I].
Qed.

(* A. normalize collapses the indentation between the groups to one blank *)
Lemma normalize_groups k W ws : words_ok W -> chunking W ws ->
  normalize (join (repeat SP (S k)) (map (join [SP]) ws)) = join [SP] W.
Proof.
  intros HW HC. unfold normalize. rewrite (strip_groups _ W ws HW HC).
  destruct HW as (Hne & Hall & _). destruct HC as [Hcat Hf]. subst W.
  rewrite split_nsep_groups; [reflexivity| |exact Hf|exact Hall].
  intro E. subst ws. apply Hne. reflexivity.
Qed.

Lemma chunking_one W : W <> [] -> chunking W [W].
Proof.
  intro H. split; [cbn [concat]; apply app_nil_r|]. constructor; [exact H|constructor].
Qed.

Lemma normalize_words V : words_ok V -> normalize (join [SP] V) = join [SP] V.
Proof.
  intro H. assert (HC : chunking V [V]) by (apply chunking_one; apply H).
  exact (normalize_groups 0 V [V] H HC).
Qed.

(* ------------------------------------------------------------------ *)
(* B. the glued chunks are the escaped glued text *)
Lemma uesc_app a b : uesc (a ++ b) = uesc a ++ uesc b.
Proof. unfold uesc. apply flat_map_app. Qed.

Lemma uesc_blanks j : uesc (repeat SP j) = repeat SP j.
Proof.
  induction j; [reflexivity|]. cbn [repeat].
  change (uesc (SP :: repeat SP j)) with (uesc_char SP ++ uesc (repeat SP j)). rewrite IHj. reflexivity.
Qed.

Lemma glue_chunks j ws :
  glue (repeat SP j) (chunks_of ws) = uesc (join (repeat SP j) (map (join [SP]) ws)).
Proof.
  induction ws as [|g ws IH]; [reflexivity|]. destruct ws as [|g2 ws']; [reflexivity|].
  unfold chunks_of in *. cbn [map] in *. rewrite glue_cons, IH, join_cons2, !uesc_app, uesc_blanks. reflexivity.
Qed.

(* ------------------------------------------------------------------ *)
(* C. every chunk is one the reader copes with *)
Lemma printable_not_space c : 32 < c -> c < 127 -> isspace c = false.
Proof.
  intros H1 H2. unfold isspace, gen.T15.WHITESPACE, mem. cbn [existsb]. lia.
Qed.

Lemma isspace_BSL : isspace BSL = false.
Proof. vm_compute. reflexivity. Qed.

Lemma uesc_char_hd c : is_nsep c = false -> exists y r, uesc_char c = y :: r /\ isspace y = false.
Proof.
  intro H. unfold uesc_char.
  destruct (c =? BSL); [eexists; eexists; split; [reflexivity|exact isspace_BSL]|].
  destruct (c =? TAB); [eexists; eexists; split; [reflexivity|exact isspace_BSL]|].
  destruct (c =? LF); [eexists; eexists; split; [reflexivity|exact isspace_BSL]|].
  destruct (c =? CR); [eexists; eexists; split; [reflexivity|exact isspace_BSL]|].
  destruct (c <? 32) eqn:E1; [eexists; eexists; split; [reflexivity|exact isspace_BSL]|].
  destruct (c <? 127) eqn:E2.
  - exists c, []. split; [reflexivity|]. unfold is_nsep, SP in H. apply printable_not_space; lia.
  - destruct (c <? 256); [eexists; eexists; split; [reflexivity|exact isspace_BSL]|].
    destruct (c <? 65536); eexists; eexists; (split; [reflexivity|exact isspace_BSL]).
Qed.

Lemma chunk_ok_uesc s : match s with c :: _ => is_nsep c = false | [] => False end -> chunk_ok (uesc s) = true.
Proof.
  intro H. unfold chunk_ok. destruct (uesc_no_crlf s) as [Hcr Hlf].
  rewrite Hcr, Hlf, uesc_trailing_bsl_even. cbn [negb]. rewrite !andb_true_r.
  destruct s as [|c s']; [contradiction|].
  change (uesc (c :: s')) with (uesc_char c ++ uesc s').
  destruct (uesc_char_hd c H) as (y & r & -> & Hy). cbn [app]. rewrite Hy. reflexivity.
Qed.

Lemma chunk_ok_group g : g <> [] -> forallb word_ok g = true -> chunk_ok (uesc (join [SP] g)) = true.
Proof.
  intros Hg H. destruct g as [|w g']; [congruence|]. cbn [forallb] in H. apply andb_true_iff in H as [Hw _].
  unfold word_ok in Hw. apply andb_true_iff in Hw as [Hn Hw]. destruct w as [|c w0]; [discriminate|].
  cbn [forallb] in Hw. apply andb_true_iff in Hw as [Hc _].
  apply chunk_ok_uesc. apply (join_hd_P (fun c0 => is_nsep c0 = false)).
  destruct (is_nsep c); [discriminate|reflexivity].
Qed.

Lemma chunks_ok ws : Forall (fun g : list str => g <> []) ws -> forallb word_ok (concat ws) = true ->
  forallb chunk_ok (chunks_of ws) = true.
Proof.
  induction ws as [|g ws IH]; intros Hf Hw; [reflexivity|].
  inversion Hf as [|? ? Hg Hf']; subst. cbn [concat] in Hw. rewrite forallb_app in Hw.
  apply andb_true_iff in Hw as [Hwg Hws].
  unfold chunks_of. cbn [map forallb]. rewrite (chunk_ok_group g Hg Hwg). apply IH; assumption.
Qed.

(* ------------------------------------------------------------------ *)
(* D. the logical line `name: <escaped text>` is parsed into (name, text) *)
Lemma parse_acc_good name t : name_ok name = true -> vstr t = true ->
  parse_acc (name ++ [COLON; SP] ++ uesc t) = Ok (name, t).
Proof.
  intros Hn Ht. unfold name_ok in Hn. apply andb_true_iff in Hn as [Hn He]. apply andb_true_iff in Hn as [Hw Hh].
  destruct (uesc_no_crlf t) as [Hcr Hlf].
  set (u := uesc t) in *.
  unfold parse_acc. cbn [app].
  rewrite split_kv_name; [|exact Hw|destruct (escpar false name); [discriminate|reflexivity]].
  assert (Hst : strip crlf u = u).
  { unfold strip.
    assert (Hin : forall d, In d u -> mem d crlf = false).
    { intros d Hd. unfold crlf. cbn [mem existsb].
      assert (d <> CR /\ d <> LF) as [H1 H2].
      { split; intro; subst d; apply mem_In in Hd; congruence. }
      apply N.eqb_neq in H1, H2. rewrite H1, H2. reflexivity. }
    rewrite lstrip_id.
    - apply rstrip_id. destruct (last_char u) as [d|] eqn:El; [|exact Logic.I].
      apply Hin. apply last_char_in. exact El.
    - destruct u as [|c u']; [exact Logic.I|]. apply Hin. left. reflexivity. }
  rewrite Hst. unfold u. rewrite (udec_uesc t Ht).
  rewrite (strip_ws_nows name Hw). reflexivity.
Qed.

(* ------------------------------------------------------------------ *)
(* E. the file text of the wrapped value is read as one (name, glued text) pair *)
Lemma split_lines lines : Forall (fun l => mem LF l = false) lines ->
  split_char LF (flat_map (fun l : str => l ++ [LF]) lines) = lines ++ [[]].
Proof.
  induction lines as [|l lines IH]; intro H; [reflexivity|].
  inversion H as [|? ? Hl Hls]; subst. cbn [flat_map]. rewrite <- app_assoc. cbn [app].
  rewrite (split_char_app LF l _ Hl). rewrite (IH Hls). reflexivity.
Qed.

Lemma lines_no_cr lines : Forall (fun l => mem CR l = false) lines ->
  mem CR (flat_map (fun l : str => l ++ [LF]) lines) = false.
Proof.
  induction lines as [|l lines IH]; intro H; [reflexivity|].
  inversion H as [|? ? Hl Hls]; subst. cbn [flat_map]. rewrite !mem_app, Hl, (IH Hls). reflexivity.
Qed.

Lemma mem_blanks x j : x <> SP -> mem x (repeat SP j) = false.
Proof.
  intro Hx. induction j; [reflexivity|]. cbn [repeat mem existsb]. apply N.eqb_neq in Hx. rewrite Hx. exact IHj.
Qed.

Lemma cont_lines_no x ind cs : x <> BSL -> mem x ind = false ->
  Forall (fun c => mem x c = false) cs -> Forall (fun l => mem x l = false) (cont_lines ind cs).
Proof.
  intros Hb Hi. apply N.eqb_neq in Hb.
  induction cs as [|c cs IH]; intro H; [constructor|].
  inversion H as [|? ? Hc Hcs]; subst. destruct cs as [|c2 cs'].
  - cbn [cont_lines]. constructor; [|constructor]. rewrite mem_app, Hi, Hc. reflexivity.
  - change (cont_lines ind (c :: c2 :: cs')) with ((ind ++ c ++ [BSL]) :: cont_lines ind (c2 :: cs')).
    constructor; [|apply IH; exact Hcs]. rewrite !mem_app, Hi, Hc. cbn [mem existsb]. rewrite Hb. reflexivity.
Qed.

Lemma wrapped_lines_no x name chunks : x <> COLON -> x <> SP -> x <> BSL -> mem x name = false ->
  Forall (fun c => mem x c = false) chunks -> Forall (fun l => mem x l = false) (wrapped_lines name chunks).
Proof.
  intros H1 H2 H3 Hn H. assert (H3' := H3). apply N.eqb_neq in H1, H2, H3'.
  assert (Hp : mem x (name ++ [COLON; SP]) = false).
  { rewrite mem_app, Hn. cbn [mem existsb]. rewrite H1, H2. reflexivity. }
  destruct chunks as [|c cs].
  - cbn [wrapped_lines]. constructor; [exact Hp|constructor].
  - inversion H as [|? ? Hc Hcs]; subst. destruct cs as [|c2 cs'].
    + cbn [wrapped_lines]. constructor; [|constructor]. rewrite app_assoc, mem_app, Hp, Hc. reflexivity.
    + change (wrapped_lines name (c :: c2 :: cs'))
        with ((name ++ [COLON; SP] ++ c ++ [BSL]) :: cont_lines (indent_of name) (c2 :: cs')).
      constructor.
      * rewrite app_assoc, mem_app, Hp, mem_app, Hc. cbn [mem existsb]. rewrite H3'. reflexivity.
      * apply cont_lines_no; [exact H3| |exact Hcs]. unfold indent_of. apply mem_blanks.
        intro E. apply N.eqb_neq in H2. congruence.
Qed.

Lemma chunks_no chunks : forallb chunk_ok chunks = true ->
  Forall (fun c => mem CR c = false) chunks /\ Forall (fun c => mem LF c = false) chunks.
Proof.
  induction chunks as [|c cs IH]; intro H; [split; constructor|].
  cbn [forallb] in H. apply andb_true_iff in H as [Hc Hcs]. destruct (IH Hcs) as [I1 I2].
  unfold chunk_ok in Hc. apply andb_true_iff in Hc as [Hc _]. apply andb_true_iff in Hc as [Hc Hlf].
  apply andb_true_iff in Hc as [_ Hcr].
  split; constructor; try assumption.
  - destruct (mem CR c); [discriminate|reflexivity].
  - destruct (mem LF c); [discriminate|reflexivity].
Qed.

Lemma prefix_ok_name name : name_ok name = true -> prefix_ok (name ++ [COLON; SP]) = true.
Proof.
  intro Hn. unfold name_ok in Hn. apply andb_true_iff in Hn as [Hn _]. apply andb_true_iff in Hn as [Hw Hh].
  unfold prefix_ok.
  assert (He : endswith1 SP (name ++ [COLON; SP]) = true).
  { replace (name ++ [COLON; SP]) with ((name ++ [COLON]) ++ [SP]) by (rewrite <- app_assoc; reflexivity).
    unfold endswith1. rewrite last_char_app. reflexivity. }
  assert (Hcr : mem CR (name ++ [COLON; SP]) = false).
  { rewrite mem_app, (nows_no CR name Hw isspace_CR). reflexivity. }
  assert (Hlf : mem LF (name ++ [COLON; SP]) = false).
  { rewrite mem_app, (nows_no LF name Hw isspace_LF). reflexivity. }
  rewrite He, Hcr, Hlf. destruct name as [|c name'].
  - reflexivity.
  - cbn [app]. cbn [startswith] in Hh. rewrite N.eqb_sym. destruct (HASH =? c); [discriminate|reflexivity].
Qed.

Lemma open_wrapped name chunks : name_ok name = true -> chunks <> [] -> forallb chunk_ok chunks = true ->
  open_registry (wrapped_text name chunks) =
  (do kv <- parse_acc (name ++ [COLON; SP] ++ glue (indent_of name) chunks); Ok [kv]).
Proof.
  intros Hn Hne Hall. assert (Hp := prefix_ok_name name Hn).
  unfold name_ok in Hn. apply andb_true_iff in Hn as [Hn _]. apply andb_true_iff in Hn as [Hw _].
  destruct (chunks_no chunks Hall) as [Ccr Clf].
  unfold open_registry, wrapped_text.
  rewrite translate_nl_id.
  - rewrite split_lines.
    + refine (eq_trans (wrapped_reassembled name chunks [[]] Hp Hne Hall) _).
      destruct (parse_acc (name ++ [COLON; SP] ++ glue (indent_of name) chunks)); reflexivity.
    + apply wrapped_lines_no; try discriminate; [apply (nows_no LF name Hw isspace_LF)|exact Clf].
  - apply lines_no_cr. apply wrapped_lines_no; try discriminate; [apply (nows_no CR name Hw isspace_CR)|exact Ccr].
Qed.

(* valid code points *)
Lemma vstr_join sep l : vstr sep = true -> forallb vstr l = true -> vstr (join sep l) = true.
Proof.
  intro Hs. induction l as [|x l IH]; intro H; [reflexivity|].
  cbn [forallb] in H. apply andb_true_iff in H as [Hx Hl]. destruct l as [|y l']; [exact Hx|].
  rewrite join_cons2, !vstr_app, Hx, Hs, (IH Hl). reflexivity.
Qed.

Lemma vstr_join_inv sep l : vstr (join sep l) = true -> forallb vstr l = true.
Proof.
  induction l as [|x l IH]; intro H; [reflexivity|]. destruct l as [|y l'].
  - cbn [join] in H. cbn [forallb]. rewrite H. reflexivity.
  - rewrite join_cons2, !vstr_app in H. apply andb_true_iff in H as [Hx H]. apply andb_true_iff in H as [_ H].
    cbn [forallb]. rewrite Hx. apply IH. exact H.
Qed.

Lemma vstr_blanks j : vstr (repeat SP j) = true.
Proof. induction j; [reflexivity|]. cbn [repeat]. unfold vstr in *. cbn [forallb]. rewrite IHj. reflexivity. Qed.

Lemma vstr_groups ind ws : vstr ind = true -> forallb vstr (concat ws) = true ->
  vstr (join ind (map (join [SP]) ws)) = true.
Proof.
  intros Hi H. apply vstr_join; [exact Hi|].
  induction ws as [|g ws IH]; [reflexivity|]. cbn [concat] in H. rewrite forallb_app in H.
  apply andb_true_iff in H as [Hg Hws]. cbn [map forallb]. rewrite (IH Hws), andb_true_r.
  apply vstr_join; [reflexivity|exact Hg].
Qed.

Lemma indent_blanks name : indent_of name = repeat SP (S (length name + 1)).
Proof. unfold indent_of. f_equal. lia. Qed.

Theorem open_wrapped_words name W ws :
  name_ok name = true -> words_ok W -> chunking W ws -> vstr (join [SP] W) = true ->
  open_registry (wrapped_text name (chunks_of ws)) =
  Ok [(name, join (indent_of name) (map (join [SP]) ws))].
Proof.
  intros Hn HW HC Hv. destruct HW as (Hne & Hall & _). destruct HC as [Hcat Hf]. subst W.
  assert (Hws : ws <> []) by (intro E; subst ws; apply Hne; reflexivity).
  rewrite open_wrapped; [|exact Hn| |apply chunks_ok; assumption].
  - rewrite indent_blanks, glue_chunks. rewrite parse_acc_good; [reflexivity|exact Hn|].
    apply vstr_groups; [apply vstr_blanks|]. apply (vstr_join_inv [SP]). exact Hv.
  - destruct ws; [congruence|discriminate].
Qed.

(* ------------------------------------------------------------------ *)
(* F. saved, wrapped at blanks in any way, loaded again: the same value *)
Theorem normalized_roundtrip : forall name fresh v W ws,
  name_ok name = true -> vstr v = true -> normalize v = v ->
  words_ok W -> join [SP] W = string_str v -> chunking W ws ->
  norm_reload name (chunks_of ws) fresh = Ok v.
Proof.
  intros name fresh v W ws Hn Hv Hnv HW Hs HC. unfold norm_reload.
  rewrite (open_wrapped_words name W ws Hn HW HC) by (rewrite Hs; apply vstr_string_str; exact Hv).
  cbn [bind]. rewrite cache_get_single. unfold norm_set.
  rewrite indent_blanks, (normalize_groups _ W ws HW HC), Hs.
  rewrite (string_roundtrip evalrepr_v v Hv). cbn [bind]. rewrite Hnv. reflexivity.
Qed.

(* the empty value: textwrap hands back no chunk *)
Theorem normalized_roundtrip_empty : forall name fresh,
  name_ok name = true -> norm_reload name [] fresh = Ok [].
Proof.
  intros name fresh Hn. unfold norm_reload.
  assert (E : wrapped_text name [] = name ++ [COLON; SP] ++ uesc [] ++ [LF]).
  { unfold wrapped_text. cbn [wrapped_lines flat_map]. rewrite app_nil_r, <- app_assoc. reflexivity. }
  rewrite E. rewrite (open_value_line codec_v uesc_no_crlf uesc_trailing_bsl_even name [] Hn eq_refl).
  cbn [bind]. rewrite cache_get_single. vm_compute. reflexivity.
Qed.

(* a value that is a text of words: everything from the words *)
Corollary normalized_roundtrip_words : forall name fresh V W ws,
  name_ok name = true -> vstr (join [SP] V) = true -> words_ok V ->
  words_ok W -> join [SP] W = string_str (join [SP] V) -> chunking W ws ->
  norm_reload name (chunks_of ws) fresh = Ok (join [SP] V).
Proof.
  intros name fresh V W ws Hn Hv HV HW Hs HC.
  apply (normalized_roundtrip name fresh (join [SP] V) W ws); try assumption. apply normalize_words. exact HV.
Qed.

(* ------------------------------------------------------------------ *)
(* G. non-vacuity: "a b #c d" wrapped as  a | b #c | d *)
Example normalized_roundtrip_example :
  let name := [118] in
  let v := [97; 32; 98; 32; 35; 99; 32; 100] in
  let W := [[97]; [98]; [35; 99]; [100]] in
  let ws := [[[97]]; [[98]; [35; 99]]; [[100]]] in
  name_ok name = true /\ vstr v = true /\ normalize v = v /\ words_ok W /\ join [SP] W = string_str v /\
  chunking W ws /\
  chunks_of ws = [[97]; [98; 32; 35; 99]; [100]] /\
  wrapped_lines name (chunks_of ws) = [[118; 58; 32; 97; 92]; [32; 32; 32; 98; 32; 35; 99; 92]; [32; 32; 32; 100]] /\
  norm_reload name (chunks_of ws) [120] = Ok v.
Proof.
  cbv zeta. repeat split; try (vm_compute; reflexivity); try (vm_compute; discriminate).
  repeat constructor; discriminate.
Qed.
