(* C15/Wrapped.v — the continuation lines NormalizedString.serialize() writes are reassembled by the
   reader into one logical line: no physical line is taken for a comment or a blank line, none is
   dropped, and the next variable's line is not glued onto the value. *)
From Coq Require Import List NArith ZArith Bool Lia ZifyBool Arith.
Import ListNotations.
Require Import Base.Wire Base.PyStr C15.Model C15.Lemmas C15.Names C15.Codec C15.Split C15.File.
Open Scope N_scope.

(* what the reader needs of a chunk textwrap hands back: not empty, does not start with a blank,
   no CR/LF, and an even number of backslashes at its end (the text is unicode_escape output) *)
Definition chunk_ok (c : str) : bool :=
  match c with [] => false | x :: _ => negb (isspace x) end
  && negb (mem CR c) && negb (mem LF c) && Nat.even (count_trailing BSL (rev c)).
(* a line prefix (`name: ` or the indentation): not a comment start, ends with a blank, no CR/LF *)
Definition prefix_ok (p : str) : bool :=
  match p with [] => false | x :: _ => negb (x =? HASH) end
  && endswith1 SP p && negb (mem CR p) && negb (mem LF p).

Lemma endswith1_split c p : endswith1 c p = true -> exists q, p = q ++ [c].
Proof.
  unfold endswith1, last_char. destruct (rev p) as [|d r] eqn:E; [discriminate|]. intro H.
  apply N.eqb_eq in H. subst d. exists (rev r).
  apply (f_equal (@rev N)) in E. rewrite rev_involutive in E. cbn [rev] in E. exact E.
Qed.

Section Lines.
Variables (p c : str).
Hypothesis Hp : prefix_ok p = true.
Hypothesis Hc : chunk_ok c = true.

Lemma parts : exists x p' q y c', p = x :: p' /\ (x =? HASH) = false /\ p = q ++ [SP] /\ c = y :: c' /\ isspace y = false
  /\ mem CR p = false /\ mem LF p = false /\ mem CR c = false /\ mem LF c = false
  /\ Nat.even (count_trailing BSL (rev c)) = true.
Proof.
  unfold prefix_ok in Hp. unfold chunk_ok in Hc.
  destruct p as [|x p'] eqn:Ep; [discriminate|]. destruct c as [|y c'] eqn:Ec; [discriminate|].
  apply andb_true_iff in Hp as [Hp1 Hlf]. apply andb_true_iff in Hp1 as [Hp1 Hcr]. apply andb_true_iff in Hp1 as [Hx He].
  apply andb_true_iff in Hc as [Hc1 Hev]. apply andb_true_iff in Hc1 as [Hc1 Hclf]. apply andb_true_iff in Hc1 as [Hy Hccr].
  destruct (endswith1_split _ _ He) as [q Eq].
  exists x, p', q, y, c'. repeat split; try reflexivity; try assumption.
  - destruct (x =? HASH); [discriminate|reflexivity].
  - destruct (isspace y); [discriminate|reflexivity].
  - destruct (mem CR (x :: p')); [discriminate|reflexivity].
  - destruct (mem LF (x :: p')); [discriminate|reflexivity].
  - destruct (mem CR (y :: c')); [discriminate|reflexivity].
  - destruct (mem LF (y :: c')); [discriminate|reflexivity].
Qed.

Lemma line_not_comment rest : startswith [HASH] (p ++ c ++ rest) = false.
Proof.
  destruct parts as (x & p' & q & y & c' & Ep & Hx & _). rewrite Ep. cbn [app startswith].
  rewrite N.eqb_sym, Hx. reflexivity.
Qed.

Lemma line_not_blank rest : strip_ws (p ++ c ++ rest) <> [].
Proof.
  destruct parts as (x & p' & q & y & c' & _ & _ & _ & Ec & Hy & _).
  apply (strip_keeps _ _ y); [|exact Hy]. apply in_or_app. right. apply in_or_app. left. rewrite Ec. left. reflexivity.
Qed.

Lemma count_line : count_trailing BSL (rev c ++ rev p) = count_trailing BSL (rev c).
Proof.
  destruct parts as (x & p' & q & y & c' & _ & _ & Eq & _). rewrite Eq at 1. rewrite rev_app_distr. cbn [rev app].
  apply count_trailing_stop. discriminate.
Qed.

(* a line that ends with the writer's continuation backslash is appended (without it) to the accumulator *)
Lemma cont_step acc more :
  read_lines acc ((p ++ c ++ [BSL]) :: more) = read_lines (acc ++ p ++ c) more.
Proof.
  cbn [read_lines]. rewrite line_not_comment.
  pose proof (line_not_blank [BSL]) as Hnb. destruct (strip_ws (p ++ c ++ [BSL])) as [|z zs]; [congruence|]. clear Hnb.
  assert (Hrs : rstrip crlf (p ++ c ++ [BSL]) = p ++ c ++ [BSL]).
  { rewrite app_assoc. apply rstrip_app_keep. reflexivity. }
  rewrite Hrs.
  assert (Hodd : Nat.odd (count_trailing BSL (rev (p ++ c ++ [BSL]))) = true).
  { rewrite app_assoc, rev_app_distr. cbn [rev app count_trailing]. rewrite N.eqb_refl.
    rewrite rev_app_distr, count_line. rewrite Nat.odd_succ.
    destruct parts as (_ & _ & _ & _ & _ & _ & _ & _ & _ & _ & _ & _ & _ & _ & Hev). exact Hev. }
  rewrite Hodd. rewrite (app_assoc p c [BSL]), removelast_last. reflexivity.
Qed.

(* the last line of the value closes the logical line *)
Lemma last_step acc more :
  read_lines acc ((p ++ c) :: more) =
  (do kv <- parse_acc (acc ++ p ++ c); do kvs <- read_lines [] more; Ok (kv :: kvs)).
Proof.
  cbn [read_lines]. pose proof (line_not_comment []) as Hh. rewrite app_nil_r in Hh. rewrite Hh.
  pose proof (line_not_blank []) as Hnb. rewrite app_nil_r in Hnb.
  destruct (strip_ws (p ++ c)) as [|z zs]; [congruence|]. clear Hnb.
  destruct parts as (x & p' & q & y & c' & Ep & Hx & Eq & Ec & Hy & Hpcr & Hplf & Hccr & Hclf & Hev).
  assert (Hrs : rstrip crlf (p ++ c) = p ++ c).
  { apply rstrip_id. destruct (last_char (p ++ c)) as [d|] eqn:El; [|exact Logic.I].
    assert (Hd : In d c).
    { unfold last_char in El. rewrite rev_app_distr in El. rewrite Ec in El. cbn [rev] in El.
      destruct (rev c') as [|r0 rr] eqn:Er; cbn [app] in El.
      - inversion El as [H0]. rewrite Ec. left. exact H0.
      - inversion El. subst d. rewrite Ec. right. apply in_rev. rewrite Er. left. reflexivity. }
    unfold crlf. cbn [mem existsb].
    assert (d <> CR /\ d <> LF) as [H1 H2].
    { split; intro; subst d; apply mem_In in Hd; congruence. }
    apply N.eqb_neq in H1, H2. rewrite H1, H2. reflexivity. }
  rewrite Hrs.
  assert (Hodd : Nat.odd (count_trailing BSL (rev (p ++ c))) = false).
  { rewrite rev_app_distr, count_line. rewrite <- Nat.negb_even, Hev. reflexivity. }
  rewrite Hodd. reflexivity.
Qed.
End Lines.

Lemma glue_cons ind c c2 cs : glue ind (c :: c2 :: cs) = c ++ ind ++ glue ind (c2 :: cs).
Proof. reflexivity. Qed.

Lemma cont_all ind : prefix_ok ind = true ->
  forall cs acc more, cs <> [] -> forallb chunk_ok cs = true ->
  read_lines acc (cont_lines ind cs ++ more) =
  (do kv <- parse_acc (acc ++ ind ++ glue ind cs); do kvs <- read_lines [] more; Ok (kv :: kvs)).
Proof.
  intros Hi cs. induction cs as [|c cs IH]; intros acc more Hne Hall; [congruence|].
  cbn [forallb] in Hall. apply andb_true_iff in Hall as [Hc Hcs].
  destruct cs as [|c2 cs'].
  - cbn [cont_lines app glue]. apply (last_step ind c Hi Hc).
  - change (cont_lines ind (c :: c2 :: cs')) with ((ind ++ c ++ [BSL]) :: cont_lines ind (c2 :: cs')).
    cbn [app]. rewrite (cont_step ind c Hi Hc). rewrite IH by (try discriminate; exact Hcs).
    rewrite glue_cons. rewrite <- !app_assoc. reflexivity.
Qed.

Lemma indent_prefix_ok name : prefix_ok (indent_of name) = true.
Proof.
  unfold indent_of. replace (length name + 2)%nat with (S (S (length name))) by lia.
  set (n := length name). unfold prefix_ok. cbn [repeat].
  assert (Hm : forall c k, c <> SP -> mem c (repeat SP k) = false).
  { intros c k Hc. induction k; [reflexivity|]. cbn [repeat mem existsb]. apply N.eqb_neq in Hc. rewrite Hc. exact IHk. }
  assert (He : endswith1 SP (SP :: SP :: repeat SP n) = true).
  { replace (SP :: SP :: repeat SP n) with (repeat SP (S n) ++ [SP]).
    - unfold endswith1. rewrite last_char_app. reflexivity.
    - clear. induction n; [reflexivity|]. cbn [repeat app] in *. rewrite IHn. reflexivity. }
  rewrite He. change (SP :: SP :: repeat SP n) with (repeat SP (S (S n))).
  rewrite (Hm CR), (Hm LF) by discriminate. reflexivity.
Qed.

(* THE THEOREM: whatever chunks textwrap produced (each chunk_ok), the physical lines written for
   `name` are read as ONE logical line `name: chunk1<indent>chunk2<indent>...`, and reading goes on
   with the next variable's lines untouched. *)
Theorem wrapped_reassembled name chunks more :
  prefix_ok (name ++ [COLON; SP]) = true -> chunks <> [] -> forallb chunk_ok chunks = true ->
  read_lines [] (wrapped_lines name chunks ++ more) =
  (do kv <- parse_acc (name ++ [COLON; SP] ++ glue (indent_of name) chunks);
   do kvs <- read_lines [] more; Ok (kv :: kvs)).
Proof.
  intros Hn Hne Hall. destruct chunks as [|c cs]; [congruence|].
  cbn [forallb] in Hall. apply andb_true_iff in Hall as [Hc Hcs].
  destruct cs as [|c2 cs'].
  - replace (wrapped_lines name [c] ++ more) with (((name ++ [COLON; SP]) ++ c) :: more)
      by (unfold wrapped_lines; rewrite <- app_assoc; reflexivity).
    rewrite (last_step _ c Hn Hc). cbn [glue app]. rewrite <- app_assoc. reflexivity.
  - replace (wrapped_lines name (c :: c2 :: cs') ++ more)
      with (((name ++ [COLON; SP]) ++ c ++ [BSL]) :: (cont_lines (indent_of name) (c2 :: cs') ++ more))
      by (cbn [wrapped_lines app]; rewrite <- app_assoc; reflexivity).
    rewrite (cont_step _ c Hn Hc).
    rewrite (cont_all _ (indent_prefix_ok name)) by (try discriminate; exact Hcs).
    rewrite glue_cons. cbn [app]. rewrite <- !app_assoc. reflexivity.
Qed.

(* in particular: a continuation line is never taken for a comment nor for an empty line,
   whatever its first word is *)
Theorem continuation_never_comment name c rest :
  chunk_ok c = true ->
  startswith [HASH] (indent_of name ++ c ++ rest) = false /\ strip_ws (indent_of name ++ c ++ rest) <> [].
Proof.
  intro Hc. split; [apply line_not_comment|apply line_not_blank]; try apply indent_prefix_ok; exact Hc.
Qed.

(* why the comment test must look at the first character only: with `lstrip` first, a continuation
   line whose first word starts with # would be dropped *)
Example lstrip_test_would_drop :
  chunk_ok [HASH; 99] = true /\ startswith [HASH] (lstrip_ws (indent_of [118] ++ [HASH; 99] ++ [BSL])) = true.
Proof. vm_compute. split; reflexivity. Qed.

(* the chunks of an un-broken wrap of unicode_escape output satisfy chunk_ok: witness *)
Example wrapped_example :
  open_registry (wrapped_text [118] [[97; 32; 98]; [HASH; 99; 92; 92]; [100]]) =
  Ok [([118], [97; 32; 98; 32; 32; 32; HASH; 99; 92; 32; 32; 32; 100])].
Proof. vm_compute. reflexivity. Qed.
