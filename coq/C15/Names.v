(* C15/Names.v — registry names: unescape inverts escape, and split inverts
   join exactly on the names where no component other than the last ends with
   a backslash.  The codec round trip udec (uesc s) = Ok s is a Section
   hypothesis (proved elsewhere). *)
From Coq Require Import List NArith ZArith Bool Lia ZifyBool Arith.
Import ListNotations.
Require Import Base.Wire Base.PyStr C15.Model.
Open Scope N_scope.

Definition nvalid_cp (c : N) : bool := (c <? MAXCP)%N.
Definition nvalid_str (s : str) : bool := forallb (fun c => (c <? MAXCP)%N) s.

(* decidable domain of the round trip: non-empty list, valid code points, no
   name other than the last ends with a backslash *)
Fixpoint names_dom (ns : list str) : bool :=
  match ns with
  | [] => false
  | [n] => nvalid_str n
  | n :: ns' => nvalid_str n && negb (endswith1 BSL n) && names_dom ns'
  end.

Lemma names_dom_cons2 a m l :
  names_dom (a :: m :: l) = nvalid_str a && negb (endswith1 BSL a) && names_dom (m :: l).
Proof. reflexivity. Qed.

Lemma names_dom_valid ns : names_dom ns = true -> Forall (fun n => nvalid_str n = true) ns.
Proof.
  induction ns as [|a ns IH]; intro H; [discriminate|].
  destruct ns as [|m l].
  - constructor; [exact H|constructor].
  - rewrite names_dom_cons2 in H.
    apply andb_true_iff in H as [H H3]. apply andb_true_iff in H as [H1 H2].
    constructor; [exact H1|apply IH; exact H3].
Qed.

(* ------------------------------------------------------------------ *)
(* s.replace(c, '\\'+c).replace('\\'+c, c) = s, for every s *)

Lemma replace_char_cons c img x s :
  replace_char c img (x :: s) = (if x =? c then img else [x]) ++ replace_char c img s.
Proof. reflexivity. Qed.

Lemma replace_char_app c img a b :
  replace_char c img (a ++ b) = replace_char c img a ++ replace_char c img b.
Proof.
  induction a as [|x a IH]; [reflexivity|].
  rewrite <- app_comm_cons, !replace_char_cons, IH, app_assoc. reflexivity.
Qed.

Lemma unreplace_cons2 c x y s :
  unreplace c (x :: y :: s) =
  if (x =? BSL) && (y =? c) then c :: unreplace c s else x :: unreplace c (y :: s).
Proof. reflexivity. Qed.

Lemma unreplace_cons_replace c d s :
  c <> BSL ->
  unreplace c (d :: replace_char c [BSL; c] s) = d :: unreplace c (replace_char c [BSL; c] s).
Proof.
  intro Hc. destruct s as [|x s]; [reflexivity|].
  rewrite replace_char_cons. destruct (x =? c) eqn:E.
  - change ([BSL; c] ++ replace_char c [BSL; c] s) with (BSL :: c :: replace_char c [BSL; c] s).
    rewrite (unreplace_cons2 c d BSL).
    assert (Hb : (BSL =? c) = false) by (apply N.eqb_neq; congruence).
    rewrite Hb, andb_false_r. reflexivity.
  - change ([x] ++ replace_char c [BSL; c] s) with (x :: replace_char c [BSL; c] s).
    rewrite (unreplace_cons2 c d x). rewrite E, andb_false_r. reflexivity.
Qed.

Lemma unreplace_replace c s :
  c <> BSL -> unreplace c (replace_char c [BSL; c] s) = s.
Proof.
  intro Hc. induction s as [|x s IH]; [reflexivity|].
  rewrite replace_char_cons. destruct (x =? c) eqn:E.
  - apply N.eqb_eq in E. subst x.
    change ([BSL; c] ++ replace_char c [BSL; c] s) with (BSL :: c :: replace_char c [BSL; c] s).
    rewrite unreplace_cons2, !N.eqb_refl. cbn [andb]. rewrite IH. reflexivity.
  - change ([x] ++ replace_char c [BSL; c] s) with (x :: replace_char c [BSL; c] s).
    rewrite unreplace_cons_replace by exact Hc. rewrite IH. reflexivity.
Qed.

Lemma DOT_neq_BSL : DOT <> BSL.
Proof. unfold DOT, BSL. discriminate. Qed.
Lemma COLON_neq_BSL : COLON <> BSL.
Proof. unfold COLON, BSL. discriminate. Qed.

Lemma unreplace_escape n :
  unreplace COLON (unreplace DOT (escape n)) = uesc n.
Proof.
  unfold escape.
  rewrite (unreplace_replace DOT) by exact DOT_neq_BSL.
  apply unreplace_replace. exact COLON_neq_BSL.
Qed.

(* ------------------------------------------------------------------ *)
(* the look-behind flag of split_dots after scanning a string *)

Fixpoint endbsl (b : bool) (s : str) : bool :=
  match s with [] => b | c :: s' => endbsl (c =? BSL) s' end.

Lemma endbsl_app b s t : endbsl b (s ++ t) = endbsl (endbsl b s) t.
Proof. revert b. induction s as [|c s IH]; intro b; [reflexivity|]. cbn [app endbsl]. apply IH. Qed.

Lemma endbsl_last b s :
  endbsl b s = match last_char s with Some d => d =? BSL | None => b end.
Proof.
  induction s as [|c s _] using rev_ind; [reflexivity|].
  rewrite endbsl_app, last_char_app. reflexivity.
Qed.

Lemma endbsl_replace c b s :
  c <> BSL -> endbsl b (replace_char c [BSL; c] s) = endbsl b s.
Proof.
  intro Hc. revert b. induction s as [|x s IH]; intro b; [reflexivity|].
  rewrite replace_char_cons. destruct (x =? c) eqn:E.
  - apply N.eqb_eq in E. subst x.
    change ([BSL; c] ++ replace_char c [BSL; c] s) with (BSL :: c :: replace_char c [BSL; c] s).
    cbn [endbsl]. apply IH.
  - change ([x] ++ replace_char c [BSL; c] s) with (x :: replace_char c [BSL; c] s).
    cbn [endbsl]. apply IH.
Qed.

Lemma hexchar_neq_BSL d : (hexchar d =? BSL) = false.
Proof.
  unfold hexchar, BSL. destruct (d <? 10) eqn:E; apply N.eqb_neq.
  - apply N.ltb_lt in E. lia.
  - apply N.ltb_ge in E. lia.
Qed.

Lemma endbsl_hexdigits b k c : endbsl b (hexdigits (S k) c) = false.
Proof.
  cbn [hexdigits]. rewrite endbsl_app. cbn [endbsl]. apply hexchar_neq_BSL.
Qed.

Lemma endbsl_uesc_char b c : endbsl b (uesc_char c) = (c =? BSL).
Proof.
  unfold uesc_char.
  destruct (c =? BSL) eqn:E0; [reflexivity|].
  destruct (c =? TAB); [reflexivity|].
  destruct (c =? LF); [reflexivity|].
  destruct (c =? CR); [reflexivity|].
  destruct (c <? 32).
  { change (endbsl b (BSL :: 120 :: hexdigits 2 c)) with (endbsl (120 =? BSL) (hexdigits 2 c)).
    apply endbsl_hexdigits. }
  destruct (c <? 127).
  { cbn [endbsl]. exact E0. }
  destruct (c <? 256).
  { change (endbsl b (BSL :: 120 :: hexdigits 2 c)) with (endbsl (120 =? BSL) (hexdigits 2 c)).
    apply endbsl_hexdigits. }
  destruct (c <? 65536).
  { change (endbsl b (BSL :: 117 :: hexdigits 4 c)) with (endbsl (117 =? BSL) (hexdigits 4 c)).
    apply endbsl_hexdigits. }
  change (endbsl b (BSL :: 85 :: hexdigits 8 c)) with (endbsl (85 =? BSL) (hexdigits 8 c)).
  apply endbsl_hexdigits.
Qed.

Lemma endbsl_uesc b s : endbsl b (uesc s) = endbsl b s.
Proof.
  revert b. induction s as [|c s IH]; intro b; [reflexivity|].
  change (uesc (c :: s)) with (uesc_char c ++ uesc s).
  rewrite endbsl_app, endbsl_uesc_char, IH. reflexivity.
Qed.

Lemma endbsl_escape b n : endbsl b (escape n) = endbsl b n.
Proof.
  unfold escape.
  rewrite endbsl_replace by exact DOT_neq_BSL.
  rewrite endbsl_replace by exact COLON_neq_BSL.
  apply endbsl_uesc.
Qed.

Lemma endbsl_endswith1 n : endbsl false n = endswith1 BSL n.
Proof.
  rewrite endbsl_last. unfold endswith1.
  destruct (last_char n); [apply N.eqb_sym|reflexivity].
Qed.

(* ------------------------------------------------------------------ *)
(* split_dots never cuts inside s.replace('.', '\\.') *)

Lemma split_dots_cons b c s :
  split_dots b (c :: s) =
  if (c =? DOT) && negb b then [] :: split_dots false s
  else match split_dots (c =? BSL) s with p :: ps => (c :: p) :: ps | [] => [[c]] end.
Proof. reflexivity. Qed.

Lemma BSL_eqb_DOT : (BSL =? DOT) = false.
Proof. reflexivity. Qed.
Lemma DOT_eqb_BSL : (DOT =? BSL) = false.
Proof. reflexivity. Qed.

Lemma split_dots_replace_last b v :
  split_dots b (replace_char DOT [BSL; DOT] v) = [replace_char DOT [BSL; DOT] v].
Proof.
  revert b. induction v as [|x v IH]; intro b; [reflexivity|].
  rewrite replace_char_cons. destruct (x =? DOT) eqn:E.
  - change ([BSL; DOT] ++ replace_char DOT [BSL; DOT] v)
      with (BSL :: DOT :: replace_char DOT [BSL; DOT] v).
    rewrite split_dots_cons, BSL_eqb_DOT. cbn [andb].
    rewrite split_dots_cons, N.eqb_refl, N.eqb_refl. cbn [andb negb].
    rewrite DOT_eqb_BSL, IH. reflexivity.
  - change ([x] ++ replace_char DOT [BSL; DOT] v) with (x :: replace_char DOT [BSL; DOT] v).
    rewrite split_dots_cons, E. cbn [andb]. rewrite IH. reflexivity.
Qed.

Lemma split_dots_replace_sep b v rest :
  endbsl b (replace_char DOT [BSL; DOT] v) = false ->
  split_dots b (replace_char DOT [BSL; DOT] v ++ DOT :: rest) =
  replace_char DOT [BSL; DOT] v :: split_dots false rest.
Proof.
  revert b. induction v as [|x v IH]; intros b H.
  - cbn [replace_char endbsl] in H. subst b.
    cbn [replace_char app]. rewrite split_dots_cons, N.eqb_refl. reflexivity.
  - rewrite replace_char_cons in *. destruct (x =? DOT) eqn:E.
    + change ([BSL; DOT] ++ replace_char DOT [BSL; DOT] v)
        with (BSL :: DOT :: replace_char DOT [BSL; DOT] v) in *.
      cbn [endbsl] in H. rewrite <- !app_comm_cons.
      rewrite split_dots_cons, BSL_eqb_DOT. cbn [andb].
      rewrite split_dots_cons, N.eqb_refl, N.eqb_refl. cbn [andb negb].
      rewrite (IH _ H). reflexivity.
    + change ([x] ++ replace_char DOT [BSL; DOT] v) with (x :: replace_char DOT [BSL; DOT] v) in *.
      cbn [endbsl] in H. rewrite <- app_comm_cons.
      rewrite split_dots_cons, E. cbn [andb]. rewrite (IH _ H). reflexivity.
Qed.

Lemma split_dots_escape_last b n : split_dots b (escape n) = [escape n].
Proof. unfold escape. apply split_dots_replace_last. Qed.

Lemma split_dots_escape_sep n rest :
  endswith1 BSL n = false ->
  split_dots false (escape n ++ DOT :: rest) = escape n :: split_dots false rest.
Proof.
  intro H. unfold escape at 1 2. apply split_dots_replace_sep.
  fold (escape n). rewrite endbsl_escape, endbsl_endswith1. exact H.
Qed.

Lemma join_cons2 sep (x y : str) l : join sep (x :: y :: l) = x ++ sep ++ join sep (y :: l).
Proof. reflexivity. Qed.

Lemma split_dots_join ns :
  names_dom ns = true ->
  split_dots false (join [DOT] (map escape ns)) = map escape ns.
Proof.
  induction ns as [|a ns IH]; intro H; [discriminate|].
  destruct ns as [|m l].
  - cbn [map join]. apply split_dots_escape_last.
  - rewrite names_dom_cons2 in H.
    apply andb_true_iff in H as [H H3]. apply andb_true_iff in H as [_ H2].
    apply negb_true_iff in H2.
    change (map escape (a :: m :: l)) with (escape a :: map escape (m :: l)).
    change (map escape (m :: l)) with (escape m :: map escape l) at 1.
    rewrite join_cons2.
    change (escape a ++ [DOT] ++ join [DOT] (escape m :: map escape l))
      with (escape a ++ DOT :: join [DOT] (map escape (m :: l))).
    rewrite split_dots_escape_sep by exact H2.
    rewrite (IH H3). reflexivity.
Qed.

(* ------------------------------------------------------------------ *)
Section WithCodec.
Hypothesis codec : forall s, nvalid_str s = true -> udec (uesc s) = Ok s.

Lemma unescape_escape : forall n, nvalid_str n = true -> unescape (escape n) = Ok n.
Proof.
  intros n H. unfold unescape. rewrite unreplace_escape. apply codec. exact H.
Qed.

Lemma mapM_unescape_escape ns :
  Forall (fun n => nvalid_str n = true) ns -> mapM unescape (map escape ns) = Ok ns.
Proof.
  induction 1 as [|n ns Hn _ IH]; [reflexivity|].
  cbn [map mapM]. rewrite (unescape_escape n Hn). cbn [bind]. rewrite IH. reflexivity.
Qed.

Lemma split_join_on_domain : forall ns, names_dom ns = true -> split (join_names ns) = Ok ns.
Proof.
  intros ns H. unfold split, join_names.
  rewrite (split_dots_join ns H).
  apply mapM_unescape_escape. apply names_dom_valid. exact H.
Qed.
End WithCodec.

Lemma split_join_refuted :
  exists ns, names_dom ns = false /\ ns <> [] /\ split (join_names ns) <> Ok ns.
Proof.
  exists [[92]; [97]]. split; [vm_compute; reflexivity|]. split; [discriminate|].
  vm_compute. discriminate.
Qed.

Example names_dom_nonvacuous : names_dom [[97; 92; 46; 58]; [35; 99; 92]] = true.
Proof. vm_compute. reflexivity. Qed.
