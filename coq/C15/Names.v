(* C15/Names.v — registry names: unescape inverts escape, and split inverts
   join exactly on the names where no component other than the last ends with
   a backslash.  The codec round trip udec (uesc s) = Ok s is a Section
   hypothesis (proved elsewhere). *)
From Coq Require Import List NArith ZArith Bool Lia ZifyBool Arith.
Import ListNotations.
Require Import Base.Wire Base.PyStr C15.Model.
Open Scope N_scope.

Definition nvalid_cp (c : N) : bool := (c <? MAXCP)%N.
Definition nvalid_str (s : str) : bool := forallb (fun c => (c <? MAXCP)%N) s.

Lemma replace_char_cons c img x s :
  replace_char c img (x :: s) = (if x =? c then img else [x]) ++ replace_char c img s.
Proof. reflexivity. Qed.

Lemma replace_char_app c img a b :
  replace_char c img (a ++ b) = replace_char c img a ++ replace_char c img b.
Proof.
  induction a as [|x a IH]; [reflexivity|].
  rewrite <- app_comm_cons, !replace_char_cons, IH, app_assoc. reflexivity.
Qed.

Lemma unreplace_cons2 c x y s :
  unreplace c (x :: y :: s) =
  if (x =? BSL) && (y =? c) then c :: unreplace c s else x :: unreplace c (y :: s).
Proof. reflexivity. Qed.

Lemma unreplace_cons_replace c d s :
  c <> BSL ->
  unreplace c (d :: replace_char c [BSL; c] s) = d :: unreplace c (replace_char c [BSL; c] s).
Proof.
  intro Hc. destruct s as [|x s]; [reflexivity|].
  rewrite replace_char_cons. destruct (x =? c) eqn:E.
  - change ([BSL; c] ++ replace_char c [BSL; c] s) with (BSL :: c :: replace_char c [BSL; c] s).
    rewrite (unreplace_cons2 c d BSL).
    assert (Hb : (BSL =? c) = false) by (apply N.eqb_neq; congruence).
    rewrite Hb, andb_false_r. reflexivity.
  - change ([x] ++ replace_char c [BSL; c] s) with (x :: replace_char c [BSL; c] s).
    rewrite (unreplace_cons2 c d x). rewrite E, andb_false_r. reflexivity.
Qed.

Lemma unreplace_replace c s :
  c <> BSL -> unreplace c (replace_char c [BSL; c] s) = s.
Proof.
  intro Hc. induction s as [|x s IH]; [reflexivity|].
  rewrite replace_char_cons. destruct (x =? c) eqn:E.
  - apply N.eqb_eq in E. subst x.
    change ([BSL; c] ++ replace_char c [BSL; c] s) with (BSL :: c :: replace_char c [BSL; c] s).
    rewrite unreplace_cons2, !N.eqb_refl. cbn [andb]. rewrite IH. reflexivity.
  - change ([x] ++ replace_char c [BSL; c] s) with (x :: replace_char c [BSL; c] s).
    rewrite unreplace_cons_replace by exact Hc. rewrite IH. reflexivity.
Qed.

Lemma DOT_neq_BSL : DOT <> BSL.
Proof. unfold DOT, BSL. discriminate. Qed.
Lemma COLON_neq_BSL : COLON <> BSL.
Proof. unfold COLON, BSL. discriminate. Qed.

Lemma unreplace_escape n :
  unreplace COLON (unreplace DOT (escape n)) = uesc n.
Proof.
  unfold escape.
  rewrite (unreplace_replace DOT) by exact DOT_neq_BSL.
  apply unreplace_replace. exact COLON_neq_BSL.
Qed.

(* ------------------------------------------------------------------ *)
(* the look-behind flag of split_dots after scanning a string *)

Fixpoint endbsl (b : bool) (s : str) : bool :=
  match s with [] => b | c :: s' => endbsl (c =? BSL) s' end.

Lemma endbsl_app b s t : endbsl b (s ++ t) = endbsl (endbsl b s) t.
Proof. revert b. induction s as [|c s IH]; intro b; [reflexivity|]. cbn [app endbsl]. apply IH. Qed.

Lemma endbsl_last b s :
  endbsl b s = match last_char s with Some d => d =? BSL | None => b end.
Proof.
  induction s as [|c s _] using rev_ind; [reflexivity|].
  rewrite endbsl_app, last_char_app. reflexivity.
Qed.

Lemma endbsl_replace c b s :
  c <> BSL -> endbsl b (replace_char c [BSL; c] s) = endbsl b s.
Proof.
  intro Hc. revert b. induction s as [|x s IH]; intro b; [reflexivity|].
  rewrite replace_char_cons. destruct (x =? c) eqn:E.
  - apply N.eqb_eq in E. subst x.
    change ([BSL; c] ++ replace_char c [BSL; c] s) with (BSL :: c :: replace_char c [BSL; c] s).
    cbn [endbsl]. apply IH.
  - change ([x] ++ replace_char c [BSL; c] s) with (x :: replace_char c [BSL; c] s).
    cbn [endbsl]. apply IH.
Qed.

Lemma hexchar_neq_BSL d : (hexchar d =? BSL) = false.
Proof.
  unfold hexchar, BSL. destruct (d <? 10) eqn:E; apply N.eqb_neq.
  - apply N.ltb_lt in E. lia.
  - apply N.ltb_ge in E. lia.
Qed.

Lemma endbsl_hexdigits b k c : endbsl b (hexdigits (S k) c) = false.
Proof.
  cbn [hexdigits]. rewrite endbsl_app. cbn [endbsl]. apply hexchar_neq_BSL.
Qed.

Lemma endbsl_uesc_char b c : endbsl b (uesc_char c) = (c =? BSL).
Proof.
  unfold uesc_char.
  destruct (c =? BSL) eqn:E0; [reflexivity|].
  destruct (c =? TAB); [reflexivity|].
  destruct (c =? LF); [reflexivity|].
  destruct (c =? CR); [reflexivity|].
  destruct (c <? 32).
  { change (endbsl b (BSL :: 120 :: hexdigits 2 c)) with (endbsl (120 =? BSL) (hexdigits 2 c)).
    apply endbsl_hexdigits. }
  destruct (c <? 127).
  { cbn [endbsl]. exact E0. }
  destruct (c <? 256).
  { change (endbsl b (BSL :: 120 :: hexdigits 2 c)) with (endbsl (120 =? BSL) (hexdigits 2 c)).
    apply endbsl_hexdigits. }
  destruct (c <? 65536).
  { change (endbsl b (BSL :: 117 :: hexdigits 4 c)) with (endbsl (117 =? BSL) (hexdigits 4 c)).
    apply endbsl_hexdigits. }
  change (endbsl b (BSL :: 85 :: hexdigits 8 c)) with (endbsl (85 =? BSL) (hexdigits 8 c)).
  apply endbsl_hexdigits.
Qed.

Lemma endbsl_uesc b s : endbsl b (uesc s) = endbsl b s.
Proof.
  revert b. induction s as [|c s IH]; intro b; [reflexivity|].
  change (uesc (c :: s)) with (uesc_char c ++ uesc s).
  rewrite endbsl_app, endbsl_uesc_char, IH. reflexivity.
Qed.

Lemma endbsl_escape b n : endbsl b (escape n) = endbsl b n.
Proof.
  unfold escape.
  rewrite endbsl_replace by exact DOT_neq_BSL.
  rewrite endbsl_replace by exact COLON_neq_BSL.
  apply endbsl_uesc.
Qed.

Lemma endbsl_endswith1 n : endbsl false n = endswith1 BSL n.
Proof.
  rewrite endbsl_last. unfold endswith1.
  destruct (last_char n); [apply N.eqb_sym|reflexivity].
Qed.

(* ------------------------------------------------------------------ *)
Section WithCodec.
Hypothesis codec : forall s, nvalid_str s = true -> udec (uesc s) = Ok s.

Lemma unescape_escape : forall n, nvalid_str n = true -> unescape (escape n) = Ok n.
Proof.
  intros n H. unfold unescape. rewrite unreplace_escape. apply codec. exact H.
Qed.

Lemma mapM_unescape_escape ns :
  Forall (fun n => nvalid_str n = true) ns -> mapM unescape (map escape ns) = Ok ns.
Proof.
  induction 1 as [|n ns Hn _ IH]; [reflexivity|].
  cbn [map mapM]. rewrite (unescape_escape n Hn). cbn [bind]. rewrite IH. reflexivity.
Qed.

End WithCodec.

