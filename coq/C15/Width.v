(* C15/Width.v — the wrap width NormalizedString.serialize asks for, as a function of the name:
   with the regenerated minimum it is never 0, so the value line is written for EVERY name and the
   round trip of NormRT holds for every name; without a minimum a name of 74 characters loses its value. *)
From Coq Require Import List NArith Bool Arith Lia.
Import ListNotations.
Require Import Base.Wire Base.PyStr C15.Model C15.Lemmas C15.File C15.NormRT.
Require Import gen.T15.

(* reflection on the regenerated constants *)
Lemma wrap_min_positive : Nat.ltb 0 WRAP_MIN = true.
Proof. vm_compute. reflexivity. Qed.
Lemma wrap_extra_is_prefix : WRAP_EXTRA = 2%nat.       (* the ': ' the model's indent_of accounts for *)
Proof. vm_compute. reflexivity. Qed.

Lemma wrap_width_positive name : Nat.eqb (wrap_width name) 0 = false.
Proof.
  unfold wrap_width, wrap_width_with. pose proof wrap_min_positive as H. apply Nat.ltb_lt in H.
  apply Nat.eqb_neq. lia.
Qed.

(* the line is written whatever the name *)
Lemma norm_file_written name chunks : norm_file name chunks = wrapped_text name chunks.
Proof. unfold norm_file, norm_file_with. fold (wrap_width name). rewrite wrap_width_positive. reflexivity. Qed.

Lemma norm_save_reload_eq name chunks fresh : norm_save_reload name chunks fresh = norm_reload name chunks fresh.
Proof.
  unfold norm_save_reload, norm_reload_with, norm_reload. fold (norm_file name chunks).
  rewrite norm_file_written. reflexivity.
Qed.

(* THE ROUND TRIP, for every name (no bound on its length) *)
Theorem normalized_roundtrip_any_name : forall name fresh v W ws,
  name_ok name = true -> vstr v = true -> normalize v = v ->
  words_ok W -> join [SP] W = string_str v -> chunking W ws ->
  norm_save_reload name (chunks_of ws) fresh = Ok v.
Proof.
  intros name fresh v W ws Hn Hv Hnv HW HJ Hc. rewrite norm_save_reload_eq.
  exact (normalized_roundtrip name fresh v W ws Hn Hv Hnv HW HJ Hc).
Qed.

Theorem normalized_roundtrip_any_name_empty : forall name fresh,
  name_ok name = true -> norm_save_reload name [] fresh = Ok [].
Proof. intros. rewrite norm_save_reload_eq. apply normalized_roundtrip_empty; assumption. Qed.

(* the width the unrepaired expression (no minimum) asks for a name of 74 characters is 0: nothing is
   written, and the reloaded value is the default, not the value saved *)
Definition long_name : str := repeat 97 74.
Example no_minimum_loses_value :
  name_ok long_name = true /\ length long_name = 74%nat /\ wrap_width_with 0 long_name = 0%nat /\
  norm_file_with 0 long_name [[119]] = [] /\
  norm_reload_with 0 long_name [[119]] [100] = Ok [100].
Proof. vm_compute. repeat split. Qed.

(* ... exactly from 74 characters on *)
Lemma no_minimum_width_zero_iff name :
  wrap_width_with 0 name = 0%nat <-> (WRAP_COLS - WRAP_EXTRA <= length name)%nat.
Proof. unfold wrap_width_with. rewrite Nat.max_0_r. lia. Qed.

(* and with the regenerated minimum the same name keeps its value *)
Example long_name_kept : norm_save_reload long_name [[119]] [100] = Ok [119].
Proof. vm_compute. reflexivity. Qed.
