(* C15/Props.v — the property theorems, nothing else.
   Model: C15/Model.v (mirrors src/registry.py).  Proofs: Codec.v, Names.v, Lemmas.v,
   File.v, Tree.v, Final.v.
   reload name k fresh oks v = "close() writes the value line of v under [name];
   open_registry() reads that file; a fresh instance of class k is set from the cache". *)
From Coq Require Import List NArith ZArith Bool.
Import ListNotations.
Require Import Base.Wire Base.PyStr C15.Model C15.Lemmas C15.Names C15.Codec C15.Split C15.File C15.FileMulti C15.Tree C15.Final C15.Atomic C15.Gen C15.Restart C15.Wrapped C15.NormRT C15.Reset C15.ResetWorld C15.Width C15.Api C15.ResetParent C15.UserVal.
Require Import gen.T15.

(* ---- names: split inverts join for every non-empty list of names (full statement since the
   repair of F26; the empty list is not a name: join [] = "" splits into [""]). *)
Theorem C15_name_roundtrip :
  forall ns, ns <> [] -> Forall (fun n => vstr n = true) ns -> split (join_names ns) = Ok ns.
Proof. exact name_roundtrip. Qed.
Print Assumptions C15_name_roundtrip.

(* ---- the unicode_escape codec used for every value and name: decode (encode s) = s *)
Theorem C15_codec_roundtrip : forall s, vstr s = true -> udec (uesc s) = Ok s.
Proof. exact codec_v. Qed.
Print Assumptions C15_codec_roundtrip.

(* repr / safeEval as used by String.set and String.__str__ *)
Theorem C15_eval_repr : forall s, vstr s = true -> py_eval (py_repr s) = Ok s.
Proof. exact evalrepr_v. Qed.
Print Assumptions C15_eval_repr.

(* ---- the file layer: the saved line is read back as (name, text), whatever the class and the value.
   name_ok name = no blank, not a comment line, not ending with an odd number of backslashes;
   every name built by join_names has the last property (C15_joined_names_ok), so after the
   repair of F22 a name ending with a backslash is covered. *)
Theorem C15_file_transparent :
  forall name k fresh oks v, name_ok name = true -> vstr (str_of k v) = true ->
  reload name k fresh oks v = set_text k fresh oks (str_of k v).
Proof. exact reload_ok. Qed.
Print Assumptions C15_file_transparent.

Theorem C15_joined_names_ok :
  forall ns, nows (join_names ns) = true -> startswith [HASH] (join_names ns) = false ->
  name_ok (join_names ns) = true.
Proof. exact joined_name_ok. Qed.
Print Assumptions C15_joined_names_ok.

(* ---- String: every value survives save/reload (full statement since the repair of F16) *)
Theorem C15_string_roundtrip :
  forall name fresh oks v,
  name_ok name = true -> vstr v = true -> hd_ok oks = true ->
  reload name KString fresh oks (PS v) = Ok (PS v).
Proof. exact string_reload. Qed.
Print Assumptions C15_string_roundtrip.

(* ---- Boolean, Integer family *)
Theorem C15_boolean_roundtrip :
  forall name fresh oks b, name_ok name = true -> hd_ok oks = true ->
  reload name KBoolean fresh oks (PB b) = Ok (PB b).
Proof. exact boolean_reload. Qed.
Print Assumptions C15_boolean_roundtrip.

Theorem C15_integer_roundtrip :
  forall name lo fresh oks z, name_ok name = true -> hd_ok oks = true -> int_accepts lo z = true ->
  reload name (KInteger lo) fresh oks (PI z) = Ok (PI z).
Proof. exact integer_reload. Qed.
Print Assumptions C15_integer_roundtrip.

Theorem C15_integer_rejects_below :
  forall l z cur oks, (z < l)%Z -> set_text (KInteger (Some l)) cur oks (Z_str z) = Raise InvalidRegistryValue.
Proof. exact int_rejects_below. Qed.
Print Assumptions C15_integer_rejects_below.

(* ---- space separated lists of strings.  tok_ok t = t is non-empty and has no blank.
   (1) exactly the lists of such elements are reproduced by their own __str__ / set;
   (2) whatever .set(text) stores is such a list, and (3) it survives save/reload of the file. *)
Theorem C15_spacelist_roundtrip_iff :
  forall l cur oks, forallb (fun b : bool => b) oks = true ->
  (set_text (KSpaceList false) cur oks (str_of (KSpaceList false) (PL l)) = Ok (PL l) <-> forallb tok_ok l = true).
Proof. exact spacelist_roundtrip_iff. Qed.
Print Assumptions C15_spacelist_roundtrip_iff.

Theorem C15_spacelist_roundtrip :
  forall name fresh cur oks s,
  name_ok name = true -> forallb (fun b : bool => b) oks = true -> vstr s = true ->
  exists l, set_text (KSpaceList false) cur oks s = Ok (PL l) /\
            reload name (KSpaceList false) fresh oks (PL l) = Ok (PL l).
Proof. exact spacelist_set_reload. Qed.
Print Assumptions C15_spacelist_roundtrip.

Theorem C15_spacelist_reload_on_domain :
  forall name fresh oks l,
  name_ok name = true -> forallb (fun b : bool => b) oks = true ->
  forallb tok_ok l = true -> forallb vstr l = true ->
  reload name (KSpaceList false) fresh oks (PL l) = Ok (PL l).
Proof. exact spacelist_reload. Qed.
Print Assumptions C15_spacelist_reload_on_domain.

(* ---- the Value tree: specific values and rejected sets, for any value type.
   [resolve] is the readable rule: net+chan setting, else net setting, else chan setting, else general.
   One step of any operation keeps the invariant; getSpecific returns [resolve]; setValue/reset never
   raise; a rejected set (Raise) leaves what every address resolves to unchanged. *)
Theorem C15_specific_and_reject_atomic :
  forall (V : Type) (reparse : V -> res V) (settext : V -> str -> res V) (t : tree V) (s : spec V) (o : top V),
  Inv V reparse t s -> op_safe V reparse settext o ->
  let '(t', r) := step V reparse settext t o in
  Inv V reparse t' (spec_step V s o r) /\
  (forall a, o = OGet a -> r = Ok (resolve V s a)) /\
  (forall a v, o = OSetValue a v -> r = Ok v) /\
  (forall a, o = OReset a -> exists v, r = Ok v) /\
  (forall a x e, o = OSet a x -> r = Raise e -> forall b, resolve V (spec_step V s o r) b = resolve V s b).
Proof. exact step_refines. Qed.
Print Assumptions C15_specific_and_reject_atomic.

(* over whole histories: every getSpecific in the history returns [resolve] of the settings in force then *)
Theorem C15_specific_history :
  forall (V : Type) (reparse : V -> res V) (settext : V -> str -> res V) (ops : list (top V)) (t : tree V) (s : spec V),
  Inv V reparse t s -> Forall (op_safe V reparse settext) ops ->
  let rs := snd (run_ops V reparse settext t ops) in
  forall i a, nth_error ops i = Some (OGet a) ->
  nth_error rs i = Some (Ok (resolve V (spec_run V s (firstn i ops) (firstn i rs)) a)).
Proof. exact run_refines_gets. Qed.
Print Assumptions C15_specific_history.

Theorem C15_tree_initial : forall (V : Type) (reparse : V -> res V) v,
  safe V reparse v -> Inv V reparse (mktree V v [] []) (mkspec V v [] [] []).
Proof. exact Inv_init. Qed.
Print Assumptions C15_tree_initial.

(* the hypothesis "every value is reproduced by str()/set()" (safe) holds for these values ... *)
Theorem C15_string_values_safe : forall dflt v, vstr v = true -> safe pv (k_reparse KString dflt) (PS v).
Proof. exact string_value_safe. Qed.
Print Assumptions C15_string_values_safe.

Theorem C15_boolean_values_safe : forall dflt b, safe pv (k_reparse KBoolean dflt) (PB b).
Proof. exact boolean_value_safe. Qed.
Print Assumptions C15_boolean_values_safe.

Theorem C15_integer_values_safe : forall lo dflt z, int_accepts lo z = true -> safe pv (k_reparse (KInteger lo) dflt) (PI z).
Proof. exact integer_value_safe. Qed.
Print Assumptions C15_integer_values_safe.

Theorem C15_spacelist_values_safe_iff : forall dflt l,
  safe pv (k_reparse (KSpaceList false) dflt) (PL l) <-> forallb tok_ok l = true.
Proof. exact spacelist_value_safe_iff. Qed.
Print Assumptions C15_spacelist_values_safe_iff.

(* ... and it is exact: for ANY value type, a general value that str()/set() does not reproduce
   already breaks getSpecific for a channel never seen before *)
Theorem C15_specific_safe_necessary :
  forall (V : Type) (reparse : V -> res V) (settext : V -> str -> res V) (v : V) (c : str),
  reparse v <> Ok v ->
  snd (step V reparse settext (mktree V v [] []) (OGet (AC c))) <> Ok (resolve V (mkspec V v [] [] []) (AC c)).
Proof. exact specific_safe_necessary. Qed.
Print Assumptions C15_specific_safe_necessary.

(* ---- bad values are rejected atomically, for EVERY class of the regenerated inventory.
   ATOMIC_TABLE (regenerated from src/registry.py and src/conf.py) holds, per class, the resolved
   bodies of set() and setValue() inlined along the MRO as programs over
   check / error / assign(self.value) / seq / if / try.  [exec p o false] runs p from "nothing assigned"
   with the list o deciding every check, side effect and branch; it returns (assigned?, raised?).
   However those behave: if the call raises, self.value (hence what serialize() would save, and the
   children that inherit it) has not been assigned. *)
Theorem C15_reject_atomic_all_classes :
  forall name, In name INVENTORY -> excepted name = false ->
  exists pset psetvalue, In (name, pset, psetvalue) ATOMIC_TABLE /\
  forall o,
    (snd (fst (exec pset o false)) = true -> fst (fst (exec pset o false)) = false) /\
    (snd (fst (exec psetvalue o false)) = true -> fst (fst (exec psetvalue o false)) = false).
Proof. exact reject_atomic_all_classes. Qed.
Print Assumptions C15_reject_atomic_all_classes.

(* INVENTORY = every registry value class defined anywhere in src/ and plugins/ (85 classes on this tree).
   excepted = the classes of ATOMIC_EXCEPTIONS (regenerated: the recorded findings that are still in the source);
   they are exactly classes whose program is NOT atomic *)
Theorem C15_atomic_exceptions_are_refuted :
  forallb (fun e : list N * stm * stm => negb (excepted (fst (fst e))) || negb (atomic (snd (fst e)) && atomic (snd e))) ATOMIC_TABLE = true.
Proof. exact exceptions_are_not_atomic. Qed.
Print Assumptions C15_atomic_exceptions_are_refuted.

Theorem C15_atomic_table_covers_inventory : map (fun e => fst (fst e)) ATOMIC_TABLE = INVENTORY.
Proof. exact table_covers_inventory. Qed.
Print Assumptions C15_atomic_table_covers_inventory.

(* generic: any program the checker accepts is atomic under every behaviour of its checks *)
Theorem C15_atomic_sound : forall p, atomic p = true ->
  forall o, snd (fst (exec p o false)) = true -> fst (fst (exec p o false)) = false.
Proof. exact atomic_sound. Qed.
Print Assumptions C15_atomic_sound.

(* the ordering the inventory must not contain (C15.F25 before its repair): store, then something that may raise *)
Theorem C15_store_then_effect_refuted :
  atomic (SSeq (SSeq SCheck (SIf SError SSkip)) (SSeq SAssign SCheck)) = false /\
  exists o, fst (exec (SSeq (SSeq SCheck (SIf SError SSkip)) (SSeq SAssign SCheck)) o false) = (true, true).
Proof. exact store_then_effect_not_atomic. Qed.
Print Assumptions C15_store_then_effect_refuted.

(* ---- restarts: the loader cache and the registration functions of src/conf.py.
   A whole file of value lines (good names, valid texts) is read back line for line. *)
Theorem C15_file_text_loads :
  forall ls, forallb line_ok ls = true -> open_registry (file_text ls) = Ok ls.
Proof. exact open_file_text. Qed.
Print Assumptions C15_file_text_loads.

(* One variable d with base value b and specific settings [items] (channel values, network nodes
   with their channel values, in the order close() writes them).  Its lines sit in a cache between the
   lines A, B of other variables which the scan of d ignores (foreign) and lookups by name are
   unambiguous.  Then registering d re-creates exactly those settings, and saving writes exactly those
   lines.  items_ok: valid names, channels that are channels, every value survives str()/set() (rt),
   different nodes have different paths, a network item has its own value or a channel value (else it
   is not a setting), and the flavour rule (global: nothing below; network variables: channel nodes and
   network nodes; channel variables: everything).  Since the repair of C15.F27 a network-level value
   needs no channel value below it (C15_network_only_kept). *)
Theorem C15_load_save_var :
  forall d b items A B,
  items_ok d b items -> foreign d A -> foreign d B ->
  unambiguous d b items (A ++ var_lines d b items ++ B) ->
  load_var d (A ++ var_lines d b items ++ B) = Ok (var_state b items) /\
  save_var d (var_state b items) = var_lines d b items.
Proof. exact load_save_var. Qed.
Print Assumptions C15_load_save_var.

(* Every set of registered variables E (file_ok: the above for each of them w.r.t. the whole file),
   any number n of restarts: each session loads the TEXT the previous one saved, registers every
   variable, reads nothing, sets nothing, saves -- and saves the same lines again; nothing a previous
   session saved is dropped by a session that does not touch it. *)
Theorem C15_save_is_idempotent_across_restarts :
  forall E n,
  file_ok E -> forallb line_ok (file_of E) = true -> NoDup (map lkey (file_of E)) ->
  generations (decls_of E) (file_of E) (repeat [] n) = repeat (Ok (file_of E, [])) n.
Proof. exact generations_fixpoint. Qed.
Print Assumptions C15_save_is_idempotent_across_restarts.

(* the hypotheses on values hold for these classes ... *)
Theorem C15_rt_values :
  (forall d v, d_kind d = KString -> vstr v = true -> rt d (PS v)) /\
  (forall d x, d_kind d = KBoolean -> rt d (PB x)) /\
  (forall d lo z, d_kind d = KInteger lo -> int_accepts lo z = true -> rt d (PI z)).
Proof. exact (conj rt_string (conj rt_boolean rt_integer)). Qed.
Print Assumptions C15_rt_values.

(* ... unambiguous follows from keys that differ after lower() *)
Theorem C15_unambiguous_from_nodup :
  forall d b items A B,
  NoDup (map lkey (A ++ var_lines d b items ++ B)) ->
  (forall n chans, In (INet n None chans) items ->
     ~ In (lower (nm d [n])) (map lkey (A ++ var_lines d b items ++ B))) ->
  unambiguous d b items (A ++ var_lines d b items ++ B).
Proof. exact unambiguous_nodup. Qed.
Print Assumptions C15_unambiguous_from_nodup.

(* ... and the statement is not vacuous: a camelCase channel variable with a channel value and a
   network+channel value below an unset network *)
Theorem C15_restart_example :
  session [ex_d] (file_of [(ex_d, PS [122], ex_items)]) [] = Ok (file_of [(ex_d, PS [122], ex_items)], []).
Proof. exact ex_session. Qed.
Print Assumptions C15_restart_example.

(* the old witness of the repaired defect C15.F27: a network-level value without channel values
   below it is re-created by the scan and written again *)
Theorem C15_network_only_kept :
  load_var ex_d (var_lines ex_d (PS [122]) ex_netonly) = Ok (var_state (PS [122]) ex_netonly) /\
  save_var ex_d (var_state (PS [122]) ex_netonly) = var_lines ex_d (PS [122]) ex_netonly.
Proof. exact ex_netonly_kept. Qed.
Print Assumptions C15_network_only_kept.

(* ---- NormalizedString: the wrapped value lines of serialize().  textwrap.wrap is an input (chunks).
   chunk_ok c = not empty, does not start with a blank, no CR/LF, an even number of backslashes at its end.
   Whatever chunks textwrap produced, the physical lines written for `name` are read as ONE logical
   line `name: chunk1<indent>chunk2<indent>...`: no line is taken for a comment or an empty line, none
   is dropped, and the lines of the next variable are read untouched. *)
Theorem C15_wrapped_value_reassembled :
  forall name chunks more,
  prefix_ok (name ++ [COLON; SP]) = true -> chunks <> [] -> forallb chunk_ok chunks = true ->
  read_lines [] (wrapped_lines name chunks ++ more) =
  (do kv <- parse_acc (name ++ [COLON; SP] ++ glue (indent_of name) chunks);
   do kvs <- read_lines [] more; Ok (kv :: kvs)).
Proof. exact wrapped_reassembled. Qed.
Print Assumptions C15_wrapped_value_reassembled.

(* a continuation line is never taken for a comment (nor for a blank line), whatever its first word *)
Theorem C15_continuation_never_comment :
  forall name c rest, chunk_ok c = true ->
  startswith [HASH] (indent_of name ++ c ++ rest) = false /\ strip_ws (indent_of name ++ c ++ rest) <> [].
Proof. exact continuation_never_comment. Qed.
Print Assumptions C15_continuation_never_comment.

(* the comment test must look at the first character of the physical line only: after an lstrip a
   continuation line whose first word starts with # would be dropped *)
Theorem C15_lstrip_comment_test_refuted :
  chunk_ok [HASH; 99] = true /\ startswith [HASH] (lstrip_ws (indent_of [118] ++ [HASH; 99] ++ [BSL])) = true.
Proof. exact lstrip_test_would_drop. Qed.
Print Assumptions C15_lstrip_comment_test_refuted.

(* ---- NormalizedString, value level (since the repair of C15.F28 textwrap cuts at blanks only).
   v is a normalized value (normalize v = v: words separated by single blanks, no blank at the ends);
   W are the words of the text handed to textwrap BEFORE escaping (string_str v: v itself, or its
   repr when it looks like a quoted string); ws is ANY regrouping of those words into non-empty
   chunks, in order; chunks_of ws = the escaped chunks.  Saving `name` with these chunks, loading the
   file and setting a fresh instance gives back exactly v. *)
Theorem C15_normalized_roundtrip :
  forall name fresh v W ws,
  name_ok name = true -> vstr v = true -> normalize v = v ->
  words_ok W -> join [SP] W = string_str v -> chunking W ws ->
  norm_reload name (chunks_of ws) fresh = Ok v.
Proof. exact normalized_roundtrip. Qed.
Print Assumptions C15_normalized_roundtrip.

(* the empty value (no chunk at all) *)
Theorem C15_normalized_roundtrip_empty :
  forall name fresh, name_ok name = true -> norm_reload name [] fresh = Ok [].
Proof. exact normalized_roundtrip_empty. Qed.
Print Assumptions C15_normalized_roundtrip_empty.

(* every text of words is a normalized value *)
Theorem C15_normalize_words : forall V, words_ok V -> normalize (join [SP] V) = join [SP] V.
Proof. exact normalize_words. Qed.
Print Assumptions C15_normalize_words.

(* ---- timestamps, `config reload` in a running bot, `config reset`.
   t_setvalue tv p v true now = node p._setValue(v, inherited=True) at instant now (the reset commands);
   tcall = node(): the lazy reload of Value.__call__ (registry._lastModified [glm] newer than the node's
   timestamp and the node's name in registry._cache -> set from the cached text).
   A value reset not before the last open_registry stays reset: it is unset, holds the parent's value,
   and a later read returns that value and changes nothing, whatever the cache still holds. *)
Theorem C15_reset_stays_reset :
  forall d C tv p v now now2 glm,
  p <> [] -> (glm <= now)%nat ->
  let tv1 := t_setvalue tv p v true now in
  t_flag tv1 p = false /\ t_val tv1 p = v /\ tcall d C glm now2 tv1 p = Ok (tv1, v).
Proof. exact reset_stays_reset. Qed.
Print Assumptions C15_reset_stays_reset.

(* the timestamp refresh of an inherited _setValue is what it rests on: a reset node left with a timestamp
   older than the last open_registry is set again from the cache by the next read *)
Theorem C15_stale_timestamp_refuted :
  match tcall ex_rd ex_rcache 3 6 ex_rstale [[35; 97]] with
  | Ok (tv, v) => v = PI (Zpos 33) /\ t_flag tv [[35; 97]] = true
  | Raise _ => False
  end.
Proof. exact stale_timestamp_resurrects. Qed.
Print Assumptions C15_stale_timestamp_refuted.

(* end to end on the session model: file with a channel value; reload in the running bot; reset; the general
   value changes; read; restart; read: the channel value follows the general one, its line is not saved *)
Theorem C15_reload_reset_history :
  tgenerations [ex_rd] []
    [[TSet 0 AG [50; 48]; TSet 0 (AC [35; 97]) [51; 51]];
     [TReload; TReset 0 (AC [35; 97]); TSet 0 AG [55]; TRead 0 (AC [35; 97])];
     [TRead 0 (AC [35; 97])]]
  = [Ok ([([118], [50; 48]); (join_names [[118]; [35; 97]], [51; 51])], []);
     Ok ([([118], [55])], [PI (Zpos 7)]);
     Ok ([([118], [55])], [PI (Zpos 7)])].
Proof. exact reload_reset_history. Qed.
Print Assumptions C15_reload_reset_history.

(* ---- world level (since the repair of C15.F29: the reset commands also drop the node's entry of
   registry._cache).  From any world: `config reset channel` of <var i>.#c [TReset], a flush [TSave],
   `config reload` [TReload: open_registry of the saved file, the cache is NOT cleared], then a read:
   the value is still unset, the read returns the node's current value and changes nothing.
   Hypotheses: the node list of the variable has no two entries with equivalent keys, the saved file is
   well formed, and no saved line bears the node's name (it is unset; the names of other nodes differ). *)
Theorem C15_reset_survives_reload :
  forall D w i c w1 w2 w3,
  (i < length D)%nat -> (i < length (w_vars w))%nat ->
  nodup_keys (tv_nodes (nth i (w_vars w) tv_dflt)) ->
  trun D w [TReset i (AC c)] = Ok (w1, []) ->
  trun D w1 [TSave] = Ok (w2, []) ->
  forallb line_ok (w_file w2) = true ->
  (forall kv, In kv (w_file w2) ->
     seq_eqb (lower (join_names (d_ns (nth i D dflt_decl) ++ [c]))) (lower (fst kv)) = false) ->
  trun D w2 [TReload] = Ok (w3, []) ->
  let d := nth i D dflt_decl in
  let tv := nth i (w_vars w3) tv_dflt in
  t_flag tv [c] = false /\
  (forall now, tread d (w_cache w3) (w_glm w3) now tv (AC c) = Ok (tv, t_val tv [c])) /\
  trun D w3 [TRead i (AC c)] =
    Ok (mktw (S (w_clk w3)) (w_glm w3) (w_cache w3) (w_file w3) (w_vars w3), [t_val tv [c]]).
Proof. exact reset_survives_reload. Qed.
Print Assumptions C15_reset_survives_reload.

(* the same for `config reset network` *)
Theorem C15_reset_survives_reload_net :
  forall D w i n w1 w2 w3,
  (i < length D)%nat -> (i < length (w_vars w))%nat ->
  nodup_keys (tv_nodes (nth i (w_vars w) tv_dflt)) ->
  trun D w [TReset i (AN n)] = Ok (w1, []) ->
  trun D w1 [TSave] = Ok (w2, []) ->
  forallb line_ok (w_file w2) = true ->
  (forall kv, In kv (w_file w2) ->
     seq_eqb (lower (join_names (d_ns (nth i D dflt_decl) ++ [n]))) (lower (fst kv)) = false) ->
  trun D w2 [TReload] = Ok (w3, []) ->
  let d := nth i D dflt_decl in
  let tv := nth i (w_vars w3) tv_dflt in
  t_flag tv [n] = false /\
  (forall now, tread d (w_cache w3) (w_glm w3) now tv (AN n) = Ok (tv, t_val tv [n])) /\
  trun D w3 [TRead i (AN n)] =
    Ok (mktw (S (w_clk w3)) (w_glm w3) (w_cache w3) (w_file w3) (w_vars w3), [t_val tv [n]]).
Proof. exact reset_survives_reload_net. Qed.
Print Assumptions C15_reset_survives_reload_net.

(* ---- NormalizedString: the NAME is part of the round trip.  serialize() wraps to
   wrap_width name = max(WRAP_COLS - (length name + WRAP_EXTRA), WRAP_MIN) columns (constants regenerated
   from the source); textwrap refuses a width <= 0 and registry.close() then leaves the line out
   (norm_file = the empty text).  Since the repair of C15.F31 (WRAP_MIN > 0) the line is written for every
   name, and the value-level round trip holds with no bound on the length of the name. *)
Theorem C15_wrap_width_positive : forall name, Nat.eqb (wrap_width name) 0 = false.
Proof. exact wrap_width_positive. Qed.
Print Assumptions C15_wrap_width_positive.

Theorem C15_normalized_roundtrip_any_name :
  forall name fresh v W ws,
  name_ok name = true -> vstr v = true -> normalize v = v ->
  words_ok W -> join [SP] W = string_str v -> chunking W ws ->
  norm_save_reload name (chunks_of ws) fresh = Ok v.
Proof. exact normalized_roundtrip_any_name. Qed.
Print Assumptions C15_normalized_roundtrip_any_name.

Theorem C15_normalized_roundtrip_any_name_empty :
  forall name fresh, name_ok name = true -> norm_save_reload name [] fresh = Ok [].
Proof. exact normalized_roundtrip_any_name_empty. Qed.
Print Assumptions C15_normalized_roundtrip_any_name_empty.

(* the expression without a minimum (the tree before the repair): from WRAP_COLS - WRAP_EXTRA = 74 characters on
   the width is 0; witness: a name of 74 characters, nothing is written, the reload gives the default *)
Theorem C15_wrap_without_minimum_refuted :
  name_ok long_name = true /\ length long_name = 74%nat /\ wrap_width_with 0 long_name = 0%nat /\
  norm_file_with 0 long_name [[119]] = [] /\
  norm_reload_with 0 long_name [[119]] [100] = Ok [100].
Proof. exact no_minimum_loses_value. Qed.
Print Assumptions C15_wrap_without_minimum_refuted.

Theorem C15_wrap_without_minimum_zero_iff :
  forall name, wrap_width_with 0 name = 0%nat <-> (WRAP_COLS - WRAP_EXTRA <= length name)%nat.
Proof. exact no_minimum_width_zero_iff. Qed.
Print Assumptions C15_wrap_without_minimum_zero_iff.

(* ---- the plugin API.  PluginMixin.setRegistryValue(v, network=n, channel=c) descends exactly:
   reg_write_addr n c names the node <var>.:n.#c (regop_top maps the API calls to tree operations; the
   read path registryValue resolves leniently: reg_read_addr).  After such a write, registryValue from
   ANOTHER network for the channel of the same name still returns what the settings in force said. *)
Theorem C15_api_write_then_read_other :
  forall (t : tree pv) (s : spec pv) (k : kind) (dflt : pv) (live : list str) x n y c n' (v : pv),
  Inv pv (k_reparse k dflt) t s -> safe pv (k_reparse k dflt) v ->
  net_key n' <> net_key (x :: n) ->
  let t1 := fst (step pv (k_reparse k dflt) (k_settext k) t (regop_top live (RWrite (x :: n) (y :: c) v))) in
  snd (step pv (k_reparse k dflt) (k_settext k) t1 (OGet (ANC (net_key n') (y :: c))))
  = Ok (resolve pv s (ANC (net_key n') (y :: c))).
Proof. exact api_write_then_read_other. Qed.
Print Assumptions C15_api_write_then_read_other.

(* in terms of the settings: a network+channel setting is seen only there; a network setting is not seen
   by the general value nor by other networks *)
Theorem C15_api_settings_local :
  forall (V : Type) (s : spec V) n c v,
  (forall n' c', (n', c') <> (n, c) -> resolve V (assign V (ANC n c) v s) (ANC n' c') = resolve V s (ANC n' c')) /\
  (forall c', resolve V (assign V (ANC n c) v s) (AC c') = resolve V s (AC c')) /\
  resolve V (assign V (ANC n c) v s) AG = resolve V s AG /\
  resolve V (assign V (ANC n c) v s) (ANC n c) = v /\
  resolve V (assign V (AN n) v s) AG = resolve V s AG /\
  (forall n', n' <> n -> resolve V (assign V (AN n) v s) (AN n') = resolve V s (AN n')).
Proof.
  intros V s n c v. repeat split.
  - intros n' c'. apply assign_nc_other_net.
  - apply assign_nc_self.
  - intros n'. apply assign_n_other_net.
Qed.
Print Assumptions C15_api_settings_local.

(* the lenient read resolver on the write path would leak: written for network a, seen from network b *)
Theorem C15_write_through_read_resolver_refuted :
  resolve nat (assign nat (AC [35; 97]) 7%nat (mkspec nat 1%nat [] [] [])) (ANC (net_key [98]) [35; 97]) = 7%nat /\
  resolve nat (mkspec nat 1%nat [] [] []) (ANC (net_key [98]) [35; 97]) = 1%nat /\
  resolve nat (assign nat (ANC (net_key [97]) [35; 97]) 7%nat (mkspec nat 1%nat [] [] [])) (ANC (net_key [98]) [35; 97]) = 1%nat.
Proof. exact write_through_read_resolver_leaks. Qed.
Print Assumptions C15_write_through_read_resolver_refuted.

(* ---- `config reset channel` on a network: <var>.:net.#chan inherits from its PARENT <var>.:net.  On any tree
   satisfying the invariant, with an explicit network value v: after the reset, getSpecific(net, chan) returns v
   (not the general value).  The parent each reset statement copies from is pinned in the source (t15). *)
Theorem C15_reset_netchan_shows_network_value :
  forall (V : Type) (reparse : V -> res V) (settext : V -> str -> res V) (t : tree V) (s : spec V) n c v,
  Inv V reparse t s -> lookup n (sn V s) = Some v ->
  let t1 := fst (step V reparse settext t (OReset (ANC n c))) in
  snd (step V reparse settext t1 (OGet (ANC n c))) = Ok v.
Proof. exact reset_netchan_shows_network_value. Qed.
Print Assumptions C15_reset_netchan_shows_network_value.

Theorem C15_general_is_not_the_parent :
  let s := mkspec nat 1%nat [] [([58; 110], 2%nat)] [(([58; 110], [35; 97]), 3%nat)] in
  resolve nat (forget nat (ANC [58; 110] [35; 97]) s) (ANC [58; 110] [35; 97]) = 2%nat /\ g nat s = 1%nat.
Proof. exact general_is_not_the_parent. Qed.
Print Assumptions C15_general_is_not_the_parent.

(* ---- since the repair of C15.F33 the regenerated table has no exception: a rejected set leaves the stored value
   untouched for EVERY registry value class defined anywhere in src/ and plugins/ *)
Theorem C15_reject_atomic_every_class :
  forall name, In name INVENTORY ->
  exists pset psetvalue, In (name, pset, psetvalue) ATOMIC_TABLE /\
  forall o,
    (snd (fst (exec pset o false)) = true -> fst (fst (exec pset o false)) = false) /\
    (snd (fst (exec psetvalue o false)) = true -> fst (fst (exec psetvalue o false)) = false).
Proof. exact reject_atomic_every_class. Qed.
Print Assumptions C15_reject_atomic_every_class.

(* the shape the Windows-only Boolean had before: store, then reject *)
Theorem C15_store_then_reject_old_shape_refuted :
  let old := SSeq (SSeq (STry SCheck (SSeq SCheck (SIf SSkip SError))) (SSeq SCheck SAssign)) (SSeq SCheck (SIf SError SSkip)) in
  atomic old = false /\ exists o, fst (exec old o false) = (true, true).
Proof. exact store_then_reject_old_shape. Qed.
Print Assumptions C15_store_then_reject_old_shape_refuted.

(* ---- user-specific values (repair of C15.F32): the scan of conf.registerUserValue finds the key of every user value
   of the variable ... *)
Theorem C15_user_scan_finds_own_keys :
  forall g id, vstr id = true -> is_userid id = true -> scan_key_user g (g ++ DOT :: escape id) = Ok [[id]].
Proof. exact scan_user_own. Qed.
Print Assumptions C15_user_scan_finds_own_keys.

(* ... and on the model a variable with two user values is saved, loaded without a read and saved again with the same
   lines (an instance; the general statement for channel/network values is C15_save_is_idempotent_across_restarts) *)
Theorem C15_user_values_survive_restart_partial :
  match load_user_var ex_ud (cache_of ex_ulines) with
  | Ok st => save_var ex_ud st = ex_ulines /\
             map (fun e => fst (snd e)) (vnodes st) = [PS [104; 105]; PS [DQ]] /\
             forallb (fun e => snd (snd e)) (vnodes st) = true
  | Raise _ => False
  end.
Proof. exact user_values_survive_restart_partial. Qed.
Print Assumptions C15_user_values_survive_restart_partial.

Theorem C15_user_values_dropped_without_scan_refuted :
  match load_var ex_ud (cache_of ex_ulines) with
  | Ok st => save_var ex_ud st = [(join_names [[117]; [103]], [100])]
  | Raise _ => False
  end.
Proof. exact user_values_dropped_without_scan. Qed.
Print Assumptions C15_user_values_dropped_without_scan_refuted.
