(* C15/Restart.v — a session that loads a file the bot saved and touches nothing saves the same
   file again, through the text of the file, for any number of restarts. *)
From Coq Require Import List NArith Bool.
Import ListNotations.
Require Import Base.Wire Base.PyStr C15.Model C15.Lemmas C15.File C15.FileMulti C15.Gen.

Definition decls_of (E : list entry) : list decl := map (fun e : entry => fst (fst e)) E.

Lemma generations_fixpoint E n :
  file_ok E -> forallb line_ok (file_of E) = true -> NoDup (map lkey (file_of E)) ->
  generations (decls_of E) (file_of E) (repeat [] n) = repeat (Ok (file_of E, [])) n.
Proof.
  intros Hok Hl Hnd. induction n as [|n IH]; [reflexivity|].
  cbn [repeat generations]. rewrite (open_file_text _ Hl). cbn [bind].
  rewrite (cache_of_nodup _ Hnd). unfold decls_of in *. rewrite (session_idempotent E Hok).
  cbn [fst]. rewrite IH. reflexivity.
Qed.

(* one restart, spelled out: what is saved loads to the same pairs, and these are the pairs saved before *)
Lemma restart_once E :
  file_ok E -> forallb line_ok (file_of E) = true -> NoDup (map lkey (file_of E)) ->
  exists saved, generations (decls_of E) (file_of E) [[]] = [Ok (saved, [])] /\
                open_registry (file_text saved) = open_registry (file_text (file_of E)) /\ saved = file_of E.
Proof.
  intros Hok Hl Hnd. exists (file_of E). split; [|split; reflexivity].
  exact (generations_fixpoint E 1 Hok Hl Hnd).
Qed.
