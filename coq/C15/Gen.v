(* C15/Gen.v — the registration functions against the file the bot wrote: loading the saved lines
   of a variable (base, channel, network and network+channel values) and saving again, untouched,
   writes the same lines; several variables; any number of generations. *)
From Coq Require Import List NArith ZArith Bool Lia ZifyBool Arith.
Import ListNotations.
Require Import Base.Wire Base.PyStr C15.Model C15.Lemmas C15.Names C15.Codec C15.Split C15.Final.
Open Scope N_scope.

(* the specific settings of one variable, in the order close() writes them (depth first) *)
Inductive item : Type :=
| IChan (c : str) (v : pv)                                   (* <var>.#chan *)
| INet (n : str) (nv : option pv) (chans : list (str * pv)). (* <var>.:net (set iff nv = Some) and its <var>.:net.#chan *)

Definition nm (d : decl) (p : path) : str := join_names (d_ns d ++ p).
Definition item_lines (d : decl) (it : item) : list (str * str) :=
  match it with
  | IChan c v => [(nm d [c], str_of (d_kind d) v)]
  | INet n nv chans =>
      (match nv with Some x => [(nm d [n], str_of (d_kind d) x)] | None => [] end)
      ++ map (fun cv => (nm d [n; fst cv], str_of (d_kind d) (snd cv))) chans
  end.
Definition var_lines (d : decl) (b : pv) (items : list item) : list (str * str) :=
  (gname_of d, str_of (d_kind d) b) :: flat_map (item_lines d) items.
Definition item_nodes (b : pv) (it : item) : list (path * (pv * bool)) :=
  match it with
  | IChan c v => [([c], (v, true))]
  | INet n nv chans =>
      ([n], match nv with Some x => (x, true) | None => (b, false) end)
      :: map (fun cv => ([n; fst cv], (snd cv, true))) chans
  end.
Definition var_state (b : pv) (items : list item) : vstate := mkvs b (flat_map (item_nodes b) items).

(* values that survive str()/set() whatever the current value is *)
Definition rt (d : decl) (v : pv) : Prop :=
  forall cur, k_settext (d_kind d) cur (str_of (d_kind d) v) = Ok v.

Lemma reparse_rt d dflt v : rt d v -> k_reparse (d_kind d) dflt v = Ok v.
Proof. intro H. exact (H dflt). Qed.

(* pairwise different paths (under the case-insensitive comparison of _children) *)
Fixpoint pdistinct (l : list path) : Prop :=
  match l with
  | [] => True
  | p :: l' => (forall q, In q l' -> path_eqb p q = false) /\ pdistinct l'
  end.

Definition netname (n : str) : Prop := nonempty n && startswith [COLON] n = true.
Definition chan_ok (d : decl) (cv : str * pv) : Prop :=
  vstr (fst cv) = true /\ is_channel (fst cv) = true /\ rt d (snd cv).
Definition item_ok (d : decl) (it : item) : Prop :=
  match it with
  | IChan c v => d_fl d <> FGlobal /\ chan_ok d (c, v)
  | INet n nv chans =>
      (d_fl d = FChannel \/ (d_fl d = FNetwork /\ chans = []))   (* a network variable has no network+channel values *)
      /\ vstr n = true /\ netname n
      /\ match nv with Some x => rt d x | None => True end
      /\ (nv <> None \/ chans <> [])                        (* neither a value nor a channel value: not a setting *)
      /\ Forall (chan_ok d) chans
  end.
Definition items_ok (d : decl) (b : pv) (items : list item) : Prop :=
  d_ns d <> [] /\ Forall (fun n => vstr n = true) (d_ns d) /\ rt d b
  /\ Forall (item_ok d) items
  /\ pdistinct (map fst (flat_map (item_nodes b) items)).

(* the flavour condition in the form "global: nothing specific; network: channel values and
   network values, no network+channel values" *)
Lemma items_ok_flavor d b items : items_ok d b items ->
  (d_fl d = FGlobal -> items = []) /\
  (d_fl d = FNetwork ->
   Forall (fun it => (exists c v, it = IChan c v) \/ (exists n nv, it = INet n nv [])) items).
Proof.
  intros (_ & _ & _ & H & _). split; intro E.
  - destruct items as [|it items]; [reflexivity|]. inversion H as [|? ? Hi _]. subst.
    destruct it; cbn [item_ok] in Hi; destruct Hi as [Hi _].
    + congruence.
    + destruct Hi as [Hi|[Hi _]]; congruence.
  - induction H as [|it items Hi _ IH]; constructor; [|exact IH].
    destruct it as [c v|n nv chans]; [left; exists c, v; reflexivity|].
    cbn [item_ok] in Hi. destruct Hi as [[Hi|[_ Hi]] _]; [congruence|].
    subst chans. right. exists n, nv. reflexivity.
Qed.

(* (F1) the scan of d ignores the lines of the other variables *)
Definition foreign (d : decl) (L : list (str * str)) : Prop :=
  forall k, In k (map fst L) -> scan_key (d_fl d) (gname_of d) k = Ok [].
(* (F2) lookups in the whole cache are unambiguous *)
Definition unambiguous (d : decl) (b : pv) (items : list item) (C : cache) : Prop :=
  (forall k x, In (k, x) (var_lines d b items) -> cache_get k C = Some x) /\
  (forall n chans, In (INet n None chans) items -> cache_get (nm d [n]) C = None).

(* ------------------------------------------------------------------ *)
(* lists, names *)
Lemma join_app sep (a b : list str) :
  a <> [] -> b <> [] -> join sep (a ++ b) = join sep a ++ sep ++ join sep b.
Proof.
  induction a as [|x a IH]; intros Ha Hb; [congruence|].
  destruct a as [|y a].
  - cbn [app]. destruct b as [|z b]; [congruence|]. reflexivity.
  - cbn [app]. change (join sep (x :: y :: a ++ b)) with (x ++ sep ++ join sep ((y :: a) ++ b)).
    rewrite IH by congruence.
    change (join sep (x :: y :: a)) with (x ++ sep ++ join sep (y :: a)).
    rewrite <- !app_assoc. reflexivity.
Qed.

Lemma join_names_app ns ps :
  ns <> [] -> ps <> [] -> join_names (ns ++ ps) = join_names ns ++ DOT :: join_names ps.
Proof.
  intros Hn Hp. unfold join_names. rewrite map_app, join_app.
  - reflexivity.
  - destruct ns; [congruence|cbn [map]; discriminate].
  - destruct ps; [congruence|cbn [map]; discriminate].
Qed.

Lemma nm_one d c : d_ns d <> [] -> nm d [c] = gname_of d ++ DOT :: escape c.
Proof. intro H. unfold nm, gname_of. rewrite join_names_app; [reflexivity|exact H|discriminate]. Qed.
Lemma nm_two d n c : d_ns d <> [] -> nm d [n; c] = gname_of d ++ DOT :: (escape n ++ DOT :: escape c).
Proof. intro H. unfold nm, gname_of. rewrite join_names_app; [reflexivity|exact H|discriminate]. Qed.

Lemma skipn_S_app {A} (g : list A) x r : skipn (S (length g)) (g ++ x :: r) = r.
Proof. induction g as [|a g IH]; [reflexivity|]. exact IH. Qed.

Lemma match_key_ext g r : match_key g (g ++ DOT :: r) = Some r.
Proof.
  unfold match_key. unfold lower. rewrite map_app, startswith_app. cbn [andb].
  assert (E : Nat.ltb (length g) (length (g ++ DOT :: r)) = true).
  { apply Nat.ltb_lt. rewrite app_length. cbn [length]. lia. }
  rewrite E, skipn_S_app. reflexivity.
Qed.

Lemma scan_base fl g : scan_key fl g g = Ok [].
Proof.
  destruct fl; [reflexivity| |]; unfold scan_key, match_key;
    rewrite Nat.ltb_irrefl, andb_false_r; reflexivity.
Qed.

Lemma split_one c : vstr c = true -> split (escape c) = Ok [c].
Proof.
  intro H. change (escape c) with (join_names [c]). apply name_roundtrip; [discriminate|].
  constructor; [exact H|constructor].
Qed.
Lemma split_two n c : vstr n = true -> vstr c = true -> split (escape n ++ DOT :: escape c) = Ok [n; c].
Proof.
  intros Hn Hc. change (escape n ++ DOT :: escape c) with (join_names [n; c]).
  apply name_roundtrip; [discriminate|]. constructor; [exact Hn|]. constructor; [exact Hc|constructor].
Qed.

Lemma colon_not_chantype : mem COLON gen.T15.CHANTYPES = false.
Proof. vm_compute. reflexivity. Qed.

Lemma netname_not_channel n : netname n -> is_channel n = false.
Proof.
  unfold netname. intro H. destruct n as [|c n]; [reflexivity|].
  cbn [nonempty startswith andb] in H. rewrite andb_true_r in H. apply N.eqb_eq in H. subst c.
  unfold is_channel. rewrite colon_not_chantype, andb_false_r. reflexivity.
Qed.

Lemma is_channel_nonempty c : is_channel c = true -> nonempty c = true.
Proof. destruct c; [discriminate|reflexivity]. Qed.

(* the keys of the variable's own lines *)
Lemma scan_chan fl g c :
  fl <> FGlobal -> vstr c = true -> is_channel c = true -> scan_key fl g (g ++ DOT :: escape c) = Ok [[c]].
Proof.
  intros Hf Hv Hc. destruct fl; [congruence| |]; unfold scan_key;
    rewrite match_key_ext, (split_one c Hv); cbn [bind].
  - rewrite (is_channel_nonempty c Hc), Hc, orb_true_r. reflexivity.
  - destruct (nonempty c && startswith [COLON] c); [reflexivity|]. rewrite Hc. reflexivity.
Qed.
(* the network value alone (the repaired defect: it used to instantiate nothing) *)
Lemma scan_net fl g n :
  fl <> FGlobal -> vstr n = true -> netname n -> scan_key fl g (g ++ DOT :: escape n) = Ok [[n]].
Proof.
  intros Hf Hv Hn. unfold netname in Hn. destruct fl; [congruence| |]; unfold scan_key;
    rewrite match_key_ext, (split_one n Hv); cbn [bind].
  - apply andb_true_iff in Hn. destruct Hn as [H1 H2]. rewrite H1, H2. reflexivity.
  - rewrite Hn. reflexivity.
Qed.
Lemma scan_netchan g n c :
  vstr n = true -> netname n -> vstr c = true -> is_channel c = true ->
  scan_key FChannel g (g ++ DOT :: (escape n ++ DOT :: escape c)) = Ok [[n]; [n; c]].
Proof.
  intros Hvn Hn Hvc Hc. unfold scan_key. rewrite match_key_ext, (split_two n c Hvn Hvc). cbn [bind].
  unfold netname in Hn. rewrite Hn, (is_channel_nonempty c Hc), Hc. reflexivity.
Qed.

(* ------------------------------------------------------------------ *)
(* paths and nodes *)
Lemma seq_eqb_sym a b : seq_eqb a b = seq_eqb b a.
Proof.
  destruct (seq_eqb b a) eqn:E.
  - apply seq_eqb_eq in E. subst. apply seq_eqb_refl.
  - apply seq_eqb_neq in E. apply seq_eqb_neq. congruence.
Qed.
Lemma path_eqb_sym a b : path_eqb a b = path_eqb b a.
Proof.
  revert b. induction a as [|x a IH]; intros [|y b]; try reflexivity.
  cbn [path_eqb]. rewrite IH, seq_eqb_sym. reflexivity.
Qed.
Lemma path_eqb_refl a : path_eqb a a = true.
Proof. induction a as [|x a IH]; [reflexivity|]. cbn [path_eqb]. rewrite seq_eqb_refl, IH. reflexivity. Qed.

Lemma node_get_none p l :
  (forall q, In q (map fst l) -> path_eqb p q = false) -> node_get p l = None.
Proof.
  induction l as [|[q x] l IH]; intro H; [reflexivity|]. cbn [node_get].
  rewrite (H q) by (left; reflexivity). apply IH. intros q' Hq. apply H. right. exact Hq.
Qed.
Lemma node_get_app p l1 l2 :
  node_get p (l1 ++ l2) = match node_get p l1 with Some x => Some x | None => node_get p l2 end.
Proof.
  induction l1 as [|[q x] l1 IH]; [reflexivity|]. cbn [app node_get].
  destruct (path_eqb p q); [reflexivity|exact IH].
Qed.

Lemma pdistinct_app l1 l2 :
  pdistinct (l1 ++ l2) ->
  pdistinct l1 /\ pdistinct l2 /\ (forall p q, In p l1 -> In q l2 -> path_eqb p q = false).
Proof.
  induction l1 as [|a l1 IH]; intro H.
  - split; [exact Logic.I|]. split; [exact H|]. intros p q [].
  - cbn [app pdistinct] in H. destruct H as [Ha H]. destruct (IH H) as (H1 & H2 & H3).
    split; [|split; [exact H2|]].
    + split; [|exact H1]. intros q Hq. apply Ha. apply in_or_app. left. exact Hq.
    + intros p q [Hp|Hp] Hq.
      * subst p. apply Ha. apply in_or_app. right. exact Hq.
      * apply H3; assumption.
Qed.
Lemma pdistinct_fresh P p R :
  pdistinct (P ++ p :: R) -> forall q, In q P -> path_eqb p q = false.
Proof.
  intros H q Hq. apply pdistinct_app in H. destruct H as (_ & _ & H).
  rewrite path_eqb_sym. apply H; [exact Hq|left; reflexivity].
Qed.
Lemma pdistinct_prefix l1 l2 : pdistinct (l1 ++ l2) -> pdistinct l1.
Proof. intro H. apply pdistinct_app in H. tauto. Qed.

(* ------------------------------------------------------------------ *)
(* the scan *)
Lemma scan_keys_app d C ks1 ks2 st :
  scan_keys d C (ks1 ++ ks2) st = (do st1 <- scan_keys d C ks1 st; scan_keys d C ks2 st1).
Proof.
  revert st. induction ks1 as [|k ks1 IH]; intro st; [reflexivity|]. cbn [app scan_keys].
  destruct (scan_key (d_fl d) (gname_of d) k) as [ps|e]; [|reflexivity]. cbn [bind].
  destruct (ensure_all d C st ps) as [st1|e]; [|reflexivity]. cbn [bind]. apply IH.
Qed.

Lemma scan_keys_foreign d C ks st :
  (forall k, In k ks -> scan_key (d_fl d) (gname_of d) k = Ok []) -> scan_keys d C ks st = Ok st.
Proof.
  induction ks as [|k ks IH]; intro H; [reflexivity|]. cbn [scan_keys].
  rewrite (H k) by (left; reflexivity). cbn [bind ensure_all]. apply IH.
  intros k' Hk. apply H. right. exact Hk.
Qed.

Section Var.
Variable d : decl.
Variable C : cache.
Variable b : pv.
Hypothesis Hns : d_ns d <> [].
Hypothesis Hnsv : Forall (fun n => vstr n = true) (d_ns d).
Hypothesis Hb : rt d b.

Lemma ensure_old pre p x : node_get p pre = Some x -> ensure d C (mkvs b pre) p = Ok (mkvs b pre).
Proof. intro H. unfold ensure. cbn [vnodes]. rewrite H. reflexivity. Qed.

Lemma ensure_set pre p pvl v :
  node_get p pre = None -> parent_val (mkvs b pre) p = pvl -> rt d pvl ->
  cache_get (nm d p) C = Some (str_of (d_kind d) v) -> rt d v ->
  ensure d C (mkvs b pre) p = Ok (mkvs b (pre ++ [(p, (v, true))])).
Proof.
  intros H1 H2 H3 H4 H5. unfold ensure. cbn [vnodes vbase]. rewrite H1, H2, (reparse_rt d _ _ H3).
  cbn [bind]. unfold nm in H4. rewrite H4, (H5 pvl). reflexivity.
Qed.
Lemma ensure_unset pre p pvl :
  node_get p pre = None -> parent_val (mkvs b pre) p = pvl -> rt d pvl ->
  cache_get (nm d p) C = None ->
  ensure d C (mkvs b pre) p = Ok (mkvs b (pre ++ [(p, (pvl, false))])).
Proof.
  intros H1 H2 H3 H4. unfold ensure. cbn [vnodes vbase]. rewrite H1, H2, (reparse_rt d _ _ H3).
  cbn [bind]. unfold nm in H4. rewrite H4. reflexivity.
Qed.

(* the network+channel keys of one network whose node exists *)
Lemma net_chans n : vstr n = true -> netname n ->
  forall chans, chans = [] \/ d_fl d = FChannel -> forall pre x0 fl,
  node_get [n] pre = Some (x0, fl) -> rt d x0 -> Forall (chan_ok d) chans ->
  (forall cv, In cv chans -> cache_get (nm d [n; fst cv]) C = Some (str_of (d_kind d) (snd cv))) ->
  pdistinct (map fst pre ++ map (fun cv : str * pv => [n; fst cv]) chans) ->
  scan_keys d C (map (fun cv : str * pv => nm d [n; fst cv]) chans) (mkvs b pre)
  = Ok (mkvs b (pre ++ map (fun cv : str * pv => ([n; fst cv], (snd cv, true))) chans)).
Proof.
  intros Hvn Hn. induction chans as [|[c v] chans IH]; intros Hflc pre x0 fl Hg Hx Hok Hlk Hpd.
  - cbn [map scan_keys]. rewrite app_nil_r. reflexivity.
  - destruct Hflc as [Hflc|Hfl]; [discriminate|]. inversion Hok as [|? ? Hcv Hok']. subst. destruct Hcv as (Hvc & Hc & Hv). cbn [fst snd] in Hvc, Hc, Hv.
    cbn [map scan_keys fst snd]. rewrite Hfl, (nm_two d n c Hns), (scan_netchan _ n c Hvn Hn Hvc Hc).
    cbn [bind ensure_all]. rewrite (ensure_old pre [n] _ Hg). cbn [bind].
    cbn [map] in Hpd. cbn [fst] in Hpd.
    rewrite (ensure_set pre [n; c] x0 v).
    + cbn [bind]. rewrite (IH (or_intror Hfl) _ x0 fl).
      * rewrite <- app_assoc. reflexivity.
      * rewrite node_get_app, Hg. reflexivity.
      * exact Hx.
      * exact Hok'.
      * intros cv Hin. apply Hlk. right. exact Hin.
      * rewrite map_app, <- app_assoc. exact Hpd.
    + apply node_get_none. exact (pdistinct_fresh _ _ _ Hpd).
    + cbn [parent_val vnodes vbase]. rewrite Hg. reflexivity.
    + exact Hx.
    + exact (Hlk (c, v) (or_introl eq_refl)).
    + exact Hv.
Qed.

(* the first network+channel key creates the network node; afterwards as above *)
Lemma net_first n chans pre nval :
  d_fl d = FChannel -> vstr n = true -> netname n -> chans <> [] -> Forall (chan_ok d) chans ->
  node_get [n] pre = None ->
  ensure d C (mkvs b pre) [n] = Ok (mkvs b (pre ++ [([n], nval)])) ->
  scan_keys d C (map (fun cv : str * pv => nm d [n; fst cv]) chans) (mkvs b pre)
  = scan_keys d C (map (fun cv : str * pv => nm d [n; fst cv]) chans) (mkvs b (pre ++ [([n], nval)])).
Proof.
  intros Hfl Hvn Hn Hne Hok Hg He. destruct chans as [|[c v] chans]; [congruence|].
  inversion Hok as [|? ? Hcv _]. subst. destruct Hcv as (Hvc & Hc & _). cbn [fst snd] in Hvc, Hc.
  cbn [map scan_keys fst]. rewrite Hfl, (nm_two d n c Hns), (scan_netchan _ n c Hvn Hn Hvc Hc).
  cbn [bind ensure_all]. rewrite He. cbn [bind].
  rewrite (ensure_old (pre ++ [([n], nval)]) [n] nval).
  - reflexivity.
  - rewrite node_get_app, Hg. cbn [node_get]. rewrite path_eqb_refl. reflexivity.
Qed.

Definition item_look (it : item) : Prop :=
  (forall k x, In (k, x) (item_lines d it) -> cache_get k C = Some x) /\
  match it with INet n None _ => cache_get (nm d [n]) C = None | _ => True end.

Lemma scan_items : forall items pre,
  Forall (item_ok d) items -> Forall item_look items ->
  pdistinct (map fst pre ++ map fst (flat_map (item_nodes b) items)) ->
  scan_keys d C (map fst (flat_map (item_lines d) items)) (mkvs b pre)
  = Ok (mkvs b (pre ++ flat_map (item_nodes b) items)).
Proof.
  induction items as [|it items IH]; intros pre Hok Hlk Hpd.
  - cbn [flat_map map scan_keys]. rewrite app_nil_r. reflexivity.
  - inversion Hok as [|? ? Hi Hok']. inversion Hlk as [|? ? Hl Hlk']. subst.
    cbn [flat_map]. rewrite map_app, scan_keys_app.
    cbn [flat_map] in Hpd. rewrite map_app, app_assoc in Hpd.
    assert (Hstep : scan_keys d C (map fst (item_lines d it)) (mkvs b pre)
                    = Ok (mkvs b (pre ++ item_nodes b it))).
    { apply pdistinct_prefix in Hpd. destruct it as [c v|n nv chans].
      - destruct Hi as (Hfl & Hvc & Hc & Hv). cbn [fst snd] in Hvc, Hc, Hv.
        destruct Hl as [Hl _]. cbn [item_lines map fst scan_keys item_nodes] in *.
        rewrite (nm_one d c Hns), (scan_chan _ _ c Hfl Hvc Hc). cbn [bind ensure_all].
        rewrite (ensure_set pre [c] b v).
        + reflexivity.
        + apply node_get_none. exact (pdistinct_fresh _ _ _ Hpd).
        + reflexivity.
        + exact Hb.
        + apply Hl. left. reflexivity.
        + exact Hv.
      - destruct Hi as (Hfl & Hvn & Hn & Hnv & Hdom & Hch). destruct Hl as [Hl Hl0].
        assert (Hfl0 : d_fl d <> FGlobal) by (destruct Hfl as [Hfl|[Hfl _]]; rewrite Hfl; discriminate).
        assert (Hflc : chans = [] \/ d_fl d = FChannel) by (destruct Hfl as [Hfl|[_ Hfl]]; [right|left]; exact Hfl).
        cbn [item_lines item_nodes] in *. rewrite map_app, map_map. cbn [fst].
        cbn [map fst] in Hpd. rewrite map_map in Hpd. cbn [fst] in Hpd.
        set (nval := match nv with Some x => (x, true) | None => (b, false) end) in *.
        assert (Hg : node_get [n] pre = None).
        { apply node_get_none. exact (pdistinct_fresh _ _ _ Hpd). }
        assert (He : ensure d C (mkvs b pre) [n] = Ok (mkvs b (pre ++ [([n], nval)]))).
        { subst nval. destruct nv as [x|].
          - apply (ensure_set pre [n] b x); [exact Hg|reflexivity|exact Hb| |exact Hnv].
            apply Hl. apply in_or_app. left. left. reflexivity.
          - apply (ensure_unset pre [n] b); [exact Hg|reflexivity|exact Hb|exact Hl0]. }
        (* a set network: its own key, first, creates the node; an unset one: its first channel key *)
        assert (E1 : scan_keys d C
                       (map fst match nv with
                                | Some x => [(nm d [n], str_of (d_kind d) x)]
                                | None => []
                                end ++ map (fun cv : str * pv => nm d [n; fst cv]) chans) (mkvs b pre)
                     = scan_keys d C (map (fun cv : str * pv => nm d [n; fst cv]) chans)
                         (mkvs b (pre ++ [([n], nval)]))).
        { destruct nv as [x|].
          - cbn [map fst app scan_keys]. rewrite (nm_one d n Hns), (scan_net _ _ n Hfl0 Hvn Hn).
            cbn [bind ensure_all]. rewrite He. reflexivity.
          - cbn [map app]. destruct Hdom as [Hdom|Hne]; [congruence|].
            destruct Hflc as [Hc|Hfc]; [congruence|].
            exact (net_first n chans pre nval Hfc Hvn Hn Hne Hch Hg He). }
        etransitivity; [exact E1|].
        rewrite (net_chans n Hvn Hn chans Hflc (pre ++ [([n], nval)]) (fst nval) (snd nval)).
        + rewrite <- app_assoc. reflexivity.
        + rewrite node_get_app, Hg. cbn [node_get]. rewrite path_eqb_refl. destruct nval; reflexivity.
        + subst nval. destruct nv; [exact Hnv|exact Hb].
        + exact Hch.
        + intros cv Hin. apply Hl. apply in_or_app. right.
          apply (in_map (fun cv : str * pv => (nm d [n; fst cv], str_of (d_kind d) (snd cv)))). exact Hin.
        + rewrite map_app, <- app_assoc. exact Hpd. }
    rewrite Hstep. cbn [bind]. rewrite (IH (pre ++ item_nodes b it) Hok' Hlk').
    + rewrite <- app_assoc. reflexivity.
    + rewrite map_app. exact Hpd.
Qed.
End Var.

(* ------------------------------------------------------------------ *)
(* close() on the loaded state writes the lines back *)
Lemma flat_map_flat_map {A B X} (f : B -> list X) (g : A -> list B) l :
  flat_map f (flat_map g l) = flat_map (fun x => flat_map f (g x)) l.
Proof. induction l as [|a l IH]; [reflexivity|]. cbn [flat_map]. rewrite flat_map_app, IH. reflexivity. Qed.

Lemma save_var_state d b items : save_var d (var_state b items) = var_lines d b items.
Proof.
  unfold save_var, var_state, var_lines. cbn [vbase vnodes]. f_equal.
  rewrite flat_map_flat_map. induction items as [|it items IH]; [reflexivity|].
  cbn [flat_map]. rewrite IH. f_equal. clear IH.
  destruct it as [c v|n nv chans].
  - reflexivity.
  - cbn [item_nodes item_lines flat_map]. f_equal.
    + destruct nv; reflexivity.
    + induction chans as [|[c v] chans IH]; [reflexivity|]. cbn [map flat_map fst snd app]. rewrite IH. reflexivity.
Qed.

(* ------------------------------------------------------------------ *)
Theorem load_save_var : forall d b items A B,
  items_ok d b items ->
  foreign d A -> foreign d B -> unambiguous d b items (A ++ var_lines d b items ++ B) ->
  load_var d (A ++ var_lines d b items ++ B) = Ok (var_state b items) /\
  save_var d (var_state b items) = var_lines d b items.
Proof.
  intros d b items A B (Hns & Hnsv & Hb & Hok & Hpd) HA HB [Hl Hn]. split; [|apply save_var_state].
  set (C := A ++ var_lines d b items ++ B) in *.
  unfold load_var. rewrite (Hl (gname_of d) (str_of (d_kind d) b)) by (left; reflexivity).
  rewrite (Hb (d_dflt d)). cbn [bind].
  replace (map fst C) with (map fst A ++ (gname_of d :: map fst (flat_map (item_lines d) items)) ++ map fst B)
    by (unfold C, var_lines; rewrite !map_app; reflexivity).
  rewrite scan_keys_app, (scan_keys_foreign d C _ _ HA). cbn [bind].
  cbn [app scan_keys]. rewrite scan_base. cbn [bind ensure_all].
  rewrite scan_keys_app, (scan_items d C b Hns Hb items []).
  - cbn [bind app]. rewrite (scan_keys_foreign d C _ _ HB). reflexivity.
  - exact Hok.
  - apply Forall_forall. intros it Hit. split.
    + intros k x Hin. apply Hl. right. apply in_flat_map. exists it. split; assumption.
    + destruct it as [|n [|] chans]; try exact Logic.I. exact (Hn n chans Hit).
  - exact Hpd.
Qed.

(* ------------------------------------------------------------------ *)
(* several variables *)
Definition entry : Type := decl * pv * list item.
Definition e_decl (e : entry) : decl := fst (fst e).
Definition block (e : entry) : list (str * str) := var_lines (fst (fst e)) (snd (fst e)) (snd e).
Definition file_of (E : list entry) : list (str * str) := flat_map block E.

(* for every position of the file: the variable's items are well formed, the scan of the variable
   ignores the blocks before and after it, and its lookups in the whole file are unambiguous *)
Definition file_ok (E : list entry) : Prop :=
  forall E1 e E2, E = E1 ++ e :: E2 ->
    items_ok (fst (fst e)) (snd (fst e)) (snd e)
    /\ foreign (fst (fst e)) (file_of E1) /\ foreign (fst (fst e)) (file_of E2)
    /\ unambiguous (fst (fst e)) (snd (fst e)) (snd e) (file_of E).

Lemma mapM_map_ok {X Y Z} (f : Y -> res Z) (g : X -> Y) (h : X -> Z) l :
  (forall x, In x l -> f (g x) = Ok (h x)) -> mapM f (map g l) = Ok (map h l).
Proof.
  induction l as [|x l IH]; intro H; [reflexivity|]. cbn [map mapM].
  rewrite (H x) by (left; reflexivity). cbn [bind]. rewrite IH; [reflexivity|].
  intros y Hy. apply H. right. exact Hy.
Qed.

Lemma file_ok_entry E e : file_ok E -> In e E ->
  load_var (e_decl e) (file_of E) = Ok (var_state (snd (fst e)) (snd e)).
Proof.
  intros H Hin. apply in_split in Hin. destruct Hin as (E1 & E2 & HE).
  destruct (H E1 e E2 HE) as (Hok & HA & HB & Hu).
  assert (HF : file_of E = file_of E1 ++ block e ++ file_of E2).
  { rewrite HE. unfold file_of. rewrite flat_map_app. reflexivity. }
  rewrite HF in *. unfold e_decl, block in *.
  exact (proj1 (load_save_var _ _ _ _ _ Hok HA HB Hu)).
Qed.

Lemma save_all_states E :
  save_all (map e_decl E) (map (fun e : entry => var_state (snd (fst e)) (snd e)) E) = file_of E.
Proof.
  unfold save_all, file_of. induction E as [|e E IH]; [reflexivity|].
  cbn [map combine flat_map fst snd]. rewrite IH. f_equal. apply save_var_state.
Qed.

Theorem session_idempotent : forall E, file_ok E ->
  session (map (fun e : entry => fst (fst e)) E) (file_of E) [] = Ok (file_of E, []).
Proof.
  intros E H. unfold session. change (fun e : entry => fst (fst e)) with e_decl.
  rewrite (mapM_map_ok (fun d => load_var d (file_of E)) e_decl (fun e : entry => var_state (snd (fst e)) (snd e))).
  - cbn [bind run_gops fst snd]. rewrite save_all_states. reflexivity.
  - intros e He. apply file_ok_entry; assumption.
Qed.

Theorem generations_idempotent : forall E n, file_ok E -> cache_of (file_of E) = file_of E ->
  Nat.iter n (fun lines => match session (map (fun e : entry => fst (fst e)) E) (cache_of lines) [] with
                           | Ok r => fst r | Raise _ => [] end) (file_of E) = file_of E.
Proof.
  intros E n H Hc. induction n as [|n IH]; [reflexivity|].
  cbn [Nat.iter nat_rect]. unfold Nat.iter in IH. rewrite IH, Hc, (session_idempotent E H). reflexivity.
Qed.

(* ------------------------------------------------------------------ *)
(* witnesses *)
Definition ex_d : decl := mkdecl [[118]; [82; 101]] FChannel KString (PS []).     (* v.Re *)
Definition ex_items : list item :=
  [IChan [35; 97] (PS [120]); INet [58; 110] None [([35; 98], PS [121])]].          (* #a = x;  :n.#b = y *)

Example ex_load :
  load_var ex_d (var_lines ex_d (PS [122]) ex_items) = Ok (var_state (PS [122]) ex_items).
Proof. vm_compute. reflexivity. Qed.
Example ex_save :
  save_var ex_d (var_state (PS [122]) ex_items) = var_lines ex_d (PS [122]) ex_items.
Proof. vm_compute. reflexivity. Qed.

(* a network value without channel values below it (it used to be dropped by load + save) *)
Definition ex_netonly : list item := [INet [58; 110] (Some (PS [120])) []].
Example ex_netonly_kept :
  load_var ex_d (var_lines ex_d (PS [122]) ex_netonly) = Ok (var_state (PS [122]) ex_netonly) /\
  save_var ex_d (var_state (PS [122]) ex_netonly) = var_lines ex_d (PS [122]) ex_netonly.
Proof. vm_compute. split; reflexivity. Qed.

(* ------------------------------------------------------------------ *)
(* where the hypotheses come from: keys pairwise different after lower() *)
Definition lkey (kv : str * str) : str := lower (fst kv).

Lemma cache_get_absent k c : ~ In (lower k) (map lkey c) -> cache_get k c = None.
Proof.
  induction c as [|[k' v'] c IH]; intro H; [reflexivity|]. cbn [cache_get].
  rewrite IH by (intro K; apply H; right; exact K).
  destruct (seq_eqb (lower k') (lower k)) eqn:E; [|reflexivity].
  apply seq_eqb_eq in E. exfalso. apply H. left. exact E.
Qed.

Lemma cache_get_nodup k x c : NoDup (map lkey c) -> In (k, x) c -> cache_get k c = Some x.
Proof.
  induction c as [|[k' v'] c IH]; intros Hnd Hin; [destruct Hin|].
  cbn [map] in Hnd. inversion Hnd as [|? ? Hni Hnd']. subst. cbn [cache_get]. destruct Hin as [E|Hin].
  - inversion E. subst k' v'. rewrite (cache_get_absent k c Hni), seq_eqb_refl. reflexivity.
  - rewrite (IH Hnd' Hin). reflexivity.
Qed.

Lemma unambiguous_nodup d b items A B :
  NoDup (map lkey (A ++ var_lines d b items ++ B)) ->
  (forall n chans, In (INet n None chans) items ->
     ~ In (lower (nm d [n])) (map lkey (A ++ var_lines d b items ++ B))) ->
  unambiguous d b items (A ++ var_lines d b items ++ B).
Proof.
  intros Hnd Hun. split.
  - intros k x Hin. apply cache_get_nodup; [exact Hnd|].
    apply in_or_app. right. apply in_or_app. left. exact Hin.
  - intros n chans Hin. apply cache_get_absent. exact (Hun n chans Hin).
Qed.

Lemma cache_put_fresh k v c : ~ In (lower k) (map lkey c) -> cache_put k v c = c ++ [(k, v)].
Proof.
  induction c as [|[k' v'] c IH]; intro H; [reflexivity|]. cbn [cache_put app].
  destruct (seq_eqb (lower k) (lower k')) eqn:E.
  - apply seq_eqb_eq in E. exfalso. apply H. left. symmetry. exact E.
  - rewrite IH; [reflexivity|]. intro K. apply H. right. exact K.
Qed.

Lemma cache_of_nodup l : NoDup (map lkey l) -> cache_of l = l.
Proof.
  unfold cache_of. change l with ([] ++ l) at 1 3. generalize (@nil (str * str)) as acc.
  induction l as [|[k v] l IH]; intros acc H.
  - cbn [fold_left]. rewrite app_nil_r. reflexivity.
  - cbn [fold_left fst snd]. rewrite map_app in H. cbn [map] in H.
    pose proof (NoDup_remove_2 _ _ _ H) as Hni.
    rewrite cache_put_fresh.
    + rewrite IH; [rewrite <- app_assoc; reflexivity|].
      rewrite <- app_assoc, map_app. exact H.
    + intro K. apply Hni. apply in_or_app. left. exact K.
Qed.

(* ------------------------------------------------------------------ *)
(* values of the domain *)
Lemma rt_string d v : d_kind d = KString -> vstr v = true -> rt d (PS v).
Proof.
  intros Hk Hv cur. rewrite Hk. unfold k_settext.
  apply (string_set_roundtrip evalrepr_v); [exact Hv|reflexivity].
Qed.
Lemma rt_boolean d x : d_kind d = KBoolean -> rt d (PB x).
Proof. intros Hk cur. rewrite Hk. unfold k_settext. apply bool_roundtrip. reflexivity. Qed.
Lemma rt_integer d lo z : d_kind d = KInteger lo -> int_accepts lo z = true -> rt d (PI z).
Proof. intros Hk Ha cur. rewrite Hk. unfold k_settext. apply int_roundtrip; [reflexivity|exact Ha]. Qed.

(* the hypotheses of the theorem hold for the witness (the statement is not vacuous) *)
Example ex_items_ok : items_ok ex_d (PS [122]) ex_items.
Proof.
  assert (R : forall v, vstr v = true -> rt ex_d (PS v)) by (intros v Hv; apply rt_string; [reflexivity|exact Hv]).
  unfold items_ok. split; [discriminate|]. split; [repeat constructor|]. split; [apply R; reflexivity|]. split.
  - unfold ex_items. constructor; [|constructor; [|constructor]].
    + split; [discriminate|]. split; [reflexivity|]. split; [vm_compute; reflexivity|]. apply R. reflexivity.
    + split; [left; reflexivity|]. split; [reflexivity|]. split; [vm_compute; reflexivity|]. split; [exact Logic.I|].
      split; [right; discriminate|]. constructor; [|constructor].
      split; [reflexivity|]. split; [vm_compute; reflexivity|]. apply R. reflexivity.
  - vm_compute. repeat split; intros q Hq; repeat (destruct Hq as [Hq|Hq]; [subst q; reflexivity|]); destruct Hq.
Qed.

Example ex_unambiguous :
  unambiguous ex_d (PS [122]) ex_items ([] ++ var_lines ex_d (PS [122]) ex_items ++ []).
Proof.
  split.
  - intros k x Hin. vm_compute in Hin.
    repeat (destruct Hin as [Hin|Hin]; [inversion Hin; subst k x; vm_compute; reflexivity|]). destruct Hin.
  - intros n chans Hin. unfold ex_items in Hin.
    destruct Hin as [Hin|[Hin|[]]]; [discriminate|]. inversion Hin. subst. vm_compute. reflexivity.
Qed.

Example ex_theorem :
  load_var ex_d ([] ++ var_lines ex_d (PS [122]) ex_items ++ []) = Ok (var_state (PS [122]) ex_items) /\
  save_var ex_d (var_state (PS [122]) ex_items) = var_lines ex_d (PS [122]) ex_items.
Proof.
  apply load_save_var; [exact ex_items_ok| | |exact ex_unambiguous]; intros k [].
Qed.

(* a file with one variable *)
Lemma file_ok_single d b items :
  items_ok d b items -> unambiguous d b items (file_of [(d, b, items)]) -> file_ok [(d, b, items)].
Proof.
  intros Hok Hu E1 e E2 HE. destruct E1 as [|x E1].
  - cbn [app] in HE. inversion HE. subst e E2. cbn [fst snd].
    split; [exact Hok|]. split; [intros k []|]. split; [intros k []|exact Hu].
  - cbn [app] in HE. inversion HE as [[Hx HE']]. exfalso. exact (app_cons_not_nil _ _ _ HE').
Qed.

Example ex_session :
  session [ex_d] (file_of [(ex_d, PS [122], ex_items)]) [] = Ok (file_of [(ex_d, PS [122], ex_items)], []).
Proof.
  apply (session_idempotent [(ex_d, PS [122], ex_items)]).
  apply file_ok_single; [exact ex_items_ok|exact ex_unambiguous].
Qed.

(* a network-flavoured variable: a channel value and a network value *)
Definition ex_dn : decl := mkdecl [[118]; [82; 101]] FNetwork KString (PS []).
Definition ex_nitems : list item := [IChan [35; 97] (PS [120]); INet [58; 110] (Some (PS [121])) []].

Example ex_nitems_ok : items_ok ex_dn (PS [122]) ex_nitems.
Proof.
  assert (R : forall v, vstr v = true -> rt ex_dn (PS v)) by (intros v Hv; apply rt_string; [reflexivity|exact Hv]).
  unfold items_ok. split; [discriminate|]. split; [repeat constructor|]. split; [apply R; reflexivity|]. split.
  - unfold ex_nitems. constructor; [|constructor; [|constructor]].
    + split; [discriminate|]. split; [reflexivity|]. split; [vm_compute; reflexivity|]. apply R. reflexivity.
    + split; [right; split; reflexivity|]. split; [reflexivity|]. split; [vm_compute; reflexivity|].
      split; [apply R; reflexivity|]. split; [left; discriminate|]. constructor.
  - vm_compute. repeat split; intros q Hq; repeat (destruct Hq as [Hq|Hq]; [subst q; reflexivity|]); destruct Hq.
Qed.

Example ex_n_unambiguous :
  unambiguous ex_dn (PS [122]) ex_nitems ([] ++ var_lines ex_dn (PS [122]) ex_nitems ++ []).
Proof.
  split.
  - intros k x Hin. vm_compute in Hin.
    repeat (destruct Hin as [Hin|Hin]; [inversion Hin; subst k x; vm_compute; reflexivity|]). destruct Hin.
  - intros n chans Hin. unfold ex_nitems in Hin. destruct Hin as [Hin|[Hin|[]]]; discriminate.
Qed.

Example ex_n_theorem :
  load_var ex_dn ([] ++ var_lines ex_dn (PS [122]) ex_nitems ++ []) = Ok (var_state (PS [122]) ex_nitems) /\
  save_var ex_dn (var_state (PS [122]) ex_nitems) = var_lines ex_dn (PS [122]) ex_nitems.
Proof.
  apply load_save_var; [exact ex_nitems_ok| | |exact ex_n_unambiguous]; intros k [].
Qed.
