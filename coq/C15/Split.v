(* C15/Split.v — the backslash-parity scan shared by the reader's key/value separator and by
   the name splitter; escaped names never contain an unescaped separator and end in the even
   state; split inverts join for every non-empty list of names. *)
From Coq Require Import List NArith ZArith Bool Lia ZifyBool Arith.
Import ListNotations.
Require Import Base.Wire Base.PyStr C15.Model C15.Names C15.Codec.
Open Scope N_scope.

(* an odd number of backslashes ends the scan of s started in state e (the reader's look-behind) *)
Fixpoint escpar (e : bool) (s : str) : bool :=
  match s with [] => e | c :: s' => escpar ((c =? BSL) && negb e) s' end.

(* ---- every joined name ends its scan in the even state *)
Lemma escpar_app e a b : escpar e (a ++ b) = escpar (escpar e a) b.
Proof. revert e. induction a as [|c a IH]; intro e; [reflexivity|]. cbn [app escpar]. apply IH. Qed.

Lemma escpar_nobsl s : forallb (fun y => negb (y =? BSL)) s = true -> escpar false s = false.
Proof.
  induction s as [|c s IH]; intro H; [reflexivity|]. cbn [forallb] in H. apply andb_true_iff in H as [Hc Hs].
  cbn [escpar]. destruct (c =? BSL); [discriminate|]. cbn [andb]. apply IH. exact Hs.
Qed.

Lemma replace_char_absent x img s : forallb (fun y => negb (y =? x)) s = true -> replace_char x img s = s.
Proof.
  induction s as [|c s IH]; intro H; [reflexivity|]. cbn [forallb] in H. apply andb_true_iff in H as [Hc Hs].
  cbn [replace_char]. destruct (c =? x); [discriminate|]. rewrite (IH Hs). reflexivity.
Qed.

Definition R (s : str) : str := replace_char DOT [BSL; DOT] (replace_char COLON [BSL; COLON] s).

Lemma R_app a b : R (a ++ b) = R a ++ R b.
Proof. unfold R. rewrite !replace_char_app. reflexivity. Qed.

Lemma hex_block k c l :
  escpar false (R (BSL :: l :: hexdigits k c)) = false \/ l = COLON \/ l = DOT \/ l = BSL.
Proof.
  destruct (l =? COLON) eqn:E1; [apply N.eqb_eq in E1; auto|].
  destruct (l =? DOT) eqn:E2; [apply N.eqb_eq in E2; auto|].
  destruct (l =? BSL) eqn:E3; [apply N.eqb_eq in E3; auto|]. left.
  assert (Hh : R (hexdigits k c) = hexdigits k c).
  { unfold R. rewrite (replace_char_absent COLON).
    - apply replace_char_absent. apply (forallb_impl hexrange); [|apply hexdigits_range].
      intros x Hx. unfold hexrange in Hx. unfold DOT. lia.
    - apply (forallb_impl hexrange); [|apply hexdigits_range].
      intros x Hx. unfold hexrange in Hx. unfold COLON. lia. }
  change (BSL :: l :: hexdigits k c) with ([BSL; l] ++ hexdigits k c). rewrite R_app, Hh.
  assert (Hb : R [BSL; l] = [BSL; l]).
  { unfold R. cbn [replace_char app]. replace (BSL =? COLON) with false by reflexivity.
    rewrite E1. cbn [app replace_char]. replace (BSL =? DOT) with false by reflexivity. rewrite E2. reflexivity. }
  rewrite Hb. cbn [app escpar]. rewrite N.eqb_refl. cbn [andb negb]. rewrite E3. cbn [andb].
  apply escpar_nobsl. apply (forallb_impl hexrange); [|apply hexdigits_range].
  intros x Hx. unfold hexrange in Hx. unfold BSL. lia.
Qed.

Lemma escpar_R_uesc_char c : escpar false (R (uesc_char c)) = false.
Proof.
  unfold uesc_char.
  destruct (c =? BSL) eqn:E0; [vm_compute; reflexivity|].
  destruct (c =? TAB); [vm_compute; reflexivity|].
  destruct (c =? LF); [vm_compute; reflexivity|].
  destruct (c =? CR); [vm_compute; reflexivity|].
  assert (Hx : forall k l, l <> COLON -> l <> DOT -> l <> BSL -> escpar false (R (BSL :: l :: hexdigits k c)) = false).
  { intros k l H1 H2 H3. destruct (hex_block k c l) as [H|[H|[H|H]]]; congruence. }
  destruct (c <? 32); [apply Hx; discriminate|].
  destruct (c <? 127) eqn:E5.
  - unfold R. cbn [replace_char app]. destruct (c =? COLON) eqn:E6.
    + cbn [app replace_char]. vm_compute. reflexivity.
    + cbn [app replace_char]. destruct (c =? DOT) eqn:E7.
      * vm_compute. reflexivity.
      * cbn [app escpar]. rewrite E0. reflexivity.
  - destruct (c <? 256); [apply Hx; discriminate|].
    destruct (c <? 65536); apply Hx; discriminate.
Qed.

Lemma escpar_escape n rest : escpar false (escape n ++ rest) = escpar false rest.
Proof.
  rewrite escpar_app. f_equal. unfold escape. fold (R (uesc n)).
  induction n as [|c n IH]; [reflexivity|].
  change (uesc (c :: n)) with (uesc_char c ++ uesc n). rewrite R_app, escpar_app, escpar_R_uesc_char. exact IH.
Qed.

Lemma join_names_escpar ns : escpar false (join_names ns) = false.
Proof.
  unfold join_names. induction ns as [|n ns IH]; [reflexivity|].
  destruct ns as [|m ns'].
  - cbn [map join]. rewrite <- (app_nil_r (escape n)). apply escpar_escape.
  - change (join [DOT] (map escape (n :: m :: ns'))) with (escape n ++ DOT :: join [DOT] (map escape (m :: ns'))).
    rewrite escpar_escape. cbn [escpar]. replace (DOT =? BSL) with false by reflexivity. exact IH.
Qed.


(* ---- no dot is met in the even state while scanning an escaped name *)
Fixpoint nodot (e : bool) (s : str) : bool :=
  match s with
  | [] => true
  | c :: s' => negb ((c =? DOT) && negb e) && nodot ((c =? BSL) && negb e) s'
  end.

Lemma nodot_app e a b : nodot e (a ++ b) = nodot e a && nodot (escpar e a) b.
Proof.
  revert e. induction a as [|c a IH]; intro e; [reflexivity|].
  cbn [app nodot escpar]. rewrite IH. rewrite andb_assoc. reflexivity.
Qed.

Lemma nodot_absent e s : forallb (fun y => negb (y =? DOT)) s = true -> nodot e s = true.
Proof.
  revert e. induction s as [|c s IH]; intros e H; [reflexivity|].
  cbn [forallb] in H. apply andb_true_iff in H as [Hc Hs]. cbn [nodot].
  destruct (c =? DOT); [discriminate|]. cbn [andb negb]. apply IH. exact Hs.
Qed.

Lemma hex_block_nodot k c l :
  l <> COLON -> l <> DOT -> l <> BSL -> nodot false (R (BSL :: l :: hexdigits k c)) = true.
Proof.
  intros H1 H2 H3. apply N.eqb_neq in H1, H2, H3.
  assert (Hh : R (hexdigits k c) = hexdigits k c).
  { unfold R. rewrite (replace_char_absent COLON).
    - apply replace_char_absent. apply (forallb_impl hexrange); [|apply hexdigits_range].
      intros x Hx. unfold hexrange in Hx. unfold DOT. lia.
    - apply (forallb_impl hexrange); [|apply hexdigits_range].
      intros x Hx. unfold hexrange in Hx. unfold COLON. lia. }
  change (BSL :: l :: hexdigits k c) with ([BSL; l] ++ hexdigits k c). rewrite R_app, Hh.
  assert (Hb : R [BSL; l] = [BSL; l]).
  { unfold R. cbn [replace_char app]. replace (BSL =? COLON) with false by reflexivity.
    rewrite H1. cbn [app replace_char]. replace (BSL =? DOT) with false by reflexivity. rewrite H2. reflexivity. }
  rewrite Hb. cbn [app nodot]. replace (BSL =? DOT) with false by reflexivity. rewrite N.eqb_refl. rewrite H2.
  cbn [andb negb]. apply nodot_absent. apply (forallb_impl hexrange); [|apply hexdigits_range].
  intros x Hx. unfold hexrange in Hx. unfold DOT. lia.
Qed.

Lemma nodot_R_uesc_char c : nodot false (R (uesc_char c)) = true.
Proof.
  unfold uesc_char.
  destruct (c =? BSL) eqn:E0; [vm_compute; reflexivity|].
  destruct (c =? TAB); [vm_compute; reflexivity|].
  destruct (c =? LF); [vm_compute; reflexivity|].
  destruct (c =? CR); [vm_compute; reflexivity|].
  destruct (c <? 32); [apply hex_block_nodot; discriminate|].
  destruct (c <? 127) eqn:E5.
  - unfold R. cbn [replace_char app]. destruct (c =? COLON) eqn:E6.
    + cbn [app replace_char]. vm_compute. reflexivity.
    + cbn [app replace_char]. destruct (c =? DOT) eqn:E7.
      * vm_compute. reflexivity.
      * cbn [app nodot]. rewrite E7. reflexivity.
  - destruct (c <? 256); [apply hex_block_nodot; discriminate|].
    destruct (c <? 65536); apply hex_block_nodot; discriminate.
Qed.

Lemma nodot_escape n : nodot false (escape n) = true.
Proof.
  unfold escape. fold (R (uesc n)). induction n as [|c n IH]; [reflexivity|].
  change (uesc (c :: n)) with (uesc_char c ++ uesc n).
  rewrite R_app, nodot_app, nodot_R_uesc_char, escpar_R_uesc_char. exact IH.
Qed.

Lemma escpar_escape0 n : escpar false (escape n) = false.
Proof. rewrite <- (app_nil_r (escape n)). apply escpar_escape. Qed.

Lemma split_dots_nonnil e s : split_dots e s <> [].
Proof.
  revert e. induction s as [|c s IH]; intro e; cbn [split_dots]; [discriminate|].
  destruct ((c =? DOT) && negb e); [discriminate|].
  destruct (split_dots ((c =? BSL) && negb e) s); discriminate.
Qed.

(* a block without unescaped dot is prepended to the first piece of what follows *)
Lemma split_dots_block e s rest :
  nodot e s = true ->
  split_dots e (s ++ rest) =
  match split_dots (escpar e s) rest with p :: ps => (s ++ p) :: ps | [] => [s] end.
Proof.
  revert e. induction s as [|c s IH]; intros e H.
  - cbn [app escpar]. destruct (split_dots e rest) eqn:E; [exfalso; exact (split_dots_nonnil _ _ E)|reflexivity].
  - cbn [nodot] in H. apply andb_true_iff in H as [Hc Hs].
    cbn [app split_dots escpar]. destruct ((c =? DOT) && negb e); [discriminate|].
    rewrite (IH _ Hs). destruct (split_dots (escpar ((c =? BSL) && negb e) s) rest); reflexivity.
Qed.

Lemma split_dots_join ns :
  ns <> [] -> split_dots false (join [DOT] (map escape ns)) = map escape ns.
Proof.
  induction ns as [|n ns IH]; intro Hne; [congruence|].
  destruct ns as [|m ns'].
  - cbn [map join]. rewrite <- (app_nil_r (escape n)) at 1.
    rewrite split_dots_block by apply nodot_escape. cbn [split_dots]. rewrite app_nil_r. reflexivity.
  - change (join [DOT] (map escape (n :: m :: ns'))) with (escape n ++ DOT :: join [DOT] (map escape (m :: ns'))).
    rewrite split_dots_block by apply nodot_escape. rewrite escpar_escape0.
    cbn [split_dots]. rewrite N.eqb_refl. cbn [andb negb]. rewrite app_nil_r.
    rewrite IH by discriminate. reflexivity.
Qed.

Section WithCodec.
Hypothesis codec : forall s, nvalid_str s = true -> udec (uesc s) = Ok s.

(* split inverts join: every non-empty list of names over valid code points *)
Lemma split_join : forall ns, ns <> [] -> Forall (fun n => nvalid_str n = true) ns ->
  split (join_names ns) = Ok ns.
Proof.
  intros ns Hne Hv. unfold split, join_names. rewrite (split_dots_join ns Hne).
  apply (mapM_unescape_escape codec). exact Hv.
Qed.
End WithCodec.

(* the witnesses of the repaired defect F26: a name ending with a backslash followed by another *)
Example split_join_backslash :
  split (join_names [[92]; [97]]) = Ok [[92]; [97]] /\
  split (join_names [[35; 99; 92]; [58; 110; 92]; [122]]) = Ok [[35; 99; 92]; [58; 110; 92]; [122]].
Proof. vm_compute. split; reflexivity. Qed.
