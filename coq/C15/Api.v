(* C15/Api.v — the plugin API: setRegistryValue writes exactly the node it names; the value is then
   seen at that (network, channel) and nowhere more general. *)
From Coq Require Import List NArith Bool.
Import ListNotations.
Require Import Base.Wire Base.PyStr C15.Model C15.Tree.

(* the write path names the node exactly *)
Lemma reg_write_exact n c x y : reg_write_addr (x :: n) (y :: c) = ANC (net_key (x :: n)) (y :: c).
Proof. reflexivity. Qed.
Lemma reg_write_net n x : reg_write_addr (x :: n) [] = AN (net_key (x :: n)).
Proof. reflexivity. Qed.
Lemma reg_write_chan c y : reg_write_addr [] (y :: c) = AC (y :: c).
Proof. reflexivity. Qed.

Section Spec.
Variable V : Type.

(* a network+channel setting is invisible from every other network, from the channel alone and from the general value *)
Lemma assign_nc_other_net (s : spec V) n c v n' c' :
  (n', c') <> (n, c) -> resolve V (assign V (ANC n c) v s) (ANC n' c') = resolve V s (ANC n' c').
Proof. intro H. unfold resolve, assign. cbn [snc sn sc g]. rewrite lookup2_update_other by exact H. reflexivity. Qed.
Lemma assign_nc_chan (s : spec V) n c v c' : resolve V (assign V (ANC n c) v s) (AC c') = resolve V s (AC c').
Proof. reflexivity. Qed.
Lemma assign_nc_general (s : spec V) n c v : resolve V (assign V (ANC n c) v s) AG = resolve V s AG.
Proof. reflexivity. Qed.
Lemma assign_nc_net (s : spec V) n c v n' : resolve V (assign V (ANC n c) v s) (AN n') = resolve V s (AN n').
Proof. reflexivity. Qed.
Lemma assign_nc_self (s : spec V) n c v : resolve V (assign V (ANC n c) v s) (ANC n c) = v.
Proof. unfold resolve, assign. cbn [snc]. rewrite lookup2_update_same. reflexivity. Qed.

(* a network setting is invisible from the general value, from the channels alone and from other networks *)
Lemma assign_n_general (s : spec V) n v : resolve V (assign V (AN n) v s) AG = resolve V s AG.
Proof. reflexivity. Qed.
Lemma assign_n_other_net (s : spec V) n v n' : n' <> n -> resolve V (assign V (AN n) v s) (AN n') = resolve V s (AN n').
Proof. intro H. unfold resolve, assign. cbn [sn g]. rewrite lookup_update_other by exact H. reflexivity. Qed.
Lemma assign_n_other_netchan (s : spec V) n v n' c : n' <> n ->
  resolve V (assign V (AN n) v s) (ANC n' c) = resolve V s (ANC n' c).
Proof. intro H. unfold resolve, assign. cbn [snc sn sc g]. rewrite lookup_update_other by exact H. reflexivity. Qed.
End Spec.

(* on the tree: setRegistryValue(v, network=n, channel=c), then registryValue from ANOTHER live network with a channel
   of the same name still returns what the settings in force said before *)

Theorem api_write_then_read_other :
  forall (t : tree pv) (s : spec pv) (k : kind) (dflt : pv) (live : list str) x n y c n' (v : pv),
  Inv pv (k_reparse k dflt) t s -> safe pv (k_reparse k dflt) v ->
  net_key n' <> net_key (x :: n) ->
  let t1 := fst (step pv (k_reparse k dflt) (k_settext k) t (regop_top live (RWrite (x :: n) (y :: c) v))) in
  snd (step pv (k_reparse k dflt) (k_settext k) t1 (OGet (ANC (net_key n') (y :: c))))
  = Ok (resolve pv s (ANC (net_key n') (y :: c))).
Proof.
  intros t s k dflt live x n y c n' v HI Hs Hn t1. subst t1.
  change (regop_top live (RWrite (x :: n) (y :: c) v)) with (@OSetValue pv (ANC (net_key (x :: n)) (y :: c)) v).
  pose proof (step_refines pv (k_reparse k dflt) (k_settext k) t s (OSetValue (ANC (net_key (x :: n)) (y :: c)) v) HI Hs) as H1.
  destruct (step pv (k_reparse k dflt) (k_settext k) t (OSetValue (ANC (net_key (x :: n)) (y :: c)) v)) as [t' r] eqn:E.
  destruct H1 as (HI' & _ & Hsv & _). specialize (Hsv _ _ eq_refl). subst r. cbn [fst].
  cbn [spec_step] in HI'.
  pose proof (step_refines pv (k_reparse k dflt) (k_settext k) t' _ (OGet (ANC (net_key n') (y :: c))) HI' Logic.I) as H2.
  destruct (step pv (k_reparse k dflt) (k_settext k) t' (OGet (ANC (net_key n') (y :: c)))) as [t'' r2].
  destruct H2 as (_ & Hg & _). cbn [snd]. rewrite (Hg _ eq_refl). f_equal.
  apply assign_nc_other_net. intro K. inversion K. congruence.
Qed.

(* what the lenient resolver does on the write path (the seeded change): the value lands on <var>.#chan and
   another network's #chan sees it *)
Example write_through_read_resolver_leaks :
  resolve nat (assign nat (AC [35; 97]) 7%nat (mkspec nat 1%nat [] [] [])) (ANC (net_key [98]) [35; 97]) = 7%nat /\
  resolve nat (mkspec nat 1%nat [] [] []) (ANC (net_key [98]) [35; 97]) = 1%nat /\
  resolve nat (assign nat (ANC (net_key [97]) [35; 97]) 7%nat (mkspec nat 1%nat [] [] [])) (ANC (net_key [98]) [35; 97]) = 1%nat.
Proof. vm_compute. repeat split. Qed.

(* read path: a network without a live Irc object and a non-channel are dropped *)
Example read_resolver_lenient :
  reg_read_addr [[97]] [99] [35; 97] = AC [35; 97] /\ reg_read_addr [[97]] [97] [120] = AN (net_key [97]) /\
  reg_write_addr [99] [35; 97] = ANC (net_key [99]) [35; 97].
Proof. vm_compute. repeat split. Qed.
