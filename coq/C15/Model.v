(* C15/Model.v — executable model of src/registry.py: name escaping
   (escape/unescape/split/join), the unicode_escape codec, Python repr /
   string-literal evaluation as used by String.set, the value classes
   (set / setValue / __str__ / serialize), the value lines written by close(),
   the reader open_registry(), and the three-level Value tree
   (_makeChild, _setValue(inherited), getSpecific, Config's reset commands).
   Mirrors the Python statement by statement, defects included.  No proofs.

   Conventions for results:  Raise InvalidRegistryValue = the class rejected the
   text;  Raise ValueError in the reader = InvalidRegistryFile;  Raise UnicodeError
   = codec error;  Raise OtherError = OUTSIDE THE MODELLED FRAGMENT (\N{...}
   escapes, several tokens after a string literal, non-ASCII digits): the
   harness does not compare those cases and no theorem speaks about them. *)
From Coq Require Import List NArith ZArith Bool.
From Coq Require Decimal DecimalZ.
Import ListNotations.
Require Import Base.Wire Base.PyStr.
Require gen.T15.
Open Scope N_scope.

Definition BSL : N := 92.  Definition DQ : N := 34.   Definition SQ : N := 39.
Definition LF : N := 10.   Definition CR : N := 13.   Definition TAB : N := 9.
Definition SP : N := 32.   Definition COLON : N := 58. Definition DOT : N := 46.
Definition HASH : N := 35. Definition COMMA : N := 44. Definition USCORE : N := 95.

(* ------------------------------------------------------------------ *)
(* hexadecimal *)
Definition hexchar (d : N) : N := if d <? 10 then 48 + d else 87 + d.
Fixpoint hexdigits (k : nat) (c : N) : str :=
  match k with O => [] | S k' => hexdigits k' (c / 16) ++ [hexchar (c mod 16)] end.
Definition hexval (c : N) : option N :=
  if (48 <=? c) && (c <=? 57) then Some (c - 48)
  else if (97 <=? c) && (c <=? 102) then Some (c - 87)
  else if (65 <=? c) && (c <=? 70) then Some (c - 55)
  else None.

Definition MAXCP : N := 1114112.
Definition is_surrogate (c : N) : bool := (55296 <=? c) && (c <=? 57343).

(* ------------------------------------------------------------------ *)
(* codecs.getencoder('unicode_escape') *)
Definition uesc_char (c : N) : str :=
  if c =? BSL then [BSL; BSL]
  else if c =? TAB then [BSL; 116]
  else if c =? LF then [BSL; 110]
  else if c =? CR then [BSL; 114]
  else if c <? 32 then BSL :: 120 :: hexdigits 2 c
  else if c <? 127 then [c]
  else if c <? 256 then BSL :: 120 :: hexdigits 2 c
  else if c <? 65536 then BSL :: 117 :: hexdigits 4 c
  else BSL :: 85 :: hexdigits 8 c.
Definition uesc (s : str) : str := flat_map uesc_char s.

(* str.encode('utf-8') (strict) *)
Definition utf8_char (c : N) : res bytes :=
  if c <? 128 then Ok [c]
  else if c <? 2048 then Ok [192 + c / 64; 128 + c mod 64]
  else if is_surrogate c then Raise UnicodeError
  else if c <? 65536 then Ok [224 + c / 4096; 128 + (c / 64) mod 64; 128 + c mod 64]
  else if c <? MAXCP then Ok [240 + c / 262144; 128 + (c / 4096) mod 64; 128 + (c / 64) mod 64; 128 + c mod 64]
  else Raise UnicodeError.
Fixpoint utf8 (s : str) : res bytes :=
  match s with
  | [] => Ok []
  | c :: s' => do a <- utf8_char c; do b <- utf8 s'; Ok (a ++ b)
  end.

(* The escape-sequence decoder shared by codecs unicode_escape (over bytes)
   and Python string literals (over code points): a state machine. *)
Inductive dstate : Type :=
| DN                       (* normal *)
| DE                       (* after a backslash *)
| DH (k : nat) (acc : N)   (* in \x \u \U: k+1 more hex digits needed *)
| DO (k : nat) (acc : N).  (* in an octal escape: up to k+1 more digits *)

Definition rcons (c : N) (r : res str) : res str :=
  match r with Ok l => Ok (c :: l) | Raise e => Raise e end.
Definition emit (c : N) (r : res str) : res str :=
  if c <? MAXCP then rcons c r else Raise UnicodeError.
Definition simple_esc (c : N) : option N :=
  if c =? BSL then Some BSL else if c =? SQ then Some SQ else if c =? DQ then Some DQ
  else if c =? 97 then Some 7 else if c =? 98 then Some 8 else if c =? 102 then Some 12
  else if c =? 110 then Some 10 else if c =? 114 then Some 13 else if c =? 116 then Some 9
  else if c =? 118 then Some 11 else None.
Definition is_oct (c : N) : bool := (48 <=? c) && (c <=? 55).

Fixpoint edec (st : dstate) (s : str) : res str :=
  match s with
  | [] =>
      match st with
      | DN => Ok []
      | DE => Raise UnicodeError            (* "\ at end of string" *)
      | DH _ _ => Raise UnicodeError        (* truncated \xXX escape *)
      | DO _ acc => Ok [acc]
      end
  | c :: s' =>
      match st with
      | DN => if c =? BSL then edec DE s' else rcons c (edec DN s')
      | DE =>
          if c =? LF then edec DN s'
          else match simple_esc c with
               | Some v => rcons v (edec DN s')
               | None =>
                   if is_oct c then edec (DO 1 (c - 48)) s'
                   else if c =? 120 then edec (DH 1 0) s'
                   else if c =? 117 then edec (DH 3 0) s'
                   else if c =? 85 then edec (DH 7 0) s'
                   else if c =? 78 then Raise OtherError       (* \N{...}: not modelled *)
                   else rcons BSL (rcons c (edec DN s'))       (* unknown escape kept *)
               end
      | DH k acc =>
          match hexval c with
          | None => Raise UnicodeError
          | Some v =>
              match k with
              | O => emit (acc * 16 + v) (edec DN s')
              | S k' => edec (DH k' (acc * 16 + v)) s'
              end
          end
      | DO k acc =>
          if is_oct c then
            match k with
            | O => rcons (acc * 8 + (c - 48)) (edec DN s')
            | S k' => edec (DO k' (acc * 8 + (c - 48))) s'
            end
          else rcons acc (if c =? BSL then edec DE s' else rcons c (edec DN s'))
      end
  end.

(* codecs.getdecoder('unicode_escape')(s)[0] for a str argument: the str is
   first encoded as UTF-8, the bytes are decoded (non-escaped bytes as Latin-1) *)
Definition udec (s : str) : res str := do b <- utf8 s; edec DN b.

(* ------------------------------------------------------------------ *)
(* names: escape / unescape / split / join *)
Fixpoint replace_char (c : N) (img : str) (s : str) : str :=   (* s.replace(c, img) *)
  match s with [] => [] | x :: s' => (if x =? c then img else [x]) ++ replace_char c img s' end.
(* s.replace('\\' + c, c): leftmost, non-overlapping *)
Fixpoint unreplace (c : N) (s : str) : str :=
  match s with
  | [] => []
  | x :: s' =>
      match s' with
      | y :: s'' => if (x =? BSL) && (y =? c) then c :: unreplace c s'' else x :: unreplace c s'
      | [] => [x]
      end
  end.
Definition escape (name : str) : str :=
  replace_char DOT [BSL; DOT] (replace_char COLON [BSL; COLON] (uesc name)).
Definition unescape (name : str) : res str :=
  udec (unreplace COLON (unreplace DOT name)).
(* _splitRe.split + re-attaching the captured backslashes: cut at every '.' preceded by an
   even number of backslashes.  [esc] = an odd number of backslashes immediately precedes *)
Fixpoint split_dots (esc : bool) (s : str) : list str :=
  match s with
  | [] => [[]]
  | c :: s' =>
      if (c =? DOT) && negb esc then [] :: split_dots false s'
      else match split_dots ((c =? BSL) && negb esc) s' with
           | p :: ps => (c :: p) :: ps
           | [] => [[c]]                      (* unreachable *)
           end
  end.
Fixpoint mapM {A B} (f : A -> res B) (l : list A) : res (list B) :=
  match l with [] => Ok [] | x :: l' => do y <- f x; do ys <- mapM f l'; Ok (y :: ys) end.
Definition split (name : str) : res (list str) := mapM unescape (split_dots false name).
Definition join_names (names : list str) : str := join [DOT] (map escape names).

(* ------------------------------------------------------------------ *)
(* whitespace, case *)
Definition isspace (c : N) : bool := mem c gen.T15.WHITESPACE.
Definition strip_ws (s : str) : str := strip gen.T15.WHITESPACE s.
Definition lstrip_ws (s : str) : str := lstrip gen.T15.WHITESPACE s.
Definition rstrip_ws (s : str) : str := rstrip gen.T15.WHITESPACE s.
Definition lower_char (c : N) : N := if (65 <=? c) && (c <=? 90) then c + 32 else c.
Definition lower (s : str) : str := map lower_char s.       (* ASCII only: modelled domain *)
Definition is_ascii (s : str) : bool := forallb (fun c => c <? 128) s.

(* s.split() *)
Fixpoint sw (s : str) : str * list str :=
  match s with
  | [] => ([], [])
  | c :: s' =>
      let '(t, ts) := sw s' in
      if isspace c then ([], match t with [] => ts | _ => t :: ts end) else (c :: t, ts)
  end.
Definition split_ws (s : str) : list str :=
  let '(t, ts) := sw s in match t with [] => ts | _ => t :: ts end.

(* re.split(r'\s*,\s*', s) *)
Fixpoint comma_fix (first : bool) (l : list str) : list str :=
  match l with
  | [] => []
  | [x] => [if first then x else lstrip_ws x]
  | x :: l' => rstrip_ws (if first then x else lstrip_ws x) :: comma_fix false l'
  end.
Definition split_comma (s : str) : list str := comma_fix true (split_char COMMA s).

(* ------------------------------------------------------------------ *)
(* repr(str) and the string-literal evaluator behind utils.safeEval *)
Definition in_ranges (c : N) (r : list (N * N)) : bool :=
  existsb (fun p => (fst p <=? c) && (c <=? snd p)) r.
Definition isprint_hi (c : N) : bool := in_ranges c gen.T15.PRINTABLE_RANGES.

Section Repr.
Variable isprint : N -> bool.       (* str.isprintable() above ASCII *)
Definition repr_quote (s : str) : N := if mem SQ s && negb (mem DQ s) then DQ else SQ.
Definition repr_char (q c : N) : str :=
  if (c =? q) || (c =? BSL) then [BSL; c]
  else if c =? TAB then [BSL; 116]
  else if c =? LF then [BSL; 110]
  else if c =? CR then [BSL; 114]
  else if (c <? 32) || (c =? 127) then BSL :: 120 :: hexdigits 2 c
  else if c <? 127 then [c]
  else if isprint c then [c]
  else if c <? 256 then BSL :: 120 :: hexdigits 2 c
  else if c <? 65536 then BSL :: 117 :: hexdigits 4 c
  else BSL :: 85 :: hexdigits 8 c.
Definition repr_with (s : str) : str :=
  let q := repr_quote s in q :: flat_map (repr_char q) s ++ [q].
End Repr.
Definition py_repr : str -> str := repr_with isprint_hi.

(* the tokenizer reads the source with \r\n and \r turned into \n *)
Fixpoint translate_nl (s : str) : str :=
  match s with
  | [] => []
  | c :: s' =>
      if c =? CR then LF :: (match s' with d :: s'' => if d =? LF then translate_nl s'' else translate_nl s' | [] => [] end)
      else c :: translate_nl s'
  end.

(* body of a '...' / "..." literal up to the closing quote; None = unterminated *)
Fixpoint lex_body (q : N) (s : str) : option (str * str) :=
  match s with
  | [] => None
  | c :: s' =>
      if c =? q then Some ([], s')
      else if c =? LF then None
      else if c =? BSL then
        match s' with
        | [] => None
        | d :: s'' => match lex_body q s'' with Some (b, r) => Some (c :: d :: b, r) | None => None end
        end
      else match lex_body q s' with Some (b, r) => Some (c :: b, r) | None => None end
  end.

(* utils.safeEval(t) for a t that starts with a quote, result required to be a str.
   Raise ValueError = safeEval raises (SyntaxError, null byte, unencodable);
   Raise OtherError = more source follows the first literal (concatenation, tuple,
   operators, triple quotes) or a \N escape: outside the model. *)
Definition py_eval (t0 : str) : res str :=
  if mem 0 t0 || existsb is_surrogate t0 || existsb (fun c => MAXCP <=? c) t0 then Raise ValueError
  else
    match translate_nl t0 with
    | [] => Raise ValueError
    | q :: rest =>
        match lex_body q rest with
        | None => Raise ValueError
        | Some (body, []) =>
            match edec DN body with
            | Ok v => Ok v
            | Raise OtherError => Raise OtherError
            | Raise _ => Raise ValueError
            end
        | Some (_, _ :: _) => Raise OtherError
        end
    end.

(* ------------------------------------------------------------------ *)
(* String: set / _needsQuoting / __str__ / serialize *)
Definition both_quoted (v : str) : bool :=
  match v with
  | [] => false
  | c :: _ => match last_char v with
              | Some d => (c =? d) && ((c =? SQ) || (c =? DQ))
              | None => false
              end
  end.
(* the value String.set hands to setValue *)
Definition string_parse (s : str) : res str :=
  let v := match s with [] => [DQ; DQ] | _ => if both_quoted s then s else py_repr s end in
  match py_eval v with
  | Ok x => Ok x
  | Raise OtherError => Raise OtherError
  | Raise _ => Raise InvalidRegistryValue
  end.
Definition needs_quoting (s : str) : bool :=
  if both_quoted s then true        (* set() would evaluate it as a quoted string *)
  else existsb (fun x => negb (mem x gen.T15.STRING_PRINTABLE)) s && negb (seq_eqb (strip_ws s) s).
Definition string_str (v : str) : str := if needs_quoting v then py_repr v else v.

(* ------------------------------------------------------------------ *)
(* integers: int(s) and repr(int) *)
Fixpoint uint_str (u : Decimal.uint) : str :=
  match u with
  | Decimal.Nil => []
  | Decimal.D0 u => 48 :: uint_str u | Decimal.D1 u => 49 :: uint_str u | Decimal.D2 u => 50 :: uint_str u
  | Decimal.D3 u => 51 :: uint_str u | Decimal.D4 u => 52 :: uint_str u | Decimal.D5 u => 53 :: uint_str u
  | Decimal.D6 u => 54 :: uint_str u | Decimal.D7 u => 55 :: uint_str u | Decimal.D8 u => 56 :: uint_str u
  | Decimal.D9 u => 57 :: uint_str u
  end.
Definition Z_str (z : Z) : str :=
  match Z.to_int z with Decimal.Pos u => uint_str u | Decimal.Neg u => 45 :: uint_str u end.
Definition digit (c : N) : option (Decimal.uint -> Decimal.uint) :=
  if c =? 48 then Some Decimal.D0 else if c =? 49 then Some Decimal.D1 else if c =? 50 then Some Decimal.D2
  else if c =? 51 then Some Decimal.D3 else if c =? 52 then Some Decimal.D4 else if c =? 53 then Some Decimal.D5
  else if c =? 54 then Some Decimal.D6 else if c =? 55 then Some Decimal.D7 else if c =? 56 then Some Decimal.D8
  else if c =? 57 then Some Decimal.D9 else None.
(* digits with single underscores between them *)
Fixpoint pdig (prev_digit : bool) (s : str) : option Decimal.uint :=
  match s with
  | [] => if prev_digit then Some Decimal.Nil else None
  | c :: s' =>
      if c =? USCORE then (if prev_digit then pdig false s' else None)
      else match digit c with
           | Some mk => match pdig true s' with Some u => Some (mk u) | None => None end
           | None => None
           end
  end.
Definition parse_int (s : str) : res Z :=
  let t := strip_ws s in
  if negb (is_ascii t) then Raise OtherError          (* Unicode decimal digits: not modelled *)
  else
    let '(neg, body) := match t with
                        | c :: t' => if c =? 45 then (true, t') else if c =? 43 then (false, t') else (false, t)
                        | [] => (false, t)
                        end in
    match pdig false body with
    | Some u => Ok (Z.of_int (if neg then Decimal.Neg u else Decimal.Pos u))
    | None => Raise ValueError
    end.

(* ------------------------------------------------------------------ *)
(* the value classes *)
Inductive pv : Type := PS (s : str) | PB (b : bool) | PI (z : Z) | PL (l : list str).

Inductive kind : Type :=
| KString                      (* String; subclasses whose setValue only validates *)
| KSurround                    (* StringSurroundedBySpaces *)
| KSpaceRight                  (* StringWithSpaceOnRight *)
| KOnlySome (valid : list str) (* OnlySomeStrings *)
| KRaw                         (* Value.set = setValue(s); __str__ = str(value): ValidQuotes *)
| KBoolean
| KInteger (lo : option Z)     (* Integer / NonNegativeInteger (0) / PositiveInteger (1) *)
| KSpaceList (isset : bool)    (* SpaceSeparatedListOf*; List = set when isset *)
| KCommaList (isset : bool).

Fixpoint nodup_str (l : list str) : list str :=
  match l with
  | [] => []
  | x :: l' => if existsb (seq_eqb x) l' then nodup_str l' else x :: nodup_str l'
  end.
Definition index_of (x : str) (l : list str) : option nat :=
  (fix go (l : list str) (i : nat) : option nat :=
     match l with [] => None | y :: l' => if seq_eqb x y then Some i else go l' (S i) end) l O.

(* [okv] is the verdict of the class-specific validator in setValue (ircutils.isNick,
   isChannel, ...) on the candidate value: an explicit input. *)
Definition irv {A} : res A := Raise InvalidRegistryValue.
Definition set_value (k : kind) (okv : bool) (v : pv) : res pv :=
  if negb okv then irv else
  match k, v with
  | KSurround, PS s =>
      let s1 := match s with [] => s | _ => if seq_eqb (lstrip_ws s) s then SP :: s else s end in
      let s2 := if seq_eqb (rstrip_ws s1) s1 then s1 ++ [SP] else s1 in
      Ok (PS s2)
  | KSpaceRight, PS s =>
      Ok (PS (match s with [] => s | _ => if seq_eqb (rstrip_ws s) s then s ++ [SP] else s end))
  | KOnlySome valid, PS s =>
      (* v = normalize(s); if s in validStrings: setValue(v) else error *)
      if existsb (seq_eqb s) valid then
        match index_of (lower s) (map lower valid) with
        | Some i => Ok (PS (nth i valid s))
        | None => Ok (PS s)
        end
      else irv
  | KInteger (Some lo), PI z => if (z <? lo)%Z then irv else Ok (PI z)
  | KSpaceList true, PL l => Ok (PL (nodup_str l))
  | KCommaList true, PL l => Ok (PL (nodup_str l))
  | _, _ => Ok v
  end.

(* X.set(s) on an instance whose current value is [cur]; [oks] = validator verdicts
   (one per list element for the list classes, then one for the whole value) *)
Definition hd_ok (oks : list bool) : bool := match oks with b :: _ => b | [] => true end.
Definition set_text (k : kind) (cur : pv) (oks : list bool) (s : str) : res pv :=
  match k with
  | KString | KSurround | KSpaceRight | KOnlySome _ =>
      do v <- string_parse s; set_value k (hd_ok oks) (PS v)
  | KRaw => set_value k (hd_ok oks) (PS s)
  | KBoolean =>
      let t := lower (strip_ws s) in
      if existsb (seq_eqb t) gen.T15.TRUE_WORDS then set_value k (hd_ok oks) (PB true)
      else if existsb (seq_eqb t) gen.T15.FALSE_WORDS then set_value k (hd_ok oks) (PB false)
      else if seq_eqb t [116; 111; 103; 103; 108; 101] then
        set_value k (hd_ok oks) (PB (match cur with PB b => negb b | PS [] | PL [] => true | PI z => Z.eqb z 0 | _ => false end))
      else irv
  | KInteger _ =>
      match parse_int s with
      | Ok z => set_value k (hd_ok oks) (PI z)
      | Raise OtherError => Raise OtherError
      | Raise _ => irv
      end
  | KSpaceList _ | KCommaList _ =>
      let toks := match k with KSpaceList _ => split_ws s | _ => split_comma s end in
      (* every element is built with self.Value(tok, ''): its setValue validates *)
      if forallb (fun b => b) (firstn (length toks) oks) then set_value k (hd_ok (skipn (length toks) oks)) (PL toks)
      else irv
  end.

Definition str_of (k : kind) (v : pv) : str :=
  match v with
  | PS s => match k with KRaw => s | _ => string_str s end
  | PB b => if b then [84; 114; 117; 101] else [70; 97; 108; 115; 101]
  | PI z => Z_str z
  | PL l => match l with
            | [] => [SP]
            | _ => match k with KCommaList _ => join [COMMA; SP] l | _ => join [SP] l end
            end
  end.
Definition serialize (k : kind) (v : pv) : str := uesc (str_of k v).

(* ------------------------------------------------------------------ *)
(* close(): the value line;  open_registry(): the reader *)
Definition value_line (name : str) (k : kind) (v : pv) : str :=
  name ++ [COLON; SP] ++ serialize k v ++ [LF].

Fixpoint count_trailing (c : N) (r : str) : nat :=    (* on the reversed line *)
  match r with x :: r' => if x =? c then S (count_trailing c r') else O | [] => O end.
(* (key, slashes, value) = re.split(<not after a backslash><pairs of backslashes, captured>': ', acc, 1),
   key + slashes: the separator is the first ': ' preceded by an even number of backslashes.
   [esc] = an odd number of backslashes immediately precedes the current position *)
Fixpoint split_kv (esc : bool) (s : str) : option (str * str) :=
  match s with
  | c :: s' =>
      match s' with
      | d :: s'' =>
          if (c =? COLON) && (d =? SP) && negb esc then Some ([], s'')
          else match split_kv ((c =? BSL) && negb esc) s' with Some (a, b) => Some (c :: a, b) | None => None end
      | [] => None
      end
  | [] => None
  end.
Definition crlf : list N := [CR; LF].
Definition parse_acc (acc : str) : res (str * str) :=
  match split_kv false acc with
  | None => Raise ValueError                       (* InvalidRegistryFile *)
  | Some (key, value) =>
      match udec (strip crlf value) with
      | Ok v => Ok (strip_ws key, v)
      | Raise OtherError => Raise OtherError
      | Raise _ => Raise ValueError                (* UnicodeDecodeError is a ValueError *)
      end
  end.
Fixpoint read_lines (acc : str) (lines : list str) : res (list (str * str)) :=
  match lines with
  | [] => Ok []                                    (* a pending continuation is dropped silently *)
  | l0 :: rest =>
      if startswith [HASH] l0 then read_lines acc rest
      else match strip_ws l0 with
           | [] => read_lines acc rest
           | _ =>
               let line := rstrip crlf l0 in
               if Nat.odd (count_trailing BSL (rev line)) then read_lines (acc ++ removelast line) rest
               else do kv <- parse_acc (acc ++ line); do kvs <- read_lines [] rest; Ok (kv :: kvs)
           end
  end.
(* the text as Python's universal-newline reader delivers it, cut at LF *)
Definition open_registry (text : str) : res (list (str * str)) :=
  read_lines [] (split_char LF (translate_nl text)).
(* _cache[name]: case-insensitive, the last assignment wins *)
Fixpoint cache_get (name : str) (kvs : list (str * str)) : option str :=
  match kvs with
  | [] => None
  | (k, v) :: kvs' =>
      match cache_get name kvs' with
      | Some v' => Some v'
      | None => if seq_eqb (lower k) (lower name) then Some v else None
      end
  end.

(* save one variable, load the file again, set a fresh instance from the cache *)
Definition reload (name : str) (k : kind) (fresh : pv) (oks : list bool) (v : pv) : res pv :=
  do kvs <- open_registry (value_line name k v);
  match cache_get name kvs with
  | None => Ok fresh                                (* nothing in the file: default stays *)
  | Some t => set_text k fresh oks t
  end.

(* ------------------------------------------------------------------ *)
(* the Value tree of a channel value (registerChannelValue): base, base.#chan,
   base.:net, base.:net.#chan.  Generic in the value type: [reparse v] is
   "fresh instance .set(str(v))" of _makeChild, [settext cur s] is .set(s). *)
Section Tree.
Variable V : Type.
Variable reparse : V -> res V.
Variable settext : V -> str -> res V.

Record leaf : Type := mkleaf { lv : V; lset : bool }.
Record netn : Type := mknet { nv : V; nset : bool; nch : list (str * leaf) }.
Record tree : Type := mktree { tv : V; tch : list (str * leaf); tnet : list (str * netn) }.

Definition prop_leaves (v : V) (l : list (str * leaf)) : list (str * leaf) :=
  map (fun kl => if lset (snd kl) then kl else (fst kl, mkleaf v false)) l.
(* netnode._setValue(v, inherited) *)
Definition net_setv (n : netn) (v : V) (inherited : bool) : netn :=
  mknet v (negb inherited) (prop_leaves v (nch n)).
(* base._setValue(v) *)
Definition base_setv (t : tree) (v : V) : tree :=
  mktree v (prop_leaves v (tch t))
         (map (fun kn => if nset (snd kn) then kn else (fst kn, net_setv (snd kn) v true)) (tnet t)).

(* base.get(chan) / base.get(':'+net) / netnode.get(chan): _makeChild when missing *)
Definition get_chan (t : tree) (c : str) : res (tree * leaf) :=
  match dict_get c (tch t) with
  | Some l => Ok (t, l)
  | None => do v <- reparse (tv t);
            let l := mkleaf v false in Ok (mktree (tv t) (tch t ++ [(c, l)]) (tnet t), l)
  end.
Definition get_net (t : tree) (n : str) : res (tree * netn) :=
  match dict_get n (tnet t) with
  | Some x => Ok (t, x)
  | None => do v <- reparse (tv t);
            let x := mknet v false [] in Ok (mktree (tv t) (tch t) (tnet t ++ [(n, x)]), x)
  end.
Definition net_get_chan (x : netn) (c : str) : res (netn * leaf) :=
  match dict_get c (nch x) with
  | Some l => Ok (x, l)
  | None => do v <- reparse (nv x);
            let l := mkleaf v false in Ok (mknet (nv x) (nset x) (nch x ++ [(c, l)]), l)
  end.
Definition put_net (t : tree) (n : str) (x : netn) : tree := mktree (tv t) (tch t) (dict_set n x (tnet t)).
Definition put_chan (t : tree) (c : str) (l : leaf) : tree := mktree (tv t) (dict_set c l (tch t)) (tnet t).
Definition net_put_chan (x : netn) (c : str) (l : leaf) : netn := mknet (nv x) (nset x) (dict_set c l (nch x)).

Inductive addr : Type := AG | AC (c : str) | AN (n : str) | ANC (n c : str).
Inductive top : Type :=
| OSet (a : addr) (s : str)        (* node.set(text), node reached with .get() *)
| OSetValue (a : addr) (v : V)     (* node.setValue(v) *)
| OReset (a : addr)                (* Config: reset channel [* | net] chan / reset network net *)
| OGet (a : addr).                 (* getSpecific(network, channel)() with valid names *)

(* state-then-raise: the tree after the operation, and the outcome *)
Definition fail {A} (t : tree) (e : exn) : tree * res A := (t, Raise e).

(* write [v] (already validated) at address a *)
Definition write (t : tree) (a : addr) (f : V -> res V) (inherited : bool) : tree * res V :=
  match a with
  | AG => match f (tv t) with Ok v => (base_setv t v, Ok v) | Raise e => fail t e end
  | AC c =>
      match get_chan t c with
      | Raise e => fail t e
      | Ok (t1, l) => match f (lv l) with
                      | Ok v => (put_chan t1 c (mkleaf v (negb inherited)), Ok v)
                      | Raise e => fail t1 e
                      end
      end
  | AN n =>
      match get_net t n with
      | Raise e => fail t e
      | Ok (t1, x) => match f (nv x) with
                      | Ok v => (put_net t1 n (net_setv x v inherited), Ok v)
                      | Raise e => fail t1 e
                      end
      end
  | ANC n c =>
      match get_net t n with
      | Raise e => fail t e
      | Ok (t1, x) =>
          match net_get_chan x c with
          | Raise e => fail t1 e
          | Ok (x1, l) =>
              let t2 := put_net t1 n x1 in
              match f (lv l) with
              | Ok v => (put_net t1 n (net_put_chan x1 c (mkleaf v (negb inherited))), Ok v)
              | Raise e => fail t2 e
              end
          end
      end
  end.

(* getSpecific(network, channel): the three-way rule *)
Definition get_specific (t : tree) (a : addr) : tree * res V :=
  match a with
  | AG => (t, Ok (tv t))
  | AC c => match get_chan t c with Ok (t1, l) => (t1, Ok (lv l)) | Raise e => fail t e end
  | AN n => match get_net t n with Ok (t1, x) => (t1, Ok (nv x)) | Raise e => fail t e end
  | ANC n c =>
      match get_net t n with
      | Raise e => fail t e
      | Ok (t1, x) =>
          match net_get_chan x c with
          | Raise e => fail t1 e
          | Ok (x1, l) =>
              let t2 := put_net t1 n x1 in
              match get_chan t2 c with
              | Raise e => fail t2 e
              | Ok (t3, cl) =>
                  if nset x1 || lset l then (t3, Ok (lv l)) else (t3, Ok (lv cl))
              end
          end
      end
  end.

Definition step (t : tree) (o : top) : tree * res V :=
  match o with
  | OSet a s => write t a (fun cur => settext cur s) false
  | OSetValue a v => write t a (fun _ => Ok v) false
  | OGet a => get_specific t a
  | OReset a =>
      match a with
      | AG => (t, Ok (tv t))
      | AC c => write t (AC c) (fun _ => Ok (tv t)) true
      | AN n => write t (AN n) (fun _ => Ok (tv t)) true
      | ANC n c =>
          (* changroup._setValue(netgroup.value, inherited=True); then reset group.#channel *)
          match get_net t n with
          | Raise e => fail t e
          | Ok (_, x) =>
              match write t (ANC n c) (fun _ => Ok (nv x)) true with
              | (t1, Ok _) => write t1 (AC c) (fun _ => Ok (tv t1)) true
              | r => r
              end
          end
      end
  end.

Fixpoint run_ops (t : tree) (ops : list top) : tree * list (res V) :=
  match ops with
  | [] => (t, [])
  | o :: ops' => let '(t1, r) := step t o in let '(t2, rs) := run_ops t1 ops' in (t2, r :: rs)
  end.
End Tree.


Arguments OSet {V} a s. Arguments OSetValue {V} a v. Arguments OReset {V} a. Arguments OGet {V} a.

(* instance: a value class with always-accepting validators *)
Definition k_reparse (k : kind) (dflt : pv) (v : pv) : res pv := set_text k dflt (repeat true 64) (str_of k v).
Definition k_settext (k : kind) (cur : pv) (s : str) : res pv := set_text k cur (repeat true 64) s.

(* ------------------------------------------------------------------ *)
(* wire *)
Definition vPV (v : pv) : value :=
  match v with
  | PS s => L [I 0%Z; vS s] | PB b => L [I 1%Z; vB b] | PI z => L [I 2%Z; I z] | PL l => L [I 3%Z; vLS l]
  end.
Definition gPV (v : value) : pv :=
  let p := nth_v 1 v in
  match gN (nth_v 0 v) with
  | 0 => PS (gS p) | 1 => PB (gB p) | 2 => PI (gZ p) | _ => PL (gLS p)
  end.
Definition gKind (v : value) : kind :=
  let p := nth_v 1 v in
  match gN (nth_v 0 v) with
  | 0 => KString | 1 => KSurround | 2 => KSpaceRight | 3 => KOnlySome (gLS p) | 4 => KRaw
  | 5 => KBoolean | 6 => KInteger (gO gZ p) | 7 => KSpaceList (gB p) | _ => KCommaList (gB p)
  end.
Definition gBools (v : value) : list bool := map gB (gL v).
Definition gAddr (v : value) : addr :=
  match gN (nth_v 0 v) with
  | 0 => AG | 1 => AC (gS (nth_v 1 v)) | 2 => AN (gS (nth_v 1 v)) | _ => ANC (gS (nth_v 1 v)) (gS (nth_v 2 v))
  end.
Definition gOp (v : value) : top pv :=
  let a := gAddr (nth_v 1 v) in
  match gN (nth_v 0 v) with
  | 0 => OSet a (gS (nth_v 2 v)) | 1 => OSetValue a (gPV (nth_v 2 v)) | 2 => OReset a | _ => OGet a
  end.
Definition vKV (kv : str * str) : value := L [vS (fst kv); vS (snd kv)].

(* ------------------------------------------------------------------ *)
(* the loader cache (_cache) and the registration functions of src/conf.py:
   registerGlobalValue / registerNetworkValue / registerChannelValue, Group.register -> setName,
   _makeChild, and close() = the value lines of the nodes getValues() lists (those with _wasSet).
   One variable = its base value and the specific nodes below it, keyed by their path
   ([chan], [:net], [:net; chan]); child keys are compared case-insensitively like _children.
   Not modelled: the second loop of Group.setName (a child named like the variable itself). *)
Inductive flavor : Type := FGlobal | FNetwork | FChannel.
Record decl : Type := mkdecl { d_ns : list str; d_fl : flavor; d_kind : kind; d_dflt : pv }.
Definition path := list str.
Record vstate : Type := mkvs { vbase : pv; vnodes : list (path * (pv * bool)) }.
Definition cache := list (str * str).

Fixpoint path_eqb (a b : path) : bool :=
  match a, b with
  | [], [] => true
  | x :: a', y :: b' => seq_eqb (lower x) (lower y) && path_eqb a' b'
  | _, _ => false
  end.
Fixpoint node_get (p : path) (l : list (path * (pv * bool))) : option (pv * bool) :=
  match l with
  | [] => None
  | (q, x) :: l' => if path_eqb p q then Some x else node_get p l'
  end.
Fixpoint node_put (p : path) (x : pv * bool) (l : list (path * (pv * bool))) : list (path * (pv * bool)) :=
  match l with
  | [] => [(p, x)]
  | (q, y) :: l' => if path_eqb p q then (q, x) :: l' else (q, y) :: node_put p x l'
  end.

(* _cache[key] = value: case-insensitive, keeps the position of the first spelling and the last spelling *)
Fixpoint cache_put (k v : str) (c : cache) : cache :=
  match c with
  | [] => [(k, v)]
  | (k', v') :: c' => if seq_eqb (lower k) (lower k') then (k, v) :: c' else (k', v') :: cache_put k v c'
  end.
Definition cache_of (kvs : list (str * str)) : cache :=
  fold_left (fun c kv => cache_put (fst kv) (snd kv) c) kvs [].

(* ircutils.isChannel(s) with the default chantypes / channellen (regenerated) *)
Definition is_channel (s : str) : bool :=
  match s with
  | [] => false
  | c :: _ =>
      negb (mem COMMA s) && negb (mem 7 s) && mem c gen.T15.CHANTYPES
      && (N.of_nat (length s) <=? gen.T15.CHANNELLEN) && Nat.eqb (length (split_ws s)) 1
  end.

(* name.lower().startswith(gname) and len(gname) < len(name);  name[len(gname)+1:]   (gname = g._name.lower()) *)
Definition match_key (gname key : str) : option str :=
  if startswith (lower gname) (lower key) && Nat.ltb (length gname) (length key)
  then Some (skipn (S (length gname)) key) else None.

(* the nodes the scan of one cache key instantiates, in order *)
Definition scan_key (fl : flavor) (gname key : str) : res (list path) :=
  match fl with
  | FGlobal => Ok []
  | _ =>
      match match_key gname key with
      | None => Ok []
      | Some rest =>
          do parts <- split rest;
          match fl, parts with
          | FChannel, [n; c] =>
              if nonempty n && startswith [COLON] n && nonempty c && is_channel c then Ok [[n]; [n; c]] else Ok []
          | FChannel, [c] =>
              if nonempty c && startswith [COLON] c then Ok [[c]]       (* the network value, without a channel *)
              else if is_channel c then Ok [[c]] else Ok []
          | FNetwork, [c] => if nonempty c && (startswith [COLON] c || is_channel c) then Ok [[c]] else Ok []
          | _, _ => Ok []
          end
      end
  end.

Definition gname_of (d : decl) : str := join_names (d_ns d).
Definition parent_val (st : vstate) (p : path) : pv :=
  match p with
  | [n; _] => match node_get [n] (vnodes st) with Some (v, _) => v | None => vbase st end
  | _ => vbase st
  end.
(* parent.get(child): existing node, or _makeChild (value from str(parent)) + register -> setName
   (the cache entry of the child's own name, if any, is set on it: _wasSet) *)
Definition ensure (d : decl) (C : cache) (st : vstate) (p : path) : res vstate :=
  match node_get p (vnodes st) with
  | Some _ => Ok st
  | None =>
      do v0 <- k_reparse (d_kind d) (d_dflt d) (parent_val st p);
      match cache_get (join_names (d_ns d ++ p)) C with
      | Some x => do v <- k_settext (d_kind d) v0 x; Ok (mkvs (vbase st) (vnodes st ++ [(p, (v, true))]))
      | None => Ok (mkvs (vbase st) (vnodes st ++ [(p, (v0, false))]))
      end
  end.
Fixpoint ensure_all (d : decl) (C : cache) (st : vstate) (ps : list path) : res vstate :=
  match ps with [] => Ok st | p :: ps' => do st1 <- ensure d C st p; ensure_all d C st1 ps' end.

(* register*Value(group, name, value) with the loaded cache C *)
Fixpoint scan_keys (d : decl) (C : cache) (keys : list str) (st : vstate) : res vstate :=
  match keys with
  | [] => Ok st
  | key :: keys' =>
      do ps <- scan_key (d_fl d) (gname_of d) key;
      do st1 <- ensure_all d C st ps;
      scan_keys d C keys' st1
  end.
Definition load_var (d : decl) (C : cache) : res vstate :=
  do b <- match cache_get (gname_of d) C with
          | Some x => k_settext (d_kind d) (d_dflt d) x
          | None => Ok (d_dflt d)
          end;
  scan_keys d C (map fst C) (mkvs b []).

(* node._setValue(v): unset nodes below follow *)
Definition set_node (st : vstate) (p : path) (v : pv) : vstate :=
  match p with
  | [] => mkvs v (map (fun e : path * (pv * bool) => if snd (snd e) then e
                                else match fst e with
                                     | [n; _] => match node_get [n] (vnodes st) with
                                                 | Some (_, true) => e        (* below a set network node *)
                                                 | _ => (fst e, (v, false))
                                                 end
                                     | _ => (fst e, (v, false))
                                     end) (vnodes st))
  | [n] => mkvs (vbase st)
             (map (fun e : path * (pv * bool) => match fst e with
                            | [n'; c] => if seq_eqb (lower n') (lower n) && negb (snd (snd e)) then (fst e, (v, false)) else e
                            | _ => e
                            end) (node_put p (v, true) (vnodes st)))
  | _ => mkvs (vbase st) (node_put p (v, true) (vnodes st))
  end.

Inductive gop : Type :=
| GSet (var : nat) (a : addr) (text : str)
| GRead (var : nat) (a : addr).

Definition addr_paths (a : addr) : list path :=   (* the .get() calls, in order *)
  match a with AG => [] | AC c => [[c]] | AN n => [[n]] | ANC n c => [[n]; [n; c]] end.
Definition node_val (st : vstate) (p : path) : pv :=
  match p with [] => vbase st | _ => match node_get p (vnodes st) with Some (v, _) => v | None => vbase st end end.
Definition node_flag (st : vstate) (p : path) : bool :=
  match node_get p (vnodes st) with Some (_, b) => b | None => false end.

(* getSpecific(network, channel)() *)
Definition read_var (d : decl) (C : cache) (st : vstate) (a : addr) : res (vstate * pv) :=
  match a with
  | AG => Ok (st, vbase st)
  | AC c => do st1 <- ensure d C st [c]; Ok (st1, node_val st1 [c])
  | AN n => do st1 <- ensure d C st [n]; Ok (st1, node_val st1 [n])
  | ANC n c =>
      do st1 <- ensure_all d C st [[n]; [n; c]; [c]];
      if node_flag st1 [n] || node_flag st1 [n; c] then Ok (st1, node_val st1 [n; c]) else Ok (st1, node_val st1 [c])
  end.
Definition write_var (d : decl) (C : cache) (st : vstate) (a : addr) (text : str) : res vstate :=
  do st1 <- ensure_all d C st (addr_paths a);
  let p := last (addr_paths a) [] in
  match k_settext (d_kind d) (node_val st1 p) text with
  | Ok v => Ok (set_node st1 p v)
  | Raise InvalidRegistryValue => Ok st1          (* rejected: the value stays (the nodes reached exist now) *)
  | Raise e => Raise e
  end.

(* close(): name: serialize for the base and every node that was set *)
Definition save_var (d : decl) (st : vstate) : list (str * str) :=
  (gname_of d, str_of (d_kind d) (vbase st))
  :: flat_map (fun e : path * (pv * bool) => if snd (snd e) then [(join_names (d_ns d ++ fst e), str_of (d_kind d) (fst (snd e)))] else [])
              (vnodes st).
Definition save_all (D : list decl) (sts : list vstate) : list (str * str) :=
  flat_map (fun ds : decl * vstate => save_var (fst ds) (snd ds)) (combine D sts).
Definition file_text (lines : list (str * str)) : str :=
  flat_map (fun l : str * str => fst l ++ [COLON; SP] ++ uesc (snd l) ++ [LF]) lines.

Fixpoint nth_upd {A} (n : nat) (f : A -> res A) (l : list A) : res (list A) :=
  match l, n with
  | [], _ => Ok []
  | x :: l', O => do y <- f x; Ok (y :: l')
  | x :: l', S n' => do r <- nth_upd n' f l'; Ok (x :: r)
  end.
Definition dflt_decl : decl := mkdecl [] FGlobal KString (PS []).
Fixpoint run_gops (D : list decl) (C : cache) (sts : list vstate) (ops : list gop) : res (list vstate * list pv) :=
  match ops with
  | [] => Ok (sts, [])
  | GSet i a x :: ops' =>
      do sts1 <- nth_upd i (fun st => write_var (nth i D dflt_decl) C st a x) sts;
      run_gops D C sts1 ops'
  | GRead i a :: ops' =>
      do r <- read_var (nth i D dflt_decl) C (nth i sts (mkvs (PS []) [])) a;
      do sts1 <- nth_upd i (fun _ => Ok (fst r)) sts;
      do rest <- run_gops D C sts1 ops';
      Ok (fst rest, snd r :: snd rest)
  end.

(* one session: load the cache, register every variable, run the operations, save *)
Definition session (D : list decl) (C : cache) (ops : list gop) : res (list (str * str) * list pv) :=
  do sts <- mapM (fun d => load_var d C) D;
  do r <- run_gops D C sts ops;
  Ok (save_all D (fst r), snd r).
(* generations: each one loads the file the previous one saved *)
Fixpoint generations (D : list decl) (lines : list (str * str)) (gens : list (list gop))
  : list (res (list (str * str) * list pv)) :=
  match gens with
  | [] => []
  | ops :: gens' =>
      match (do kvs <- open_registry (file_text lines); session D (cache_of kvs) ops) with
      | Ok r => Ok r :: generations D (fst r) gens'
      | Raise e => [Raise e]
      end
  end.

Definition gFlavor (v : value) : flavor := match gN v with 0 => FGlobal | 1 => FNetwork | _ => FChannel end.
Definition gDecl (v : value) : decl :=
  mkdecl (gLS (nth_v 0 v)) (gFlavor (nth_v 1 v)) (gKind (nth_v 2 v)) (gPV (nth_v 3 v)).
Definition gGop (v : value) : gop :=
  let i := N.to_nat (gN (nth_v 1 v)) in
  let a := gAddr (nth_v 2 v) in
  match gN (nth_v 0 v) with 0 => GSet i a (gS (nth_v 3 v)) | _ => GRead i a end.

(* ------------------------------------------------------------------ *)
(* timestamps and the lazy reload of Value.__call__: registry._lastModified (set by every
   open_registry) against the node's _lastModified (set by setName and by EVERY _setValue, inherited
   or not); `config reload` = open_registry WITHOUT clear (entries that left the file stay in _cache);
   `config reset channel/network` = node._setValue(parent.value, inherited=True) and, since the
   repair of C15.F29, registry._cache.pop(node._name, None).
   A second, richer session model; the one above is its no-reload/no-reset fragment.
   Time is a counter: every operation happens at a fresh instant. *)
Record tnode : Type := mktn { tn_v : pv; tn_set : bool; tn_lm : nat }.
Record tvar : Type := mktv { tv_v : pv; tv_lm : nat; tv_nodes : list (path * tnode) }.
Record tworld : Type := mktw { w_clk : nat; w_glm : nat; w_cache : cache; w_file : list (str * str); w_vars : list tvar }.

Fixpoint tn_get (p : path) (l : list (path * tnode)) : option tnode :=
  match l with [] => None | (q, x) :: l' => if path_eqb p q then Some x else tn_get p l' end.
Fixpoint tn_put (p : path) (x : tnode) (l : list (path * tnode)) : list (path * tnode) :=
  match l with
  | [] => [(p, x)]
  | (q, y) :: l' => if path_eqb p q then (q, x) :: l' else (q, y) :: tn_put p x l'
  end.
Definition t_val (tv : tvar) (p : path) : pv :=          (* node.value, the raw attribute *)
  match p with [] => tv_v tv | _ => match tn_get p (tv_nodes tv) with Some x => tn_v x | None => tv_v tv end end.
Definition t_lm (tv : tvar) (p : path) : nat :=
  match p with [] => tv_lm tv | _ => match tn_get p (tv_nodes tv) with Some x => tn_lm x | None => O end end.
Definition t_flag (tv : tvar) (p : path) : bool :=
  match tn_get p (tv_nodes tv) with Some x => tn_set x | None => false end.
Definition t_parent (p : path) : path := match p with [n; _] => [n] | _ => [] end.
Definition t_parent_val (tv : tvar) (p : path) : pv :=
  match p with
  | [n; _] => match tn_get [n] (tv_nodes tv) with Some x => tn_v x | None => tv_v tv end
  | _ => tv_v tv
  end.

(* parent.get(child) at instant [now] *)
Definition tensure (d : decl) (C : cache) (now : nat) (tv : tvar) (p : path) : res tvar :=
  match tn_get p (tv_nodes tv) with
  | Some _ => Ok tv
  | None =>
      do v0 <- k_reparse (d_kind d) (d_dflt d) (t_parent_val tv p);
      match cache_get (join_names (d_ns d ++ p)) C with
      | Some x => do v <- k_settext (d_kind d) v0 x;
                  Ok (mktv (tv_v tv) (tv_lm tv) (tv_nodes tv ++ [(p, mktn v true now)]))
      | None => Ok (mktv (tv_v tv) (tv_lm tv) (tv_nodes tv ++ [(p, mktn v0 false now)]))
      end
  end.
Fixpoint tensure_all (d : decl) (C : cache) (now : nat) (tv : tvar) (ps : list path) : res tvar :=
  match ps with [] => Ok tv | p :: ps' => do tv1 <- tensure d C now tv p; tensure_all d C now tv1 ps' end.

(* is node q an unset node that node p pushes its value to?  (_supplyDefault chain) *)
Definition follows (tv : tvar) (p q : path) : bool :=
  match p, q with
  | [], [_] => negb (t_flag tv q)
  | [], [n; _] => negb (t_flag tv q) && negb (t_flag tv [n]) && match tn_get [n] (tv_nodes tv) with Some _ => true | None => false end
  | [n], [n'; _] => seq_eqb (lower n) (lower n') && negb (t_flag tv q)
  | _, _ => false
  end.
(* node._setValue(v, inherited) at instant [now]: value, flag, timestamp; unset nodes below follow
   (their _setValue(v, inherited=True) refreshes their timestamp too) *)
Definition t_setvalue (tv : tvar) (p : path) (v : pv) (inherited : bool) (now : nat) : tvar :=
  let push := map (fun e : path * tnode => if follows tv p (fst e) then (fst e, mktn v false now) else e) in
  match p with
  | [] => mktv v now (push (tv_nodes tv))
  | _ => mktv (tv_v tv) (tv_lm tv) (push (tn_put p (mktn v (negb inherited) now) (tv_nodes tv)))
  end.

(* node(): the lazy reload of Value.__call__ *)
Definition tcall (d : decl) (C : cache) (glm now : nat) (tv : tvar) (p : path) : res (tvar * pv) :=
  if Nat.ltb (t_lm tv p) glm then
    match cache_get (join_names (d_ns d ++ p)) C with
    | Some x => do v <- k_settext (d_kind d) (t_val tv p) x; Ok (t_setvalue tv p v false now, v)
    | None => Ok (tv, t_val tv p)
    end
  else Ok (tv, t_val tv p).

(* getSpecific(network, channel)() *)
Definition tread (d : decl) (C : cache) (glm now : nat) (tv : tvar) (a : addr) : res (tvar * pv) :=
  match a with
  | AG => tcall d C glm now tv []
  | AC c => do tv1 <- tensure d C now tv [c]; tcall d C glm now tv1 [c]
  | AN n => do tv1 <- tensure d C now tv [n]; tcall d C glm now tv1 [n]
  | ANC n c =>
      do tv1 <- tensure_all d C now tv [[n]; [n; c]; [c]];
      if t_flag tv1 [n] || t_flag tv1 [n; c] then tcall d C glm now tv1 [n; c] else tcall d C glm now tv1 [c]
  end.
Definition twrite (d : decl) (C : cache) (now : nat) (tv : tvar) (a : addr) (text : str) : res tvar :=
  do tv1 <- tensure_all d C now tv (addr_paths a);
  let p := last (addr_paths a) [] in
  match k_settext (d_kind d) (t_val tv1 p) text with
  | Ok v => Ok (t_setvalue tv1 p v false now)
  | Raise InvalidRegistryValue => Ok tv1
  | Raise e => Raise e
  end.
(* plugins/Config: reset channel [net] chan / reset network net *)
Definition treset (d : decl) (C : cache) (now : nat) (tv : tvar) (a : addr) : res tvar :=
  match a with
  | AG => Ok tv
  | AC c => do tv1 <- tensure d C now tv [c]; Ok (t_setvalue tv1 [c] (tv_v tv1) true now)
  | AN n => do tv1 <- tensure d C now tv [n]; Ok (t_setvalue tv1 [n] (tv_v tv1) true now)
  | ANC n c =>
      do tv1 <- tensure_all d C now tv [[n]; [n; c]];
      let tv2 := t_setvalue tv1 [n; c] (t_val tv1 [n]) true now in
      do tv3 <- tensure d C now tv2 [c];
      Ok (t_setvalue tv3 [c] (tv_v tv3) true now)
  end.
(* close(): getValues() first lists the base and the nodes with _wasSet; then every one is serialized.
   Value.__str__ and SeparatedListOf.__str__ go through self() -- the lazy reload happens while saving;
   String.__str__ and ValidQuotes.__str__ read self.value *)
Definition str_calls (k : kind) : bool :=
  match k with KBoolean | KInteger _ | KSpaceList _ | KCommaList _ => true | _ => false end.
Fixpoint tsave_nodes (d : decl) (C : cache) (glm now : nat) (tv : tvar) (ps : list path)
  : res (tvar * list (str * str)) :=
  match ps with
  | [] => Ok (tv, [])
  | p :: ps' =>
      do r <- (if str_calls (d_kind d) then tcall d C glm now tv p else Ok (tv, t_val tv p));
      do rest <- tsave_nodes d C glm now (fst r) ps';
      Ok (fst rest, (join_names (d_ns d ++ p), str_of (d_kind d) (snd r)) :: snd rest)
  end.
Definition tsave_var (d : decl) (C : cache) (glm now : nat) (tv : tvar) : res (tvar * list (str * str)) :=
  tsave_nodes d C glm now tv
    ([] :: flat_map (fun e : path * tnode => if tn_set (snd e) then [fst e] else []) (tv_nodes tv)).
Fixpoint tsave_all (D : list decl) (C : cache) (glm now : nat) (vs : list tvar) : res (list tvar * list (str * str)) :=
  match D, vs with
  | d :: D', tv :: vs' =>
      do r <- tsave_var d C glm now tv;
      do rest <- tsave_all D' C glm now vs';
      Ok (fst r :: fst rest, snd r ++ snd rest)
  | _, _ => Ok (vs, [])
  end.

Inductive top2 : Type :=
| TSet (var : nat) (a : addr) (text : str)
| TRead (var : nat) (a : addr)
| TReset (var : nat) (a : addr)
| TSave
| TReload
| TForget (var : nat) (a : addr)     (* registry._cache.pop(node._name, None) alone (part of TReset since the repair of C15.F29) *)
| TInherit (var : nat) (a : addr).   (* the registry API: node._setValue(parent.value, inherited=True), nothing else *)

Definition cache_del (k : str) (c : cache) : cache :=
  filter (fun kv : str * str => negb (seq_eqb (lower k) (lower (fst kv)))) c.
(* the cache entries the reset commands drop: the node's own name (and <var>.#chan for reset channel net chan) *)
Definition reset_names (d : decl) (a : addr) : list str :=
  match a with
  | AG => []
  | AC c => [join_names (d_ns d ++ [c])]
  | AN n => [join_names (d_ns d ++ [n])]
  | ANC n c => [join_names (d_ns d ++ [n; c]); join_names (d_ns d ++ [c])]
  end.
Definition reset_forget (d : decl) (a : addr) (c : cache) : cache :=
  fold_left (fun acc k => cache_del k acc) (reset_names d a) c.
Definition tv_dflt : tvar := mktv (PS []) O [].
Fixpoint trun (D : list decl) (w : tworld) (ops : list top2) : res (tworld * list pv) :=
  match ops with
  | [] => Ok (w, [])
  | o :: ops' =>
      let now := S (w_clk w) in
      do wr <- match o with
               | TSet i a x =>
                   do vs <- nth_upd i (fun tv => twrite (nth i D dflt_decl) (w_cache w) now tv a x) (w_vars w);
                   Ok (mktw now (w_glm w) (w_cache w) (w_file w) vs, [])
               | TRead i a =>
                   do r <- tread (nth i D dflt_decl) (w_cache w) (w_glm w) now (nth i (w_vars w) tv_dflt) a;
                   do vs <- nth_upd i (fun _ => Ok (fst r)) (w_vars w);
                   Ok (mktw now (w_glm w) (w_cache w) (w_file w) vs, [snd r])
               | TReset i a =>
                   (* changroup._setValue(parent.value, inherited=True); registry._cache.pop(changroup._name, None) *)
                   do vs <- nth_upd i (fun tv => treset (nth i D dflt_decl) (w_cache w) now tv a) (w_vars w);
                   Ok (mktw now (w_glm w) (reset_forget (nth i D dflt_decl) a (w_cache w)) (w_file w) vs, [])
               | TSave =>
                   do r <- tsave_all D (w_cache w) (w_glm w) now (w_vars w);
                   Ok (mktw now (w_glm w) (w_cache w) (snd r) (fst r), [])
               | TInherit i a =>
                   do vs <- nth_upd i (fun tv => treset (nth i D dflt_decl) (w_cache w) now tv a) (w_vars w);
                   Ok (mktw now (w_glm w) (w_cache w) (w_file w) vs, [])
               | TForget i a =>
                   Ok (mktw now (w_glm w)
                            (cache_del (join_names (d_ns (nth i D dflt_decl) ++ last (addr_paths a) [])) (w_cache w))
                            (w_file w) (w_vars w), [])
               | TReload =>
                   do kvs <- open_registry (file_text (w_file w));
                   Ok (mktw now now (fold_left (fun c kv => cache_put (fst kv) (snd kv) c) kvs (w_cache w))
                            (w_file w) (w_vars w), [])
               end;
      do rest <- trun D (fst wr) ops';
      Ok (fst rest, snd wr ++ snd rest)
  end.
Definition tvar_of (now : nat) (st : vstate) : tvar :=
  mktv (vbase st) now (map (fun e : path * (pv * bool) => (fst e, mktn (fst (snd e)) (snd (snd e)) now)) (vnodes st)).
(* one process: load the file (instant 1), register every variable (instant 2), run, save at the end *)
Definition tsession (D : list decl) (file : list (str * str)) (ops : list top2) : res (list (str * str) * list pv) :=
  do kvs <- open_registry (file_text file);
  let C := cache_of kvs in
  do sts <- mapM (fun d => load_var d C) D;
  do r <- trun D (mktw 2 1 C file (map (tvar_of 2) sts)) (ops ++ [TSave]);
  Ok (w_file (fst r), snd r).
Fixpoint tgenerations (D : list decl) (file : list (str * str)) (gens : list (list top2))
  : list (res (list (str * str) * list pv)) :=
  match gens with
  | [] => []
  | ops :: gens' =>
      match tsession D file ops with
      | Ok r => Ok r :: tgenerations D (fst r) gens'
      | Raise e => [Raise e]
      end
  end.
Definition gTop2 (v : value) : top2 :=
  let i := N.to_nat (gN (nth_v 1 v)) in
  let a := gAddr (nth_v 2 v) in
  match gN (nth_v 0 v) with
  | 0 => TSet i a (gS (nth_v 3 v)) | 1 => TRead i a | 2 => TReset i a | 3 => TSave | 4 => TReload | 5 => TForget i a | _ => TInherit i a
  end.

(* ------------------------------------------------------------------ *)
(* NormalizedString: normalize, set, and the wrapped value lines of serialize().
   textwrap.wrap is NOT modelled: its result (the list of chunks) is an explicit input. *)
Definition is_nsep (c : N) : bool := (c =? SP) || (c =? TAB) || (c =? LF) || (c =? CR).
Fixpoint swc (s : str) : str * list str :=
  match s with
  | [] => ([], [])
  | c :: s' =>
      let '(t, ts) := swc s' in
      if is_nsep c then ([], match t with [] => ts | _ => t :: ts end) else (c :: t, ts)
  end.
Definition split_nsep (s : str) : list str :=
  let '(t, ts) := swc s in match t with [] => ts | _ => t :: ts end.
(* utils.str.normalizeWhitespace(s.strip()) *)
Definition normalize (s : str) : str := join [SP] (split_nsep (strip_ws s)).
(* NormalizedString.set(s): String.set(normalize(s)), whose setValue normalizes again *)
Definition norm_set (s : str) : res str :=
  do v <- string_parse (normalize s); Ok (normalize v).

(* the physical lines of `name: serialize()`: chunks = textwrap.wrap(String.serialize(), 76 - prefixLen) *)
Definition indent_of (name : str) : str := repeat SP (length name + 2).
Fixpoint cont_lines (ind : str) (cs : list str) : list str :=   (* lines after the first *)
  match cs with
  | [] => []
  | [c] => [ind ++ c]
  | c :: cs' => (ind ++ c ++ [BSL]) :: cont_lines ind cs'
  end.
Definition wrapped_lines (name : str) (chunks : list str) : list str :=
  match chunks with
  | [] => [name ++ [COLON; SP]]
  | [c] => [name ++ [COLON; SP] ++ c]
  | c :: cs => (name ++ [COLON; SP] ++ c ++ [BSL]) :: cont_lines (indent_of name) cs
  end.
Definition wrapped_text (name : str) (chunks : list str) : str :=
  flat_map (fun l : str => l ++ [LF]) (wrapped_lines name chunks).
(* what the reader is expected to reassemble: the chunks glued with the indentation in between *)
Fixpoint glue (ind : str) (cs : list str) : str :=
  match cs with [] => [] | [c] => c | c :: cs' => c ++ ind ++ glue ind cs' end.
Definition norm_reload (name : str) (chunks : list str) (fresh : str) : res str :=
  do kvs <- open_registry (wrapped_text name chunks);
  match cache_get name kvs with
  | None => Ok fresh
  | Some t => norm_set t
  end.

(* ------------------------------------------------------------------ *)
(* the plugin API of src/callbacks.py (PluginMixin).
   setRegistryValue(name, value, channel, network): the WRITE path descends exactly:
       if network: group = group.get(':' + network);  if channel: group = group.get(channel);  group.setValue(value)
   registryValue(name, channel, network): the READ path resolves leniently with getSpecific(): a channel that is
   not a channel name and a network without a live Irc object (world.getIrc is None: [live] is an input) are
   dropped, then the three-way rule applies.  Network nodes are named ':' + network. *)
Definition net_key (n : str) : str := COLON :: n.
Definition reg_write_addr (net chan : str) : addr :=
  match net, chan with
  | [], [] => AG
  | [], _ => AC chan
  | _, [] => AN (net_key net)
  | _, _ => ANC (net_key net) chan
  end.
Definition reg_read_addr (live : list str) (net chan : str) : addr :=
  let chan' := if nonempty chan && is_channel chan then chan else [] in
  let net' := if nonempty net && existsb (fun l => seq_eqb (lower l) (lower net)) live then net else [] in
  reg_write_addr net' chan'.
Inductive regop : Type :=
| RWrite (net chan : str) (v : pv)       (* plugin.setRegistryValue(var, v, channel=chan, network=net) *)
| RRead (net chan : str).                (* plugin.registryValue(var, channel=chan, network=net) *)
Definition regop_top (live : list str) (o : regop) : top pv :=
  match o with
  | RWrite n c v => OSetValue (reg_write_addr n c) v
  | RRead n c => OGet (reg_read_addr live n c)
  end.
Definition gRegop (v : value) : regop :=
  match gN (nth_v 0 v) with
  | 0 => RWrite (gS (nth_v 1 v)) (gS (nth_v 2 v)) (gPV (nth_v 3 v))
  | _ => RRead (gS (nth_v 1 v)) (gS (nth_v 2 v))
  end.

(* user-specific values: conf.registerUserValue(group, name, value) (since the repair of C15.F32) scans the cache like
   its siblings and instantiates the <var>.<user id> children: one part that str.isdigit() accepts (ASCII digits are
   modelled; user ids are str(int)) *)
Definition is_userid (s : str) : bool := nonempty s && forallb (fun c => (48 <=? c) && (c <=? 57)) s.
Definition scan_key_user (gname key : str) : res (list path) :=
  match match_key gname key with
  | None => Ok []
  | Some rest =>
      do parts <- split rest;
      match parts with
      | [p] => if is_userid p then Ok [[p]] else Ok []
      | _ => Ok []
      end
  end.
Fixpoint scan_keys_user (d : decl) (C : cache) (keys : list str) (st : vstate) : res vstate :=
  match keys with
  | [] => Ok st
  | key :: keys' =>
      do ps <- scan_key_user (gname_of d) key;
      do st1 <- ensure_all d C st ps;
      scan_keys_user d C keys' st1
  end.
Definition load_user_var (d : decl) (C : cache) : res vstate :=
  do b <- match cache_get (gname_of d) C with
          | Some x => k_settext (d_kind d) (d_dflt d) x
          | None => Ok (d_dflt d)
          end;
  scan_keys_user d C (map fst C) (mkvs b []).

(* the width NormalizedString.serialize asks textwrap for: max(COLS - (len(name) + EXTRA), MIN) (constants
   regenerated; MIN = 0 when the source has no max()).  textwrap.wrap raises ValueError for a width <= 0
   and registry.close() only logs the exception: the value line is then NOT WRITTEN. *)
Definition wrap_width_with (minw : nat) (name : str) : nat :=
  Nat.max (gen.T15.WRAP_COLS - (length name + gen.T15.WRAP_EXTRA)) minw.
Definition wrap_width : str -> nat := wrap_width_with gen.T15.WRAP_MIN.
Definition norm_file_with (minw : nat) (name : str) (chunks : list str) : str :=
  if Nat.eqb (wrap_width_with minw name) 0 then [] else wrapped_text name chunks.
Definition norm_reload_with (minw : nat) (name : str) (chunks : list str) (fresh : str) : res str :=
  do kvs <- open_registry (norm_file_with minw name chunks);
  match cache_get name kvs with
  | None => Ok fresh
  | Some t => norm_set t
  end.
Definition norm_file : str -> list str -> str := norm_file_with gen.T15.WRAP_MIN.
Definition norm_save_reload : str -> list str -> str -> res str := norm_reload_with gen.T15.WRAP_MIN.

(* run: (op payload)
   0 names            -> (join text, result of split (join names))
   1 text             -> result of split text
   2 (s)              -> (uesc s, udec s, py_repr s, py_eval s, string_parse s, string_str s)
   3 (kind cur oks s) -> (result of set_text, its str_of, its serialize)
   4 (kind name fresh oks v) -> (value_line, open_registry of it, reload)
   5 text             -> open_registry text
   6 (kind dflt init ops) -> outcomes of the history on the tree
   7 (decls gens) -> per generation: the saved lines and the values read, or the error
   10 (kind dflt init live ops) -> plugin API history (setRegistryValue / registryValue) on the tree
   9 (decls gens) -> like 7 with timestamps, reset, save and reload operations
   8 (name chunks fresh text value) -> NormalizedString: wrapped file text, its open_registry, the reloaded value,
     norm_set text, the text handed to textwrap for value *)
Definition run (v : value) : value :=
  let p := nth_v 1 v in
  match gN (nth_v 0 v) with
  | 0 => let ns := gLS p in L [vS (join_names ns); vR vLS (split (join_names ns))]
  | 1 => vR vLS (split (gS p))
  | 2 => let s := gS p in
         L [vS (uesc s); vR vS (udec s); vS (py_repr s); vR vS (py_eval s); vR vS (string_parse s); vS (string_str s)]
  | 3 => let k := gKind (nth_v 0 p) in
         let r := set_text k (gPV (nth_v 1 p)) (gBools (nth_v 2 p)) (gS (nth_v 3 p)) in
         L [vR vPV r; match r with Ok x => L [vS (str_of k x); vS (serialize k x)] | Raise _ => L [] end]
  | 4 => let k := gKind (nth_v 0 p) in
         let name := gS (nth_v 1 p) in
         let x := gPV (nth_v 4 p) in
         L [vS (value_line name k x); vR (fun l => L (map vKV l)) (open_registry (value_line name k x));
            vR vPV (reload name k (gPV (nth_v 2 p)) (gBools (nth_v 3 p)) x)]
  | 5 => vR (fun l => L (map vKV l)) (open_registry (gS p))
  | 6 => let k := gKind (nth_v 0 p) in
         let dflt := gPV (nth_v 1 p) in
         let t0 := mktree pv (gPV (nth_v 2 p)) [] [] in
         let '(_, rs) := run_ops pv (k_reparse k dflt) (k_settext k) t0 (map gOp (gL (nth_v 3 p))) in
         L (map (vR vPV) rs)
  | 10 => let k := gKind (nth_v 0 p) in
          let dflt := gPV (nth_v 1 p) in
          let t0 := mktree pv (gPV (nth_v 2 p)) [] [] in
          let live := gLS (nth_v 3 p) in
          let '(_, rs) := run_ops pv (k_reparse k dflt) (k_settext k) t0 (map (fun o => regop_top live (gRegop o)) (gL (nth_v 4 p))) in
          L (map (vR vPV) rs)
  | 9 => L (map (vR (fun r : list (str * str) * list pv => L [L (map vKV (fst r)); L (map vPV (snd r))]))
              (tgenerations (map gDecl (gL (nth_v 0 p))) [] (map (fun g => map gTop2 (gL g)) (gL (nth_v 1 p)))))
  | 8 => let name := gS (nth_v 0 p) in
         let chunks := gLS (nth_v 1 p) in
         L [vS (norm_file name chunks); vR (fun l => L (map vKV l)) (open_registry (norm_file name chunks));
            vR vS (norm_save_reload name chunks (gS (nth_v 2 p))); vR vS (norm_set (gS (nth_v 3 p)));
            vS (uesc (string_str (gS (nth_v 4 p))))]
  | 7 => L (map (vR (fun r : list (str * str) * list pv => L [L (map vKV (fst r)); L (map vPV (snd r))]))
              (generations (map gDecl (gL (nth_v 0 p))) [] (map (fun g => map gGop (gL g)) (gL (nth_v 1 p)))))
  | _ => L []
  end.

(* ------------------------------------------------------------------ *)
(* reject-atomic: X.set / X.setValue of every inventory class as a statement program
   (gen.T15.ATOMIC_TABLE, regenerated from the source).  State = has self.value been assigned
   ("dirty").  [outs p d]: every outcome (dirty, raised) program p can have from state d, whatever the
   checks, side effects and branch conditions do;  [exec p o d]: the run selected by the choice list o. *)
Import gen.T15.
Fixpoint outs (p : stm) (d : bool) : list (bool * bool) :=
  match p with
  | SSkip => [(d, false)]
  | SCheck => [(d, false); (d, true)]
  | SError => [(d, true)]
  | SAssign => [(true, false)]
  | SSeq a b => flat_map (fun x : bool * bool => if snd x then [(fst x, true)] else outs b (fst x)) (outs a d)
  | SIf a b => outs a d ++ outs b d
  | STry a h => flat_map (fun x : bool * bool => if snd x then (fst x, true) :: outs h (fst x) else [(fst x, false)]) (outs a d)
  end.

Fixpoint exec (p : stm) (o : list bool) (d : bool) : (bool * bool) * list bool :=
  match p with
  | SSkip => ((d, false), o)
  | SCheck => match o with b :: o' => ((d, b), o') | [] => ((d, false), []) end
  | SError => ((d, true), o)
  | SAssign => ((true, false), o)
  | SSeq a b => let '(x, o1) := exec a o d in if snd x then ((fst x, true), o1) else exec b o1 (fst x)
  | SIf a b => match o with c :: o' => if c then exec a o' d else exec b o' d | [] => exec b [] d end
  | STry a h =>
      let '(x, o1) := exec a o d in
      if snd x then
        match o1 with
        | c :: o2 => if c then exec h o2 (fst x) else ((fst x, true), o2)    (* caught / not this exception *)
        | [] => ((fst x, true), [])
        end
      else ((fst x, false), o1)
  end.

(* no outcome both raises and has assigned *)
Definition atomic (p : stm) : bool := forallb (fun x : bool * bool => negb (snd x && fst x)) (outs p false).
Definition table_atomic (t : list (list N * stm * stm)) : bool :=
  forallb (fun e : list N * stm * stm => atomic (snd (fst e)) && atomic (snd e)) t.
