(* C15/ResetParent.v — `config reset channel` on a network: the network+channel value shows its PARENT's value
   (the network-specific value) again, not the general one. *)
From Coq Require Import List NArith Bool.
Import ListNotations.
Require Import Base.Wire Base.PyStr C15.Model C15.Tree.

Lemma forget_nc_shows_net (V : Type) (s : spec V) n c v :
  lookup n (sn V s) = Some v -> resolve V (forget V (ANC n c) s) (ANC n c) = v.
Proof. intro H. unfold resolve, forget. cbn [snc sn sc g]. rewrite lookup2_remove_same, H. reflexivity. Qed.

(* on the tree: reset channel (network n, channel c), then getSpecific(n, c) *)
Theorem reset_netchan_shows_network_value :
  forall (V : Type) (reparse : V -> res V) (settext : V -> str -> res V) (t : tree V) (s : spec V) n c v,
  Inv V reparse t s -> lookup n (sn V s) = Some v ->
  let t1 := fst (step V reparse settext t (OReset (ANC n c))) in
  snd (step V reparse settext t1 (OGet (ANC n c))) = Ok v.
Proof.
  intros V reparse settext t s n c v HI Hn t1. subst t1.
  pose proof (step_refines V reparse settext t s (OReset (ANC n c)) HI Logic.I) as H1.
  destruct (step V reparse settext t (OReset (ANC n c))) as [t' r] eqn:E. destruct H1 as (HI' & _). cbn [fst].
  cbn [spec_step] in HI'.
  pose proof (step_refines V reparse settext t' _ (OGet (ANC n c)) HI' Logic.I) as H2.
  destruct (step V reparse settext t' (OGet (ANC n c))) as [t'' r2]. destruct H2 as (_ & Hg & _).
  cbn [snd]. rewrite (Hg _ eq_refl). f_equal. apply forget_nc_shows_net. exact Hn.
Qed.

(* the general value is a different thing: re-seeding from it (the seeded change) shows 1 where the network says 2 *)
Example general_is_not_the_parent :
  let s := mkspec nat 1%nat [] [([58; 110], 2%nat)] [(([58; 110], [35; 97]), 3%nat)] in
  resolve nat (forget nat (ANC [58; 110] [35; 97]) s) (ANC [58; 110] [35; 97]) = 2%nat /\ g nat s = 1%nat.
Proof. vm_compute. split; reflexivity. Qed.
