(* C15/File.v — the file layer is transparent: the value line written by close()
   for a well-formed name is read back by open_registry() as exactly (name, text). *)
From Coq Require Import List NArith ZArith Bool Lia ZifyBool Arith.
Import ListNotations.
Require Import Base.Wire Base.PyStr C15.Model C15.Lemmas C15.Names C15.Codec C15.Split.
Open Scope N_scope.

(* full (escaped, joined) variable names for which the value line can be read back:
   no blank, not a comment line, not ending with an odd number of backslashes.
   Every name built by join_names has the last property (join_names_escpar). *)
Definition name_ok (name : str) : bool :=
  nows name && negb (startswith [HASH] name) && negb (escpar false name).

Lemma translate_nl_id s : mem CR s = false -> translate_nl s = s.
Proof.
  induction s as [|c s IH]; intro H; [reflexivity|].
  cbn [mem existsb] in H. unfold mem in IH. apply orb_false_iff in H as [H1 H2].
  cbn [translate_nl]. rewrite N.eqb_sym in H1. rewrite H1. rewrite (IH H2). reflexivity.
Qed.

Lemma lstrip_id chars s :
  match s with c :: _ => mem c chars = false | [] => True end -> lstrip chars s = s.
Proof. destruct s as [|c s]; intro H; [reflexivity|]. cbn [lstrip]. rewrite H. reflexivity. Qed.

Lemma count_trailing_stop c a x r : x <> c -> count_trailing c (a ++ x :: r) = count_trailing c a.
Proof.
  intro Hx. induction a as [|y a IH].
  - cbn [app count_trailing]. destruct (x =? c) eqn:E; [apply N.eqb_eq in E; congruence|reflexivity].
  - cbn [app count_trailing]. destruct (y =? c); [rewrite IH; reflexivity|reflexivity].
Qed.

Lemma nows_no c s : nows s = true -> isspace c = true -> mem c s = false.
Proof.
  intros H Hc. apply mem_false. intro Hin. unfold nows in H. rewrite forallb_forall in H.
  specialize (H c Hin). rewrite Hc in H. discriminate.
Qed.

Lemma isspace_SP : isspace SP = true. Proof. vm_compute. reflexivity. Qed.
Lemma isspace_CR : isspace CR = true. Proof. vm_compute. reflexivity. Qed.
Lemma isspace_LF : isspace LF = true. Proof. vm_compute. reflexivity. Qed.
Lemma isspace_COLON : isspace COLON = false. Proof. vm_compute. reflexivity. Qed.

Lemma split_kv_step e c d tl :
  ((c =? COLON) && (d =? SP) && negb e) = false ->
  split_kv e (c :: d :: tl) =
  match split_kv ((c =? BSL) && negb e) (d :: tl) with Some (a, r) => Some (c :: a, r) | None => None end.
Proof. intro H. destruct tl; cbn [split_kv]; rewrite H; reflexivity. Qed.

Lemma split_kv_name name rest e :
  nows name = true -> escpar e name = false ->
  split_kv e (name ++ COLON :: SP :: rest) = Some (name, rest).
Proof.
  revert e. induction name as [|c name IH]; intros e Hw He.
  - cbn [app split_kv]. cbn [escpar] in He. subst e. rewrite !N.eqb_refl. reflexivity.
  - unfold nows in Hw. cbn [forallb] in Hw. apply andb_true_iff in Hw as [Hc Hw].
    cbn [escpar] in He. cbn [app].
    remember (name ++ COLON :: SP :: rest) as tail eqn:E.
    destruct tail as [|d tl]; [destruct name; discriminate|].
    assert (Hd : (d =? SP) = false).
    { destruct name as [|x name'].
      - cbn [app] in E. inversion E; subst. reflexivity.
      - cbn [app] in E. inversion E; subst. unfold nows in Hw. cbn [forallb] in Hw.
        apply andb_true_iff in Hw as [Hx _]. destruct (x =? SP) eqn:E2; [|reflexivity].
        apply N.eqb_eq in E2. subst x. rewrite isspace_SP in Hx. discriminate. }
    rewrite split_kv_step by (rewrite Hd, andb_false_r; reflexivity).
    rewrite (IH _ Hw He). reflexivity.
Qed.

(* rstrip's inner loop is lstrip *)
Lemma rstrip_rev chars s : rstrip chars s = rev (lstrip chars (rev s)).
Proof.
  unfold rstrip. f_equal. generalize (rev s). intro r. induction r as [|c r IH]; [reflexivity|].
  cbn [lstrip]. destruct (mem c chars); [exact IH|reflexivity].
Qed.

Lemma lstrip_keeps chars s c : In c s -> mem c chars = false -> In c (lstrip chars s).
Proof.
  induction s as [|x s IH]; intros Hin Hc; [contradiction|].
  cbn [lstrip]. destruct (mem x chars) eqn:E; [|exact Hin].
  destruct Hin as [H|H]; [subst; congruence|]. apply IH; assumption.
Qed.

Lemma strip_keeps chars s c : In c s -> mem c chars = false -> strip chars s <> [].
Proof.
  intros Hin Hc. unfold strip. rewrite rstrip_rev.
  assert (H : In c (lstrip chars (rev (lstrip chars s)))).
  { apply lstrip_keeps; [|exact Hc]. apply -> in_rev. apply lstrip_keeps; assumption. }
  intro E. apply (f_equal (@rev N)) in E. rewrite rev_involutive in E. cbn in E. rewrite E in H. contradiction.
Qed.

Section FileLayer.
(* facts about the unicode_escape encoder, proved in Codec.v *)
Hypothesis codec : forall s, vstr s = true -> udec (uesc s) = Ok s.
Hypothesis no_crlf : forall s, mem CR (uesc s) = false /\ mem LF (uesc s) = false.
Hypothesis even_bsl : forall s, Nat.even (count_trailing BSL (rev (uesc s))) = true.

Lemma last_char_in s d : last_char s = Some d -> In d s.
Proof. destruct s as [|c s]; [discriminate|]. apply last_char_cons_in. Qed.

Lemma open_value_line name t :
  name_ok name = true -> vstr t = true ->
  open_registry (name ++ [COLON; SP] ++ uesc t ++ [LF]) = Ok [(name, t)].
Proof.
  intros Hn Ht. unfold name_ok in Hn. apply andb_true_iff in Hn as [Hn He]. apply andb_true_iff in Hn as [Hw Hh].
  destruct (no_crlf t) as [Hcr Hlf].
  set (u := uesc t) in *.
  set (line := name ++ [COLON; SP] ++ u).
  assert (Eline : name ++ [COLON; SP] ++ u ++ [LF] = line ++ [LF]).
  { unfold line. rewrite <- !app_assoc. reflexivity. }
  rewrite Eline.
  assert (HcrL : mem CR line = false).
  { unfold line. rewrite !mem_app. rewrite (nows_no CR name Hw isspace_CR), Hcr. reflexivity. }
  assert (HlfL : mem LF line = false).
  { unfold line. rewrite !mem_app. rewrite (nows_no LF name Hw isspace_LF), Hlf. reflexivity. }
  unfold open_registry.
  rewrite translate_nl_id by (rewrite mem_app, HcrL; reflexivity).
  change (line ++ [LF]) with (line ++ LF :: []). rewrite split_char_app by exact HlfL.
  cbn [split_char read_lines].
  (* not a comment *)
  assert (Hhash : startswith [HASH] line = false).
  { unfold line. destruct name as [|c name'].
    - reflexivity.
    - cbn [app]. cbn [startswith] in *. destruct (HASH =? c); [discriminate|reflexivity]. }
  rewrite Hhash.
  (* not blank *)
  assert (Hnb : strip_ws line <> []).
  { apply (strip_keeps _ _ COLON); [unfold line; apply in_or_app; right; left; reflexivity|exact isspace_COLON]. }
  destruct (strip_ws line) as [|x0 xs0] eqn:Es; [congruence|]. clear Es Hnb x0 xs0.
  (* rstrip('\r\n') does nothing *)
  assert (Hrs : rstrip crlf line = line).
  { apply rstrip_id. destruct (last_char line) as [d|] eqn:El; [|exact Logic.I].
    apply last_char_in in El. unfold crlf. cbn [mem existsb].
    assert (Hd : d <> CR /\ d <> LF).
    { split; intro; subst d.
      - apply mem_In in El. congruence.
      - apply mem_In in El. congruence. }
    destruct Hd as [H1 H2]. apply N.eqb_neq in H1, H2. rewrite H1, H2. reflexivity. }
  rewrite Hrs.
  (* no continuation *)
  assert (Hodd : Nat.odd (count_trailing BSL (rev line)) = false).
  { unfold line. rewrite !rev_app_distr. cbn [rev app]. rewrite <- app_assoc. cbn [app].
    rewrite count_trailing_stop by discriminate.
    rewrite <- Nat.negb_even. unfold u. rewrite even_bsl. reflexivity. }
  rewrite Hodd. cbn [app].
  (* key / value *)
  unfold parse_acc. unfold line. cbn [app].
  rewrite split_kv_name; [|exact Hw|destruct (escpar false name); [discriminate|reflexivity]].
  assert (Hst : strip crlf u = u).
  { unfold strip.
    assert (Hin : forall d, In d u -> mem d crlf = false).
    { intros d Hd. unfold crlf. cbn [mem existsb].
      assert (d <> CR /\ d <> LF) as [H1 H2].
      { split; intro; subst d; apply mem_In in Hd; congruence. }
      apply N.eqb_neq in H1, H2. rewrite H1, H2. reflexivity. }
    rewrite lstrip_id.
    - apply rstrip_id. destruct (last_char u) as [d|] eqn:El; [|exact Logic.I].
      apply Hin. apply last_char_in. exact El.
    - destruct u as [|c u']; [exact Logic.I|]. apply Hin. left. reflexivity. }
  rewrite Hst. unfold u. rewrite (codec t Ht).
  rewrite (strip_ws_nows name Hw).
  replace (strip_ws []) with (@nil N) by reflexivity. reflexivity.
Qed.

Lemma cache_get_single name t : cache_get name [(name, t)] = Some t.
Proof. cbn [cache_get]. rewrite seq_eqb_refl. reflexivity. Qed.

(* saving a variable and loading the file again hands the class exactly the text it wrote *)
Lemma reload_transparent name k fresh oks v :
  name_ok name = true -> vstr (str_of k v) = true ->
  reload name k fresh oks v = set_text k fresh oks (str_of k v).
Proof.
  intros Hn Hv. unfold reload, value_line, serialize.
  rewrite (open_value_line name (str_of k v) Hn Hv). cbn [bind]. rewrite cache_get_single. reflexivity.
Qed.
End FileLayer.

(* the witness of the repaired defect F22: a name ending with a backslash now loads *)
Example backslash_name_loads :
  name_ok [118; 46; 35; 120; 92; 92] = true /\
  open_registry (value_line [118; 46; 35; 120; 92; 92] KString (PS [97])) = Ok [([118; 46; 35; 120; 92; 92], [97])].
Proof. vm_compute. split; reflexivity. Qed.

Example name_ok_nonvacuous : name_ok [115; 46; 92; 58; 110; 46; 35; 99] = true.
Proof. vm_compute. reflexivity. Qed.
