(* C15/FileMulti.v — a whole file of value lines is read back as exactly its (name, text) pairs. *)
From Coq Require Import List NArith ZArith Bool Lia ZifyBool Arith.
Import ListNotations.
Require Import Base.Wire Base.PyStr C15.Model C15.Lemmas C15.Names C15.Codec C15.Split C15.File.
Open Scope N_scope.

Definition line_ok (l : str * str) : bool := name_ok (fst l) && vstr (snd l).
Definition line_of (l : str * str) : str := fst l ++ [COLON; SP] ++ uesc (snd l).

Lemma line_no name t c :
  nows name = true -> isspace c = true -> c <> COLON -> c <> SP -> mem c (uesc t) = false ->
  mem c (name ++ [COLON; SP] ++ uesc t) = false.
Proof.
  intros Hw Hc H1 H2 Hu. rewrite !mem_app. rewrite (nows_no c name Hw Hc), Hu.
  cbn [mem existsb]. apply N.eqb_neq in H1, H2. rewrite H1, H2. reflexivity.
Qed.

(* one good line at the head of the list of lines *)
Lemma read_line_good name t rest :
  name_ok name = true -> vstr t = true ->
  read_lines [] ((name ++ [COLON; SP] ++ uesc t) :: rest) =
  (do kvs <- read_lines [] rest; Ok ((name, t) :: kvs)).
Proof.
  intros Hn Ht. unfold name_ok in Hn. apply andb_true_iff in Hn as [Hn He]. apply andb_true_iff in Hn as [Hw Hh].
  destruct (uesc_no_crlf t) as [Hcr Hlf].
  set (u := uesc t) in *.
  set (line := name ++ [COLON; SP] ++ u).
  assert (HcrL : mem CR line = false) by (apply line_no; [exact Hw|exact isspace_CR|discriminate|discriminate|exact Hcr]).
  assert (HlfL : mem LF line = false) by (apply line_no; [exact Hw|exact isspace_LF|discriminate|discriminate|exact Hlf]).
  cbn [read_lines].
  assert (Hhash : startswith [HASH] line = false).
  { unfold line. destruct name as [|c name'].
    - reflexivity.
    - cbn [app]. cbn [startswith] in *. destruct (HASH =? c); [discriminate|reflexivity]. }
  rewrite Hhash.
  assert (Hnb : strip_ws line <> []).
  { apply (strip_keeps _ _ COLON); [unfold line; apply in_or_app; right; left; reflexivity|exact isspace_COLON]. }
  destruct (strip_ws line) as [|x0 xs0] eqn:Es; [congruence|]. clear Es Hnb x0 xs0.
  assert (Hrs : rstrip crlf line = line).
  { apply rstrip_id. destruct (last_char line) as [d|] eqn:El; [|exact Logic.I].
    apply last_char_in in El. unfold crlf. cbn [mem existsb].
    assert (Hd : d <> CR /\ d <> LF).
    { split; intro; subst d; apply mem_In in El; congruence. }
    destruct Hd as [H1 H2]. apply N.eqb_neq in H1, H2. rewrite H1, H2. reflexivity. }
  rewrite Hrs.
  assert (Hodd : Nat.odd (count_trailing BSL (rev line)) = false).
  { unfold line. rewrite !rev_app_distr. cbn [rev app]. rewrite <- app_assoc. cbn [app].
    rewrite count_trailing_stop by discriminate.
    rewrite <- Nat.negb_even. unfold u. rewrite uesc_trailing_bsl_even. reflexivity. }
  rewrite Hodd. cbn [app].
  unfold parse_acc. unfold line. cbn [app].
  rewrite split_kv_name; [|exact Hw|destruct (escpar false name); [discriminate|reflexivity]].
  assert (Hst : strip crlf u = u).
  { unfold strip.
    assert (Hin : forall d, In d u -> mem d crlf = false).
    { intros d Hd. unfold crlf. cbn [mem existsb].
      assert (d <> CR /\ d <> LF) as [H1 H2].
      { split; intro; subst d; apply mem_In in Hd; congruence. }
      apply N.eqb_neq in H1, H2. rewrite H1, H2. reflexivity. }
    rewrite lstrip_id.
    - apply rstrip_id. destruct (last_char u) as [d|] eqn:El; [|exact Logic.I].
      apply Hin. apply last_char_in. exact El.
    - destruct u as [|c u']; [exact Logic.I|]. apply Hin. left. reflexivity. }
  rewrite Hst. unfold u. rewrite (udec_uesc t Ht). cbn [bind].
  rewrite (strip_ws_nows name Hw). reflexivity.
Qed.

Lemma line_of_no (l : str * str) c :
  line_ok l = true -> (c = CR \/ c = LF) -> mem c (line_of l) = false.
Proof.
  intros H Hc. unfold line_ok in H. apply andb_true_iff in H as [Hn _].
  unfold name_ok in Hn. apply andb_true_iff in Hn as [Hn _]. apply andb_true_iff in Hn as [Hw _].
  destruct (uesc_no_crlf (snd l)) as [Hcr Hlf]. unfold line_of.
  destruct Hc; subst c; apply line_no; try discriminate; try assumption; [exact isspace_CR|exact isspace_LF].
Qed.

Lemma file_text_cons l ls : file_text (l :: ls) = line_of l ++ LF :: file_text ls.
Proof. unfold file_text, line_of. cbn [flat_map]. rewrite <- !app_assoc. reflexivity. Qed.

Lemma file_text_no_cr ls : forallb line_ok ls = true -> mem CR (file_text ls) = false.
Proof.
  induction ls as [|l ls IH]; intro H; [reflexivity|]. cbn [forallb] in H. apply andb_true_iff in H as [Hl Hls].
  rewrite file_text_cons, mem_app. rewrite (line_of_no l CR Hl (or_introl eq_refl)). cbn [mem existsb orb].
  replace (CR =? LF) with false by reflexivity. apply IH. exact Hls.
Qed.

Lemma split_file_text ls : forallb line_ok ls = true ->
  split_char LF (file_text ls) = map line_of ls ++ [[]].
Proof.
  induction ls as [|l ls IH]; intro H; [reflexivity|]. cbn [forallb] in H. apply andb_true_iff in H as [Hl Hls].
  rewrite file_text_cons. rewrite split_char_app by (apply line_of_no; [exact Hl|right; reflexivity]).
  rewrite (IH Hls). reflexivity.
Qed.

Lemma read_good_lines ls : forallb line_ok ls = true ->
  read_lines [] (map line_of ls ++ [[]]) = Ok ls.
Proof.
  induction ls as [|l ls IH]; intro H.
  - reflexivity.
  - cbn [forallb] in H. apply andb_true_iff in H as [Hl Hls]. cbn [map app].
    unfold line_ok in Hl. apply andb_true_iff in Hl as [Hn Ht]. unfold line_of at 1.
    rewrite (read_line_good _ _ _ Hn Ht). rewrite (IH Hls). cbn [bind]. destruct l; reflexivity.
Qed.

(* the whole file written by close() is read back line for line *)
Lemma open_file_text ls : forallb line_ok ls = true -> open_registry (file_text ls) = Ok ls.
Proof.
  intro H. unfold open_registry. rewrite translate_nl_id by (apply file_text_no_cr; exact H).
  rewrite (split_file_text ls H). apply read_good_lines. exact H.
Qed.
