(* C15/Codec.v — proofs about the unicode_escape codec and repr / literal
   evaluation of C15/Model.v.  Proofs only. *)
From Coq Require Import List NArith ZArith Bool Lia ZifyBool Arith.
Import ListNotations.
Require Import Base.Wire Base.PyStr C15.Model.
Open Scope N_scope.

Definition valid_cp (c : N) : bool := (c <? MAXCP)%N.
Definition valid_str (s : str) : bool := forallb valid_cp s.

(* ------------------------------------------------------------------ *)
(* boolean <-> Prop plumbing *)
Ltac b2p := repeat match goal with
  | H : (_ =? _) = true |- _ => apply N.eqb_eq in H
  | H : (_ =? _) = false |- _ => apply N.eqb_neq in H
  | H : (_ <? _) = true |- _ => apply N.ltb_lt in H
  | H : (_ <? _) = false |- _ => apply N.ltb_ge in H
  | H : (_ <=? _) = true |- _ => apply N.leb_le in H
  | H : (_ <=? _) = false |- _ => apply N.leb_gt in H
  | H : (_ && _) = true |- _ => apply andb_true_iff in H; destruct H
  | H : (_ || _) = false |- _ => apply orb_false_iff in H; destruct H
  | H : (_ || _) = true |- _ => apply orb_true_iff in H; destruct H
  | H : negb _ = true |- _ => apply negb_true_iff in H
  | H : negb _ = false |- _ => apply negb_false_iff in H
  end.
Ltac bgoal := repeat match goal with
  | |- (_ && _) = true => apply andb_true_iff; split
  | |- (_ || _) = false => apply orb_false_iff; split
  | |- negb _ = true => apply negb_true_iff
  | |- negb _ = false => apply negb_false_iff
  | |- (_ <? _) = true => apply N.ltb_lt
  | |- (_ <? _) = false => apply N.ltb_ge
  | |- (_ <=? _) = true => apply N.leb_le
  | |- (_ <=? _) = false => apply N.leb_gt
  | |- (_ =? _) = true => apply N.eqb_eq
  | |- (_ =? _) = false => apply N.eqb_neq
  end.

Lemma forallb_impl {A} (P Q : A -> bool) l :
  (forall x, P x = true -> Q x = true) -> forallb P l = true -> forallb Q l = true.
Proof.
  intros HPQ. induction l as [|x l IH]; cbn [forallb]; intro H; [reflexivity|].
  apply andb_true_iff in H as [H1 H2]. rewrite (HPQ _ H1), (IH H2). reflexivity.
Qed.

Lemma forallb_flat_map {A B} (P : B -> bool) (f : A -> list B) l :
  (forall x, In x l -> forallb P (f x) = true) -> forallb P (flat_map f l) = true.
Proof.
  induction l as [|x l IH]; intro H; cbn [flat_map]; [reflexivity|].
  rewrite forallb_app, (H x (or_introl eq_refl)), IH; [reflexivity|].
  intros y Hy. apply H. right. exact Hy.
Qed.

Lemma forallb_mem_false (P : N -> bool) c l :
  forallb P l = true -> P c = false -> mem c l = false.
Proof.
  intros Hl Hc. apply mem_false. intro Hin.
  rewrite forallb_forall in Hl. rewrite (Hl _ Hin) in Hc. discriminate.
Qed.

(* ------------------------------------------------------------------ *)
(* hexadecimal digits *)
Lemma hexchar_range d : d < 16 -> 48 <= hexchar d <= 57 \/ 97 <= hexchar d <= 102.
Proof. intro H. unfold hexchar. destruct (d <? 10) eqn:E; b2p; lia. Qed.

Lemma hexchar_not_bsl d : hexchar d <> BSL.
Proof. unfold hexchar, BSL. destruct (d <? 10) eqn:E; b2p; lia. Qed.

Lemma hexval_hexchar d : d < 16 -> hexval (hexchar d) = Some d.
Proof.
  intro H. unfold hexchar, hexval. destruct (d <? 10) eqn:E; b2p.
  - destruct ((48 <=? 48 + d) && (48 + d <=? 57)) eqn:E1.
    + f_equal. lia.
    + apply andb_false_iff in E1 as [E1|E1]; b2p; lia.
  - destruct ((48 <=? 87 + d) && (87 + d <=? 57)) eqn:E1; [b2p; lia|].
    destruct ((97 <=? 87 + d) && (87 + d <=? 102)) eqn:E2.
    + f_equal. lia.
    + apply andb_false_iff in E2 as [E2|E2]; b2p; lia.
Qed.

Definition hexrange (x : N) : bool := ((48 <=? x) && (x <=? 57)) || ((97 <=? x) && (x <=? 102)).

Lemma hexdigits_range k : forall c, forallb hexrange (hexdigits k c) = true.
Proof.
  induction k as [|k IH]; intro c; cbn [hexdigits]; [reflexivity|].
  rewrite forallb_app, IH. cbn [forallb]. rewrite andb_true_r, andb_true_l.
  assert (Hm : c mod 16 < 16) by (apply N.mod_lt; lia).
  unfold hexrange. apply orb_true_iff.
  destruct (hexchar_range _ Hm); [left|right]; bgoal; lia.
Qed.

Lemma hexdigits_S k c : hexdigits (S k) c = hexdigits k (c / 16) ++ [hexchar (c mod 16)].
Proof. reflexivity. Qed.

(* consuming a prefix of j digits *)
Lemma edec_hex_pre j : forall m c acc rest,
  c < 16 ^ N.of_nat j ->
  edec (DH (j + m) acc) (hexdigits j c ++ rest) = edec (DH m (acc * 16 ^ N.of_nat j + c)) rest.
Proof.
  induction j as [|j IH]; intros m c acc rest Hc.
  - change (16 ^ N.of_nat 0) with 1 in *. cbn [hexdigits app plus].
    replace (acc * 1 + c) with acc by lia. reflexivity.
  - rewrite Nat2N.inj_succ, N.pow_succ_r' in *.
    rewrite hexdigits_S, <- app_assoc. cbn [app].
    replace (S j + m)%nat with (j + S m)%nat by lia.
    rewrite IH by (apply N.div_lt_upper_bound; lia).
    assert (Hm : c mod 16 < 16) by (apply N.mod_lt; lia).
    cbn [edec]. rewrite (hexval_hexchar _ Hm).
    f_equal. f_equal. pose proof (N.div_mod c 16). lia.
Qed.

Lemma edec_hex k : forall c acc rest,
  c < 16 ^ N.of_nat (S k) ->
  edec (DH k acc) (hexdigits (S k) c ++ rest) = emit (acc * 16 ^ N.of_nat (S k) + c) (edec DN rest).
Proof.
  intros c acc rest Hc.
  rewrite Nat2N.inj_succ, N.pow_succ_r' in *.
  rewrite hexdigits_S, <- app_assoc. cbn [app].
  replace k with (k + 0)%nat at 1 by lia.
  rewrite edec_hex_pre by (apply N.div_lt_upper_bound; lia).
  assert (Hm : c mod 16 < 16) by (apply N.mod_lt; lia).
  cbn [edec]. rewrite (hexval_hexchar _ Hm).
  f_equal. pose proof (N.div_mod c 16). lia.
Qed.

(* ------------------------------------------------------------------ *)
(* single steps of the decoder *)
Lemma edec_DN_bsl s : edec DN (BSL :: s) = edec DE s.
Proof. reflexivity. Qed.
Lemma edec_DN_plain c s : c <> BSL -> edec DN (c :: s) = rcons c (edec DN s).
Proof. intro H. cbn [edec]. apply N.eqb_neq in H. rewrite H. reflexivity. Qed.
Lemma edec_DE_x s : edec DE (120 :: s) = edec (DH 1 0) s.
Proof. reflexivity. Qed.
Lemma edec_DE_u s : edec DE (117 :: s) = edec (DH 3 0) s.
Proof. reflexivity. Qed.
Lemma edec_DE_U s : edec DE (85 :: s) = edec (DH 7 0) s.
Proof. reflexivity. Qed.

Lemma emit_ok c r : c < MAXCP -> emit c r = rcons c r.
Proof. intro H. unfold emit. apply N.ltb_lt in H. rewrite H. reflexivity. Qed.

Lemma edec_x2 c rest :
  c < 256 -> edec DN (BSL :: 120 :: hexdigits 2 c ++ rest) = rcons c (edec DN rest).
Proof.
  intro H. rewrite edec_DN_bsl, edec_DE_x, edec_hex by (change (16 ^ N.of_nat 2) with 256; lia).
  change (16 ^ N.of_nat 2) with 256. replace (0 * 256 + c) with c by lia.
  apply emit_ok. unfold MAXCP. lia.
Qed.
Lemma edec_u4 c rest :
  c < 65536 -> edec DN (BSL :: 117 :: hexdigits 4 c ++ rest) = rcons c (edec DN rest).
Proof.
  intro H. rewrite edec_DN_bsl, edec_DE_u, edec_hex by (change (16 ^ N.of_nat 4) with 65536; lia).
  change (16 ^ N.of_nat 4) with 65536. replace (0 * 65536 + c) with c by lia.
  apply emit_ok. unfold MAXCP. lia.
Qed.
Lemma edec_U8 c rest :
  c < MAXCP -> edec DN (BSL :: 85 :: hexdigits 8 c ++ rest) = rcons c (edec DN rest).
Proof.
  intro H. assert (H' := H). unfold MAXCP in H'.
  rewrite edec_DN_bsl, edec_DE_U, edec_hex by (change (16 ^ N.of_nat 8) with 4294967296; lia).
  change (16 ^ N.of_nat 8) with 4294967296. replace (0 * 4294967296 + c) with c by lia.
  apply emit_ok. exact H.
Qed.

(* ------------------------------------------------------------------ *)
(* unicode_escape: decode after encode *)
Lemma edec_uesc_char c rest :
  c < MAXCP -> edec DN (uesc_char c ++ rest) = rcons c (edec DN rest).
Proof.
  intro H. unfold uesc_char.
  destruct (c =? BSL) eqn:E1; [b2p; subst; reflexivity|].
  destruct (c =? TAB) eqn:E2; [b2p; subst; reflexivity|].
  destruct (c =? LF) eqn:E3; [b2p; subst; reflexivity|].
  destruct (c =? CR) eqn:E4; [b2p; subst; reflexivity|].
  destruct (c <? 32) eqn:E5; [cbn [app]; apply edec_x2; b2p; lia|].
  destruct (c <? 127) eqn:E6; [cbn [app]; apply edec_DN_plain; b2p; exact E1|].
  destruct (c <? 256) eqn:E7; [cbn [app]; apply edec_x2; b2p; lia|].
  destruct (c <? 65536) eqn:E8; [cbn [app]; apply edec_u4; b2p; lia|].
  cbn [app]. apply edec_U8. exact H.
Qed.

Lemma edec_uesc s rest :
  valid_str s = true ->
  edec DN (uesc s ++ rest) = match edec DN rest with Ok l => Ok (s ++ l) | Raise e => Raise e end.
Proof.
  induction s as [|c s IH]; intro H.
  - cbn [uesc flat_map app]. destruct (edec DN rest); reflexivity.
  - unfold valid_str in H. cbn [forallb] in H. apply andb_true_iff in H as [Hc Hs].
    unfold uesc. cbn [flat_map]. fold (uesc s).
    rewrite <- app_assoc, edec_uesc_char by (apply N.ltb_lt; exact Hc).
    rewrite (IH Hs). destruct (edec DN rest); reflexivity.
Qed.

(* every character emitted by unicode_escape is printable ASCII *)
Definition printable7 (x : N) : bool := (32 <=? x) && (x <? 127).

Lemma hexdigits_printable k c : forallb printable7 (hexdigits k c) = true.
Proof.
  apply (forallb_impl hexrange); [|apply hexdigits_range].
  unfold hexrange, printable7. intros x Hx. b2p; bgoal; lia.
Qed.

Lemma uesc_char_printable c : forallb printable7 (uesc_char c) = true.
Proof.
  unfold uesc_char.
  repeat match goal with |- context [if ?b then _ else _] => destruct b eqn:? end;
    cbn [forallb]; rewrite ?hexdigits_printable; try reflexivity.
  rewrite andb_true_r. unfold printable7. b2p. unfold TAB, LF, CR, BSL in *. bgoal; lia.
Qed.

Lemma uesc_printable s : forallb printable7 (uesc s) = true.
Proof. apply forallb_flat_map. intros. apply uesc_char_printable. Qed.

Lemma uesc_ascii : forall s, forallb (fun c => (c <? 128)%N) (uesc s) = true.
Proof.
  intro s. apply (forallb_impl printable7); [|apply uesc_printable].
  unfold printable7. intros x Hx. b2p. bgoal. lia.
Qed.

Lemma utf8_ascii : forall s, forallb (fun c => (c <? 128)%N) s = true -> utf8 s = Ok s.
Proof.
  induction s as [|c s IH]; intro H; [reflexivity|].
  cbn [forallb] in H. apply andb_true_iff in H as [Hc Hs].
  cbn [utf8]. unfold utf8_char. rewrite Hc. cbn [bind]. rewrite (IH Hs). reflexivity.
Qed.

Lemma udec_uesc : forall s, valid_str s = true -> udec (uesc s) = Ok s.
Proof.
  intros s H. unfold udec. rewrite (utf8_ascii _ (uesc_ascii s)). cbn [bind].
  rewrite <- (app_nil_r (uesc s)), (edec_uesc _ _ H). cbn [edec]. rewrite app_nil_r. reflexivity.
Qed.

Lemma uesc_no_crlf : forall s, mem CR (uesc s) = false /\ mem LF (uesc s) = false.
Proof.
  intro s. split; apply (forallb_mem_false printable7); try apply uesc_printable; reflexivity.
Qed.

(* trailing backslashes come in pairs *)
Lemma uesc_char_last c : c <> BSL -> exists l d, uesc_char c = l ++ [d] /\ d <> BSL.
Proof.
  intro H. unfold uesc_char. assert (H' := H). apply N.eqb_neq in H'. rewrite H'.
  destruct (c =? TAB); [exists [BSL], 116; split; [reflexivity|discriminate]|].
  destruct (c =? LF); [exists [BSL], 110; split; [reflexivity|discriminate]|].
  destruct (c =? CR); [exists [BSL], 114; split; [reflexivity|discriminate]|].
  destruct (c <? 32);
    [exists (BSL :: 120 :: hexdigits 1 (c / 16)), (hexchar (c mod 16)); split; [reflexivity|apply hexchar_not_bsl]|].
  destruct (c <? 127); [exists [], c; split; [reflexivity|exact H]|].
  destruct (c <? 256);
    [exists (BSL :: 120 :: hexdigits 1 (c / 16)), (hexchar (c mod 16)); split; [reflexivity|apply hexchar_not_bsl]|].
  destruct (c <? 65536);
    [exists (BSL :: 117 :: hexdigits 3 (c / 16)), (hexchar (c mod 16)); split; [reflexivity|apply hexchar_not_bsl]|].
  exists (BSL :: 85 :: hexdigits 7 (c / 16)), (hexchar (c mod 16)); split; [reflexivity|apply hexchar_not_bsl].
Qed.

Lemma uesc_trailing_bsl_even : forall s, Nat.even (count_trailing BSL (rev (uesc s))) = true.
Proof.
  induction s as [|c s IH] using rev_ind; [reflexivity|].
  unfold uesc. rewrite flat_map_app. cbn [flat_map]. rewrite app_nil_r, rev_app_distr.
  fold (uesc s). destruct (N.eq_dec c BSL) as [->|Hc].
  - change (uesc_char BSL) with [BSL; BSL]. cbn [rev app count_trailing].
    rewrite N.eqb_refl. cbn [Nat.even]. exact IH.
  - destruct (uesc_char_last c Hc) as (l & d & -> & Hd).
    rewrite rev_app_distr. cbn [rev app count_trailing].
    apply N.eqb_neq in Hd. rewrite Hd. reflexivity.
Qed.

(* ------------------------------------------------------------------ *)
(* repr(str) and literal evaluation *)
Lemma repr_quote_is_quote s : repr_quote s = SQ \/ repr_quote s = DQ.
Proof. unfold repr_quote. destruct (mem SQ s && negb (mem DQ s)); auto. Qed.

(* characters the tokenizer passes through unchanged *)
Definition srcok (x : N) : bool :=
  negb (x =? 0) && negb (is_surrogate x) && (x <? MAXCP) && negb (x =? CR).

Lemma srcok_intro x :
  x <> 0 -> is_surrogate x = false -> x < MAXCP -> x <> CR -> srcok x = true.
Proof.
  intros H1 H2 H3 H4. unfold srcok. rewrite H2.
  apply N.eqb_neq in H1, H4. apply N.ltb_lt in H3. rewrite H1, H3, H4. reflexivity.
Qed.

Lemma not_surrogate_lo x : x < 55296 -> is_surrogate x = false.
Proof. intro H. unfold is_surrogate. apply andb_false_iff. left. apply N.leb_gt. exact H. Qed.

Lemma srcok_printable7 x : printable7 x = true -> srcok x = true.
Proof.
  unfold printable7. intro H. b2p.
  apply srcok_intro; [lia|apply not_surrogate_lo; lia|unfold MAXCP; lia|unfold CR; lia].
Qed.

Lemma srcok_check t :
  forallb srcok t = true ->
  mem 0 t || existsb is_surrogate t || existsb (fun c => MAXCP <=? c) t = false.
Proof.
  induction t as [|a t IH]; intro H; [reflexivity|].
  cbn [forallb] in H. apply andb_true_iff in H as [Ha Ht]. specialize (IH Ht).
  apply orb_false_iff in IH as [IH I3]. apply orb_false_iff in IH as [I1 I2].
  unfold mem in *. cbn [existsb]. rewrite I1, I2, I3.
  unfold srcok in Ha. apply andb_true_iff in Ha as [Ha _].
  apply andb_true_iff in Ha as [Ha H3]. apply andb_true_iff in Ha as [H1 H2].
  apply negb_true_iff in H1, H2.
  rewrite (N.eqb_sym 0 a), H1, H2, N.leb_antisym, H3. reflexivity.
Qed.

Lemma srcok_nl t : forallb srcok t = true -> translate_nl t = t.
Proof.
  induction t as [|a t IH]; intro H; [reflexivity|].
  cbn [forallb] in H. apply andb_true_iff in H as [Ha Ht].
  unfold srcok in Ha. apply andb_true_iff in Ha as [_ H4]. apply negb_true_iff in H4.
  cbn [translate_nl]. rewrite H4, (IH Ht). reflexivity.
Qed.

(* the lexer *)
Definition lexplain (q x : N) : bool := negb (x =? q) && negb (x =? LF) && negb (x =? BSL).

Lemma lex_body_plain q l rest :
  forallb (lexplain q) l = true ->
  lex_body q (l ++ rest) =
  match lex_body q rest with Some (b, r) => Some (l ++ b, r) | None => None end.
Proof.
  induction l as [|a l IH]; cbn [app forallb]; intro H.
  - destruct (lex_body q rest) as [[b r]|]; reflexivity.
  - apply andb_true_iff in H as [Ha Hl]. unfold lexplain in Ha.
    apply andb_true_iff in Ha as [Ha H3]. apply andb_true_iff in Ha as [H1 H2].
    apply negb_true_iff in H1, H2, H3.
    cbn [lex_body]. rewrite H1, H2, H3, (IH Hl).
    destruct (lex_body q rest) as [[b r]|]; reflexivity.
Qed.

Lemma lex_body_esc q d rest :
  q = SQ \/ q = DQ ->
  lex_body q (BSL :: d :: rest) =
  match lex_body q rest with Some (b, r) => Some (BSL :: d :: b, r) | None => None end.
Proof. intros [->| ->]; reflexivity. Qed.

Lemma hexdigits_lexplain q k c :
  q = SQ \/ q = DQ -> forallb (lexplain q) (hexdigits k c) = true.
Proof.
  intro Hq. apply (forallb_impl hexrange); [|apply hexdigits_range].
  unfold hexrange, lexplain. intros x Hx.
  destruct Hq; subst q; unfold SQ, DQ, LF, BSL; b2p; bgoal; lia.
Qed.

Section ReprProofs.
Variable isprint : N -> bool.
Hypothesis isprint_ok :
  forall c, isprint c = true -> is_surrogate c = false /\ (127 < c)%N.

Lemma edec_repr_char q c rest :
  q = SQ \/ q = DQ -> c < MAXCP ->
  edec DN (repr_char isprint q c ++ rest) = rcons c (edec DN rest).
Proof.
  intros Hq H. unfold repr_char.
  destruct ((c =? q) || (c =? BSL)) eqn:E1.
  { cbn [app]. rewrite edec_DN_bsl. apply orb_true_iff in E1.
    destruct E1 as [E|E]; apply N.eqb_eq in E; subst c; [destruct Hq; subst q|]; reflexivity. }
  apply orb_false_iff in E1 as [E0 E1].
  destruct (c =? TAB) eqn:E2; [b2p; subst; reflexivity|].
  destruct (c =? LF) eqn:E3; [b2p; subst; reflexivity|].
  destruct (c =? CR) eqn:E4; [b2p; subst; reflexivity|].
  destruct ((c <? 32) || (c =? 127)) eqn:E5; [cbn [app]; apply edec_x2; b2p; lia|].
  destruct (c <? 127) eqn:E6; [cbn [app]; apply edec_DN_plain; b2p; assumption|].
  destruct (isprint c) eqn:E9; [cbn [app]; apply edec_DN_plain; b2p; assumption|].
  destruct (c <? 256) eqn:E7; [cbn [app]; apply edec_x2; b2p; lia|].
  destruct (c <? 65536) eqn:E8; [cbn [app]; apply edec_u4; b2p; lia|].
  cbn [app]. apply edec_U8. exact H.
Qed.

Lemma edec_repr_body q s rest :
  q = SQ \/ q = DQ -> valid_str s = true ->
  edec DN (flat_map (repr_char isprint q) s ++ rest) =
  match edec DN rest with Ok l => Ok (s ++ l) | Raise e => Raise e end.
Proof.
  intro Hq. induction s as [|c s IH]; intro H.
  - cbn [flat_map app]. destruct (edec DN rest); reflexivity.
  - unfold valid_str in H. cbn [forallb] in H. apply andb_true_iff in H as [Hc Hs].
    cbn [flat_map].
    rewrite <- app_assoc, edec_repr_char by (try apply N.ltb_lt; assumption).
    rewrite (IH Hs). destruct (edec DN rest); reflexivity.
Qed.

Lemma lex_repr_char q c rest :
  q = SQ \/ q = DQ ->
  lex_body q (repr_char isprint q c ++ rest) =
  match lex_body q rest with
  | Some (b, r) => Some (repr_char isprint q c ++ b, r)
  | None => None
  end.
Proof.
  intro Hq.
  assert (Hhex : forall k a, lex_body q (BSL :: a :: hexdigits k c ++ rest) =
     match lex_body q rest with
     | Some (b, r) => Some (BSL :: a :: hexdigits k c ++ b, r) | None => None end).
  { intros k a. rewrite (lex_body_esc _ _ _ Hq), lex_body_plain by (apply hexdigits_lexplain; exact Hq).
    destruct (lex_body q rest) as [[b r]|]; reflexivity. }
  assert (Hplain : (c =? q) || (c =? BSL) = false -> (c =? LF) = false ->
     lex_body q ([c] ++ rest) =
     match lex_body q rest with Some (b, r) => Some ([c] ++ b, r) | None => None end).
  { intros E1 E3. apply orb_false_iff in E1 as [E0 E1]. apply lex_body_plain.
    cbn [forallb]. unfold lexplain. rewrite E0, E1, E3. reflexivity. }
  unfold repr_char.
  destruct ((c =? q) || (c =? BSL)) eqn:E1; [cbn [app]; apply lex_body_esc; exact Hq|].
  destruct (c =? TAB) eqn:E2; [cbn [app]; apply lex_body_esc; exact Hq|].
  destruct (c =? LF) eqn:E3; [cbn [app]; apply lex_body_esc; exact Hq|].
  destruct (c =? CR) eqn:E4; [cbn [app]; apply lex_body_esc; exact Hq|].
  destruct ((c <? 32) || (c =? 127)) eqn:E5; [cbn [app]; apply Hhex|].
  destruct (c <? 127) eqn:E6; [apply Hplain; reflexivity|].
  destruct (isprint c) eqn:E9; [apply Hplain; reflexivity|].
  destruct (c <? 256) eqn:E7; [cbn [app]; apply Hhex|].
  destruct (c <? 65536) eqn:E8; cbn [app]; apply Hhex.
Qed.

Lemma lex_repr_body q s rest :
  q = SQ \/ q = DQ ->
  lex_body q (flat_map (repr_char isprint q) s ++ rest) =
  match lex_body q rest with
  | Some (b, r) => Some (flat_map (repr_char isprint q) s ++ b, r)
  | None => None
  end.
Proof.
  intro Hq. induction s as [|c s IH].
  - cbn [flat_map app]. destruct (lex_body q rest) as [[b r]|]; reflexivity.
  - cbn [flat_map]. rewrite <- app_assoc, (lex_repr_char _ _ _ Hq), IH.
    destruct (lex_body q rest) as [[b r]|]; [rewrite app_assoc|]; reflexivity.
Qed.

Lemma hexdigits_srcok k c : forallb srcok (hexdigits k c) = true.
Proof.
  apply (forallb_impl printable7); [apply srcok_printable7|apply hexdigits_printable].
Qed.

Lemma repr_char_srcok q c :
  q = SQ \/ q = DQ -> c < MAXCP -> forallb srcok (repr_char isprint q c) = true.
Proof.
  intros Hq H. unfold repr_char.
  destruct ((c =? q) || (c =? BSL)) eqn:E1.
  { apply orb_true_iff in E1.
    destruct E1 as [E|E]; apply N.eqb_eq in E; subst c; [destruct Hq; subst q|]; reflexivity. }
  destruct (c =? TAB) eqn:E2; [reflexivity|].
  destruct (c =? LF) eqn:E3; [reflexivity|].
  destruct (c =? CR) eqn:E4; [reflexivity|].
  destruct ((c <? 32) || (c =? 127)) eqn:E5;
    [cbn [forallb]; rewrite hexdigits_srcok; reflexivity|].
  destruct (c <? 127) eqn:E6.
  { cbn [forallb]. rewrite andb_true_r. apply srcok_printable7. unfold printable7.
    b2p. bgoal; lia. }
  destruct (isprint c) eqn:E9.
  { cbn [forallb]. rewrite andb_true_r. destruct (isprint_ok _ E9) as [Hs Hgt].
    apply srcok_intro; [lia|exact Hs|exact H|unfold CR; lia]. }
  destruct (c <? 256) eqn:E7; [cbn [forallb]; rewrite hexdigits_srcok; reflexivity|].
  destruct (c <? 65536) eqn:E8; cbn [forallb]; rewrite hexdigits_srcok; reflexivity.
Qed.

Lemma eval_repr : forall s, valid_str s = true -> py_eval (repr_with isprint s) = Ok s.
Proof.
  intros s Hv. unfold repr_with.
  pose proof (repr_quote_is_quote s) as Hq.
  set (q := repr_quote s) in *. clearbody q.
  set (body := flat_map (repr_char isprint q) s).
  assert (Hok : forallb srcok (q :: body ++ [q]) = true).
  { assert (Hsq : srcok q = true) by (destruct Hq; subst q; reflexivity).
    cbn [forallb]. rewrite forallb_app. cbn [forallb]. rewrite Hsq.
    unfold body. rewrite forallb_flat_map; [reflexivity|].
    intros x Hx. apply repr_char_srcok; [exact Hq|].
    unfold valid_str in Hv. rewrite forallb_forall in Hv. apply N.ltb_lt. apply (Hv x Hx). }
  unfold py_eval. rewrite (srcok_check _ Hok), (srcok_nl _ Hok).
  unfold body. rewrite (lex_repr_body _ _ _ Hq).
  cbn [lex_body]. rewrite N.eqb_refl.
  rewrite (edec_repr_body _ _ _ Hq Hv). cbn [edec]. rewrite app_nil_r. reflexivity.
Qed.

End ReprProofs.

(* ------------------------------------------------------------------ *)
(* the generated printable table satisfies the hypothesis *)
Definition ranges_ok (r : list (N * N)) : bool :=
  forallb (fun p => (127 <? fst p) && (fst p <=? snd p) &&
                    ((snd p <? 55296) || (57343 <? fst p))) r.

Lemma ranges_ok_sound r c :
  ranges_ok r = true -> in_ranges c r = true -> is_surrogate c = false /\ 127 < c.
Proof.
  unfold ranges_ok, in_ranges. rewrite forallb_forall, existsb_exists.
  intros Hall [[a b] [Hin Hp]]. specialize (Hall _ Hin). cbn [fst snd] in *.
  unfold is_surrogate. b2p; (split; [|lia]); apply andb_false_iff;
    [left; apply N.leb_gt; lia|right; apply N.leb_gt; lia].
Qed.

Lemma printable_ranges_ok : ranges_ok gen.T15.PRINTABLE_RANGES = true.
Proof. vm_compute. reflexivity. Qed.

Lemma isprint_hi_ok : forall c, isprint_hi c = true -> is_surrogate c = false /\ (127 < c)%N.
Proof. intros c H. exact (ranges_ok_sound _ _ printable_ranges_ok H). Qed.

Lemma py_eval_repr : forall s, valid_str s = true -> py_eval (py_repr s) = Ok s.
Proof. intros s H. exact (eval_repr isprint_hi isprint_hi_ok s H). Qed.
