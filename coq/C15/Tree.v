(* C15/Tree.v — the registry Value tree (Model.v, Section Tree) refines a
   readable specification: "the settings in force" = the general value plus the
   explicitly set channel / network / network+channel values, resolved by the
   getSpecific three-way rule.  Generic in the value type.

   Hypothesis of the refinement: every value is "round-trip safe"
   (reparse v = Ok v), i.e. building a child from the string form of the parent
   reproduces the parent's value.  tree_unsafe_refuted shows it is needed. *)
From Coq Require Import List NArith ZArith Bool Lia Arith.
Import ListNotations.
Require Import Base.Wire Base.PyStr C15.Model.

(* ------------------------------------------------------------------ *)
(* association lists with a boolean key equality *)
Section Alist.
Variable K : Type.
Variable eqb : K -> K -> bool.
Hypothesis eqb_eq : forall a b, eqb a b = true <-> a = b.
Variable A : Type.

Fixpoint alookup (k : K) (l : list (K * A)) : option A :=
  match l with
  | [] => None
  | (k', v) :: l' => if eqb k k' then Some v else alookup k l'
  end.
Fixpoint aremove (k : K) (l : list (K * A)) : list (K * A) :=
  match l with
  | [] => []
  | (k', v) :: l' => if eqb k k' then aremove k l' else (k', v) :: aremove k l'
  end.
Definition aupdate (k : K) (v : A) (l : list (K * A)) : list (K * A) := (k, v) :: aremove k l.

Lemma eqb_refl k : eqb k k = true.
Proof. apply eqb_eq; reflexivity. Qed.
Lemma eqb_neq a b : a <> b -> eqb a b = false.
Proof. intro H. destruct (eqb a b) eqn:E; [|reflexivity]. apply eqb_eq in E. contradiction. Qed.

Lemma alookup_remove_same k l : alookup k (aremove k l) = None.
Proof.
  induction l as [|[k0 v0] l IH]; simpl; [reflexivity|].
  destruct (eqb k k0) eqn:E; [exact IH|]. simpl. rewrite E. exact IH.
Qed.
Lemma alookup_remove_other k k' l : k' <> k -> alookup k' (aremove k l) = alookup k' l.
Proof.
  intro N. induction l as [|[k0 v0] l IH]; simpl; [reflexivity|].
  destruct (eqb k k0) eqn:E.
  - apply eqb_eq in E. subst k0. rewrite (eqb_neq _ _ N). exact IH.
  - simpl. rewrite IH. reflexivity.
Qed.
Lemma alookup_update_same k v l : alookup k (aupdate k v l) = Some v.
Proof. unfold aupdate; simpl. rewrite eqb_refl. reflexivity. Qed.
Lemma alookup_update_other k k' v l : k' <> k -> alookup k' (aupdate k v l) = alookup k' l.
Proof. intro N. unfold aupdate; simpl. rewrite (eqb_neq _ _ N). apply alookup_remove_other; exact N. Qed.
End Alist.

Definition pair_eqb (a b : str * str) : bool := seq_eqb (fst a) (fst b) && seq_eqb (snd a) (snd b).
Lemma pair_eqb_eq a b : pair_eqb a b = true <-> a = b.
Proof.
  destruct a as [a1 a2], b as [b1 b2]. unfold pair_eqb; simpl. rewrite andb_true_iff, !seq_eqb_eq.
  split; [intros [-> ->]; reflexivity|intro H; inversion H; auto].
Qed.

Definition lookup {A} (k : str) (l : list (str * A)) : option A := alookup str seq_eqb A k l.
Definition remove {A} (k : str) (l : list (str * A)) := aremove str seq_eqb A k l.
Definition update {A} (k : str) (v : A) (l : list (str * A)) := aupdate str seq_eqb A k v l.
Definition lookup2 {A} (k : str * str) (l : list ((str * str) * A)) : option A := alookup (str * str) pair_eqb A k l.
Definition remove2 {A} (k : str * str) (l : list ((str * str) * A)) := aremove (str * str) pair_eqb A k l.
Definition update2 {A} (k : str * str) (v : A) (l : list ((str * str) * A)) := aupdate (str * str) pair_eqb A k v l.

Lemma lookup_remove_same {A} k (l : list (str * A)) : lookup k (remove k l) = None.
Proof. apply alookup_remove_same. Qed.
Lemma lookup_remove_other {A} k k' (l : list (str * A)) : k' <> k -> lookup k' (remove k l) = lookup k' l.
Proof. apply alookup_remove_other, seq_eqb_eq. Qed.
Lemma lookup_update_same {A} k v (l : list (str * A)) : lookup k (update k v l) = Some v.
Proof. apply alookup_update_same, seq_eqb_eq. Qed.
Lemma lookup_update_other {A} k k' v (l : list (str * A)) : k' <> k -> lookup k' (update k v l) = lookup k' l.
Proof. apply alookup_update_other, seq_eqb_eq. Qed.
Lemma lookup2_remove_same {A} k (l : list ((str * str) * A)) : lookup2 k (remove2 k l) = None.
Proof. apply alookup_remove_same. Qed.
Lemma lookup2_remove_other {A} k k' (l : list ((str * str) * A)) : k' <> k -> lookup2 k' (remove2 k l) = lookup2 k' l.
Proof. apply alookup_remove_other, pair_eqb_eq. Qed.
Lemma lookup2_update_same {A} k v (l : list ((str * str) * A)) : lookup2 k (update2 k v l) = Some v.
Proof. apply alookup_update_same, pair_eqb_eq. Qed.
Lemma lookup2_update_other {A} k k' v (l : list ((str * str) * A)) : k' <> k -> lookup2 k' (update2 k v l) = lookup2 k' l.
Proof. apply alookup_update_other, pair_eqb_eq. Qed.

(* ------------------------------------------------------------------ *)
(* Base.PyStr dictionaries *)
Lemma dict_get_set_same {A} k (v : A) d : dict_get k (dict_set k v d) = Some v.
Proof.
  induction d as [|[k0 v0] d IH]; simpl.
  - rewrite seq_eqb_refl. reflexivity.
  - destruct (seq_eqb k k0) eqn:E; simpl; rewrite E; [reflexivity|exact IH].
Qed.
Lemma dict_get_set_other {A} k k' (v : A) d : k' <> k -> dict_get k' (dict_set k v d) = dict_get k' d.
Proof.
  intro N. induction d as [|[k0 v0] d IH]; simpl.
  - apply seq_eqb_neq in N. rewrite N. reflexivity.
  - destruct (seq_eqb k k0) eqn:E; simpl.
    + apply seq_eqb_eq in E. subst k0. apply seq_eqb_neq in N. rewrite N. reflexivity.
    + rewrite IH. reflexivity.
Qed.
Lemma dict_get_app_new {A} k c (v : A) d :
  dict_get k (d ++ [(c, v)]) =
  match dict_get k d with Some x => Some x | None => if seq_eqb k c then Some v else None end.
Proof.
  induction d as [|[k0 v0] d IH]; simpl; [reflexivity|].
  destruct (seq_eqb k k0); [reflexivity|exact IH].
Qed.
Lemma dict_get_map {A B} (f : str * A -> str * B) k d :
  (forall kv, fst (f kv) = fst kv) ->
  dict_get k (map f d) = match dict_get k d with Some v => Some (snd (f (k, v))) | None => None end.
Proof.
  intro Hf. induction d as [|[k0 v0] d IH]; simpl; [reflexivity|].
  destruct (f (k0, v0)) as [k1 v1] eqn:E. pose proof (Hf (k0, v0)) as H. rewrite E in H. simpl in H. subst k1.
  destruct (seq_eqb k k0) eqn:Ek; [|exact IH].
  apply seq_eqb_eq in Ek. subst k0. rewrite E. reflexivity.
Qed.

(* ------------------------------------------------------------------ *)
Section TreeSpec.
Variable V : Type.
Variable reparse : V -> res V.
Variable settext : V -> str -> res V.

(* the settings in force: the general value and the explicitly set specific ones *)
Record spec := mkspec { g : V; sc : list (str * V); sn : list (str * V); snc : list ((str * str) * V) }.

Definition resolve (s : spec) (a : addr) : V :=
  match a with
  | AG => g s
  | AC c => match lookup c (sc s) with Some v => v | None => g s end
  | AN n => match lookup n (sn s) with Some v => v | None => g s end
  | ANC n c => match lookup2 (n, c) (snc s) with
               | Some v => v
               | None => match lookup n (sn s) with
                         | Some v => v
                         | None => match lookup c (sc s) with Some v => v | None => g s end
                         end
               end
  end.

(* record v at address a *)
Definition assign (a : addr) (v : V) (s : spec) : spec :=
  match a with
  | AG => mkspec v (sc s) (sn s) (snc s)
  | AC c => mkspec (g s) (update c v (sc s)) (sn s) (snc s)
  | AN n => mkspec (g s) (sc s) (update n v (sn s)) (snc s)
  | ANC n c => mkspec (g s) (sc s) (sn s) (update2 (n, c) v (snc s))
  end.
(* Config's reset commands *)
Definition forget (a : addr) (s : spec) : spec :=
  match a with
  | AG => s
  | AC c => mkspec (g s) (remove c (sc s)) (sn s) (snc s)
  | AN n => mkspec (g s) (sc s) (remove n (sn s)) (snc s)
  | ANC n c => mkspec (g s) (remove c (sc s)) (sn s) (remove2 (n, c) (snc s))
  end.
(* spec semantics of an operation whose outcome was r *)
Definition spec_step (s : spec) (o : top V) (r : res V) : spec :=
  match o with
  | OSetValue a v => assign a v s
  | OSet a _ => match r with Ok v => assign a v s | Raise _ => s end
  | OReset a => forget a s
  | OGet _ => s
  end.

(* round-trip safe values: child creation reproduces the parent's value *)
Definition safe (v : V) : Prop := reparse v = Ok v.

Definition op_safe (o : top V) : Prop :=
  match o with
  | OSetValue _ v => safe v
  | OSet _ x => forall cur v, settext cur x = Ok v -> safe v
  | _ => True
  end.

(* representation invariant *)
(* a leaf under a parent whose value is par; o = the spec entry for this leaf *)
Definition leaf_ok (par : V) (o : option V) (l : leaf V) : Prop :=
  safe (lv V l) /\
  (lset V l = true -> o = Some (lv V l)) /\
  (lset V l = false -> o = None /\ lv V l = par).
Definition chans_ok (par : V) (look : str -> option V) (d : list (str * leaf V)) : Prop :=
  forall c, match dict_get c d with
            | Some l => leaf_ok par (look c) l
            | None => look c = None
            end.
Definition net_ok (gv : V) (o : option V) (look : str -> option V) (x : netn V) : Prop :=
  safe (nv V x) /\
  (nset V x = true -> o = Some (nv V x)) /\
  (nset V x = false -> o = None /\ nv V x = gv) /\
  chans_ok (nv V x) look (nch V x).
Definition nets_ok (gv : V) (ln : str -> option V) (lnc : str -> str -> option V)
           (d : list (str * netn V)) : Prop :=
  forall n, match dict_get n d with
            | Some x => net_ok gv (ln n) (lnc n) x
            | None => ln n = None /\ forall c, lnc n c = None
            end.
Definition Inv (t : tree V) (s : spec) : Prop :=
  tv V t = g s /\
  safe (g s) /\
  chans_ok (g s) (fun c => lookup c (sc s)) (tch V t) /\
  nets_ok (g s) (fun n => lookup n (sn s)) (fun n c => lookup2 (n, c) (snc s)) (tnet V t).

Lemma Inv_init v : safe v -> Inv (mktree V v [] []) (mkspec v [] [] []).
Proof.
  intro S. unfold Inv; simpl. repeat split; try assumption; intro; reflexivity.
Qed.

(* ---- channel dictionaries ---- *)
Lemma chans_ok_ext par look look' d :
  (forall c, look c = look' c) -> chans_ok par look d -> chans_ok par look' d.
Proof. intros E H c. specialize (H c). rewrite <- E. exact H. Qed.

Lemma chans_ok_add par look d c :
  chans_ok par look d -> dict_get c d = None -> safe par ->
  chans_ok par look (d ++ [(c, mkleaf V par false)]).
Proof.
  intros H N S c'. rewrite dict_get_app_new. pose proof (H c') as Hc'.
  destruct (dict_get c' d) as [l|]; [exact Hc'|].
  destruct (seq_eqb c' c) eqn:E; [|exact Hc'].
  unfold leaf_ok; simpl. split; [exact S|]. split; [discriminate|]. intros _. split; [exact Hc'|reflexivity].
Qed.

Lemma chans_ok_set par look look' d c l :
  chans_ok par look d -> leaf_ok par (look' c) l ->
  (forall c', c' <> c -> look' c' = look c') ->
  chans_ok par look' (dict_set c l d).
Proof.
  intros H L E c'. destruct (seq_eqb c' c) eqn:Ec.
  - apply seq_eqb_eq in Ec. subst c'. rewrite dict_get_set_same. exact L.
  - apply seq_eqb_neq in Ec. rewrite dict_get_set_other by exact Ec. rewrite (E _ Ec). apply H.
Qed.

Lemma chans_ok_prop par look d v :
  chans_ok par look d -> safe v -> chans_ok v look (prop_leaves V v d).
Proof.
  intros H S c. unfold prop_leaves.
  rewrite dict_get_map by (intros [k l]; simpl; destruct (lset V l); reflexivity).
  specialize (H c). destruct (dict_get c d) as [l|]; [|exact H]. simpl.
  destruct H as (H1 & H2 & H3).
  destruct (lset V l) eqn:E; unfold leaf_ok; simpl.
  - split; [exact H1|]. split; [intros _; apply H2; reflexivity|]. rewrite E. discriminate.
  - split; [exact S|]. split; [discriminate|]. intros _. split; [apply H3; reflexivity|reflexivity].
Qed.

(* ---- network dictionaries ---- *)
Lemma net_ok_ext gv o look look' x :
  (forall c, look c = look' c) -> net_ok gv o look x -> net_ok gv o look' x.
Proof.
  intros E (H1 & H2 & H3 & H4). repeat split; auto; try (apply H3; assumption).
  eapply chans_ok_ext; eassumption.
Qed.

Lemma nets_ok_add gv ln lnc d n :
  nets_ok gv ln lnc d -> dict_get n d = None -> safe gv ->
  nets_ok gv ln lnc (d ++ [(n, mknet V gv false [])]).
Proof.
  intros H N S n'. rewrite dict_get_app_new. pose proof (H n') as Hn'.
  destruct (dict_get n' d) as [x|]; [exact Hn'|].
  destruct (seq_eqb n' n) eqn:E; [|exact Hn'].
  destruct Hn' as [Hn1 Hn2].
  unfold net_ok; simpl. split; [exact S|]. split; [discriminate|]. split; [intros _; split; [exact Hn1|reflexivity]|].
  intro c. simpl. apply Hn2.
Qed.

Lemma nets_ok_set gv ln lnc ln' lnc' d n x :
  nets_ok gv ln lnc d -> net_ok gv (ln' n) (lnc' n) x ->
  (forall n', n' <> n -> ln' n' = ln n' /\ forall c, lnc' n' c = lnc n' c) ->
  nets_ok gv ln' lnc' (dict_set n x d).
Proof.
  intros H L E n'. destruct (seq_eqb n' n) eqn:En.
  - apply seq_eqb_eq in En. subst n'. rewrite dict_get_set_same. exact L.
  - apply seq_eqb_neq in En. rewrite dict_get_set_other by exact En.
    destruct (E _ En) as [E1 E2]. specialize (H n'). rewrite E1.
    destruct (dict_get n' d) as [y|].
    + eapply net_ok_ext; [|exact H]. intro c. symmetry. apply E2.
    + destruct H as [Ha Hb]. split; [exact Ha|]. intro c. rewrite E2. apply Hb.
Qed.

Lemma nets_ok_base gv ln lnc d v :
  nets_ok gv ln lnc d -> safe v ->
  nets_ok v ln lnc
    (map (fun kn => if nset V (snd kn) then kn else (fst kn, net_setv V (snd kn) v true)) d).
Proof.
  intros H S n.
  rewrite dict_get_map by (intros [k x]; simpl; destruct (nset V x); reflexivity).
  specialize (H n). destruct (dict_get n d) as [x|]; [|exact H]. simpl.
  destruct H as (H1 & H2 & H3 & H4).
  destruct (nset V x) eqn:E; unfold net_ok; simpl.
  - split; [exact H1|]. split; [intros _; apply H2; reflexivity|]. rewrite E. split; [discriminate|exact H4].
  - split; [exact S|]. split; [discriminate|]. split; [intros _; split; [apply H3; reflexivity|reflexivity]|].
    eapply chans_ok_prop; eassumption.
Qed.

(* ---- node creation on demand ---- *)
Notation lookc s := (fun c => lookup c (sc s)).
Notation lookn s := (fun n => lookup n (sn s)).
Notation looknc s := (fun n c => lookup2 (n, c) (snc s)).

Lemma get_chan_inv t s c : Inv t s ->
  exists t1 l, get_chan V reparse t c = Ok (t1, l) /\ Inv t1 s /\
               dict_get c (tch V t1) = Some l /\ lv V l = resolve s (AC c).
Proof.
  intros (H1 & H2 & H3 & H4). unfold get_chan. pose proof (H3 c) as Hc. simpl in Hc.
  destruct (dict_get c (tch V t)) as [l|] eqn:E.
  - exists t, l. split; [reflexivity|]. split; [repeat split; assumption|]. split; [exact E|].
    simpl. destruct Hc as (L1 & L2 & L3). destruct (lset V l).
    + rewrite L2; reflexivity.
    + destruct L3 as [L3 L4]; [reflexivity|]. rewrite L3. exact L4.
  - rewrite H1. unfold safe in H2. rewrite H2. simpl.
    eexists. eexists. split; [reflexivity|]. split.
    + unfold Inv; simpl. repeat split; try assumption.
      apply chans_ok_add; assumption.
    + simpl. split.
      * rewrite dict_get_app_new, E, seq_eqb_refl. reflexivity.
      * rewrite Hc. reflexivity.
Qed.

Lemma get_net_inv t s n : Inv t s ->
  exists t1 x, get_net V reparse t n = Ok (t1, x) /\ Inv t1 s /\
               net_ok (g s) (lookup n (sn s)) (fun c => lookup2 (n, c) (snc s)) x /\
               (t1 = t \/ dict_get n (tnet V t) = None /\ x = mknet V (g s) false []).
Proof.
  intros (H1 & H2 & H3 & H4). unfold get_net. pose proof (H4 n) as Hn. simpl in Hn.
  destruct (dict_get n (tnet V t)) as [x|] eqn:E.
  - exists t, x. split; [reflexivity|]. split; [repeat split; assumption|]. split; [exact Hn|]. left; reflexivity.
  - rewrite H1. unfold safe in H2. rewrite H2. simpl.
    eexists. eexists. split; [reflexivity|].
    assert (N : nets_ok (g s) (lookn s) (looknc s) (tnet V t ++ [(n, mknet V (g s) false [])])).
    { apply nets_ok_add; assumption. }
    split; [|split].
    + unfold Inv; simpl. repeat split; assumption.
    + specialize (N n). rewrite dict_get_app_new, E, seq_eqb_refl in N. exact N.
    + right. split; reflexivity.
Qed.

Lemma net_get_chan_ok gv o look x c : net_ok gv o look x ->
  exists x1 l, net_get_chan V reparse x c = Ok (x1, l) /\ net_ok gv o look x1 /\
               dict_get c (nch V x1) = Some l /\ nv V x1 = nv V x /\ nset V x1 = nset V x.
Proof.
  intros (H1 & H2 & H3 & H4). unfold net_get_chan. pose proof (H4 c) as Hc.
  destruct (dict_get c (nch V x)) as [l|] eqn:E.
  - exists x, l. split; [reflexivity|]. split; [repeat split; try assumption; apply H3; assumption|]. auto.
  - unfold safe in H1. rewrite H1. simpl.
    eexists. eexists. split; [reflexivity|]. split.
    + unfold net_ok; simpl. split; [exact H1|]. split; [exact H2|]. split; [exact H3|].
      apply chans_ok_add; assumption.
    + simpl. split; [|split; reflexivity].
      rewrite dict_get_app_new, E, seq_eqb_refl. reflexivity.
Qed.

(* ---- storing nodes ---- *)
Lemma put_net_same t s n x : Inv t s ->
  net_ok (g s) (lookup n (sn s)) (fun c => lookup2 (n, c) (snc s)) x -> Inv (put_net V t n x) s.
Proof.
  intros (H1 & H2 & H3 & H4) L. unfold Inv; simpl. repeat split; try assumption.
  eapply nets_ok_set; [exact H4|exact L|]. intros; split; reflexivity.
Qed.

Lemma put_chan_set t s c v : Inv t s -> safe v ->
  Inv (put_chan V t c (mkleaf V v true)) (assign (AC c) v s).
Proof.
  intros (H1 & H2 & H3 & H4) S. unfold Inv; simpl. repeat split; try assumption.
  eapply chans_ok_set; [exact H3| |].
  - unfold leaf_ok; simpl. split; [exact S|]. split; [|discriminate]. intros _. apply lookup_update_same.
  - intros c' N. simpl. apply lookup_update_other; exact N.
Qed.

Lemma put_chan_reset t s c : Inv t s ->
  Inv (put_chan V t c (mkleaf V (g s) false)) (forget (AC c) s).
Proof.
  intros (H1 & H2 & H3 & H4). unfold Inv; simpl. repeat split; try assumption.
  eapply chans_ok_set; [exact H3| |].
  - unfold leaf_ok; simpl. split; [exact H2|]. split; [discriminate|]. intros _. split; [apply lookup_remove_same|reflexivity].
  - intros c' N. simpl. apply lookup_remove_other; exact N.
Qed.

Lemma put_net_set t s n x v : Inv t s ->
  net_ok (g s) (lookup n (sn s)) (fun c => lookup2 (n, c) (snc s)) x -> safe v ->
  Inv (put_net V t n (net_setv V x v false)) (assign (AN n) v s).
Proof.
  intros (H1 & H2 & H3 & H4) (L1 & L2 & L3 & L4) S. unfold Inv; simpl. repeat split; try assumption.
  eapply nets_ok_set; [exact H4| |].
  - unfold net_ok; simpl. split; [exact S|]. split; [intros _; apply lookup_update_same|]. split; [discriminate|].
    eapply chans_ok_prop; eassumption.
  - intros n' N. simpl. split; [apply lookup_update_other; exact N|reflexivity].
Qed.

Lemma put_net_reset t s n x : Inv t s ->
  net_ok (g s) (lookup n (sn s)) (fun c => lookup2 (n, c) (snc s)) x ->
  Inv (put_net V t n (net_setv V x (g s) true)) (forget (AN n) s).
Proof.
  intros (H1 & H2 & H3 & H4) (L1 & L2 & L3 & L4). unfold Inv; simpl. repeat split; try assumption.
  eapply nets_ok_set; [exact H4| |].
  - unfold net_ok; simpl. split; [exact H2|]. split; [discriminate|].
    split; [intros _; split; [apply lookup_remove_same|reflexivity]|].
    eapply chans_ok_prop; eassumption.
  - intros n' N. simpl. split; [apply lookup_remove_other; exact N|reflexivity].
Qed.

Lemma pair_neq_l (n n' c c' : str) : n' <> n -> (n', c') <> (n, c).
Proof. intros N E. inversion E. contradiction. Qed.
Lemma pair_neq_r (n n' c c' : str) : c' <> c -> (n', c') <> (n, c).
Proof. intros N E. inversion E. contradiction. Qed.

Lemma put_netchan_set t s n c x v : Inv t s ->
  net_ok (g s) (lookup n (sn s)) (fun c => lookup2 (n, c) (snc s)) x -> safe v ->
  Inv (put_net V t n (net_put_chan V x c (mkleaf V v true))) (assign (ANC n c) v s).
Proof.
  intros (H1 & H2 & H3 & H4) (L1 & L2 & L3 & L4) S. unfold Inv; simpl. repeat split; try assumption.
  eapply nets_ok_set; [exact H4| |].
  - unfold net_ok; simpl. split; [exact L1|]. split; [exact L2|]. split; [exact L3|].
    eapply chans_ok_set; [exact L4| |].
    + unfold leaf_ok; simpl. split; [exact S|]. split; [|discriminate]. intros _. apply lookup2_update_same.
    + intros c' N. simpl. apply lookup2_update_other. apply pair_neq_r; exact N.
  - intros n' N. simpl. split; [reflexivity|]. intro c'. apply lookup2_update_other. apply pair_neq_l; exact N.
Qed.

Lemma put_netchan_reset t s n c x : Inv t s ->
  net_ok (g s) (lookup n (sn s)) (fun c => lookup2 (n, c) (snc s)) x ->
  Inv (put_net V t n (net_put_chan V x c (mkleaf V (nv V x) false)))
      (mkspec (g s) (sc s) (sn s) (remove2 (n, c) (snc s))).
Proof.
  intros (H1 & H2 & H3 & H4) (L1 & L2 & L3 & L4). unfold Inv; simpl. repeat split; try assumption.
  eapply nets_ok_set; [exact H4| |].
  - unfold net_ok; simpl. split; [exact L1|]. split; [exact L2|]. split; [exact L3|].
    eapply chans_ok_set; [exact L4| |].
    + unfold leaf_ok; simpl. split; [exact L1|]. split; [discriminate|]. intros _.
      split; [apply lookup2_remove_same|reflexivity].
    + intros c' N. simpl. apply lookup2_remove_other. apply pair_neq_r; exact N.
  - intros n' N. simpl. split; [reflexivity|]. intro c'. apply lookup2_remove_other. apply pair_neq_l; exact N.
Qed.

Lemma base_setv_inv t s v : Inv t s -> safe v -> Inv (base_setv V t v) (assign AG v s).
Proof.
  intros (H1 & H2 & H3 & H4) S. unfold Inv; simpl. repeat split; try assumption.
  - eapply chans_ok_prop; eassumption.
  - eapply nets_ok_base; eassumption.
Qed.

(* ---- the operations ---- *)
Lemma get_specific_refines t s a : Inv t s ->
  exists t', get_specific V reparse t a = (t', Ok (resolve s a)) /\ Inv t' s.
Proof.
  intro HI. destruct a as [|c|n|n c]; unfold get_specific.
  - exists t. split; [|exact HI]. destruct HI as (H1 & _). rewrite H1. reflexivity.
  - destruct (get_chan_inv t s c HI) as (t1 & l & E1 & I1 & D & R). rewrite E1, R.
    exists t1. split; [reflexivity|exact I1].
  - destruct (get_net_inv t s n HI) as (t1 & x & E1 & I1 & NX & _). rewrite E1.
    exists t1. split; [|exact I1]. destruct NX as (L1 & L2 & L3 & L4). simpl.
    destruct (nset V x).
    + rewrite L2; reflexivity.
    + destruct L3 as [L3 L5]; [reflexivity|]. rewrite L3, L5. reflexivity.
  - destruct (get_net_inv t s n HI) as (t1 & x & E1 & I1 & NX & _). rewrite E1.
    destruct (net_get_chan_ok _ _ _ x c NX) as (x1 & l & E2 & NX1 & D & Ev & Es). rewrite E2.
    pose proof (put_net_same t1 s n x1 I1 NX1) as I2.
    destruct (get_chan_inv _ s c I2) as (t3 & cl & E3 & I3 & D3 & R3). cbv zeta. rewrite E3.
    exists t3.
    assert (R : (if nset V x1 || lset V l then lv V l else lv V cl) = resolve s (ANC n c)).
    { destruct NX1 as (L1 & L2 & L3 & L4). specialize (L4 c). simpl in L4. rewrite D in L4.
      destruct L4 as (K1 & K2 & K3). simpl.
      destruct (lset V l).
      - rewrite orb_true_r. rewrite K2; reflexivity.
      - destruct K3 as [K3 K4]; [reflexivity|]. rewrite K3, orb_false_r.
        destruct (nset V x1).
        + rewrite L2; [|reflexivity]. exact K4.
        + destruct L3 as [L3 L5]; [reflexivity|]. rewrite L3. exact R3. }
    rewrite <- R. destruct (nset V x1 || lset V l); (split; [reflexivity|exact I3]).
Qed.

Lemma write_set_refines t s a f : Inv t s -> (forall cur v, f cur = Ok v -> safe v) ->
  exists t' cur, write V reparse t a f false = (t', f cur) /\
                 match f cur with Ok v => Inv t' (assign a v s) | Raise _ => Inv t' s end.
Proof.
  intros HI Hf. destruct a as [|c|n|n c]; unfold write, fail.
  - destruct (f (tv V t)) as [v|e] eqn:E.
    + exists (base_setv V t v), (tv V t). rewrite E. split; [reflexivity|]. apply base_setv_inv; eauto.
    + exists t, (tv V t). rewrite E. split; [reflexivity|exact HI].
  - destruct (get_chan_inv t s c HI) as (t1 & l & E1 & I1 & D & R). rewrite E1.
    destruct (f (lv V l)) as [v|e] eqn:E.
    + eexists. exists (lv V l). rewrite E. split; [reflexivity|]. apply put_chan_set; eauto.
    + exists t1, (lv V l). rewrite E. split; [reflexivity|exact I1].
  - destruct (get_net_inv t s n HI) as (t1 & x & E1 & I1 & NX & _). rewrite E1.
    destruct (f (nv V x)) as [v|e] eqn:E.
    + eexists. exists (nv V x). rewrite E. split; [reflexivity|]. apply put_net_set; eauto.
    + exists t1, (nv V x). rewrite E. split; [reflexivity|exact I1].
  - destruct (get_net_inv t s n HI) as (t1 & x & E1 & I1 & NX & _). rewrite E1.
    destruct (net_get_chan_ok _ _ _ x c NX) as (x1 & l & E2 & NX1 & D & Ev & Es). rewrite E2. cbv zeta.
    destruct (f (lv V l)) as [v|e] eqn:E.
    + eexists. exists (lv V l). rewrite E. split; [reflexivity|]. apply put_netchan_set; eauto.
    + eexists. exists (lv V l). rewrite E. split; [reflexivity|]. apply put_net_same; assumption.
Qed.

Lemma reset_chan_refines t s c : Inv t s ->
  exists t', write V reparse t (AC c) (fun _ => Ok (tv V t)) true = (t', Ok (tv V t)) /\
             Inv t' (forget (AC c) s).
Proof.
  intro HI. unfold write.
  destruct (get_chan_inv t s c HI) as (t1 & l & E1 & I1 & D & R). rewrite E1.
  eexists. split; [reflexivity|]. simpl negb.
  destruct HI as (H1 & _). rewrite H1. apply put_chan_reset; exact I1.
Qed.

Lemma reset_net_refines t s n : Inv t s ->
  exists t', write V reparse t (AN n) (fun _ => Ok (tv V t)) true = (t', Ok (tv V t)) /\
             Inv t' (forget (AN n) s).
Proof.
  intro HI. unfold write.
  destruct (get_net_inv t s n HI) as (t1 & x & E1 & I1 & NX & _). rewrite E1.
  eexists. split; [reflexivity|].
  destruct HI as (H1 & _). rewrite H1. apply put_net_reset; assumption.
Qed.

Lemma reset_netchan_refines t s n c : Inv t s ->
  exists t', step V reparse settext t (OReset (ANC n c)) = (t', Ok (tv V t)) /\
             Inv t' (forget (ANC n c) s).
Proof.
  intro HI. unfold step, write at 1.
  destruct (get_net_inv t s n HI) as (t1 & x & E1 & I1 & NX & _). rewrite E1.
  destruct (net_get_chan_ok _ _ _ x c NX) as (x1 & l & E2 & NX1 & D & Ev & Es). rewrite E2. cbv zeta.
  simpl negb. rewrite <- Ev.
  pose proof (put_netchan_reset t1 s n c x1 I1 NX1) as I2.
  destruct (reset_chan_refines _ _ c I2) as (t' & E3 & I3).
  rewrite E3. exists t'. split; [|exact I3].
  simpl. destruct I1 as (K1 & _). destruct HI as (H1 & _). rewrite K1, H1. reflexivity.
Qed.

Lemma step_cases t s o : Inv t s -> op_safe o ->
  exists t' r, step V reparse settext t o = (t', r) /\
               Inv t' (spec_step s o r) /\
               match o with
               | OGet a => r = Ok (resolve s a)
               | OSetValue a v => r = Ok v
               | OReset a => exists v, r = Ok v
               | OSet a x => True
               end.
Proof.
  intros HI HS. destruct o as [a x|a v|a|a].
  - destruct (write_set_refines t s a (fun cur => settext cur x) HI HS) as (t' & cur & E & I').
    exists t', (settext cur x). split; [exact E|]. split; [|exact Logic.I].
    simpl. destruct (settext cur x); exact I'.
  - destruct (write_set_refines t s a (fun _ => Ok v) HI) as (t' & cur & E & I').
    { intros _ v' E. inversion E. subst v'. exact HS. }
    exists t', (Ok v). split; [exact E|]. split; [exact I'|reflexivity].
  - destruct a as [|c|n|n c].
    + exists t, (Ok (tv V t)). split; [reflexivity|]. split; [exact HI|]. eexists; reflexivity.
    + destruct (reset_chan_refines t s c HI) as (t' & E & I').
      exists t', (Ok (tv V t)). split; [exact E|]. split; [exact I'|]. eexists; reflexivity.
    + destruct (reset_net_refines t s n HI) as (t' & E & I').
      exists t', (Ok (tv V t)). split; [exact E|]. split; [exact I'|]. eexists; reflexivity.
    + destruct (reset_netchan_refines t s n c HI) as (t' & E & I').
      exists t', (Ok (tv V t)). split; [exact E|]. split; [exact I'|]. eexists; reflexivity.
  - destruct (get_specific_refines t s a HI) as (t' & E & I').
    exists t', (Ok (resolve s a)). split; [exact E|]. split; [exact I'|reflexivity].
Qed.

Theorem step_refines : forall t s o, Inv t s -> op_safe o ->
  let '(t', r) := step V reparse settext t o in
  Inv t' (spec_step s o r) /\
  (forall a, o = OGet a -> r = Ok (resolve s a)) /\
  (forall a v, o = OSetValue a v -> r = Ok v) /\
  (forall a, o = OReset a -> exists v, r = Ok v) /\
  (forall a x e, o = OSet a x -> r = Raise e -> forall b, resolve (spec_step s o r) b = resolve s b).
Proof.
  intros t s o HI HS. destruct (step_cases t s o HI HS) as (t' & r & E & I' & C). rewrite E.
  split; [exact I'|]. split; [|split; [|split]].
  - intros a ->. exact C.
  - intros a v ->. exact C.
  - intros a ->. exact C.
  - intros a x e -> -> b. reflexivity.
Qed.

(* ---- histories ---- *)
(* the spec state after a history whose outcomes were rs *)
Fixpoint spec_run (s : spec) (ops : list (top V)) (rs : list (res V)) : spec :=
  match ops, rs with
  | o :: ops', r :: rs' => spec_run (spec_step s o r) ops' rs'
  | _, _ => s
  end.
(* what the spec says about the outcome of one operation *)
Definition outcome_ok (s : spec) (o : top V) (r : res V) : Prop :=
  match o with
  | OGet a => r = Ok (resolve s a)
  | OSetValue _ v => r = Ok v
  | OReset _ => exists v, r = Ok v
  | OSet _ _ => forall e, r = Raise e -> forall b, resolve (spec_step s o r) b = resolve s b
  end.
Fixpoint history_ok (s : spec) (ops : list (top V)) (rs : list (res V)) : Prop :=
  match ops, rs with
  | [], [] => True
  | o :: ops', r :: rs' => outcome_ok s o r /\ history_ok (spec_step s o r) ops' rs'
  | _, _ => False
  end.
(* the outcomes with every OGet outcome replaced by the spec's answer *)
Fixpoint spec_outs (s : spec) (ops : list (top V)) (rs : list (res V)) : list (res V) :=
  match ops, rs with
  | o :: ops', r :: rs' =>
      match o with OGet a => Ok (resolve s a) | _ => r end :: spec_outs (spec_step s o r) ops' rs'
  | _, _ => []
  end.

Corollary run_refines : forall ops t s, Inv t s -> Forall op_safe ops ->
  let '(t', rs) := run_ops V reparse settext t ops in
  Inv t' (spec_run s ops rs) /\ history_ok s ops rs.
Proof.
  induction ops as [|o ops IH]; intros t s HI HS; simpl.
  - split; [exact HI|exact Logic.I].
  - inversion HS as [|o' ops' HS1 HS2]; subst.
    destruct (step_cases t s o HI HS1) as (t1 & r & E & I1 & C). rewrite E.
    specialize (IH t1 (spec_step s o r) I1 HS2).
    destruct (run_ops V reparse settext t1 ops) as [t2 rs]. destruct IH as [IH1 IH2].
    split; [exact IH1|]. split; [|exact IH2].
    destruct o; simpl; try exact C. intros e -> b. reflexivity.
Qed.

(* every OGet outcome of the history is `resolve` of the spec state at that point *)
Corollary run_refines_gets : forall ops t s, Inv t s -> Forall op_safe ops ->
  let rs := snd (run_ops V reparse settext t ops) in
  forall i a, nth_error ops i = Some (OGet a) ->
              nth_error rs i = Some (Ok (resolve (spec_run s (firstn i ops) (firstn i rs)) a)).
Proof.
  induction ops as [|o ops IH]; intros t s HI HS; simpl; intros i a Hi.
  - destruct i; discriminate.
  - inversion HS as [|o' ops' HS1 HS2]; subst.
    destruct (step_cases t s o HI HS1) as (t1 & r & E & I1 & C). rewrite E.
    specialize (IH t1 (spec_step s o r) I1 HS2). simpl in IH.
    destruct (run_ops V reparse settext t1 ops) as [t2 rs]. simpl in *.
    destruct i as [|i]; simpl in *.
    + inversion Hi; subst o. rewrite C. reflexivity.
    + apply IH. exact Hi.
Qed.

Corollary run_refines_outs : forall ops t s, Inv t s -> Forall op_safe ops ->
  let rs := snd (run_ops V reparse settext t ops) in rs = spec_outs s ops rs.
Proof.
  induction ops as [|o ops IH]; intros t s HI HS; simpl; [reflexivity|].
  inversion HS as [|o' ops' HS1 HS2]; subst.
  destruct (step_cases t s o HI HS1) as (t1 & r & E & I1 & C). rewrite E.
  specialize (IH t1 (spec_step s o r) I1 HS2). simpl in IH.
  destruct (run_ops V reparse settext t1 ops) as [t2 rs]. simpl in *.
  f_equal; [|exact IH]. destruct o; try reflexivity. exact C.
Qed.

(* the values in force are safe (so the spec side of Inv needs no separate clause) *)
Lemma Inv_spec_safe t s : Inv t s -> forall b, safe (resolve s b).
Proof.
  intros HI b. destruct (get_specific_refines t s b HI) as (t' & _ & (H1 & H2 & H3 & H4)).
  assert (SC : forall c, safe (resolve s (AC c))).
  { intro c. simpl. specialize (H3 c). simpl in H3. destruct (lookup c (sc s)) as [v|] eqn:E; [|exact H2].
    destruct (dict_get c (tch V t')) as [l|]; [|discriminate].
    destruct H3 as (K1 & K2 & K3). destruct (lset V l).
    - specialize (K2 eq_refl). inversion K2; subst. exact K1.
    - destruct K3 as [K3 _]; [reflexivity|discriminate]. }
  destruct b as [|c|n|n c]; [exact H2|apply SC| |].
  - simpl. specialize (H4 n). simpl in H4. destruct (lookup n (sn s)) as [v|] eqn:E; [|exact H2].
    destruct (dict_get n (tnet V t')) as [x|]; [|destruct H4; discriminate].
    destruct H4 as (K1 & K2 & K3 & _). destruct (nset V x).
    + specialize (K2 eq_refl). inversion K2; subst. exact K1.
    + destruct K3 as [K3 _]; [reflexivity|discriminate].
  - simpl. specialize (H4 n). simpl in H4.
    destruct (lookup2 (n, c) (snc s)) as [w|] eqn:E2.
    + destruct (dict_get n (tnet V t')) as [x|]; [|destruct H4 as [_ H4]; rewrite H4 in E2; discriminate].
      destruct H4 as (_ & _ & _ & K4). specialize (K4 c). simpl in K4. rewrite E2 in K4.
      destruct (dict_get c (nch V x)) as [l|]; [|discriminate].
      destruct K4 as (K1 & K2 & K3). destruct (lset V l).
      * specialize (K2 eq_refl). inversion K2; subst. exact K1.
      * destruct K3 as [K3 _]; [reflexivity|discriminate].
    + destruct (lookup n (sn s)) as [v|] eqn:E; [|apply SC].
      destruct (dict_get n (tnet V t')) as [x|]; [|destruct H4; discriminate].
      destruct H4 as (K1 & K2 & K3 & _). destruct (nset V x).
      * specialize (K2 eq_refl). inversion K2; subst. exact K1.
      * destruct K3 as [K3 _]; [reflexivity|discriminate].
Qed.

End TreeSpec.

(* ------------------------------------------------------------------ *)
(* the safety hypothesis is needed.  With reparse := Ok every value is safe, so
   [Inv V Ok t s] is exactly "Inv without the safety clauses". *)
Lemma safe_Ok (V : Type) (v : V) : safe V (fun x => Ok x) v.
Proof. reflexivity. Qed.

Definition c1 : str := [35; 97]%N.   (* #a *)
Definition c2 : str := [35; 98]%N.   (* #b *)
Definition n1 : str := [110]%N.      (* n *)

(* reparse changes the value: the child made on demand does not carry the general value *)
Lemma tree_unsafe_refuted :
  exists (t : tree nat) (s : spec nat) (c : str),
    Inv nat (fun v => Ok v) t s /\
    snd (step nat (fun v => Ok (S v)) (fun _ _ => Ok 7%nat) t (OGet (AC c)))
    <> Ok (resolve nat s (AC c)).
Proof.
  exists (mktree nat 0%nat [] []), (mkspec nat 0%nat [] [] []), c1.
  split; [apply Inv_init, safe_Ok|]. vm_compute. discriminate.
Qed.

(* reparse rejects the string form of the parent: reading a specific value raises *)
Lemma tree_unsafe_refuted_raise :
  exists (t : tree nat) (s : spec nat) (c : str),
    Inv nat (fun v => Ok v) t s /\
    snd (step nat (fun _ => Raise InvalidRegistryValue) (fun _ _ => Ok 7%nat) t (OGet (AC c)))
    <> Ok (resolve nat s (AC c)).
Proof.
  exists (mktree nat 0%nat [] []), (mkspec nat 0%nat [] [] []), c1.
  split; [apply Inv_init, safe_Ok|]. vm_compute. discriminate.
Qed.

(* non-vacuity: a concrete history *)
Definition ex_ops : list (top nat) :=
  [ OGet (AC c1); OSetValue (AC c1) 3%nat; OSetValue AG 5%nat; OGet (AC c1); OGet (AC c2);
    OGet (ANC n1 c1); OGet (ANC n1 c2); OSetValue (AN n1) 4%nat; OGet (ANC n1 c1); OGet (ANC n1 c2);
    OSet (ANC n1 c1) []; OGet (ANC n1 c1); OGet (ANC n1 c2); OReset (ANC n1 c1); OGet (ANC n1 c1);
    OGet (AC c1); OReset (AN n1); OGet (ANC n1 c1); OSetValue AG 6%nat; OGet (ANC n1 c2); OGet (AN n1) ].

Example tree_example :
  let reparse := fun v : nat => Ok v in
  let settext := fun (_ : nat) (_ : str) => Ok 7%nat in
  let t0 := mktree nat 1%nat [] [] in
  let s0 := mkspec nat 1%nat [] [] [] in
  let rs := snd (run_ops nat reparse settext t0 ex_ops) in
  Inv nat reparse t0 s0 /\ Forall (op_safe nat reparse settext) ex_ops /\
  rs = [ Ok 1; Ok 3; Ok 5; Ok 3; Ok 5;
         Ok 3; Ok 5; Ok 4; Ok 4; Ok 4;
         Ok 7; Ok 7; Ok 4; Ok 5; Ok 4;
         Ok 5; Ok 5; Ok 5; Ok 6; Ok 6; Ok 6 ]%nat /\
  rs = spec_outs nat s0 ex_ops rs.
Proof.
  cbv zeta. split; [apply Inv_init, safe_Ok|]. split.
  - unfold ex_ops. repeat constructor; intros; apply safe_Ok.
  - split; vm_compute; reflexivity.
Qed.
