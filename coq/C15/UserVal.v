(* C15/UserVal.v -- user-specific values: the cache scan of conf.registerUserValue finds <var>.<user id>. *)
From Coq Require Import List NArith ZArith Bool Arith Lia.
Import ListNotations.
Require Import Base.Wire Base.PyStr C15.Model C15.Lemmas C15.Gen.
Open Scope N_scope.

Lemma scan_user_own g id : vstr id = true -> is_userid id = true ->
  scan_key_user g (g ++ DOT :: escape id) = Ok [[id]].
Proof. intros Hv Hi. unfold scan_key_user. rewrite match_key_ext, (split_one id Hv). cbn [bind]. rewrite Hi. reflexivity. Qed.

Lemma scan_user_base g : scan_key_user g g = Ok [].
Proof. unfold scan_key_user, match_key. rewrite Nat.ltb_irrefl, andb_false_r. reflexivity. Qed.

(* a user value survives save / restart / flush: the lines saved for a variable with two user values are loaded
   (nothing is read) and saved again as the same lines *)
Definition ex_ud : decl := mkdecl [[117]; [103]] FGlobal KString (PS [100]).          (* u.g, default "d" *)
Definition ex_ulines : list (str * str) :=
  [(join_names [[117]; [103]], [100]); (join_names [[117]; [103]; [52; 50]], [104; 105]); (join_names [[117]; [103]; [55]], [SQ; DQ; SQ])].
Example user_values_survive_restart_partial :
  match load_user_var ex_ud (cache_of ex_ulines) with
  | Ok st => save_var ex_ud st = ex_ulines /\
             map (fun e => fst (snd e)) (vnodes st) = [PS [104; 105]; PS [DQ]] /\
             forallb (fun e => snd (snd e)) (vnodes st) = true
  | Raise _ => False
  end.
Proof. vm_compute. repeat split. Qed.

(* without the scan (the tree before the repair: FGlobal registers no child) the same file is saved without them *)
Example user_values_dropped_without_scan :
  match load_var ex_ud (cache_of ex_ulines) with
  | Ok st => save_var ex_ud st = [(join_names [[117]; [103]], [100])]
  | Raise _ => False
  end.
Proof. vm_compute. reflexivity. Qed.
