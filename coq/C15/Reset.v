(* C15/Reset.v — timestamps: a specific value that has been reset (node._setValue(parent.value,
   inherited=True)) keeps following its parent: because _setValue refreshes the node's timestamp,
   the lazy reload of Value.__call__ does not re-apply the text kept in registry._cache. *)
From Coq Require Import List NArith ZArith Bool Arith Lia.
Import ListNotations.
Require Import Base.Wire Base.PyStr C15.Model C15.Gen.

Lemma tn_get_put_same p x l : tn_get p (tn_put p x l) = Some x.
Proof.
  induction l as [|[q y] l IH]; cbn [tn_put tn_get].
  - rewrite path_eqb_refl. reflexivity.
  - destruct (path_eqb p q) eqn:E; cbn [tn_get]; rewrite E; [reflexivity|exact IH].
Qed.

Lemma tn_get_map p (g : path * tnode -> path * tnode) l :
  (forall e, fst (g e) = fst e) ->
  (forall e, path_eqb p (fst e) = true -> g e = e) ->
  tn_get p (map g l) = tn_get p l.
Proof.
  intros Hk Hid. induction l as [|[q y] l IH]; [reflexivity|].
  cbn [map]. destruct (path_eqb p q) eqn:E.
  - rewrite (Hid (q, y) E). cbn [tn_get]. rewrite E. reflexivity.
  - destruct (g (q, y)) as [q' y'] eqn:Eg. pose proof (Hk (q, y)) as H. rewrite Eg in H. cbn [fst] in H. subst q'.
    cbn [tn_get]. rewrite E. exact IH.
Qed.

(* a node never pushes its value to a node with its own path *)
Lemma follows_self tv p q : p <> [] -> path_eqb p q = true -> follows tv p q = false.
Proof.
  intros Hp H. destruct p as [|a [|b [|c p']]]; [congruence| | |]; destruct q as [|x [|y [|z q']]];
    try reflexivity; cbn in H; rewrite ?andb_false_r in H; discriminate.
Qed.

Section Reset.
Variables (d : decl) (C : cache).

Lemma setvalue_node tv p v inh now : p <> [] ->
  tn_get p (tv_nodes (t_setvalue tv p v inh now)) = Some (mktn v (negb inh) now).
Proof.
  intro Hp. unfold t_setvalue. destruct p as [|a p']; [congruence|]. cbn [tv_nodes].
  rewrite tn_get_map.
  - apply tn_get_put_same.
  - intro e. destruct (follows tv (a :: p') (fst e)); reflexivity.
  - intros e He. rewrite (follows_self tv (a :: p') (fst e)) by (try discriminate; exact He). reflexivity.
Qed.

(* THE THEOREM.  After a reset of node p at instant [now] (not before the last open_registry: glm <= now),
   the node is unset, holds the parent's value v, and reading it later -- whatever registry._cache
   still says about its name -- returns v and changes nothing. *)
Theorem reset_stays_reset tv p v now now2 glm :
  p <> [] -> (glm <= now)%nat ->
  let tv1 := t_setvalue tv p v true now in
  t_flag tv1 p = false /\ t_val tv1 p = v /\ tcall d C glm now2 tv1 p = Ok (tv1, v).
Proof.
  intros Hp Hg tv1. pose proof (setvalue_node tv p v true now Hp) as Hn. fold tv1 in Hn.
  assert (Hf : t_flag tv1 p = false) by (unfold t_flag; rewrite Hn; reflexivity).
  assert (Hv : t_val tv1 p = v).
  { unfold t_val. destruct p; [congruence|]. rewrite Hn. reflexivity. }
  assert (Hl : t_lm tv1 p = now).
  { unfold t_lm. destruct p; [congruence|]. rewrite Hn. reflexivity. }
  repeat split; try assumption.
  unfold tcall. rewrite Hl. assert (E : Nat.ltb now glm = false) by (apply Nat.ltb_ge; exact Hg).
  rewrite E, Hv. reflexivity.
Qed.
End Reset.

(* why the timestamp must be refreshed by an inherited _setValue too: a node whose timestamp is older
   than the last open_registry and whose name is still in the cache is set again by the next read *)
Definition ex_rd : decl := mkdecl [[118]] FChannel (KInteger None) (PI Z0).
Definition ex_rcache : cache := [(join_names [[118]; [35; 97]], [51; 51])].           (* v.#a: 33 *)
Definition ex_rstale : tvar := mktv (PI (Zpos 20)) 5 [([[35; 97]], mktn (PI (Zpos 20)) false 2)].  (* reset, but timestamp 2 < glm 3 *)
Example stale_timestamp_resurrects :
  match tcall ex_rd ex_rcache 3 6 ex_rstale [[35; 97]] with
  | Ok (tv, v) => v = PI (Zpos 33) /\ t_flag tv [[35; 97]] = true
  | Raise _ => False
  end.
Proof. vm_compute. split; reflexivity. Qed.

(* the seeded scenario end to end: the file has v.#a: 33; the running bot re-reads it, the channel value is
   reset, the general value changes, the channel value is read; then restart.  The channel value follows
   the general one and its line is gone from both saved files *)
Example reload_reset_history :
  tgenerations [ex_rd] []
    [[TSet 0 AG [50; 48]; TSet 0 (AC [35; 97]) [51; 51]];
     [TReload; TReset 0 (AC [35; 97]); TSet 0 AG [55]; TRead 0 (AC [35; 97])];
     [TRead 0 (AC [35; 97])]]
  = [Ok ([([118], [50; 48]); (join_names [[118]; [35; 97]], [51; 51])], []);
     Ok ([([118], [55])], [PI (Zpos 7)]);
     Ok ([([118], [55])], [PI (Zpos 7)])].
Proof. vm_compute. reflexivity. Qed.
