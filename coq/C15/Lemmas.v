(* C15/Lemmas.v — value-level round trips: Boolean, Integer family, space-separated
   lists, String (given the repr/eval lemma), and their refutations. *)
From Coq Require Import List NArith ZArith Bool Lia ZifyBool Arith.
From Coq Require Decimal DecimalZ DecimalPos.
Import ListNotations.
Require Import Base.Wire Base.PyStr C15.Model.
Open Scope N_scope.

Definition vstr (s : str) : bool := forallb (fun c => c <? MAXCP) s.

(* ------------------------------------------------------------------ *)
(* whitespace facts from the regenerated table *)
Definition nows (s : str) : bool := forallb (fun c => negb (isspace c)) s.

Lemma lstrip_nows c s : isspace c = false -> lstrip_ws (c :: s) = c :: s.
Proof. intro H. unfold lstrip_ws. cbn [lstrip]. unfold isspace in H. rewrite H. reflexivity. Qed.

Lemma strip_ws_id s :
  match s with [] => True | c :: _ => isspace c = false end ->
  match last_char s with Some c => isspace c = false | None => True end ->
  strip_ws s = s.
Proof.
  intros Hf Hl. unfold strip_ws, strip.
  assert (E : lstrip gen.T15.WHITESPACE s = s).
  { destruct s as [|c s]; [reflexivity|]. apply lstrip_nows. exact Hf. }
  rewrite E. apply rstrip_id. exact Hl.
Qed.

Lemma last_char_cons_in c s d : last_char (c :: s) = Some d -> In d (c :: s).
Proof.
  unfold last_char. intro H. destruct (rev (c :: s)) as [|x r] eqn:E; [discriminate|].
  inversion H; subst. apply in_rev. rewrite E. left. reflexivity.
Qed.

Lemma strip_ws_nows s : nows s = true -> strip_ws s = s.
Proof.
  intro H. unfold nows in H. rewrite forallb_forall in H.
  apply strip_ws_id.
  - destruct s as [|c s]; [trivial|]. specialize (H c (or_introl eq_refl)).
    destruct (isspace c); [discriminate|reflexivity].
  - destruct s as [|c s]; [exact Logic.I|].
    destruct (last_char (c :: s)) as [d|] eqn:E; [|exact Logic.I].
    apply last_char_cons_in in E. specialize (H d E). destruct (isspace d); [discriminate|reflexivity].
Qed.

(* ------------------------------------------------------------------ *)
(* Boolean *)
Lemma bool_roundtrip : forall (b : bool) (cur : pv) (oks : list bool),
  hd_ok oks = true ->
  set_text KBoolean cur oks (str_of KBoolean (PB b)) = Ok (PB b).
Proof.
  intros b cur oks H. destruct b.
  - unfold set_text. cbn [str_of].
    replace (lower (strip_ws [84; 114; 117; 101])) with [116; 114; 117; 101] by (vm_compute; reflexivity).
    replace (existsb (seq_eqb [116; 114; 117; 101]) gen.T15.TRUE_WORDS) with true by (vm_compute; reflexivity).
    unfold set_value. rewrite H. reflexivity.
  - unfold set_text. cbn [str_of].
    replace (lower (strip_ws [70; 97; 108; 115; 101])) with [102; 97; 108; 115; 101] by (vm_compute; reflexivity).
    replace (existsb (seq_eqb [102; 97; 108; 115; 101]) gen.T15.TRUE_WORDS) with false by (vm_compute; reflexivity).
    replace (existsb (seq_eqb [102; 97; 108; 115; 101]) gen.T15.FALSE_WORDS) with true by (vm_compute; reflexivity).
    unfold set_value. rewrite H. reflexivity.
Qed.

(* ------------------------------------------------------------------ *)
(* Integer: int(repr(z)) = z *)
Definition isdig (c : N) : bool := (48 <=? c) && (c <=? 57).

Lemma uint_str_digits u : forallb isdig (uint_str u) = true.
Proof. induction u; cbn [uint_str forallb]; try reflexivity; rewrite IHu; reflexivity. Qed.

Lemma digit_table_nows : forallb (fun c => negb (isspace c)) [45; 48; 49; 50; 51; 52; 53; 54; 55; 56; 57] = true.
Proof. vm_compute. reflexivity. Qed.

Lemma isdig_cases c : isdig c = true ->
  c = 48 \/ c = 49 \/ c = 50 \/ c = 51 \/ c = 52 \/ c = 53 \/ c = 54 \/ c = 55 \/ c = 56 \/ c = 57.
Proof. unfold isdig. intro H. lia. Qed.

Lemma isdig_nows c : isdig c = true -> isspace c = false.
Proof.
  intro H. pose proof digit_table_nows as T. rewrite forallb_forall in T.
  assert (In c [45; 48; 49; 50; 51; 52; 53; 54; 55; 56; 57]).
  { apply isdig_cases in H. cbn [In]. intuition. }
  specialize (T c H0). destruct (isspace c); [discriminate|reflexivity].
Qed.

Lemma digits_nows s : forallb isdig s = true -> nows s = true.
Proof.
  unfold nows. intro H. rewrite forallb_forall in *. intros c Hc.
  rewrite (isdig_nows c (H c Hc)). reflexivity.
Qed.

Lemma digits_ascii s : forallb isdig s = true -> is_ascii s = true.
Proof.
  unfold is_ascii. intro H. rewrite forallb_forall in *. intros c Hc.
  specialize (H c Hc). unfold isdig in H. lia.
Qed.

Lemma pdig_uint_str u b : (u <> Decimal.Nil \/ b = true) -> pdig b (uint_str u) = Some u.
Proof.
  revert b. induction u; intros b H; cbn [uint_str pdig];
    try (change (_ =? USCORE) with false; cbv beta iota; unfold digit; cbn [N.eqb Pos.eqb];
         rewrite IHu by (right; reflexivity); reflexivity).
  destruct H as [H|H]; [congruence|]. rewrite H. reflexivity.
Qed.

Lemma uint_str_nonnil u : u <> Decimal.Nil -> exists c s, uint_str u = c :: s /\ isdig c = true.
Proof. destruct u; intro H; try congruence; cbn [uint_str]; eexists; eexists; split; reflexivity. Qed.

Lemma parse_int_Z_str z : parse_int (Z_str z) = Ok z.
Proof.
  unfold Z_str. pose proof (DecimalZ.of_to z) as OT.
  destruct (Z.to_int z) as [u|u] eqn:E.
  - assert (Hn : u <> Decimal.Nil).
    { destruct z; cbn in E; inversion E; subst; try discriminate; apply DecimalPos.Unsigned.to_uint_nonnil. }
    unfold parse_int.
    rewrite (strip_ws_nows _ (digits_nows _ (uint_str_digits u))).
    rewrite (digits_ascii _ (uint_str_digits u)). cbn [negb].
    destruct (uint_str_nonnil u Hn) as [c [s [Es Hc]]].
    assert (Hsign : (c =? 45) = false /\ (c =? 43) = false) by (unfold isdig in Hc; lia).
    destruct Hsign as [H1 H2].
    rewrite Es. rewrite H1, H2. rewrite <- Es.
    rewrite pdig_uint_str by (left; exact Hn). rewrite OT. reflexivity.
  - assert (Hn : u <> Decimal.Nil).
    { destruct z; cbn in E; inversion E; subst; apply DecimalPos.Unsigned.to_uint_nonnil. }
    unfold parse_int.
    assert (Hnw : nows (45 :: uint_str u) = true).
    { unfold nows. cbn [forallb]. fold (nows (uint_str u)).
      rewrite (digits_nows _ (uint_str_digits u)).
      replace (isspace 45) with false by (vm_compute; reflexivity). reflexivity. }
    rewrite (strip_ws_nows _ Hnw).
    assert (Ha : is_ascii (45 :: uint_str u) = true).
    { unfold is_ascii. cbn [forallb]. fold (is_ascii (uint_str u)).
      rewrite (digits_ascii _ (uint_str_digits u)). reflexivity. }
    rewrite Ha. cbn [negb].
    replace (45 =? 45) with true by reflexivity. cbv beta iota.
    rewrite pdig_uint_str by (left; exact Hn). rewrite OT. reflexivity.
Qed.

(* the value the class accepts (its own lower bound holds) survives str / set *)
Definition int_accepts (lo : option Z) (z : Z) : bool :=
  match lo with Some l => negb (z <? l)%Z | None => true end.

Lemma int_roundtrip : forall lo z cur oks,
  hd_ok oks = true -> int_accepts lo z = true ->
  set_text (KInteger lo) cur oks (str_of (KInteger lo) (PI z)) = Ok (PI z).
Proof.
  intros lo z cur oks Ho Ha. unfold set_text. cbn [str_of]. rewrite parse_int_Z_str.
  unfold set_value. rewrite Ho. cbn [negb]. destruct lo as [l|]; [|reflexivity].
  unfold int_accepts in Ha. destruct (z <? l)%Z; [discriminate|reflexivity].
Qed.

Lemma int_rejects_below : forall l z cur oks,
  (z < l)%Z -> set_text (KInteger (Some l)) cur oks (Z_str z) = Raise InvalidRegistryValue.
Proof.
  intros l z cur oks H. unfold set_text. rewrite parse_int_Z_str. unfold set_value.
  destruct (negb (hd_ok oks)); [reflexivity|].
  assert ((z <? l)%Z = true) by lia. rewrite H0. reflexivity.
Qed.

(* ------------------------------------------------------------------ *)
(* s.split() of ' '.join(tokens) *)
Definition tok_ok (t : str) : bool := nonempty t && nows t.

Lemma sw_token t : nows t = true -> sw t = (t, []).
Proof.
  induction t as [|c t IH]; intro H; [reflexivity|].
  unfold nows in H. cbn [forallb] in H. apply andb_true_iff in H as [Hc Ht].
  cbn [sw]. rewrite (IH Ht). destruct (isspace c); [discriminate|reflexivity].
Qed.

Lemma sw_app_space t rest : nows t = true ->
  sw (t ++ SP :: rest) = (t, let '(u, us) := sw rest in match u with [] => us | _ => u :: us end).
Proof.
  induction t as [|c t IH]; intro H.
  - cbn [app sw]. replace (isspace SP) with true by (vm_compute; reflexivity).
    destruct (sw rest) as [u us]. reflexivity.
  - unfold nows in H. cbn [forallb] in H. apply andb_true_iff in H as [Hc Ht].
    cbn [app sw]. rewrite (IH Ht). destruct (sw rest) as [u us].
    destruct (isspace c); [discriminate|reflexivity].
Qed.

Lemma split_ws_join toks : forallb tok_ok toks = true -> toks <> [] -> split_ws (join [SP] toks) = toks.
Proof.
  induction toks as [|t toks IH]; intros H Hne; [congruence|].
  cbn [forallb] in H. apply andb_true_iff in H as [Ht Hts].
  unfold tok_ok in Ht. apply andb_true_iff in Ht as [Hn Hw].
  destruct toks as [|t2 toks'].
  - cbn [join]. unfold split_ws. rewrite (sw_token t Hw). destruct t; [discriminate|reflexivity].
  - change (join [SP] (t :: t2 :: toks')) with (t ++ SP :: join [SP] (t2 :: toks')).
    unfold split_ws. rewrite (sw_app_space t _ Hw).
    assert (IH' := IH Hts ltac:(discriminate)). unfold split_ws in IH'.
    destruct (sw (join [SP] (t2 :: toks'))) as [u us]. rewrite IH'.
    destruct t; [discriminate|reflexivity].
Qed.

(* every token produced by split() is non-empty and blank-free *)
Lemma sw_tokens_ok s : let '(t, ts) := sw s in nows t = true /\ forallb tok_ok ts = true.
Proof.
  induction s as [|c s IH]; [split; reflexivity|].
  cbn [sw]. destruct (sw s) as [t ts]. destruct IH as [Ht Hts].
  destruct (isspace c) eqn:E.
  - split; [reflexivity|]. destruct t as [|x t']; [exact Hts|].
    cbn [forallb]. rewrite Hts. unfold tok_ok. rewrite Ht. reflexivity.
  - split; [|exact Hts]. unfold nows. cbn [forallb]. rewrite E. exact Ht.
Qed.

Lemma split_ws_tokens_ok s : forallb tok_ok (split_ws s) = true.
Proof.
  unfold split_ws. pose proof (sw_tokens_ok s) as H. destruct (sw s) as [t ts]. destruct H as [Ht Hts].
  destruct t as [|x t']; [exact Hts|]. cbn [forallb]. rewrite Hts. unfold tok_ok. rewrite Ht. reflexivity.
Qed.

Lemma oks_all oks : forallb (fun b : bool => b) oks = true ->
  (forall n, forallb (fun b : bool => b) (firstn n oks) = true) /\ (forall n, hd_ok (skipn n oks) = true).
Proof.
  intro Hoks.
  assert (Hsplit : forall n, forallb (fun b : bool => b) (firstn n oks) = true /\ forallb (fun b : bool => b) (skipn n oks) = true).
  { intro n. rewrite <- (firstn_skipn n oks) in Hoks. rewrite forallb_app in Hoks.
    apply andb_true_iff in Hoks. exact Hoks. }
  split; intro n; [apply Hsplit|].
  destruct (Hsplit n) as [_ H]. unfold hd_ok. destruct (skipn n oks) as [|b r]; [reflexivity|].
  cbn [forallb] in H. apply andb_true_iff in H as [H _]. exact H.
Qed.

Lemma spacelist_set s cur oks : forallb (fun b : bool => b) oks = true ->
  set_text (KSpaceList false) cur oks s = Ok (PL (split_ws s)).
Proof.
  intro H. destruct (oks_all oks H) as [Hall Hhd]. unfold set_text. rewrite Hall. unfold set_value. rewrite Hhd. reflexivity.
Qed.

(* exactly the lists of non-empty, blank-free elements come back from their own text *)
Lemma spacelist_roundtrip_iff : forall l cur oks, forallb (fun b : bool => b) oks = true ->
  (set_text (KSpaceList false) cur oks (str_of (KSpaceList false) (PL l)) = Ok (PL l) <-> forallb tok_ok l = true).
Proof.
  intros l cur oks Hoks. rewrite (spacelist_set _ cur oks Hoks). split.
  - intro H. inversion H as [E]. rewrite <- E at 1. rewrite E. rewrite <- E. apply split_ws_tokens_ok.
  - intro H. f_equal. f_equal. cbn [str_of]. destruct l as [|t ts]; [vm_compute; reflexivity|].
    apply split_ws_join; [exact H|discriminate].
Qed.

(* ... and everything .set(text) stores is such a list *)
Lemma spacelist_set_in_domain : forall s cur oks, forallb (fun b : bool => b) oks = true ->
  exists l, set_text (KSpaceList false) cur oks s = Ok (PL l) /\ forallb tok_ok l = true.
Proof. intros s cur oks H. exists (split_ws s). split; [apply spacelist_set; exact H|apply split_ws_tokens_ok]. Qed.

Lemma sw_vstr s : vstr s = true -> let '(t, ts) := sw s in vstr t = true /\ forallb vstr ts = true.
Proof.
  induction s as [|c s IH]; intro H; [split; reflexivity|].
  unfold vstr in H. cbn [forallb] in H. apply andb_true_iff in H as [Hc Hs]. specialize (IH Hs).
  cbn [sw]. destruct (sw s) as [t ts]. destruct IH as [Ht Hts]. destruct (isspace c).
  - split; [reflexivity|]. destruct t; [exact Hts|]. cbn [forallb]. rewrite Ht, Hts. reflexivity.
  - split; [|exact Hts]. unfold vstr. cbn [forallb]. rewrite Hc. exact Ht.
Qed.

Lemma split_ws_vstr s : vstr s = true -> forallb vstr (split_ws s) = true.
Proof.
  intro H. unfold split_ws. pose proof (sw_vstr s H) as Hs. destruct (sw s) as [t ts]. destruct Hs as [Ht Hts].
  destruct t; [exact Hts|]. cbn [forallb]. rewrite Ht, Hts. reflexivity.
Qed.

Lemma vstr_app a b : vstr (a ++ b) = vstr a && vstr b.
Proof. unfold vstr. apply forallb_app. Qed.

Lemma vstr_join_sp l : forallb vstr l = true -> vstr (join [SP] l) = true.
Proof.
  induction l as [|t l IH]; intro H; [reflexivity|]. cbn [forallb] in H. apply andb_true_iff in H as [Ht Hl].
  destruct l as [|t2 l']; [exact Ht|].
  change (join [SP] (t :: t2 :: l')) with (t ++ [SP] ++ join [SP] (t2 :: l')).
  rewrite !vstr_app, Ht, (IH Hl). reflexivity.
Qed.

(* ------------------------------------------------------------------ *)
(* String *)
Section StringRT.
Hypothesis eval_repr : forall s, vstr s = true -> py_eval (py_repr s) = Ok s.

Lemma both_quoted_shape q body : q = SQ \/ q = DQ -> both_quoted (q :: body ++ [q]) = true.
Proof.
  intro Hq. unfold both_quoted.
  replace (last_char (q :: body ++ [q])) with (Some q) by (symmetry; apply (last_char_app (q :: body) q)).
  rewrite N.eqb_refl. destruct Hq as [H|H]; rewrite H; reflexivity.
Qed.

Lemma repr_quote_cases s : repr_quote s = SQ \/ repr_quote s = DQ.
Proof. unfold repr_quote. destruct (mem SQ s && negb (mem DQ s)); auto. Qed.

Lemma both_quoted_repr s : both_quoted (py_repr s) = true.
Proof. unfold py_repr, repr_with. apply both_quoted_shape. apply repr_quote_cases. Qed.

Lemma string_parse_repr s : vstr s = true -> string_parse (py_repr s) = Ok s.
Proof.
  intro H. unfold string_parse.
  destruct (py_repr s) as [|c l] eqn:E.
  - unfold py_repr, repr_with in E. discriminate.
  - rewrite <- E. rewrite both_quoted_repr. rewrite eval_repr by exact H. reflexivity.
Qed.

Lemma string_parse_plain s : vstr s = true -> both_quoted s = false -> string_parse s = Ok s.
Proof.
  intros H Hq. unfold string_parse. destruct s as [|c s'].
  - vm_compute. reflexivity.
  - rewrite Hq. rewrite eval_repr by exact H. reflexivity.
Qed.

(* what String.set makes of the text String.__str__ wrote: every value comes back *)
Lemma needs_quoting_false v : needs_quoting v = false -> both_quoted v = false.
Proof. unfold needs_quoting. destruct (both_quoted v); [discriminate|reflexivity]. Qed.

Lemma string_roundtrip : forall v, vstr v = true -> string_parse (string_str v) = Ok v.
Proof.
  intros v Hv. unfold string_str. destruct (needs_quoting v) eqn:E.
  - apply string_parse_repr. exact Hv.
  - apply string_parse_plain; [exact Hv|]. apply needs_quoting_false. exact E.
Qed.

Lemma string_set_roundtrip : forall v cur oks,
  vstr v = true -> hd_ok oks = true ->
  set_text KString cur oks (str_of KString (PS v)) = Ok (PS v).
Proof.
  intros v cur oks Hv Ho. unfold set_text. cbn [str_of].
  rewrite string_roundtrip by assumption. cbn [bind]. unfold set_value. rewrite Ho. reflexivity.
Qed.
End StringRT.

(* the witnesses of the repaired defect F16: DQ and DQ a DQ are now written quoted *)
Example string_str_quotes :
  string_str [DQ] = [SQ; DQ; SQ] /\ string_str [DQ; 97; DQ] = [SQ; DQ; 97; DQ; SQ] /\
  string_parse (string_str [DQ]) = Ok [DQ] /\ string_parse (string_str [SQ; 97; SQ]) = Ok [SQ; 97; SQ].
Proof. vm_compute. repeat split. Qed.

(* a rejected text never yields a value: in the model a node's value changes only through the
   Ok branch of set_text (see Tree: write), so "value unchanged" is the Raise branch of write *)
Lemma set_text_rejects_examples :
  set_text KBoolean (PB true) [] [98; 111; 103; 117; 115] = Raise InvalidRegistryValue /\
  set_text (KInteger (Some 1%Z)) (PI 5%Z) [] [48] = Raise InvalidRegistryValue /\
  set_text KString (PS [97]) [] [DQ] = Raise InvalidRegistryValue.
Proof. vm_compute. repeat split. Qed.
