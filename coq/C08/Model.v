(* C08/Model.v — executable model of connection registration in src/irclib.py:
   the IrcStateFsm (table regenerated from the source), CAP LS/ACK/NAK/NEW/DEL
   handling, _requestCaps, capUpkeep, SASL (tryNextSaslMechanism,
   _maybeStartSasl, doAuthenticate, 903..908), STS (_onCapSts,
   ircutils.parseStsPolicy), 375/376/422, 43x, ERROR, PING, Irc.reset.
   Handlers run in a state-then-raise discipline: what a handler did before it
   raised stays done (Irc.feedMsg is firewalled).  driver.reconnect() performs
   irc.reset() synchronously, as SocketDriver.reconnect does, and the handler
   then CONTINUES on the fresh state.  No proofs in this file. *)
From Coq Require Import List NArith ZArith Bool Arith.
Import ListNotations.
Require Import Base.Wire Base.PyStr.
Require gen.T08.
Open Scope N_scope.

(* ---- FSM ---- *)
Definition UNINIT : N := 10.      Definition INIT_CAP : N := 20.   Definition INIT_SASL : N := 30.
Definition WAIT_MOTD : N := 50.   Definition IN_MOTD : N := 60.    Definition CONNECTED : N := 70.
Definition CONNECTED_SASL : N := 80.  Definition SHUTTING_DOWN : N := 100.

(* an event table: (from, to) pairs, from = 0 meaning "any state" *)
Fixpoint fire (tbl : list (N * N)) (s : N) : option N :=
  match tbl with
  | [] => None
  | (f, t) :: r => if N.eqb f 0 || N.eqb f s then Some t else fire r s
  end.

(* ---- configuration (inputs that do not change during a connection) ---- *)
Record cfg := Cfg {
  c_wanted : list str;          (* Irc.REQUEST_CAPABILITIES at this moment (incl. 'sasl' once credentials exist) *)
  c_required : bool;            (* supybot.networks.<net>.sasl.required *)
  c_mechs : list str;           (* sasl_next_mechanisms as resetSasl computes it *)
  c_plain : list str;           (* authenticate_generator(user NUL user NUL password) *)
  c_ecdsa_user : list str;      (* authenticate_generator(username) *)
  c_ecdsa_sig : option (list str);   (* signature chunks; None = key file unreadable (OSError/ValueError) *)
  c_password : bool;            (* a server password is configured (PASS is sent) *)
  c_umodes : bool;              (* user modes to send after the MOTD *)
  c_secure : bool;              (* force_tls_verification or (ssl and certificate validation enabled) *)
  c_host : str;                 (* driver.currentServer.hostname *)
  c_attempt : Z
}.

Record st := St {
  fsm : N;
  ls : list (str * option str);           (* capabilities_ls *)
  req : list str; ack : list str; nak : list str;   (* sets *)
  snext : list str;                        (* sasl_next_mechanisms *)
  scur : option str;                       (* sasl_current_mechanism *)
  authed : bool;                           (* sasl_authenticated *)
  dec : option (list str * bool);          (* authenticate_decoder: chunks, ready *)
  after : bool;                            (* afterConnect *)
  zombie : bool;
  (* ghost state, not in the code: used by the theorems only *)
  g_acked : bool;                          (* 'sasl' was acknowledged on this connection *)
  g_ends : nat                             (* CAP END sent on this connection *)
}.

Inductive outev :=
| Send (cmd : str) (args : list str)
| SendCred (chunk : str) (acked : bool)    (* AUTHENTICATE <credential chunk>: same wire form as Send AUTHENTICATE [chunk];
                                              ghost: 'sasl' was acknowledged on this connection *)
| GReq (caps advertised acked : list str)  (* ghost: _requestCaps is about to request [caps]; what was advertised / acknowledged then *)
| GEnd (n : nat) (outstanding : list str) (authenticated : bool)
                                           (* ghost: the n-th CAP END of this connection; requests still unanswered then;
                                              sasl_authenticated then *)
| Reconnect (server : option (str * Z * Z * bool)) (wait : bool)   (* host, port, attempt, force verification *)
| Die
| StoreSts (host policy : str).

Definition R := (st * list outev * option exn)%type.
Definition ret (s : st) : R := (s, [], None).
Definition raise (s : st) (e : exn) : R := (s, [], Some e).
Definition emit (s : st) (o : outev) : R := (s, [o], None).
Definition andthen (r : R) (k : st -> R) : R :=
  match r with
  | (s, o, None) => let '(s', o', e) := k s in (s', o ++ o', e)
  | _ => r
  end.
Notation "r >>> k" := (andthen r k) (at level 60, right associativity).

Definition set_fsm (s : st) (x : N) : st :=
  St x (ls s) (req s) (ack s) (nak s) (snext s) (scur s) (authed s) (dec s) (after s) (zombie s) (g_acked s) (g_ends s).
Definition transition (tbl : list (N * N)) (s : st) : R :=
  match fire tbl (fsm s) with Some t => ret (set_fsm s t) | None => raise s ValueError end.
Definition expect (l : list N) (s : st) : R :=
  if mem (fsm s) l then ret s else raise s ValueError.

(* ---- string constants ---- *)
Definition s_CAP : str := [67;65;80].           Definition s_REQ : str := [82;69;81].
Definition s_END : str := [69;78;68].           Definition s_LS : str := [76;83].
Definition s_302 : str := [51;48;50].           Definition s_AUTH : str := [65;85;84;72;69;78;84;73;67;65;84;69].
Definition s_NICK : str := [78;73;67;75].       Definition s_USER : str := [85;83;69;82].
Definition s_PASS : str := [80;65;83;83].       Definition s_PONG : str := [80;79;78;71].
Definition s_MODE : str := [77;79;68;69].       Definition s_STAR : str := [42].
Definition s_PLUS : str := [43].
Definition s_sasl : str := [115;97;115;108].    Definition s_sts : str := [115;116;115].
Definition s_echo : str := [101;99;104;111;45;109;101;115;115;97;103;101].
Definition s_label : str := [108;97;98;101;108;101;100;45;114;101;115;112;111;110;115;101].
Definition s_plain : str := [112;108;97;105;110].
Definition s_external : str := [101;120;116;101;114;110;97;108].
Definition s_ecdsa : str := [101;99;100;115;97;45;110;105;115;116;50;53;54;112;45;99;104;97;108;108;101;110;103;101].
Definition s_scram : str := [115;99;114;97;109;45].
Definition s_port : str := [112;111;114;116].   Definition s_duration : str := [100;117;114;97;116;105;111;110].
Definition s_closing : str := [99;108;111;115;105;110;103;32;108;105;110;107].
Definition s_toofast : str := [116;111;111;32;102;97;115;116].

(* ---- sets of strings, sorted lists ---- *)
Definition smem (x : str) (l : list str) : bool := existsb (seq_eqb x) l.
Definition sadd (x : str) (l : list str) : list str := if smem x l then l else l ++ [x].
Definition sunion (a b : list str) : list str := fold_left (fun acc x => sadd x acc) b a.
Definition sdiff (a b : list str) : list str := filter (fun x => negb (smem x b)) a.
Definition sremove (x : str) (l : list str) : list str := filter (fun y => negb (seq_eqb x y)) l.
Definition ssubset (a b : list str) : bool := forallb (fun x => smem x b) a.
Definition sseteq (a b : list str) : bool := ssubset a b && ssubset b a.

(* lexicographic order on code points (Python str comparison) *)
Fixpoint str_ltb (a b : str) : bool :=
  match a, b with
  | [], [] => false
  | [], _ :: _ => true
  | _ :: _, [] => false
  | x :: a', y :: b' => if N.ltb x y then true else if N.ltb y x then false else str_ltb a' b'
  end.
Fixpoint insert_sorted (x : str) (l : list str) : list str :=
  match l with
  | [] => [x]
  | y :: r => if str_ltb y x then y :: insert_sorted x r else x :: l
  end.
Definition sort_strs (l : list str) : list str := fold_right insert_sorted [] l.

(* ASCII lower / upper *)
Definition lower_c (c : N) : N := if (65 <=? c) && (c <=? 90) then c + 32 else c.
Definition upper_c (c : N) : N := if (97 <=? c) && (c <=? 122) then c - 32 else c.
Definition lower (s : str) : str := map lower_c s.
Definition upper (s : str) : str := map upper_c s.

(* str.split() on ASCII whitespace (capability lists contain no other blanks on an IRC line) *)
Definition isws (c : N) : bool := mem c [32; 9; 10; 11; 12; 13].
Fixpoint words_aux (s cur : str) : list str :=
  match s with
  | [] => match cur with [] => [] | _ => [rev cur] end
  | c :: s' => if isws c then (match cur with [] => words_aux s' [] | _ => rev cur :: words_aux s' [] end)
               else words_aux s' (c :: cur)
  end.
Definition words (s : str) : list str := words_aux s [].

(* ---- sending ---- *)
Definition send (s : st) (cmd : str) (args : list str) : R := emit s (Send cmd args).

(* textwrap.wrap(caps, width, break_long_words=False, break_on_hyphens=False):
   greedy packing of blank-separated words *)
Fixpoint wrap_aux (width : nat) (ws : list str) (cur : str) : list str :=
  match ws with
  | [] => match cur with [] => [] | _ => [cur] end
  | w :: r =>
      match cur with
      | [] => wrap_aux width r w
      | _ => if Nat.leb (length cur + 1 + length w) width
             then wrap_aux width r (cur ++ [32] ++ w)
             else cur :: wrap_aux width r w
      end
  end.
Definition wrap_caps (caps : list str) : list str :=
  wrap_aux (gen.T08.MAX_LINE_SIZE - 9) caps [].

(* ---- Irc.reset(): state.reset, resetSasl, _queueConnectMessages ---- *)
Definition fresh (c : cfg) (z : bool) : st :=
  St UNINIT [] [] [] [] (c_mechs c) None false None false z false 0.

Definition queue_connect (c : cfg) (s : st) : R :=
  if zombie s then emit s Die
  else
    send s s_CAP [s_LS; s_302] >>> fun s =>
    (if c_password c then send s s_PASS [] else ret s) >>> fun s =>
    send s s_NICK [] >>> fun s =>
    send s s_USER [] >>> fun s =>
    transition gen.T08.EV_on_init_messages_sent s.

Definition reset (c : cfg) (s : st) : R := queue_connect c (fresh c (zombie s)).

(* driver.reconnect(...): the stub (like SocketDriver) resets the Irc object at once *)
Definition reconnect (c : cfg) (s : st) (server : option (str * Z * Z * bool)) (wait : bool) : R :=
  emit s (Reconnect server wait) >>> fun s => reset c s.

(* ---- CAP ---- *)
(* Irc._saslRequiredButNotAuthenticated *)
Definition required_unauth (c : cfg) (s : st) : bool := negb (authed s) && c_required c.

Definition outstanding (s : st) : list str := sdiff (sdiff (req s) (ack s)) (nak s).

Definition endCap (c : cfg) (s : st) : R :=
  if required_unauth c s then reconnect c s None true     (* log.error; CAP END is not sent, the connection is dropped *)
  else match outstanding s with
  | _ :: _ => ret s                            (* a CAP REQ is still unanswered: capUpkeep will come back *)
  | [] =>
  transition gen.T08.EV_on_cap_end s >>> fun s =>
  emit s (GEnd (S (g_ends s)) (sdiff (req s) (sunion (ack s) (nak s))) (authed s)) >>> fun s =>
  send (St (fsm s) (ls s) (req s) (ack s) (nak s) (snext s) (scur s) (authed s) (dec s) (after s) (zombie s)
           (g_acked s) (S (g_ends s))) s_CAP [s_END]
  end.

Definition with_sasl (s : st) (nx : list str) (cur : option str) : st :=
  St (fsm s) (ls s) (req s) (ack s) (nak s) nx cur (authed s) (dec s) (after s) (zombie s) (g_acked s) (g_ends s).

Definition tryNextSasl (c : cfg) (s : st) : R :=
  expect gen.T08.EXPECT_tryNextSaslMechanism s >>> fun s =>
  match snext s with
  | m :: r => send (with_sasl s r (Some m)) s_AUTH [upper m]
  | [] =>
      if c_required c then reconnect c s None true     (* log.error; the connection is dropped *)
      else
        transition gen.T08.EV_on_sasl_auth_finished (with_sasl s [] None) >>> fun s =>
        if N.eqb (fsm s) INIT_CAP then endCap c s else ret s
  end.

Definition comma_split (s : str) : list str := split_char 44 s.

Definition maybeStartSasl (c : cfg) (s : st) : R :=
  if negb (authed s) && smem s_sasl (ack s) then
    transition gen.T08.EV_on_sasl_cap s >>> fun s =>
    match dict_get s_sasl (ls s) with
    | None => raise s AssertionError
    | Some v =>
        let s1 := match v with
                  | Some mechs =>
                      let avail := map lower (comma_split mechs) in
                      with_sasl s (filter (fun x => smem (lower x) avail) (snext s)) (scur s)
                  | None => s
                  end in
        tryNextSasl c s1
    end
  else if N.eqb (fsm s) INIT_CAP then endCap c s     (* already authenticated; the last CAP REQ was just answered *)
  else ret s.

Definition capUpkeep (c : cfg) (s : st) : R :=
  expect gen.T08.EXPECT_capUpkeep s >>> fun s =>
  let responded := sunion (ack s) (nak s) in
  if negb (ssubset responded (req s)) then reconnect c s None true
  else if ssubset (req s) responded then
    if smem s_sasl (ack s) then
      (if N.eqb (fsm s) INIT_CAP || N.eqb (fsm s) CONNECTED then maybeStartSasl c s else ret s)
    else if negb (N.eqb (fsm s) CONNECTED) then endCap c s
    else ret s
  else ret s.

Definition set_caps (s : st) (l : list (str * option str)) (rq ak nk : list str) : st :=
  St (fsm s) l rq ak nk (snext s) (scur s) (authed s) (dec s) (after s) (zombie s)
     (g_acked s || smem s_sasl ak) (g_ends s).

(* ircutils.parseStsPolicy: int() on ASCII digits with optional sign and single
   underscores between digits *)
Definition isdigit (c : N) : bool := (48 <=? c) && (c <=? 57).
Fixpoint digits_val (s : str) (acc : Z) (prev_us : bool) (any : bool) : option Z :=
  match s with
  | [] => if prev_us || negb any then None else Some acc
  | c :: r =>
      if isdigit c then digits_val r (acc * 10 + Z.of_N (c - 48)) false true
      else if N.eqb c 95 then (if prev_us || negb any then None else digits_val r acc true any)
      else None
  end.
Definition py_int (s : str) : option Z :=
  match s with
  | 43 :: r => digits_val r 0 false false
  | 45 :: r => match digits_val r 0 false false with Some z => Some (- z)%Z | None => None end
  | _ => digits_val s 0 false false
  end.

Definition kv_parse (d : list (str * option str)) (kv : str) : list (str * option str) :=
  match split1 [61] kv with
  | Some (k, v) => dict_set k (Some v) d
  | None => dict_set kv None d
  end.

(* returns (port, duration) -- duration 0 when it is not parsed -- or None when
   the policy is unacceptable *)
Definition parseStsPolicy2 (policy : str) (parseDuration : bool) : option (Z * Z) :=
  let d := fold_left kv_parse (comma_split policy) [] in
  match dict_get s_port d with
  | Some (Some v) =>
      match py_int v with
      | Some port =>
          if parseDuration then
            match dict_get s_duration d with
            | Some (Some dv) => match py_int dv with Some du => Some (port, du) | None => None end
            | _ => None
            end
          else Some (port, 0%Z)
      | None => None
      end
  | _ => None
  end.
Definition parseStsPolicy (policy : str) (parseDuration : bool) : option Z :=
  match parseStsPolicy2 policy parseDuration with Some (p, _) => Some p | None => None end.

Definition onCapSts (c : cfg) (s : st) (policy : str) : R :=
  match parseStsPolicy policy (c_secure c) with
  | None => ret s
  | Some port =>
      if c_secure c then emit s (StoreSts (c_host c) policy)
      else
        transition gen.T08.EV_on_shutdown s >>> fun s =>
        reconnect c s (Some (c_host c, port, c_attempt c, true)) true
  end.

Fixpoint strip_eq_tilde (fuel : nat) (item : str) : str :=
  match fuel, item with
  | S f, c :: r => if N.eqb c 61 || N.eqb c 126 then strip_eq_tilde f r else item
  | _, _ => item
  end.

Definition set_ls (s : st) (l : list (str * option str)) : st := set_caps s l (req s) (ack s) (nak s).

Fixpoint addCapabilities (c : cfg) (items : list str) (s : st) : R :=
  match items with
  | [] => ret s
  | item0 :: r =>
      let item := strip_eq_tilde (length item0) item0 in
      (match split1 [61] item with
       | Some (cap, value) =>
           (if seq_eqb cap s_sts then onCapSts c s value else ret s) >>> fun s =>
           ret (set_ls s (dict_set cap (Some value) (ls s)))
       | None =>
           (if seq_eqb item s_sts then reconnect c s None true else ret s) >>> fun s =>
           ret (set_ls s (dict_set item None (ls s)))
       end) >>> addCapabilities c r
  end.

(* the capabilities _requestCaps really asks for: sorted, echo-message only next to labeled-response *)
Definition request_list (s : st) (caps0 : list str) : list str :=
  let caps := sort_strs caps0 in
  if smem s_echo caps && negb (smem s_label (ack s)) then
    let caps1 := sremove s_echo caps in
    if smem s_label caps1 then s_echo :: s_label :: sremove s_label caps1 else caps1
  else caps.

Definition requestCaps (s : st) (caps0 : list str) : R :=
  let caps := request_list s caps0 in
  let s1 := set_caps s (ls s) (sunion (req s) caps) (ack s) (nak s) in
  fold_left (fun (r : R) line => r >>> fun s => send s s_CAP [s_REQ; line]) (wrap_caps caps)
            (emit s1 (GReq caps (map fst (ls s)) (ack s))).

(* its return value: bool(cap_lines) *)
Definition requested_something (s : st) (caps0 : list str) : bool :=
  match wrap_caps (request_list s caps0) with [] => false | _ :: _ => true end.

Definition new_caps (c : cfg) (s : st) : list str :=
  sdiff (filter (fun x => smem x (c_wanted c)) (map fst (ls s))) (ack s).

Definition doCapLs (c : cfg) (s : st) (args : list str) : R :=
  match args with
  | [_; _; star; caps] =>
      if negb (seq_eqb star s_STAR) then ret s else addCapabilities c (words caps) s
  | [_; _; caps] =>
      addCapabilities c (words caps) s >>> fun s =>
      if N.eqb (fsm s) SHUTTING_DOWN then ret s
      else
        expect gen.T08.EXPECT_doCapLs s >>> fun s =>
        match new_caps c s with
        | [] => endCap c s
        | nc => requestCaps s nc >>> fun s' => if requested_something s nc then ret s' else endCap c s'
        end
  | _ => ret s
  end.

Definition doCapAck (c : cfg) (s : st) (args : list str) : R :=
  match args with
  | [_; _; caps] =>
      match words caps with
      | [] => raise s AssertionError
      | ws => capUpkeep c (set_caps s (ls s) (req s) (sunion (ack s) ws) (nak s))
      end
  | _ => ret s
  end.

Definition doCapNak (c : cfg) (s : st) (args : list str) : R :=
  match args with
  | [_; _; caps] =>
      match words caps with
      | [] => raise s AssertionError
      | ws => capUpkeep c (set_caps s (ls s) (req s) (ack s) (sunion (nak s) ws))
      end
  | _ => ret s
  end.

Fixpoint ddel {A} (k : str) (d : list (str * A)) : list (str * A) :=
  match d with [] => [] | (k2, v) :: r => if seq_eqb k k2 then r else (k2, v) :: ddel k r end.

Definition doCapDel (s : st) (args : list str) : R :=
  match args with
  | [_; _; caps] =>
      match words caps with
      | [] => raise s AssertionError
      | ws =>
          ret (fold_left (fun s cap0 =>
                 let cap := match split_char 61 cap0 with x :: _ => x | [] => cap0 end in
                 St (fsm s) (ddel cap (ls s)) (req s) (sremove cap (ack s)) (nak s) (snext s) (scur s) (authed s)
                    (dec s) (after s) (zombie s) (g_acked s) (g_ends s)) ws s)
      end
  | _ => ret s
  end.

Definition doCapNew (c : cfg) (s : st) (args : list str) : R :=
  match args with
  | [_; _; caps] =>
      match words caps with
      | [] => raise s AssertionError
      | _ =>
          addCapabilities c (words caps) s >>> fun s =>
          if N.eqb (fsm s) SHUTTING_DOWN then ret s
          else match new_caps c s with [] => ret s | nc => requestCaps s nc end
      end
  | _ => ret s
  end.

(* ---- AUTHENTICATE ---- *)
(* ircutils.authenticate_generator on the (base64) string:
     for n in range(0, len(authstring)+1, AUTHENTICATE_CHUNK_SIZE):
         chunk = authstring[n:n+AUTHENTICATE_CHUNK_SIZE] or '+'
         yield chunk
   one iteration per multiple of the chunk size that is <= len: a full chunk is
   followed by another iteration, a short (possibly empty -> '+') one is the last *)
Fixpoint auth_gen_aux (fuel : nat) (s : str) : list str :=
  match fuel with
  | O => []
  | S f =>
      let chunk := firstn gen.T08.AUTHENTICATE_CHUNK_SIZE s in
      (match chunk with [] => s_PLUS | _ => chunk end) ::
      (if Nat.ltb (length s) gen.T08.AUTHENTICATE_CHUNK_SIZE then []
       else auth_gen_aux f (skipn gen.T08.AUTHENTICATE_CHUNK_SIZE s))
  end.
Definition auth_gen (s : str) : list str := auth_gen_aux (S (length s)) s.

Definition send_chunks (s : st) (chunks : list str) : R :=
  fold_left (fun (r : R) ch => r >>> fun s => emit s (SendCred ch (g_acked s))) chunks (ret s).

Definition set_dec (s : st) (d : option (list str * bool)) : st :=
  St (fsm s) (ls s) (req s) (ack s) (nak s) (snext s) (scur s) (authed s) d (after s) (zombie s) (g_acked s) (g_ends s).

Definition startswith_s (p s : str) : bool := startswith p s.

(* [b64ok]: base64.b64decode of the joined chunks succeeds; [empty]: it is b'' *)
Definition doAuthenticate (c : cfg) (s : st) (args : list str) (b64ok empty : bool) : R :=
  expect gen.T08.EXPECT_doAuthenticate s >>> fun s =>
  match args with
  | [] => raise (set_dec s (Some (match dec s with Some d => d | None => ([], false) end))) IndexError
  | chunk :: _ =>
      let '(chunks, ready) := match dec s with Some d => d | None => ([], false) end in
      let ready' := ready || seq_eqb chunk s_PLUS || negb (Nat.eqb (length chunk) gen.T08.AUTHENTICATE_CHUNK_SIZE) in
      let chunks' := if seq_eqb chunk s_PLUS then chunks else chunks ++ [chunk] in
      if negb ready' then ret (set_dec s (Some (chunks', ready')))
      else if negb b64ok then raise (set_dec s (Some (chunks', ready'))) ValueError   (* binascii.Error *)
      else
        let s := set_dec s None in
        match scur s with
        | None => raise s AttributeError            (* None.startswith *)
        | Some m =>
            if seq_eqb m s_ecdsa then
              if empty then send_chunks s (c_ecdsa_user c)
              else match c_ecdsa_sig c with
                   | Some sig => send_chunks s sig
                   | None => send s s_AUTH [s_STAR] >>> fun s => raise s TypeError   (* tryNextSaslMechanism() without msg *)
                   end
            else if seq_eqb m s_external then send_chunks s [s_PLUS]
            else if startswith_s s_scram m then raise s AttributeError   (* scram is None *)
            else if seq_eqb m s_plain then send_chunks s (c_plain c)
            else ret s
        end
  end.

Definition do903 (c : cfg) (s : st) : R :=
  let s := St (fsm s) (ls s) (req s) (ack s) (nak s) (snext s) (scur s) true (dec s) (after s) (zombie s) (g_acked s) (g_ends s) in
  transition gen.T08.EV_on_sasl_auth_finished s >>> fun s =>
  if N.eqb (fsm s) INIT_CAP then endCap c s else ret s.

Definition do908 (s : st) (args : list str) : R :=
  match args with
  | _ :: _ :: _ => raise s (if gen.T08.HAS_filterSaslMechanisms then OtherError else AttributeError)
  | _ => raise s IndexError
  end.

(* ---- end of registration and the rest ---- *)
Definition set_after (s : st) : st :=
  St (fsm s) (ls s) (req s) (ack s) (nak s) (snext s) (scur s) (authed s) (dec s) true (zombie s) (g_acked s) (g_ends s).

Definition do376 (c : cfg) (s : st) : R :=
  if required_unauth c s then reconnect c s None true   (* log.error; the connection is dropped *)
  else
  transition gen.T08.EV_on_end_motd s >>> fun s =>
  let s := set_after s in
  if c_umodes c then send s s_MODE [] else ret s.

Definition do43x (s : st) : R := if after s then ret s else send s s_NICK [].

Fixpoint contains_sub (p s : str) : bool :=
  match s with
  | [] => match p with [] => true | _ => false end
  | _ :: s' => startswith p s || contains_sub p s'
  end.

Definition doError (c : cfg) (s : st) (args : list str) : R :=
  match args with
  | [] => raise s IndexError
  | text :: _ =>
      if zombie s then ret s
      else if startswith s_closing (lower text) then reconnect c s None false
      else if contains_sub s_toofast text then reconnect c s None true
      else ret s
  end.

Definition doPing (s : st) (args : list str) : R :=
  match args with [] => raise s IndexError | a :: _ => send s s_PONG [a] end.

(* ---- server messages ---- *)
Inductive inmsg :=
| ICap (args : list str)
| IAuth (args : list str) (b64ok empty : bool)
| INum (code : N) (args : list str)
| IError (args : list str)
| IPing (args : list str)
| IReset.                                 (* the driver reconnected: irc.reset() *)

Definition cap_sub (args : list str) : option str :=
  match args with _ :: sub :: _ => Some (lower sub) | _ => None end.

Definition step (c : cfg) (s : st) (m : inmsg) : R :=
  match m with
  | ICap args =>
      match cap_sub args with
      | Some sub =>
          if seq_eqb sub [108;115] then doCapLs c s args
          else if seq_eqb sub [97;99;107] then doCapAck c s args
          else if seq_eqb sub [110;97;107] then doCapNak c s args
          else if seq_eqb sub [110;101;119] then doCapNew c s args
          else if seq_eqb sub [100;101;108] then doCapDel s args
          else ret s
      | None => ret s
      end
  | IAuth args b64ok empty => doAuthenticate c s args b64ok empty
  | INum code args =>
      if N.eqb code 903 then do903 c s
      else if (904 <=? code) && (code <=? 907) then tryNextSasl c s
      else if N.eqb code 908 then do908 s args
      else if N.eqb code 375 then transition gen.T08.EV_on_start_motd s
      else if N.eqb code 376 || N.eqb code 377 || N.eqb code 422 then do376 c s
      else if N.eqb code 432 || N.eqb code 433 || N.eqb code 437 then do43x s
      else ret s
  | IError args => doError c s args
  | IPing args => doPing s args
  | IReset => reset c s
  end.

(* a whole history: outputs concatenated, exceptions swallowed (firewall) *)
Fixpoint run_msgs (c : cfg) (s : st) (ms : list inmsg) : st * list outev :=
  match ms with
  | [] => (s, [])
  | m :: r => let '(s1, o1, _) := step c s m in
              let '(s2, o2) := run_msgs c s1 r in (s2, o1 ++ o2)
  end.

(* ---- a protocol-conformant server as an executable strategy (for the liveness clause) ----
   The server looks at what the bot sent in the last round and answers every
   obligation: CAP LS -> the LS reply (multi-line, then the final line);
   CAP REQ :line -> ACK or NAK of exactly that line; AUTHENTICATE MECH ->
   AUTHENTICATE + / 904 / 908 then 904; the final chunk of a payload -> 903 or
   904; AUTHENTICATE * -> 906; CAP END -> the welcome burst ending in 376 or
   422.  A server without capability negotiation ignores all of that and sends
   the welcome burst after USER.  The choices come from a list of numbers, one
   per bot output. *)
Definition s_ACK : str := [65;67;75].           Definition s_NAK : str := [78;65;75].
Record srv := Srv {
  sv_cap : bool;                (* supports capability negotiation *)
  sv_ls : list str;             (* the CAP LS reply, one capability string per line; the last one is the final line *)
  sv_motd : bool                (* 001 375 372 376, or 001 422 *)
}.
Definition welcome (motd : bool) : list inmsg :=
  if motd then [INum 1 [s_STAR]; INum 375 [s_STAR]; INum 372 [s_STAR]; INum 376 [s_STAR]] else [INum 1 [s_STAR]; INum 422 [s_STAR]].
Fixpoint ls_reply (lines : list str) : list inmsg :=
  match lines with
  | [] => [ICap [s_STAR; s_LS; []]]
  | [l] => [ICap [s_STAR; s_LS; l]]
  | l :: r => ICap [s_STAR; s_LS; s_STAR; l] :: ls_reply r
  end.
Definition final_chunk (ch : str) : bool := negb (Nat.eqb (length ch) gen.T08.AUTHENTICATE_CHUNK_SIZE).

Definition answer1 (v : srv) (n : N) (o : outev) : list inmsg :=
  if sv_cap v then
    match o with
    | Send cmd args =>
        if seq_eqb cmd s_CAP then
          match args with
          | sub :: rest =>
              if seq_eqb sub s_LS then ls_reply (sv_ls v)
              else if seq_eqb sub s_REQ then
                match rest with line :: _ => [ICap [s_STAR; if N.even n then s_ACK else s_NAK; line]] | [] => [] end
              else if seq_eqb sub s_END then welcome (sv_motd v)
              else []
          | [] => []
          end
        else if seq_eqb cmd s_AUTH then
          match args with
          | a :: _ =>
              if seq_eqb a s_STAR then [INum 906 [s_STAR]]
              else if N.eqb (n mod 3) 0 then [IAuth [s_PLUS] true true]
              else if N.eqb (n mod 3) 1 then [INum 904 [s_STAR]]
              else [INum 908 [s_STAR; s_plain]; INum 904 [s_STAR]]
          | [] => []
          end
        else []
    | SendCred ch _ => if final_chunk ch then [INum (if N.even n then 903 else 904) [s_STAR]] else []
    | _ => []
    end
  else
    match o with
    | Send cmd _ => if seq_eqb cmd s_USER then welcome (sv_motd v) else []
    | _ => []
    end.

Fixpoint answer_batch (v : srv) (choices : list N) (batch : list outev) : list inmsg :=
  match batch with
  | [] => []
  | o :: r => answer1 v (hd 0 choices) o ++ answer_batch v (tl choices) r
  end.

(* the strategy: history = the bot's output batches, newest first; the j-th output overall uses the j-th choice *)
Definition strategy (v : srv) (choices : list N) (hist : list (list outev)) : list inmsg :=
  match hist with
  | [] => []
  | batch :: older => answer_batch v (skipn (length (concat older)) choices) batch
  end.

(* ---- the server's own view of what it advertises (spec side of `requests only advertised capabilities`) ---- *)
(* the name a CAP LS / CAP NEW item advertises, and the name a CAP DEL item withdraws *)
Definition cap_name (item0 : str) : str :=
  let item := strip_eq_tilde (length item0) item0 in
  match split1 [61] item with Some (cap, _) => cap | None => item end.
Definition del_name (cap0 : str) : str := match split_char 61 cap0 with x :: _ => x | [] => cap0 end.

(* the server-side advertised set after a message *)
Definition upd (m : inmsg) (adv : list str) : list str :=
  match m with
  | ICap args =>
      match cap_sub args with
      | Some sub =>
          if seq_eqb sub [108;115] then
            match args with
            | [_; _; star; caps] => if seq_eqb star s_STAR then sunion adv (map cap_name (words caps)) else adv
            | [_; _; caps] => sunion adv (map cap_name (words caps))
            | _ => adv
            end
          else if seq_eqb sub [110;101;119] then
            match args with [_; _; caps] => sunion adv (map cap_name (words caps)) | _ => adv end
          else if seq_eqb sub [100;101;108] then
            match args with [_; _; caps] => fold_left (fun a cp => sremove (del_name cp) a) (words caps) adv | _ => adv end
          else adv
      | None => adv
      end
  | IReset => []
  | _ => adv
  end.

(* what the server itself acknowledged on this connection (CAP ACK adds; a driver reset starts over) *)
Definition upd_ack (m : inmsg) (a : list str) : list str :=
  match m with
  | ICap args =>
      match cap_sub args with
      | Some sub => if seq_eqb sub [97;99;107] then match args with [_; _; caps] => sunion a (words caps) | _ => a end else a
      | None => a
      end
  | IReset => []
  | _ => a
  end.

(* ---- the nick generator: Irc.do43x / Irc._getNextNick ----
   The registration machine above answers every nick rejection with a NICK
   (do43x s).  The refinement below adds what _getNextNick really does: it pops
   the configured alternates (supybot.nick.alternates), and once they are
   exhausted it draws random variants of the configured nick until one is
   neither in triedNicks nor the current nick: always a new nick (the
   configured nick itself is no longer proposed: fix of finding C08.F26, so
   [tried] stays false).  The nick state lives
   outside [st]: no other handler reads it; Irc.reset() re-initialises it and a
   successful do376 reloads the alternates. *)
(* len(alternateNicks); the configured nick is in triedNicks; irc.nick is no longer the configured nick (Irc.feedMsg
   overwrites irc.nick with the first argument of the numerics in _nickSetters BEFORE the handler runs) *)
Record nk := Nk { alts : nat; tried : bool; renamed : bool;
                  cur_alt : option nat }.      (* irc.nick is the k-th of the alternates that are left (they are distinct) *)
Definition is_setter (m : inmsg) : bool :=
  match m with INum code (_ :: _) => mem code gen.T08.NICK_SETTERS | _ => false end.
(* on the wire the first argument of a numeric is canonicalised: "1" = the configured nick; "a", "b", ... = the 1st, 2nd, ...
   of the alternates that are left; anything else = another nick *)
Definition nick_setter (m : inmsg) (n : nk) : nk :=
  match m with
  | INum code (a :: _) =>
      if mem code gen.T08.NICK_SETTERS then
        Nk (alts n) (tried n) (negb (seq_eqb a [49]))
           (match a with [ch] => if (97 <=? ch) && (ch <=? 122) then Some (N.to_nat (ch - 97)) else None | _ => None end)
      else n
  | _ => n
  end.
Definition is43x (m : inmsg) : bool :=
  match m with INum code _ => N.eqb code 432 || N.eqb code 433 || N.eqb code 437 | _ => false end.
Definition is376 (m : inmsg) : bool :=
  match m with INum code _ => N.eqb code 376 || N.eqb code 377 || N.eqb code 422 | _ => false end.
Definition is_reset_msg (m : inmsg) : bool := match m with IReset => true | _ => false end.
Definition is_abort (o : outev) : bool := match o with Reconnect _ _ => true | Die => true | _ => false end.
(* (new nick state, a new nick was found) *)
Definition next_nick (n : nk) : nk * bool :=
  match alts n with
  | S a =>                                   (* the next alternate is popped; if it is the current nick the assert of do43x fires *)
      match cur_alt n with
      | Some O => (Nk a (tried n) (renamed n) None, false)
      | Some (S k) => (Nk a (tried n) (renamed n) (Some k), true)
      | None => (Nk a (tried n) (renamed n) None, true)
      end
  | O => if renamed n && negb (tried n) then (Nk 0 true (renamed n) (cur_alt n), true)    (* the configured nick itself: it is not the current one *)
         else (n, true)                                                                   (* a random variant *)
  end.
(* na = the number of configured alternates *)
Definition stepN (c : cfg) (na : nat) (sn : st * nk) (m : inmsg) : (st * nk) * list outev * option exn :=
  let '(s, n0) := sn in
  let n := nick_setter m n0 in
  let drop (x : nk) := Nk (alts x) (tried x) (renamed x) None in    (* once connected do43x no longer looks at the nicks *)
  if is43x m then
    if after s then ((s, drop n), [], None)
    else let '(n', ok) := next_nick n in
         if ok then ((s, n'), [Send s_NICK []], None) else ((s, n'), [], Some AssertionError)
  else
    let '(s', o, e) := step c s m in
    let n' := if existsb is_abort o || is_reset_msg m then Nk na false false None
              else if is376 m && after s' && match e with None => true | Some _ => false end then Nk na (tried n) (renamed n) None
              else n in
    ((s', if after s' then drop n' else n'), o, e).
Fixpoint run_msgsN (c : cfg) (na : nat) (sn : st * nk) (ms : list inmsg) : (st * nk) * list outev :=
  match ms with
  | [] => (sn, [])
  | m :: r => let '(sn1, o1, _) := stepN c na sn m in
              let '(sn2, o2) := run_msgsN c na sn1 r in (sn2, o1 ++ o2)
  end.

(* ---- the fast queue across Irc.reset() ----
   sendMsg puts every registration line into irc.fastqueue; the driver takes them later (takeMsg).  Irc.reset()
   empties the queue (self.queue.reset(); self.fastqueue.reset()) before it queues CAP LS / NICK / USER, so nothing
   queued on the old connection is ever sent on the new one.  Queue items are tagged (ghost) with the number of the
   connection they were queued on. *)
Definition is_line (o : outev) : bool := match o with Send _ _ => true | SendCred _ _ => true | _ => false end.
(* the outputs after the last reconnect/die of a step, if there is one *)
Fixpoint last_conn (outs : list outev) : option (list outev) :=
  match outs with
  | [] => None
  | o :: r => match last_conn r with Some x => Some x | None => if is_abort o then Some r else None end
  end.
Definition count_abort (outs : list outev) : nat := length (filter is_abort outs).
Record qst := Qst { q_gen : nat; q_items : list (nat * outev) }.
Definition stepQ (c : cfg) (na : nat) (snq : st * nk * qst) (m : inmsg) : (st * nk * qst) * list outev * option exn :=
  let '(s, n, q) := snq in
  let '((s', n'), o, e) := stepN c na (s, n) m in
  let g' := (q_gen q + count_abort o + (if is_reset_msg m then 1 else 0))%nat in
  let tag := map (fun x => (g', x)) in
  let items' := if is_reset_msg m then tag (filter is_line o)
                else match last_conn o with
                     | Some suffix => tag (filter is_line suffix)
                     | None => q_items q ++ tag (filter is_line o)
                     end in
  ((s', n', Qst g' items'), o, e).
(* the driver takes everything that is queued *)
Definition takeQ (q : qst) : list (nat * outev) * qst := (q_items q, Qst (q_gen q) []).

(* ---- a conformant server that may also reject nicks ----
   State: rej = rejections it may still make; due = the welcome burst is owed (CAP END / USER was received while
   the nick was rejected); bad = it rejected the last NICK and has not received another one.
   At the start of a response it may reject the current nick (432/433/437); it then answers the batch; while the
   nick is rejected it withholds the welcome burst; a replacement NICK is rejected again or accepted, and the
   withheld welcome burst follows the accepted one. *)
Record sst := Sst { rej : nat; due : bool; bad : bool }.
Definition is_nick_out (o : outev) : bool := match o with Send cmd _ => seq_eqb cmd s_NICK | _ => false end.
Definition is_trigger (cap : bool) (o : outev) : bool :=
  match o with
  | Send cmd args => if cap then seq_eqb cmd s_CAP && match args with sub :: _ => seq_eqb sub s_END | [] => false end
                     else seq_eqb cmd s_USER
  | _ => false
  end.
Definition rejection : list inmsg := [INum 433 [s_STAR]].
(* fr: the nick was rejected at the start of this very response (a NICK in the batch is then the rejected one) *)
Definition answerN (v : srv) (fr : bool) (t : sst) (n : N) (o : outev) : list inmsg * sst :=
  if is_nick_out o then
    if fr || negb (bad t) then ([], t)
    else if N.odd n && Nat.ltb 0 (rej t) then (rejection, Sst (pred (rej t)) (due t) true)
    else (if due t then welcome (sv_motd v) else [], Sst (rej t) false false)
  else if is_trigger (sv_cap v) o then
    if bad t then ([], Sst (rej t) true true) else (welcome (sv_motd v), t)
  else (answer1 v n o, t).
Fixpoint answer_batchN (v : srv) (fr : bool) (t : sst) (choices : list N) (batch : list outev) : list inmsg * sst :=
  match batch with
  | [] => ([], t)
  | o :: r => let '(r1, t1) := answerN v fr t (hd 0 choices) o in
              let '(r2, t2) := answer_batchN v fr t1 (tl choices) r in (r1 ++ r2, t2)
  end.
(* one round: plan = the (0-based) rounds at whose start the server tries to reject the nick *)
Definition roundN (v : srv) (plan : list nat) (i : nat) (t : sst) (choices : list N) (batch : list outev) : list inmsg * sst :=
  let fr := existsb (Nat.eqb i) plan && negb (bad t) && Nat.ltb 0 (rej t) in
  let t0 := if fr then Sst (pred (rej t)) (due t) true else t in
  let '(rm, t') := answer_batchN v fr t0 choices batch in
  ((if fr then rejection else []) ++ rm, t').
(* the server state before answering the newest batch of the history (newest first), and the round number *)
Fixpoint stateN (v : srv) (plan : list nat) (k : nat) (choices : list N) (hist : list (list outev)) : sst * nat :=
  match hist with
  | [] => (Sst k false false, O)
  | b :: older =>
      match older with
      | [] => (Sst k false false, O)
      | b1 :: _ =>
          let '(t, i) := stateN v plan k choices older in
          (snd (roundN v plan i t (skipn (length (concat (tl older))) choices) b1), S i)
      end
  end.
Definition strategyN (v : srv) (plan : list nat) (k : nat) (choices : list N) (hist : list (list outev)) : list inmsg :=
  match hist with
  | [] => []
  | batch :: older =>
      let '(t, i) := stateN v plan k choices hist in
      fst (roundN v plan i t (skipn (length (concat older)) choices) batch)
  end.

(* ---- wire ---- *)
Definition gOS (v : value) : option str := gO gS v.
(* the credentials arrive as the base64 strings; the chunking is the model's *)
Definition gCfg (v : value) : cfg :=
  Cfg (gLS (nth_v 0 v)) (gB (nth_v 1 v)) (gLS (nth_v 2 v)) (auth_gen (gS (nth_v 3 v))) (auth_gen (gS (nth_v 4 v)))
      (gO gLS (nth_v 5 v)) (gB (nth_v 6 v)) (gB (nth_v 7 v)) (gB (nth_v 8 v)) (gS (nth_v 9 v)) (gZ (nth_v 10 v)).
Definition gState (v : value) : st :=
  St (gN (nth_v 0 v))
     (map (fun e => (gS (nth_v 0 e), gOS (nth_v 1 e))) (gL (nth_v 1 v)))
     (gLS (nth_v 2 v)) (gLS (nth_v 3 v)) (gLS (nth_v 4 v)) (gLS (nth_v 5 v)) (gOS (nth_v 6 v)) (gB (nth_v 7 v))
     (gO (fun d => (gLS (nth_v 0 d), gB (nth_v 1 d))) (nth_v 8 v)) (gB (nth_v 9 v)) (gB (nth_v 10 v)) false 0.
Definition vState (s : st) : value :=
  L [vN (fsm s); L (map (fun e => L [vS (fst e); vO vS (snd e)]) (ls s));
     vLS (req s); vLS (ack s); vLS (nak s); vLS (snext s); vO vS (scur s); vB (authed s);
     vO (fun d => L [vLS (fst d); vB (snd d)]) (dec s); vB (after s); vB (zombie s)].
Definition vOut (o : outev) : value :=
  match o with
  | Send cmd args => L [I 0; vS cmd; vLS args]
  | SendCred ch _ => L [I 0; vS s_AUTH; vLS [ch]]
  | GReq _ _ _ => L []
  | GEnd _ _ _ => L []
  | Reconnect None w => L [I 1; L []; vB w]
  | Reconnect (Some (h, p, a, f)) w => L [I 1; L [vS h; I p; I a; vB f]; vB w]
  | Die => L [I 2]
  | StoreSts h p => L [I 3; vS h; vS p]
  end.
Definition gMsg (v : value) : inmsg :=
  let a := nth_v 1 v in
  match gN (nth_v 0 v) with
  | 0 => ICap (gLS a)
  | 1 => IAuth (gLS a) (gB (nth_v 2 v)) (gB (nth_v 3 v))
  | 2 => INum (gN a) (gLS (nth_v 2 v))
  | 3 => IError (gLS a)
  | 4 => IPing (gLS a)
  | _ => IReset
  end.
Definition visible (o : outev) : bool := match o with GReq _ _ _ => false | GEnd _ _ _ => false | _ => true end.
Definition vExn (e : option exn) : value := match e with None => L [] | Some x => L [I (exn_code x)] end.

(* the conformant-server strategy on the wire: outputs as the server sees them, messages as it sends them *)
Definition gSrv (v : value) : srv := Srv (gB (nth_v 0 v)) (gLS (nth_v 1 v)) (gB (nth_v 2 v)).
Definition gOut (v : value) : outev :=
  match gN (nth_v 0 v) with
  | 0 => Send (gS (nth_v 1 v)) (gLS (nth_v 2 v))
  | 4 => SendCred (gS (nth_v 1 v)) true
  | 1 => Reconnect None (gB (nth_v 2 v))
  | 2 => Die
  | _ => StoreSts [] []
  end.
Definition vMsg (m : inmsg) : value :=
  match m with
  | ICap args => L [I 0; vLS args]
  | IAuth args b e => L [I 1; vLS args; vB b; vB e]
  | INum code args => L [I 2; I (Z.of_N code); vLS args]
  | IError args => L [I 3; vLS args]
  | IPing args => L [I 4; vLS args]
  | IReset => L [I 5]
  end.

(* run (0 (cfg state msg)) -> (state' outputs exn)     one step from a snapshot
   run (1 (policy parseDuration)) -> () | (port)        parseStsPolicy
   run (5 (srv choices history)) -> messages             the conformant-server strategy
   run (7 (srv plan k choices history)) -> messages      the conformant server that also rejects nicks
   run (8 (msg advertised)) -> advertised'               the server-side advertised set after a message
   run (9 (msg acked)) -> acked'                         what the server acknowledged after a message
   run (6 string) -> chunks                              authenticate_generator(string, base64ify=False) *)
Definition run (v : value) : value :=
  let p := nth_v 1 v in
  match gN (nth_v 0 v) with
  | 0 => let cv := nth_v 0 p in let sv := nth_v 1 p in
         let q0 := Qst 0 (map (fun x => (0%nat, gOut x)) (gL (nth_v 13 sv))) in
         let '(s', n', q', o, e) := stepQ (gCfg cv) (N.to_nat (gN (nth_v 11 cv)))
                                          (gState sv, Nk (N.to_nat (gN (nth_v 11 sv))) (gB (nth_v 12 sv)) (gB (nth_v 14 sv)) (gO (fun x => N.to_nat (gN x)) (nth_v 15 sv)), q0) (gMsg (nth_v 2 p)) in
         L [L (gL (vState s') ++ [vN (N.of_nat (alts n')); vB (tried n'); L (map (fun x => vOut (snd x)) (q_items q')); vB (renamed n'); vO (fun k => vN (N.of_nat k)) (cur_alt n')]);
            L (map vOut (filter visible o)); vExn e]
  | 7 => L (map vMsg (strategyN (gSrv (nth_v 0 p)) (map (fun x => N.to_nat (gN x)) (gL (nth_v 1 p))) (N.to_nat (gN (nth_v 2 p)))
                                (map gN (gL (nth_v 3 p))) (map (fun b => map gOut (gL b)) (gL (nth_v 4 p)))))
  | 1 => vO (fun pd => L [I (fst pd); I (snd pd)]) (parseStsPolicy2 (gS (nth_v 0 p)) (gB (nth_v 1 p)))
  | 8 => vLS (upd (gMsg (nth_v 0 p)) (gLS (nth_v 1 p)))
  | 9 => vLS (upd_ack (gMsg (nth_v 0 p)) (gLS (nth_v 1 p)))
  | 6 => vLS (auth_gen (gS p))
  | 5 => L (map vMsg (strategy (gSrv (nth_v 0 p)) (map gN (gL (nth_v 1 p))) (map (fun b => map gOut (gL b)) (gL (nth_v 2 p)))))
  | _ => L []
  end.
