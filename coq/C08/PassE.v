(* C08/PassE.v — every CAP REQ names only capabilities the SERVER currently
   advertises: the advertised set is computed from the server's own messages
   (CAP LS and CAP NEW add, CAP DEL withdraws, a driver reset starts over),
   independently of the bot's capabilities_ls; the invariant is that the bot's
   table never holds a capability outside it -- in particular CAP DEL removes the
   capability from capabilities_ls whether or not it was ever acknowledged. *)
From Coq Require Import List NArith ZArith Bool Arith Lia.
Import ListNotations.
Require Import Base.Wire Base.PyStr C08.Model C08.Frame C08.PassB.
Require C08.PassA.
Open Scope N_scope.

Definition AdvI (a : list str) (s : st) : Prop :=
  NoDup (map fst (ls s)) /\ forall x, In x (map fst (ls s)) -> In x a.
Definition OutE (a : list str) (o : outev) : Prop :=
  match o with GReq caps _ _ => forall x, In x caps -> In x a | _ => True end.

(* ---- dictionaries ---- *)
Lemma keys_dict_set_iff {A} k (v : A) d x : In x (map fst (dict_set k v d)) <-> x = k \/ In x (map fst d).
Proof.
  induction d as [|[k2 w] d IH]; cbn [dict_set map fst In]; [intuition|].
  destruct (seq_eqb k k2) eqn:E; cbn [map fst In].
  - apply seq_eqb_eq in E. subst k2. intuition.
  - rewrite IH. intuition.
Qed.
Lemma nodup_dict_set {A} k (v : A) d : NoDup (map fst d) -> NoDup (map fst (dict_set k v d)).
Proof.
  induction d as [|[k2 w] d IH]; cbn [dict_set map fst]; intro H; [constructor; [intros []|constructor]|].
  inversion H as [|x l Hn Hd]; subst. destruct (seq_eqb k k2) eqn:E; cbn [map fst].
  - constructor; assumption.
  - constructor; [|apply IH; exact Hd]. intro Hin. apply keys_dict_set_iff in Hin as [Hin|Hin]; [|contradiction].
    subst k2. rewrite seq_eqb_refl in E. discriminate.
Qed.
Lemma keys_ddel {A} k (d : list (str * A)) x : NoDup (map fst d) -> In x (map fst (ddel k d)) -> In x (map fst d) /\ x <> k.
Proof.
  induction d as [|[k2 w] d IH]; cbn [ddel map fst In]; intros Hn H; [destruct H|].
  inversion Hn as [|y l Hni Hd]; subst. destruct (seq_eqb k k2) eqn:E.
  - apply seq_eqb_eq in E. subst k2. split; [right; exact H|]. intro Ex. subst x. contradiction.
  - cbn [map fst In] in H. destruct H as [H|H].
    + subst x. split; [left; reflexivity|]. intro Ex. subst k2. rewrite seq_eqb_refl in E. discriminate.
    + destruct (IH Hd H) as [H1 H2]. split; [right; exact H1|exact H2].
Qed.
Lemma nodup_ddel {A} k (d : list (str * A)) : NoDup (map fst d) -> NoDup (map fst (ddel k d)).
Proof.
  induction d as [|[k2 w] d IH]; cbn [ddel map fst]; intro H; [constructor|].
  inversion H as [|y l Hni Hd]; subst. destruct (seq_eqb k k2); [exact Hd|]. cbn [map fst]. constructor; [|apply IH; exact Hd].
  intro Hin. apply (keys_ddel k d k2 Hd) in Hin as [Hin _]. contradiction.
Qed.
Lemma In_sremove_iff x y l : In x (sremove y l) <-> In x l /\ x <> y.
Proof.
  unfold sremove. rewrite filter_In. split; intros [H1 H2]; (split; [exact H1|]).
  - intro E. subst y. rewrite seq_eqb_refl in H2. discriminate.
  - apply negb_true_iff. apply seq_eqb_neq. intro E. apply H2. symmetry. exact E.
Qed.

Lemma AdvI_mono a a' s : (forall x, In x a -> In x a') -> AdvI a s -> AdvI a' s.
Proof. intros Hs [H1 H2]. split; [exact H1|]. intros x Hx. apply Hs. apply H2. exact Hx. Qed.
Lemma AdvI_same_ls a s s' : ls s' = ls s -> AdvI a s -> AdvI a s'.
Proof. intros E H. unfold AdvI. rewrite E. exact H. Qed.

(* ---- the handlers keep the table inside a fixed advertised set a ---- *)
Section E.
Variable c : cfg.
Variable a : list str.
Notation ok := (okR (AdvI a) (OutE a)).

Ltac es :=
  match goal with
  | |- okR _ _ (ret _) => apply ok_ret
  | |- okR _ _ (raise _ _) => apply ok_raise
  | |- okR _ _ (send _ _ _) => apply ok_emit; [|exact Logic.I]
  | |- okR _ _ (_ >>> _) => apply ok_andthen; [|intros ? ?]
  | |- okR _ _ (if ?b then _ else _) => destruct b eqn:?
  | |- okR _ _ (match ?x with _ => _ end) => destruct x eqn:?
  end.
Ltac same := match goal with H : AdvI a ?s |- AdvI a _ => revert H; apply AdvI_same_ls; reflexivity end.

Lemma AdvI_fresh z : AdvI a (fresh c z).
Proof. split; [constructor|intros x []]. Qed.
Lemma e_transition tbl s : AdvI a s -> ok (transition tbl s).
Proof. intro H. unfold transition. destruct (fire tbl (fsm s)); [apply ok_ret; same|apply ok_raise; exact H]. Qed.
Lemma e_expect l s : AdvI a s -> ok (expect l s).
Proof. intro H. unfold expect. destruct (mem (fsm s) l); [apply ok_ret|apply ok_raise]; exact H. Qed.
Lemma e_reset s : ok (reset c s).
Proof.
  unfold reset, queue_connect. generalize (AdvI_fresh (zombie s)). generalize (fresh c (zombie s)). intros s0 H.
  destruct (zombie s0); [apply ok_emit; [exact H|exact Logic.I]|].
  repeat (first [apply e_transition; assumption | es; try assumption]).
Qed.
Lemma e_reconnect s srv w : AdvI a s -> ok (reconnect c s srv w).
Proof. intro H. unfold reconnect. apply ok_andthen; [apply ok_emit; [exact H|exact Logic.I]|intros; apply e_reset]. Qed.
Lemma e_endCap s : AdvI a s -> ok (endCap c s).
Proof.
  intro H. unfold endCap. destruct (required_unauth c s); [apply e_reconnect; exact H|].
  destruct (outstanding s); [|apply ok_ret; exact H].
  apply ok_andthen; [apply e_transition; exact H|]. intros s1 H1.
  apply ok_andthen; [apply ok_emit; [exact H1|exact Logic.I]|]. intros s2 H2. apply ok_emit; [same|exact Logic.I].
Qed.
Lemma e_tryNext s : AdvI a s -> ok (tryNextSasl c s).
Proof.
  intro H. unfold tryNextSasl. es; [apply e_expect; exact H|].
  es.
  - es; [apply e_reconnect; assumption|]. es; [apply e_transition; same|]. es; [apply e_endCap|apply ok_ret]; assumption.
  - apply ok_emit; [same|exact Logic.I].
Qed.
Lemma e_maybe s : AdvI a s -> ok (maybeStartSasl c s).
Proof.
  intro H. unfold maybeStartSasl. es; [|es; [apply e_endCap|apply ok_ret]; exact H].
  es; [apply e_transition; exact H|]. es; [|apply ok_raise; assumption].
  apply e_tryNext. destruct o; [same|assumption].
Qed.
Lemma e_upkeep s : AdvI a s -> ok (capUpkeep c s).
Proof.
  intro H. unfold capUpkeep. es; [apply e_expect; exact H|].
  repeat (first [es | apply e_reconnect | apply e_maybe | apply e_endCap | assumption]).
Qed.
Lemma e_sts s p : AdvI a s -> ok (onCapSts c s p).
Proof.
  intro H. unfold onCapSts. es; [|apply ok_ret; exact H]. es; [apply ok_emit; [exact H|exact Logic.I]|].
  es; [apply e_transition; exact H|]. apply e_reconnect. assumption.
Qed.

Lemma AdvI_set_ls s k v : In k a -> AdvI a s -> AdvI a (set_ls s (dict_set k v (ls s))).
Proof.
  intros Hk [H1 H2]. split; cbn [set_ls set_caps ls].
  - apply nodup_dict_set. exact H1.
  - intros x Hx. apply keys_dict_set_iff in Hx as [Hx|Hx]; [subst; exact Hk|apply H2; exact Hx].
Qed.

Lemma e_addcaps items : (forall i, In i items -> In (cap_name i) a) -> forall s, AdvI a s -> ok (addCapabilities c items s).
Proof.
  induction items as [|item items IH]; intros Hi s H; cbn [addCapabilities]; [apply ok_ret; exact H|].
  apply ok_andthen; [|intros s1 H1; apply IH; [intros i Hin; apply Hi; right; exact Hin|exact H1]].
  pose proof (Hi item (or_introl eq_refl)) as Hn. unfold cap_name in Hn. cbv zeta in Hn.
  destruct (split1 [61] (strip_eq_tilde (length item) item)) as [[cp value]|].
  - es.
    + destruct (seq_eqb cp s_sts); [apply e_sts; exact H|apply ok_ret; exact H].
    + apply ok_ret. apply AdvI_set_ls; assumption.
  - es.
    + destruct (seq_eqb _ s_sts); [apply e_reconnect; exact H|apply ok_ret; exact H].
    + apply ok_ret. apply AdvI_set_ls; assumption.
Qed.

Lemma e_request s caps0 : AdvI a s -> (forall x, In x caps0 -> In x (map fst (ls s))) -> ok (requestCaps s caps0).
Proof.
  intros H Hc. unfold requestCaps. apply ok_fold.
  - apply ok_emit; [same|]. cbn [OutE]. intros x Hx. apply (proj2 H). apply Hc. revert Hx. clear.
    unfold request_list. set (sorted := sort_strs caps0).
    destruct (smem s_echo sorted && negb (smem s_label (ack s))) eqn:E.
    + apply andb_true_iff in E as [E1 _]. apply smem_In in E1. cbv zeta.
      destruct (smem s_label (sremove s_echo sorted)) eqn:E2.
      * apply smem_In in E2. apply In_sremove in E2.
        intros [Hx|[Hx|Hx]]; subst; [apply In_sort_strs; exact E1|apply In_sort_strs; exact E2|].
        apply In_sort_strs. apply In_sremove in Hx. apply In_sremove in Hx. exact Hx.
      * intro Hx. apply In_sort_strs. apply In_sremove in Hx. exact Hx.
    + intro Hx. apply In_sort_strs. exact Hx.
  - intros s1 line H1. apply ok_emit; [exact H1|exact Logic.I].
Qed.

Lemma e_chunks s chunks : AdvI a s -> ok (send_chunks s chunks).
Proof. intro H. unfold send_chunks. apply ok_fold; [apply ok_ret; exact H|]. intros s1 ch H1. apply ok_emit; [exact H1|exact Logic.I]. Qed.
Lemma e_auth s args b e : AdvI a s -> ok (doAuthenticate c s args b e).
Proof.
  intro H. unfold doAuthenticate. es; [apply e_expect; exact H|].
  destruct args as [|chunk rest]; [apply ok_raise; same|].
  destruct (match dec s0 with Some d => d | None => ([], false) end) as [chunks ready].
  repeat (first [ es | apply e_chunks; same | apply ok_emit; [same|exact Logic.I] | same | assumption ]).
Qed.
Lemma e_ack s args : AdvI a s -> ok (doCapAck c s args).
Proof.
  intro H. unfold doCapAck. destruct args as [|a0 [|a1 [|a2 [|a3 r]]]]; try (apply ok_ret; exact H).
  destruct (words a2); [apply ok_raise; exact H|]. apply e_upkeep. same.
Qed.
Lemma e_nak s args : AdvI a s -> ok (doCapNak c s args).
Proof.
  intro H. unfold doCapNak. destruct args as [|a0 [|a1 [|a2 [|a3 r]]]]; try (apply ok_ret; exact H).
  destruct (words a2); [apply ok_raise; exact H|]. apply e_upkeep. same.
Qed.
Lemma e_903 s : AdvI a s -> ok (do903 c s).
Proof.
  intro H. unfold do903. es; [apply e_transition; same|]. es; [apply e_endCap|apply ok_ret]; assumption.
Qed.
Lemma e_376 s : AdvI a s -> ok (do376 c s).
Proof.
  intro H. unfold do376. es; [apply e_reconnect; exact H|]. es; [apply e_transition; exact H|].
  es; [apply ok_emit; [same|exact Logic.I]|apply ok_ret; same].
Qed.

(* CAP LS / CAP NEW once the advertised names are in a *)
Lemma e_ls s args : (forall i, In i (words (last args [])) -> In (cap_name i) a) -> AdvI a s -> ok (doCapLs c s args).
Proof.
  intros Hi H. unfold doCapLs.
  destruct args as [|x0 [|x1 [|x2 [|x3 [|x4 r]]]]]; try (apply ok_ret; exact H).
  - es; [apply e_addcaps; [intros i Hin; apply Hi; exact Hin|exact H]|].
    es; [apply ok_ret; assumption|]. es; [apply e_expect; assumption|].
    destruct (new_caps c s1) as [|y nc] eqn:En; [apply e_endCap; assumption|].
    es; [apply e_request; [assumption|]; intros z Hz; rewrite <- En in Hz; apply (C08.PassA.new_caps_sound c s1 z) in Hz; tauto|].
    es; [apply ok_ret|apply e_endCap]; assumption.
  - es; [apply ok_ret; exact H|]. apply e_addcaps; [|exact H]. intros i Hin. apply Hi. exact Hin.
Qed.
Lemma e_new s args : (forall i, In i (words (last args [])) -> In (cap_name i) a) -> AdvI a s -> ok (doCapNew c s args).
Proof.
  intros Hi H. unfold doCapNew. destruct args as [|x0 [|x1 [|x2 [|x3 r]]]]; try (apply ok_ret; exact H).
  destruct (words x2) as [|w ws] eqn:Ew; [apply ok_raise; exact H|]. rewrite <- Ew.
  es; [apply e_addcaps; [intros i Hin; apply Hi; exact Hin|exact H]|].
  es; [apply ok_ret; assumption|].
  destruct (new_caps c s0) as [|y nc] eqn:En; [apply ok_ret; assumption|].
  apply e_request; [assumption|]. intros z Hz. rewrite <- En in Hz. apply (C08.PassA.new_caps_sound c s0 z) in Hz. tauto.
Qed.
End E.

(* ---- CAP DEL: the withdrawn capabilities leave the table, acknowledged or not ---- *)
Lemma e_del_fold ws : forall a s, AdvI a s ->
  AdvI (fold_left (fun a0 cp => sremove (del_name cp) a0) ws a)
       (fold_left (fun s cap0 =>
          let cap := match split_char 61 cap0 with x :: _ => x | [] => cap0 end in
          St (fsm s) (ddel cap (ls s)) (req s) (sremove cap (ack s)) (nak s) (snext s) (scur s) (authed s)
             (dec s) (after s) (zombie s) (g_acked s) (g_ends s)) ws s).
Proof.
  induction ws as [|w ws IH]; intros a s H; [exact H|]. cbn [fold_left]. apply IH.
  destruct H as [H1 H2]. split; cbn [ls].
  - apply nodup_ddel. exact H1.
  - intros x Hx. fold (del_name w) in Hx. apply (keys_ddel (del_name w) (ls s) x H1) in Hx as [Hx Hne].
    apply In_sremove_iff. split; [apply H2; exact Hx|exact Hne].
Qed.

Section Step.
Variable c : cfg.

Lemma sunion_incl a b x : In x a -> In x (sunion a b).
Proof. intro H. apply In_sunion. left. exact H. Qed.

Theorem step_adv a s m : AdvI a s -> okR (AdvI (upd m a)) (OutE (upd m a)) (step c s m).
Proof.
  intro H. destruct m as [args|args b e|code args|args|args|]; cbn [step upd].
  - destruct (cap_sub args) as [sub|] eqn:Es; [|apply ok_ret; exact H].
    destruct (seq_eqb sub [108;115]) eqn:E1.
    { (* LS *)
      destruct args as [|x0 [|x1 [|x2 [|x3 [|x4 r]]]]]; try (unfold doCapLs; apply ok_ret; exact H).
      - apply e_ls.
        + intros i Hi. apply In_sunion. right. apply in_map. exact Hi.
        + eapply AdvI_mono; [|exact H]. intros x Hx. apply sunion_incl. exact Hx.
      - destruct (seq_eqb x2 s_STAR) eqn:Est.
        + apply e_ls.
          * intros i Hi. apply In_sunion. right. apply in_map. exact Hi.
          * eapply AdvI_mono; [|exact H]. intros x Hx. apply sunion_incl. exact Hx.
        + unfold doCapLs. rewrite Est. apply ok_ret. exact H. }
    destruct (seq_eqb sub [97;99;107]) eqn:E2.
    { apply seq_eqb_eq in E2. subst sub. change (seq_eqb [97;99;107] [110;101;119]) with false. change (seq_eqb [97;99;107] [100;101;108]) with false.
      cbv iota. apply e_ack. exact H. }
    destruct (seq_eqb sub [110;97;107]) eqn:E3.
    { apply seq_eqb_eq in E3. subst sub. change (seq_eqb [110;97;107] [110;101;119]) with false. change (seq_eqb [110;97;107] [100;101;108]) with false.
      cbv iota. apply e_nak. exact H. }
    destruct (seq_eqb sub [110;101;119]) eqn:E4.
    { destruct args as [|x0 [|x1 [|x2 [|x3 r]]]]; try (unfold doCapNew; apply ok_ret; exact H).
      apply e_new.
      - intros i Hi. apply In_sunion. right. apply in_map. exact Hi.
      - eapply AdvI_mono; [|exact H]. intros x Hx. apply sunion_incl. exact Hx. }
    destruct (seq_eqb sub [100;101;108]) eqn:E5; [|apply ok_ret; exact H].
    unfold doCapDel. destruct args as [|x0 [|x1 [|x2 [|x3 r]]]]; try (apply ok_ret; exact H).
    destruct (words x2) as [|w ws] eqn:Ew; [apply ok_raise; exact H|]. apply ok_ret. apply e_del_fold. exact H.
  - apply e_auth. exact H.
  - repeat (first [ match goal with |- okR _ _ (if ?b then _ else _) => destruct b end
                  | apply e_903 | apply e_tryNext | apply e_transition | apply e_376 | assumption ]).
    + unfold do908. destruct args as [|x [|y r]]; apply ok_raise; exact H.
    + unfold do43x. destruct (after s); [apply ok_ret|apply ok_emit; [|exact Logic.I]]; exact H.
    + apply ok_ret. exact H.
  - unfold doError. destruct args as [|t r]; [apply ok_raise; exact H|].
    repeat (first [ match goal with |- okR _ _ (if ?b then _ else _) => destruct b end | apply e_reconnect | apply ok_ret | assumption ]).
  - unfold doPing. destruct args; [apply ok_raise|apply ok_emit; [|exact Logic.I]]; exact H.
  - apply e_reset.
Qed.
End Step.

(* ---- every history: the outputs tagged with the advertised set at the time ---- *)
Fixpoint run_tag (c : cfg) (s : st) (a : list str) (ms : list inmsg) : st * list str * list (outev * list str) :=
  match ms with
  | [] => (s, a, [])
  | m :: r => let '(s1, o1, _) := step c s m in
              let a1 := upd m a in
              let '(s2, a2, o2) := run_tag c s1 a1 r in (s2, a2, map (fun o => (o, a1)) o1 ++ o2)
  end.
Lemma run_tag_outs c ms : forall s a, map fst (snd (run_tag c s a ms)) = snd (run_msgs c s ms).
Proof.
  induction ms as [|m ms IH]; intros s a; [reflexivity|]. cbn [run_tag run_msgs]. destruct (step c s m) as [[s1 o1] e1].
  specialize (IH s1 (upd m a)). destruct (run_tag c s1 (upd m a) ms) as [[s2 a2] o2]. destruct (run_msgs c s1 ms) as [s3 o3].
  cbn [snd] in *. rewrite map_app, map_map, IH. cbn [fst]. rewrite map_id. reflexivity.
Qed.

Theorem run_adv c ms : forall s a, AdvI a s ->
  let r := run_tag c s a ms in
  AdvI (snd (fst r)) (fst (fst r)) /\ Forall (fun oa => OutE (snd oa) (fst oa)) (snd r).
Proof.
  induction ms as [|m ms IH]; intros s a H; [split; [exact H|constructor]|]. cbv zeta. cbn [run_tag].
  destruct (step_adv c a s m H) as [Hi Ho]. destruct (step c s m) as [[s1 o1] e1]. cbn [rstate routs fst snd] in Hi, Ho.
  specialize (IH s1 (upd m a) Hi). cbv zeta in IH. destruct (run_tag c s1 (upd m a) ms) as [[s2 a2] o2]. cbn [fst snd] in *.
  destruct IH as [Hi2 Ho2]. split; [exact Hi2|]. apply Forall_app. split; [|exact Ho2].
  apply Forall_forall. intros [o a'] Hin. apply in_map_iff in Hin as [o' [E Hin]]. inversion E; subst. cbn [fst snd].
  rewrite Forall_forall in Ho. apply Ho. exact Hin.
Qed.

(* the scenario of the seeded change: LS batch echo-message / (echo-message withheld) / DEL echo-message / NEW
   labeled-response: the request names labeled-response only; and the server-side set is what it should be *)
Example del_unacked_not_requested :
  let c := Cfg [s_echo; s_label; [98;97;116;99;104]] false [] [] [] None false false true [104] 3 in
  let ms := [ICap [[42]; s_LS; [98;97;116;99;104] ++ [32] ++ s_echo]; ICap [[42]; [65;67;75]; [98;97;116;99;104]];
             ICap [[42]; [68;69;76]; s_echo]; ICap [[42]; [78;69;87]; s_label]] in
  let r := run_tag c (rstate (reset c (fresh c false))) [] ms in
  snd (fst r) = [[98;97;116;99;104]; s_label] /\
  filter (fun oa => match fst oa with GReq _ _ _ => true | _ => false end) (snd r)
  = [(GReq [[98;97;116;99;104]] [[98;97;116;99;104]; s_echo] [], [[98;97;116;99;104]; s_echo]);
     (GReq [s_label] [[98;97;116;99;104]; s_label] [[98;97;116;99;104]], [[98;97;116;99;104]; s_label])].
Proof. vm_compute. split; reflexivity. Qed.

(* ---- 'sasl' is a wanted capability only on a network with a usable mechanism ---- *)
(* the configuration as Irc.resetSasl / _wantedCapabilities build it: 'sasl' is in the wanted set only if sasl_next_mechanisms is non-empty *)
Definition wanted_ok (c : cfg) : Prop := smem s_sasl (c_wanted c) = true -> c_mechs c <> [].
Theorem sasl_requested_only_with_mechanisms c ms s : wanted_ok c -> C08.PassA.InvA s ->
  forall caps adv acked, In (GReq caps adv acked) (snd (run_msgs c s ms)) -> In s_sasl caps -> c_mechs c <> [].
Proof.
  intros Hw Hi caps adv acked Hin Hs. apply Hw.
  destruct (C08.PassA.ok_run c ms s Hi) as [_ Ho]. rewrite Forall_forall in Ho. specialize (Ho _ Hin). cbn in Ho.
  destruct Ho as [Ho _]. apply (Ho s_sasl Hs).
Qed.
