(* C08/Live2.v — the liveness clause for configurations WITH SASL mechanisms
   (PLAIN / EXTERNAL: one AUTHENTICATE + round and one credential round per
   mechanism), on top of Live.v.  Measure: 2 * (mechanisms left) + rounds of
   the phase; bound 2 * |mechanisms| + 3 rounds. *)
From Coq Require Import List NArith ZArith Bool Arith Lia.
Import ListNotations.
Require Import Base.Wire Base.PyStr C08.Model C08.Frame C08.PassB C08.PassC C08.PassD C08.Chunk C08.Live.
Require C08.PassA.
Open Scope N_scope.

Definition okmech (m : str) : Prop := m = s_plain \/ m = s_external.
(* the configurations covered: capability names are tokens; the mechanisms are PLAIN / EXTERNAL; the PLAIN
   response is a payload (what authenticate_generator produces: C08_sasl_payload_ends) *)
Definition cfg_ok (c : cfg) : Prop :=
  Forall token (c_wanted c) /\ Forall okmech (c_mechs c) /\ payload (c_plain c).

(* table facts *)
Lemma sasl_cap_fires : fire gen.T08.EV_on_sasl_cap INIT_CAP = Some INIT_SASL.
Proof. vm_compute. reflexivity. Qed.
Lemma auth_finished_fires : fire gen.T08.EV_on_sasl_auth_finished INIT_SASL = Some INIT_CAP.
Proof. vm_compute. reflexivity. Qed.
Lemma try_expected : mem INIT_SASL gen.T08.EXPECT_tryNextSaslMechanism = true.
Proof. vm_compute. reflexivity. Qed.
Lemma auth_expected : mem INIT_SASL gen.T08.EXPECT_doAuthenticate = true.
Proof. vm_compute. reflexivity. Qed.
Lemma upkeep_not_sasl : mem INIT_SASL gen.T08.EXPECT_capUpkeep = false.
Proof. vm_compute. reflexivity. Qed.
Lemma plus_final : final_chunk s_PLUS = true.
Proof. vm_compute. reflexivity. Qed.

Lemma dict_get_keys {A} k (d : list (str * A)) : In k (map fst d) -> exists v, dict_get k d = Some v.
Proof.
  induction d as [|[k2 v] d IH]; cbn [map fst In dict_get]; [intros []|].
  intros [E|H]; [subst; rewrite seq_eqb_refl; eexists; reflexivity|].
  destruct (seq_eqb k k2); [eexists; reflexivity|apply IH; exact H].
Qed.
Lemma filter_len {A} (f : A -> bool) l : (length (filter f l) <= length l)%nat.
Proof. induction l as [|x l IH]; cbn [filter length]; [lia|]. destruct (f x); cbn [length]; lia. Qed.
Lemma Forall_filter {A} (P : A -> Prop) f l : Forall P l -> Forall P (filter f l).
Proof. intro H. apply Forall_forall. intros x Hx. apply filter_In in Hx as [Hx _]. rewrite Forall_forall in H. apply H. exact Hx. Qed.

Lemma outstanding_inv s x : outstanding s = [] -> In x (req s) -> In x (ack s) \/ In x (nak s).
Proof.
  intros Ho Hx. destruct (smem x (ack s)) eqn:E; [left; apply smem_In; exact E|right].
  apply (sdiff_nil_inv _ _ Ho). unfold sdiff. apply filter_In. split; [exact Hx|rewrite E; reflexivity].
Qed.

(* ---- phases of the SASL exchange ---- *)
Definition sidle (s : st) : Prop := authed s = false /\ dec s = None /\ Forall okmech (snext s).
(* the state part: inside the exchange, nothing outstanding *)
Definition InS (s : st) : Prop := fsm s = INIT_SASL /\ sidle s /\ outstanding s = [].
(* the mechanism name was sent *)
Definition PhS (s : st) (b : list outev) : Prop :=
  InS s /\ exists m q, okmech m /\ scur s = Some m /\ b = q ++ [Send s_AUTH [upper m]] /\ Forall quiet q.
(* the credentials were sent *)
Definition PhC (s : st) (b : list outev) : Prop :=
  InS s /\ exists g chunks, payload chunks /\ b = map (fun ch => SendCred ch g) chunks.

Lemma PhS_prefix q0 s b : Forall quiet q0 -> PhS s b -> PhS s (q0 ++ b).
Proof.
  intros Hq [Hi [m [q [Hm [Hc [E Hq']]]]]]. split; [exact Hi|]. exists m, (q0 ++ q). rewrite E, app_assoc.
  repeat split; try assumption. apply Forall_app. split; assumption.
Qed.

Section Live2.
Variable c : cfg.
Hypothesis Hok : cfg_ok c.

(* outcome of a step that may start / continue / end the exchange; n bounds the mechanisms left afterwards *)
Definition Q4 (n : nat) (s : st) (o : list outev) : Prop :=
  aborted o \/ PhE s o \/ (PhS s o /\ (S (length (snext s)) <= n)%nat).

Lemma Q4_endCap n s : fsm s = INIT_CAP -> outstanding s = [] -> Q4 n (rstate (endCap c s)) (routs (endCap c s)).
Proof. intros Hf Ho. destruct (ec_endCap c s Hf Ho) as [H|H]; [left|right; left]; exact H. Qed.

(* tryNextSaslMechanism inside the exchange: the next mechanism, or the end of the exchange, or the connection is dropped *)
Lemma try_next s : InS s -> Q4 (length (snext s)) (rstate (tryNextSasl c s)) (routs (tryNextSasl c s)).
Proof.
  intros [Hf [[Ha [Hd Hm]] Ho]]. unfold tryNextSasl, expect. rewrite Hf, try_expected, andthen_ret.
  destruct (snext s) as [|m rest] eqn:En.
  - destruct (c_required c); [left; apply reconnect_aborts|].
    unfold transition. cbn [with_sasl fsm]. rewrite Hf, auth_finished_fires, andthen_ret. cbn [set_fsm fsm].
    change (N.eqb INIT_CAP INIT_CAP) with true. cbv iota. apply Q4_endCap; [reflexivity|exact Ho].
  - right. right. inversion Hm as [|m' r' Hm1 Hm2]; subst. unfold send, emit. cbn [rstate routs fst snd with_sasl snext length]. split; [|lia].
    split; [split; [exact Hf|split; [split; [exact Ha|split; [exact Hd|exact Hm2]]|exact Ho]]|].
    exists m, []. repeat split; try assumption. constructor.
Qed.

(* _maybeStartSasl after the last ACK/NAK *)
Lemma maybe_start s :
  fsm s = INIT_CAP -> sidle s -> outstanding s = [] -> smem s_sasl (ack s) = true -> In s_sasl (map fst (ls s)) ->
  Q4 (length (snext s)) (rstate (maybeStartSasl c s)) (routs (maybeStartSasl c s)).
Proof.
  intros Hf [Ha [Hd Hm]] Ho Hs Hk. unfold maybeStartSasl. rewrite Ha, Hs. cbn [negb andb].
  unfold transition. rewrite Hf, sasl_cap_fires, andthen_ret. cbn [set_fsm ls].
  destruct (dict_get_keys _ _ Hk) as [v Ev]. rewrite Ev.
  set (s0 := set_fsm s INIT_SASL).
  assert (H0 : InS s0) by (split; [reflexivity|split; [split; [exact Ha|split; [exact Hd|exact Hm]]|exact Ho]]).
  destruct v as [mechs|].
  - set (s1 := with_sasl s0 (filter (fun x => smem (lower x) (map lower (comma_split mechs))) (snext s0)) (scur s0)).
    assert (H1 : InS s1).
    { split; [reflexivity|]. split; [split; [exact Ha|split; [exact Hd|apply Forall_filter; exact Hm]]|exact Ho]. }
    pose proof (try_next s1 H1) as Ht. unfold Q4 in *. cbn [s1 with_sasl snext] in Ht.
    pose proof (filter_len (fun x => smem (lower x) (map lower (comma_split mechs))) (snext s)) as Hl.
    destruct Ht as [H|[H|[H Hn]]]; [left; exact H|right; left; exact H|right; right; split; [exact H|]].
    cbn [s0 set_fsm snext] in Hn. lia.
  - exact (try_next s0 H0).
Qed.

(* ---- the answers to the CAP REQ lines, now possibly starting the exchange ---- *)
Definition Wt2 (M : nat) (rq : list str) (s : st) (ws : list str) : Prop :=
  fsm s = INIT_CAP /\ req s = rq /\ (forall x, In x (ack s) \/ In x (nak s) -> In x rq) /\
  ssubset rq (sunion (ack s) (nak s)) = false /\ sidle s /\ (length (snext s) <= M)%nat /\
  (forall x, In x rq -> In x (map fst (ls s))) /\ (forall x, In x ws -> In x (ack s) \/ In x (nak s)).
Definition R4 (M : nat) (rq ws : list str) (s : st) (o : list outev) : Prop :=
  (o = [] /\ Wt2 M rq s ws) \/ Q4 M s o.

Lemma upkeep_step2 M rq s2 ws2 :
  fsm s2 = INIT_CAP -> req s2 = rq -> (forall x, In x (ack s2) \/ In x (nak s2) -> In x rq) -> sidle s2 ->
  (length (snext s2) <= M)%nat -> (forall x, In x rq -> In x (map fst (ls s2))) ->
  (forall x, In x ws2 -> In x (ack s2) \/ In x (nak s2)) ->
  R4 M rq ws2 (rstate (capUpkeep c s2)) (routs (capUpkeep c s2)).
Proof.
  intros Hf Hr Hsub Hi HM Hk Hws. unfold capUpkeep, expect. rewrite Hf, upkeep_expected, andthen_ret.
  assert (E1 : ssubset (sunion (ack s2) (nak s2)) (req s2) = true).
  { apply ssubset_intro. intros x Hx. apply In_sunion in Hx. rewrite Hr. apply Hsub. exact Hx. }
  rewrite E1. cbn [negb]. destruct (ssubset (req s2) (sunion (ack s2) (nak s2))) eqn:Es.
  - assert (Ho : outstanding s2 = []).
    { apply outstanding_answered. intros x Hx. apply In_sunion. eapply ssubset_elim; [exact Es|exact Hx]. }
    right. destruct (smem s_sasl (ack s2)) eqn:Esasl.
    + rewrite Hf. change (N.eqb INIT_CAP INIT_CAP || N.eqb INIT_CAP CONNECTED) with true. cbv iota.
      assert (Hks : In s_sasl (map fst (ls s2))) by (apply Hk; apply Hsub; left; apply smem_In; exact Esasl).
      pose proof (maybe_start s2 Hf Hi Ho Esasl Hks) as H. unfold Q4 in *.
      destruct H as [H|[H|[H Hn]]]; [left; exact H|right; left; exact H|right; right; split; [exact H|lia]].
    + rewrite Hf. change (negb (N.eqb INIT_CAP CONNECTED)) with true. cbv iota. apply Q4_endCap; assumption.
  - left. split; [reflexivity|]. cbn [ret rstate fst]. rewrite Hr in Es. repeat split; try assumption; apply Hi.
Qed.

Lemma req_step2 M rq s ws line m :
  Wt2 M rq s ws -> (forall x, In x (words line) -> In x rq) -> ans_line line m ->
  R4 M rq (ws ++ words line) (rstate (step c s m)) (routs (step c s m)).
Proof.
  intros [Hf [Hr [Hsub [Hflag [Hi [HM [Hk Hws]]]]]]] Hl [y [E|E]]; subst m.
  - rewrite step_ack. unfold doCapAck. destruct (words line) as [|w ws'] eqn:Ew.
    + left. split; [reflexivity|]. rewrite app_nil_r. repeat split; try assumption; apply Hi.
    + apply upkeep_step2; cbn [set_caps fsm req ack nak snext ls]; try assumption.
      * intros x [Hx|Hx]; [apply In_sunion in Hx as [Hx|Hx]; [apply Hsub; left; exact Hx|apply Hl; exact Hx]|apply Hsub; right; exact Hx].
      * intros x Hx. apply in_app_iff in Hx as [Hx|Hx].
        -- destruct (Hws x Hx) as [H|H]; [left; apply In_sunion; left; exact H|right; exact H].
        -- left. apply In_sunion. right. exact Hx.
  - rewrite step_nak. unfold doCapNak. destruct (words line) as [|w ws'] eqn:Ew.
    + left. split; [reflexivity|]. rewrite app_nil_r. repeat split; try assumption; apply Hi.
    + apply upkeep_step2; cbn [set_caps fsm req ack nak snext ls]; try assumption.
      * intros x [Hx|Hx]; [apply Hsub; left; exact Hx|apply In_sunion in Hx as [Hx|Hx]; [apply Hsub; right; exact Hx|apply Hl; exact Hx]].
      * intros x Hx. apply in_app_iff in Hx as [Hx|Hx].
        -- destruct (Hws x Hx) as [H|H]; [left; exact H|right; apply In_sunion; left; exact H].
        -- right. apply In_sunion. right. exact Hx.
Qed.

(* an ACK/NAK that arrives once the exchange has started only grows ack/nak *)
Definition SameS (s s' : st) : Prop :=
  fsm s' = fsm s /\ authed s' = authed s /\ dec s' = dec s /\ snext s' = snext s /\ scur s' = scur s /\ req s' = req s /\
  (forall x, In x (ack s) -> In x (ack s')) /\ (forall x, In x (nak s) -> In x (nak s')).
Lemma SameS_refl s : SameS s s.
Proof. repeat split; auto. Qed.
Lemma SameS_trans a b d : SameS a b -> SameS b d -> SameS a d.
Proof.
  intros [A1 [A2 [A3 [A4 [A5 [A6 [A7 A8]]]]]]] [B1 [B2 [B3 [B4 [B5 [B6 [B7 B8]]]]]]].
  repeat split; try congruence; auto.
Qed.
Lemma InS_same s s' : SameS s s' -> InS s -> InS s'.
Proof.
  intros [A1 [A2 [A3 [A4 [A5 [A6 [A7 A8]]]]]]] [Hf [[Ha [Hd Hm]] Ho]].
  split; [congruence|]. split; [split; [congruence|split; [congruence|rewrite A4; exact Hm]]|].
  apply outstanding_answered. intros x Hx. rewrite A6 in Hx. destruct (outstanding_inv s x Ho Hx) as [H|H]; auto.
Qed.
Lemma stray_step2 s line m : fsm s = INIT_SASL -> ans_line line m ->
  SameS s (rstate (step c s m)) /\ routs (step c s m) = [].
Proof.
  intros Hf [y [E|E]]; subst m.
  - rewrite step_ack. unfold doCapAck. destruct (words line); [split; [apply SameS_refl|reflexivity]|].
    unfold capUpkeep, expect. cbn [set_caps fsm]. rewrite Hf, upkeep_not_sasl. split; [|reflexivity].
    cbn [raise andthen rstate fst]. repeat split; auto. cbn [set_caps ack]. intros x Hx. apply In_sunion. left. exact Hx.
  - rewrite step_nak. unfold doCapNak. destruct (words line); [split; [apply SameS_refl|reflexivity]|].
    unfold capUpkeep, expect. cbn [set_caps fsm]. rewrite Hf, upkeep_not_sasl. split; [|reflexivity].
    cbn [raise andthen rstate fst]. repeat split; auto. cbn [set_caps nak]. intros x Hx. apply In_sunion. left. exact Hx.
Qed.
Lemma stray_run2 lines : forall msgs s, Forall2 ans_line lines msgs -> fsm s = INIT_SASL ->
  SameS s (fst (run_msgs c s msgs)) /\ snd (run_msgs c s msgs) = [].
Proof.
  induction lines as [|l lines IH]; intros msgs s H2 Hf; inversion H2 as [|l' m ls' ms Hm Hrest]; subst; [split; [apply SameS_refl|reflexivity]|].
  cbn [run_msgs]. destruct (stray_step2 s l m Hf Hm) as [Hs1 Ho1]. destruct (step c s m) as [[s1 o1] e1]. cbn [rstate routs fst snd] in *.
  assert (Hf1 : fsm s1 = INIT_SASL) by (destruct Hs1 as [A _]; congruence).
  destruct (IH ms s1 Hrest Hf1) as [Hs2 Ho2]. destruct (run_msgs c s1 ms) as [s2 o2]. cbn [fst snd] in *. subst.
  split; [eapply SameS_trans; eassumption|reflexivity].
Qed.
Lemma PhS_same s s' b : SameS s s' -> PhS s b -> PhS s' b.
Proof.
  intros Hs [Hi [m [q [Hm [Hc H]]]]]. split; [eapply InS_same; eassumption|]. exists m, q. split; [exact Hm|]. split; [|exact H].
  destruct Hs as [_ [_ [_ [_ [A5 _]]]]]. congruence.
Qed.

Lemma req_run2 M rq lines : forall msgs s ws, Forall2 ans_line lines msgs -> Wt2 M rq s ws ->
  (forall l, In l lines -> forall x, In x (words l) -> In x rq) ->
  R4 M rq (ws ++ concat (map words lines)) (fst (run_msgs c s msgs)) (snd (run_msgs c s msgs)).
Proof.
  induction lines as [|l lines IH]; intros msgs s ws H2 Hw Hl; inversion H2 as [|l' m ls' ms Hm Hrest]; subst.
  - left. cbn. rewrite app_nil_r. split; [reflexivity|exact Hw].
  - cbn [run_msgs map concat].
    pose proof (req_step2 M rq s ws l m Hw (Hl l (or_introl eq_refl)) Hm) as Hs.
    destruct (step c s m) as [[s1 o1] e1]. cbn [rstate routs fst snd] in Hs. destruct Hs as [[Ho Hw1]|[Ha|[He|[Hp Hn]]]].
    + subst o1. specialize (IH ms s1 (ws ++ words l) Hrest Hw1 (fun l0 H0 => Hl l0 (or_intror H0))).
      destruct (run_msgs c s1 ms) as [s2 o2]. cbn [fst snd app] in *. rewrite app_assoc. exact IH.
    + destruct (run_msgs c s1 ms) as [s2 o2]. right. left. cbn [snd]. apply aborted_app_l. exact Ha.
    + destruct He as [Hf1 Hq]. destruct (stray_run c lines ms s1 Hrest Hf1) as [Hf2 Ho2].
      destruct (run_msgs c s1 ms) as [s2 o2]. cbn [fst snd] in *. subst o2. rewrite app_nil_r. right. right. left. split; assumption.
    + assert (Hf1 : fsm s1 = INIT_SASL) by (destruct Hp as [[A _] _]; exact A).
      destruct (stray_run2 lines ms s1 Hrest Hf1) as [Hs2 Ho2].
      destruct (run_msgs c s1 ms) as [s2 o2]. cbn [fst snd] in *. subst o2. rewrite app_nil_r. right. right. right.
      split; [eapply PhS_same; eassumption|]. destruct Hs2 as [_ [_ [_ [A4 _]]]]. rewrite A4. exact Hn.
Qed.

(* ---- the final line of the CAP LS reply ---- *)
Definition PhR2 (M : nat) (s : st) (b : list outev) : Prop :=
  fsm s = INIT_CAP /\ ack s = [] /\ nak s = [] /\ sidle s /\ (length (snext s) <= M)%nat /\
  exists q caps, b = q ++ map req_line (wrap_caps caps) /\ Forall quiet q /\ Forall token caps /\ caps <> [] /\
    (forall x, In x (req s) <-> In x caps) /\ (forall x, In x caps -> In x (map fst (ls s))).
Definition Q5 (M : nat) (r : R) : Prop := aborted (routs r) \/ PhE (rstate r) (routs r) \/ PhR2 M (rstate r) (routs r).

Lemma PhR2_prefix M q0 s b : Forall quiet q0 -> PhR2 M s b -> PhR2 M s (q0 ++ b).
Proof.
  intros Hq [Hf [Ha [Hn [Hi [HM [q [caps [E H]]]]]]]]. repeat (split; [assumption|]).
  exists (q0 ++ q), caps. rewrite E, app_assoc. split; [reflexivity|]. destruct H as [Hq' H]. split; [|exact H].
  apply Forall_app. split; assumption.
Qed.
Lemma Q5_after M s1 o1 k : Forall quiet o1 -> Q5 M (k s1) -> Q5 M ((s1, o1, None) >>> k).
Proof.
  intros Hq H. cbn [andthen]. destruct (k s1) as [[s' o'] e']. unfold Q5 in *. cbn [routs rstate fst snd] in *.
  destruct H as [H|[H|H]].
  - left. apply aborted_app_r. exact H.
  - right. left. apply PhE_prefix; assumption.
  - right. right. apply PhR2_prefix; assumption.
Qed.
Lemma Q5_endCap M s : fsm s = INIT_CAP -> outstanding s = [] -> Q5 M (endCap c s).
Proof. intros Hf Ho. destruct (ec_endCap c s Hf Ho) as [H|H]; [left|right; left]; exact H. Qed.

Lemma ls_final2 M s x caps :
  fsm s = INIT_CAP -> req s = [] -> ack s = [] -> nak s = [] -> sidle s -> (length (snext s) <= M)%nat ->
  Q5 M (doCapLs c s [x; s_LS; caps]).
Proof.
  intros Hf Hr Ha Hn [Hau [Hde Hme]] HM. unfold doCapLs.
  pose proof (ac_addcaps c s (words caps) s eq_refl) as Hac.
  destruct (addCapabilities c (words caps) s) as [[s1 o1] e1] eqn:Eac.
  destruct Hac as [Hab|[Hc [He Hq]]]; cbn [routs rstate rexn fst snd] in *.
  - left. apply abort_andthen. exact Hab.
  - subst e1. unfold core in Hc.
    assert (Hf1 : fsm s1 = INIT_CAP) by congruence. assert (Hr1 : req s1 = []) by congruence.
    assert (Ha1 : ack s1 = []) by congruence. assert (Hn1 : nak s1 = []) by congruence.
    assert (Hi1 : sidle s1).
    { split; [congruence|]. split; [congruence|]. replace (snext s1) with (snext s) by congruence. exact Hme. }
    assert (HM1 : (length (snext s1) <= M)%nat) by (replace (snext s1) with (snext s) by congruence; exact HM).
    apply Q5_after; [exact Hq|].
    rewrite Hf1. change (N.eqb INIT_CAP SHUTTING_DOWN) with false. cbv iota.
    unfold expect. rewrite Hf1, ls_expected, andthen_ret.
    assert (Hout1 : outstanding s1 = []) by (unfold outstanding; rewrite Hr1; reflexivity).
    destruct (new_caps c s1) as [|y nc] eqn:En; [apply Q5_endCap; assumption|].
    set (caps1 := request_list s1 (y :: nc)).
    assert (Hsub : forall z, In z caps1 -> smem z (c_wanted c) = true /\ In z (map fst (ls s1))).
    { intros z Hz. apply In_request_list in Hz. rewrite <- En in Hz. apply (C08.PassA.new_caps_sound c s1 z) in Hz. exact Hz. }
    assert (Htok : Forall token caps1).
    { apply Forall_forall. intros z Hz. destruct Hok as [Ht _]. rewrite Forall_forall in Ht. apply Ht. apply smem_In. apply Hsub. exact Hz. }
    unfold requestCaps, requested_something, emit. fold caps1. rewrite send_lines.
    set (s2 := set_caps s1 (ls s1) (sunion (req s1) caps1) (ack s1) (nak s1)).
    destruct (wrap_caps caps1) as [|l lines] eqn:Ew.
    + assert (Ec : caps1 = []) by (rewrite <- (wrap_caps_words caps1 Htok), Ew; reflexivity).
      assert (Hout2 : outstanding s2 = []).
      { unfold outstanding, s2. cbn [set_caps req ack nak]. rewrite Hr1, Ec. reflexivity. }
      apply Q5_after; [constructor; [exact Logic.I|constructor]|]. apply Q5_endCap; [exact Hf1|exact Hout2].
    + right. right. cbn [andthen ret rstate routs fst snd]. rewrite app_nil_r.
      split; [exact Hf1|]. split; [exact Ha1|]. split; [exact Hn1|]. split; [exact Hi1|]. split; [exact HM1|].
      exists [GReq caps1 (map fst (ls s1)) (ack s1)], caps1. split; [rewrite Ew; reflexivity|].
      split; [constructor; [exact Logic.I|constructor]|]. split; [exact Htok|].
      split; [intro E; rewrite E in Ew; discriminate|]. split.
      * intro z. unfold s2. cbn [set_caps req]. rewrite In_sunion, Hr1. cbn [In]. tauto.
      * intros z Hz. unfold s2. cbn [set_caps ls]. apply Hsub. exact Hz.
Qed.

(* ---- the steps of the exchange ---- *)
Lemma send_chunks_eq chunks : forall s o,
  fold_left (fun (r : R) ch => r >>> fun s => emit s (SendCred ch (g_acked s))) chunks (s, o, None)
  = (s, o ++ map (fun ch => SendCred ch (g_acked s)) chunks, None).
Proof.
  induction chunks as [|ch chunks IH]; intros s o; cbn [fold_left map]; [rewrite app_nil_r; reflexivity|].
  unfold emit at 2. cbn [andthen]. rewrite IH, <- app_assoc. reflexivity.
Qed.

(* AUTHENTICATE + from the server: the credentials go out, as a payload *)
Lemma auth_plus s m : InS s -> scur s = Some m -> okmech m ->
  PhC (rstate (doAuthenticate c s [s_PLUS] true true)) (routs (doAuthenticate c s [s_PLUS] true true)) /\
  snext (rstate (doAuthenticate c s [s_PLUS] true true)) = snext s.
Proof.
  intros [Hf [[Ha [Hd Hm]] Ho]] Hc Hok1. unfold doAuthenticate, expect. rewrite Hf, auth_expected, andthen_ret, Hd.
  change (seq_eqb s_PLUS s_PLUS) with true. cbn [orb negb]. cbv iota. cbn [set_dec scur]. rewrite Hc.
  assert (Hi : InS (set_dec s None)) by (split; [exact Hf|split; [split; [exact Ha|split; [reflexivity|exact Hm]]|exact Ho]]).
  destruct Hok1 as [E|E]; subst m.
  - change (seq_eqb s_plain s_ecdsa) with false. change (seq_eqb s_plain s_external) with false.
    change (startswith_s s_scram s_plain) with false. change (seq_eqb s_plain s_plain) with true. cbv iota.
    unfold send_chunks, ret. rewrite send_chunks_eq. cbn [rstate routs fst snd app]. split; [|reflexivity]. split; [exact Hi|].
    exists (g_acked (set_dec s None)), (c_plain c). split; [apply Hok|reflexivity].
  - change (seq_eqb s_external s_ecdsa) with false. change (seq_eqb s_external s_external) with true. cbv iota.
    unfold send_chunks, ret. rewrite send_chunks_eq. cbn [rstate routs fst snd app]. split; [|reflexivity]. split; [exact Hi|].
    exists (g_acked (set_dec s None)), [s_PLUS]. split; [|reflexivity].
    exists [], s_PLUS. split; [reflexivity|]. split; [constructor|exact plus_final].
Qed.

(* 903: authenticated, the exchange ends, CAP END *)
Lemma step_903 s : InS s -> aborted (routs (do903 c s)) \/ PhE (rstate (do903 c s)) (routs (do903 c s)).
Proof.
  intros [Hf [_ Ho]]. unfold do903, transition. cbn [fsm]. rewrite Hf, auth_finished_fires, andthen_ret. cbn [set_fsm fsm].
  change (N.eqb INIT_CAP INIT_CAP) with true. cbv iota. apply ec_endCap; [reflexivity|exact Ho].
Qed.

Lemma step_auth s args b e : step c s (IAuth args b e) = doAuthenticate c s args b e.
Proof. reflexivity. Qed.
Lemma step_904_eq s a : step c s (INum 904 a) = tryNextSasl c s.
Proof. reflexivity. Qed.
Lemma step_903_eq s a : step c s (INum 903 a) = do903 c s.
Proof. reflexivity. Qed.
Lemma step_908 s a : rstate (step c s (INum 908 a)) = s /\ routs (step c s (INum 908 a)) = [].
Proof. cbn [step]. change (N.eqb 908 903) with false. cbv iota. unfold do908. destruct a as [|x [|y r]]; split; reflexivity. Qed.

(* reading the answers *)
Lemma answers_mech m r : okmech m -> answers true (Send s_AUTH [upper m]) r ->
  r = [IAuth [s_PLUS] true true] \/ (exists x, r = [INum 904 x]) \/ (exists x y, r = [INum 908 x; INum 904 y]).
Proof. intros [E|E] H; subst m; exact H. Qed.
Lemma batch_cred g init : forall last r, Forall (fun ch => final_chunk ch = false) init -> final_chunk last = true ->
  answers_batch true (map (fun ch => SendCred ch g) (init ++ [last])) r -> exists x, r = [INum 903 x] \/ r = [INum 904 x].
Proof.
  induction init as [|ch init IH]; intros last r Hi Hl H; cbn [app map] in H.
  - apply batch_single in H. unfold answers in H. rewrite Hl in H. exact H.
  - inversion Hi as [|ch' i' Hc Hrest]; subst. inversion H as [|o b r1 rs H1 Hr]; subst.
    unfold answers in H1. rewrite Hc in H1. subst r1. cbn [app]. apply (IH last rs Hrest Hl Hr).
Qed.

(* ---- the rounds ---- *)
Definition MM : nat := length (c_mechs c).
(* the phases after the first round *)
Definition InvP (j : nat) (s : st) (b : list outev) : Prop :=
  (j = (2 * MM + 1)%nat /\ PhR2 MM s b) \/
  (PhS s b /\ j = (2 * length (snext s) + 2)%nat) \/
  (PhC s b /\ j = (2 * length (snext s) + 1)%nat) \/
  (j = 0%nat /\ PhE s b).
Definition InvS (j : nat) (s : st) (b : list outev) : Prop :=
  (j = (2 * MM + 2)%nat /\ s = start c /\ b = init_outs c) \/ InvP j s b.

Lemma start_sasl : sidle (start c) /\ length (snext (start c)) = MM.
Proof.
  pose proof (reset_fresh c (fresh c false)) as H. unfold cap_part in H. fold (start c) in H.
  assert (Hs : snext (start c) = c_mechs c) by congruence. assert (Ha : authed (start c) = false) by congruence.
  assert (Hd : dec (start c) = None) by congruence.
  split; [|rewrite Hs; reflexivity]. split; [exact Ha|]. split; [exact Hd|]. rewrite Hs. apply Hok.
Qed.

(* a Q4 outcome as the next phase, with a smaller measure *)
Lemma Q4_next n j s o : Q4 n s o -> (2 * n < j)%nat ->
  aborted o \/ fsm s = CONNECTED \/ exists j', (j' < j)%nat /\ InvP j' s o.
Proof.
  intros [H|[H|[H Hn]]] Hj; [left; exact H| |].
  - right. right. exists 0%nat. split; [lia|]. right. right. right. split; [reflexivity|exact H].
  - right. right. exists (2 * length (snext s) + 2)%nat. split; [lia|]. right. left. split; [exact H|reflexivity].
Qed.

Lemma round_cap2' j s b resp : InvS j s b -> answers_batch true b resp ->
  let r := run_msgs c s resp in
  aborted (snd r) \/ fsm (fst r) = CONNECTED \/ exists j', (j' < j)%nat /\ InvP j' (fst r) (snd r).
Proof.
  intros Hi Hb. cbv zeta.
  destruct Hi as [[Ej [Es Eb]]|[[Ej Hp]|[[Hp Ej]|[[Hp Ej]|[Ej Hp]]]]]; subst j.
  - (* the CAP LS reply *)
    subst s b. apply (batch_init c true) in Hb. destruct Hb as [pre [x [caps [E Hpre]]]]. subst resp.
    rewrite run_msgs_app. pose proof (multi_run c pre Hpre (start c)) as Hm.
    destruct (run_msgs c (start c) pre) as [s1 o1]. cbn [fst snd] in Hm. cbn [run_msgs]. rewrite step_ls.
    destruct Hm as [Ha|[Hc Hq]].
    + destruct (doCapLs c s1 [x; s_LS; caps]) as [[s2 o2] e2]. left. cbn [snd]. apply aborted_app_l. exact Ha.
    + destruct (start_core c) as [Sf [Sr [Sa Sn]]]. destruct start_sasl as [[Sau [Sde Sme]] Slen]. unfold core in Hc.
      assert (Hf1 : fsm s1 = INIT_CAP) by congruence. assert (Hr1 : req s1 = []) by congruence.
      assert (Ha1 : ack s1 = []) by congruence. assert (Hn1 : nak s1 = []) by congruence.
      assert (Hi1 : sidle s1).
      { split; [congruence|]. split; [congruence|]. replace (snext s1) with (snext (start c)) by congruence. exact Sme. }
      assert (HM1 : (length (snext s1) <= MM)%nat) by (replace (snext s1) with (snext (start c)) by congruence; lia).
      pose proof (ls_final2 MM s1 x caps Hf1 Hr1 Ha1 Hn1 Hi1 HM1) as H3. destruct (doCapLs c s1 [x; s_LS; caps]) as [[s2 o2] e2].
      unfold Q5 in H3. cbn [routs rstate fst snd] in *. rewrite app_nil_r. destruct H3 as [H|[H|H]].
      * left. apply aborted_app_r. exact H.
      * right. right. exists 0%nat. split; [lia|]. right. right. right. split; [reflexivity|]. apply PhE_prefix; assumption.
      * right. right. exists (2 * MM + 1)%nat. split; [lia|]. left. split; [reflexivity|]. apply PhR2_prefix; assumption.
  - (* the answers to CAP REQ *)
    destruct Hp as [Hf [Ha [Hn [Hi0 [HM [q [caps [Eb [Hq [Htok [Hne [Hreq Hkeys]]]]]]]]]]]]. subst b.
    apply batch_quiet in Hb; [|exact Hq]. apply batch_req in Hb.
    assert (Hw : Wt2 MM (req s) s []).
    { split; [exact Hf|]. split; [reflexivity|]. rewrite Ha, Hn. split; [intros x [[]|[]]|].
      split; [|split; [exact Hi0|split; [exact HM|split; [intros x Hx; apply Hkeys; apply Hreq; exact Hx|intros x []]]]].
      destruct caps as [|c0 caps']; [contradiction|]. destruct (req s) as [|r0 rq] eqn:Er; [exfalso; apply (proj2 (Hreq c0)); left; reflexivity|reflexivity]. }
    pose proof (req_run2 MM (req s) (wrap_caps caps) resp s [] Hb Hw) as Hr.
    assert (Hl : forall l, In l (wrap_caps caps) -> forall x, In x (words l) -> In x (req s)).
    { intros l Hl x Hx. apply Hreq. rewrite <- (wrap_caps_words caps Htok). apply in_concat. exists (words l). split; [apply in_map; exact Hl|exact Hx]. }
    specialize (Hr Hl). rewrite (wrap_caps_words caps Htok) in Hr. cbn [app] in Hr.
    destruct (run_msgs c s resp) as [s' o']. cbn [fst snd] in *. destruct Hr as [[_ Hw']|H4].
    + exfalso. destruct Hw' as [_ [_ [_ [Hflag [_ [_ [_ Hall]]]]]]].
      assert (E : ssubset (req s) (sunion (ack s') (nak s')) = true).
      { apply ssubset_intro. intros x Hx. apply In_sunion. apply Hall. apply Hreq. exact Hx. }
      rewrite E in Hflag. discriminate.
    + apply (Q4_next MM); [exact H4|lia].
  - (* the answer to AUTHENTICATE <mechanism> *)
    destruct Hp as [HiS [m [q [Hm [Hc [Eb Hq]]]]]]. subst b. apply batch_quiet in Hb; [|exact Hq]. apply batch_single in Hb.
    apply (answers_mech m resp Hm) in Hb. destruct Hb as [E|[[x E]|[x [y E]]]]; subst resp; cbn [run_msgs].
    + rewrite step_auth. pose proof (auth_plus s m HiS Hc Hm) as [H En]. destruct (doAuthenticate c s [s_PLUS] true true) as [[s1 o1] e1].
      cbn [rstate routs fst snd] in *. rewrite app_nil_r. right. right. exists (2 * length (snext s1) + 1)%nat.
      split; [rewrite En; lia|]. right. right. left. split; [exact H|reflexivity].
    + rewrite step_904_eq. pose proof (try_next s HiS) as H. destruct (tryNextSasl c s) as [[s1 o1] e1].
      cbn [rstate routs fst snd] in *. rewrite app_nil_r. apply (Q4_next (length (snext s))); [exact H|lia].
    + destruct (step_908 s x) as [E1 E2]. destruct (step c s (INum 908 x)) as [[s0 o0] e0]. cbn [rstate routs fst snd] in E1, E2. subst s0 o0.
      rewrite step_904_eq. pose proof (try_next s HiS) as H. destruct (tryNextSasl c s) as [[s1 o1] e1].
      cbn [rstate routs fst snd app] in *. rewrite app_nil_r. apply (Q4_next (length (snext s))); [exact H|lia].
  - (* the answer to the credentials *)
    destruct Hp as [HiS [g [chunks [[init [last [Ech [Hin Hla]]]] Eb]]]]. subst b chunks.
    destruct (batch_cred g init last resp Hin Hla Hb) as [x [E|E]]; subst resp; cbn [run_msgs].
    + rewrite step_903_eq. pose proof (step_903 s HiS) as H. destruct (do903 c s) as [[s1 o1] e1].
      cbn [rstate routs fst snd] in *. rewrite app_nil_r. destruct H as [H|H]; [left; exact H|].
      right. right. exists 0%nat. split; [lia|]. right. right. right. split; [reflexivity|exact H].
    + rewrite step_904_eq. pose proof (try_next s HiS) as H. destruct (tryNextSasl c s) as [[s1 o1] e1].
      cbn [rstate routs fst snd] in *. rewrite app_nil_r. apply (Q4_next (length (snext s))); [exact H|lia].
  - (* the welcome burst *)
    destruct Hp as [Hf [q [Eb Hq]]]. subst b. apply batch_quiet in Hb; [|exact Hq]. apply batch_single in Hb.
    assert (Hp3 : pre3 s) by (unfold pre3; rewrite Hf; reflexivity).
    destruct (welcome_run c resp Hb s Hp3) as [H|H]; [left|right; left]; exact H.
Qed.

Lemma round_cap2 sigma : (forall batch hist, answers_batch true batch (sigma (batch :: hist))) ->
  forall j s b hist, InvS j s b ->
  let r := run_msgs c s (sigma (b :: hist)) in
  aborted (snd r) \/ fsm (fst r) = CONNECTED \/ exists j', (j' < j)%nat /\ InvS j' (fst r) (snd r).
Proof.
  intros Hs j s b hist Hi. destruct (round_cap2' j s b _ Hi (Hs b hist)) as [H|[H|[j' [Hj H]]]]; [left; exact H|right; left; exact H|].
  right. right. exists j'. split; [exact Hj|right; exact H].
Qed.

(* the liveness clause for configurations with PLAIN / EXTERNAL mechanisms (and, with c_mechs = [], without):
   2 * |mechanisms| + 3 rounds *)
Theorem liveness_sasl sigma : conformant sigma ->
  exists k, (k <= 2 * length (c_mechs c) + 3)%nat /\ finished (game c sigma k).
Proof.
  intros [cap Hs]. unfold game. destruct cap.
  - destruct (reach c sigma InvS (round_cap2 sigma Hs) (2 * MM + 2)%nat (start c) (init_outs c) []) as [k [Hk Hf]].
    + left. repeat split.
    + exists k. split; [unfold MM in Hk; lia|exact Hf].
  - destruct (reach c sigma (fun j s b => j = 0%nat /\ s = start c /\ b = init_outs c) (round_nocap c sigma Hs) 0%nat (start c) (init_outs c) [])
      as [k [Hk Hf]]; [repeat split|]. exists k. split; [lia|exact Hf].
Qed.
End Live2.

(* ---- non-vacuity ---- *)
Definition cfg_required1 : cfg :=
  Cfg (s_sasl :: s_batch :: []) true [s_plain] [[65;65;65;65]] [] None false false true [104] 3.
Lemma tok3 : Forall token [s_sasl; s_batch; [97;119;97;121;45;110;111;116;105;102;121]].
Proof. repeat (constructor; [split; [discriminate|vm_compute; reflexivity]|]). constructor. Qed.
Lemma payload_AAAA : payload [[65;65;65;65]].
Proof. exists [], [65;65;65;65]. split; [reflexivity|]. split; [constructor|vm_compute; reflexivity]. Qed.
Lemma cfg_plain_ok b : cfg_ok (cfg_plain b).
Proof. split; [exact tok3|]. split; [constructor; [left; reflexivity|constructor]|exact payload_AAAA]. Qed.
Lemma cfg_required1_ok : cfg_ok cfg_required1.
Proof.
  split; [|split; [constructor; [left; reflexivity|constructor]|exact payload_AAAA]].
  pose proof tok3 as H. inversion H as [|a l H1 H2]; subst. inversion H2 as [|a2 l2 H3 H4]; subst. constructor; [exact H1|constructor; [exact H3|constructor]].
Qed.
(* the old witness of finding C08.F25 (fixed): sasl.required, 'sasl' ACKed, PLAIN fails with 904: the connection is dropped in round 3 *)
Example required_failure_aborts :
  let sigma := strategy srv_all [0;0;0;0;0;1] in
  existsb (existsb is_abort) (snd (game cfg_required1 sigma 2)) = false /\
  existsb (existsb is_abort) (snd (game cfg_required1 sigma 3)) = true.
Proof. vm_compute. split; reflexivity. Qed.
