(* C08/Chunk.v — the chunking contract of ircutils.authenticate_generator
   (C08/Model.v: auth_gen), for every payload length: the chunks concatenate to
   the payload, every chunk but the last is exactly AUTHENTICATE_CHUNK_SIZE long
   ("more follows"), and the sequence ends with one chunk shorter than that,
   which is '+' when nothing is left.  A server therefore always sees the end
   of a client response. *)
From Coq Require Import List NArith ZArith Bool Arith Lia.
Import ListNotations.
Require Import Base.Wire Base.PyStr C08.Model.

Lemma chunk_size_gt1 : (1 < gen.T08.AUTHENTICATE_CHUNK_SIZE)%nat.
Proof. apply Nat.ltb_lt. vm_compute. reflexivity. Qed.

(* a client response as the server reads it: full chunks, then exactly one final chunk *)
Definition payload (chunks : list str) : Prop :=
  exists init last, chunks = init ++ [last] /\
    Forall (fun ch => final_chunk ch = false) init /\ final_chunk last = true.

Definition chunking (s : str) (chunks : list str) : Prop :=
  exists init last, chunks = init ++ [last] /\
    Forall (fun ch => length ch = gen.T08.AUTHENTICATE_CHUNK_SIZE) init /\
    (length last < gen.T08.AUTHENTICATE_CHUNK_SIZE)%nat /\
    ((last = s_PLUS /\ concat init = s) \/ (last <> [] /\ concat init ++ last = s)).

Lemma auth_gen_aux_chunking fuel : forall s, (length s < fuel)%nat -> chunking s (auth_gen_aux fuel s).
Proof.
  pose proof chunk_size_gt1 as Hgt. set (CH := gen.T08.AUTHENTICATE_CHUNK_SIZE) in *.
  induction fuel as [|f IH]; intros s Hlen; [lia|].
  cbn [auth_gen_aux]. fold CH.
  destruct (Nat.ltb (length s) CH) eqn:El.
  - apply Nat.ltb_lt in El. rewrite firstn_all2 by lia.
    exists [], (match s with [] => s_PLUS | _ => s end). split; [reflexivity|]. split; [constructor|].
    destruct s as [|x s']; cbn [length app concat] in *.
    + split; [unfold s_PLUS; cbn [length]; lia|]. left. split; reflexivity.
    + split; [lia|]. right. split; [discriminate|reflexivity].
  - apply Nat.ltb_ge in El.
    assert (Hf : length (firstn CH s) = CH) by (apply firstn_length_le; exact El).
    destruct (firstn CH s) as [|x ch] eqn:Ef; [cbn [length] in Hf; lia|]. rewrite <- Ef in *.
    assert (Hr : (length (skipn CH s) < f)%nat) by (rewrite skipn_length; lia).
    destruct (IH _ Hr) as [init [last [E [Hi [Hl Hc]]]]]. rewrite E.
    exists (firstn CH s :: init), last. split; [reflexivity|]. split; [constructor; assumption|]. split; [exact Hl|].
    cbn [concat]. destruct Hc as [[E1 E2]|[E1 E2]].
    + left. split; [exact E1|]. rewrite E2. apply firstn_skipn.
    + right. split; [exact E1|]. rewrite <- app_assoc, E2. apply firstn_skipn.
Qed.

Theorem auth_gen_chunking s : chunking s (auth_gen s).
Proof. unfold auth_gen. apply auth_gen_aux_chunking. lia. Qed.

(* what the protocol (and the liveness proof) needs: the end of the response is always reached *)
Theorem auth_gen_payload s : payload (auth_gen s).
Proof.
  destruct (auth_gen_chunking s) as [init [last [E [Hi [Hl _]]]]]. exists init, last. split; [exact E|].
  unfold final_chunk. split.
  - eapply Forall_impl; [|exact Hi]. intros ch Hc. rewrite Hc, Nat.eqb_refl. reflexivity.
  - apply negb_true_iff. apply Nat.eqb_neq. lia.
Qed.

Example chunking_lengths :
  map (@length N) (auth_gen (repeat 65%N 800)) = [400; 400; 1]%nat /\ auth_gen [] = [s_PLUS] /\
  map (@length N) (auth_gen (repeat 65%N 401)) = [400; 1]%nat /\ map (@length N) (auth_gen (repeat 65%N 399)) = [399]%nat.
Proof. vm_compute. auto. Qed.
