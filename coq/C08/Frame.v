(* C08/Frame.v — reasoning frame for the state-then-raise computations of
   C08/Model.v: an invariant on states and a predicate on emitted events *)
From Coq Require Import List NArith ZArith Bool Arith Lia.
Import ListNotations.
Require Import Base.Wire Base.PyStr C08.Model.
Open Scope N_scope.

Definition rstate (r : R) : st := fst (fst r).
Definition routs (r : R) : list outev := snd (fst r).

Section Frame.
Variable Inv : st -> Prop.
Variable Out : outev -> Prop.

Definition okR (r : R) : Prop := Inv (rstate r) /\ Forall Out (routs r).

Lemma ok_ret s : Inv s -> okR (ret s).
Proof. intro H. split; [exact H|constructor]. Qed.
Lemma ok_raise s e : Inv s -> okR (raise s e).
Proof. intro H. split; [exact H|constructor]. Qed.
Lemma ok_emit s o : Inv s -> Out o -> okR (emit s o).
Proof. intros H Ho. split; [exact H|constructor; [exact Ho|constructor]]. Qed.

Lemma ok_andthen r k : okR r -> (forall s, Inv s -> okR (k s)) -> okR (r >>> k).
Proof.
  intros [Hi Ho] Hk. destruct r as [[s o] [e|]]; cbn [andthen].
  - split; assumption.
  - cbn [rstate routs fst snd] in *. specialize (Hk s Hi). destruct (k s) as [[s' o'] e'].
    destruct Hk as [Hi' Ho']. cbn [rstate routs fst snd] in *. split; [exact Hi'|].
    apply Forall_app. split; assumption.
Qed.

Lemma ok_fold {A} (f : st -> A -> R) (l : list A) (r : R) :
  okR r -> (forall s a, Inv s -> okR (f s a)) ->
  okR (fold_left (fun (acc : R) a => acc >>> fun s => f s a) l r).
Proof.
  revert r. induction l as [|a l IH]; intros r Hr Hf; [exact Hr|].
  cbn [fold_left]. apply IH; [|exact Hf]. apply ok_andthen; [exact Hr|]. intros s Hs. apply Hf. exact Hs.
Qed.
End Frame.

(* ---- the FSM tables ---- *)
Lemma fire_In tbl x t : fire tbl x = Some t -> exists f, In (f, t) tbl /\ (f = 0 \/ f = x).
Proof.
  induction tbl as [|[f0 t0] tbl IH]; cbn [fire]; [discriminate|].
  destruct (N.eqb f0 0 || N.eqb f0 x) eqn:E.
  - intro H. inversion H; subst. exists f0. split; [left; reflexivity|].
    apply orb_true_iff in E as [E|E]; apply N.eqb_eq in E; auto.
  - intro H. destruct (IH H) as [f [Hin Hf]]. exists f. split; [right; exact Hin|exact Hf].
Qed.

Definition late : list N := [WAIT_MOTD; IN_MOTD; CONNECTED; CONNECTED_SASL; SHUTTING_DOWN].
Definition saslst : list N := [INIT_SASL; CONNECTED_SASL].

(* from a late state (or from any state) the table only leads to late states *)
Definition late_closed (tbl : list (N * N)) : bool :=
  forallb (fun ft => (negb (N.eqb (fst ft) 0) && negb (mem (fst ft) late)) || mem (snd ft) late) tbl.
(* the table never leads into a SASL state *)
Definition avoids_sasl (tbl : list (N * N)) : bool :=
  forallb (fun ft => negb (mem (snd ft) saslst)) tbl.

Lemma late_closed_fire tbl x t :
  late_closed tbl = true -> fire tbl x = Some t -> mem x late = true -> mem t late = true.
Proof.
  intros Hc Hf Hx. destruct (fire_In _ _ _ Hf) as [f [Hin Hfx]].
  unfold late_closed in Hc. rewrite forallb_forall in Hc. specialize (Hc _ Hin). cbn [fst snd] in Hc.
  apply orb_true_iff in Hc as [Hc|Hc]; [|exact Hc].
  apply andb_true_iff in Hc as [H0 Hl]. destruct Hfx as [E|E]; subst.
  - discriminate.
  - rewrite Hx in Hl. discriminate.
Qed.

Lemma avoids_sasl_fire tbl x t :
  avoids_sasl tbl = true -> fire tbl x = Some t -> mem t saslst = false.
Proof.
  intros Hc Hf. destruct (fire_In _ _ _ Hf) as [f [Hin _]].
  unfold avoids_sasl in Hc. rewrite forallb_forall in Hc. specialize (Hc _ Hin). cbn [snd] in Hc.
  apply negb_true_iff in Hc. exact Hc.
Qed.

(* sanity of the regenerated tables, by computation *)
Lemma tables_late_closed :
  late_closed gen.T08.EV_on_init_messages_sent = true /\ late_closed gen.T08.EV_on_sasl_cap = true /\
  late_closed gen.T08.EV_on_sasl_auth_finished = true /\ late_closed gen.T08.EV_on_cap_end = true /\
  late_closed gen.T08.EV_on_start_motd = true /\ late_closed gen.T08.EV_on_end_motd = true /\
  late_closed gen.T08.EV_on_shutdown = true.
Proof. vm_compute. repeat split. Qed.

Lemma tables_avoid_sasl :
  avoids_sasl gen.T08.EV_on_init_messages_sent = true /\
  avoids_sasl gen.T08.EV_on_sasl_auth_finished = true /\ avoids_sasl gen.T08.EV_on_cap_end = true /\
  avoids_sasl gen.T08.EV_on_start_motd = true /\ avoids_sasl gen.T08.EV_on_end_motd = true /\
  avoids_sasl gen.T08.EV_on_shutdown = true.
Proof. vm_compute. repeat split. Qed.

(* CAP END is only possible from a state that is not late, and leads to a late one *)
Definition cap_end_table_ok (tbl : list (N * N)) : bool :=
  forallb (fun ft => negb (N.eqb (fst ft) 0) && negb (mem (fst ft) late) && mem (snd ft) late
                     && negb (mem (fst ft) saslst)) tbl.
Lemma cap_end_table_current : cap_end_table_ok gen.T08.EV_on_cap_end = true.
Proof. vm_compute. reflexivity. Qed.

Lemma cap_end_fire x t :
  fire gen.T08.EV_on_cap_end x = Some t -> mem x late = false /\ mem t late = true /\ mem x saslst = false.
Proof.
  intro Hf. destruct (fire_In _ _ _ Hf) as [f [Hin Hfx]].
  pose proof cap_end_table_current as Hc. unfold cap_end_table_ok in Hc. rewrite forallb_forall in Hc.
  specialize (Hc _ Hin). cbn [fst snd] in Hc.
  repeat (apply andb_true_iff in Hc as [Hc ?]).
  apply negb_true_iff in Hc.
  destruct Hfx as [E|E]; subst; [discriminate|].
  repeat match goal with H : negb _ = true |- _ => apply negb_true_iff in H end. auto.
Qed.

(* the doAuthenticate guard only lets SASL states through *)
Lemma expect_auth_sasl : forallb (fun x => mem x saslst) gen.T08.EXPECT_doAuthenticate = true.
Proof. vm_compute. reflexivity. Qed.

Lemma okR_mono (I1 I2 : st -> Prop) (O1 O2 : outev -> Prop) r :
  (forall s, I1 s -> I2 s) -> (forall o, O1 o -> O2 o) -> okR I1 O1 r -> okR I2 O2 r.
Proof. intros Hi Ho [A B]. split; [apply Hi; exact A|eapply Forall_impl; [exact Ho|exact B]]. Qed.

Lemma andthen_ret s k : ret s >>> k = k s.
Proof. unfold ret, andthen. destruct (k s) as [[s' o'] e]. reflexivity. Qed.
Lemma andthen_raise s e k : raise s e >>> k = raise s e.
Proof. reflexivity. Qed.

(* set-of-strings helpers *)
Lemma smem_In x l : smem x l = true <-> In x l.
Proof.
  unfold smem. rewrite existsb_exists. split.
  - intros [y [Hin He]]. apply seq_eqb_eq in He. subst. exact Hin.
  - intro H. exists x. split; [exact H|apply seq_eqb_refl].
Qed.

Lemma In_insert_sorted x y l : In x (insert_sorted y l) <-> x = y \/ In x l.
Proof.
  induction l as [|z l IH]; cbn [insert_sorted].
  - cbn. intuition congruence.
  - destruct (str_ltb z y); cbn [In]; [rewrite IH|]; intuition congruence.
Qed.

Lemma In_sort_strs x l : In x (sort_strs l) <-> In x l.
Proof.
  induction l as [|y l IH]; cbn [sort_strs fold_right]; [tauto|].
  fold (sort_strs l). rewrite In_insert_sorted, IH. cbn. intuition congruence.
Qed.

Lemma In_sremove x y l : In x (sremove y l) -> In x l.
Proof. unfold sremove. intro H. apply filter_In in H. tauto. Qed.

Lemma smem_sremove_same x l : smem x (sremove x l) = false.
Proof.
  destruct (smem x (sremove x l)) eqn:E; [|reflexivity].
  apply smem_In in E. unfold sremove in E. apply filter_In in E as [_ E]. rewrite seq_eqb_refl in E. discriminate.
Qed.
