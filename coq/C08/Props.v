(* C08/Props.v — the property theorems, nothing else.
   Model: C08/Model.v.  Proofs: Frame.v, PassA.v, PassB.v, PassC.v, PassD.v, PassE.v, PassF.v, PassG.v, Chunk.v, Live.v, Live2.v, Live3.v. *)
From Coq Require Import List NArith ZArith Bool.
Import ListNotations.
Require Import Base.Wire Base.PyStr C08.Model C08.Frame C08.PassA C08.PassB C08.PassC C08.PassD C08.PassE C08.PassF C08.PassG C08.Chunk C08.Live C08.Live2 C08.Live3.

(* For every configuration, every state satisfying the invariant (in particular
   the state right after a reset) and EVERY sequence of server messages
   (any order, any oracle outcome), every emitted event satisfies OutA:
   - a requested capability is wanted and was advertised at that time (GReq);
   - echo-message is requested only if labeled-response is acknowledged or
     heads the same request next to it (GReq);
   - a credential chunk is sent only if 'sasl' was acknowledged on this
     connection (SendCred ghost flag);
   - a CAP END is the first of its connection (GEnd n: n = 1);
   - an STS policy is stored only over a verified TLS connection (C09). *)
Theorem C08_registration_safety :
  forall c ms s, InvA s ->
  InvA (fst (run_msgs c s ms)) /\ Forall (OutA c) (snd (run_msgs c s ms)).
Proof. exact PassA.ok_run. Qed.
Print Assumptions C08_registration_safety.

(* "requests only capabilities the server advertised", against the SERVER's own
   view: [upd m a] is the set the server advertises after its message m (CAP LS
   and CAP NEW add the names, CAP DEL withdraws them, a driver reset starts a
   new connection), computed from the messages alone; run_tag tags every output
   with that set at the time.  For every configuration, every message sequence
   (any interleaving of LS / NEW / DEL / ACK / NAK / ...) and every state whose
   capabilities_ls lies inside a (AdvI): every CAP REQ (its GReq event) names
   only capabilities in the server-side set, and capabilities_ls stays inside
   it -- so a CAP DEL removes the capability from capabilities_ls whether or
   not it was ever acknowledged.  (C08_registration_safety states the same
   clause against the bot's own capabilities_ls.) *)
Theorem C08_req_advertised_by_server :
  forall c ms s a, AdvI a s ->
  let r := run_tag c s a ms in
  AdvI (snd (fst r)) (fst (fst r)) /\ Forall (fun oa => OutE (snd oa) (fst oa)) (snd r).
Proof. exact run_adv. Qed.
Print Assumptions C08_req_advertised_by_server.

(* run_tag's outputs are those of run_msgs; every connection starts inside the empty advertised set *)
Theorem C08_req_advertised_start :
  (forall c ms s a, map fst (snd (run_tag c s a ms)) = snd (run_msgs c s ms)) /\
  (forall c s, AdvI [] (rstate (reset c s))).
Proof. split; [intros; apply run_tag_outs|intros c s; exact (proj1 (e_reset c [] s))]. Qed.
Print Assumptions C08_req_advertised_start.

(* non-vacuity, on the scenario of a withdrawn, never acknowledged capability: LS batch echo-message / ACK batch /
   DEL echo-message / NEW labeled-response: the second request names labeled-response only *)
Theorem C08_del_unacked_not_requested :
  let c := Cfg [s_echo; s_label; [98;97;116;99;104]] false [] [] [] None false false true [104] 3 in
  let ms := [ICap [[42]; s_LS; [98;97;116;99;104] ++ [32] ++ s_echo]; ICap [[42]; [65;67;75]; [98;97;116;99;104]];
             ICap [[42]; [68;69;76]; s_echo]; ICap [[42]; [78;69;87]; s_label]] in
  let r := run_tag c (rstate (reset c (fresh c false))) [] ms in
  snd (fst r) = [[98;97;116;99;104]; s_label] /\
  filter (fun oa => match fst oa with GReq _ _ _ => true | _ => false end) (snd r)
  = [(GReq [[98;97;116;99;104]] [[98;97;116;99;104]; s_echo] [], [[98;97;116;99;104]; s_echo]);
     (GReq [s_label] [[98;97;116;99;104]; s_label] [[98;97;116;99;104]], [[98;97;116;99;104]; s_label])].
Proof. exact del_unacked_not_requested. Qed.
Print Assumptions C08_del_unacked_not_requested.

(* "requests only capabilities ... it wants": 'sasl' is wanted only by a network that has a usable SASL mechanism
   (wanted_ok: the configuration as Irc.resetSasl / _wantedCapabilities build it, per Irc object since the fix of
   finding C08.F27; the harness checks wanted_ok on every rig, also next to another network that has credentials):
   then no CAP REQ ever names 'sasl' on a network without mechanisms, for every message sequence *)
Theorem C08_sasl_requested_only_with_mechanisms :
  forall c ms s, wanted_ok c -> InvA s ->
  forall caps adv acked, In (GReq caps adv acked) (snd (run_msgs c s ms)) -> In s_sasl caps -> c_mechs c <> [].
Proof. exact sasl_requested_only_with_mechanisms. Qed.
Print Assumptions C08_sasl_requested_only_with_mechanisms.

(* "credentials only after the server acknowledged sasl", against the SERVER's
   own books: [upd_ack m a] is what the server has acknowledged on this
   connection after its message m (CAP ACK adds the names, a driver reset starts
   over).  For every configuration and every message sequence: the bot's
   capabilities_ack only ever holds capabilities the server acknowledged (AckI)
   -- requesting a capability, or having it NAKed, never makes it acknowledged
   -- and every credential chunk (SendCred, whose flag is always true:
   C08_registration_safety) is sent with 'sasl' in the server's set. *)
Theorem C08_ack_by_server :
  forall c ms s a, AckI a s ->
  let r := run_tag_ack c s a ms in
  AckI (snd (fst r)) (fst (fst r)) /\ Forall (fun oa => OutF (snd oa) (fst oa)) (snd r).
Proof. exact run_ack. Qed.
Print Assumptions C08_ack_by_server.

(* run_tag_ack's outputs are those of run_msgs; every connection starts with nothing acknowledged;
   and a NAKed request is not an acknowledgement (LS sasl batch / NAK batch sasl / AUTHENTICATE +: no credentials) *)
Theorem C08_ack_by_server_start :
  (forall c ms s a, map fst (snd (run_tag_ack c s a ms)) = snd (run_msgs c s ms)) /\
  (forall c s, AckI [] (rstate (reset c s))) /\
  (let c := Cfg [s_sasl; [98;97;116;99;104]] false [s_plain] [[65;65;65;65]] [] None false false true [104] 3 in
   let ms := [ICap [[42]; s_LS; s_sasl ++ [32] ++ [98;97;116;99;104]]; ICap [[42]; [78;65;75]; [98;97;116;99;104] ++ [32] ++ s_sasl];
              IAuth [s_PLUS] true true] in
   let r := run_msgs c (rstate (reset c (fresh c false))) ms in
   ack (fst r) = [] /\ existsb (fun o => match o with SendCred _ _ => true | _ => false end) (snd r) = false).
Proof. split; [intros; apply run_tag_ack_outs|split; [intros c s; exact (proj1 (f_reset c [] s))|exact nak_is_not_ack]]. Qed.
Print Assumptions C08_ack_by_server_start.

(* "After a reconnect all of this state starts from scratch", for what is still
   queued: stepQ is the bot with its fast queue (sendMsg queues, the driver
   takes later; Irc.reset() empties it before queueing CAP LS / NICK / USER);
   every queued line carries, as a ghost, the number of the connection it was
   queued on.  For every configuration and every history of server messages
   (any batching: several messages between two takes) and driver takes: every
   line the driver is ever handed was queued on the connection it is sent on --
   nothing queued before a reset (an ERROR reconnect inside a handler, or a
   driver reset) is sent after it. *)
Theorem C08_reset_drops_queue :
  forall c na evs s n q, QI q ->
  Forall (fun rec => Forall (fun x => fst x = fst rec) (snd rec)) (runQ c na (s, n, q) evs).
Proof. exact taken_on_own_connection. Qed.
Print Assumptions C08_reset_drops_queue.

(* after a driver reset the queue is exactly the connect messages, CAP LS first *)
Theorem C08_reset_queue_is_connect :
  forall c na s n q, zombie s = false ->
  let r := stepQ c na (s, n, q) IReset in
  map snd (q_items (snd (fst (fst r)))) = filter is_line (routs (reset c s)) /\
  hd_error (filter is_line (routs (reset c s))) = Some (Send s_CAP [s_LS; s_302]).
Proof. exact reset_queue_is_connect. Qed.
Print Assumptions C08_reset_queue_is_connect.

(* non-vacuity: CAP ACK sasl and AUTHENTICATE + in one batch, then ERROR :Closing link: the queued AUTHENTICATE PLAIN
   and credentials are dropped; the next take is CAP LS / NICK / USER of connection 1 *)
Theorem C08_stale_credentials_dropped :
  let c := Cfg [s_sasl; [98;97;116;99;104]] false [s_plain] [[65;65;65;65]] [] None false false true [104] 3 in
  let evs := [QTake; QMsg (ICap [[42]; s_LS; s_sasl]); QTake; QMsg (ICap [[42]; [65;67;75]; s_sasl]); QMsg (IAuth [s_PLUS] true true);
              QMsg (IError [s_closing]); QTake] in
  map (fun rec => (fst rec, map snd (snd rec)))
      (runQ c 2 (rstate (reset c (fresh c false)), Nk 2 false false None, Qst 0 (map (fun x => (0%nat, x)) (filter is_line (routs (reset c (fresh c false)))))) evs)
  = [(0%nat, [Send s_CAP [s_LS; s_302]; Send s_NICK []; Send s_USER []]);
     (0%nat, [Send s_CAP [s_REQ; s_sasl]]);
     (1%nat, [Send s_CAP [s_LS; s_302]; Send s_NICK []; Send s_USER []])].
Proof. exact stale_credentials_dropped. Qed.
Print Assumptions C08_stale_credentials_dropped.

(* the state after any reset satisfies the invariant: the theorem above applies
   to every connection *)
Theorem C08_reset_establishes_invariant : forall c s, InvA (rstate (reset c s)).
Proof. intros c s. exact (proj1 (PassA.ok_reset c s)). Qed.
Print Assumptions C08_reset_establishes_invariant.

(* credentials are sent only in answer to an AUTHENTICATE from the server *)
Theorem C08_credentials_invited :
  forall c s m, match m with IAuth _ _ _ => False | _ => True end ->
  Forall NoCred (routs (step c s m)).
Proof. intros c s m H. exact (proj2 (creds_only_on_authenticate c s m H)). Qed.
Print Assumptions C08_credentials_invited.

(* Every CAP END is sent with no capability request outstanding: for every
   configuration, EVERY sequence of server messages (CAP NEW / CAP DEL at any
   time included) and from every state.  OutB reads the ghost event of a CAP END,
   which records req - (ack | nak) at that moment.  (Before the fix of finding
   C08.F7 this held only on the domain without CAP NEW / CAP DEL and was refuted
   outside it.) *)
Theorem C08_cap_end_quiescent :
  forall c ms s, Forall OutB (snd (run_msgs c s ms)).
Proof. exact PassB.ok_run. Qed.
Print Assumptions C08_cap_end_quiescent.

(* ... and the clause is not vacuous: on the old witness of C08.F7 (CAP NEW
   during the SASL exchange, then 903) no CAP END is sent while 'batch' is
   unanswered; it is sent, once and with nothing outstanding, as soon as the
   server answers, and registration completes *)
Theorem C08_cap_end_waits_for_late_request :
  let c := cfg_plain true in
  existsb is_end (snd (run_msgs c (start c) f7_prefix)) = false /\
  req (fst (run_msgs c (start c) f7_prefix)) = [s_sasl; s_batch] /\
  filter is_end (snd (run_msgs c (start c) (f7_prefix ++ [cap [[65;67;75]; s_batch]]))) = [GEnd 1 [] true] /\
  fsm (fst (run_msgs c (start c) (f7_prefix ++ [cap [[65;67;75]; s_batch]; INum 376 []]))) = CONNECTED.
Proof. exact cap_end_waits_for_late_request. Qed.
Print Assumptions C08_cap_end_waits_for_late_request.

(* Local liveness of the negotiation: the final line of a CAP LS received
   during the negotiation (fsm = INIT_CAP_NEGOTIATION) is always answered -- a
   CAP REQ, CAP END, or the connection is deliberately dropped (P2: some emitted
   event is an `answer`) -- unless an earlier CAP REQ is still unanswered, in
   which case capUpkeep ends the negotiation when the server answers it.
   For every configuration, state and capability list.  (Before the fix of
   finding C08.F24 `CAP LS :echo-message` got no answer and registration
   stalled; the harness checks the same predicate on the implementation.) *)
Theorem C08_final_ls_answered :
  forall c s a0 a1 caps, fsm s = INIT_CAP -> P2 (doCapLs c s [a0; a1; caps]).
Proof. exact final_ls_answered. Qed.
Print Assumptions C08_final_ls_answered.

(* the old witness of C08.F24: echo-message offered alone: nothing is requested, CAP END is sent *)
Theorem C08_echo_only_ends :
  let c := cfg_plain true in
  snd (run_msgs (Cfg [s_echo; s_label] false [] [] [] None false false true [104] 3)
                (start c) [cap [s_LS; s_echo]]) = [GReq [] [s_echo] []; GEnd 1 [] false; Send s_CAP [s_END]].
Proof. exact echo_only_ends. Qed.
Print Assumptions C08_echo_only_ends.

(* The chunking of a SASL client response (ircutils.authenticate_generator =
   Model.auth_gen, used by sendSaslString), for EVERY string: the chunks are
   init ++ [last] where every chunk of init is exactly AUTHENTICATE_CHUNK_SIZE
   long ("more follows"), last is shorter, and either last = "+" and init
   concatenates to the string, or last is non-empty and init ++ [last]
   concatenates to it.  The tie: the loop is pinned by the table extractor and
   auth_gen is run against the real function on every length 0..1300. *)
Theorem C08_sasl_chunking : forall s, chunking s (auth_gen s).
Proof. exact auth_gen_chunking. Qed.
Print Assumptions C08_sasl_chunking.

(* hence a server always sees the end of a response: full chunks, then exactly one final chunk *)
Theorem C08_sasl_payload_ends : forall s, payload (auth_gen s).
Proof. exact auth_gen_payload. Qed.
Print Assumptions C08_sasl_payload_ends.

(* ---- liveness: "against any protocol-conformant server the bot ends up
   connected or deliberately aborts rather than waiting forever" ----
   Live.v defines the conformant server: [answers cap o r] = r is a conformant
   answer to the bot's output o (CAP LS -> any multi-line reply ending in a
   final LS line; CAP REQ :line -> ACK or NAK of exactly that line;
   AUTHENTICATE MECH -> AUTHENTICATE + | 904 | 908 then 904; the final chunk of
   a response -> 903 | 904; AUTHENTICATE * -> 906; CAP END -> a welcome burst
   ending in 376 | 422; a server without CAP answers only USER, with the welcome
   burst); a strategy maps the bot's output batches so far to the next messages
   and is conformant if every batch is answered that way; [game c sigma k] runs
   bot and server in lock step for k rounds from the start of a connection;
   [finished] = CONNECTED, CONNECTED_SASL, or a Reconnect/Die was emitted.

   C08_liveness below is the statement for every configuration whose mechanisms
   are PLAIN / EXTERNAL (cfg_ok: capability names are tokens, the PLAIN response
   is a [payload], which is what authenticate_generator produces:
   C08_sasl_payload_ends), sasl.required or not, for every conformant strategy,
   within 2 * |mechanisms| + 3 rounds.  Measure: 2 * (mechanisms left) + the
   rounds of the phase (LS reply; answers to CAP REQ; per mechanism: the answer
   to AUTHENTICATE MECH, the answer to the credentials; welcome burst).  Since the
   fix of finding C08.F25 the sasl.required case is part of it: when the last
   mechanism fails the bot drops the connection.
   Outside (C08_liveness_ecdsa_partial, NOT proved): ECDSA-NIST256P-CHALLENGE
   (a second, challenge round whose server answer is an AUTHENTICATE <challenge>;
   the conformance relation has no challenge answer, and with an unreadable key
   the bot's `AUTHENTICATE *` path raises TypeError) and SCRAM (not available in
   the pinned environment: AttributeError).  The harness plays the ECDSA
   configuration against the same strategies.
   C08_liveness_nosasl is the earlier statement for configurations that do not
   want 'sasl', whatever their mechanism list and credentials are. *)
Theorem C08_liveness :
  forall c sigma, cfg_ok c -> conformant sigma ->
  exists k, (k <= 2 * length (c_mechs c) + 3)%nat /\ finished (game c sigma k).
Proof. intros c sigma Hc Hs. exact (liveness_sasl c Hc sigma Hs). Qed.
Print Assumptions C08_liveness.

Theorem C08_liveness_nosasl :
  forall c sigma, nosasl c -> conformant sigma ->
  exists k, (k <= 3)%nat /\ finished (game c sigma k).
Proof. intros c sigma Hn Hc. exact (liveness_nosasl c Hn sigma Hc). Qed.
Print Assumptions C08_liveness_nosasl.

(* the executable strategies the harness drives the real Irc object with are conformant: the
   hypothesis of the theorem is what the stall oracle runs *)
Theorem C08_strategy_conformant : forall v choices, conformant (strategy v choices).
Proof. exact strategy_conformant. Qed.
Print Assumptions C08_strategy_conformant.

(* non-vacuity: the pinned REQUEST_CAPABILITIES satisfies the hypothesis *)
Theorem C08_liveness_hypothesis_met : nosasl cfg_nosasl.
Proof. exact cfg_nosasl_ok. Qed.
Print Assumptions C08_liveness_hypothesis_met.

(* instances: ACK everything + SASL PLAIN succeeds (5 rounds); NAK everything / every mechanism fails;
   no CAP support; the pinned capability set against the three servers: CONNECTED, nothing dropped *)
Theorem C08_liveness_witnesses :
  connected_in (cfg_plain true) (strategy srv_all []) 5 = true /\
  connected_in (cfg_plain true) (strategy srv_all (repeat 1%N 40)) 4 = true /\
  connected_in (cfg_plain true) (strategy (Srv false [] true) []) 1 = true /\
  connected_in cfg_nosasl (strategy srv_all []) 3 = true /\
  connected_in cfg_nosasl (strategy srv_all (repeat 1%N 40)) 3 = true /\
  connected_in cfg_nosasl (strategy (Srv false [] false) []) 1 = true.
Proof. exact liveness_witnesses. Qed.
Print Assumptions C08_liveness_witnesses.

(* non-vacuity of C08_liveness: the PLAIN configurations used in the witnesses satisfy cfg_ok, with and without sasl.required *)
Theorem C08_liveness_hypothesis_met_sasl : cfg_ok (cfg_plain true) /\ cfg_ok cfg_required1.
Proof. exact (conj (cfg_plain_ok true) cfg_required1_ok). Qed.
Print Assumptions C08_liveness_hypothesis_met_sasl.

(* the old witness of finding C08.F25 (fixed): sasl.required, the server ACKs 'sasl' and fails PLAIN with 904:
   nothing is dropped after 2 rounds, the connection is dropped in round 3 *)
Theorem C08_liveness_required_aborts :
  let sigma := strategy srv_all [0;0;0;0;0;1]%N in
  existsb (existsb is_abort) (snd (game cfg_required1 sigma 2)) = false /\
  existsb (existsb is_abort) (snd (game cfg_required1 sigma 3)) = true.
Proof. exact required_failure_aborts. Qed.
Print Assumptions C08_liveness_required_aborts.

(* ---- liveness against servers that also reject the nick (Live3.v) ----
   The bot side is stepN = the registration machine + the nick generator of
   Irc._getNextNick (the configured alternates, then random variants, always a
   new nick); gameN is the lock-step game on it.  The server (conformantN K):
   as before, and in addition, at the start of any response before the welcome
   burst it may reject the current nick with 432/433/437 (at most K times in
   all); while the nick is rejected it withholds the welcome burst; a
   replacement NICK is rejected again or accepted, and the withheld welcome
   burst follows the accepted one.  Proved: for every PLAIN/EXTERNAL
   configuration, every number na of configured nick alternates and every such
   strategy, for EVERY K, the bot is CONNECTED or has dropped the connection
   within 2 * |mechanisms| + 3 + K rounds.  (Measure: rounds of the phase + rejections
   left; a rejection is answered by a NICK in whatever fsm state -- INIT_SASL
   included -- and changes nothing else: after_only_376 / step_rejection.)
   (Before the fix of finding C08.F26 this needed K <= na and was refuted for
   K = na + 1: the first fallback candidate was the rejected nick itself.) *)
Theorem C08_liveness_nick :
  forall c na K sigma, cfg_ok c -> conformantN K sigma ->
  exists k, (k <= 2 * length (c_mechs c) + 3 + K)%nat /\ finishedN (gameN c na sigma k).
Proof. exact liveness_nick. Qed.
Print Assumptions C08_liveness_nick.

(* the rejecting servers the harness plays are conformant (python mirror diffed against the extracted strategyN) *)
Theorem C08_strategyN_conformant : forall v plan K choices, conformantN K (strategyN v plan K choices).
Proof. exact strategyN_conformant. Qed.
Print Assumptions C08_strategyN_conformant.

(* instances: the nick rejected during the SASL exchange; twice from the start; after CAP END; by a server without CAP *)
Theorem C08_liveness_nick_witnesses :
  connectedN_in (cfg_plain true) 2 (strategyN srv_all [2%nat] 1 []) 6 = true /\
  connectedN_in (cfg_plain true) 2 (strategyN srv_all [0%nat] 2 (repeat 1%N 3 ++ [1%N] ++ repeat 0%N 30)) 7 = true /\
  connectedN_in (cfg_plain true) 2 (strategyN srv_all [4%nat] 1 []) 6 = true /\
  connectedN_in cfg_nosasl 2 (strategyN (Srv false [] true) [0%nat] 2 (repeat 1%N 40)) 3 = true.
Proof. exact liveness_nick_witnesses. Qed.
Print Assumptions C08_liveness_nick_witnesses.

(* the old witness of finding C08.F26 (fixed): 2 alternates, 3 rejections from the start -> CONNECTED;
   and 5 rejections in a row once the welcome burst is due *)
Theorem C08_liveness_nick_beyond_alternates :
  connectedN_in (cfg_plain true) 2 (strategyN srv_all [0%nat] 3 (repeat 1%N 40)) 5 = true /\
  connectedN_in cfg_nosasl 2 (strategyN srv_all [2%nat] 5 (repeat 1%N 60)) 8 = true.
Proof. exact liveness_nick_beyond_alternates. Qed.
Print Assumptions C08_liveness_nick_beyond_alternates.

(* After a reset the capability and SASL state is the initial one ... *)
Theorem C08_reset_fresh :
  forall c s, cap_part (rstate (reset c s)) = ([], [], [], [], c_mechs c, None, false, None).
Proof. exact reset_fresh. Qed.
Print Assumptions C08_reset_fresh.

(* ... but a handler that triggers the reconnect keeps running on the fresh
   state (finding F23): the new connection starts with ls and req non-empty *)
Theorem C08_reset_fresh_refuted :
  exists c s m, let '(s', outs, _) := step c s m in
    existsb (fun o => match o with Reconnect (Some _) true => true | _ => false end) outs = true /\
    ls s' <> [] /\ req s' <> [].
Proof.
  exists (cfg_plain false), (start (cfg_plain false)), sts_mid_msg. exact reset_not_fresh_witness.
Qed.
Print Assumptions C08_reset_fresh_refuted.
