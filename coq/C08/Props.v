(* C08/Props.v — the property theorems, nothing else.
   Model: C08/Model.v.  Proofs: Frame.v, PassA.v, PassB.v, PassC.v, PassD.v. *)
From Coq Require Import List NArith ZArith Bool.
Import ListNotations.
Require Import Base.Wire Base.PyStr C08.Model C08.Frame C08.PassA C08.PassB C08.PassC C08.PassD.

(* For every configuration, every state satisfying the invariant (in particular
   the state right after a reset) and EVERY sequence of server messages
   (any order, any oracle outcome), every emitted event satisfies OutA:
   - a requested capability is wanted and was advertised at that time (GReq);
   - echo-message is requested only if labeled-response is acknowledged or
     heads the same request next to it (GReq);
   - a credential chunk is sent only if 'sasl' was acknowledged on this
     connection (SendCred ghost flag);
   - a CAP END is the first of its connection (GEnd n: n = 1);
   - an STS policy is stored only over a verified TLS connection (C09). *)
Theorem C08_registration_safety :
  forall c ms s, InvA s ->
  InvA (fst (run_msgs c s ms)) /\ Forall (OutA c) (snd (run_msgs c s ms)).
Proof. exact PassA.ok_run. Qed.
Print Assumptions C08_registration_safety.

(* the state after any reset satisfies the invariant: the theorem above applies
   to every connection *)
Theorem C08_reset_establishes_invariant : forall c s, InvA (rstate (reset c s)).
Proof. intros c s. exact (proj1 (PassA.ok_reset c s)). Qed.
Print Assumptions C08_reset_establishes_invariant.

(* credentials are sent only in answer to an AUTHENTICATE from the server *)
Theorem C08_credentials_invited :
  forall c s m, match m with IAuth _ _ _ => False | _ => True end ->
  Forall NoCred (routs (step c s m)).
Proof. intros c s m H. exact (proj2 (creds_only_on_authenticate c s m H)). Qed.
Print Assumptions C08_credentials_invited.

(* Every CAP END is sent with no capability request outstanding: for every
   configuration, EVERY sequence of server messages (CAP NEW / CAP DEL at any
   time included) and from every state.  OutB reads the ghost event of a CAP END,
   which records req - (ack | nak) at that moment.  (Before the fix of finding
   C08.F7 this held only on the domain without CAP NEW / CAP DEL and was refuted
   outside it.) *)
Theorem C08_cap_end_quiescent :
  forall c ms s, Forall OutB (snd (run_msgs c s ms)).
Proof. exact PassB.ok_run. Qed.
Print Assumptions C08_cap_end_quiescent.

(* ... and the clause is not vacuous: on the old witness of C08.F7 (CAP NEW
   during the SASL exchange, then 903) no CAP END is sent while 'batch' is
   unanswered; it is sent, once and with nothing outstanding, as soon as the
   server answers, and registration completes *)
Theorem C08_cap_end_waits_for_late_request :
  let c := cfg_plain true in
  existsb is_end (snd (run_msgs c (start c) f7_prefix)) = false /\
  req (fst (run_msgs c (start c) f7_prefix)) = [s_sasl; s_batch] /\
  filter is_end (snd (run_msgs c (start c) (f7_prefix ++ [cap [[65;67;75]; s_batch]]))) = [GEnd 1 [] true] /\
  fsm (fst (run_msgs c (start c) (f7_prefix ++ [cap [[65;67;75]; s_batch]; INum 376 []]))) = CONNECTED.
Proof. exact cap_end_waits_for_late_request. Qed.
Print Assumptions C08_cap_end_waits_for_late_request.

(* Local liveness of the negotiation: the final line of a CAP LS received
   during the negotiation (fsm = INIT_CAP_NEGOTIATION) is always answered -- a
   CAP REQ, CAP END, or the connection is deliberately dropped (P2: some emitted
   event is an `answer`) -- unless an earlier CAP REQ is still unanswered, in
   which case capUpkeep ends the negotiation when the server answers it.
   For every configuration, state and capability list.  (Before the fix of
   finding C08.F24 `CAP LS :echo-message` got no answer and registration
   stalled; the harness checks the same predicate on the implementation.) *)
Theorem C08_final_ls_answered :
  forall c s a0 a1 caps, fsm s = INIT_CAP -> P2 (doCapLs c s [a0; a1; caps]).
Proof. exact final_ls_answered. Qed.
Print Assumptions C08_final_ls_answered.

(* the old witness of C08.F24: echo-message offered alone: nothing is requested, CAP END is sent *)
Theorem C08_echo_only_ends :
  let c := cfg_plain true in
  snd (run_msgs (Cfg [s_echo; s_label] false [] [] [] None false false true [104] 3)
                (start c) [cap [s_LS; s_echo]]) = [GReq [] [s_echo] []; GEnd 1 [] false; Send s_CAP [s_END]].
Proof. exact echo_only_ends. Qed.
Print Assumptions C08_echo_only_ends.

(* After a reset the capability and SASL state is the initial one ... *)
Theorem C08_reset_fresh :
  forall c s, cap_part (rstate (reset c s)) = ([], [], [], [], c_mechs c, None, false, None).
Proof. exact reset_fresh. Qed.
Print Assumptions C08_reset_fresh.

(* ... but a handler that triggers the reconnect keeps running on the fresh
   state (finding F23): the new connection starts with ls and req non-empty *)
Theorem C08_reset_fresh_refuted :
  exists c s m, let '(s', outs, _) := step c s m in
    existsb (fun o => match o with Reconnect (Some _) true => true | _ => false end) outs = true /\
    ls s' <> [] /\ req s' <> [].
Proof.
  exists (cfg_plain false), (start (cfg_plain false)), sts_mid_msg. exact reset_not_fresh_witness.
Qed.
Print Assumptions C08_reset_fresh_refuted.
