Require Import Base.Wire Base.PyStr C08.Model.
Theorem C08_stub : True. Proof. exact Logic.I. Qed.
Print Assumptions C08_stub.
