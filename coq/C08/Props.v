(* C08/Props.v — the property theorems, nothing else.
   Model: C08/Model.v.  Proofs: Frame.v, PassA.v, PassB.v, PassC.v. *)
From Coq Require Import List NArith ZArith Bool.
Import ListNotations.
Require Import Base.Wire Base.PyStr C08.Model C08.Frame C08.PassA C08.PassB C08.PassC.

(* For every configuration, every state satisfying the invariant (in particular
   the state right after a reset) and EVERY sequence of server messages
   (any order, any oracle outcome), every emitted event satisfies OutA:
   - a requested capability is wanted and was advertised at that time (GReq);
   - echo-message is requested only if labeled-response is acknowledged or
     heads the same request next to it (GReq);
   - a credential chunk is sent only if 'sasl' was acknowledged on this
     connection (SendCred ghost flag);
   - a CAP END is the first of its connection (GEnd n: n = 1);
   - an STS policy is stored only over a verified TLS connection (C09). *)
Theorem C08_registration_safety :
  forall c ms s, InvA s ->
  InvA (fst (run_msgs c s ms)) /\ Forall (OutA c) (snd (run_msgs c s ms)).
Proof. exact PassA.ok_run. Qed.
Print Assumptions C08_registration_safety.

(* the state after any reset satisfies the invariant: the theorem above applies
   to every connection *)
Theorem C08_reset_establishes_invariant : forall c s, InvA (rstate (reset c s)).
Proof. intros c s. exact (proj1 (PassA.ok_reset c s)). Qed.
Print Assumptions C08_reset_establishes_invariant.

(* credentials are sent only in answer to an AUTHENTICATE from the server *)
Theorem C08_credentials_invited :
  forall c s m, match m with IAuth _ _ _ => False | _ => True end ->
  Forall NoCred (routs (step c s m)).
Proof. intros c s m H. exact (proj2 (creds_only_on_authenticate c s m H)). Qed.
Print Assumptions C08_credentials_invited.

(* Full statement: every CAP END is sent with no request outstanding.  The
   pinned code violates it (finding F7).  Proved: it holds for every message
   sequence without CAP NEW / CAP DEL ... *)
Theorem C08_cap_end_quiescent_on_domain :
  forall c ms s, forallb no_newdel ms = true -> InvB c s ->
  InvB c (fst (run_msgs c s ms)) /\ Forall OutB (snd (run_msgs c s ms)).
Proof. exact PassB.ok_run. Qed.
Print Assumptions C08_cap_end_quiescent_on_domain.

Theorem C08_reset_establishes_domain_invariant : forall c s, InvB c (rstate (reset c s)).
Proof. intros c s. exact (proj1 (PassB.ok_reset c s)). Qed.
Print Assumptions C08_reset_establishes_domain_invariant.

(* ... and fails on a sequence with a CAP NEW during the SASL exchange *)
Theorem C08_cap_end_quiescent_refuted :
  exists c ms, existsb (fun o => match o with GEnd _ (_ :: _) => true | _ => false end)
                       (snd (run_msgs c (start c) ms)) = true.
Proof. eexists. eexists. exact (proj2 cap_end_outstanding_witness). Qed.
Print Assumptions C08_cap_end_quiescent_refuted.

(* After a reset the capability and SASL state is the initial one ... *)
Theorem C08_reset_fresh :
  forall c s, cap_part (rstate (reset c s)) = ([], [], [], [], c_mechs c, None, false, None).
Proof. exact reset_fresh. Qed.
Print Assumptions C08_reset_fresh.

(* ... but a handler that triggers the reconnect keeps running on the fresh
   state (finding F23): the new connection starts with ls and req non-empty *)
Theorem C08_reset_fresh_refuted :
  exists c s m, let '(s', outs, _) := step c s m in
    existsb (fun o => match o with Reconnect (Some _) true => true | _ => false end) outs = true /\
    ls s' <> [] /\ req s' <> [].
Proof.
  exists (cfg_plain false), (start (cfg_plain false)), sts_mid_msg. exact reset_not_fresh_witness.
Qed.
Print Assumptions C08_reset_fresh_refuted.
