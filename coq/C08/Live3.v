(* C08/Live3.v — liveness against conformant servers that may also reject the
   bot's nick (432/433/437) at any round before the welcome burst and withhold
   the welcome burst until a replacement NICK is accepted.  The bot side is
   stepN: the registration machine plus the nick generator of _getNextNick. *)
From Coq Require Import List NArith ZArith Bool Arith Lia.
Import ListNotations.
Require Import Base.Wire Base.PyStr C08.Model C08.Frame C08.PassB C08.PassC C08.PassD C08.Chunk C08.Live C08.Live2.
Open Scope N_scope.

(* ====================================================================== *)
(* Part 1: only do376 sets afterConnect *)
Definition NotAfter (s : st) : Prop := after s = false.
Definition AnyOut (o : outev) : Prop := True.

Section AF.
Variable c : cfg.
Notation ok := (okR NotAfter AnyOut).
Ltac af :=
  match goal with
  | |- okR _ _ (ret _) => apply ok_ret; unfold NotAfter in *; cbn; try assumption; try reflexivity
  | |- okR _ _ (raise _ _) => apply ok_raise; unfold NotAfter in *; cbn; try assumption; try reflexivity
  | |- okR _ _ (emit _ _) => apply ok_emit; [unfold NotAfter in *; cbn; try assumption; try reflexivity|exact Logic.I]
  | |- okR _ _ (send _ _ _) => apply ok_emit; [unfold NotAfter in *; cbn; try assumption; try reflexivity|exact Logic.I]
  | |- okR _ _ (_ >>> _) => apply ok_andthen; [|intros ? ?]
  | |- okR _ _ (if ?b then _ else _) => destruct b
  | |- okR _ _ (match ?x with _ => _ end) => destruct x
  end.

Lemma af_transition tbl s : NotAfter s -> ok (transition tbl s).
Proof. intro H. unfold transition. repeat af. Qed.
Lemma af_expect l s : NotAfter s -> ok (expect l s).
Proof. intro H. unfold expect. repeat af. Qed.
Lemma af_reset s : ok (reset c s).
Proof.
  unfold reset, queue_connect. assert (H : NotAfter (fresh c (zombie s))) by reflexivity. revert H. generalize (fresh c (zombie s)). intros s0 H.
  repeat (first [apply af_transition; assumption | af]).
Qed.
Lemma af_reconnect s srv w : NotAfter s -> ok (reconnect c s srv w).
Proof. intro H. unfold reconnect. apply ok_andthen; [af|intros; apply af_reset]. Qed.
Lemma af_endCap s : NotAfter s -> ok (endCap c s).
Proof. intro H. unfold endCap. repeat (first [apply af_reconnect; assumption | apply af_transition; assumption | af]). Qed.
Lemma af_tryNext s : NotAfter s -> ok (tryNextSasl c s).
Proof.
  intro H. unfold tryNextSasl.
  repeat (first [apply af_reconnect; assumption | apply af_transition; (assumption || (unfold NotAfter in *; cbn; assumption)) | apply af_expect; assumption | apply af_endCap; assumption | af]).
Qed.
Lemma af_maybe s : NotAfter s -> ok (maybeStartSasl c s).
Proof.
  intro H. unfold maybeStartSasl.
  repeat (first [apply af_transition; assumption | apply af_endCap; assumption
                | (apply af_tryNext; match goal with |- NotAfter (match ?o with _ => _ end) => destruct o end; unfold NotAfter in *; cbn; assumption) | af]).
Qed.
Lemma af_upkeep s : NotAfter s -> ok (capUpkeep c s).
Proof.
  intro H. unfold capUpkeep.
  repeat (first [apply af_expect; assumption | apply af_reconnect; assumption | apply af_maybe; assumption | apply af_endCap; assumption | af]).
Qed.
Lemma af_sts s p : NotAfter s -> ok (onCapSts c s p).
Proof. intro H. unfold onCapSts. repeat (first [apply af_transition; assumption | apply af_reconnect; assumption | af]). Qed.
Lemma af_addcaps items : forall s, NotAfter s -> ok (addCapabilities c items s).
Proof.
  induction items as [|i items IH]; intros s H; cbn [addCapabilities]; [af|].
  apply ok_andthen; [|intros s1 H1; apply IH; exact H1].
  repeat (first [apply af_sts; assumption | apply af_reconnect; assumption | af]).
Qed.
Lemma af_request s caps : NotAfter s -> ok (requestCaps s caps).
Proof. intro H. unfold requestCaps. apply ok_fold; [af|intros; af]. Qed.
Lemma af_ls s args : NotAfter s -> ok (doCapLs c s args).
Proof.
  intro H. unfold doCapLs.
  repeat (first [apply af_addcaps; assumption | apply af_expect; assumption | apply af_endCap; assumption | apply af_request; assumption | af]).
Qed.
Lemma af_ack s args : NotAfter s -> ok (doCapAck c s args).
Proof. intro H. unfold doCapAck. repeat (first [apply af_upkeep; unfold NotAfter in *; cbn; assumption | af]). Qed.
Lemma af_nak s args : NotAfter s -> ok (doCapNak c s args).
Proof. intro H. unfold doCapNak. repeat (first [apply af_upkeep; unfold NotAfter in *; cbn; assumption | af]). Qed.
Lemma af_del s args : NotAfter s -> ok (doCapDel s args).
Proof.
  intro H. unfold doCapDel. destruct args as [|a0 [|a1 [|a2 [|a3 r]]]]; try (apply ok_ret; exact H).
  destruct (words a2) as [|w ws]; [apply ok_raise; exact H|]. apply ok_ret.
  generalize (w :: ws). intro l. revert s H. induction l as [|x l IH]; intros s H; [exact H|]. cbn [fold_left]. apply IH. exact H.
Qed.
Lemma af_new s args : NotAfter s -> ok (doCapNew c s args).
Proof. intro H. unfold doCapNew. repeat (first [apply af_addcaps; assumption | apply af_request; assumption | af]). Qed.
Lemma af_chunks s chunks : NotAfter s -> ok (send_chunks s chunks).
Proof. intro H. unfold send_chunks. apply ok_fold; [af|intros; af]. Qed.
Lemma af_auth s args b e : NotAfter s -> ok (doAuthenticate c s args b e).
Proof.
  intro H. unfold doAuthenticate. apply ok_andthen; [apply af_expect; exact H|intros s1 H1].
  destruct args as [|chunk rest]; [af|].
  destruct (match dec s1 with Some d => d | None => ([], false) end) as [chunks ready].
  repeat (first [apply af_chunks; unfold NotAfter in *; cbn; assumption | af]).
Qed.

Theorem after_only_376 s m : after s = false -> is376 m = false -> after (rstate (step c s m)) = false.
Proof.
  intros H Hm. change (NotAfter s) in H.
  assert (Hok : ok (step c s m)); [|exact (proj1 Hok)].
  destruct m as [args|args b e|code args|args|args|]; cbn [step].
  - repeat (first [apply af_ls; assumption | apply af_ack; assumption | apply af_nak; assumption | apply af_new; assumption | apply af_del; assumption | af]).
  - apply af_auth. exact H.
  - cbn [is376] in Hm. rewrite Hm. unfold do903, do908, do43x.
    repeat (first [apply af_transition; (assumption || (unfold NotAfter in *; cbn; assumption)) | apply af_endCap; assumption | apply af_tryNext; assumption | af]).
  - unfold doError. repeat (first [apply af_reconnect; assumption | af]).
  - unfold doPing. repeat af.
  - apply af_reset.
Qed.
End AF.

(* ====================================================================== *)
(* Part 2: conformant servers that may reject the nick; the game on stepN *)
Definition rejection_msg (r : list inmsg) : Prop :=
  exists code a, r = [INum code a] /\ (code = 432 \/ code = 433 \/ code = 437).

(* the answer to one output in server state t (Model.sst); fr = the nick was rejected at the start of this response *)
Definition answersN (cap fr : bool) (t : sst) (o : outev) (r : list inmsg) (t' : sst) : Prop :=
  if is_nick_out o then
    if fr || negb (bad t) then r = [] /\ t' = t
    else (rejection_msg r /\ (0 < rej t)%nat /\ t' = Sst (pred (rej t)) (due t) true)                (* rejected again *)
      \/ (t' = Sst (rej t) false false /\ if due t then welcome_answer r else r = [])               (* accepted; the withheld welcome follows *)
  else if is_trigger cap o then
    if bad t then r = [] /\ t' = Sst (rej t) true true                                              (* no welcome without a nick *)
    else welcome_answer r /\ t' = t
  else answers cap o r /\ t' = t.

Inductive batchN (cap fr : bool) : sst -> list outev -> list inmsg -> sst -> Prop :=
| BN_nil t : batchN cap fr t [] [] t
| BN_cons t o r t1 b rs t2 : answersN cap fr t o r t1 -> batchN cap fr t1 b rs t2 -> batchN cap fr t (o :: b) (r ++ rs) t2.

(* one round: optionally reject the current nick first, then answer the batch *)
Definition roundR (cap : bool) (t : sst) (b : list outev) (resp : list inmsg) (t' : sst) : Prop :=
  exists fr r0 t0 rm,
    ((fr = false /\ r0 = [] /\ t0 = t) \/
     (fr = true /\ bad t = false /\ (0 < rej t)%nat /\ rejection_msg r0 /\ t0 = Sst (pred (rej t)) (due t) true)) /\
    batchN cap fr t0 b rm t' /\ resp = r0 ++ rm.

(* sigma is conformant with at most K nick rejections: its server state is a function tau of the history *)
Definition conformantN (K : nat) (sigma : strategy_t) : Prop :=
  exists cap (tau : list (list outev) -> sst),
    (forall b, tau [b] = Sst K false false) /\
    (forall b b' hist, roundR cap (tau (b :: hist)) b (sigma (b :: hist)) (tau (b' :: b :: hist))).

Fixpoint playN (c : cfg) (na : nat) (sigma : strategy_t) (n : nat) (sn : st * nk) (hist : list (list outev)) : (st * nk) * list (list outev) :=
  match n with
  | O => (sn, hist)
  | S n' => let '(sn', outs) := run_msgsN c na sn (sigma hist) in playN c na sigma n' sn' (outs :: hist)
  end.
Definition gameN (c : cfg) (na : nat) (sigma : strategy_t) (n : nat) := playN c na sigma n (start c, Nk na false false None) [init_outs c].
Definition finishedN (r : (st * nk) * list (list outev)) : Prop :=
  fsm (fst (fst r)) = CONNECTED \/ fsm (fst (fst r)) = CONNECTED_SASL \/ existsb (existsb is_abort) (snd r) = true.

(* ---- stepN on messages that are no nick rejections is step ---- *)
Definition plain (m : inmsg) : Prop := is43x m = false /\ is376 m = false /\ is_reset_msg m = false /\ is_setter m = false.
Lemma setter_id m n : is_setter m = false -> nick_setter m n = n.
Proof. destruct m as [| |code [|a r]| | |]; try reflexivity. cbn [is_setter nick_setter]. intro H. rewrite H. reflexivity. Qed.

Lemma runN_st c na ms : Forall (fun m => is43x m = false) ms -> forall s n,
  fst (fst (run_msgsN c na (s, n) ms)) = fst (run_msgs c s ms) /\ snd (run_msgsN c na (s, n) ms) = snd (run_msgs c s ms).
Proof.
  induction ms as [|m ms IH]; intros Hp s n; [split; reflexivity|]. inversion Hp as [|m' ms' Hm Hrest]; subst.
  cbn [run_msgsN run_msgs]. unfold stepN. rewrite Hm. destruct (step c s m) as [[s1 o1] e1].
  match goal with |- context [run_msgsN c na (s1, ?n1) ms] => specialize (IH Hrest s1 n1); destruct (run_msgsN c na (s1, n1) ms) as [[s2 n2] o2] end.
  destruct (run_msgs c s1 ms) as [s3 o3]. cbn [fst snd] in *. destruct IH as [E1 E2]. subst. split; reflexivity.
Qed.

(* without a 376 afterConnect stays false, and without a nick setter the current nick stays outside the alternates *)
Lemma runN_plain c na ms : Forall plain ms -> forall s n, after s = false -> cur_alt n = None ->
  after (fst (fst (run_msgsN c na (s, n) ms))) = false /\ cur_alt (snd (fst (run_msgsN c na (s, n) ms))) = None.
Proof.
  induction ms as [|m ms IH]; intros Hp s n Ha Hc; [split; assumption|]. inversion Hp as [|m' ms' [Hm [Hm6 [Hmr Hms]]] Hrest]; subst.
  cbn [run_msgsN]. unfold stepN. rewrite Hm, (setter_id m n Hms).
  pose proof (after_only_376 c s m Ha Hm6) as Ha1. destruct (step c s m) as [[s1 o1] e1]. cbn [rstate fst] in Ha1.
  rewrite Hm6, Hmr, Ha1. cbn [andb]. rewrite orb_false_r.
  assert (Hc1 : cur_alt (if existsb is_abort o1 then Nk na false false None else n) = None) by (destruct (existsb is_abort o1); [reflexivity|exact Hc]).
  specialize (IH Hrest s1 _ Ha1 Hc1). destruct (run_msgsN c na (s1, if existsb is_abort o1 then Nk na false false None else n) ms) as [[s2 n2] o2].
  cbn [fst snd] in *. exact IH.
Qed.

(* ====================================================================== *)
(* Part 3: reading the rejecting server's answers *)
Lemma plain_icap a : plain (ICap a).
Proof. repeat split. Qed.
Lemma answers_no43x cap o r : answers cap o r -> Forall (fun m => is43x m = false) r.
Proof.
  assert (Hw : forall r0, welcome_answer r0 -> Forall (fun m => is43x m = false) r0).
  { intros r0 [pre [e [a [E [He Hp]]]]]. subst r0. apply Forall_app. split.
    - eapply Forall_impl; [|exact Hp]. intros m [code [a' [Em Hb]]]. subst m. unfold benign in Hb. apply mem_In in Hb. cbn [In] in Hb.
      repeat (destruct Hb as [Hb|Hb]; [subst code; reflexivity|]). destruct Hb.
    - constructor; [destruct He; subst e; reflexivity|constructor]. }
  unfold answers. destruct cap.
  - destruct o as [cmd args|ch b| | | | | ]; try (intro; subst; constructor).
    + destruct (seq_eqb cmd s_CAP).
      * destruct args as [|sub rest]; [intro; subst; constructor|].
        destruct (seq_eqb sub s_LS).
        { intros [pre [x [caps [E Hp]]]]. subst r. apply Forall_app. split; [|constructor; [reflexivity|constructor]].
          eapply Forall_impl; [|exact Hp]. intros m [y [cs Em]]. subst m. reflexivity. }
        destruct (seq_eqb sub s_REQ).
        { destruct rest; [intro; subst; constructor|]. intros [x [E|E]]; subst r; (constructor; [reflexivity|constructor]). }
        destruct (seq_eqb sub s_END); [apply Hw|intro; subst; constructor].
      * destruct (seq_eqb cmd s_AUTH); [|intro; subst; constructor].
        destruct args as [|a rest]; [intro; subst; constructor|].
        destruct (seq_eqb a s_STAR); [intros [x E]; subst r; constructor; [reflexivity|constructor]|].
        intros [E|[[x E]|[x [y E]]]]; subst r; repeat (constructor; [reflexivity|]); constructor.
    + destruct (final_chunk ch); [|intro; subst; constructor]. intros [x [E|E]]; subst r; (constructor; [reflexivity|constructor]).
  - destruct o as [cmd args|ch b| | | | | ]; try (intro; subst; constructor).
    destruct (seq_eqb cmd s_USER); [apply Hw|intro; subst; constructor].
Qed.

Lemma plain_num code x : mem code [903; 904; 906; 908] = true -> plain (INum code x).
Proof.
  intro H. apply mem_In in H. cbn [In] in H. repeat (destruct H as [H|H]; [subst code; repeat split; destruct x; vm_compute; reflexivity|]). destruct H.
Qed.
Lemma plain_iauth a b e : plain (IAuth a b e).
Proof. repeat split. Qed.

(* outside the welcome burst the answers contain no end of MOTD either *)
Lemma answers_plain cap o r : is_trigger cap o = false -> answers cap o r -> Forall plain r.
Proof.
  unfold answers, is_trigger. destruct cap.
  - destruct o as [cmd args|ch b| | | | | ]; try (intros _ H; subst; constructor).
    + destruct (seq_eqb cmd s_CAP).
      * destruct args as [|sub rest]; [intros _ H; subst; constructor|]. cbn [andb].
        destruct (seq_eqb sub s_LS).
        { intros _ [pre [x [caps [E Hp]]]]. subst r. apply Forall_app. split; [|constructor; [apply plain_icap|constructor]].
          eapply Forall_impl; [|exact Hp]. intros m [y [cs Em]]. subst m. apply plain_icap. }
        destruct (seq_eqb sub s_REQ).
        { destruct rest; [intros _ H; subst; constructor|]. intros _ [x [E|E]]; subst r; (constructor; [apply plain_icap|constructor]). }
        intro Ht. rewrite Ht. intro H; subst; constructor.
      * intros _. destruct (seq_eqb cmd s_AUTH); [|intro; subst; constructor].
        destruct args as [|a rest]; [intro; subst; constructor|].
        destruct (seq_eqb a s_STAR); [intros [x E]; subst r; constructor; [apply plain_num; reflexivity|constructor]|].
        intros [E|[[x E]|[x [y E]]]]; subst r; repeat (constructor; [first [apply plain_iauth | apply plain_num; reflexivity]|]); constructor.
    + intros _. destruct (final_chunk ch); [|intro; subst; constructor]. intros [x [E|E]]; subst r; (constructor; [apply plain_num; reflexivity|constructor]).
  - destruct o as [cmd args|ch b| | | | | ]; try (intros _ H; subst; constructor).
    intro Ht. rewrite Ht. intro H; subst; constructor.
Qed.
Lemma batch_plain cap b : Forall (fun o => is_trigger cap o = false) b -> forall r, answers_batch cap b r -> Forall plain r.
Proof.
  induction b as [|o b IH]; intros Hb r H; inversion H as [|o' b' r1 rs H1 Hr]; subst; [constructor|].
  inversion Hb; subst. apply Forall_app. split; [eapply answers_plain; eassumption|apply IH; assumption].
Qed.
Lemma batch_no43x cap b : forall r, answers_batch cap b r -> Forall (fun m => is43x m = false) r.
Proof.
  induction b as [|o b IH]; intros r H; inversion H as [|o' b' r1 rs H1 Hr]; subst; [constructor|].
  apply Forall_app. split; [eapply answers_no43x; exact H1|apply IH; exact Hr].
Qed.

Lemma nick_not_trigger cap o : is_nick_out o = true -> is_trigger cap o = false.
Proof.
  destruct o as [cmd args|? ?| | | | | ]; try discriminate. cbn [is_nick_out is_trigger]. intro H. apply seq_eqb_eq in H. subst cmd.
  destruct cap; reflexivity.
Qed.
Lemma nick_answer cap o : is_nick_out o = true -> answers cap o [].
Proof.
  destruct o as [cmd args|? ?| | | | | ]; try discriminate. cbn [is_nick_out]. intro H. apply seq_eqb_eq in H. subst cmd.
  destruct cap; reflexivity.
Qed.
Lemma trigger_answer cap o r : is_trigger cap o = true -> welcome_answer r -> answers cap o r.
Proof.
  destruct o as [cmd args|? ?| | | | | ]; try discriminate. unfold is_trigger, answers. destruct cap.
  - intro H. apply andb_true_iff in H as [H1 H2]. rewrite H1. destruct args as [|sub rest]; [discriminate|].
    apply seq_eqb_eq in H2. subst sub. intro Hw. exact Hw.
  - intro H. rewrite H. intro Hw. exact Hw.
Qed.

(* the server is not holding a rejected nick: the batch is answered as by the plain relation *)
Lemma BN_plain cap fr : forall t b rm t', bad t = false -> batchN cap fr t b rm t' -> answers_batch cap b rm /\ t' = t.
Proof.
  intros t b rm t' Hb H. revert Hb. induction H as [t|t o r t1 b rs t2 H1 Hr IH]; intro Hb; [split; [constructor|reflexivity]|].
  unfold answersN in H1. rewrite Hb in H1. cbn [negb] in H1. rewrite orb_true_r in H1.
  destruct (is_nick_out o) eqn:En.
  - destruct H1 as [E1 E2]. subst r t1. destruct (IH Hb) as [Ha Et]. split; [|exact Et].
    change rs with ([] ++ rs). constructor; [apply nick_answer; exact En|exact Ha].
  - destruct (is_trigger cap o) eqn:Et.
    + destruct H1 as [Hw E2]. subst t1. destruct (IH Hb) as [Ha Et2]. split; [|exact Et2]. constructor; [apply trigger_answer; assumption|exact Ha].
    + destruct H1 as [Ha1 E2]. subst t1. destruct (IH Hb) as [Ha Et2]. split; [|exact Et2]. constructor; assumption.
Qed.

(* the server holds a rejected nick: the welcome triggers are not answered, everything else is *)
Lemma BN_bad cap fr : forall t b rm t', bad t = true -> (fr = true \/ Forall (fun o => is_nick_out o = false) b) ->
  batchN cap fr t b rm t' ->
  answers_batch cap (filter (fun o => negb (is_trigger cap o)) b) rm /\
  bad t' = true /\ rej t' = rej t /\ due t' = (due t || existsb (is_trigger cap) b).
Proof.
  intros t b rm t' Hb Hn H. revert Hb Hn. induction H as [t|t o r t1 b rs t2 H1 Hr IH]; intros Hb Hn.
  - split; [constructor|]. split; [exact Hb|]. split; [reflexivity|]. cbn. rewrite orb_false_r. reflexivity.
  - unfold answersN in H1. cbn [filter existsb].
    assert (Hn' : fr = true \/ Forall (fun o => is_nick_out o = false) b).
    { destruct Hn as [Hn|Hn]; [left; exact Hn|right; inversion Hn; assumption]. }
    destruct (is_nick_out o) eqn:En.
    + assert (Efr : fr = true) by (destruct Hn as [Hn|Hn]; [exact Hn|inversion Hn as [|o' b' H0 _]; subst; rewrite En in H0; discriminate]).
      rewrite Efr in H1. cbn [orb] in H1. destruct H1 as [E1 E2]. subst r t1.
      rewrite (nick_not_trigger cap o En). cbn [negb orb].
      destruct (IH Hb Hn') as [Ha [B1 [B2 B3]]]. split; [|split; [exact B1|split; [exact B2|exact B3]]].
      change rs with ([] ++ rs). constructor; [apply nick_answer; exact En|exact Ha].
    + destruct (is_trigger cap o) eqn:Et.
      * rewrite Hb in H1. destruct H1 as [E1 E2]. subst r t1. cbn [negb app].
        destruct (IH eq_refl Hn') as [Ha [B1 [B2 B3]]]. cbn [rej due] in *. split; [exact Ha|]. split; [exact B1|]. split; [exact B2|].
        rewrite B3. rewrite orb_true_r. reflexivity.
      * destruct H1 as [Ha1 E2]. subst t1. cbn [negb orb].
        destruct (IH Hb Hn') as [Ha [B1 [B2 B3]]]. split; [constructor; assumption|]. split; [exact B1|]. split; [exact B2|exact B3].
Qed.

Lemma rejection_is43x r : rejection_msg r -> exists m, r = [m] /\ is43x m = true.
Proof. intros [code [a [E H]]]. exists (INum code a). split; [exact E|]. destruct H as [H|[H|H]]; subst code; reflexivity. Qed.

(* the bot answers every nick rejection with a NICK (an alternate, then random variants: always a new nick); nothing else changes *)
Lemma is43x_not_setter m : is43x m = true -> is_setter m = false.
Proof.
  destruct m as [| |code args| | |]; try discriminate. cbn [is43x is_setter]. intro H. destruct args; [reflexivity|].
  apply orb_true_iff in H as [H|H]; [apply orb_true_iff in H as [H|H]|]; apply N.eqb_eq in H; subst code; vm_compute; reflexivity.
Qed.
Lemma step_rejection c na s n m : is43x m = true -> after s = false -> cur_alt n = None ->
  stepN c na (s, n) m = ((s, fst (next_nick n)), [Send s_NICK []], None) /\ cur_alt (fst (next_nick n)) = None.
Proof.
  intros Hm Ha Hc. unfold stepN. rewrite Hm, Ha, (setter_id m n (is43x_not_setter m Hm)). unfold next_nick. rewrite Hc.
  destruct (alts n) as [|a]; [|split; reflexivity].
  destruct (renamed n && negb (tried n)); split; try reflexivity; exact Hc.
Qed.

(* ====================================================================== *)
(* Part 4: the lifted rounds *)
Definition nt (cap : bool) (o : outev) : bool := negb (is_trigger cap o).

Lemma quiet_nt cap o : quiet o -> is_trigger cap o = false.
Proof. destruct o; try contradiction; reflexivity. Qed.
Lemma quiet_notnick o : quiet o -> is_nick_out o = false.
Proof. destruct o; try contradiction; reflexivity. Qed.
Lemma filter_all {A} (f : A -> bool) l : Forall (fun x => f x = true) l -> filter f l = l.
Proof. induction 1 as [|x l Hx Hl IH]; cbn [filter]; [reflexivity|]. rewrite Hx, IH. reflexivity. Qed.
Lemma batch_all_silent cap b : Forall (fun o => forall r, answers cap o r -> r = []) b -> forall rm, answers_batch cap b rm -> rm = [].
Proof.
  induction 1 as [|o b Ho Hb IH]; intros rm H; inversion H as [|o' b' r1 rs H1 Hr]; subst; [reflexivity|].
  rewrite (Ho r1 H1), (IH rs Hr). reflexivity.
Qed.
Lemma quiet_silent cap o : quiet o -> forall r, answers cap o r -> r = [].
Proof. intros Hq r H. exact (answers_quiet cap o r Hq H). Qed.

Section Lift.
Variable c : cfg.
Hypothesis Hok : cfg_ok c.
Variable na : nat.
Variable cap : bool.

Definition BaseS (j : nat) (s : st) (b : list outev) : Prop :=
  if cap then InvS c j s b else (j = 0%nat /\ s = start c /\ b = init_outs c).
Definition BaseP (j : nat) (s : st) (b : list outev) : Prop := if cap then InvP c j s b else False.

Lemma BaseP_S j s b : BaseP j s b -> BaseS j s b.
Proof. unfold BaseP, BaseS. destruct cap; [intro H; right; exact H|intros []]. Qed.

Lemma base_round j s b resp : BaseS j s b -> answers_batch cap b resp ->
  let r := run_msgs c s resp in
  aborted (snd r) \/ fsm (fst r) = CONNECTED \/ exists j', (j' < j)%nat /\ BaseP j' (fst r) (snd r).
Proof.
  unfold BaseS, BaseP. destruct cap; [apply (round_cap2' c Hok)|].
  intros [Ej [Es Eb]] Hb. subst. apply (batch_init c false) in Hb.
  assert (Hp3 : pre3 (start c)) by (unfold pre3; destruct (start_core c) as [Sf _]; rewrite Sf; reflexivity).
  cbv zeta. destruct (welcome_run c _ Hb (start c) Hp3) as [H|H]; [left|right; left]; exact H.
Qed.

(* where the welcome trigger is: nowhere, or the bot is waiting for the welcome burst and the rest of the batch is silent *)
Definition Trig (s : st) (b : list outev) : Prop :=
  pre3 s /\ existsb (is_trigger cap) b = true /\ (forall rm, answers_batch cap b rm -> welcome_answer rm) /\
  (forall rm, answers_batch cap (filter (nt cap) b) rm -> rm = []).

Lemma classify j s b : BaseS j s b -> Forall (fun o => is_trigger cap o = false) b \/ Trig s b.
Proof.
  unfold BaseS, Trig. destruct cap.
  - intros [[Ej [Es Eb]]|[[Ej Hp]|[[Hp Ej]|[[Hp Ej]|[Ej Hp]]]]].
    + left. subst b. rewrite init_outs_eq. destruct (c_password c); repeat constructor.
    + left. destruct Hp as [_ [_ [_ [_ [_ [q [caps [Eb [Hq _]]]]]]]]]. subst b. apply Forall_app. split.
      * eapply Forall_impl; [|exact Hq]. intros o Ho. apply quiet_nt. exact Ho.
      * apply Forall_forall. intros o Ho. apply in_map_iff in Ho as [l [E _]]. subst o. reflexivity.
    + left. destruct Hp as [_ [m [q [_ [_ [Eb Hq]]]]]]. subst b. apply Forall_app. split; [|repeat constructor].
      eapply Forall_impl; [|exact Hq]. intros o Ho. apply quiet_nt. exact Ho.
    + left. destruct Hp as [_ [g [chunks [_ Eb]]]]. subst b. apply Forall_forall. intros o Ho. apply in_map_iff in Ho as [ch [E _]]. subst o. reflexivity.
    + right. destruct Hp as [Hf [q [Eb Hq]]]. subst b. split; [unfold pre3; rewrite Hf; reflexivity|]. split; [|split].
      * rewrite existsb_app. cbn. rewrite orb_true_r. reflexivity.
      * intros rm H. apply batch_quiet in H; [|exact Hq]. apply batch_single in H. exact H.
      * intros rm H. rewrite filter_app in H. cbn in H. rewrite app_nil_r in H.
        rewrite filter_all in H by (eapply Forall_impl; [|exact Hq]; intros o Ho; unfold nt; rewrite (quiet_nt true o Ho); reflexivity).
        eapply batch_all_silent; [|exact H]. eapply Forall_impl; [|exact Hq]. intros o Ho. apply quiet_silent. exact Ho.
  - intros [Ej [Es Eb]]. right. subst s b. split; [unfold pre3; destruct (start_core c) as [Sf _]; rewrite Sf; reflexivity|]. split; [|split].
    + rewrite init_outs_eq. destruct (c_password c); reflexivity.
    + intros rm H. exact (batch_init c false rm H).
    + intros rm H. rewrite init_outs_eq in H. eapply batch_all_silent; [|exact H].
      destruct (c_password c); cbn; repeat constructor; intros r Hr; exact Hr.
Qed.

Lemma phases_no_nick j s b : BaseP j s b -> Forall (fun o => is_nick_out o = false) b.
Proof.
  unfold BaseP. destruct cap; [|intros []]. intros [[Ej Hp]|[[Hp Ej]|[[Hp Ej]|[Ej Hp]]]].
  - destruct Hp as [_ [_ [_ [_ [_ [q [caps [Eb [Hq _]]]]]]]]]. subst b. apply Forall_app. split.
    + eapply Forall_impl; [|exact Hq]. intros o Ho. apply quiet_notnick. exact Ho.
    + apply Forall_forall. intros o Ho. apply in_map_iff in Ho as [l [E _]]. subst o. reflexivity.
  - destruct Hp as [_ [m [q [_ [_ [Eb Hq]]]]]]. subst b. apply Forall_app. split; [|repeat constructor].
    eapply Forall_impl; [|exact Hq]. intros o Ho. apply quiet_notnick. exact Ho.
  - destruct Hp as [_ [g [chunks [_ Eb]]]]. subst b. apply Forall_forall. intros o Ho. apply in_map_iff in Ho as [ch [E _]]. subst o. reflexivity.
  - destruct Hp as [_ [q [Eb Hq]]]. subst b. apply Forall_app. split; [|repeat constructor].
    eapply Forall_impl; [|exact Hq]. intros o Ho. apply quiet_notnick. exact Ho.
Qed.

(* the lifted invariant: J = rounds still needed *)
Definition InvN (J : nat) (s : st) (n : nk) (b : list outev) (t : sst) : Prop :=
  after s = false /\ cur_alt n = None /\
  ((due t = false /\ exists j b0, (if bad t then BaseP j s b0 else BaseS j s b0) /\
      b = (if bad t then [Send s_NICK []] else []) ++ b0 /\ J = (j + rej t)%nat) \/
   (due t = true /\ bad t = true /\ b = [Send s_NICK []] /\ pre3 s /\ J = rej t)).

Definition Goal (J : nat) (t' : sst) (r : (st * nk) * list outev) : Prop :=
  aborted (snd r) \/ fsm (fst (fst r)) = CONNECTED \/ exists J', (J' < J)%nat /\ InvN J' (fst (fst r)) (snd (fst r)) (snd r) t'.

(* the server holds no rejected nick while it answers b0 *)
Lemma plain_round j s n b0 rm t' : after s = false -> cur_alt n = None -> BaseS j s b0 -> answers_batch cap b0 rm ->
  bad t' = false -> due t' = false ->
  Goal (j + rej t') t' (run_msgsN c na (s, n) rm).
Proof.
  intros Ha Hca Hb Hans Hbad Hdue. unfold Goal.
  destruct (runN_st c na rm (batch_no43x cap b0 rm Hans) s n) as [E1 E2].
  destruct (classify j s b0 Hb) as [Hnt|[Hp3 [_ [Hw _]]]].
  - pose proof (runN_plain c na rm (batch_plain cap b0 Hnt rm Hans) s n Ha Hca) as [Ha' Hca'].
    pose proof (base_round j s b0 rm Hb Hans) as Hbase. cbv zeta in Hbase.
    destruct (run_msgsN c na (s, n) rm) as [[s' n'] o']. destruct (run_msgs c s rm) as [s'' o'']. cbn [fst snd] in *. subst s'' o''.
    destruct Hbase as [H|[H|[j' [Hj H]]]]; [left; exact H|right; left; exact H|].
    right. right. exists (j' + rej t')%nat. split; [lia|].
    split; [exact Ha'|]. split; [exact Hca'|]. left. split; [exact Hdue|]. exists j', o'. rewrite Hbad. split; [apply BaseP_S; exact H|]. split; reflexivity.
  - pose proof (welcome_run c rm (Hw rm Hans) s Hp3) as H.
    destruct (run_msgsN c na (s, n) rm) as [[s' n'] o']. destruct (run_msgs c s rm) as [s'' o'']. cbn [fst snd] in *. subst s'' o''.
    destruct H as [H|H]; [left|right; left]; exact H.
Qed.

(* the server rejects the nick (r0) and answers b0 while holding the rejected nick *)
Lemma bad_round j s n b0 r0 rm t' : after s = false -> cur_alt n = None -> BaseS j s b0 -> rejection_msg r0 ->
  answers_batch cap (filter (nt cap) b0) rm -> bad t' = true -> due t' = existsb (is_trigger cap) b0 ->
  Goal (j + rej t' + 1) t' (run_msgsN c na (s, n) (r0 ++ rm)).
Proof.
  intros Ha Hca Hb Hr0 Hans Hbad Hdue. unfold Goal.
  destruct (rejection_is43x r0 Hr0) as [m [E Hm]]. subst r0. cbn [app run_msgsN].
  destruct (step_rejection c na s n m Hm Ha Hca) as [Est Hca1]. rewrite Est.
  set (n1 := fst (next_nick n)) in *.
  destruct (classify j s b0 Hb) as [Hnt|[Hp3 [Hex [_ Hsil]]]].
  - assert (Ef : filter (nt cap) b0 = b0).
    { apply filter_all. eapply Forall_impl; [|exact Hnt]. intros o Ho. unfold nt. rewrite Ho. reflexivity. }
    rewrite Ef in Hans.
    assert (Hd : due t' = false).
    { rewrite Hdue. destruct (existsb (is_trigger cap) b0) eqn:Ee; [|reflexivity]. apply existsb_exists in Ee as [o [Hin Ho]].
      rewrite Forall_forall in Hnt. rewrite (Hnt o Hin) in Ho. discriminate. }
    destruct (runN_st c na rm (batch_no43x cap b0 rm Hans) s n1) as [E1 E2].
    pose proof (runN_plain c na rm (batch_plain cap b0 Hnt rm Hans) s n1 Ha Hca1) as [Ha' Hca'].
    pose proof (base_round j s b0 rm Hb Hans) as Hbase. cbv zeta in Hbase.
    destruct (run_msgsN c na (s, n1) rm) as [[s' n'] o']. destruct (run_msgs c s rm) as [s'' o'']. cbn [fst snd] in *. subst s'' o''.
    destruct Hbase as [H|[H|[j' [Hj H]]]].
    + left. apply aborted_app_r. exact H.
    + right. left. exact H.
    + right. right. exists (j' + rej t')%nat. split; [lia|].
      split; [exact Ha'|]. split; [exact Hca'|]. left. split; [exact Hd|]. exists j', o'. rewrite Hbad. split; [exact H|]. split; reflexivity.
  - rewrite (Hsil rm Hans). cbn [run_msgsN fst snd app]. right. right. exists (rej t'). split; [lia|].
    split; [exact Ha|]. split; [exact Hca1|]. right. rewrite Hdue, Hex. repeat split; assumption.
Qed.
End Lift.

Section Lift2.
Variable c : cfg.
Hypothesis Hok : cfg_ok c.
Variable na : nat.
Variable cap : bool.
Notation InvN' := (InvN c na cap).

Lemma welcome_no43x r : welcome_answer r -> Forall (fun m => is43x m = false) r.
Proof.
  intros [pre [e [a [E [He Hp]]]]]. subst r. apply Forall_app. split.
  - eapply Forall_impl; [|exact Hp]. intros m [code [a' [Em Hb]]]. subst m. unfold benign in Hb. apply mem_In in Hb. cbn [In] in Hb.
    repeat (destruct Hb as [Hb|Hb]; [subst code; reflexivity|]). destruct Hb.
  - constructor; [destruct He; subst e; reflexivity|constructor].
Qed.

(* one round of the game against the rejecting server *)
Lemma lift_round J s n b t resp t' : InvN c cap J s n b t -> roundR cap t b resp t' ->
  Goal c cap J t' (run_msgsN c na (s, n) resp).
Proof.
  intros [Ha [Hca Hcase]] [fr [r0 [t0 [rm [Hpre [Hbatch Eresp]]]]]]. subst resp.
  destruct Hcase as [[Hdue [j [b0 [Hbase [Eb EJ]]]]]|[Hdue [Hbad [Eb [Hp3 EJ]]]]].
  - (* the registration is in progress *)
    destruct Hpre as [[Efr [Er0 Et0]]|[Efr [Hbad0 [Hpos [Hr0 Et0]]]]]; subst fr t0.
    + subst r0. cbn [app]. destruct (bad t) eqn:Hbad.
      * (* a replacement NICK heads the batch *)
        subst b. cbn [app] in Hbatch. inversion Hbatch as [|t1 o r t2 b' rs t3 H1 Hr]; subst.
        unfold answersN in H1. cbn [is_nick_out] in H1. change (seq_eqb s_NICK s_NICK) with true in H1. rewrite Hbad in H1. cbn [orb negb] in H1.
        destruct H1 as [[Hr1 [Hpos Et2]]|[Et2 Hr1]]; subst t2.
        -- (* rejected again *)
           destruct (BN_bad cap false (Sst (pred (rej t)) (due t) true) b0 rs t' eq_refl (or_intror (phases_no_nick c cap j s b0 Hbase)) Hr) as [Hans [B1 [B2 B3]]].
           cbn [rej due] in B2, B3. rewrite Hdue in B3. cbn [orb] in B3.
           assert (G : Goal c cap (j + rej t' + 1) t' (run_msgsN c na (s, n) (r ++ rs))).
           { apply (bad_round c Hok na cap j s n b0 r rs t' Ha Hca (BaseP_S c cap j s b0 Hbase)); try assumption; try lia. }
           unfold Goal in *. destruct G as [G|[G|[J' [HJ G]]]]; [left; exact G|right; left; exact G|right; right; exists J'; split; [lia|exact G]].
        -- (* accepted *)
           rewrite Hdue in Hr1. subst r. cbn [app].
           destruct (BN_plain cap false (Sst (rej t) false false) b0 rs t' eq_refl Hr) as [Hans Et']. subst t'. cbn [rej] in *.
           pose proof (plain_round c Hok na cap j s n b0 rs (Sst (rej t) false false) Ha Hca (BaseP_S c cap j s b0 Hbase) Hans eq_refl eq_refl) as G.
           unfold Goal in *. cbn [rej] in G. destruct G as [G|[G|[J' [HJ G]]]]; [left; exact G|right; left; exact G|right; right; exists J'; split; [lia|exact G]].
      * (* plain *)
        subst b. cbn [app] in Hbatch. destruct (BN_plain cap false _ _ _ _ Hbad Hbatch) as [Hans Et']. subst t'.
        assert (G : Goal c cap (j + rej t) t (run_msgsN c na (s, n) rm)).
        { apply (plain_round c Hok na cap j s n b0 rm t Ha Hca Hbase Hans); assumption. }
        unfold Goal in *. destruct G as [G|[G|[J' [HJ G]]]]; [left; exact G|right; left; exact G|right; right; exists J'; split; [lia|exact G]].
    + (* the nick is rejected at the start of the response *)
      rewrite Hbad0 in *. subst b. cbn [app] in Hbatch.
      destruct (BN_bad cap true (Sst (pred (rej t)) (due t) true) b0 rm t' eq_refl (or_introl eq_refl) Hbatch) as [Hans [B1 [B2 B3]]].
      cbn [rej due] in B2, B3. rewrite Hdue in B3. cbn [orb] in B3.
      assert (G : Goal c cap (j + rej t' + 1) t' (run_msgsN c na (s, n) (r0 ++ rm))).
      { apply (bad_round c Hok na cap j s n b0 r0 rm t' Ha Hca Hbase); try assumption; try lia. }
      unfold Goal in *. destruct G as [G|[G|[J' [HJ G]]]]; [left; exact G|right; left; exact G|right; right; exists J'; split; [lia|exact G]].
  - (* the welcome burst is withheld: the batch is the replacement NICK *)
    destruct Hpre as [[Efr [Er0 Et0]]|[Efr [Hbad0 _]]]; [|rewrite Hbad in Hbad0; discriminate]. subst fr t0 r0 b. cbn [app].
    inversion Hbatch as [|t1 o r t2 b' rs t3 H1 Hr]; subst. inversion Hr; subst. rewrite app_nil_r.
    unfold answersN in H1. cbn [is_nick_out] in H1. change (seq_eqb s_NICK s_NICK) with true in H1. rewrite Hbad in H1. cbn [orb negb] in H1.
    destruct H1 as [[Hr1 [Hpos Et2]]|[Et2 Hr1]]; subst t'.
    + (* rejected again *)
      destruct (rejection_is43x r Hr1) as [m [E Hm]]. subst r. cbn [run_msgsN]. destruct (step_rejection c na s n m Hm Ha Hca) as [Est Hca1]. rewrite Est.
      cbn [fst snd app]. right. right. exists (pred (rej t)). split; [lia|].
      unfold InvN. cbn [fst snd rej alts due bad]. split; [exact Ha|]. split; [exact Hca1|]. right. repeat split; assumption.
    + (* accepted: the welcome burst *)
      rewrite Hdue in Hr1. destruct (runN_st c na r (welcome_no43x r Hr1) s n) as [E1 E2].
      pose proof (welcome_run c r Hr1 s Hp3) as H. unfold Goal.
      destruct (run_msgsN c na (s, n) r) as [[s' n'] o']. destruct (run_msgs c s r) as [s'' o'']. cbn [fst snd] in *. subst s'' o''.
      destruct H as [H|H]; [left|right; left]; exact H.
Qed.

(* ---- the game ---- *)
Variable sigma : strategy_t.
Variable tau : list (list outev) -> sst.
Hypothesis Htau : forall b b' hist, roundR cap (tau (b :: hist)) b (sigma (b :: hist)) (tau (b' :: b :: hist)).

Lemma reachN : forall J s n b hist, InvN c cap J s n b (tau (b :: hist)) ->
  exists k, (k <= S J)%nat /\ finishedN (playN c na sigma k (s, n) (b :: hist)).
Proof.
  induction J as [J IH] using lt_wf_ind. intros s n b hist Hi.
  destruct (run_msgsN c na (s, n) (sigma (b :: hist))) as [[s' n'] outs] eqn:Er.
  pose proof (lift_round J s n b _ _ _ Hi (Htau b outs hist)) as Hr. rewrite Er in Hr. unfold Goal in Hr. cbn [fst snd] in Hr.
  destruct Hr as [Hab|[Hc|[J' [Hlt Hi']]]].
  - exists 1%nat. split; [lia|]. cbn [playN]. rewrite Er. right. right. cbn [snd existsb]. unfold aborted in Hab. rewrite Hab. reflexivity.
  - exists 1%nat. split; [lia|]. cbn [playN]. rewrite Er. left. exact Hc.
  - destruct (IH J' Hlt s' n' outs (b :: hist) Hi') as [k [Hk Hf]]. exists (S k). split; [lia|]. cbn [playN]. rewrite Er. exact Hf.
Qed.
End Lift2.

(* the liveness clause against servers that reject the nick at most K times: 2 * |mechanisms| + 3 + K rounds *)
Theorem liveness_nick c na K sigma : cfg_ok c -> conformantN K sigma ->
  exists k, (k <= 2 * length (c_mechs c) + 3 + K)%nat /\ finishedN (gameN c na sigma k).
Proof.
  intros Hok [cap [tau [Hinit Htau]]]. unfold gameN.
  assert (Hst : after (start c) = false).
  { unfold start, reset, queue_connect, fresh, send, emit, transition. cbn [zombie]. destruct (c_password c); reflexivity. }
  destruct cap.
  - destruct (reachN c Hok na true sigma tau Htau (2 * MM c + 2 + K)%nat (start c) (Nk na false false None) (init_outs c) []) as [k [Hk Hf]].
    + rewrite Hinit. split; [exact Hst|]. split; [reflexivity|]. left. split; [reflexivity|].
      exists (2 * MM c + 2)%nat, (init_outs c). cbn [bad rej app]. split; [left; repeat split|]. split; reflexivity.
    + exists k. split; [unfold MM in Hk; lia|exact Hf].
  - destruct (reachN c Hok na false sigma tau Htau (0 + K)%nat (start c) (Nk na false false None) (init_outs c) []) as [k [Hk Hf]].
    + rewrite Hinit. split; [exact Hst|]. split; [reflexivity|]. left. split; [reflexivity|].
      exists 0%nat, (init_outs c). cbn [bad rej app]. split; [repeat split|]. split; reflexivity.
    + exists k. split; [lia|exact Hf].
Qed.

(* ====================================================================== *)
(* Part 5: the executable rejecting server of Model.v is conformant; witnesses *)
Lemma rejection_ok : rejection_msg rejection.
Proof. exists 433, [s_STAR]. split; [reflexivity|right; left; reflexivity]. Qed.

Lemma answerN_ok v fr t n o : answersN (sv_cap v) fr t o (fst (answerN v fr t n o)) (snd (answerN v fr t n o)).
Proof.
  unfold answersN, answerN. destruct (is_nick_out o).
  - destruct (fr || negb (bad t)); [split; reflexivity|].
    destruct (N.odd n && Nat.ltb 0 (rej t)) eqn:E.
    + left. apply andb_true_iff in E as [_ E]. apply Nat.ltb_lt in E. split; [exact rejection_ok|]. split; [exact E|reflexivity].
    + right. split; [reflexivity|]. cbn [fst]. destruct (due t); [apply welcome_ok|reflexivity].
  - destruct (is_trigger (sv_cap v) o).
    + destruct (bad t); [split; reflexivity|]. split; [apply welcome_ok|reflexivity].
    + split; [apply answer1_ok|reflexivity].
Qed.

Lemma answer_batchN_ok v fr : forall b t ch,
  batchN (sv_cap v) fr t b (fst (answer_batchN v fr t ch b)) (snd (answer_batchN v fr t ch b)).
Proof.
  induction b as [|o b IH]; intros t ch; cbn [answer_batchN]; [constructor|].
  pose proof (answerN_ok v fr t (hd 0 ch) o) as H1. destruct (answerN v fr t (hd 0 ch) o) as [r1 t1]. cbn [fst snd] in H1.
  specialize (IH t1 (tl ch)). destruct (answer_batchN v fr t1 (tl ch) b) as [r2 t2]. cbn [fst snd] in *.
  econstructor; eassumption.
Qed.

Lemma roundN_ok v plan i t ch b : roundR (sv_cap v) t b (fst (roundN v plan i t ch b)) (snd (roundN v plan i t ch b)).
Proof.
  unfold roundN. set (fr := existsb (Nat.eqb i) plan && negb (bad t) && Nat.ltb 0 (rej t)).
  set (t0 := if fr then Sst (pred (rej t)) (due t) true else t).
  pose proof (answer_batchN_ok v fr b t0 ch) as Hb. destruct (answer_batchN v fr t0 ch b) as [rm t']. cbn [fst snd] in *.
  exists fr, (if fr then rejection else []), t0, rm. split; [|split; [exact Hb|reflexivity]].
  unfold t0. destruct fr eqn:E; [right|left; repeat split].
  unfold fr in E. apply andb_true_iff in E as [E E3]. apply andb_true_iff in E as [_ E2].
  apply negb_true_iff in E2. apply Nat.ltb_lt in E3. repeat split; try assumption. exact rejection_ok.
Qed.

Theorem strategyN_conformant v plan K choices : conformantN K (strategyN v plan K choices).
Proof.
  exists (sv_cap v), (fun hist => fst (stateN v plan K choices hist)). split; [intro b; reflexivity|].
  intros b b' hist. unfold strategyN.
  change (stateN v plan K choices (b' :: b :: hist)) with
    (let '(t, i) := stateN v plan K choices (b :: hist) in
     (snd (roundN v plan i t (skipn (length (concat (tl (b :: hist)))) choices) b), S i)).
  destruct (stateN v plan K choices (b :: hist)) as [t i]. cbn [fst tl]. apply roundN_ok.
Qed.

(* ---- witnesses ---- *)
Definition connectedN_in (c : cfg) (na : nat) (sigma : strategy_t) (k : nat) : bool :=
  N.eqb (fsm (fst (fst (gameN c na sigma k)))) CONNECTED && negb (existsb (existsb is_abort) (snd (gameN c na sigma k))).

(* PLAIN succeeds; the nick is rejected during the SASL exchange (round 2); twice, from the start; once after CAP END;
   a server without CAP rejects it twice: CONNECTED within 2 * 1 + 3 + K rounds *)
Example liveness_nick_witnesses :
  connectedN_in (cfg_plain true) 2 (strategyN srv_all [2%nat] 1 []) 6 = true /\
  connectedN_in (cfg_plain true) 2 (strategyN srv_all [0%nat] 2 (repeat 1 3 ++ [1] ++ repeat 0 30)) 7 = true /\
  connectedN_in (cfg_plain true) 2 (strategyN srv_all [4%nat] 1 []) 6 = true /\
  connectedN_in cfg_nosasl 2 (strategyN (Srv false [] true) [0%nat] 2 (repeat 1 40)) 3 = true.
Proof. vm_compute. repeat split. Qed.

(* the old witness of finding C08.F26 (fixed): 2 alternates, 3 rejections: the third candidate is a random variant,
   the NICK is sent, the withheld welcome burst follows: CONNECTED; and 5 rejections in a row after CAP END *)
Example liveness_nick_beyond_alternates :
  connectedN_in (cfg_plain true) 2 (strategyN srv_all [0%nat] 3 (repeat 1 40)) 5 = true /\
  connectedN_in cfg_nosasl 2 (strategyN srv_all [2%nat] 5 (repeat 1 60)) 8 = true.
Proof. vm_compute. repeat split. Qed.
